(* C20 — proofs, summary: the clauses of the property stated on the CODE model (Pool/PoolModel.v, repaired code)
   for ALL operation sequences, obtained from the refinement theorems of
     PoolMaps.v (association lists; slashing and exit pools)   PoolBits.v (byte-level bit lists)
     PoolAtt.v  (attestation pool)                              PoolSync.v (sync-committee pool)
     PoolSafe.v (no panic for arbitrary arguments)
   and the machine-checked witnesses of the defects of the pinned snapshot ([_refuted]). *)
From Coq Require Import NArith List Bool Lia Permutation.
From V Require Import Base.U64 Base.Outcome Pool.PoolModel Pool.PoolSpec.
From V Require Export Pool.PoolMaps Pool.PoolBits Pool.PoolAtt Pool.PoolSync Pool.PoolSafe.
Import ListNotations.
Local Open Scope N_scope.

(* "after the calls [ops], the call [op] answers [o]" *)
Definition a_answers (ops : list aop) (op : aop) (o : aout) : Prop :=
  ap_run fixed ap_init (ops ++ [op]) = ap_run fixed ap_init ops ++ [o].
Definition s_answers (ops : list sop) (op : sop) (o : sout) : Prop :=
  sp_run fixed sp_init (ops ++ [op]) = sp_run fixed sp_init ops ++ [o].
Definition k_answers (ops : list kop) (op : kop) (o : kout) : Prop :=
  kp_run kp_init (ops ++ [op]) = kp_run kp_init ops ++ [o].

Lemma aout_equiv_add o b : aout_equiv o (ARAdd b) -> o = ARAdd b.
Proof. destruct o; simpl; intros H; try discriminate; exact H. Qed.
Lemma aout_equiv_search o l : aout_equiv o (ARSearch l) -> exists l', o = ARSearch l' /\ Permutation l' l.
Proof. destruct o; simpl; intros H; try discriminate. exists l0. split; [reflexivity | exact H]. Qed.
Lemma Permutation_filter {A} (f : A -> bool) l l' : Permutation l l' -> Permutation (filter f l) (filter f l').
Proof.
  induction 1; simpl.
  - constructor.
  - destruct (f x); [constructor|]; assumption.
  - destruct (f x), (f y); try apply Permutation_refl. apply perm_swap.
  - eapply Permutation_trans; eassumption.
Qed.

(* ================================================================================================ *)
(** * add_no_panic *)
Theorem add_no_panic_attestations : forall ops, Forall aop_wf ops -> ~ In ARPanic (ap_run fixed ap_init ops).
Proof. exact ap_no_panic. Qed.
(* ... and for arbitrary byte strings, committees, buffer indices and slots (no well-formedness needed) *)
Theorem never_panics_attestations : forall ops, ~ In ARPanic (ap_run fixed ap_init ops).
Proof. exact ap_never_panics. Qed.
Theorem never_panics_sync : forall ops, ~ In SRPanic (sp_run fixed sp_init ops).
Proof. exact sp_never_panics. Qed.
Theorem add_no_panic_slashings_exits : forall ops, ~ In KRPanic (kp_run kp_init ops).
Proof. exact kp_add_no_panic. Qed.
Theorem add_no_panic_sync : forall ops, Forall sop_ok ops -> ~ In SRPanic (sp_run fixed sp_init ops).
Proof. exact sp_no_panic. Qed.

(* ================================================================================================ *)
(** * add_dup_absorbed *)
(* a stored aggregate added again: nil, and the pool is in the state it was in (every later answer is the same) *)
Theorem add_dup_absorbed_aggregate : forall ops a comm, Forall aop_wf ops -> wf_bits (a_bits a) ->
  In (a, comm) (as_kept (as_after ops)) ->
  a_answers ops (AAdd a comm) (ARAdd true) /\ as_after (ops ++ [AAdd a comm]) = as_after ops.
Proof.
  intros ops a comm Hwf Ha Hin.
  pose proof (as_dup_aggregate (as_after ops) a comm (S_inv_after ops) Hin) as E.
  destruct (ap_next_answer ops (AAdd a comm) Hwf Ha) as [o [Er Ho]].
  cbn [as_step snd] in Ho. rewrite E in Ho. apply aout_equiv_add in Ho. subst o.
  split; [exact Er|]. rewrite as_after_snoc. cbn [as_step fst]. rewrite E. reflexivity.
Qed.
(* a held unaggregated attestation added again (same bit, same committee): nil, nothing changes *)
Theorem add_dup_absorbed_single : forall ops v a comm, Forall aop_wf ops -> wf_bits (a_bits a) ->
  In (v, a) (as_singles (as_after ops)) ->
  count_true (decode (a_bits a)) = 1 -> length (decode (a_bits a)) = length comm ->
  hd 0 (participants (decode (a_bits a)) comm) = v ->
  a_answers ops (AAdd a comm) (ARAdd true) /\ as_after (ops ++ [AAdd a comm]) = as_after ops.
Proof.
  intros ops v a comm Hwf Ha Hin Hc Hl Hv.
  pose proof (as_dup_single (as_after ops) v a comm (S_inv_after ops) Hin Hc Hl Hv) as E.
  destruct (ap_next_answer ops (AAdd a comm) Hwf Ha) as [o [Er Ho]].
  cbn [as_step snd] in Ho. rewrite E in Ho. apply aout_equiv_add in Ho. subst o.
  split; [exact Er|]. rewrite as_after_snoc. cbn [as_step fst]. rewrite E. reflexivity.
Qed.
(* slashings / exits: the same item (or any item under the same key) again: error, nothing changes *)
Theorem add_dup_refused_slashings_exits : forall ops x y, In y (ks_after ops) -> k_key y = k_key x ->
  k_answers ops (KAdd x) (KRAdd false) /\ ks_after (ops ++ [KAdd x]) = ks_after ops.
Proof.
  intros ops x y Hin Hk. pose proof (kp_dup_refused ops x y Hin Hk) as E. split.
  - unfold k_answers. rewrite !kp_refines, ks_fold_run_app. fold (ks_after ops). rewrite E. reflexivity.
  - rewrite ks_after_snoc, E. reflexivity.
Qed.

(* ================================================================================================ *)
(** * add_conflict_reported *)
Theorem add_conflict_reported_single : forall ops v a' a comm, Forall aop_wf ops -> wf_bits (a_bits a) ->
  In (v, a') (as_singles (as_after ops)) ->
  count_true (decode (a_bits a)) = 1 -> length (decode (a_bits a)) = length comm ->
  hd 0 (participants (decode (a_bits a)) comm) = v ->
  tepoch a = tepoch a' -> a_data a <> a_data a' ->
  a_answers ops (AAdd a comm) (ARAdd false) /\ as_after (ops ++ [AAdd a comm]) = as_after ops.
Proof.
  intros ops v a' a comm Hwf Ha Hin Hc Hl Hv He Hd.
  pose proof (as_conflict_single (as_after ops) v a' a comm (S_inv_after ops) Hin Hc Hl Hv He Hd) as E.
  destruct (ap_next_answer ops (AAdd a comm) Hwf Ha) as [o [Er Ho]].
  cbn [as_step snd] in Ho. rewrite E in Ho. apply aout_equiv_add in Ho. subst o.
  split; [exact Er|]. rewrite as_after_snoc. cbn [as_step fst]. rewrite E. reflexivity.
Qed.
Theorem add_conflict_reported_aggregate : forall ops a comm, Forall aop_wf ops -> wf_bits (a_bits a) ->
  2 <= count_true (decode (a_bits a)) -> length (decode (a_bits a)) = length comm ->
  same_data (a_data a) (as_kept (as_after ops)) = [] ->
  (forall v, In v (att_parts (a, comm)) -> voted (as_kept (as_after ops)) v (tepoch a) = true) ->
  a_answers ops (AAdd a comm) (ARAdd false) /\ as_after (ops ++ [AAdd a comm]) = as_after ops.
Proof.
  intros ops a comm Hwf Ha Hc Hl Hs Hv.
  pose proof (as_conflict_aggregate (as_after ops) a comm Hc Hl Hs Hv) as E.
  destruct (ap_next_answer ops (AAdd a comm) Hwf Ha) as [o [Er Ho]].
  cbn [as_step snd] in Ho. rewrite E in Ho. apply aout_equiv_add in Ho. subst o.
  split; [exact Er|]. rewrite as_after_snoc. cbn [as_step fst]. rewrite E. reflexivity.
Qed.

(* ================================================================================================ *)
(** * query_sound *)
Theorem query_sound_attestations : forall ops oslot oidx, Forall aop_wf ops ->
  exists l, a_answers ops (ASearch oslot oidx) (ARSearch l) /\
            forall x, In x l -> q_match oslot oidx (a_data x) = true /\ exists comm, In (AAdd x comm) ops.
Proof.
  intros ops oslot oidx Hwf. destruct (ap_next_answer ops (ASearch oslot oidx) Hwf I) as [o [Er Ho]].
  cbn [as_step snd] in Ho. apply aout_equiv_search in Ho. destruct Ho as [l [-> Hp]].
  exists l. split; [exact Er|]. intros x Hx. apply (as_query_sound ops oslot oidx x).
  eapply Permutation_in; eassumption.
Qed.
Theorem query_sound_slashings_exits : forall ops,
  k_answers ops KAll (KRAll (ks_after ops)) /\ forall x, In x (ks_after ops) -> In x (k_added ops).
Proof. intros ops. split; [apply kp_all_is_spec | apply kp_query_sound]. Qed.
Theorem query_sound_sync : forall ops pos root members, Forall sop_ok ops -> (pos = 0 \/ pos = 1 \/ pos = 2) ->
  s_answers ops (SSelect pos root members) (SRSelect (ss_select (ss_after ops) pos root members)) /\
  forall m, In m (ss_select (ss_after ops) pos root members) ->
    In m (s_added_msgs ops) /\ sm_slot m = pos_slot (ss_cur (ss_after ops)) pos /\ sm_root m = root /\ In (sm_val m) members.
Proof.
  intros ops pos root members Hwf Hpos. split; [|apply ss_select_sound].
  apply (sp_next_answer ops (SSelect pos root members) Hwf). split; [exact I | exact Hpos].
Qed.

(* ================================================================================================ *)
(** * query_complete *)
Theorem query_complete_attestations : forall pre a comm more oslot oidx, Forall aop_wf (pre ++ more) ->
  In (a, comm) (as_kept (as_after pre)) -> not_pruned_by a more -> q_match oslot oidx (a_data a) = true ->
  exists l, a_answers (pre ++ more) (ASearch oslot oidx) (ARSearch l) /\ In a l.
Proof.
  intros pre a comm more oslot oidx Hwf Hin Hnp Hq.
  destruct (ap_next_answer (pre ++ more) (ASearch oslot oidx) Hwf I) as [o [Er Ho]].
  cbn [as_step snd] in Ho. apply aout_equiv_search in Ho. destruct Ho as [l [-> Hp]].
  exists l. split; [exact Er|]. eapply Permutation_in; [apply Permutation_sym; exact Hp|].
  apply (as_query_complete pre a comm more); assumption.
Qed.
Theorem query_complete_slashings_exits : forall ops x more,
  snd (ks_step (ks_after ops) (KAdd x)) = KRAdd true ->
  k_answers (ops ++ KAdd x :: more) KAll (KRAll (ks_after (ops ++ KAdd x :: more))) /\ In x (ks_after (ops ++ KAdd x :: more)).
Proof. intros ops x more H. split; [apply kp_all_is_spec | apply kp_query_complete; exact H]. Qed.

(* ================================================================================================ *)
(** * prune_exact *)
Theorem prune_exact_attestations : forall ops epoch oslot oidx, Forall aop_wf ops ->
  exists l l', a_answers ops (ASearch oslot oidx) (ARSearch l) /\
               a_answers (ops ++ [APrune epoch]) (ASearch oslot oidx) (ARSearch l') /\
               Permutation l' (filter (fun x => includable epoch (tepoch x)) l).
Proof.
  intros ops epoch oslot oidx Hwf.
  destruct (ap_next_answer ops (ASearch oslot oidx) Hwf I) as [o [Er Ho]].
  cbn [as_step snd] in Ho. apply aout_equiv_search in Ho. destruct Ho as [l [-> Hp]].
  assert (Hwf' : Forall aop_wf (ops ++ [APrune epoch])) by (apply Forall_app; split; [exact Hwf | constructor; [exact I | constructor]]).
  destruct (ap_next_answer (ops ++ [APrune epoch]) (ASearch oslot oidx) Hwf' I) as [o' [Er' Ho']].
  cbn [as_step snd] in Ho'. apply aout_equiv_search in Ho'. destruct Ho' as [l' [-> Hp']].
  exists l, l'. split; [exact Er|]. split; [exact Er'|].
  rewrite as_after_snoc in Hp'. cbn [as_step fst] in Hp'.
  rewrite (proj1 (as_prune_exact (as_after ops) epoch oslot oidx)) in Hp'.
  eapply Permutation_trans; [exact Hp'|]. apply Permutation_filter. apply Permutation_sym. exact Hp.
Qed.

(* ================================================================================================ *)
(** * The pinned snapshot: what the unrepaired code does on the witnesses (machine-checked by evaluation) *)
Definition wd : adata := mkData 9 1 1 10.
Definition wcomm : committee := [20; 21; 22; 23].
Definition w01 : att := mkAtt wd [19] 1.        (* bits {0,1} of 4 *)
Definition w23 : att := mkAtt wd [28] 2.        (* bits {2,3} of 4 *)
Definition w12 : att := mkAtt wd [22] 3.        (* bits {1,2} of 4 *)
Definition w2 : att := mkAtt wd [20] 1.         (* bit {2} of 4: unaggregated *)

(* aggPerValidator is a nil map: the first aggregate panics *)
Lemma aggpv_nil_refuted : ap_run pinned ap_init_orig [AAdd w01 wcomm] = [ARPanic].
Proof. vm_compute. reflexivity. Qed.
(* Search dereferences the missing MinAggregates of data that only has unaggregated attestations *)
Lemma search_nil_refuted : ap_run pinned ap_init_orig [AAdd w2 wcomm; ASearch None None] = [ARAdd true; ARPanic].
Proof. vm_compute. reflexivity. Qed.
(* Participants is never OR-ed (all other repairs applied): the duplicate of the second aggregate and a subset of
   the union are stored and returned again; the Spec returns each stored aggregate once *)
Definition fx_no_or : fixes := mkFixes true true false true true true true.
Lemma participants_not_ored_refuted :
  ap_run fx_no_or (ap_init_gen fx_no_or) [AAdd w01 wcomm; AAdd w23 wcomm; AAdd w23 wcomm; AAdd w12 wcomm; ASearch None None]
    = [ARAdd true; ARAdd true; ARAdd true; ARAdd true; ARSearch [w01; w23; w23; w12]] /\
  as_run as_init [AAdd w01 wcomm; AAdd w23 wcomm; AAdd w23 wcomm; AAdd w12 wcomm; ASearch None None]
    = [ARAdd true; ARAdd true; ARAdd true; ARAdd true; ARSearch [w01; w23]].
Proof. split; vm_compute; reflexivity. Qed.
(* no committee-size check on aggregates (all other repairs applied): a committee longer than the bit list's bytes panics *)
Definition fx_no_check : fixes := mkFixes true true true false true true true.
Lemma committee_size_refuted :
  ap_run fx_no_check (ap_init_gen fx_no_check) [AAdd w01 (wcomm ++ [30; 31; 32; 33; 34; 35])] = [ARPanic] /\
  as_run as_init [AAdd w01 (wcomm ++ [30; 31; 32; 33; 34; 35])] = [ARAdd false].
Proof. split; vm_compute; reflexivity. Qed.
(* ... and a committee one longer reads the delimiter bit as the vote of validator 30 *)
Lemma committee_size_delimiter_refuted :
  exists p, add_attestation_gen fx_no_check (ap_init_gen fx_no_check) w01 (wcomm ++ [30]) = Ok (p, true) /\
            nlookup akey_eqb (30, 1) (p_aggpv p) = Some wd.
Proof. eexists. split; vm_compute; reflexivity. Qed.

(* sync pool: the six maps are nil after the pinned constructor *)
Lemma sync_nil_maps_refuted :
  sp_run pinned sp_init_orig [SAddMsg (mkMsg 0 1 3 1)] = [SRPanic] /\
  sp_run pinned sp_init_orig [SReset 0; SAddMsg (mkMsg 0 1 3 1)] = [SRReset; SRPanic] /\
  sp_run pinned sp_init_orig [SAddCon (mkCon max64 1 2 [3] 1)] = [SRPanic] /\
  ss_run ss_init [SAddMsg (mkMsg 0 1 3 1)] = [SRAdd true].
Proof. repeat split; vm_compute; reflexivity. Qed.
(* Select dereferences the nil message of a member that sent nothing (maps initialised) *)
Definition fx_no_select : fixes := mkFixes true true true true true false true.
Lemma select_nil_refuted :
  sp_run fx_no_select (sp_init_gen fx_no_select) [SReset 7; SAddMsg (mkMsg 7 1 3 1); SSelect 1 1 [3; 4]] = [SRReset; SRAdd true; SRPanic] /\
  ss_run ss_init [SReset 7; SAddMsg (mkMsg 7 1 3 1); SSelect 1 1 [3; 4]] = [SRReset; SRAdd true; SRSelect [mkMsg 7 1 3 1]].
Proof. split; vm_compute; reflexivity. Qed.
(* Reset that skips one slot throws away the messages of the slot that is now the previous one *)
Definition fx_no_skip : fixes := mkFixes true true true true true true false.
Lemma reset_skip_refuted :
  sp_run fx_no_skip (sp_init_gen fx_no_skip) [SReset 7; SAddMsg (mkMsg 8 1 3 1); SReset 9; SSelect 0 1 [3]]
    = [SRReset; SRAdd true; SRReset; SRSelect []] /\
  ss_run ss_init [SReset 7; SAddMsg (mkMsg 8 1 3 1); SReset 9; SSelect 0 1 [3]]
    = [SRReset; SRAdd true; SRReset; SRSelect [mkMsg 8 1 3 1]].
Proof. split; vm_compute; reflexivity. Qed.
(* the repaired model on the same witnesses *)
Lemma witnesses_repaired :
  ap_run fixed ap_init [AAdd w01 wcomm; AAdd w23 wcomm; AAdd w23 wcomm; AAdd w12 wcomm; ASearch None None]
    = [ARAdd true; ARAdd true; ARAdd true; ARAdd true; ARSearch [w01; w23]] /\
  ap_run fixed ap_init [AAdd w2 wcomm; ASearch None None] = [ARAdd true; ARSearch []] /\
  ap_run fixed ap_init [AAdd w01 (wcomm ++ [30])] = [ARAdd false] /\
  sp_run fixed sp_init [SReset 7; SAddMsg (mkMsg 8 1 3 1); SReset 9; SSelect 0 1 [3; 4]]
    = [SRReset; SRAdd true; SRReset; SRSelect [mkMsg 8 1 3 1]].
Proof. repeat split; vm_compute; reflexivity. Qed.
