(* C20 proofs (under construction) *)
From V Require Export Pool.PoolMaps.
