(* C20 — proofs, part 5: no call of the repaired pools panics, for ANY arguments — including byte strings that
   are not valid bit lists, committees of any size, any buffer index, any slot.  (The refinement theorems need
   well-formed bit lists; this one does not: it only needs that no map is nil and that every bit index stays
   below BitLen, which the committee-size check guarantees.) *)
From Coq Require Import NArith ZArith List Bool Lia.
From Coq Require Import ZifyN ZifyNat ZifyBool.
From V Require Import Base.U64 Base.Outcome Pool.PoolModel Pool.PoolSpec Pool.PoolMaps Pool.PoolBits.
Import ListNotations.
Local Open Scope N_scope.

Definition returns {A} (o : outcome A) : Prop := match o with Ok _ | Err => True | _ => False end.

(* ------------------------------------------------------------------------------------------------ *)
(** * Attestation pool *)
Lemma sp_loop_returns bits : forall comm i found, i + N.of_nat (length comm) <= bitlist_len bits ->
  returns (sp_loop bits i comm found).
Proof.
  induction comm as [|v rest IH]; intros i found H; cbn [sp_loop]; [exact I|].
  destruct (get_bit_in_range bits i) as [b E]; [cbn [length] in H; lia|]. rewrite E. cbn [bind].
  assert (H' : i + 1 + N.of_nat (length rest) <= bitlist_len bits) by (cbn [length] in H; lia).
  destruct b; [destruct found; [exact I | apply IH; exact H'] | apply IH; exact H'].
Qed.
Lemma single_participant_returns bits comm : returns (single_participant bits comm).
Proof.
  unfold single_participant. destruct (N.eqb_spec (bitlist_len bits) (N.of_nat (length comm))) as [E|E]; [|exact I].
  pose proof (sp_loop_returns bits comm 0 None) as H. destruct (sp_loop bits 0 comm None) as [[v|]| | | |]; simpl in *; try exact I; apply H; lia.
Qed.
Lemma mark_all_ok e root bits : forall comm i m, i + N.of_nat (length comm) <= bitlist_len bits ->
  exists m', mark_all e root bits i comm (Some m) = Ok (Some m').
Proof.
  induction comm as [|v rest IH]; intros i m H; cbn [mark_all]; [eexists; reflexivity|].
  destruct (get_bit_in_range bits i) as [b E]; [cbn [length] in H; lia|]. rewrite E. cbn [bind].
  assert (H' : i + 1 + N.of_nat (length rest) <= bitlist_len bits) by (cbn [length] in H; lia).
  destruct b; apply IH; exact H'.
Qed.
Lemma mark_new_ok e root bits : forall comm i m h, i + N.of_nat (length comm) <= bitlist_len bits ->
  exists m' h', mark_new e root bits i comm (Some m) h = Ok (Some m', h').
Proof.
  induction comm as [|v rest IH]; intros i m h H; cbn [mark_new]; [eexists; eexists; reflexivity|].
  destruct (get_bit_in_range bits i) as [b E]; [cbn [length] in H; lia|]. rewrite E. cbn [bind].
  assert (H' : i + 1 + N.of_nat (length rest) <= bitlist_len bits) by (cbn [length] in H; lia).
  destruct b; [|apply IH; exact H']. cbn [nlookup]. destruct (alookup akey_eqb (v, e) m); apply IH; exact H'.
Qed.
Lemma att_covers_lengths a b r : att_covers a b = Ok r -> length a = length b.
Proof.
  unfold att_covers, bf_covers. destruct (bitlist_len a =? bitlist_len b); [|discriminate].
  destruct (Nat.eqb_spec (length a) (length b)); [auto | discriminate].
Qed.
Lemma att_covers_returns a b : returns (att_covers a b).
Proof. unfold att_covers, bf_covers. destruct (_ =? _); [|exact I]. destruct (Nat.eqb _ _); exact I. Qed.

Definition maps_made (p : apool) : Prop := exists m, p_aggpv p = Some m.

Lemma add_attestation_safe p a comm : maps_made p ->
  exists p' ok, add_attestation p a comm = Ok (p', ok) /\ maps_made p'.
Proof.
  intros [m Hm]. unfold add_attestation, add_attestation_gen. cbn [fx_comm_check fixed andb].
  destruct (ones_count (a_bits a) =? 0); [exists p, false; split; [reflexivity | exists m; exact Hm]|].
  destruct (N.eqb_spec (bitlist_len (a_bits a)) (N.of_nat (length comm))) as [El|El]; cbn [negb];
    [|exists p, false; split; [reflexivity | exists m; exact Hm]].
  set (p1 := store_data p (a_data a) comm).
  assert (Hm1 : p_aggpv p1 = Some m) by (unfold p1, store_data; destruct (alookup _ _ _); exact Hm).
  destruct (ones_count (a_bits a) =? 1).
  - unfold add_single. pose proof (single_participant_returns (a_bits a) comm) as Hr.
    destruct (single_participant (a_bits a) comm) as [v| | | |]; simpl in Hr; try contradiction; cbn [catch_err].
    + destruct (alookup akey_eqb _ (p_indiv p1)) as [[r' sg]|].
      * destruct (data_eqb r' (a_data a)); eexists; eexists; (split; [reflexivity | exists m; exact Hm1]).
      * eexists; eexists; (split; [reflexivity | exists m; exact Hm1]).
    + eexists; eexists; (split; [reflexivity | exists m; exact Hm1]).
  - destruct (alookup data_eqb (a_data a) (p_agg p1)) as [ex|].
    + unfold add_agg_existing. pose proof (att_covers_returns (m_parts ex) (a_bits a)) as Hr.
      destruct (att_covers (m_parts ex) (a_bits a)) as [cv| | | |] eqn:Ec; simpl in Hr; try contradiction; cbn [catch_err].
      * destruct cv.
        -- destruct (_ <? max_extra); eexists; eexists; (split; [reflexivity | exists m; exact Hm1]).
        -- cbn [fx_or_parts fixed]. destruct (bits_or_no_panic _ _ (att_covers_lengths _ _ _ Ec)) as [c Eo]. rewrite Eo. cbn [bind p_aggpv set_agg].
           rewrite Hm1. destruct (mark_all_ok (d_tepoch (a_data a)) (a_data a) (a_bits a) comm 0 m) as [m' Em]; [lia|].
           rewrite Em. cbn [bind]. eexists; eexists; (split; [reflexivity | exists m'; reflexivity]).
      * eexists; eexists; (split; [reflexivity | exists m; exact Hm1]).
    + unfold add_agg_new. rewrite Hm1.
      destruct (mark_new_ok (d_tepoch (a_data a)) (a_data a) (a_bits a) comm 0 m false) as [m' [h' Em]]; [lia|].
      rewrite Em. cbn [bind fst snd]. destruct h'; eexists; eexists; (split; [reflexivity | exists m'; reflexivity]).
Qed.
Lemma search_safe p oslot oidx : exists l, search p oslot oidx = Ok l.
Proof.
  unfold search, search_gen. induction (p_datas p) as [|[d c] ds IH]; cbn [search_loop]; [eexists; reflexivity|].
  destruct IH as [l IH]. destruct (negb _); [eexists; exact IH|]. destruct (negb _); [eexists; exact IH|].
  destruct (alookup data_eqb d (p_agg p)); cbn [fx_search_nil fixed]; [rewrite IH; eexists; reflexivity | eexists; exact IH].
Qed.
Lemma ap_step_safe p op : maps_made p -> exists p' o, ap_step fixed p op = (Some p', o) /\ o <> ARPanic /\ maps_made p'.
Proof.
  intros Hm. destruct op as [a comm|oslot oidx|epoch|]; cbn [ap_step].
  - destruct (add_attestation_safe p a comm Hm) as [p' [ok [E Hm']]]. fold add_attestation. rewrite E.
    exists p', (ARAdd ok). split; [reflexivity | split; [discriminate | exact Hm']].
  - destruct (search_safe p oslot oidx) as [l E]. fold search. rewrite E.
    exists p, (ARSearch l). split; [reflexivity | split; [discriminate | exact Hm]].
  - exists (prune p epoch), ARPrune. split; [reflexivity | split; [discriminate|]].
    destruct Hm as [m Hm]. unfold maps_made, prune. cbn [p_aggpv]. rewrite Hm. eexists. reflexivity.
  - exists p, (ARDump (indiv_view p)). split; [reflexivity | split; [discriminate | exact Hm]].
Qed.
Theorem ap_never_panics : forall ops, ~ In ARPanic (ap_run fixed ap_init ops).
Proof.
  assert (H : forall ops p, maps_made p -> ~ In ARPanic (ap_run fixed p ops)).
  { induction ops as [|op ops IH]; intros p Hm; cbn [ap_run]; [simpl; tauto|].
    destruct (ap_step_safe p op Hm) as [p' [o [E [Ho Hm']]]]. rewrite E.
    intros [H|H]; [exact (Ho H) | exact (IH p' Hm' H)]. }
  intros ops. apply H. exists []. reflexivity.
Qed.

(* ------------------------------------------------------------------------------------------------ *)
(** * Sync committee pool *)
Definition bufs_made (s : spool) : Prop :=
  (exists m, s_pc s = Some m) /\ (exists m, s_cc s = Some m) /\ (exists m, s_nc s = Some m) /\
  (exists m, s_pm s = Some m) /\ (exists m, s_cm s = Some m) /\ (exists m, s_nm s = Some m).
Lemma get_msg_made s pos : bufs_made s -> exists m, get_msg s pos = Some m.
Proof. intros [_ [_ [_ [H1 [H2 H3]]]]]. unfold get_msg. destruct (pos =? 0); [exact H1|]. destruct (pos =? 1); assumption. Qed.
Lemma get_con_made s pos : bufs_made s -> exists m, get_con s pos = Some m.
Proof. intros [H1 [H2 [H3 _]]]. unfold get_con. destruct (pos =? 0); [exact H1|]. destruct (pos =? 1); assumption. Qed.
Lemma set_msg_made s pos m : bufs_made s -> bufs_made (set_msg s pos (Some m)).
Proof.
  intros [H1 [H2 [H3 [H4 [H5 H6]]]]]. unfold set_msg, bufs_made.
  destruct (pos =? 0); [|destruct (pos =? 1)]; cbn [s_pc s_cc s_nc s_pm s_cm s_nm]; repeat split; try assumption; eexists; reflexivity.
Qed.
Lemma set_con_made s pos m : bufs_made s -> bufs_made (set_con s pos (Some m)).
Proof.
  intros [H1 [H2 [H3 [H4 [H5 H6]]]]]. unfold set_con, bufs_made.
  destruct (pos =? 0); [|destruct (pos =? 1)]; cbn [s_pc s_cc s_nc s_pm s_cm s_nm]; repeat split; try assumption; eexists; reflexivity.
Qed.
Lemma reset_made s slot : bufs_made s -> bufs_made (reset s slot).
Proof.
  intros [H1 [H2 [H3 [H4 [H5 H6]]]]]. unfold reset, reset_gen, bufs_made. cbn [fx_reset_skip fixed andb].
  repeat match goal with |- context [if ?c then _ else _] => destruct c end;
    cbn [s_pc s_cc s_nc s_pm s_cm s_nm]; repeat split; try assumption; eexists; reflexivity.
Qed.
Lemma select_safe m root members : exists l, select (Some m) root members = Ok l.
Proof.
  induction members as [|v rest IH]; cbn [select select_gen nlookup]; [eexists; reflexivity|].
  fold (select (Some m) root rest). destruct IH as [l IH]. rewrite IH.
  destruct (alookup N.eqb v m); cbn [fx_select_nil fixed bind]; eexists; reflexivity.
Qed.
Lemma sp_step_safe s op : bufs_made s -> exists s' o, sp_step fixed s op = (Some s', o) /\ o <> SRPanic /\ bufs_made s'.
Proof.
  intros Hm. destruct op as [m|c|slot|pos root ms|pos root sub|]; cbn [sp_step].
  - unfold add_msg. destruct (sync_pos (s_cur s) (sm_slot m)) as [pos|].
    + destruct (get_msg_made s pos Hm) as [mm E]. rewrite E.
      eexists; eexists; (split; [reflexivity | split; [discriminate | apply set_msg_made; exact Hm]]).
    + eexists; eexists; (split; [reflexivity | split; [discriminate | exact Hm]]).
  - unfold add_contrib. destruct (sync_pos (s_cur s) (sc_slot c)) as [pos|].
    + destruct (get_con_made s pos Hm) as [mm E]. rewrite E. cbn [nlookup].
      destruct (alookup N.eqb (sc_root c) mm); eexists; eexists; (split; [reflexivity | split; [discriminate | apply set_con_made; exact Hm]]).
    + eexists; eexists; (split; [reflexivity | split; [discriminate | exact Hm]]).
  - eexists; eexists; (split; [reflexivity | split; [discriminate | apply reset_made; exact Hm]]).
  - destruct (get_msg_made s pos Hm) as [mm E]. rewrite E. destruct (select_safe mm root ms) as [l El].
    fold (select (Some mm) root ms). rewrite El.
    eexists; eexists; (split; [reflexivity | split; [discriminate | exact Hm]]).
  - eexists; eexists; (split; [reflexivity | split; [discriminate | exact Hm]]).
  - eexists; eexists; (split; [reflexivity | split; [discriminate | exact Hm]]).
Qed.
Theorem sp_never_panics : forall ops, ~ In SRPanic (sp_run fixed sp_init ops).
Proof.
  assert (H : forall ops s, bufs_made s -> ~ In SRPanic (sp_run fixed s ops)).
  { induction ops as [|op ops IH]; intros s Hm; cbn [sp_run]; [simpl; tauto|].
    destruct (sp_step_safe s op Hm) as [s' [o [E [Ho Hm']]]]. rewrite E.
    intros [H|H]; [exact (Ho H) | exact (IH s' Hm' H)]. }
  intros ops. apply H. unfold bufs_made, sp_init, sp_init_gen. cbn. repeat split; eexists; reflexivity.
Qed.
