(* C20 — proofs, part 1: association lists as Go maps; the slashing and exit pools. *)
From Coq Require Import NArith List Bool Lia Permutation.
From Coq Require Import ZifyN ZifyNat ZifyBool.
From V Require Import Base.U64 Base.Outcome Pool.PoolModel Pool.PoolSpec.
Import ListNotations.
Local Open Scope N_scope.

(* ================================================================================================ *)
(** * A. Association lists *)
Section AMapFacts.
  Context {K V : Type}.
  Variable keqb : K -> K -> bool.
  Variable keqb_spec : forall a b, keqb a b = true <-> a = b.

  Lemma keqb_refl a : keqb a a = true.
  Proof. apply keqb_spec. reflexivity. Qed.
  Lemma keqb_neq a b : a <> b -> keqb a b = false.
  Proof. intros H. destruct (keqb a b) eqn:E; [apply keqb_spec in E; contradiction | reflexivity]. Qed.
  Lemma keqb_false a b : keqb a b = false -> a <> b.
  Proof. intros E H. subst. rewrite keqb_refl in E. discriminate. Qed.

  Lemma alookup_ainsert_eq k (v : V) m : alookup keqb k (ainsert keqb k v m) = Some v.
  Proof.
    induction m as [|[k' v'] m IH]; simpl.
    - rewrite keqb_refl. reflexivity.
    - destruct (keqb k k') eqn:E; simpl; [rewrite keqb_refl; reflexivity | rewrite E; exact IH].
  Qed.
  Lemma alookup_ainsert_ne k k' (v : V) m : k <> k' -> alookup keqb k (ainsert keqb k' v m) = alookup keqb k m.
  Proof.
    intros Hne. induction m as [|[k2 v2] m IH]; simpl.
    - rewrite keqb_neq by exact Hne. reflexivity.
    - destruct (keqb k' k2) eqn:E; simpl.
      + apply keqb_spec in E. subst k2. rewrite keqb_neq by exact Hne. reflexivity.
      + destruct (keqb k k2); [reflexivity | exact IH].
  Qed.
  Lemma alookup_ainsert k k' (v : V) m :
    alookup keqb k (ainsert keqb k' v m) = if keqb k k' then Some v else alookup keqb k m.
  Proof.
    destruct (keqb k k') eqn:E.
    - apply keqb_spec in E. subst. apply alookup_ainsert_eq.
    - apply alookup_ainsert_ne. apply keqb_false. exact E.
  Qed.
  Lemma ainsert_fresh k (v : V) m : alookup keqb k m = None -> ainsert keqb k v m = m ++ [(k, v)].
  Proof.
    induction m as [|[k' v'] m IH]; simpl; intros H; [reflexivity|].
    destruct (keqb k k'); [discriminate|]. rewrite IH by exact H. reflexivity.
  Qed.
  Lemma alookup_app k (m1 m2 : list (K * V)) :
    alookup keqb k (m1 ++ m2) = match alookup keqb k m1 with Some v => Some v | None => alookup keqb k m2 end.
  Proof.
    induction m1 as [|[k' v'] m1 IH]; simpl; [reflexivity|]. destruct (keqb k k'); [reflexivity | exact IH].
  Qed.
  Lemma alookup_none_iff k (m : list (K * V)) : alookup keqb k m = None <-> ~ In k (map fst m).
  Proof.
    induction m as [|[k' v'] m IH]; simpl; [tauto|].
    destruct (keqb k k') eqn:E.
    - apply keqb_spec in E. subst. split; [discriminate | intros H; exfalso; apply H; left; reflexivity].
    - apply keqb_false in E. rewrite IH. split; [intros H [H1|H1]; [congruence | contradiction] | tauto].
  Qed.
  Lemma alookup_not_none_in k (m : list (K * V)) : alookup keqb k m <> None -> In k (map fst m).
  Proof.
    induction m as [|[k' v'] m IH]; simpl; [congruence|].
    destruct (keqb k k') eqn:E; intros H.
    - apply keqb_spec in E. left. congruence.
    - right. apply IH. exact H.
  Qed.
  Lemma alookup_some_in k (v : V) m : alookup keqb k m = Some v -> In (k, v) m.
  Proof.
    induction m as [|[k' v'] m IH]; simpl; [discriminate|].
    destruct (keqb k k') eqn:E; intros H.
    - apply keqb_spec in E. inversion H. subst. left. reflexivity.
    - right. apply IH. exact H.
  Qed.
  Lemma ainsert_keys_present k (v : V) m : alookup keqb k m <> None -> map fst (ainsert keqb k v m) = map fst m.
  Proof.
    induction m as [|[k' v'] m IH]; simpl; [congruence|].
    destruct (keqb k k') eqn:E; simpl; intros H.
    - apply keqb_spec in E. subst. reflexivity.
    - rewrite IH by exact H. reflexivity.
  Qed.
  Lemma ainsert_keys k (v : V) m :
    map fst (ainsert keqb k v m) = match alookup keqb k m with Some _ => map fst m | None => map fst m ++ [k] end.
  Proof.
    destruct (alookup keqb k m) eqn:E.
    - apply ainsert_keys_present. congruence.
    - rewrite ainsert_fresh by exact E. rewrite map_app. reflexivity.
  Qed.
  Lemma ainsert_nodup k (v : V) m : NoDup (map fst m) -> NoDup (map fst (ainsert keqb k v m)).
  Proof.
    intros H. rewrite ainsert_keys. destruct (alookup keqb k m) eqn:E; [exact H|].
    apply alookup_none_iff in E.
    apply NoDup_rev in H. rewrite <- (rev_involutive (map fst m ++ [k])). apply NoDup_rev.
    rewrite rev_app_distr. simpl. constructor; [rewrite <- in_rev; exact E | exact H].
  Qed.
  Lemma alookup_filter_keys (f : K -> bool) k (m : list (K * V)) :
    alookup keqb k (filter (fun kv => f (fst kv)) m) = if f k then alookup keqb k m else None.
  Proof.
    induction m as [|[k' v'] m IH]; simpl; [destruct (f k); reflexivity|].
    destruct (f k') eqn:Ef; simpl.
    - destruct (keqb k k') eqn:E; [apply keqb_spec in E; subst; rewrite Ef; reflexivity | exact IH].
    - rewrite IH. destruct (keqb k k') eqn:E; [apply keqb_spec in E; subst; rewrite Ef; reflexivity | reflexivity].
  Qed.
  Lemma alookup_aremove k k' (m : list (K * V)) :
    alookup keqb k (aremove keqb k' m) = if keqb k' k then None else alookup keqb k m.
  Proof.
    unfold aremove. rewrite (alookup_filter_keys (fun x => negb (keqb k' x))).
    destruct (keqb k' k); reflexivity.
  Qed.
  Lemma filter_keys_nodup (f : K * V -> bool) (m : list (K * V)) : NoDup (map fst m) -> NoDup (map fst (filter f m)).
  Proof.
    induction m as [|[k' v'] m IH]; simpl; intros H; [constructor|].
    inversion H as [|? ? Hn Hd]; subst.
    destruct (f (k', v')); simpl; [|apply IH; exact Hd].
    constructor; [|apply IH; exact Hd].
    intros Hin. apply Hn. apply in_map_iff in Hin. destruct Hin as [[k2 v2] [E Hin]]. simpl in E. subst.
    apply filter_In in Hin. apply in_map_iff. exists (k', v2). split; [reflexivity | tauto].
  Qed.
End AMapFacts.

Lemma data_eqb_spec a b : data_eqb a b = true <-> a = b.
Proof.
  unfold data_eqb. destruct a, b; simpl. rewrite !andb_true_iff, !N.eqb_eq. split.
  - intros [[[? ?] ?] ?]. subst. reflexivity.
  - intros H. inversion H. auto.
Qed.
Lemma akey_eqb_spec a b : akey_eqb a b = true <-> a = b.
Proof.
  unfold akey_eqb. destruct a, b; simpl. rewrite andb_true_iff, !N.eqb_eq. split.
  - intros [? ?]. subst. reflexivity.
  - intros H. inversion H. auto.
Qed.
Lemma Neqb_spec a b : N.eqb a b = true <-> a = b.
Proof. apply N.eqb_eq. Qed.

(* ================================================================================================ *)
(** * B. Slashing and exit pools *)
Definition kp_rel (p : kpool) (s : kspec) : Prop := p = map (fun x => (k_key x, x)) s.

Lemma kp_lookup_exists s x :
  alookup N.eqb (k_key x) (map (fun y => (k_key y, y)) s) = None <-> existsb (fun y => k_key y =? k_key x) s = false.
Proof.
  induction s as [|y s IH]; simpl; [tauto|].
  rewrite (N.eqb_sym (k_key y)). destruct (k_key x =? k_key y); simpl; [split; discriminate | exact IH].
Qed.

Lemma kp_step_rel p s op : kp_rel p s ->
  exists p', kp_step p op = (Some p', snd (ks_step s op)) /\ kp_rel p' (fst (ks_step s op)).
Proof.
  unfold kp_rel. intros ->. destruct op as [x|]; simpl.
  - unfold kp_add, ks_add.
    destruct (alookup N.eqb (k_key x) (map (fun y => (k_key y, y)) s)) eqn:E.
    + assert (Hex : existsb (fun y => k_key y =? k_key x) s = true).
      { destruct (existsb (fun y => k_key y =? k_key x) s) eqn:E2; [reflexivity|].
        apply kp_lookup_exists in E2. congruence. }
      rewrite Hex. simpl. eexists. split; reflexivity.
    + pose proof (proj1 (kp_lookup_exists s x) E) as Hex. rewrite Hex. simpl.
      eexists. split; [reflexivity|]. rewrite (ainsert_fresh N.eqb) by exact E.
      rewrite map_app. reflexivity.
  - eexists. split; [|reflexivity]. unfold kp_all, ks_all. rewrite map_map. simpl. rewrite map_id. reflexivity.
Qed.

Lemma kp_run_rel : forall ops p s, kp_rel p s -> kp_run p ops = ks_run s ops.
Proof.
  induction ops as [|op ops IH]; intros p s R; simpl; [reflexivity|].
  destruct (kp_step_rel p s op R) as [p' [E R']]. rewrite E. f_equal. apply IH. exact R'.
Qed.
(* refinement: on every operation sequence the pool answers what the list-of-accepted-items Spec answers *)
Theorem kp_refines : forall ops, kp_run kp_init ops = ks_run ks_init ops.
Proof. intros ops. apply kp_run_rel. reflexivity. Qed.

Lemma ks_run_no_panic : forall ops s, ~ In KRPanic (ks_run s ops).
Proof.
  induction ops as [|op ops IH]; intros s; simpl; [tauto|].
  intros [H|H]; [destruct op; simpl in H; discriminate | exact (IH _ H)].
Qed.
Theorem kp_add_no_panic : forall ops, ~ In KRPanic (kp_run kp_init ops).
Proof. intros ops. rewrite kp_refines. apply ks_run_no_panic. Qed.

(* state reached by a sequence (the Spec has no failure, so this is a plain fold) *)
Definition ks_after (ops : list kop) : kspec := fold_left (fun s op => fst (ks_step s op)) ops ks_init.
Definition k_added (ops : list kop) : list kitem :=
  flat_map (fun op => match op with KAdd x => [x] | KAll => [] end) ops.

Lemma ks_fold_run_app : forall ops s op,
  ks_run s (ops ++ [op]) = ks_run s ops ++ [snd (ks_step (fold_left (fun s op => fst (ks_step s op)) ops s) op)].
Proof.
  induction ops as [|o ops IH]; intros s op; simpl; [reflexivity|]. rewrite IH. reflexivity.
Qed.
(* what a query after [ops] returns *)
Theorem kp_all_is_spec : forall ops, kp_run kp_init (ops ++ [KAll]) = kp_run kp_init ops ++ [KRAll (ks_after ops)].
Proof. intros ops. rewrite !kp_refines. rewrite ks_fold_run_app. reflexivity. Qed.

Lemma ks_after_snoc ops op : ks_after (ops ++ [op]) = fst (ks_step (ks_after ops) op).
Proof. unfold ks_after. rewrite fold_left_app. reflexivity. Qed.

(* query_sound: everything returned was added (unaltered: it is the very item of the add) *)
Theorem kp_query_sound : forall ops x, In x (ks_after ops) -> In x (k_added ops).
Proof.
  intros ops. induction ops as [|op ops IH] using rev_ind; intros x; [simpl; tauto|].
  rewrite ks_after_snoc. unfold k_added. rewrite flat_map_app. simpl. rewrite in_app_iff.
  destruct op as [y|]; simpl.
  - unfold ks_add. destruct (existsb _ _); simpl; [intros H; left; apply IH; exact H|].
    rewrite in_app_iff. simpl. intros [H|[H|[]]]; [left; apply IH; exact H | right; left; exact H].
  - intros H. left. apply IH. exact H.
Qed.
(* query_complete: an accepted item is returned by every later query (there is no pruning in these pools) *)
Theorem kp_query_complete : forall ops x more,
  snd (ks_step (ks_after ops) (KAdd x)) = KRAdd true -> In x (ks_after (ops ++ KAdd x :: more)).
Proof.
  intros ops x more H.
  assert (Hin : In x (ks_after (ops ++ [KAdd x]))).
  { rewrite ks_after_snoc. simpl in *. unfold ks_add in *. destruct (existsb _ _); simpl in *; [discriminate|].
    apply in_or_app. right. left. reflexivity. }
  replace (ops ++ KAdd x :: more) with ((ops ++ [KAdd x]) ++ more) by (rewrite <- app_assoc; reflexivity).
  generalize dependent (ops ++ [KAdd x]). intros pre Hin.
  induction more as [|op more IH] using rev_ind; [rewrite app_nil_r; exact Hin|].
  rewrite app_assoc, ks_after_snoc. destruct op as [y|]; simpl; [|exact IH].
  unfold ks_add. destruct (existsb _ _); simpl; [exact IH | apply in_or_app; left; exact IH].
Qed.
(* duplicate / second item under the same key: refused with an error, pool unchanged *)
Theorem kp_dup_refused : forall ops x y, In y (ks_after ops) -> k_key y = k_key x ->
  ks_step (ks_after ops) (KAdd x) = (ks_after ops, KRAdd false).
Proof.
  intros ops x y Hin Hk. simpl. unfold ks_add.
  assert (E : existsb (fun y0 => k_key y0 =? k_key x) (ks_after ops) = true).
  { apply existsb_exists. exists y. split; [exact Hin | apply N.eqb_eq; exact Hk]. }
  rewrite E. reflexivity.
Qed.
(* at most one item per key is ever held *)
Theorem kp_keys_unique : forall ops, NoDup (map k_key (ks_after ops)).
Proof.
  intros ops. induction ops as [|op ops IH] using rev_ind; [constructor|].
  rewrite ks_after_snoc. destruct op as [x|]; simpl; [|exact IH].
  unfold ks_add. destruct (existsb _ _) eqn:E; simpl; [exact IH|].
  rewrite map_app. simpl. apply NoDup_rev in IH. rewrite <- (rev_involutive (_ ++ _)). apply NoDup_rev.
  rewrite rev_app_distr. simpl. constructor; [|exact IH].
  rewrite <- in_rev. intros Hin. apply in_map_iff in Hin. destruct Hin as [y [Hk Hy]].
  assert (existsb (fun y0 => k_key y0 =? k_key x) (ks_after ops) = true); [|congruence].
  apply existsb_exists. exists y. split; [exact Hy | apply N.eqb_eq; exact Hk].
Qed.
