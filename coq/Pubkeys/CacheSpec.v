(* C16 — Spec of the pubkey cache: every handle denotes a plain list of pubkeys (the deposit history it
   was built along).  No proofs here.

   Vocabulary shared with the Impl model (CacheModel.v): pubkeys, operations, observable outputs, `run`.

   Domain.  A deposit history registers each pubkey at most once (a deposit for a registered pubkey is a
   top-up, not a new validator), so histories are duplicate-free lists; `s_add` keeps them so: an add that
   would register an already registered pubkey a second time (at a later index) is refused with an error. *)
From Coq Require Import NArith List Bool Arith.
From V Require Import Base.Outcome.
Import ListNotations.

Definition pubkey := N.            (* the harness numbers its (real, 48-byte) BLS pubkeys 0,1,2,... *)

(* ---------- one history ---------- *)
(* position of the first occurrence *)
Fixpoint index_of (p : pubkey) (l : list pubkey) : option nat :=
  match l with
  | [] => None
  | q :: r => if N.eqb q p then Some 0 else option_map S (index_of p r)
  end.

Definition s_pubkey (l : list pubkey) (i : nat) : option pubkey := nth_error l i.
Definition s_index (l : list pubkey) (p : pubkey) : option nat := index_of p l.

Definition opt_pub_eqb (o : option pubkey) (p : pubkey) : bool :=
  match o with Some q => N.eqb q p | None => false end.

Inductive add_res :=
| ANoop                         (* the pair is already on this history: same handle, nothing changes *)
| AAppend                       (* index = length, new pubkey: the handle's own history grows by one *)
| AFork (l' : list pubkey)      (* conflict: a NEW handle with history l'; the old handle is untouched *)
| AError.                       (* gap (index > length), or the pubkey is already registered earlier *)

Definition s_add (l : list pubkey) (i : nat) (p : pubkey) : add_res :=
  if opt_pub_eqb (nth_error l i) p then ANoop
  else match index_of p l with
       | Some j =>                     (* p registered at j <> i *)
           if i <? j then AFork (firstn i l ++ [p])   (* branch off before p's registration *)
           else AError                                (* p would be registered twice on one history *)
       | None =>
           if i <? length l then AFork (firstn i l ++ [p])
           else if i =? length l then AAppend
           else AError
       end.

(* ---------- operations on handle variables ---------- *)
(* The client holds handle variables 0..n-1 (EpochsContext.ValidatorPubkeyCache of n states).  An add is
   issued on variable v; on success the returned handle is stored in variable dst (dst = v: the state
   advances; dst = number of variables: a new state forked off; other dst: that state is dropped). *)
Inductive op :=
| OAdd (v dst i : nat) (p : pubkey)
| OPub (v i : nat)
| OIdx (v : nat) (p : pubkey)
| ODup (v : nat).              (* a state is copied with its context (state.CopyState + epc.Clone): a new
                                  variable holding the SAME handle *)

Inductive obs :=
| VAdd (same : bool)            (* returned handle is the receiver itself / a fresh handle *)
| VPub (o : option pubkey)
| VIdx (o : option nat)
| VDup
| VNoHandle.                    (* no such handle variable: the op is skipped *)
Definition out := outcome obs.  (* Err = AddValidator returned an error *)

Definition put {A} (l : list A) (k : nat) (x : A) : list A :=
  if k <? length l then firstn k l ++ x :: skipn (S k) l else l ++ [x].

Fixpoint run {St} (step : St -> op -> St * out) (s : St) (ops : list op) : list out :=
  match ops with
  | [] => []
  | o :: r => let '(s', x) := step s o in x :: run step s' r
  end.
(* the state after a run (for invariants and non-vacuity examples) *)
Fixpoint run_state {St} (step : St -> op -> St * out) (s : St) (ops : list op) : St :=
  match ops with
  | [] => s
  | o :: r => run_state step (fst (step s o)) r
  end.

(* ---------- Spec state: history cells and handle variables ---------- *)
(* Two variables may hold the same handle (the same cell): an in-place append through one is seen through
   the other, exactly as two Go states sharing one *PubkeyCache. *)
Record sstate := mkS { cells : list (list pubkey); svars : list nat }.

Definition cell (s : sstate) (c : nat) : list pubkey := nth c (cells s) [].

Definition s_init (l : list pubkey) : sstate := mkS [l] [0].

Definition s_step (s : sstate) (o : op) : sstate * out :=
  match o with
  | OPub v i =>
      match nth_error (svars s) v with
      | None => (s, Ok VNoHandle)
      | Some c => (s, Ok (VPub (s_pubkey (cell s c) i)))
      end
  | OIdx v p =>
      match nth_error (svars s) v with
      | None => (s, Ok VNoHandle)
      | Some c => (s, Ok (VIdx (s_index (cell s c) p)))
      end
  | ODup v =>
      match nth_error (svars s) v with
      | None => (s, Ok VNoHandle)
      | Some c => (mkS (cells s) (svars s ++ [c]), Ok VDup)
      end
  | OAdd v dst i p =>
      match nth_error (svars s) v with
      | None => (s, Ok VNoHandle)
      | Some c =>
          match s_add (cell s c) i p with
          | ANoop => (mkS (cells s) (put (svars s) dst c), Ok (VAdd true))
          | AAppend => (mkS (put (cells s) c (cell s c ++ [p])) (put (svars s) dst c), Ok (VAdd true))
          | AFork l' => (mkS (cells s ++ [l']) (put (svars s) dst (length (cells s))), Ok (VAdd false))
          | AError => (s, Err)
          end
      end
  end.
