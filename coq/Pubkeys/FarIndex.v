(* Indices far beyond a history: the Spec refuses them, whatever their value.  Used by the correspondence runner
   (CacheRun.v) to evaluate calls with indices of 2^62..2^64-1 (nat is unary) at a clamped index: by cache_refines the Impl
   model answers exactly as the Spec on every operation sequence, and by s_step_far the Spec's answer and next state do not
   depend on which beyond-the-frontier index was used. *)
From Coq Require Import List Arith Lia Bool NArith.
From V Require Import Base.Outcome Pubkeys.CacheSpec.
Import ListNotations.

Lemma index_of_lt p l j : index_of p l = Some j -> j < length l.
Proof.
  revert j; induction l as [|q r IH]; cbn [index_of length]; intros j H; [discriminate|].
  destruct (N.eqb q p).
  - injection H as <-. lia.
  - destruct (index_of p r) as [k|]; cbn [option_map] in H; [|discriminate].
    injection H as <-. specialize (IH k eq_refl). lia.
Qed.

Lemma s_add_far l i p : length l < i -> s_add l i p = AError.
Proof.
  intros Hi. unfold s_add.
  assert (Hn : nth_error l i = None) by (apply nth_error_None; lia).
  rewrite Hn. cbn [opt_pub_eqb].
  destruct (index_of p l) as [j|] eqn:Hj.
  - apply index_of_lt in Hj.
    destruct (Nat.ltb_spec i j) as [H|H]; [lia|reflexivity].
  - destruct (Nat.ltb_spec i (length l)) as [H|H]; [lia|].
    destruct (Nat.eqb_spec i (length l)) as [H2|H2]; [lia|reflexivity].
Qed.

(* the Spec's step for an add whose index lies beyond the handle's history does not depend on the index *)
Theorem s_step_far s v dst i j p c :
  nth_error (svars s) v = Some c -> length (cell s c) < i -> length (cell s c) < j ->
  s_step s (OAdd v dst i p) = s_step s (OAdd v dst j p).
Proof.
  intros Hv Hi Hj. cbn [s_step]. rewrite Hv, (s_add_far _ i p Hi), (s_add_far _ j p Hj). reflexivity.
Qed.
(* and it is a refusal that changes nothing *)
Theorem s_step_far_refused s v dst i p c :
  nth_error (svars s) v = Some c -> length (cell s c) < i -> s_step s (OAdd v dst i p) = (s, Err).
Proof. intros Hv Hi. cbn [s_step]. rewrite Hv, (s_add_far _ i p Hi). reflexivity. Qed.
Print Assumptions s_step_far.
