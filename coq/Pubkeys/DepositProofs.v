(* C16, deposit level — proofs: along every sequence of state copies and deposits, the cache handle of each
   context denotes a history that extends that context's own validator registry; ProcessDeposit's cache-based
   "exists" test equals registry membership; the cache never refuses the add. *)
From Coq Require Import NArith List Bool Arith Lia.
From V Require Import Base.Outcome Pubkeys.CacheSpec Pubkeys.CacheModel Pubkeys.CacheProofs Pubkeys.DepositModel.
Import ListNotations.

Lemma known_registry_index r p :
  known_by_registry r p = match index_of p r with Some _ => true | None => false end.
Proof.
  unfold known_by_registry. induction r as [|q r IH]; simpl; [reflexivity|].
  destruct (N.eqb q p); simpl; [reflexivity|]. rewrite IH. now destruct (index_of p r).
Qed.

(* ---------- Spec-level invariant ---------- *)
Definition dinv (t : sstate) (regs : list (list pubkey)) : Prop :=
  length regs = length (svars t) /\
  (forall c r k, nth_error regs c = Some r -> nth_error (svars t) c = Some k ->
     exists tail, nth_error (cells t) k = Some (r ++ tail)) /\
  (forall k L, nth_error (cells t) k = Some L -> NoDup L).

Lemma dinv_init l : NoDup l -> dinv (s_init l) [l].
Proof.
  intros Hl. split; [reflexivity|]. split.
  - intros [|c] r k; simpl; [|destruct c; discriminate]. intros E1 E2. inversion E1; inversion E2; subst.
    exists []. simpl. now rewrite app_nil_r.
  - intros [|k] L; simpl; [|destruct k; discriminate]. intros E; inversion E; now subst.
Qed.

Lemma nth_error_put_new {A} (l : list A) x : nth_error (put l (length l) x) (length l) = Some x.
Proof.
  unfold put. destruct (Nat.ltb_spec (length l) (length l)); [lia|].
  rewrite nth_error_app2 by lia. now rewrite Nat.sub_diag.
Qed.

Lemma NoDup_app_r {A} (a b : list A) : NoDup (a ++ b) -> NoDup b.
Proof. induction a as [|x r IH]; simpl; intros H; [exact H|]. inversion H; auto. Qed.

(* a key that is not in the registry, added at index |registry| to a handle whose history extends the registry:
   never refused; afterwards the handle stored back denotes registry ++ [p] (+ what a sibling has beyond) *)
Lemma s_add_new_key t regs c r k tail p : dinv t regs ->
  nth_error regs c = Some r -> nth_error (svars t) c = Some k ->
  nth_error (cells t) k = Some (r ++ tail) -> index_of p r = None ->
  exists t' b, s_step t (OAdd c c (length r) p) = (t', Ok (VAdd b)) /\ dinv t' (put regs c (r ++ [p])).
Proof.
  intros (Hlen & Hpre & Hnd) Er Ek Hk Epr.
  assert (Hc : c < length (svars t)) by (apply nth_error_Some; rewrite Ek; discriminate).
  pose proof (Hnd _ _ Hk) as HndL.
  assert (Hcell : cell t k = r ++ tail) by (now apply cell_of).
  assert (Hpr : ~ In p r) by now apply index_of_none.
  assert (Hndr : NoDup r) by (eapply NoDup_app_l; eauto).
  assert (Hcr : c < length regs) by lia.
  unfold s_step. rewrite Ek, Hcell. unfold s_add.
  rewrite nth_error_app2 by lia. rewrite Nat.sub_diag.
  assert (Hfirst : firstn (length r) (r ++ tail) = r).
  { rewrite firstn_app, Nat.sub_diag, firstn_all. simpl. apply app_nil_r. }
  assert (Hfork : dinv (mkS (cells t ++ [r ++ [p]]) (put (svars t) c (length (cells t)))) (put regs c (r ++ [p]))).
  { unfold dinv; cbn [cells svars]. split; [rewrite !put_length_lt by lia; exact Hlen|]. split.
    - intros c' r' k' E1 E2. destruct (Nat.eq_dec c' c) as [->|Hne].
      + rewrite nth_error_put_same in E1 by lia. rewrite nth_error_put_same in E2 by lia. inversion E1; inversion E2; subst.
        exists []. cbn [cells]. rewrite nth_error_app2 by lia. rewrite Nat.sub_diag. simpl. now rewrite app_nil_r.
      + rewrite nth_error_put_other in E1 by (auto; lia). rewrite nth_error_put_other in E2 by (auto; lia). cbn [svars] in E2.
        destruct (Hpre _ _ _ E1 E2) as [tl Htl]. exists tl. cbn [cells].
        rewrite nth_error_app1; [exact Htl|]. apply nth_error_Some. rewrite Htl. discriminate.
    - intros k' L' E. cbn [cells] in E. destruct (Nat.ltb_spec k' (length (cells t))) as [Hlt|Hge].
      + rewrite nth_error_app1 in E by lia. eauto.
      + rewrite nth_error_app2 in E by lia.
        destruct (k' - length (cells t)) as [|x]; simpl in E; [|destruct x; discriminate].
        inversion E; subst. now apply NoDup_snoc. }
  destruct tail as [|q tail'].
  + (* the handle is exactly at the state's frontier: in-place append (p is new: tail is empty) *)
    simpl nth_error. cbn [opt_pub_eqb]. rewrite app_nil_r in *. rewrite Epr.
    rewrite Nat.ltb_irrefl, Nat.eqb_refl. do 2 eexists. split; [reflexivity|].
    assert (Hkl : k < length (cells t)) by (apply nth_error_Some; rewrite Hk; discriminate).
    unfold dinv; cbn [cells svars]. split; [rewrite !put_length_lt by lia; exact Hlen|]. split.
    * intros c' r' k' E1 E2. cbn [svars cells] in *.
      destruct (Nat.eq_dec c' c) as [->|Hne].
      -- rewrite nth_error_put_same in E1 by lia. rewrite nth_error_put_same in E2 by lia. inversion E1; inversion E2; subst.
         exists []. rewrite nth_error_put_same by lia. now rewrite app_nil_r.
      -- rewrite nth_error_put_other in E1 by (auto; lia). rewrite nth_error_put_other in E2 by (auto; lia).
         destruct (Hpre _ _ _ E1 E2) as [tl Htl].
         destruct (Nat.eq_dec k' k) as [->|Hk'].
         ++ rewrite Hk in Htl. inversion Htl as [Hr]. exists (tl ++ [p]).
            rewrite nth_error_put_same by lia. f_equal. now rewrite <- app_assoc.
         ++ exists tl. now rewrite nth_error_put_other by (auto; lia).
    * intros k' L' E. cbn [cells] in E. destruct (Nat.eq_dec k' k) as [->|Hk'].
      -- rewrite nth_error_put_same in E by lia. inversion E; subst. now apply NoDup_snoc.
      -- rewrite nth_error_put_other in E by (auto; lia). eauto.
  + (* the shared handle is ahead of this state *)
    simpl nth_error. cbn [opt_pub_eqb].
    destruct (N.eqb_spec q p) as [->|Hqp].
    * (* a sibling already registered the same key at this index: no-op, same handle *)
      do 2 eexists. split; [reflexivity|].
      unfold dinv; cbn [cells svars]. split; [rewrite !put_length_lt by lia; exact Hlen|]. split; [|exact Hnd].
      intros c' r' k' E1 E2. cbn [svars cells] in *.
      destruct (Nat.eq_dec c' c) as [->|Hne].
      -- rewrite nth_error_put_same in E1 by lia. rewrite nth_error_put_same in E2 by lia. inversion E1; inversion E2; subst.
         exists tail'. rewrite Hk. now rewrite <- app_assoc.
      -- rewrite nth_error_put_other in E1 by (auto; lia). rewrite nth_error_put_other in E2 by (auto; lia). eauto.
    * (* a sibling registered ANOTHER key here: fresh handle for registry ++ [p] *)
      rewrite index_of_app, Epr. rewrite Hfirst.
      assert (Hlt : length r <? length (r ++ q :: tail') = true)
        by (apply Nat.ltb_lt; rewrite app_length; simpl; lia).
      destruct (index_of p (q :: tail')) as [j|] eqn:Ej; simpl option_map; cbv iota.
      -- assert (Hj : j <> 0).
         { intros ->. simpl in Ej. destruct (N.eqb_spec q p); [contradiction|].
           destruct (index_of p tail'); discriminate. }
         destruct (Nat.ltb_spec (length r) (length r + j)) as [_|]; [|lia].
         do 2 eexists. split; [reflexivity|exact Hfork].
      -- rewrite Hlt. do 2 eexists. split; [reflexivity|exact Hfork].
Qed.

(* one Spec-level deposit step: the cache's answer equals registry membership, the add is never refused,
   the invariant is kept *)
Lemma ds_step_inv t regs o : dinv t regs ->
  d_step sstate s_step (known_by_cache sstate s_step) (mkD t regs) o = ds_step (mkD t regs) o /\
  dinv (d_cache (fst (ds_step (mkD t regs) o))) (d_regs (fst (ds_step (mkD t regs) o))) /\
  (forall x, snd (ds_step (mkD t regs) o) <> DFailed x).
Proof.
  intros (Hlen & Hpre & Hnd). unfold ds_step.
  destruct o as [c|c p]; unfold d_step; cbn [d_cache d_regs].
  - (* copy *)
    destruct (nth_error regs c) as [r|] eqn:Er.
    2:{ split; [reflexivity|]. split; [exact (conj Hlen (conj Hpre Hnd))|discriminate]. }
    split; [reflexivity|]. split; [|discriminate]. cbn [fst d_cache d_regs].
    assert (Hc : c < length (svars t)) by (rewrite <- Hlen; apply nth_error_Some; rewrite Er; discriminate).
    destruct (nth_error (svars t) c) as [k|] eqn:Ek; [|apply nth_error_None in Ek; lia].
    unfold s_step. rewrite Ek. cbn [fst cells svars].
    unfold dinv; cbn [cells svars].
    split; [rewrite !app_length; simpl; lia|]. split; [|exact Hnd].
    intros c' r' k' E1 E2. destruct (Nat.ltb_spec c' (length regs)) as [Hlt|Hge].
    + rewrite nth_error_app1 in E1 by lia. rewrite nth_error_app1 in E2 by lia. eauto.
    + rewrite nth_error_app2 in E1 by lia. rewrite nth_error_app2 in E2 by lia.
      rewrite <- Hlen in E2. destruct (c' - length regs) as [|x]; simpl in *; [|destruct x; discriminate].
      inversion E1; inversion E2; subst. eauto.
  - (* deposit *)
    destruct (nth_error regs c) as [r|] eqn:Er.
    2:{ split; [reflexivity|]. split; [exact (conj Hlen (conj Hpre Hnd))|discriminate]. }
    assert (Hc : c < length (svars t)) by (rewrite <- Hlen; apply nth_error_Some; rewrite Er; discriminate).
    destruct (nth_error (svars t) c) as [k|] eqn:Ek; [|apply nth_error_None in Ek; lia].
    destruct (Hpre c r k Er Ek) as [tail Hk].
    pose proof (Hnd _ _ Hk) as HndL.
    assert (Hcell : cell t k = r ++ tail) by (now apply cell_of).
    (* the cache-based test = registry membership *)
    assert (Hknown : known_by_cache sstate s_step t c r p = known_by_registry r p).
    { unfold known_by_cache, s_step. rewrite Ek. cbn [snd]. rewrite Hcell. unfold s_index.
      rewrite index_of_app, known_registry_index.
      destruct (index_of p r) as [j|] eqn:Ej.
      - destruct (index_of_some _ _ _ Ej) as (_ & Hj & _). destruct (Nat.ltb_spec j (length r)); [reflexivity|lia].
      - destruct (index_of p tail); simpl; [|reflexivity]. destruct (Nat.ltb_spec (length r + n) (length r)); [lia|reflexivity]. }
    rewrite Hknown. split; [reflexivity|].
    destruct (known_by_registry r p) eqn:Ekn.
    { cbn [fst snd d_cache d_regs]. split; [exact (conj Hlen (conj Hpre Hnd))|discriminate]. }
    rewrite known_registry_index in Ekn. destruct (index_of p r) eqn:Epr; [discriminate|]. clear Ekn.
    assert (Hpr : ~ In p r) by now apply index_of_none.
    assert (Hndr : NoDup r) by (eapply NoDup_app_l; eauto).
    assert (Hcr : c < length regs) by lia.
    destruct (s_add_new_key t regs c r k tail p (conj Hlen (conj Hpre Hnd)) Er Ek Hk Epr) as (t' & b & Hstep & Hinv').
    cbv zeta. rewrite Hstep. cbn [fst snd d_cache d_regs]. split; [exact Hinv'|discriminate].
Qed.

(* ---------- Impl against Spec ---------- *)
Lemma di_step_sim s t regs o : sim s t ->
  d_regs (fst (di_step (mkD s regs) o)) =
    d_regs (fst (d_step sstate s_step (known_by_cache sstate s_step) (mkD t regs) o)) /\
  snd (di_step (mkD s regs) o) = snd (d_step sstate s_step (known_by_cache sstate s_step) (mkD t regs) o) /\
  sim (d_cache (fst (di_step (mkD s regs) o)))
      (d_cache (fst (d_step sstate s_step (known_by_cache sstate s_step) (mkD t regs) o))).
Proof.
  intros Hsim. unfold di_step. destruct o as [c|c p]; unfold d_step; cbn [d_cache d_regs].
  - destruct (nth_error regs c); cbn [fst snd d_cache d_regs]; [|auto].
    repeat split. apply (sim_step s t (ODup c) Hsim).
  - destruct (nth_error regs c) as [r|]; cbn [fst snd d_cache d_regs]; [|auto].
    unfold known_by_cache. rewrite (proj2 (sim_step s t (OIdx c p) Hsim)).
    destruct (match snd (s_step t (OIdx c p)) with Ok (VIdx (Some j)) => j <? length r | _ => false end);
      cbn [fst snd d_cache d_regs]; [auto|].
    destruct (sim_step s t (OAdd c c (length r) p) Hsim) as [Hs Ho]. cbv zeta. rewrite Ho.
    destruct (snd (s_step t (OAdd c c (length r) p))); cbn [fst snd d_cache d_regs]; auto.
Qed.

Definition dsim (a : dstate istate) (b : dstate sstate) : Prop :=
  sim (d_cache a) (d_cache b) /\ d_regs a = d_regs b /\ dinv (d_cache b) (d_regs b).

Lemma dsim_step a b o : dsim a b ->
  snd (di_step a o) = snd (ds_step b o) /\ d_regs (fst (di_step a o)) = d_regs (fst (ds_step b o)) /\
  dsim (fst (di_step a o)) (fst (ds_step b o)) /\ (forall x, snd (ds_step b o) <> DFailed x).
Proof.
  destruct a as [s regs], b as [t regs']. intros (Hsim & Hregs & Hinv). cbn [d_cache d_regs] in *. subst regs'.
  destruct (ds_step_inv t regs o Hinv) as (Heq & Hinv' & Hnf).
  destruct (di_step_sim s t regs o Hsim) as (Hr & Ho & Hs). rewrite Heq in Hr, Ho, Hs.
  split; [exact Ho|]. split; [exact Hr|]. split; [|exact Hnf]. split; [exact Hs|]. split; [exact Hr|exact Hinv'].
Qed.

Lemma dsim_run ops : forall a b, dsim a b ->
  drun istate i_step (known_by_cache istate i_step) a ops =
    drun sstate s_step (fun _ _ r p => known_by_registry r p) b ops /\
  dsim (drun_state istate i_step (known_by_cache istate i_step) a ops)
       (drun_state sstate s_step (fun _ _ r p => known_by_registry r p) b ops) /\
  Forall (fun e => forall x, fst e <> DFailed x) (drun sstate s_step (fun _ _ r p => known_by_registry r p) b ops).
Proof.
  induction ops as [|o r IH]; intros a b Hab; simpl; [split; [reflexivity|split; [exact Hab|constructor]]|].
  destruct (dsim_step a b o Hab) as (Ho & Hr & Hs & Hnf). fold (di_step a o) (ds_step b o).
  destruct (IH _ _ Hs) as (H1 & H2 & H3). fold (di_step a o) (ds_step b o) in *.
  split; [now rewrite Ho, Hr, H1|]. split; [exact H2|]. constructor; [exact Hnf|exact H3].
Qed.

Lemma dsim_init l : NoDup l -> dsim (di_init l) (ds_init l).
Proof. intros Hl. split; [now apply sim_init|]. split; [reflexivity|now apply dinv_init]. Qed.

(* Deposit-level refinement: for every sequence of state copies and deposits from a duplicate-free genesis
   registry, ProcessDeposit driven by the cache (Impl) produces the same results and the same registries as
   the registry-driven Spec, and the cache never refuses the add. *)
Theorem deposit_refines l ops : NoDup l ->
  drun istate i_step (known_by_cache istate i_step) (di_init l) ops =
  drun sstate s_step (fun _ _ r p => known_by_registry r p) (ds_init l) ops.
Proof. intros Hl. apply dsim_run. now apply dsim_init. Qed.

Theorem deposit_never_fails l ops : NoDup l ->
  Forall (fun e => forall x, fst e <> DFailed x)
         (drun istate i_step (known_by_cache istate i_step) (di_init l) ops).
Proof.
  intros Hl. rewrite deposit_refines by exact Hl.
  exact (proj2 (proj2 (dsim_run ops _ _ (dsim_init l Hl)))).
Qed.

(* In every reachable state, the cache handle of every context denotes a history that EXTENDS that context's own
   registry: index i < |registry| maps to registry[i] and every registry pubkey maps back to its position
   (entries past the registry belong to a sibling that is further along and are filtered by `< valCount`). *)
Theorem deposit_handle_extends_registry l ops : NoDup l ->
  let a := drun_state istate i_step (known_by_cache istate i_step) (di_init l) ops in
  wf (iheap (d_cache a)) /\
  forall c r h, nth_error (d_regs a) c = Some r -> nth_error (ivars (d_cache a)) c = Some h ->
    h < length (iheap (d_cache a)) /\ exists tail, abs (iheap (d_cache a)) h = r ++ tail.
Proof.
  intros Hl a. destruct (dsim_run ops _ _ (dsim_init l Hl)) as (_ & Hd & _). fold a in Hd.
  set (b := drun_state sstate s_step (fun _ _ r p => known_by_registry r p) (ds_init l) ops) in *.
  destruct Hd as ([m (Hwf & Hlen & Hnd & Hm & Hv)] & Hregs & (Hl2 & Hpre & _)).
  split; [exact Hwf|]. intros c r h Er Eh. rewrite Hregs in Er.
  destruct (Forall2_nth_l _ _ _ _ _ Hv Eh) as (k & Ek & Hmk).
  destruct (Hm _ _ Hmk) as [Hh Hc]. split; [exact Hh|].
  destruct (Hpre _ _ _ Er Ek) as [tail Ht]. exists tail. rewrite Hc in Ht. now inversion Ht.
Qed.

Corollary deposit_lookups_agree_with_registry l ops : NoDup l ->
  let a := drun_state istate i_step (known_by_cache istate i_step) (di_init l) ops in
  forall c r h fuel, nth_error (d_regs a) c = Some r -> nth_error (ivars (d_cache a)) c = Some h ->
    depth (iheap (d_cache a)) h <= fuel ->
    (forall i, i < length r -> pubkey_at fuel (iheap (d_cache a)) h i = Ok (nth_error r i)) /\
    (forall i p, nth_error r i = Some p -> validator_index fuel (iheap (d_cache a)) h p = Ok (Some i)).
Proof.
  intros Hl a c r h fuel Er Eh Hf.
  destruct (deposit_handle_extends_registry l ops Hl) as [Hwf Hx]. fold a in Hwf, Hx.
  destruct (Hx c r h Er Eh) as [Hh [tail Ha]]. split.
  - intros i Hi. rewrite pubkey_at_ok by auto. rewrite Ha. now rewrite nth_error_app1.
  - intros i p Hn. apply (lookup_complete _ _ _ i p Hwf Hh Hf). rewrite Ha.
    rewrite nth_error_app1; [exact Hn|]. apply nth_error_Some. rewrite Hn. discriminate.
Qed.

(* the seeded defect "AddValidator's result is dropped": two siblings add different keys at index 3; the second
   context keeps the first one's handle: Pubkey(3) is the sibling's key and its own key is not found *)
Lemma dropped_result_refuted :
  let ops := [DCopy 0; DDeposit 0 8%N; DDeposit 1 9%N] in
  let a := drun_state istate drop_result_step (known_by_cache istate drop_result_step) (di_init [0; 1; 2]%N) ops in
  nth_error (d_regs a) 1 = Some [0; 1; 2; 9]%N /\
  snd (drop_result_step (d_cache a) (OPub 1 3)) = Ok (VPub (Some 8%N)) /\
  snd (drop_result_step (d_cache a) (OIdx 1 9%N)) = Ok (VIdx None).
Proof. vm_compute. repeat split. Qed.
