(* C16, deposit level — how phase0.ProcessDeposit drives the pubkey cache of an EpochsContext.  No proofs here.

   A context = one beacon state (only its validator-registry pubkeys matter here) + its EpochsContext, whose
   ValidatorPubkeyCache is handle variable number c of the cache layer (CacheSpec.op).  Contexts are copied
   (state.CopyState + epc.Clone: the copy holds the SAME cache handle) and each processes its own deposits.

   ProcessDeposit(pubkey p) on context c with registry r (deposit.go):
     valIndex, ok := epc.ValidatorPubkeyCache.ValidatorIndex(p);  exists := ok && valIndex < len(r)
     exists  -> top-up, neither registry nor cache change
     !exists -> state.AddValidator (registry r ++ [p]);
                pc, err := cache.AddValidator(len(r), p);  err -> return err;  epc.ValidatorPubkeyCache = pc
   The Spec decides `exists` from the registry itself (consensus spec: `pubkey not in validator_pubkeys`). *)
From Coq Require Import NArith List Bool Arith.
From V Require Import Base.Outcome Pubkeys.CacheSpec Pubkeys.CacheModel.
Import ListNotations.

Inductive dop :=
| DCopy (c : nat)                      (* copy context c; the copy becomes the next context *)
| DDeposit (c : nat) (p : pubkey).     (* ProcessDeposit on context c *)

Inductive dout :=
| DCopied
| DToppedUp                            (* known validator: balance increase only *)
| DAdded                               (* new validator appended to the registry and to the cache *)
| DFailed (x : out)                    (* ProcessDeposit returned the cache's error (registry already extended) *)
| DNoCtx.

Definition known_by_registry (r : list pubkey) (p : pubkey) : bool := existsb (fun q => N.eqb q p) r.

Section Deposit.
Variable St : Type.
Variable step : St -> op -> St * out.

Record dstate := mkD { d_cache : St; d_regs : list (list pubkey) }.

(* Go: exists := ok && valIndex < valCount, asked of the cache *)
Definition known_by_cache (st : St) (c : nat) (r : list pubkey) (p : pubkey) : bool :=
  match snd (step st (OIdx c p)) with
  | Ok (VIdx (Some j)) => j <? length r
  | _ => false
  end.

Variable known : St -> nat -> list pubkey -> pubkey -> bool.

Definition d_step (s : dstate) (o : dop) : dstate * dout :=
  match o with
  | DCopy c =>
      match nth_error (d_regs s) c with
      | None => (s, DNoCtx)
      | Some r => (mkD (fst (step (d_cache s) (ODup c))) (d_regs s ++ [r]), DCopied)
      end
  | DDeposit c p =>
      match nth_error (d_regs s) c with
      | None => (s, DNoCtx)
      | Some r =>
          if known (d_cache s) c r p then (s, DToppedUp)
          else
            let res := step (d_cache s) (OAdd c c (length r) p) in
            let regs' := put (d_regs s) c (r ++ [p]) in
            match snd res with
            | Ok _ => (mkD (fst res) regs', DAdded)
            | x => (mkD (fst res) regs', DFailed x)
            end
      end
  end.

(* outputs and registries after every step *)
Fixpoint drun (s : dstate) (ops : list dop) : list (dout * list (list pubkey)) :=
  match ops with
  | [] => []
  | o :: r => let s' := fst (d_step s o) in (snd (d_step s o), d_regs s') :: drun s' r
  end.
Fixpoint drun_state (s : dstate) (ops : list dop) : dstate :=
  match ops with
  | [] => s
  | o :: r => drun_state (fst (d_step s o)) r
  end.
End Deposit.
Arguments mkD {St} _ _.
Arguments d_cache {St} _.
Arguments d_regs {St} _.

(* Impl: the Go decision procedure over the Impl cache model; Spec: registry membership over the history Spec *)
Definition di_step := d_step istate i_step (known_by_cache istate i_step).
Definition ds_step := d_step sstate s_step (fun _ _ r p => known_by_registry r p).
Definition di_init (l : list pubkey) : dstate istate := mkD (i_init l) [l].
Definition ds_init (l : list pubkey) : dstate sstate := mkD (s_init l) [l].

(* the seeded defect "returned handle dropped": epc.ValidatorPubkeyCache is NOT replaced by AddValidator's result *)
Definition drop_result_step (s : istate) (o : op) : istate * out :=
  match o with
  | OAdd v dst i p =>
      let r := i_step s o in
      match snd r with
      | Ok (VAdd false) => (mkI (iheap (fst r)) (ivars s), snd r)   (* heap keeps the fork, the variable is not updated *)
      | _ => r
      end
  | _ => i_step s o
  end.
Definition di_step_dropped := d_step istate drop_result_step (known_by_cache istate drop_result_step).
