(* C16 correspondence: evaluate Impl and Spec on the operation sequences the Go harness ran.

   A case = initial registry + a sequence of AddValidator calls on handle variables, each with what Go
   returned and with the complete lookup table ("dump") of every handle variable whose table changed
   (the harness queries EVERY variable after EVERY op; an omitted variable means: identical to its previous
   dump — the checker compares the model against that previous dump, so nothing is lost).
   All numbers are N in the case syntax.  Options are coded 0 = not found, k+1 = found k. *)
From Coq Require Import NArith List Bool Arith.
From V Require Import Base.Outcome Pubkeys.CacheSpec Pubkeys.CacheModel.
Import ListNotations.

(* lookup table of one handle: Pubkey(i) for i < K, ValidatorIndex(p) for p < npub; shape = the Go object
   chain read through the verif hook: (trustedParentCount, len(idx2pub), len(pub2idx)) from the handle to the root *)
Inductive dump := Dump (pubs idxs : list N) (shape : list (N * N * N)).
Inductive cstep := CStep (v dst i p : N) (go : gores bool) (obs : list (N * dump)).
Inductive ccase := CCase (init : list N) (npub k : N) (obs0 : list (N * dump)) (steps : list cstep).

Definition enc_pub (x : out) : N :=
  match x with
  | Ok (VPub (Some p)) => p + 1
  | Ok (VPub None) => 0
  | _ => 1000000
  end%N.
Definition enc_idx (x : out) : N :=
  match x with
  | Ok (VIdx (Some i)) => N.of_nat i + 1
  | Ok (VIdx None) => 0
  | _ => 1000000
  end%N.

Fixpoint list_eqb {A} (eqb : A -> A -> bool) (a b : list A) : bool :=
  match a, b with
  | [], [] => true
  | x :: a', y :: b' => eqb x y && list_eqb eqb a' b'
  | _, _ => false
  end.
Definition triple_eqb (a b : N * N * N) : bool :=
  let '(a1, a2, a3) := a in let '(b1, b2, b3) := b in N.eqb a1 b1 && N.eqb a2 b2 && N.eqb a3 b3.

Definition agree_add (x : out) (g : gores bool) : bool :=
  match x, g with
  | Ok (VAdd b), GoOk b' => Bool.eqb b b'
  | Err, GoErr => true
  | Panic _, GoPanic => true
  | Blocked, GoNoReturn => true
  | OutOfFuel, GoNoReturn => true
  | _, _ => false
  end.

Section Check.
Variable St : Type.
Variable step : St -> op -> St * out.
Variable nvars : St -> nat.
Variable shape_ok : St -> nat -> list (N * N * N) -> bool.   (* Spec: no opinion on the representation *)
Variables (npub k : nat).

Definition lookups_ok (s : St) (v : nat) (d : dump) : bool :=
  let '(Dump pubs idxs shape) := d in
  list_eqb N.eqb (map (fun i => enc_pub (snd (step s (OPub v i)))) (seq 0 k)) pubs &&
  list_eqb N.eqb (map (fun p => enc_idx (snd (step s (OIdx v (N.of_nat p))))) (seq 0 npub)) idxs &&
  shape_ok s v shape.

Fixpoint all_vars_ok (s : St) (v : nat) (last : list dump) : bool :=
  match last with
  | [] => true
  | d :: r => lookups_ok s v d && all_vars_ok s (S v) r
  end.

Definition update_last (last : list dump) (obs : list (N * dump)) : list dump :=
  fold_left (fun acc (e : N * dump) => put acc (N.to_nat (fst e)) (snd e)) obs last.

Definition state_ok (s : St) (last : list dump) : bool :=
  (nvars s =? length last) && all_vars_ok s 0 last.

Fixpoint steps_ok (s : St) (last : list dump) (steps : list cstep) : bool :=
  match steps with
  | [] => true
  | CStep v dst i p go obs :: r =>
      let '(s', x) := step s (OAdd (N.to_nat v) (N.to_nat dst) (N.to_nat i) p) in
      let last' := update_last last obs in
      agree_add x go && state_ok s' last' && steps_ok s' last' r
  end.
End Check.

Definition shape_of_cache (c : cache) : N * N * N :=
  (N.of_nat (trusted c), N.of_nat (length (idx2pub c)), N.of_nat (length (pub2idx c))).
Fixpoint shape_of (fuel : nat) (hp : heap) (h : nat) : list (N * N * N) :=
  match fuel with
  | 0 => []
  | S f =>
      match get hp h with
      | None => []
      | Some c => shape_of_cache c :: match parent c with Some q => shape_of f hp q | None => [] end
      end
  end.
Definition i_shape_ok (s : istate) (v : nat) (shape : list (N * N * N)) : bool :=
  match nth_error (ivars s) v with
  | None => false
  | Some h => list_eqb triple_eqb (shape_of (S (length (iheap s))) (iheap s) h) shape
  end.

Fixpoint nodupb (l : list N) : bool :=
  match l with
  | [] => true
  | x :: r => negb (existsb (N.eqb x) r) && nodupb r
  end.

(* impl_ok: Go agrees with the Impl model (the repaired code), outputs, lookup tables and object shapes *)
Definition impl_ok (c : ccase) : bool :=
  let '(CCase init npub k obs0 steps) := c in
  let last0 := update_last [] obs0 in
  let s0 := i_init init in
  state_ok istate i_step (fun s => length (ivars s)) i_shape_ok (N.to_nat npub) (N.to_nat k) s0 last0 &&
  steps_ok istate i_step (fun s => length (ivars s)) i_shape_ok (N.to_nat npub) (N.to_nat k) s0 last0 steps.

(* spec_ok: Go judged against the history Spec directly; a registry with duplicate pubkeys is outside the
   documented domain (vacuous) *)
Definition spec_ok (c : ccase) : bool :=
  let '(CCase init npub k obs0 steps) := c in
  if nodupb init then
    let last0 := update_last [] obs0 in
    let s0 := s_init init in
    state_ok sstate s_step (fun s => length (svars s)) (fun _ _ _ => true) (N.to_nat npub) (N.to_nat k) s0 last0 &&
    steps_ok sstate s_step (fun s => length (svars s)) (fun _ _ _ => true) (N.to_nat npub) (N.to_nat k) s0 last0 steps
  else true.

Fixpoint mism (i : N) (cs : list ccase) : list (N * N) :=
  match cs with
  | [] => []
  | c :: cs' =>
      let r := ((if impl_ok c then 0 else 1) + (if spec_ok c then 0 else 2))%N in
      if N.eqb r 0 then mism (i + 1) cs' else (i, r) :: mism (i + 1) cs'
  end.
Definition mismatches (cs : list ccase) : list (N * N) := mism 0%N cs.
