(* C16 correspondence: evaluate Impl and Spec on the operation sequences the Go harness ran.

   A case = initial registry + a sequence of AddValidator calls on handle variables, each with what Go
   returned and with the complete lookup table ("dump") of every handle variable whose table changed
   (the harness queries EVERY variable after EVERY op; an omitted variable means: identical to its previous
   dump — the checker compares the model against that previous dump, so nothing is lost).
   All numbers are N in the case syntax.  Options are coded 0 = not found, k+1 = found k. *)
From Coq Require Import NArith List Bool Arith.
From V Require Import Base.Outcome Pubkeys.CacheSpec Pubkeys.CacheModel Pubkeys.DepositModel.
Import ListNotations.

(* lookup table of one handle: Pubkey(i) for i < K, ValidatorIndex(p) for p < npub; shape = the Go object
   chain read through the verif hook: (trustedParentCount, len(idx2pub), len(pub2idx)) from the handle to the root *)
Inductive dump := Dump (pubs idxs : list N) (shape : list (N * N * N)).
Inductive cstep := CStep (v dst i p : N) (go : gores bool) (obs : list (N * dump)).
(* deposit stream: contexts = (state, EpochsContext) pairs; reg = the pubkeys of the state's own validator registry,
   read from the state after the op; copy = state.CopyState + epc.Clone of context c (p ignored), otherwise
   phase0.ProcessDeposit of pubkey p on context c; go = GoOk grew (the registry grew / top-up or copy) *)
Inductive ddump := DDump (reg pubs idxs : list N) (shape : list (N * N * N)).
Inductive dstep := DStep (copy : bool) (c p : N) (go : gores bool) (obs : list (N * ddump)).
Inductive ccase :=
| CCase (init : list N) (npub k : N) (obs0 : list (N * dump)) (steps : list cstep)
| DCase (init : list N) (npub k : N) (obs0 : list (N * ddump)) (steps : list dstep).

Definition enc_pub (x : out) : N :=
  match x with
  | Ok (VPub (Some p)) => p + 1
  | Ok (VPub None) => 0
  | _ => 1000000
  end%N.
Definition enc_idx (x : out) : N :=
  match x with
  | Ok (VIdx (Some i)) => N.of_nat i + 1
  | Ok (VIdx None) => 0
  | _ => 1000000
  end%N.

Fixpoint list_eqb {A} (eqb : A -> A -> bool) (a b : list A) : bool :=
  match a, b with
  | [], [] => true
  | x :: a', y :: b' => eqb x y && list_eqb eqb a' b'
  | _, _ => false
  end.
Definition triple_eqb (a b : N * N * N) : bool :=
  let '(a1, a2, a3) := a in let '(b1, b2, b3) := b in N.eqb a1 b1 && N.eqb a2 b2 && N.eqb a3 b3.

Definition agree_add (x : out) (g : gores bool) : bool :=
  match x, g with
  | Ok (VAdd b), GoOk b' => Bool.eqb b b'
  | Err, GoErr => true
  | Panic _, GoPanic => true
  | Blocked, GoNoReturn => true
  | OutOfFuel, GoNoReturn => true
  | _, _ => false
  end.

(* nat is unary: an index of 2^62..2^64-1 (sent by the harness to probe the refusal of far indices) is evaluated at 65536.
   Sound for histories shorter than that (the harness uses at most 48 pubkeys): FarIndex.s_step_far (the Spec's step does
   not depend on which beyond-the-history index is used) + cache_refines (Impl = Spec on every operation sequence). *)
Definition far_index (i : N) : nat := N.to_nat (N.min i 65536).
Section Check.
Variable St : Type.
Variable step : St -> op -> St * out.
Variable nvars : St -> nat.
Variable shape_ok : St -> nat -> list (N * N * N) -> bool.   (* Spec: no opinion on the representation *)
Variables (npub k : nat).

Definition lookups_ok (s : St) (v : nat) (d : dump) : bool :=
  let '(Dump pubs idxs shape) := d in
  list_eqb N.eqb (map (fun i => enc_pub (snd (step s (OPub v i)))) (seq 0 k)) pubs &&
  list_eqb N.eqb (map (fun p => enc_idx (snd (step s (OIdx v (N.of_nat p))))) (seq 0 npub)) idxs &&
  shape_ok s v shape.

Fixpoint all_vars_ok (s : St) (v : nat) (last : list dump) : bool :=
  match last with
  | [] => true
  | d :: r => lookups_ok s v d && all_vars_ok s (S v) r
  end.

Definition update_last (last : list dump) (obs : list (N * dump)) : list dump :=
  fold_left (fun acc (e : N * dump) => put acc (N.to_nat (fst e)) (snd e)) obs last.

Definition state_ok (s : St) (last : list dump) : bool :=
  (nvars s =? length last) && all_vars_ok s 0 last.

Fixpoint steps_ok (s : St) (last : list dump) (steps : list cstep) : bool :=
  match steps with
  | [] => true
  | CStep v dst i p go obs :: r =>
      let '(s', x) := step s (OAdd (N.to_nat v) (N.to_nat dst) (far_index i) p) in
      let last' := update_last last obs in
      agree_add x go && state_ok s' last' && steps_ok s' last' r
  end.

(* ---- deposit stream ---- *)
Variable known : St -> nat -> list pubkey -> pubkey -> bool.
(* judged on Go's tables alone (used by spec_ok only): are they the tables of a duplicate-free history
   that extends the state's registry? *)
Variable tables_ok : ddump -> bool.

Definition agree_dep (x : dout) (g : gores bool) : bool :=
  match x, g with
  | DCopied, GoOk _ => true
  | DToppedUp, GoOk false => true
  | DAdded, GoOk true => true
  | DFailed Err, GoErr => true
  | DFailed (Panic _), GoPanic => true
  | DFailed Blocked, GoNoReturn => true
  | DFailed OutOfFuel, GoNoReturn => true
  | _, _ => false
  end.

Fixpoint all_ctx_ok (s : dstate St) (c : nat) (last : list ddump) : bool :=
  match last with
  | [] => true
  | DDump reg pubs idxs shape :: r =>
      list_eqb N.eqb (nth c (d_regs s) []) reg &&
      lookups_ok (d_cache s) c (Dump pubs idxs shape) &&
      tables_ok (DDump reg pubs idxs shape) &&
      all_ctx_ok s (S c) r
  end.
Definition update_dlast (last : list ddump) (obs : list (N * ddump)) : list ddump :=
  fold_left (fun acc (e : N * ddump) => put acc (N.to_nat (fst e)) (snd e)) obs last.
Definition dstate_ok (s : dstate St) (last : list ddump) : bool :=
  (length (d_regs s) =? length last) && (nvars (d_cache s) =? length last) && all_ctx_ok s 0 last.

Fixpoint dsteps_ok (s : dstate St) (last : list ddump) (steps : list dstep) : bool :=
  match steps with
  | [] => true
  | DStep copy c p go obs :: r =>
      let o := if copy then DCopy (N.to_nat c) else DDeposit (N.to_nat c) p in
      let res := d_step St step known s o in
      let last' := update_dlast last obs in
      agree_dep (snd res) go && dstate_ok (fst res) last' && dsteps_ok (fst res) last' r
  end.
End Check.

Definition shape_of_cache (c : cache) : N * N * N :=
  (N.of_nat (trusted c), N.of_nat (length (idx2pub c)), N.of_nat (length (pub2idx c))).
Fixpoint shape_of (fuel : nat) (hp : heap) (h : nat) : list (N * N * N) :=
  match fuel with
  | 0 => []
  | S f =>
      match get hp h with
      | None => []
      | Some c => shape_of_cache c :: match parent c with Some q => shape_of f hp q | None => [] end
      end
  end.
Definition i_shape_ok (s : istate) (v : nat) (shape : list (N * N * N)) : bool :=
  match nth_error (ivars s) v with
  | None => false
  | Some h => list_eqb triple_eqb (shape_of (S (length (iheap s))) (iheap s) h) shape
  end.

Fixpoint nodupb (l : list N) : bool :=
  match l with
  | [] => true
  | x :: r => negb (existsb (N.eqb x) r) && nodupb r
  end.

(* registry-as-history judgement on Go's observed tables: L = the leading found entries of Pubkey(0..k-1) *)
Fixpoint leading (pubs : list N) : list N :=
  match pubs with
  | [] => []
  | x :: r => if N.eqb x 0 then [] else (x - 1)%N :: leading r
  end.
Fixpoint is_prefix (a b : list N) : bool :=
  match a, b with
  | [], _ => true
  | x :: a', y :: b' => N.eqb x y && is_prefix a' b'
  | _, [] => false
  end.
Definition enc_opt (o : option nat) : N := match o with Some i => (N.of_nat i + 1)%N | None => 0%N end.
Definition history_tables_ok (npub : nat) (d : ddump) : bool :=
  let '(DDump reg pubs idxs _) := d in
  let L := leading pubs in
  is_prefix reg L && nodupb L &&
  forallb (N.eqb 0) (skipn (length L) pubs) &&
  list_eqb N.eqb (map (fun p => enc_opt (index_of (N.of_nat p) L)) (seq 0 npub)) idxs.

(* impl_ok: Go agrees with the Impl model (the repaired code), outputs, lookup tables and object shapes *)
Definition impl_ok (c : ccase) : bool :=
  match c with
  | CCase init npub k obs0 steps =>
      let last0 := update_last [] obs0 in
      let s0 := i_init init in
      state_ok istate i_step (fun s => length (ivars s)) i_shape_ok (N.to_nat npub) (N.to_nat k) s0 last0 &&
      steps_ok istate i_step (fun s => length (ivars s)) i_shape_ok (N.to_nat npub) (N.to_nat k) s0 last0 steps
  | DCase init npub k obs0 steps =>
      let last0 := update_dlast [] obs0 in
      let s0 := di_init init in
      dstate_ok istate i_step (fun s => length (ivars s)) i_shape_ok (N.to_nat npub) (N.to_nat k) (fun _ => true) s0 last0 &&
      dsteps_ok istate i_step (fun s => length (ivars s)) i_shape_ok (N.to_nat npub) (N.to_nat k)
                (known_by_cache istate i_step) (fun _ => true) s0 last0 steps
  end.

(* spec_ok: Go judged against the Spec directly.  Cache stream: the per-handle history Spec.  Deposit stream:
   the registry-driven Spec (exists = registry membership) for results, registries and tables, AND on Go's
   tables alone: every context's cache answers as a duplicate-free history that extends that context's own
   registry.  A registry with duplicate pubkeys is outside the documented domain (vacuous). *)
Definition spec_ok (c : ccase) : bool :=
  match c with
  | CCase init npub k obs0 steps =>
      if nodupb init then
        let last0 := update_last [] obs0 in
        let s0 := s_init init in
        state_ok sstate s_step (fun s => length (svars s)) (fun _ _ _ => true) (N.to_nat npub) (N.to_nat k) s0 last0 &&
        steps_ok sstate s_step (fun s => length (svars s)) (fun _ _ _ => true) (N.to_nat npub) (N.to_nat k) s0 last0 steps
      else true
  | DCase init npub k obs0 steps =>
      if nodupb init then
        let last0 := update_dlast [] obs0 in
        let s0 := ds_init init in
        let tok := history_tables_ok (N.to_nat npub) in
        dstate_ok sstate s_step (fun s => length (svars s)) (fun _ _ _ => true) (N.to_nat npub) (N.to_nat k) tok s0 last0 &&
        dsteps_ok sstate s_step (fun s => length (svars s)) (fun _ _ _ => true) (N.to_nat npub) (N.to_nat k)
                  (fun _ _ r p => known_by_registry r p) tok s0 last0 steps
      else true
  end.

Fixpoint mism (i : N) (cs : list ccase) : list (N * N) :=
  match cs with
  | [] => []
  | c :: cs' =>
      let r := ((if impl_ok c then 0 else 1) + (if spec_ok c then 0 else 2))%N in
      if N.eqb r 0 then mism (i + 1) cs' else (i, r) :: mism (i + 1) cs'
  end.
Definition mismatches (cs : list ccase) : list (N * N) := mism 0%N cs.
