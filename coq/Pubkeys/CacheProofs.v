(* C16 — proofs: the (repaired) Impl model of PubkeyCache refines the per-handle history Spec. *)
From Coq Require Import NArith List Bool Arith Lia.
From V Require Import Base.Outcome Pubkeys.CacheSpec Pubkeys.CacheModel.
Import ListNotations.

(* ------------------------------------------------------------------ *)
(* lists *)

Lemma index_of_some p l j : index_of p l = Some j ->
  nth_error l j = Some p /\ j < length l /\ forall k, k < j -> nth_error l k <> Some p.
Proof.
  revert j. induction l as [|q r IH]; simpl; intros j H; [discriminate|].
  destruct (N.eqb_spec q p) as [->|Hne].
  - inversion H; subst. simpl. repeat split; [lia|]. intros k Hk; lia.
  - destruct (index_of p r) as [j'|] eqn:E; simpl in H; [|discriminate].
    inversion H; subst. destruct (IH j' eq_refl) as (H1 & H2 & H3).
    simpl. repeat split; [exact H1|lia|].
    intros [|k] Hk; simpl.
    + intros Hc; inversion Hc; contradiction.
    + apply H3; lia.
Qed.

Lemma index_of_none p l : index_of p l = None <-> ~ In p l.
Proof.
  induction l as [|q r IH]; simpl; [tauto|].
  destruct (N.eqb_spec q p) as [->|Hne].
  - split; [discriminate|]. intros H; exfalso; apply H; now left.
  - destruct (index_of p r); simpl.
    + split; [discriminate|]. intros H. exfalso. apply H. right.
      destruct IH as [_ IH2]. destruct (in_dec N.eq_dec p r) as [Hi|Hi]; [exact Hi|].
      specialize (IH2 Hi); discriminate.
    + split; [|reflexivity]. intros _ [Hq|Hi]; [contradiction|]. now apply IH.
Qed.

Lemma index_of_in p l : In p l -> exists j, index_of p l = Some j.
Proof.
  intros Hi. destruct (index_of p l) eqn:E; [eauto|]. apply index_of_none in E. contradiction.
Qed.

Lemma index_of_app p a b :
  index_of p (a ++ b) =
  match index_of p a with
  | Some j => Some j
  | None => option_map (fun k => length a + k) (index_of p b)
  end.
Proof.
  induction a as [|q r IH]; simpl.
  - destruct (index_of p b); reflexivity.
  - destruct (N.eqb q p); [reflexivity|]. rewrite IH.
    destruct (index_of p r); simpl; [reflexivity|]. destruct (index_of p b); reflexivity.
Qed.

Lemma index_of_firstn p t l :
  index_of p (firstn t l) =
  match index_of p l with
  | Some j => if j <? t then Some j else None
  | None => None
  end.
Proof.
  revert t. induction l as [|q r IH]; intros [|t]; simpl; try reflexivity.
  - destruct (if N.eqb q p then Some 0 else option_map S (index_of p r)); reflexivity.
  - destruct (N.eqb q p); [reflexivity|]. rewrite IH.
    destruct (index_of p r) as [j|]; simpl; [|reflexivity].
    change (S j <? S t) with (j <? t). destruct (j <? t); reflexivity.
Qed.

Lemma NoDup_nth_index l : NoDup l -> forall i p, nth_error l i = Some p -> index_of p l = Some i.
Proof.
  induction 1 as [|q r Hq Hr IH]; intros [|i] p; simpl; try discriminate.
  - intros H; inversion H; subst. now rewrite N.eqb_refl.
  - intros H. destruct (N.eqb_spec q p) as [->|Hne].
    + exfalso. apply Hq. eapply nth_error_In; eauto.
    + rewrite (IH _ _ H). reflexivity.
Qed.

Lemma In_firstn {A} (x : A) t l : In x (firstn t l) -> In x l.
Proof.
  revert t. induction l as [|y r IH]; intros [|t]; simpl; try tauto.
  intros [->|H]; [now left|right; eauto].
Qed.

Lemma NoDup_firstn {A} (l : list A) t : NoDup l -> NoDup (firstn t l).
Proof.
  intros H. revert t. induction H as [|x r Hx Hr IH]; intros [|t]; simpl; try constructor.
  - intros Hi. apply Hx. eapply In_firstn; eauto.
  - apply IH.
Qed.

Lemma NoDup_snoc {A} (l : list A) x : NoDup l -> ~ In x l -> NoDup (l ++ [x]).
Proof.
  intros Hl Hx. induction Hl as [|y r Hy Hr IH]; simpl.
  - constructor; [tauto|constructor].
  - constructor.
    + rewrite in_app_iff. simpl. intros [H|[H|[]]]; [contradiction|]. subst. apply Hx. now left.
    + apply IH. intros H. apply Hx. now right.
Qed.

Lemma NoDup_app_l {A} (a b : list A) : NoDup (a ++ b) -> NoDup a.
Proof.
  induction a as [|x r IH]; simpl; intros H; [constructor|].
  inversion H; subst. constructor; [|auto]. intros Hi. apply H2. apply in_or_app. now left.
Qed.

Lemma NoDup_app_disj {A} (a b : list A) x : NoDup (a ++ b) -> In x a -> In x b -> False.
Proof.
  induction a as [|y r IH]; simpl; intros H Ha Hb; [tauto|].
  inversion H; subst. destruct Ha as [->|Ha].
  - apply H2. apply in_or_app. now right.
  - eauto.
Qed.

Lemma firstn_firstn_le {A} (l : list A) i j : i <= j -> firstn i (firstn j l) = firstn i l.
Proof. intros H. rewrite firstn_firstn. f_equal. lia. Qed.

Lemma firstn_app_le {A} (a b : list A) t : t <= length a -> firstn t (a ++ b) = firstn t a.
Proof.
  intros H. rewrite firstn_app. replace (t - length a) with 0 by lia. simpl. apply app_nil_r.
Qed.

Lemma nth_error_firstn_lt {A} (l : list A) t i : i < t -> nth_error (firstn t l) i = nth_error l i.
Proof.
  revert t i. induction l as [|x r IH]; intros [|t] [|i] H; simpl; try reflexivity; try lia.
  apply IH. lia.
Qed.

(* ------------------------------------------------------------------ *)
(* heap *)

Lemma get_lt hp h c : get hp h = Some c -> h < length hp.
Proof.
  induction hp as [|c0 r IH]; simpl; [discriminate|].
  destruct (Nat.eqb_spec h (length r)); intros H; [lia|]. specialize (IH H). lia.
Qed.
Lemma get_some hp h : h < length hp -> exists c, get hp h = Some c.
Proof.
  induction hp as [|c0 r IH]; simpl; [lia|]. intros H.
  destruct (Nat.eqb_spec h (length r)); [eauto|]. apply IH. lia.
Qed.
Lemma get_none hp h : length hp <= h -> get hp h = None.
Proof.
  intros H. destruct (get hp h) eqn:E; [|reflexivity]. apply get_lt in E. lia.
Qed.
Lemma set_length hp h c : length (set hp h c) = length hp.
Proof.
  induction hp as [|c0 r IH]; simpl; [reflexivity|].
  destruct (h =? length r); simpl; [reflexivity|]. now rewrite IH.
Qed.
Lemma get_set_same hp h c c' : get hp h = Some c -> get (set hp h c') h = Some c'.
Proof.
  induction hp as [|c0 r IH]; simpl; [discriminate|].
  destruct (Nat.eqb_spec h (length r)) as [->|Hne]; intros H.
  - simpl. now rewrite Nat.eqb_refl.
  - simpl. rewrite set_length. destruct (Nat.eqb_spec h (length r)); [contradiction|]. auto.
Qed.
Lemma get_cons_old c r h : h < length r -> get (c :: r) h = get r h.
Proof. intros H. simpl. destruct (Nat.eqb_spec h (length r)); [lia|reflexivity]. Qed.
Lemma abs_cons_old c r h : h < length r -> abs (c :: r) h = abs r h.
Proof. intros H. simpl. destruct (Nat.eqb_spec h (length r)); [lia|reflexivity]. Qed.
Lemma abs_cons_new c r :
  abs (c :: r) (length r) =
  (match parent c with Some q => firstn (trusted c) (abs r q) | None => [] end) ++ idx2pub c.
Proof. simpl. now rewrite Nat.eqb_refl. Qed.
Lemma depth_cons_old c r h : h < length r -> depth (c :: r) h = depth r h.
Proof. intros H. simpl. destruct (Nat.eqb_spec h (length r)); [lia|reflexivity]. Qed.
Lemma depth_cons_new c r :
  depth (c :: r) (length r) = S (match parent c with Some q => depth r q | None => 0 end).
Proof. simpl. now rewrite Nat.eqb_refl. Qed.
Lemma abs_out hp h : length hp <= h -> abs hp h = [].
Proof.
  induction hp as [|c r IH]; simpl; [reflexivity|]. intros H.
  destruct (Nat.eqb_spec h (length r)); [lia|]. apply IH. lia.
Qed.

(* the local map agrees with the local slice *)
Definition map_ok (c : cache) : Prop :=
  forall p, map_get (pub2idx c) p =
            match index_of p (idx2pub c) with Some k => Some (trusted c + k) | None => None end.

Definition parent_ok (abs_of : nat -> list pubkey) (bound : nat) (c : cache) : Prop :=
  match parent c with
  | Some q => q < bound /\ trusted c <= length (abs_of q)
  | None => trusted c = 0
  end.

Definition obj_ok (r : heap) (c : cache) : Prop :=
  parent_ok (abs r) (length r) c /\ NoDup (abs (c :: r) (length r)) /\ map_ok c.

Fixpoint wf (hp : heap) : Prop :=
  match hp with
  | [] => True
  | c :: r => obj_ok r c /\ wf r
  end.

Definition prefix_of (hp : heap) (c : cache) : list pubkey :=
  match parent c with Some q => firstn (trusted c) (abs hp q) | None => [] end.

Lemma wf_get hp : wf hp -> forall h c, get hp h = Some c ->
  parent_ok (abs hp) h c /\ NoDup (abs hp h) /\ map_ok c /\
  abs hp h = prefix_of hp c ++ idx2pub c /\
  depth hp h = S (match parent c with Some q => depth hp q | None => 0 end).
Proof.
  induction hp as [|c0 r IH]; intros Hwf h c Hg; [discriminate|].
  destruct Hwf as [(Hp & Hnd & Hm) Hwf]. simpl in Hg.
  destruct (Nat.eqb_spec h (length r)) as [->|Hne].
  - inversion Hg; subst c0. clear Hg.
    rewrite abs_cons_new in *. unfold parent_ok, prefix_of in *.
    rewrite depth_cons_new.
    destruct (parent c) as [q|] eqn:Eq.
    + destruct Hp as [Hq Ht].
      rewrite !abs_cons_old, depth_cons_old by lia. repeat split; auto.
    + repeat split; auto.
  - destruct (IH Hwf h c Hg) as (Hp' & Hnd' & Hm' & Ha' & Hd').
    pose proof (get_lt _ _ _ Hg) as Hlt.
    rewrite abs_cons_old, depth_cons_old by lia.
    unfold parent_ok, prefix_of in *.
    destruct (parent c) as [q|] eqn:Eq.
    + destruct Hp' as [Hq Ht].
      rewrite !abs_cons_old, depth_cons_old by lia. repeat split; auto.
    + repeat split; auto.
Qed.

Lemma depth_pos hp : wf hp -> forall h, h < length hp -> 1 <= depth hp h.
Proof.
  intros Hwf h Hh. destruct (get_some _ _ Hh) as [c Hc].
  destruct (wf_get _ Hwf _ _ Hc) as (_ & _ & _ & _ & Hd). lia.
Qed.

(* ------------------------------------------------------------------ *)
(* lookups answer by the denoted history *)

Lemma pubkey_at_ok hp : wf hp -> forall fuel h i, h < length hp -> depth hp h <= fuel ->
  pubkey_at fuel hp h i = Ok (nth_error (abs hp h) i).
Proof.
  intros Hwf. induction fuel as [|f IH]; intros h i Hh Hd.
  - pose proof (depth_pos _ Hwf _ Hh). lia.
  - destruct (get_some _ _ Hh) as [c Hc]. simpl. rewrite Hc.
    destruct (wf_get _ Hwf _ _ Hc) as (Hp & Hnd & Hm & Ha & Hdep).
    unfold parent_ok, prefix_of in *. rewrite Ha.
    destruct (parent c) as [q|] eqn:Eq.
    + destruct Hp as [Hq Ht].
      assert (Hlen : length (firstn (trusted c) (abs hp q)) = trusted c)
        by (rewrite firstn_length; lia).
      destruct (Nat.leb_spec (trusted c) i) as [Hle|Hlt].
      * rewrite nth_error_app2 by lia. rewrite Hlen.
        destruct (Nat.leb_spec (trusted c + length (idx2pub c)) i) as [Hle2|Hlt2].
        -- symmetry. f_equal. apply nth_error_None. lia.
        -- destruct (nth_error (idx2pub c) (i - trusted c)) eqn:E; [reflexivity|].
           apply nth_error_None in E. lia.
      * rewrite nth_error_app1 by lia. rewrite nth_error_firstn_lt by lia.
        apply IH; lia.
    + simpl. rewrite Hp. simpl. rewrite Nat.sub_0_r.
      destruct (Nat.leb_spec (length (idx2pub c)) i) as [Hle2|Hlt2].
      * symmetry. f_equal. apply nth_error_None. lia.
      * destruct (nth_error (idx2pub c) i) eqn:E; [reflexivity|].
        apply nth_error_None in E. lia.
Qed.

Lemma validator_index_ok hp : wf hp -> forall fuel h p, h < length hp -> depth hp h <= fuel ->
  validator_index fuel hp h p = Ok (index_of p (abs hp h)).
Proof.
  intros Hwf. induction fuel as [|f IH]; intros h p Hh Hd.
  - pose proof (depth_pos _ Hwf _ Hh). lia.
  - destruct (get_some _ _ Hh) as [c Hc]. simpl. rewrite Hc.
    destruct (wf_get _ Hwf _ _ Hc) as (Hp & Hnd & Hm & Ha & Hdep).
    unfold parent_ok, prefix_of in *. rewrite Ha in *. rewrite index_of_app. rewrite (Hm p).
    destruct (index_of p (idx2pub c)) as [k|] eqn:Ek.
    + (* found locally: not in the prefix, by NoDup *)
      assert (Hin : In p (idx2pub c)).
      { destruct (index_of_some _ _ _ Ek) as (Hn & _ & _). eapply nth_error_In; eauto. }
      destruct (parent c) as [q|] eqn:Eq.
      * destruct Hp as [Hq Ht].
        destruct (index_of p (firstn (trusted c) (abs hp q))) as [j|] eqn:Ej.
        -- exfalso. destruct (index_of_some _ _ _ Ej) as (Hn & _ & _).
           eapply NoDup_app_disj; eauto. eapply nth_error_In; eauto.
        -- simpl. rewrite firstn_length. do 2 f_equal. lia.
      * simpl. do 2 f_equal. lia.
    + destruct (parent c) as [q|] eqn:Eq.
      * destruct Hp as [Hq Ht]. rewrite IH by lia. simpl.
        rewrite index_of_firstn.
        destruct (index_of p (abs hp q)) as [j|]; simpl; [|reflexivity].
        destruct (Nat.leb_spec (trusted c) j); destruct (Nat.ltb_spec j (trusted c)); try lia; reflexivity.
      * reflexivity.
Qed.

(* ------------------------------------------------------------------ *)
(* allocation of a fork and the in-place append preserve the invariant; frame properties *)

Lemma wf_fork hp h t : wf hp -> h < length hp -> t <= length (abs hp h) ->
  wf (fork_of h t :: hp) /\ abs (fork_of h t :: hp) (length hp) = firstn t (abs hp h).
Proof.
  intros Hwf Hh Ht. destruct (get_some _ _ Hh) as [c Hc].
  destruct (wf_get _ Hwf _ _ Hc) as (_ & Hnd & _).
  assert (Ha : abs (fork_of h t :: hp) (length hp) = firstn t (abs hp h)).
  { rewrite abs_cons_new. simpl. apply app_nil_r. }
  split; [|exact Ha]. split; [|exact Hwf]. split; [|split].
  - unfold parent_ok; simpl. split; assumption.
  - rewrite Ha. now apply NoDup_firstn.
  - intros p. reflexivity.
Qed.

Lemma map_ok_append c i p : map_ok c -> i = trusted c + length (idx2pub c) -> ~ In p (idx2pub c) ->
  map_ok (append_to c i p).
Proof.
  intros Hm Hi Hn q. unfold append_to; simpl. rewrite index_of_app.
  destruct (N.eqb_spec p q) as [->|Hne].
  - apply index_of_none in Hn. rewrite Hn. simpl. rewrite N.eqb_refl. simpl. f_equal. lia.
  - rewrite (Hm q). destruct (index_of q (idx2pub c)); [reflexivity|].
    simpl. destruct (N.eqb_spec p q); [contradiction|reflexivity].
Qed.

Lemma set_append hp : wf hp -> forall h c i p, get hp h = Some c ->
  i = trusted c + length (idx2pub c) -> ~ In p (abs hp h) ->
  wf (set hp h (append_to c i p)) /\
  abs (set hp h (append_to c i p)) h = abs hp h ++ [p] /\
  (forall o, o <> h -> abs (set hp h (append_to c i p)) o = abs hp o) /\
  (forall o, depth (set hp h (append_to c i p)) o = depth hp o).
Proof.
  induction hp as [|c0 r IH]; intros Hwf h c i p Hg Hi Hn; [discriminate|].
  destruct Hwf as [(Hp & Hnd & Hm) Hwf]. simpl in Hg. simpl set.
  destruct (Nat.eqb_spec h (length r)) as [->|Hne].
  - inversion Hg; subst c0; clear Hg.
    rewrite abs_cons_new in Hn, Hnd. rewrite (abs_cons_new c r).
    assert (Ha : abs (append_to c i p :: r) (length r) =
                 ((match parent c with Some q => firstn (trusted c) (abs r q) | None => [] end) ++ idx2pub c) ++ [p]).
    { rewrite abs_cons_new. simpl. now rewrite app_assoc. }
    split; [|split; [exact Ha|split]].
    + split; [|exact Hwf]. split; [|split].
      * exact Hp.
      * rewrite Ha. apply NoDup_snoc; assumption.
      * apply map_ok_append; auto. intros Hin. apply Hn. apply in_or_app. now right.
    + intros o Ho. simpl. destruct (Nat.eqb_spec o (length r)); [contradiction|reflexivity].
    + intros o. simpl. destruct (o =? length r); reflexivity.
  - pose proof (get_lt _ _ _ Hg) as Hlt.
    rewrite abs_cons_old in Hn by lia.
    destruct (IH Hwf h c i p Hg Hi Hn) as (Hwf' & Ha' & Hfr & Hdp).
    set (r' := set r h (append_to c i p)) in *.
    assert (Hlen : length r' = length r) by apply set_length.
    (* the newest object's own history does not move: it only trusts a prefix of what h had *)
    assert (Htop : abs (c0 :: r') (length r) = abs (c0 :: r) (length r)).
    { rewrite <- Hlen at 1. rewrite !abs_cons_new. f_equal.
      unfold parent_ok in Hp. destruct (parent c0) as [q|]; [|reflexivity].
      destruct Hp as [Hq Ht]. destruct (Nat.eq_dec q h) as [->|Hqh].
      - rewrite Ha'. apply firstn_app_le. exact Ht.
      - now rewrite Hfr. }
    split; [|split; [|split]].
    + split; [|exact Hwf']. split; [|split].
      * unfold parent_ok in *. destruct (parent c0) as [q|]; [|exact Hp].
        destruct Hp as [Hq Ht]. rewrite Hlen. split; [exact Hq|].
        destruct (Nat.eq_dec q h) as [->|Hqh].
        -- rewrite Ha'. rewrite app_length. lia.
        -- now rewrite Hfr.
      * rewrite Hlen, Htop. exact Hnd.
      * exact Hm.
    + rewrite !abs_cons_old by lia. exact Ha'.
    + intros o Ho. destruct (Nat.eq_dec o (length r)) as [->|Hol].
      * exact Htop.
      * simpl. rewrite Hlen. destruct (Nat.eqb_spec o (length r)); [contradiction|]. now apply Hfr.
    + intros o. simpl. rewrite Hlen. destruct (o =? length r).
      * destruct (parent c0); [|reflexivity]. now rewrite Hdp.
      * apply Hdp.
Qed.

(* ------------------------------------------------------------------ *)
(* AddValidator *)

Lemma abs_length hp h c : wf hp -> get hp h = Some c ->
  length (abs hp h) = trusted c + length (idx2pub c).
Proof.
  intros Hwf Hg. destruct (wf_get _ Hwf _ _ Hg) as (Hp & _ & _ & Ha & _).
  rewrite Ha, app_length. f_equal. unfold parent_ok, prefix_of in *.
  destruct (parent c); [|simpl; lia]. rewrite firstn_length. lia.
Qed.

Lemma add_validator_S f hp h i p :
  add_validator (S f) hp h i p =
  bind (validator_index f hp h p) (fun ei =>
  bind (pubkey_at f hp h i) (fun ep =>
    let fork t := add_validator f (fork_of h t :: hp) (length hp) i p in
    let differs := match ep with Some q => negb (N.eqb q p) | None => false end in
    match ei with
    | Some j => if negb (j =? i) then fork j else if differs then fork i else Ok (hp, h)
    | None =>
        if differs then fork i
        else match get hp h with
             | None => Panic NilDeref
             | Some c => if i =? trusted c + length (idx2pub c)
                         then Ok (set hp h (append_to c i p), h) else Err
             end
    end)).
Proof. reflexivity. Qed.

(* the receiver does not know p and has nothing at index i: append in place or refuse *)
Lemma add_at_frontier hp h c i p fuel : wf hp -> get hp h = Some c -> depth hp h + 1 <= fuel ->
  index_of p (abs hp h) = None -> length (abs hp h) <= i ->
  add_validator fuel hp h i p =
  if i =? length (abs hp h) then Ok (set hp h (append_to c i p), h) else Err.
Proof.
  intros Hwf Hg Hf Hn Hi. destruct fuel as [|f]; [lia|].
  pose proof (get_lt _ _ _ Hg) as Hh.
  rewrite add_validator_S, validator_index_ok, pubkey_at_ok by (auto; lia).
  rewrite Hn. simpl bind.
  replace (nth_error (abs hp h) i) with (@None pubkey) by (symmetry; apply nth_error_None; lia).
  cbv zeta. rewrite Hg. now rewrite (abs_length _ _ _ Hwf Hg).
Qed.

Lemma depth_fork hp h t : depth (fork_of h t :: hp) (length hp) = S (depth hp h).
Proof. apply depth_cons_new. Qed.

(* a fork at i followed by the recursive call: the new handle denotes firstn i l ++ [p] *)
Lemma add_on_fresh_fork hp h i p fuel : wf hp -> h < length hp ->
  i <= length (abs hp h) -> ~ In p (firstn i (abs hp h)) -> depth hp h + 2 <= fuel ->
  exists hp', add_validator fuel (fork_of h i :: hp) (length hp) i p = Ok (hp', length hp) /\
    wf hp' /\ length hp' = S (length hp) /\
    abs hp' (length hp) = firstn i (abs hp h) ++ [p] /\
    forall o, o < length hp -> abs hp' o = abs hp o.
Proof.
  intros Hwf Hh Hi Hn Hf.
  destruct (wf_fork hp h i Hwf Hh Hi) as [Hwf1 Ha1].
  set (hp1 := fork_of h i :: hp) in *.
  assert (Hg1 : get hp1 (length hp) = Some (fork_of h i)) by (unfold hp1; simpl; now rewrite Nat.eqb_refl).
  assert (Hl1 : length (abs hp1 (length hp)) = i) by (rewrite Ha1, firstn_length; lia).
  rewrite (add_at_frontier hp1 (length hp) _ i p fuel Hwf1 Hg1).
  - rewrite Hl1, Nat.eqb_refl.
    assert (Hn1 : ~ In p (abs hp1 (length hp))) by now rewrite Ha1.
    destruct (set_append hp1 Hwf1 (length hp) _ i p Hg1) as (Hwf' & Ha' & Hfr & _).
    { simpl. lia. } { exact Hn1. }
    eexists. split; [reflexivity|]. split; [exact Hwf'|]. split; [|split].
    + rewrite set_length. reflexivity.
    + rewrite Ha', Ha1. reflexivity.
    + intros o Ho. rewrite Hfr by lia. unfold hp1. apply abs_cons_old. exact Ho.
  - unfold hp1. rewrite depth_fork. lia.
  - rewrite Ha1. now apply index_of_none.
  - lia.
Qed.

Definition add_post (hp : heap) (h i : nat) (p : pubkey) (r : outcome (heap * nat)) : Prop :=
  match s_add (abs hp h) i p with
  | ANoop => r = Ok (hp, h)
  | AAppend => exists hp', r = Ok (hp', h) /\ wf hp' /\ length hp' = length hp /\
      abs hp' h = abs hp h ++ [p] /\ forall o, o <> h -> abs hp' o = abs hp o
  | AFork l' => exists hp' h', r = Ok (hp', h') /\ wf hp' /\ length hp <= h' < length hp' /\
      abs hp' h' = l' /\ forall o, o < length hp -> abs hp' o = abs hp o
  | AError => r = Err
  end.

Lemma index_of_firstn_none p l i j : index_of p l = Some j -> i <= j -> ~ In p (firstn i l).
Proof.
  intros Hj Hij. apply index_of_none. rewrite index_of_firstn, Hj.
  destruct (Nat.ltb_spec j i); [lia|reflexivity].
Qed.

Theorem add_validator_spec hp h i p fuel : wf hp -> h < length hp -> depth hp h + 5 <= fuel ->
  add_post hp h i p (add_validator fuel hp h i p).
Proof.
  intros Hwf Hh Hf. destruct (get_some _ _ Hh) as [c Hg].
  destruct (wf_get _ Hwf _ _ Hg) as (_ & Hnd & _).
  set (l := abs hp h) in *.
  unfold add_post. fold l. unfold s_add.
  destruct (opt_pub_eqb (nth_error l i) p) eqn:Eknown.
  - (* known pair *)
    destruct (nth_error l i) as [q|] eqn:En; simpl in Eknown; [|discriminate].
    apply N.eqb_eq in Eknown. subst q.
    destruct fuel as [|f]; [lia|].
    rewrite add_validator_S, validator_index_ok, pubkey_at_ok by (auto; lia).
    fold l. rewrite (NoDup_nth_index _ Hnd _ _ En), En. simpl.
    now rewrite Nat.eqb_refl, N.eqb_refl.
  - destruct (index_of p l) as [j|] eqn:Ej.
    + (* p is registered at j <> i *)
      destruct (index_of_some _ _ _ Ej) as (Hnj & Hjl & Hfirst).
      assert (Hji : j <> i).
      { intros ->. rewrite Hnj in Eknown. simpl in Eknown. now rewrite N.eqb_refl in Eknown. }
      destruct fuel as [|f]; [lia|].
      rewrite add_validator_S, validator_index_ok, pubkey_at_ok by (auto; lia).
      fold l. rewrite Ej. simpl bind. cbv zeta.
      destruct (Nat.eqb_spec j i) as [|_]; [contradiction|]. simpl negb. cbv iota.
      (* first fork: trusted = j *)
      destruct (wf_fork hp h j Hwf Hh) as [Hwf1 Ha1]; [fold l; lia|]. fold l in Ha1.
      set (hp1 := fork_of h j :: hp) in *.
      assert (Hg1 : get hp1 (length hp) = Some (fork_of h j)) by (unfold hp1; simpl; now rewrite Nat.eqb_refl).
      assert (Hd1 : depth hp1 (length hp) = S (depth hp h)) by apply depth_fork.
      assert (Hh1 : length hp < length hp1) by (unfold hp1; simpl; lia).
      assert (Hl1 : length (abs hp1 (length hp)) = j) by (rewrite Ha1, firstn_length; lia).
      assert (Hnone1 : index_of p (abs hp1 (length hp)) = None).
      { rewrite Ha1, index_of_firstn, Ej. destruct (Nat.ltb_spec j j); [lia|reflexivity]. }
      destruct (Nat.ltb_spec i j) as [Hij|Hij].
      * (* i < j: the fork sees l[i] <> p and forks again at i *)
        destruct f as [|f]; [lia|].
        rewrite add_validator_S, validator_index_ok, pubkey_at_ok by (auto; lia).
        rewrite Hnone1, Ha1, nth_error_firstn_lt by lia. simpl bind. cbv zeta.
        destruct (nth_error l i) as [q|] eqn:En; [|apply nth_error_None in En; lia].
        assert (Hq : N.eqb q p = false).
        { apply N.eqb_neq. intros ->. apply (Hfirst i Hij). exact En. }
        rewrite Hq. simpl negb. cbv iota.
        destruct (add_on_fresh_fork hp1 (length hp) i p f Hwf1 Hh1) as (hp' & Hr & Hwf' & Hlen' & Ha' & Hfr').
        { lia. }
        { rewrite Ha1, firstn_firstn_le by lia. eapply index_of_firstn_none; eauto. lia. }
        { lia. }
        exists hp', (length hp1). split; [exact Hr|]. split; [exact Hwf'|]. split; [lia|]. split.
        -- rewrite Ha', Ha1, firstn_firstn_le by lia. reflexivity.
        -- intros o Ho. rewrite Hfr' by lia. unfold hp1. now apply abs_cons_old.
      * (* i > j: the fork expects j next, the add is refused *)
        rewrite (add_at_frontier hp1 (length hp) _ i p f Hwf1 Hg1) by (auto; lia).
        rewrite Hl1. destruct (Nat.eqb_spec i j); [lia|reflexivity].
    + (* p is not registered on this history *)
      destruct (Nat.ltb_spec i (length l)) as [Hil|Hil].
      * destruct fuel as [|f]; [lia|].
        rewrite add_validator_S, validator_index_ok, pubkey_at_ok by (auto; lia).
        fold l. rewrite Ej. simpl bind. cbv zeta.
        destruct (nth_error l i) as [q|] eqn:En; [|apply nth_error_None in En; lia].
        simpl in Eknown. rewrite Eknown. simpl negb. cbv iota.
        destruct (add_on_fresh_fork hp h i p f Hwf Hh) as (hp' & Hr & Hwf' & Hlen' & Ha' & Hfr').
        { fold l; lia. }
        { fold l. intros Hin. apply In_firstn in Hin. apply index_of_none in Ej. contradiction. }
        { lia. }
        exists hp', (length hp). split; [exact Hr|]. split; [exact Hwf'|]. split; [lia|]. split; [exact Ha'|exact Hfr'].
      * rewrite (add_at_frontier hp h c i p fuel Hwf Hg) by (auto; lia). fold l.
        destruct (Nat.eqb_spec i (length l)) as [Heq|Hne]; [|reflexivity].
        destruct (set_append hp Hwf h c i p Hg) as (Hwf' & Ha' & Hfr & _).
        { rewrite <- (abs_length _ _ _ Hwf Hg). exact Heq. }
        { fold l. now apply index_of_none. }
        eexists. split; [reflexivity|]. split; [exact Hwf'|]. split; [apply set_length|]. split; assumption.
Qed.

(* ------------------------------------------------------------------ *)
(* `put` and Forall2 *)

Lemma nth_error_skipn' {A} (l : list A) n i : nth_error (skipn n l) i = nth_error l (n + i).
Proof.
  revert l. induction n as [|n IH]; intros [|x r]; simpl; try reflexivity.
  - now destruct i.
  - apply IH.
Qed.
Lemma put_length_lt {A} (l : list A) k x : k < length l -> length (put l k x) = length l.
Proof.
  intros H. unfold put. destruct (Nat.ltb_spec k (length l)); [|lia].
  rewrite app_length, firstn_length. cbn [length]. rewrite skipn_length. lia.
Qed.
Lemma nth_error_put_same {A} (l : list A) k x : k < length l -> nth_error (put l k x) k = Some x.
Proof.
  intros H. unfold put. destruct (Nat.ltb_spec k (length l)); [|lia].
  rewrite nth_error_app2 by (rewrite firstn_length; lia).
  rewrite firstn_length. replace (k - Nat.min k (length l)) with 0 by lia. reflexivity.
Qed.
Lemma nth_error_put_other {A} (l : list A) k k' x : k < length l -> k' <> k ->
  nth_error (put l k x) k' = nth_error l k'.
Proof.
  intros H Hne. unfold put. destruct (Nat.ltb_spec k (length l)); [|lia].
  destruct (Nat.ltb_spec k' k).
  - rewrite nth_error_app1 by (rewrite firstn_length; lia). apply nth_error_firstn_lt. lia.
  - rewrite nth_error_app2 by (rewrite firstn_length; lia). rewrite firstn_length.
    replace (k' - Nat.min k (length l)) with (S (k' - S k)) by lia.
    cbn [nth_error]. rewrite nth_error_skipn'. f_equal. lia.
Qed.

Lemma Forall2_len {A B} (P : A -> B -> Prop) a b : Forall2 P a b -> length a = length b.
Proof. induction 1; simpl; congruence. Qed.
Lemma Forall2_weaken {A B} (P Q : A -> B -> Prop) a b :
  (forall x y, P x y -> Q x y) -> Forall2 P a b -> Forall2 Q a b.
Proof. intros H. induction 1; constructor; auto. Qed.
Lemma Forall2_nth_l {A B} (P : A -> B -> Prop) a b v x : Forall2 P a b -> nth_error a v = Some x ->
  exists y, nth_error b v = Some y /\ P x y.
Proof.
  intros H. revert v. induction H as [|x0 y0 a b Hxy H IH]; intros [|v]; simpl; try discriminate.
  - intros E; inversion E; subst. eauto.
  - apply IH.
Qed.
Lemma Forall2_nth_none {A B} (P : A -> B -> Prop) a b v : Forall2 P a b -> nth_error a v = None ->
  nth_error b v = None.
Proof.
  intros H E. apply nth_error_None. apply nth_error_None in E.
  now rewrite <- (Forall2_len _ _ _ H).
Qed.
Lemma Forall2_firstn {A B} (P : A -> B -> Prop) a b k : Forall2 P a b -> Forall2 P (firstn k a) (firstn k b).
Proof.
  intros H. revert k. induction H; intros [|k]; simpl; constructor; auto.
Qed.
Lemma Forall2_skipn {A B} (P : A -> B -> Prop) a b k : Forall2 P a b -> Forall2 P (skipn k a) (skipn k b).
Proof.
  intros H. revert k. induction H; intros [|k]; simpl; try constructor; auto.
Qed.
Lemma Forall2_put {A B} (P : A -> B -> Prop) a b k x y : Forall2 P a b -> P x y ->
  Forall2 P (put a k x) (put b k y).
Proof.
  intros H Hxy. unfold put. rewrite <- (Forall2_len _ _ _ H).
  destruct (k <? length a).
  - apply Forall2_app; [now apply Forall2_firstn|]. constructor; [exact Hxy|now apply Forall2_skipn].
  - apply Forall2_app; [exact H|]. constructor; [exact Hxy|constructor].
Qed.

(* ------------------------------------------------------------------ *)
(* initial cache: NewPubkeyCache over a duplicate-free registry (EmptyPubkeyCache = the empty one) *)

Lemma build_map_get l : NoDup l -> forall start acc p,
  map_get (build_map l start acc) p =
  match index_of p l with Some k => Some (start + k) | None => map_get acc p end.
Proof.
  induction 1 as [|x r Hx Hr IH]; intros start acc p; simpl; [reflexivity|].
  rewrite IH. destruct (N.eqb_spec x p) as [->|Hne].
  - apply index_of_none in Hx. rewrite Hx. simpl. rewrite N.eqb_refl. f_equal. lia.
  - destruct (index_of p r) as [k|]; simpl.
    + f_equal. lia.
    + destruct (N.eqb_spec x p); [contradiction|reflexivity].
Qed.

Lemma wf_init l : NoDup l -> wf [new_cache l] /\ abs [new_cache l] 0 = l.
Proof.
  intros Hnd. assert (Ha : abs [new_cache l] 0 = l) by reflexivity.
  split; [|exact Ha]. split; [|exact I]. split; [|split].
  - reflexivity.
  - simpl length. rewrite Ha. exact Hnd.
  - intros p. unfold new_cache; simpl. rewrite (build_map_get l Hnd).
    destruct (index_of p l); reflexivity.
Qed.

(* ------------------------------------------------------------------ *)
(* simulation *)

(* m maps every Spec cell to the heap object that denotes it; distinct cells are distinct objects *)
Definition sim_with (m : list nat) (s : istate) (t : sstate) : Prop :=
  wf (iheap s) /\ length m = length (cells t) /\ NoDup m /\
  (forall c o, nth_error m c = Some o ->
     o < length (iheap s) /\ nth_error (cells t) c = Some (abs (iheap s) o)) /\
  Forall2 (fun h c => nth_error m c = Some h) (ivars s) (svars t).
Definition sim (s : istate) (t : sstate) : Prop := exists m, sim_with m s t.

Lemma sim_init l : NoDup l -> sim (i_init l) (s_init l).
Proof.
  intros Hnd. destruct (wf_init l Hnd) as [Hwf Ha]. exists [0].
  split; [exact Hwf|]. split; [reflexivity|]. split; [repeat constructor; simpl; tauto|]. split.
  - intros [|c] o; simpl; [|destruct c; discriminate]. intros E; inversion E; subst.
    split; [simpl; lia|reflexivity].
  - simpl. constructor; [reflexivity|constructor].
Qed.

Lemma cell_of t c l : nth_error (cells t) c = Some l -> cell t c = l.
Proof. intros H. unfold cell. now apply nth_error_nth. Qed.

Lemma sim_step s t o : sim s t ->
  sim (fst (i_step s o)) (fst (s_step t o)) /\ snd (i_step s o) = snd (s_step t o).
Proof.
  intros [m (Hwf & Hlen & Hnd & Hm & Hv)].
  destruct s as [hp vars], t as [cs svs]. simpl in *.
  assert (Hsame : sim (mkI hp vars) (mkS cs svs)).
  { exists m. exact (conj Hwf (conj Hlen (conj Hnd (conj Hm Hv)))). }
  destruct o as [v dst i p|v i|v p|v]; unfold i_step, i_step_with, s_step; simpl.
  - (* AddValidator *)
    destruct (nth_error vars v) as [h|] eqn:Ev.
    2:{ rewrite (Forall2_nth_none _ _ _ _ Hv Ev). simpl. split; [exact Hsame|reflexivity]. }
    destruct (Forall2_nth_l _ _ _ _ _ Hv Ev) as (c & Ec & Hmc). rewrite Ec.
    destruct (Hm _ _ Hmc) as [Hh Hc]. simpl in Hc.
    rewrite (cell_of (mkS cs svs) c _ Hc).
    pose proof (add_validator_spec hp h i p (add_fuel hp h + 0) Hwf Hh) as Hpost.
    unfold add_post in Hpost. specialize (Hpost ltac:(unfold add_fuel; lia)).
    assert (Hcl : c < length cs) by (apply nth_error_Some; rewrite Hc; discriminate).
    destruct (s_add (abs hp h) i p) as [| |l'|].
    + (* known: no-op *)
      rewrite Hpost. simpl. rewrite Nat.eqb_refl. split; [|reflexivity].
      exists m. refine (conj Hwf (conj Hlen (conj Hnd (conj Hm _)))). now apply Forall2_put.
    + (* in-place append *)
      destruct Hpost as (hp' & -> & Hwf' & Hlen' & Ha' & Hfr). simpl. rewrite Nat.eqb_refl.
      split; [|reflexivity]. exists m. unfold sim_with; cbn [cells svars iheap ivars]. split; [exact Hwf'|]. split; [|split; [exact Hnd|split]].
      * rewrite put_length_lt by exact Hcl. exact Hlen.
      * intros c' o' Hc'. destruct (Hm _ _ Hc') as [Ho' Hcs]. split; [lia|].
        destruct (Nat.eq_dec c' c) as [->|Hne].
        -- rewrite Hmc in Hc'. inversion Hc'; subst o'.
           rewrite nth_error_put_same by exact Hcl. now rewrite Ha'.
        -- rewrite nth_error_put_other by auto. rewrite Hcs. f_equal. symmetry. apply Hfr.
           intros ->. apply Hne. apply (proj1 (NoDup_nth_error m) Hnd).
           ++ apply nth_error_Some. rewrite Hc'. discriminate.
           ++ now rewrite Hc', Hmc.
      * now apply Forall2_put.
    + (* conflict: fresh handle *)
      destruct Hpost as (hp' & h' & -> & Hwf' & Hh' & Ha' & Hfr). simpl.
      destruct (Nat.eqb_spec h' h) as [|_]; [lia|]. split; [|reflexivity].
      exists (m ++ [h']). unfold sim_with; cbn [cells svars iheap ivars]. split; [exact Hwf'|]. split; [|split; [|split]].
      * rewrite !app_length. simpl. lia.
      * apply NoDup_snoc; [exact Hnd|]. intros Hin.
        destruct (In_nth_error _ _ Hin) as [c' Hc']. destruct (Hm _ _ Hc'). lia.
      * intros c' o' Hc'. destruct (Nat.ltb_spec c' (length m)) as [Hlt|Hge].
        -- rewrite nth_error_app1 in Hc' by exact Hlt. destruct (Hm _ _ Hc') as [Ho' Hcs].
           split; [lia|]. rewrite nth_error_app1 by lia. rewrite Hcs. f_equal. symmetry. now apply Hfr.
        -- rewrite nth_error_app2 in Hc' by exact Hge.
           destruct (c' - length m) as [|k] eqn:Ek; simpl in Hc'; [|destruct k; discriminate].
           inversion Hc'; subst o'. split; [lia|].
           replace c' with (length cs) by lia. rewrite nth_error_app2 by lia.
           rewrite Nat.sub_diag. simpl. now rewrite Ha'.
      * apply Forall2_put.
        -- eapply Forall2_weaken; [|exact Hv]. intros a b Hab. simpl in Hab.
           rewrite nth_error_app1; [exact Hab|]. apply nth_error_Some. rewrite Hab. discriminate.
        -- rewrite <- Hlen. rewrite nth_error_app2 by lia. now rewrite Nat.sub_diag.
    + (* refused *)
      rewrite Hpost. simpl. split; [exact Hsame|reflexivity].
  - (* Pubkey *)
    destruct (nth_error vars v) as [h|] eqn:Ev.
    2:{ rewrite (Forall2_nth_none _ _ _ _ Hv Ev). simpl. split; [exact Hsame|reflexivity]. }
    destruct (Forall2_nth_l _ _ _ _ _ Hv Ev) as (c & Ec & Hmc). rewrite Ec.
    destruct (Hm _ _ Hmc) as [Hh Hc]. simpl in Hc. rewrite (cell_of (mkS cs svs) c _ Hc). simpl.
    rewrite pubkey_at_ok by (auto; unfold lookup_fuel; lia). simpl.
    split; [exact Hsame|reflexivity].
  - (* ValidatorIndex *)
    destruct (nth_error vars v) as [h|] eqn:Ev.
    2:{ rewrite (Forall2_nth_none _ _ _ _ Hv Ev). simpl. split; [exact Hsame|reflexivity]. }
    destruct (Forall2_nth_l _ _ _ _ _ Hv Ev) as (c & Ec & Hmc). rewrite Ec.
    destruct (Hm _ _ Hmc) as [Hh Hc]. simpl in Hc. rewrite (cell_of (mkS cs svs) c _ Hc). simpl.
    rewrite validator_index_ok by (auto; unfold lookup_fuel; lia). simpl.
    split; [exact Hsame|reflexivity].
  - (* state copy: a second variable for the same handle *)
    destruct (nth_error vars v) as [h|] eqn:Ev.
    2:{ rewrite (Forall2_nth_none _ _ _ _ Hv Ev). simpl. split; [exact Hsame|reflexivity]. }
    destruct (Forall2_nth_l _ _ _ _ _ Hv Ev) as (c & Ec & Hmc). rewrite Ec. simpl.
    split; [|reflexivity]. exists m. refine (conj Hwf (conj Hlen (conj Hnd (conj Hm _)))). simpl.
    apply Forall2_app; [exact Hv|]. constructor; [exact Hmc|constructor].
Qed.

Lemma sim_run ops : forall s t, sim s t ->
  run i_step s ops = run s_step t ops /\ sim (run_state i_step s ops) (run_state s_step t ops).
Proof.
  induction ops as [|o r IH]; intros s t Hst; simpl; [split; [reflexivity|exact Hst]|].
  destruct (sim_step s t o Hst) as [Hsim Hout].
  destruct (i_step s o) as [s' x]; destruct (s_step t o) as [t' y]; simpl in *.
  destruct (IH s' t' Hsim) as [Hr Hs]. split; [now rewrite Hout, Hr|exact Hs].
Qed.

(* The refinement theorem: over arbitrary operation sequences on arbitrarily many handles, the Impl model
   produces exactly the outputs of the per-handle history Spec. *)
Theorem cache_refines : forall (l : list pubkey), NoDup l -> forall ops,
  run i_step (i_init l) ops = run s_step (s_init l) ops.
Proof. intros l Hl ops. apply sim_run. now apply sim_init. Qed.

(* reachable Impl states *)
Definition inv (s : istate) : Prop :=
  wf (iheap s) /\ Forall (fun h => h < length (iheap s)) (ivars s).
Lemma sim_inv s t : sim s t -> inv s.
Proof.
  intros [m (Hwf & _ & _ & Hm & Hv)]. split; [exact Hwf|].
  apply Forall_forall. intros h Hin. destruct (In_nth_error _ _ Hin) as [v Ev].
  destruct (Forall2_nth_l _ _ _ _ _ Hv Ev) as (c & _ & Hmc). now destruct (Hm _ _ Hmc).
Qed.
Theorem reachable_inv l ops : NoDup l -> inv (run_state i_step (i_init l) ops).
Proof. intros Hl. eapply sim_inv. apply sim_run. now apply sim_init. Qed.

(* ------------------------------------------------------------------ *)
(* corollaries named by the property *)

(* every lookup answers exactly by the history the handle was built along *)
Theorem lookup_exact hp h fuel : wf hp -> h < length hp -> depth hp h <= fuel ->
  (forall i, pubkey_at fuel hp h i = Ok (nth_error (abs hp h) i)) /\
  (forall p, validator_index fuel hp h p = Ok (index_of p (abs hp h))).
Proof. intros Hwf Hh Hf. split; intros; [now apply pubkey_at_ok|now apply validator_index_ok]. Qed.

(* never reports an entry that is not on its own history (e.g. one that exists only on a sibling) *)
Theorem lookup_sound hp h fuel : wf hp -> h < length hp -> depth hp h <= fuel ->
  (forall i p, pubkey_at fuel hp h i = Ok (Some p) -> nth_error (abs hp h) i = Some p) /\
  (forall p i, validator_index fuel hp h p = Ok (Some i) -> nth_error (abs hp h) i = Some p).
Proof.
  intros Hwf Hh Hf. split.
  - intros i p H. rewrite pubkey_at_ok in H by auto. now inversion H.
  - intros p i H. rewrite validator_index_ok in H by auto. inversion H as [E].
    now destruct (index_of_some _ _ _ E).
Qed.

(* and reports every entry that is on it, both ways *)
Theorem lookup_complete hp h fuel i p : wf hp -> h < length hp -> depth hp h <= fuel ->
  nth_error (abs hp h) i = Some p ->
  pubkey_at fuel hp h i = Ok (Some p) /\ validator_index fuel hp h p = Ok (Some i).
Proof.
  intros Hwf Hh Hf Hn. destruct (get_some _ _ Hh) as [c Hg].
  destruct (wf_get _ Hwf _ _ Hg) as (_ & Hnd & _).
  rewrite pubkey_at_ok, validator_index_ok by auto. rewrite Hn.
  now rewrite (NoDup_nth_index _ Hnd _ _ Hn).
Qed.

Section AddCorollaries.
Variables (hp : heap) (h i : nat) (p : pubkey) (fuel : nat).
Hypothesis Hwf : wf hp.
Hypothesis Hh : h < length hp.
Hypothesis Hf : depth hp h + 5 <= fuel.
Let l := abs hp h.

Lemma add_post_here : add_post hp h i p (add_validator fuel hp h i p).
Proof. now apply add_validator_spec. Qed.

Theorem add_known_noop : nth_error l i = Some p -> add_validator fuel hp h i p = Ok (hp, h).
Proof.
  intros Hn. pose proof add_post_here as H. unfold add_post, s_add in H. fold l in H.
  rewrite Hn in H. simpl in H. now rewrite N.eqb_refl in H.
Qed.

Theorem add_next_appends : i = length l -> ~ In p l ->
  exists hp', add_validator fuel hp h i p = Ok (hp', h) /\ wf hp' /\ length hp' = length hp /\
    abs hp' h = l ++ [p] /\ forall o, o <> h -> abs hp' o = abs hp o.
Proof.
  intros Hi Hn. pose proof add_post_here as H. unfold add_post, s_add in H. fold l in H.
  replace (nth_error l i) with (@None pubkey) in H by (symmetry; apply nth_error_None; lia).
  apply index_of_none in Hn. rewrite Hn in H. simpl in H.
  destruct (Nat.ltb_spec i (length l)); [lia|]. destruct (Nat.eqb_spec i (length l)); [|lia]. exact H.
Qed.

Theorem add_conflict_forks_fresh : i < length l -> nth_error l i <> Some p -> ~ In p (firstn i l) ->
  exists hp' h', add_validator fuel hp h i p = Ok (hp', h') /\ wf hp' /\
    length hp <= h' < length hp' /\                       (* a handle that did not exist before *)
    abs hp' h' = firstn i l ++ [p] /\
    forall o, o < length hp -> abs hp' o = abs hp o.      (* every old handle denotes what it did *)
Proof.
  intros Hi Hne Hnin. pose proof add_post_here as H. unfold add_post, s_add in H. fold l in H.
  destruct (nth_error l i) as [q|] eqn:En; [|apply nth_error_None in En; lia].
  simpl in H. destruct (N.eqb_spec q p) as [->|Hqp]; [now elim Hne|].
  destruct (index_of p l) as [j|] eqn:Ej.
  - destruct (index_of_some _ _ _ Ej) as (Hnj & Hjl & _).
    destruct (Nat.ltb_spec i j) as [|Hge]; [exact H|]. exfalso.
    assert (j <> i) by (intros ->; rewrite Hnj in En; inversion En; now subst).
    apply Hnin. apply (nth_error_In _ j). rewrite nth_error_firstn_lt by lia. exact Hnj.
  - destruct (Nat.ltb_spec i (length l)); [exact H|lia].
Qed.

Theorem add_gap_errors : length l < i -> add_validator fuel hp h i p = Err.
Proof.
  intros Hi. pose proof add_post_here as H. unfold add_post, s_add in H. fold l in H.
  replace (nth_error l i) with (@None pubkey) in H by (symmetry; apply nth_error_None; lia).
  simpl in H. destruct (index_of p l) as [j|] eqn:Ej.
  - destruct (index_of_some _ _ _ Ej) as (_ & Hjl & _). destruct (Nat.ltb_spec i j); [lia|exact H].
  - destruct (Nat.ltb_spec i (length l)); [lia|]. destruct (Nat.eqb_spec i (length l)); [lia|exact H].
Qed.

(* a pubkey registered earlier on this history cannot be registered again *)
Theorem add_dup_errors j : index_of p l = Some j -> j < i -> add_validator fuel hp h i p = Err.
Proof.
  intros Ej Hji. pose proof add_post_here as H. unfold add_post, s_add in H. fold l in H.
  destruct (index_of_some _ _ _ Ej) as (Hnj & Hjl & _).
  destruct (get_some _ _ Hh) as [c Hg]. destruct (wf_get _ Hwf _ _ Hg) as (_ & Hnd & _). fold l in Hnd.
  destruct (opt_pub_eqb (nth_error l i) p) eqn:Ek.
  - destruct (nth_error l i) as [q|] eqn:En; simpl in Ek; [|discriminate].
    apply N.eqb_eq in Ek. subst q. rewrite (NoDup_nth_index _ Hnd _ _ En) in Ej. inversion Ej. lia.
  - rewrite Ej in H. destruct (Nat.ltb_spec i j); [lia|exact H].
Qed.

(* AddValidator returns: a value or the error, never OutOfFuel / Panic / Blocked *)
Theorem add_terminates :
  (exists r, add_validator fuel hp h i p = Ok r) \/ add_validator fuel hp h i p = Err.
Proof.
  pose proof add_post_here as H. unfold add_post in H.
  destruct (s_add (abs hp h) i p).
  - left; eauto.
  - destruct H as (hp' & -> & _). left; eauto.
  - destruct H as (hp' & h' & -> & _). left; eauto.
  - now right.
Qed.
End AddCorollaries.

(* along every run from a duplicate-free initial registry, every output is a value or the add error *)
Lemma s_step_total t o : (exists v, snd (s_step t o) = Ok v) \/ snd (s_step t o) = Err.
Proof.
  destruct o as [v dst i p|v i|v p|v]; simpl; destruct (nth_error (svars t) v); simpl; eauto.
  destruct (s_add (cell t n) i p); simpl; eauto.
Qed.
Theorem run_total l ops : NoDup l ->
  Forall (fun x : out => (exists v, x = Ok v) \/ x = Err) (run i_step (i_init l) ops).
Proof.
  intros Hl. rewrite cache_refines by exact Hl. generalize (s_init l).
  induction ops as [|o r IH]; intros t; simpl; [constructor|].
  pose proof (s_step_total t o) as H. destruct (s_step t o) as [t' x]. simpl in H.
  constructor; [exact H|apply IH].
Qed.

(* ------------------------------------------------------------------ *)
(* the pinned snapshot (lookup through the parent without the trustedParentCount guard) *)

(* cache [A,B]; AddValidator(1,C) forks a child whose history is [A,C] — yet the child answers
   ValidatorIndex(B) = (1, true): an entry that exists only on the parent's history *)
Lemma sibling_leak_refuted :
  let s := run_state (i_step_orig 0) (i_init [0; 1]%N) [OAdd 0 1 1 2%N] in
  exists h, nth_error (ivars s) 1 = Some h /\ abs (iheap s) h = [0; 2]%N /\
    pubkey_at (depth (iheap s) h) (iheap s) h 1 = Ok (Some 2%N) /\
    validator_index_orig (depth (iheap s) h) (iheap s) h 1%N = Ok (Some 1).
Proof. vm_compute. eexists. repeat split. Qed.

Lemma sibling_leak_run_refuted :
  run (i_step_orig 0) (i_init [0; 1]%N) [OAdd 0 1 1 2%N; OIdx 1 1%N] <>
  run s_step (s_init [0; 1]%N) [OAdd 0 1 1 2%N; OIdx 1 1%N].
Proof. vm_compute. discriminate. Qed.

(* cache [A,B,C]; AddValidator(1,C): the fork (trusted = 2) finds C@2 through its parent again, forks again
   with trusted = 2, ... : for EVERY fuel the result is OutOfFuel — the Go call never returns *)
Fixpoint chain (n : nat) : heap :=
  match n with
  | 0 => [new_cache [0; 1; 2]%N]
  | S m => fork_of m 2 :: chain m
  end.
Lemma chain_length n : length (chain n) = S n.
Proof. induction n; simpl; congruence. Qed.
Lemma get_chain n k : k <= n ->
  get (chain n) k = Some (match k with 0 => new_cache [0; 1; 2]%N | S j => fork_of j 2 end).
Proof.
  induction n as [|n IH]; intros Hk.
  - replace k with 0 by lia. reflexivity.
  - simpl. rewrite chain_length. destruct (Nat.eqb_spec k (S n)) as [->|Hne]; [reflexivity|].
    apply IH. lia.
Qed.
Lemma vidx_orig_chain f : forall n k, k <= n ->
  validator_index_orig f (chain n) k 2%N = OutOfFuel \/
  validator_index_orig f (chain n) k 2%N = Ok (Some 2).
Proof.
  induction f as [|f IH]; intros n k Hk; [now left|].
  simpl. rewrite (get_chain n k Hk). destruct k as [|j].
  - right. reflexivity.
  - simpl. apply IH. lia.
Qed.
Lemma pubkey_chain f : forall n k, k <= n ->
  pubkey_at f (chain n) k 1 = OutOfFuel \/ exists x, pubkey_at f (chain n) k 1 = Ok x.
Proof.
  induction f as [|f IH]; intros n k Hk; [now left|].
  simpl. rewrite (get_chain n k Hk). destruct k as [|j].
  - right. eexists. reflexivity.
  - simpl. apply IH. lia.
Qed.
Lemma add_validator_orig_S f hp h i p :
  add_validator_orig (S f) hp h i p =
  bind (validator_index_orig f hp h p) (fun ei =>
  bind (pubkey_at f hp h i) (fun ep =>
    let fork t := add_validator_orig f (fork_of h t :: hp) (length hp) i p in
    let differs := match ep with Some q => negb (N.eqb q p) | None => false end in
    match ei with
    | Some j => if negb (j =? i) then fork j else if differs then fork i else Ok (hp, h)
    | None =>
        if differs then fork i
        else match get hp h with
             | None => Panic NilDeref
             | Some c => if i =? trusted c + length (idx2pub c)
                         then Ok (set hp h (append_to c i p), h) else Err
             end
    end)).
Proof. reflexivity. Qed.
Lemma add_orig_chain_diverges f : forall n, add_validator_orig f (chain n) n 1 2%N = OutOfFuel.
Proof.
  induction f as [|f IH]; intros n; [reflexivity|].
  rewrite add_validator_orig_S.
  destruct (vidx_orig_chain f n n (le_n n)) as [->| ->]; [reflexivity|]. simpl bind.
  destruct (pubkey_chain f n n (le_n n)) as [->|[x ->]]; [reflexivity|]. simpl bind. cbv zeta.
  simpl negb. cbv iota. rewrite chain_length. apply (IH (S n)).
Qed.
Theorem add_validator_diverges_refuted :
  forall fuel, add_validator_orig fuel [new_cache [0; 1; 2]%N] 0 1 2%N = OutOfFuel.
Proof. intros fuel. apply (add_orig_chain_diverges fuel 0). Qed.
Corollary add_validator_diverges_run_refuted :
  forall extra, run (i_step_orig extra) (i_init [0; 1; 2]%N) [OAdd 0 1 1 2%N] = [OutOfFuel].
Proof.
  intros extra. unfold run, i_step_orig, i_step_with, i_init. cbn [ivars iheap nth_error].
  now rewrite add_validator_diverges_refuted.
Qed.
