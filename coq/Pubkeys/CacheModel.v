(* C16 — Impl model of eth2/beacon/common/validator_pubkeys.go (PubkeyCache).  No proofs here.

   Go objects live in an explicit heap; a handle is the id of a cache object the Go pointer to a PubkeyCache.  The heap is a
   list with the NEWEST object first: allocation is `cons`, the id of an object is the number of objects
   allocated before it.  Recursion through `parent` is on fuel; `OutOfFuel` is excluded by
   CacheProofs.add_terminates / lookup lemmas (fuel = chain depth + small constant).

   The model describes the REPAIRED code (fixes/C16-trusted-parent-guard.diff).  The pinned snapshot's
   lookup (no trustedParentCount guard) is kept as `validator_index_orig` / `add_validator_orig`.

   Indices are `nat` (unbounded): the uint64 wrap of trustedParentCount+len(idx2pub) needs 2^64 cached
   keys and is outside the model.  The RWMutex is not modelled here (sequential semantics; C17). *)
From Coq Require Import NArith List Bool Arith.
From V Require Import Base.Outcome Pubkeys.CacheSpec.
Import ListNotations.

Record cache := mkCache {
  parent  : option nat;              (* parent *PubkeyCache *)
  trusted : nat;                     (* trustedParentCount *)
  pub2idx : list (pubkey * nat);     (* Go map; assignment = cons, lookup = first match *)
  idx2pub : list pubkey              (* starting at trustedParentCount *)
}.
Definition heap := list cache.

Fixpoint get (hp : heap) (h : nat) : option cache :=
  match hp with
  | [] => None
  | c :: r => if h =? length r then Some c else get r h
  end.
Fixpoint set (hp : heap) (h : nat) (c' : cache) : heap :=
  match hp with
  | [] => []
  | c :: r => if h =? length r then c' :: r else c :: set r h c'
  end.

Fixpoint map_get (m : list (pubkey * nat)) (p : pubkey) : option nat :=
  match m with
  | [] => None
  | (q, i) :: r => if N.eqb q p then Some i else map_get r p
  end.

(* func (pc *PubkeyCache) Pubkey(index) / unsafePubkey *)
Fixpoint pubkey_at (fuel : nat) (hp : heap) (h : nat) (i : nat) : outcome (option pubkey) :=
  match fuel with
  | 0 => OutOfFuel
  | S f =>
      match get hp h with
      | None => Panic NilDeref
      | Some c =>
          if trusted c <=? i then
            if trusted c + length (idx2pub c) <=? i then Ok None
            else match nth_error (idx2pub c) (i - trusted c) with
                 | Some p => Ok (Some p)
                 | None => Panic IndexOOR
                 end
          else match parent c with
               | Some q => pubkey_at f hp q i
               | None => Ok None
               end
      end
  end.

(* func (pc *PubkeyCache) ValidatorIndex(pubkey) / unsafeValidatorIndex — REPAIRED: an answer of the parent
   at or past trustedParentCount is not part of this cache's history *)
Fixpoint validator_index (fuel : nat) (hp : heap) (h : nat) (p : pubkey) : outcome (option nat) :=
  match fuel with
  | 0 => OutOfFuel
  | S f =>
      match get hp h with
      | None => Panic NilDeref
      | Some c =>
          match map_get (pub2idx c) p with
          | Some i => Ok (Some i)
          | None =>
              match parent c with
              | Some q =>
                  bind (validator_index f hp q p) (fun r =>
                    match r with
                    | Some i => if trusted c <=? i then Ok None else Ok (Some i)
                    | None => Ok None
                    end)
              | None => Ok None
              end
          end
      end
  end.

(* the pinned snapshot: delegates to the parent with no guard *)
Fixpoint validator_index_orig (fuel : nat) (hp : heap) (h : nat) (p : pubkey) : outcome (option nat) :=
  match fuel with
  | 0 => OutOfFuel
  | S f =>
      match get hp h with
      | None => Panic NilDeref
      | Some c =>
          match map_get (pub2idx c) p with
          | Some i => Ok (Some i)
          | None =>
              match parent c with
              | Some q => validator_index_orig f hp q p
              | None => Ok None
              end
          end
      end
  end.

Definition fork_of (h t : nat) : cache := mkCache (Some h) t [] [].
Definition append_to (c : cache) (i : nat) (p : pubkey) : cache :=
  mkCache (parent c) (trusted c) ((p, i) :: pub2idx c) (idx2pub c ++ [p]).

(* func (pc *PubkeyCache) AddValidator(index, pub), returning a cache pointer and an error, parametric in the lookup used *)
Section Add.
Variable vidx : nat -> heap -> nat -> pubkey -> outcome (option nat).
Fixpoint add_validator_with (fuel : nat) (hp : heap) (h : nat) (i : nat) (p : pubkey) : outcome (heap * nat) :=
  match fuel with
  | 0 => OutOfFuel
  | S f =>
      bind (vidx f hp h p) (fun ei =>          (* existingIndex, indexExists := pc.ValidatorIndex(pub) *)
      bind (pubkey_at f hp h i) (fun ep =>     (* existingPubkey, pubkeyExists := pc.Pubkey(index) *)
        (* forkedPc := &PubkeyCache{parent: pc, trustedParentCount: t}; return forkedPc.AddValidator(index, pub) *)
        let fork t := add_validator_with f (fork_of h t :: hp) (length hp) i p in
        let differs := match ep with Some q => negb (N.eqb q p) | None => false end in
        match ei with
        | Some j =>
            if negb (j =? i) then fork j
            else if differs then fork i
            else Ok (hp, h)                    (* append is no-op, validator already exists *)
        | None =>
            if differs then fork i
            else match get hp h with
                 | None => Panic NilDeref
                 | Some c =>
                     if i =? trusted c + length (idx2pub c)
                     then Ok (set hp h (append_to c i p), h)
                     else Err                  (* missing earlier index *)
                 end
        end))
  end.
End Add.
Definition add_validator := add_validator_with validator_index.
Definition add_validator_orig := add_validator_with validator_index_orig.

(* NewPubkeyCache(vals): the loop `pc.pub2idx[pub] = idx; pc.idx2pub = append(...)` *)
Fixpoint build_map (l : list pubkey) (start : nat) (acc : list (pubkey * nat)) : list (pubkey * nat) :=
  match l with
  | [] => acc
  | p :: r => build_map r (S start) ((p, start) :: acc)
  end.
Definition new_cache (l : list pubkey) : cache := mkCache None 0 (build_map l 0 []) l.

(* ---------- Impl state: heap and handle variables ---------- *)
Record istate := mkI { iheap : heap; ivars : list nat }.
Definition i_init (l : list pubkey) : istate := mkI [new_cache l] [0].

(* length of the parent chain of h (root = 1) *)
Fixpoint depth (hp : heap) (h : nat) : nat :=
  match hp with
  | [] => 0
  | c :: r =>
      if h =? length r then S (match parent c with Some q => depth r q | None => 0 end)
      else depth r h
  end.
Definition lookup_fuel (hp : heap) (h : nat) : nat := depth hp h.
Definition add_fuel (hp : heap) (h : nat) : nat := depth hp h + 5.

Definition lift {A} (o : outcome A) (f : A -> obs) : out :=
  match o with
  | Ok a => Ok (f a)
  | Err => Err
  | Panic x => Panic x
  | Blocked => Blocked
  | OutOfFuel => OutOfFuel
  end.

Section Step.
Variable addv : nat -> heap -> nat -> nat -> pubkey -> outcome (heap * nat).
Variable vidx : nat -> heap -> nat -> pubkey -> outcome (option nat).
Variable extra : nat.    (* additional fuel; 0 suffices for the repaired code *)
Definition i_step_with (s : istate) (o : op) : istate * out :=
  match o with
  | OPub v i =>
      match nth_error (ivars s) v with
      | None => (s, Ok VNoHandle)
      | Some h => (s, lift (pubkey_at (lookup_fuel (iheap s) h + extra) (iheap s) h i) VPub)
      end
  | OIdx v p =>
      match nth_error (ivars s) v with
      | None => (s, Ok VNoHandle)
      | Some h => (s, lift (vidx (lookup_fuel (iheap s) h + extra) (iheap s) h p) VIdx)
      end
  | ODup v =>
      match nth_error (ivars s) v with
      | None => (s, Ok VNoHandle)
      | Some h => (mkI (iheap s) (ivars s ++ [h]), Ok VDup)
      end
  | OAdd v dst i p =>
      match nth_error (ivars s) v with
      | None => (s, Ok VNoHandle)
      | Some h =>
          match addv (add_fuel (iheap s) h + extra) (iheap s) h i p with
          | Ok (hp', h') => (mkI hp' (put (ivars s) dst h'), Ok (VAdd (h' =? h)))
          | Err => (s, Err)                    (* forks allocated on the way are unreachable garbage *)
          | Panic x => (s, Panic x)
          | Blocked => (s, Blocked)
          | OutOfFuel => (s, OutOfFuel)
          end
      end
  end.
End Step.
Definition i_step := i_step_with add_validator validator_index 0.
Definition i_step_orig (extra : nat) := i_step_with add_validator_orig validator_index_orig extra.

(* the history a heap object denotes: the trusted prefix of the parent's history, then its own entries *)
Fixpoint abs (hp : heap) (h : nat) : list pubkey :=
  match hp with
  | [] => []
  | c :: r =>
      if h =? length r
      then (match parent c with Some q => firstn (trusted c) (abs r q) | None => [] end) ++ idx2pub c
      else abs r h
  end.
