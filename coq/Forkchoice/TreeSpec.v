(* Spec, part 1: the block/slot tree denoted by the history of accepted insertions, and the navigation
   queries as direct walks of that tree. Nothing here knows about indices, offsets, insertion order or
   best-child links. A tree is a finite set of nodes (root, slot) carrying the parent root and the
   justified/finalized epochs they were inserted with. NO proofs here. *)
From Coq Require Import NArith ZArith List Bool.
From V Require Import Base.U64 Base.Outcome Forkchoice.ProtoArray.
Import ListNotations.
Local Open Scope N_scope.

Record snode := mkSN { s_ref : ref; s_parent : root; s_je : epoch; s_fe : epoch }.
Definition tree := list snode.   (* as a set: at most one node per ref (tree_nodup) *)

Definition find_node (t : tree) (r : ref) : option snode := find (fun n => ref_eqb (s_ref n) r) t.
Definition known (t : tree) (r : ref) : bool := match find_node t r with Some _ => true | None => false end.
Definition nodes_of_root (t : tree) (r : root) : list snode := filter (fun n => fst (s_ref n) =? r) t.

(* lowest known slot of a root *)
Definition low (t : tree) (r : root) : option slot :=
  match nodes_of_root t r with
  | [] => None
  | n :: ns => Some (fold_left (fun acc m => N.min acc (snd (s_ref m))) ns (snd (s_ref n)))
  end.

(* a node carries a block when its root differs from its parent root; otherwise it is an empty slot on top of its root *)
Definition is_block (n : snode) : bool := negb (s_parent n =? fst (s_ref n)).

(* transition parent: the slot before for an empty-slot node, the same slot without the block for a block node *)
Definition trans_parent (t : tree) (n : snode) : option snode :=
  if is_block n then find_node t (s_parent n, snd (s_ref n))
  else if snd (s_ref n) =? 0 then None else find_node t (fst (s_ref n), snd (s_ref n) - 1).

(* fork-choice parent (zrnt's block-slot graph): an empty-slot node hangs off the slot before;
   a block hangs off the lowest known node of its parent root *)
Definition fc_parent (t : tree) (n : snode) : option snode :=
  if is_block n then
    match low t (s_parent n) with
    | Some lp => if lp <? snd (s_ref n) then find_node t (s_parent n, lp) else None
    | None => None
    end
  else if snd (s_ref n) =? 0 then None else find_node t (fst (s_ref n), snd (s_ref n) - 1).

(* n is a (reflexive) descendant of a along `par` *)
Fixpoint reaches (par : snode -> option snode) (fuel : nat) (a : ref) (n : snode) : bool :=
  ref_eqb (s_ref n) a ||
  match fuel with
  | O => false
  | S fuel' => match par n with Some p => reaches par fuel' a p | None => false end
  end.
Definition tree_fuel (t : tree) : nat := S (2 * length t).
Definition is_desc (t : tree) (a : ref) (n : snode) : bool := reaches (trans_parent t) (tree_fuel t) a n.
Definition is_fc_desc (t : tree) (a : ref) (n : snode) : bool := reaches (fc_parent t) (tree_fuel t) a n.

Definition subtree (t : tree) (a : ref) : tree := filter (is_desc t a) t.
Definition non_descendants (t : tree) (a : ref) : tree := filter (fun n => negb (is_desc t a n)) t.

(* ancestors of n (n excluded), nearest first *)
Fixpoint ancestors_from (par : snode -> option snode) (fuel : nat) (n : snode) : list snode :=
  match fuel with
  | O => []
  | S fuel' => match par n with Some p => p :: ancestors_from par fuel' p | None => [] end
  end.
Definition trans_ancestors (t : tree) (n : snode) : list snode := ancestors_from (trans_parent t) (tree_fuel t) n.

(* ---------- insertions ---------- *)
Definition add_node (t : tree) (n : snode) : tree := if known t (s_ref n) then t else t ++ [n].

(* empty-slot nodes (parent, i) for from <= i <= to *)
Fixpoint add_slots (fuel : nat) (t : tree) (parent : root) (i to : slot) (je fe : epoch) : tree :=
  match fuel with
  | O => t
  | S fuel' => if to <? i then t else add_slots fuel' (add_node t (mkSN (parent, i) parent je fe)) parent (i + 1) to je fe
  end.

(* in the domain: parent known and slot above its lowest known slot; the nodes between get the same epochs *)
Definition spec_process_slot (t : tree) (parent : root) (sl : slot) (je fe : epoch) : tree :=
  if known t (parent, sl) then t else
  match low t parent with
  | Some lo => add_slots (N.to_nat (sl - lo)) t parent (lo + 1) sl je fe
  | None => t
  end.

Definition spec_process_block (t : tree) (parent blockRoot : root) (sl : slot) (je fe : epoch) : tree * bool :=
  if known t (blockRoot, sl) then (t, true) else
  match low t blockRoot with
  | Some _ => (t, true)
  | None =>
      match low t parent with
      | None => (t, false)
      | Some lo => if sl <=? lo then (t, false)
                   else (add_node (spec_process_slot t parent sl je fe) (mkSN (blockRoot, sl) parent je fe), true)
      end
  end.

(* ---------- queries: direct walks ---------- *)
Definition spec_get_slot (t : tree) (r : root) : option slot := low t r.

Definition spec_closest (t : tree) (r : root) (sl : slot) : outcome ref :=
  if known t (r, sl) then Ok (r, sl) else
  match low t r with
  | None => Err
  | Some lo =>
      if sl <? lo then Err else
      Ok (r, fold_left (fun acc m => if (snd (s_ref m) <=? sl) && (acc <? snd (s_ref m)) then snd (s_ref m) else acc)
                       (nodes_of_root t r) lo)
  end.

(* (unknown, inSubtree) for two roots: the lowest known nodes of the roots are compared *)
Definition spec_in_subtree (t : tree) (a r : root) : bool * bool :=
  if a =? r then (false, true) else
  match low t a, low t r with
  | Some la, Some lr =>
      match find_node t (r, lr) with
      | Some n => (false, is_desc t (a, la) n)
      | None => (true, false)
      end
  | _, _ => (true, false)
  end.

(* chain from a node down to the root of the tree: (ref, parent root) *)
Definition spec_chain_from (t : tree) (h : snode) : list (ref * root) :=
  map (fun n => (s_ref n, s_parent n)) (h :: trans_ancestors t h).

(* the node at `sl` on the chain below head h (h.slot > sl): without block = the empty-slot node; with block = the
   block node, or nothing when that slot is empty on this chain *)
Definition spec_canon_walk (t : tree) (h : snode) (sl : slot) (withBlock : bool) : outcome ref :=
  let chain := h :: trans_ancestors t h in
  if withBlock then
    match find (fun n => snd (s_ref n) <=? sl) chain with
    | Some n => if snd (s_ref n) =? sl then (if is_block n then Ok (s_ref n) else Ok zero_ref) else Err
    | None => Err
    end
  else
    match find (fun n => negb (is_block n) && (snd (s_ref n) <=? sl)) chain with
    | Some n => if snd (s_ref n) =? sl then Ok (s_ref n) else Err
    | None => Err
    end.

(* blocks below the anchor node matching the filters; canonical = on the chain of the head *)
Definition spec_search (t : tree) (anchor : ref) (h : snode) (parentRoot : option root) (sl : option slot) : list ref * list ref :=
  let chain := h :: trans_ancestors t h in
  let hits := filter (fun n => is_block n
                               && (match parentRoot with Some p => s_parent n =? p | None => true end)
                               && (match sl with Some s => snd (s_ref n) =? s | None => true end)
                               && is_desc t anchor n) t in
  let on_chain n := existsb (fun c => ref_eqb (s_ref c) (s_ref n)) chain in
  (map s_ref (filter (fun n => negb (on_chain n)) hits), map s_ref (filter on_chain hits)).

(* set equality of reference lists (results of Search are compared as sets) *)
Definition ref_mem (r : ref) (l : list ref) : bool := existsb (ref_eqb r) l.
Definition refs_same_set (a b : list ref) : bool :=
  (length a =? length b)%nat && forallb (fun r => ref_mem r b) a && forallb (fun r => ref_mem r a) b.
