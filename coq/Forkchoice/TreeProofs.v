(* Proofs, part 3 (C11): the array built by ProcessSlot/ProcessBlock denotes exactly the tree of accepted insertions.
   Simulation relation [Rel]: the node slice, read as a list of (ref, parent root, epochs), IS the Spec's tree (same order),
   `indices` is its position table, `blockSlots` its lowest-slot table. For ALL insertion histories. *)
From Coq Require Import NArith ZArith List Bool Lia.
From Coq Require Import ZifyN ZifyNat ZifyBool.
From V Require Import Base.U64 Base.Outcome Forkchoice.ProtoArray Forkchoice.TreeSpec.
Import ListNotations.
Local Open Scope N_scope.

(* ---------- keys and maps ---------- *)
Lemma ref_eqb_eq a b : ref_eqb a b = true <-> a = b.
Proof.
  destruct a as [a1 a2], b as [b1 b2]. unfold ref_eqb. cbn. rewrite andb_true_iff, !N.eqb_eq.
  split; [intros [-> ->]; reflexivity | intros H; inversion H; auto].
Qed.
Lemma ref_eqb_refl a : ref_eqb a a = true. Proof. apply ref_eqb_eq. reflexivity. Qed.
Lemma ref_eqb_neq a b : ref_eqb a b = false <-> a <> b.
Proof. rewrite <- ref_eqb_eq. destruct (ref_eqb a b); split; congruence. Qed.
Lemma ref_eqb_sym a b : ref_eqb a b = ref_eqb b a.
Proof. destruct (ref_eqb a b) eqn:E; symmetry; [apply ref_eqb_eq; apply ref_eqb_eq in E; auto | apply ref_eqb_neq; apply ref_eqb_neq in E; auto]. Qed.

Lemma idx_get_del m k k' : idx_get (idx_del m k) k' = if ref_eqb k' k then None else idx_get m k'.
Proof.
  induction m as [|[k0 v] m IH]; cbn; [destruct (ref_eqb k' k); reflexivity|].
  destruct (ref_eqb k k0) eqn:E.
  - rewrite IH. apply ref_eqb_eq in E. subst k0. destruct (ref_eqb k' k); reflexivity.
  - cbn. destruct (ref_eqb k' k0) eqn:E2.
    + apply ref_eqb_eq in E2. subst k0. rewrite ref_eqb_sym, E. reflexivity.
    + exact IH.
Qed.
Lemma idx_get_set m k v k' : idx_get (idx_set m k v) k' = if ref_eqb k' k then Some v else idx_get m k'.
Proof. unfold idx_set. cbn. destruct (ref_eqb k' k) eqn:E; [reflexivity|]. rewrite idx_get_del, E. reflexivity. Qed.
Lemma idx_del_absent m k : idx_get m k = None -> idx_del m k = m.
Proof.
  induction m as [|[k0 v] m IH]; cbn; [reflexivity|]. destruct (ref_eqb k k0); [discriminate|].
  intros H. rewrite IH; auto.
Qed.

Lemma bs_get_del m k k' : bs_get (bs_del m k) k' = if k' =? k then None else bs_get m k'.
Proof.
  induction m as [|[k0 v] m IH]; cbn; [destruct (k' =? k); reflexivity|].
  destruct (k =? k0) eqn:E.
  - rewrite IH. apply N.eqb_eq in E. subst k0. destruct (k' =? k); reflexivity.
  - cbn. destruct (k' =? k0) eqn:E2.
    + apply N.eqb_eq in E2. subst k0. rewrite N.eqb_sym, E. reflexivity.
    + exact IH.
Qed.
Lemma bs_get_set m k v k' : bs_get (bs_set m k v) k' = if k' =? k then Some v else bs_get m k'.
Proof. unfold bs_set. cbn. destruct (k' =? k) eqn:E; [reflexivity|]. rewrite bs_get_del, E. reflexivity. Qed.

(* ---------- abstraction ---------- *)
Definition abs_node (n : node) : snode := mkSN (n_ref n) (n_parent n) (n_je n) (n_fe n).
Definition abs (pa : parray) : tree := map abs_node (pa_nodes pa).
Definition created (pa : parray) : N := pa_off pa + lenN (pa_nodes pa).   (* nodes ever created *)

Lemma find_node_app t1 t2 r : find_node (t1 ++ t2) r = match find_node t1 r with Some n => Some n | None => find_node t2 r end.
Proof. unfold find_node. induction t1; cbn; [reflexivity|]. destruct (ref_eqb (s_ref a) r); auto. Qed.
Lemma known_app t1 t2 r : known (t1 ++ t2) r = known t1 r || known t2 r.
Proof. unfold known. rewrite find_node_app. destruct (find_node t1 r); cbn; reflexivity. Qed.
Lemma known_single n r : known [n] r = ref_eqb (s_ref n) r.
Proof. unfold known, find_node. cbn. destruct (ref_eqb (s_ref n) r); reflexivity. Qed.

Lemma find_node_some t r n : find_node t r = Some n -> In n t /\ s_ref n = r.
Proof.
  unfold find_node. intros H. apply find_some in H. destruct H as [H1 H2]. apply ref_eqb_eq in H2. auto.
Qed.
Lemma known_in t r : known t r = true <-> exists n, In n t /\ s_ref n = r.
Proof.
  unfold known. split.
  - destruct (find_node t r) eqn:E; [|discriminate]. intros _. exists s. apply find_node_some. exact E.
  - intros [n [Hin Hr]]. destruct (find_node t r) eqn:E; [reflexivity|]. unfold find_node in E.
    pose proof (find_none _ _ E n Hin) as H. cbn in H. rewrite Hr, ref_eqb_refl in H. discriminate.
Qed.

(* ---------- lowest slot of a root ---------- *)
Fixpoint min_slot_from (ns : list snode) (acc : slot) : slot :=
  match ns with [] => acc | m :: ns' => min_slot_from ns' (N.min acc (snd (s_ref m))) end.
Lemma min_slot_from_fold ns : forall acc, fold_left (fun acc m => N.min acc (snd (s_ref m))) ns acc = min_slot_from ns acc.
Proof. induction ns; intros acc; cbn; [reflexivity|apply IHns]. Qed.
Lemma min_slot_from_le ns : forall acc, min_slot_from ns acc <= acc.
Proof. induction ns; intros acc; cbn; [lia|]. etransitivity; [apply IHns|]. lia. Qed.
Lemma min_slot_from_lb ns : forall acc n, In n ns -> min_slot_from ns acc <= snd (s_ref n).
Proof.
  induction ns; intros acc n Hin; [destruct Hin|]. cbn. destruct Hin as [->|Hin].
  - etransitivity; [apply min_slot_from_le|]. lia.
  - apply IHns. exact Hin.
Qed.
Lemma min_slot_from_mono ns : forall a b, a <= b -> min_slot_from ns a <= min_slot_from ns b.
Proof. induction ns; intros a0 b Hab; cbn; [exact Hab|]. apply IHns. lia. Qed.
Lemma min_slot_from_attained ns : forall acc, min_slot_from ns acc = acc \/ exists n, In n ns /\ min_slot_from ns acc = snd (s_ref n).
Proof.
  induction ns; intros acc; cbn; [left; reflexivity|].
  destruct (IHns (N.min acc (snd (s_ref a)))) as [H|[n [Hin H]]].
  - rewrite H. destruct (N.min_spec acc (snd (s_ref a))) as [[_ E]|[_ E]]; rewrite E; [left; reflexivity|right; exists a; auto].
  - right. exists n. auto.
Qed.

(* characterisation of [low]: the least slot among the nodes of the root *)
Lemma low_none t r : low t r = None <-> forall n, In n t -> fst (s_ref n) <> r.
Proof.
  unfold low, nodes_of_root. split.
  - destruct (filter _ t) eqn:E; [|discriminate]. intros _ n Hin Hr.
    assert (In n (filter (fun n => fst (s_ref n) =? r) t)) by (apply filter_In; split; auto; apply N.eqb_eq; auto).
    rewrite E in H. destruct H.
  - intros H. destruct (filter _ t) eqn:E; [reflexivity|].
    assert (In s (filter (fun n => fst (s_ref n) =? r) t)) by (rewrite E; left; reflexivity).
    apply filter_In in H0. destruct H0 as [H0 H1]. apply N.eqb_eq in H1. exfalso. eapply H; eauto.
Qed.
Lemma low_some t r lo : low t r = Some lo <->
  (exists n, In n t /\ fst (s_ref n) = r /\ snd (s_ref n) = lo) /\ (forall n, In n t -> fst (s_ref n) = r -> lo <= snd (s_ref n)).
Proof.
  unfold low, nodes_of_root. set (f := fun n => fst (s_ref n) =? r).
  assert (Hf : forall n, In n (filter f t) <-> In n t /\ fst (s_ref n) = r).
  { intros n. rewrite filter_In. unfold f. rewrite N.eqb_eq. tauto. }
  destruct (filter f t) as [|n0 ns] eqn:E.
  - split; [discriminate|]. intros [[n [Hin [Hr _]]] _]. assert (In n []) by (apply Hf; auto). destruct H.
  - rewrite min_slot_from_fold. split.
    + intros H. inversion H. subst lo. clear H. split.
      * destruct (min_slot_from_attained ns (snd (s_ref n0))) as [H|[n [Hin H]]].
        -- exists n0. rewrite H. assert (In n0 (n0 :: ns)) by (left; reflexivity). apply Hf in H0. tauto.
        -- exists n. rewrite H. assert (In n (n0 :: ns)) by (right; exact Hin). apply Hf in H0. tauto.
      * intros n Hin Hr. assert (Hn : In n (n0 :: ns)) by (apply Hf; auto). destruct Hn as [->|Hn].
        -- apply min_slot_from_le.
        -- apply min_slot_from_lb. exact Hn.
    + intros [[n [Hin [Hr Hlo]]] Hmin]. f_equal. apply N.le_antisymm.
      * assert (Hn : In n (n0 :: ns)) by (apply Hf; auto). subst lo. destruct Hn as [->|Hn]; [apply min_slot_from_le|apply min_slot_from_lb; auto].
      * destruct (min_slot_from_attained ns (snd (s_ref n0))) as [H|[m [Hm H]]]; rewrite H.
        -- apply Hmin; apply (Hf n0); left; reflexivity.
        -- apply Hmin; apply (Hf m); right; exact Hm.
Qed.

Lemma low_app_single t n r :
  low (t ++ [n]) r =
  if fst (s_ref n) =? r
  then Some (match low t r with Some lo => N.min lo (snd (s_ref n)) | None => snd (s_ref n) end)
  else low t r.
Proof.
  unfold low, nodes_of_root. rewrite filter_app. cbn [filter].
  destruct (fst (s_ref n) =? r); [|rewrite app_nil_r; reflexivity].
  destruct (filter _ t) as [|n0 ns]; cbn [app]; [reflexivity|].
  rewrite fold_left_app. reflexivity.
Qed.

Lemma low_known t r lo : low t r = Some lo -> known t (r, lo) = true.
Proof.
  intros H. apply low_some in H. destruct H as [[n [Hin [Hr Hs]]] _]. apply known_in. exists n. split; auto.
  destruct (s_ref n). cbn in *. subst. reflexivity.
Qed.
Lemma known_low t r s : known t (r, s) = true -> exists lo, low t r = Some lo /\ lo <= s.
Proof.
  intros H. apply known_in in H. destruct H as [n [Hin Hr]].
  destruct (low t r) as [lo|] eqn:E.
  - exists lo. split; auto. apply low_some in E. destruct E as [_ Hmin]. specialize (Hmin n Hin). rewrite Hr in Hmin. apply Hmin. reflexivity.
  - exfalso. rewrite low_none in E. apply (E n Hin). rewrite Hr. reflexivity.
Qed.

(* ---------- the simulation relation ---------- *)
Record Rel (pa : parray) : Prop := mkRel {
  r_idx1 : forall i n, nth_error (pa_nodes pa) i = Some n -> idx_get (pa_idx pa) (n_ref n) = Some (pa_off pa + N.of_nat i);
  r_idx2 : forall r k, idx_get (pa_idx pa) r = Some k ->
           exists i n, nth_error (pa_nodes pa) i = Some n /\ n_ref n = r /\ k = pa_off pa + N.of_nat i;
  r_bs : forall r, bs_get (pa_bs pa) r = low (abs pa) r
}.

Lemma abs_in pa m : In m (abs pa) <-> exists i n, nth_error (pa_nodes pa) i = Some n /\ abs_node n = m.
Proof.
  unfold abs. rewrite in_map_iff. split.
  - intros [n [Hm Hin]]. apply In_nth_error in Hin. destruct Hin as [i Hi]. exists i, n. auto.
  - intros [i [n [Hi Hm]]]. exists n. split; auto. eapply nth_error_In; eauto.
Qed.

Lemma Rel_known pa r : Rel pa -> known (abs pa) r = true <-> exists k, idx_get (pa_idx pa) r = Some k.
Proof.
  intros HR. rewrite known_in. split.
  - intros [m [Hin Hr]]. apply abs_in in Hin. destruct Hin as [i [n [Hi Hm]]]. subst m. cbn in Hr. subst r.
    eexists. eapply r_idx1; eauto.
  - intros [k Hk]. destruct (r_idx2 pa HR r k Hk) as [i [n [Hi [Hr _]]]]. exists (abs_node n). split; [|exact Hr].
    apply abs_in. exists i, n. auto.
Qed.
Lemma Rel_known_false pa r : Rel pa -> known (abs pa) r = false <-> idx_get (pa_idx pa) r = None.
Proof.
  intros HR. pose proof (Rel_known pa r HR) as [H1 H2]. split.
  - intros Hk. destruct (idx_get (pa_idx pa) r) eqn:E; [|reflexivity].
    rewrite H2 in Hk by eauto. discriminate.
  - intros Hn. destruct (known (abs pa) r) eqn:E; [|reflexivity].
    destruct (H1 eq_refl) as [k Hk]. congruence.
Qed.

Lemma abs_push pa n : abs (push_node pa n) = abs pa ++ [abs_node n].
Proof. unfold abs, push_node. cbn. rewrite map_app. reflexivity. Qed.
Lemma created_push pa n : created (push_node pa n) = created pa + 1.
Proof. unfold created, push_node, lenN. cbn. rewrite app_length. cbn. lia. Qed.

Lemma lenN_lt_nth {A} (l : list A) i x : nth_error l i = Some x -> N.of_nat i < lenN l.
Proof. intros H. unfold lenN. assert (i < length l)%nat by (apply nth_error_Some; congruence). lia. Qed.

(* pushing a node with a fresh ref keeps the position table exact *)
Lemma push_idx pa n :
  Rel pa -> idx_get (pa_idx pa) (n_ref n) = None -> created pa < two64 ->
  (forall i m, nth_error (pa_nodes (push_node pa n)) i = Some m ->
     idx_get (pa_idx (push_node pa n)) (n_ref m) = Some (pa_off pa + N.of_nat i)) /\
  (forall r k, idx_get (pa_idx (push_node pa n)) r = Some k ->
     exists i m, nth_error (pa_nodes (push_node pa n)) i = Some m /\ n_ref m = r /\ k = pa_off pa + N.of_nat i).
Proof.
  intros HR Hfresh Hc. unfold push_node. cbn [pa_nodes pa_idx pa_off].
  assert (Hadd : add64 (pa_off pa) (lenN (pa_nodes pa)) = pa_off pa + lenN (pa_nodes pa)).
  { unfold add64. apply wrap64_small. exact Hc. }
  rewrite Hadd. split.
  - intros i m Hi. rewrite idx_get_set.
    destruct (Nat.lt_ge_cases i (length (pa_nodes pa))) as [Hlt|Hge].
    + rewrite nth_error_app1 in Hi by exact Hlt.
      destruct (ref_eqb (n_ref m) (n_ref n)) eqn:E.
      * apply ref_eqb_eq in E. rewrite <- E in Hfresh. rewrite (r_idx1 pa HR i m Hi) in Hfresh. discriminate.
      * eapply r_idx1; eauto.
    + rewrite nth_error_app2 in Hi by exact Hge.
      destruct (i - length (pa_nodes pa))%nat eqn:E; cbn in Hi; [|destruct n0; discriminate].
      inversion Hi. subst m. rewrite ref_eqb_refl. f_equal. unfold lenN. lia.
  - intros r k Hk. rewrite idx_get_set in Hk. destruct (ref_eqb r (n_ref n)) eqn:E.
    + apply ref_eqb_eq in E. inversion Hk. subst. exists (length (pa_nodes pa)), n. split; [|split; [reflexivity|unfold lenN; lia]].
      rewrite nth_error_app2 by lia. rewrite Nat.sub_diag. reflexivity.
    + destruct (r_idx2 pa HR r k Hk) as [i [m [Hi [Hr Hkk]]]]. exists i, m. split; [|auto].
      rewrite nth_error_app1; [exact Hi|]. apply nth_error_Some. congruence.
Qed.

(* ---------- ProcessSlot: the gap-filling loop is add_slots ---------- *)
Lemma gap_created parent sl je fe : forall fuel i pidx pa,
  created pa <= created (fst (gap_loop fuel parent i sl je fe pidx pa)).
Proof.
  induction fuel; intros i pidx pa; cbn [gap_loop]; [cbn; lia|].
  destruct (i <? sl); [|cbn; lia].
  destruct (idx_get (pa_idx pa) (parent, i)).
  - apply IHfuel.
  - etransitivity; [|apply IHfuel]. rewrite created_push. lia.
Qed.

Definition same_frame (pa pa' : parray) : Prop :=
  pa_bs pa' = pa_bs pa /\ pa_off pa' = pa_off pa /\ pa_sink_nil pa' = pa_sink_nil pa /\
  pa_je pa' = pa_je pa /\ pa_fe pa' = pa_fe pa /\ pa_upd pa' = pa_upd pa.
Lemma same_frame_refl pa : same_frame pa pa. Proof. repeat split. Qed.
Lemma same_frame_push pa n : same_frame pa (push_node pa n). Proof. repeat split. Qed.
Lemma same_frame_trans a b c : same_frame a b -> same_frame b c -> same_frame a c.
Proof. unfold same_frame. intuition congruence. Qed.

Lemma Rel_push_slot pa parent lo i pidx je fe :
  Rel pa -> low (abs pa) parent = Some lo -> lo < i -> idx_get (pa_idx pa) (parent, i) = None -> created pa < two64 ->
  Rel (push_node pa (fresh_node (parent, i) pidx parent je fe)).
Proof.
  intros HR Hlo Hi Hfresh Hc.
  destruct (push_idx pa (fresh_node (parent, i) pidx parent je fe) HR Hfresh Hc) as [H1 H2].
  constructor; [exact H1 | exact H2 |].
  intros r. rewrite abs_push, low_app_single. cbn [abs_node fresh_node n_ref s_ref fst snd push_node pa_bs].
  rewrite (r_bs pa HR r). destruct (parent =? r) eqn:E; [|reflexivity].
  apply N.eqb_eq in E. subst r. rewrite Hlo. f_equal. lia.
Qed.

Lemma gap_sim parent sl je fe lo : forall fuel i pidx pa,
  Rel pa -> low (abs pa) parent = Some lo -> lo < i ->
  created (fst (gap_loop fuel parent i sl je fe pidx pa)) < two64 ->
  let pa' := fst (gap_loop fuel parent i sl je fe pidx pa) in
  Rel pa' /\ abs pa' = add_slots fuel (abs pa) parent i (sl - 1) je fe /\ same_frame pa pa'.
Proof.
  induction fuel; intros i pidx pa HR Hlo Hi Hc; cbn [gap_loop add_slots] in *.
  - cbn. split; [exact HR|]. split; [reflexivity|apply same_frame_refl].
  - assert (Hcond : (sl - 1 <? i) = negb (i <? sl)).
    { destruct (N.ltb_spec i sl); destruct (N.ltb_spec (sl - 1) i); cbn; try reflexivity; lia. }
    rewrite Hcond. destruct (i <? sl) eqn:Ei; cbn [negb].
    2: { cbn. split; [exact HR|]. split; [reflexivity|apply same_frame_refl]. }
    revert Hc.
    match goal with |- context [idx_get (pa_idx pa) ?key] => destruct (idx_get (pa_idx pa) key) as [k|] eqn:Ek end;
      intros Hc.
    + unfold add_node. cbn [s_ref].
      match goal with |- context [if known (abs pa) ?key then _ else _] =>
        assert (Hk : known (abs pa) key = true) by (apply Rel_known; eauto); rewrite Hk end.
      apply IHfuel; auto. lia.
    + unfold add_node at 1. cbn [s_ref].
      match goal with |- context [if known (abs pa) ?key then _ else _] =>
        assert (Hk : known (abs pa) key = false) by (apply Rel_known_false; auto); rewrite Hk end.
      assert (Hc1 : created pa < two64).
      { pose proof (gap_created parent sl je fe fuel (i + 1) (add64 (pa_off pa) (lenN (pa_nodes pa)))
                                (push_node pa (fresh_node (parent, i) pidx parent je fe))) as Hm.
        rewrite created_push in Hm. lia. }
      set (pa1 := push_node pa (fresh_node (parent, i) pidx parent je fe)) in *.
      assert (HR1 : Rel pa1) by (eapply Rel_push_slot; eauto).
      assert (Hlo1 : low (abs pa1) parent = Some lo).
      { unfold pa1. rewrite abs_push, low_app_single. cbn. rewrite N.eqb_refl, Hlo. f_equal. lia. }
      destruct (IHfuel (i + 1) (add64 (pa_off pa) (lenN (pa_nodes pa))) pa1 HR1 Hlo1 ltac:(lia) Hc) as [A [B C]].
      split; [exact A|]. split.
      * rewrite B. unfold pa1. rewrite abs_push. reflexivity.
      * eapply same_frame_trans; [apply same_frame_push|exact C].
Qed.

Lemma known_add_node t n r : known (add_node t n) r = known t r || ref_eqb (s_ref n) r.
Proof.
  unfold add_node. destruct (known t (s_ref n)) eqn:E.
  - destruct (ref_eqb (s_ref n) r) eqn:E2; [|rewrite orb_false_r; reflexivity].
    apply ref_eqb_eq in E2. subst r. rewrite E. reflexivity.
  - rewrite known_app, known_single. reflexivity.
Qed.

Lemma known_add_slots p je fe : forall fuel t i to r,
  known (add_slots fuel t p i to je fe) r = true -> known t r = true \/ (fst r = p /\ i <= snd r <= to).
Proof.
  induction fuel; intros t i to r H; cbn [add_slots] in H; [left; exact H|].
  destruct (to <? i) eqn:E; [left; exact H|]. apply N.ltb_ge in E.
  apply IHfuel in H. destruct H as [H|[H1 H2]].
  - rewrite known_add_node in H. apply orb_true_iff in H. destruct H as [H|H]; [left; exact H|].
    cbn in H. apply ref_eqb_eq in H. subst r. right. cbn. split; [reflexivity|lia].
  - right. split; [exact H1|lia].
Qed.

(* with enough fuel, filling (i .. to) is filling (i .. to-1) and then adding the node at `to` *)
Lemma add_slots_last p je fe : forall fuel t i to,
  1 <= i -> i <= to -> (N.to_nat (to - i) < fuel)%nat ->
  add_slots fuel t p i to je fe = add_node (add_slots fuel t p i (to - 1) je fe) (mkSN (p, to) p je fe).
Proof.
  induction fuel; intros t i to H1 Hle Hf; [lia|]. cbn [add_slots].
  destruct (to <? i) eqn:E; [apply N.ltb_lt in E; lia|].
  destruct (N.eq_dec i to) as [->|Hne].
  - replace (to - 1 <? to) with true by (symmetry; apply N.ltb_lt; lia).
    destruct fuel; cbn [add_slots]; [reflexivity|].
    replace (to <? to + 1) with true by (symmetry; apply N.ltb_lt; lia). reflexivity.
  - replace (to - 1 <? i) with false by (symmetry; apply N.ltb_ge; lia).
    apply IHfuel; lia.
Qed.

Lemma Rel_with_upd pa b : Rel pa -> Rel (with_upd pa b).
Proof. intros [H1 H2 H3]. constructor; assumption. Qed.

Lemma ProcessSlot_sim parent sl je fe pa :
  Rel pa -> sl < two64 ->
  (known (abs pa) (parent, sl) = true \/
   exists lo, low (abs pa) parent = Some lo /\ lo < sl /\ sl - lo <= slot_fuel_limit) ->
  created (fst (ProcessSlot parent sl je fe pa)) < two64 ->
  snd (ProcessSlot parent sl je fe pa) = Ok tt /\
  Rel (fst (ProcessSlot parent sl je fe pa)) /\
  abs (fst (ProcessSlot parent sl je fe pa)) = spec_process_slot (abs pa) parent sl je fe /\
  pa_bs (fst (ProcessSlot parent sl je fe pa)) = pa_bs pa /\ pa_off (fst (ProcessSlot parent sl je fe pa)) = pa_off pa.
Proof.
  intros HR Hsl Hdom. unfold ProcessSlot, spec_process_slot, mbind, get.
  destruct (idx_get (pa_idx pa) (parent, sl)) as [k|] eqn:Ek.
  - assert (Hk : known (abs pa) (parent, sl) = true) by (apply Rel_known; eauto). rewrite Hk. cbn. auto.
  - assert (Hk : known (abs pa) (parent, sl) = false) by (apply Rel_known_false; auto). rewrite Hk.
    destruct Hdom as [Hd|[lo [Hlo [Hlt Hgap]]]]; [congruence|].
    rewrite (r_bs pa HR parent), Hlo.
    replace (slot_fuel_limit <? sl - lo) with false by (symmetry; apply N.ltb_ge; exact Hgap).
    assert (Hadd : add64 lo 1 = lo + 1) by (unfold add64; apply wrap64_small; lia).
    rewrite Hadd.
    destruct (gap_loop (N.to_nat (sl - lo)) parent (lo + 1) sl je fe (idx_get0 (pa_idx pa) (parent, lo)) pa) as [pa1 pidx] eqn:Eg.
    cbn [put fst snd]. intros Hc.
    assert (Hc' : created (push_node pa1 (fresh_node (parent, sl) pidx parent je fe)) < two64) by exact Hc.
    rewrite created_push in Hc'.
    pose proof (gap_sim parent sl je fe lo (N.to_nat (sl - lo)) (lo + 1) (idx_get0 (pa_idx pa) (parent, lo)) pa HR Hlo ltac:(lia)) as Hs.
    rewrite Eg in Hs. cbn [fst] in Hs. destruct (Hs ltac:(lia)) as [HR1 [Habs [Hbs [Hoff _]]]].
    assert (Hlo1 : low (abs pa1) parent = Some lo).
    { pose proof (r_bs pa1 HR1 parent) as E1. pose proof (r_bs pa HR parent) as E2. rewrite Hbs in E1. congruence. }
    assert (Hfresh : idx_get (pa_idx pa1) (parent, sl) = None).
    { apply Rel_known_false; auto. rewrite Habs.
      destruct (known (add_slots _ (abs pa) parent (lo + 1) (sl - 1) je fe) (parent, sl)) eqn:E; [|reflexivity].
      apply known_add_slots in E. destruct E as [E|[_ E]]; [congruence|cbn in E; lia]. }
    split; [reflexivity|]. split; [|split; [|split]].
    + apply Rel_with_upd. apply (Rel_push_slot pa1 parent lo sl pidx je fe HR1 Hlo1 Hlt Hfresh). lia.
    + change (abs (with_upd (push_node pa1 (fresh_node (parent, sl) pidx parent je fe)) false))
        with (abs (push_node pa1 (fresh_node (parent, sl) pidx parent je fe))).
      rewrite abs_push, Habs. cbn [abs_node fresh_node n_ref n_parent n_je n_fe].
      rewrite (add_slots_last parent je fe (N.to_nat (sl - lo)) (abs pa) (lo + 1) sl) by lia.
      unfold add_node at 1. cbn [s_ref].
      replace (known (add_slots (N.to_nat (sl - lo)) (abs pa) parent (lo + 1) (sl - 1) je fe) (parent, sl)) with false; [reflexivity|].
      symmetry. rewrite <- Habs. apply Rel_known_false; auto.
    + cbn. exact Hbs.
    + cbn. exact Hoff.
Qed.

Lemma known_spec_process_slot t p sl je fe x :
  known (spec_process_slot t p sl je fe) x = true -> known t x = true \/ fst x = p.
Proof.
  unfold spec_process_slot. destruct (known t (p, sl)); [auto|]. destruct (low t p); [|auto].
  intros H. apply known_add_slots in H. tauto.
Qed.

Lemma Rel_low_known pa r lo : Rel pa -> low (abs pa) r = Some lo -> exists k, idx_get (pa_idx pa) (r, lo) = Some k.
Proof. intros HR H. apply Rel_known; auto. apply low_known. exact H. Qed.

Definition block_final (pa1 : parray) (parent r sl je fe tp fcp : N) : parray :=
  let pa2 := push_node pa1 (mkNode (r, sl) tp fcp parent je fe 0%Z NONE NONE) in
  mkPA (pa_sink_nil pa2) (pa_off pa2) (pa_je pa2) (pa_fe pa2) (pa_nodes pa2) (pa_idx pa2) (bs_set (pa_bs pa2) r sl) false.

Lemma ProcessBlock_unfold parent r sl je fe pa :
  ProcessBlock parent r sl je fe pa =
  match idx_get (pa_idx pa) (r, sl) with
  | Some _ => (pa, Ok true)
  | None =>
      match bs_get (pa_bs pa) r with
      | Some _ => (pa, Ok true)
      | None =>
          match bs_get (pa_bs pa) parent with
          | None => (pa, Ok false)
          | Some ps =>
              if sl <=? ps then (pa, Ok false) else
              match ProcessSlot parent sl je fe pa with
              | (pa1, Ok _) =>
                  match idx_get (pa_idx pa1) (parent, ps) with
                  | None => (pa1, Ok false)
                  | Some fcp =>
                      match idx_get (pa_idx pa1) (parent, sl) with
                      | None => (pa1, Panic Explicit)
                      | Some tp => (block_final pa1 parent r sl je fe tp fcp, Ok true)
                      end
                  end
              | (pa1, Err) => (pa1, Err)
              | (pa1, Panic p) => (pa1, Panic p)
              | (pa1, Blocked) => (pa1, Blocked)
              | (pa1, OutOfFuel) => (pa1, OutOfFuel)
              end
          end
      end
  end.
Proof.
  unfold ProcessBlock, mbind, get, ret, put, fail.
  destruct (idx_get (pa_idx pa) (r, sl)); [reflexivity|].
  destruct (bs_get (pa_bs pa) r); [reflexivity|].
  destruct (bs_get (pa_bs pa) parent) as [ps|]; [|reflexivity].
  destruct (sl <=? ps); [reflexivity|].
  destruct (ProcessSlot parent sl je fe pa) as [pa1 o1]. destruct o1; try reflexivity.
  destruct (idx_get (pa_idx pa1) (parent, ps)); [|reflexivity].
  destruct (idx_get (pa_idx pa1) (parent, sl)); reflexivity.
Qed.

Lemma ProcessBlock_sim parent r sl je fe pa :
  Rel pa -> sl < two64 ->
  (forall lo, low (abs pa) parent = Some lo -> sl - lo <= slot_fuel_limit) ->
  created (fst (ProcessBlock parent r sl je fe pa)) < two64 ->
  snd (ProcessBlock parent r sl je fe pa) = Ok (snd (spec_process_block (abs pa) parent r sl je fe)) /\
  Rel (fst (ProcessBlock parent r sl je fe pa)) /\
  abs (fst (ProcessBlock parent r sl je fe pa)) = fst (spec_process_block (abs pa) parent r sl je fe) /\
  pa_off (fst (ProcessBlock parent r sl je fe pa)) = pa_off pa.
Proof.
  intros HR Hsl Hgap. rewrite ProcessBlock_unfold. unfold spec_process_block.
  destruct (idx_get (pa_idx pa) (r, sl)) as [k|] eqn:Ek.
  { assert (Hk : known (abs pa) (r, sl) = true) by (apply Rel_known; eauto). rewrite Hk. cbn. intros _. repeat split; auto; apply HR. }
  assert (Hk : known (abs pa) (r, sl) = false) by (apply Rel_known_false; auto). rewrite Hk.
  rewrite (r_bs pa HR r). destruct (low (abs pa) r) as [lr|] eqn:Elr; [cbn; intros _; repeat split; auto; apply HR|].
  rewrite (r_bs pa HR parent). destruct (low (abs pa) parent) as [lo|] eqn:Elo; [|cbn; intros _; repeat split; auto; apply HR].
  destruct (sl <=? lo) eqn:Ele; [cbn; intros _; repeat split; auto; apply HR|]. apply N.leb_gt in Ele.
  assert (Hdom : known (abs pa) (parent, sl) = true \/
                 exists lo0, low (abs pa) parent = Some lo0 /\ lo0 < sl /\ sl - lo0 <= slot_fuel_limit).
  { right. exists lo. auto. }
  pose proof (ProcessSlot_sim parent sl je fe pa HR Hsl Hdom) as Hps.
  destruct (ProcessSlot parent sl je fe pa) as [pa1 o1] eqn:Eps. cbn [fst snd] in Hps.
  assert (Hstep : created pa1 < two64 ->
                  o1 = Ok tt /\ Rel pa1 /\ abs pa1 = spec_process_slot (abs pa) parent sl je fe /\ pa_bs pa1 = pa_bs pa /\ pa_off pa1 = pa_off pa)
    by exact Hps.
  clear Hps.
  destruct o1 as [u| | | |]; cbn [fst snd].
  2-5: intros Hc; destruct (Hstep Hc) as [Ho _]; discriminate.
  assert (Hfinal : forall (Hc1 : created pa1 < two64),
            exists fcp tp, idx_get (pa_idx pa1) (parent, lo) = Some fcp /\ idx_get (pa_idx pa1) (parent, sl) = Some tp).
  { intros Hc1. destruct (Hstep Hc1) as [_ [HR1 [Habs [Hbs _]]]].
    assert (Hlo1 : low (abs pa1) parent = Some lo).
    { pose proof (r_bs pa1 HR1 parent) as E1. pose proof (r_bs pa HR parent) as E2. rewrite Hbs in E1. congruence. }
    destruct (Rel_low_known pa1 parent lo HR1 Hlo1) as [fcp Hf]. exists fcp.
    assert (Hks : known (abs pa1) (parent, sl) = true).
    { rewrite Habs. unfold spec_process_slot. destruct (known (abs pa) (parent, sl)) eqn:E; [exact E|]. rewrite Elo.
      rewrite (add_slots_last parent je fe (N.to_nat (sl - lo)) (abs pa) (lo + 1) sl) by lia.
      rewrite known_add_node. cbn [s_ref]. rewrite ref_eqb_refl. apply orb_true_r. }
    apply Rel_known in Hks; auto. destruct Hks as [tp Ht]. exists tp. auto. }
  destruct (idx_get (pa_idx pa1) (parent, lo)) as [fcp|] eqn:Efc.
  2: { cbn. intros Hc. exfalso. destruct (Hfinal Hc) as [? [? [? _]]]. discriminate. }
  destruct (idx_get (pa_idx pa1) (parent, sl)) as [tp|] eqn:Etp.
  2: { cbn. intros Hc. exfalso. destruct (Hfinal Hc) as [? [? [_ ?]]]. discriminate. }
  cbn [fst snd]. unfold block_final.
  set (blk := mkNode (r, sl) tp fcp parent je fe 0%Z NONE NONE).
  intros Hc.
  assert (Hc' : created (push_node pa1 blk) < two64) by exact Hc. rewrite created_push in Hc'.
  destruct (Hstep ltac:(lia)) as [_ [HR1 [Habs [Hbs Hoff]]]].
  assert (Hnp : r <> parent) by (intros ->; congruence).
  assert (Hfresh : idx_get (pa_idx pa1) (r, sl) = None).
  { apply Rel_known_false; auto. rewrite Habs.
    destruct (known (spec_process_slot (abs pa) parent sl je fe) (r, sl)) eqn:E; [|reflexivity].
    apply known_spec_process_slot in E. destruct E as [E|E]; [congruence|cbn in E; congruence]. }
  assert (Hlr1 : low (abs pa1) r = None).
  { pose proof (r_bs pa1 HR1 r) as E1. pose proof (r_bs pa HR r) as E2. rewrite Hbs in E1. congruence. }
  destruct (push_idx pa1 blk HR1 Hfresh ltac:(lia)) as [P1 P2].
  split; [reflexivity|]. split; [|split].
  - constructor; cbn [pa_nodes pa_idx pa_off pa_bs]; [exact P1 | exact P2 |].
    intros r'. match goal with |- _ = low (abs ?X) _ => change (abs X) with (abs (push_node pa1 blk)) end.
    rewrite abs_push, low_app_single, bs_get_set. cbn [abs_node blk n_ref s_ref fst snd push_node pa_bs].
    rewrite (N.eqb_sym r' r). destruct (r =? r') eqn:E.
    + apply N.eqb_eq in E. subst r'. rewrite Hlr1. reflexivity.
    + apply (r_bs pa1 HR1).
  - match goal with |- abs ?X = _ => change (abs X) with (abs (push_node pa1 blk)) end.
    rewrite abs_push, Habs. cbn [fst]. unfold add_node. cbn [s_ref abs_node blk n_ref].
    replace (known (spec_process_slot (abs pa) parent sl je fe) (r, sl)) with false; [reflexivity|].
    symmetry. rewrite <- Habs. apply Rel_known_false; auto.
  - cbn. exact Hoff.
Qed.

(* ---------- histories of insertions ---------- *)
Inductive iop := ISlot (p : N) (s : N) (je fe : N) | IBlock (p r : N) (s : N) (je fe : N).

Definition impl_iop (o : iop) : M parray (option bool) :=
  match o with
  | ISlot p s je fe => mbind (ProcessSlot p s je fe) (fun _ => ret None)
  | IBlock p r s je fe => mbind (ProcessBlock p r s je fe) (fun b => ret (Some b))
  end.
Definition spec_iop (o : iop) (t : tree) : tree * option bool :=
  match o with
  | ISlot p s je fe => (spec_process_slot t p s je fe, None)
  | IBlock p r s je fe => let '(t', b) := spec_process_block t p r s je fe in (t', Some b)
  end.

(* the documented domain of an insertion, relative to the tree so far *)
Definition iop_dom (t : tree) (o : iop) : Prop :=
  match o with
  | ISlot p s _ _ =>
      s < two64 /\ (known t (p, s) = true \/ exists lo, low t p = Some lo /\ lo < s /\ s - lo <= slot_fuel_limit)
  | IBlock p _ s _ _ => s < two64 /\ forall lo, low t p = Some lo -> s - lo <= slot_fuel_limit
  end.

Fixpoint impl_iops (ops : list iop) (pa : parray) : parray * list (outcome (option bool)) :=
  match ops with
  | [] => (pa, [])
  | o :: ops' => let '(pa1, r) := impl_iop o pa in let '(pa2, rs) := impl_iops ops' pa1 in (pa2, r :: rs)
  end.
Fixpoint spec_iops (ops : list iop) (t : tree) : tree * list (option bool) :=
  match ops with
  | [] => (t, [])
  | o :: ops' => let '(t1, r) := spec_iop o t in let '(t2, rs) := spec_iops ops' t1 in (t2, r :: rs)
  end.
Fixpoint iops_dom (ops : list iop) (t : tree) : Prop :=
  match ops with
  | [] => True
  | o :: ops' => iop_dom t o /\ iops_dom ops' (fst (spec_iop o t))
  end.

Lemma ProcessSlot_created p s je fe pa : created pa <= created (fst (ProcessSlot p s je fe pa)).
Proof.
  unfold ProcessSlot, mbind, get.
  destruct (idx_get (pa_idx pa) (p, s)); [cbn; lia|].
  destruct (bs_get (pa_bs pa) p) as [ps|].
  - destruct (slot_fuel_limit <? s - ps); [cbn; lia|].
    pose proof (gap_created p s je fe (N.to_nat (s - ps)) (add64 ps 1) (idx_get0 (pa_idx pa) (p, ps)) pa) as H.
    destruct (gap_loop _ p (add64 ps 1) s je fe _ pa) as [pa1 pidx]. cbn [fst] in H. cbn [put fst].
    change (created (with_upd (push_node pa1 (fresh_node (p, s) pidx p je fe)) false))
      with (created (push_node pa1 (fresh_node (p, s) pidx p je fe))).
    rewrite created_push. lia.
  - cbn [put fst].
    change (created (with_upd (push_node pa (fresh_node (p, s) NONE p je fe)) false))
      with (created (push_node pa (fresh_node (p, s) NONE p je fe))).
    rewrite created_push. lia.
Qed.
Lemma ProcessBlock_created p r s je fe pa : created pa <= created (fst (ProcessBlock p r s je fe pa)).
Proof.
  rewrite ProcessBlock_unfold.
  destruct (idx_get (pa_idx pa) (r, s)); [cbn; lia|].
  destruct (bs_get (pa_bs pa) r); [cbn; lia|].
  destruct (bs_get (pa_bs pa) p) as [ps|]; [|cbn; lia].
  destruct (s <=? ps); [cbn; lia|].
  pose proof (ProcessSlot_created p s je fe pa) as H.
  destruct (ProcessSlot p s je fe pa) as [pa1 o1]. cbn [fst] in H.
  destruct o1; cbn [fst]; try lia.
  destruct (idx_get (pa_idx pa1) (p, ps)); [|cbn; lia].
  destruct (idx_get (pa_idx pa1) (p, s)); [|cbn; lia].
  cbn [fst]. unfold block_final.
  match goal with |- _ <= created ?X => change (created X) with (created (push_node pa1 (mkNode (r, s) n0 n p je fe 0%Z NONE NONE))) end.
  rewrite created_push. lia.
Qed.
Lemma impl_iop_created o pa : created pa <= created (fst (impl_iop o pa)).
Proof.
  destruct o; cbn [impl_iop]; unfold mbind.
  - pose proof (ProcessSlot_created p s je fe pa). destruct (ProcessSlot p s je fe pa) as [pa1 o1]. destruct o1; exact H.
  - pose proof (ProcessBlock_created p r s je fe pa). destruct (ProcessBlock p r s je fe pa) as [pa1 o1]. destruct o1; exact H.
Qed.
Lemma impl_iops_created ops : forall pa, created pa <= created (fst (impl_iops ops pa)).
Proof.
  induction ops as [|o ops IH]; intros pa; cbn [impl_iops]; [cbn; lia|].
  pose proof (impl_iop_created o pa) as H1. destruct (impl_iop o pa) as [pa1 r]. cbn [fst] in H1.
  pose proof (IH pa1) as H2. destruct (impl_iops ops pa1) as [pa2 rs]. cbn [fst] in *. lia.
Qed.

Lemma impl_iop_sim o pa :
  Rel pa -> iop_dom (abs pa) o -> created (fst (impl_iop o pa)) < two64 ->
  snd (impl_iop o pa) = Ok (snd (spec_iop o (abs pa))) /\ Rel (fst (impl_iop o pa)) /\
  abs (fst (impl_iop o pa)) = fst (spec_iop o (abs pa)) /\ pa_off (fst (impl_iop o pa)) = pa_off pa.
Proof.
  intros HR Hdom. destruct o; cbn [impl_iop spec_iop iop_dom] in *; unfold mbind.
  - destruct Hdom as [Hs Hd]. pose proof (ProcessSlot_sim p s je fe pa HR Hs Hd) as H.
    destruct (ProcessSlot p s je fe pa) as [pa1 o1]. cbn [fst snd] in H.
    destruct o1; cbn; intros Hc; destruct (H Hc) as [Ho [HR1 [Habs [_ Hoff]]]]; try discriminate.
    split; [reflexivity|]. split; [exact HR1|]. split; assumption.
  - destruct Hdom as [Hs Hd]. pose proof (ProcessBlock_sim p r s je fe pa HR Hs Hd) as H.
    destruct (ProcessBlock p r s je fe pa) as [pa1 o1]. cbn [fst snd] in H.
    destruct (spec_process_block (abs pa) p r s je fe) as [t' b] eqn:Es. cbn [fst snd] in *.
    destruct o1; cbn; intros Hc; destruct (H Hc) as [Ho [HR1 [Habs Hoff]]]; try discriminate.
    inversion Ho. subst. split; [reflexivity|]. split; [exact HR1|]. split; [reflexivity|assumption].
Qed.

(* C11, insertions: for every history of ProcessSlot/ProcessBlock calls in the domain the array denotes exactly the tree of
   accepted insertions, every ProcessBlock answers what the tree rule says, nothing panics *)
Theorem insert_refines : forall ops pa,
  Rel pa -> iops_dom ops (abs pa) -> created (fst (impl_iops ops pa)) < two64 ->
  snd (impl_iops ops pa) = map Ok (snd (spec_iops ops (abs pa))) /\
  Rel (fst (impl_iops ops pa)) /\ abs (fst (impl_iops ops pa)) = fst (spec_iops ops (abs pa)) /\
  pa_off (fst (impl_iops ops pa)) = pa_off pa.
Proof.
  induction ops as [|o ops IH]; intros pa HR Hdom Hc; cbn [impl_iops spec_iops iops_dom] in *.
  - cbn. split; [reflexivity|]. split; [exact HR|]. split; reflexivity.
  - destruct Hdom as [Hd1 Hd2].
    pose proof (impl_iop_sim o pa HR Hd1) as Hs.
    pose proof (impl_iops_created ops (fst (impl_iop o pa))) as Hm.
    destruct (impl_iop o pa) as [pa1 r1]. cbn [fst snd] in *.
    destruct (spec_iop o (abs pa)) as [t1 s1] eqn:Es. cbn [fst snd] in *.
    destruct (impl_iops ops pa1) as [pa2 rs] eqn:Ei. cbn [fst snd] in *.
    destruct (Hs ltac:(lia)) as [Ho [HR1 [Habs Hoff]]].
    rewrite <- Habs in Hd2. specialize (IH pa1 HR1 Hd2). rewrite Ei in IH. cbn [fst snd] in IH.
    destruct (IH Hc) as [A [B [C D]]]. rewrite Habs in *.
    destruct (spec_iops ops t1) as [t2 ss]. cbn [fst snd] in *.
    subst. split; [reflexivity|]. split; [exact B|]. split; [reflexivity|congruence].
Qed.

Lemma Rel_new_array parent r s je fe sn : Rel (new_array parent r s je fe sn).
Proof.
  constructor; cbn.
  - intros i n H. destruct i; cbn in H; [|destruct i; discriminate]. inversion H. subst. cbn. rewrite ref_eqb_refl. reflexivity.
  - intros r0 k H. destruct (ref_eqb r0 (r, s)) eqn:E; [|discriminate]. inversion H. apply ref_eqb_eq in E. subst.
    exists 0%nat. eexists. split; [reflexivity|]. split; reflexivity.
  - intros r0. unfold low, nodes_of_root. cbn. rewrite (N.eqb_sym r r0). destruct (r0 =? r); reflexivity.
Qed.

(* queries that only look at the tables: GetSlot is the lowest known slot, node membership is `indices` *)
Lemma GetSlot_refines pa r : Rel pa -> GetSlot pa r = spec_get_slot (abs pa) r.
Proof. intros HR. apply (r_bs pa HR). Qed.
