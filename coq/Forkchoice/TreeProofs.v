(* Proofs, part 3 (C11): the array built by ProcessSlot/ProcessBlock denotes exactly the tree of accepted insertions.
   Simulation relation [Rel]: the node slice, read as a list of (ref, parent root, epochs), IS the Spec's tree (same order),
   `indices` is its position table, `blockSlots` its lowest-slot table. For ALL insertion histories. *)
From Coq Require Import NArith ZArith List Bool Lia.
From Coq Require Import ZifyN ZifyNat ZifyBool.
From V Require Import Base.U64 Base.Outcome Forkchoice.ProtoArray Forkchoice.TreeSpec.
Import ListNotations.
Local Open Scope N_scope.

(* ---------- keys and maps ---------- *)
Lemma ref_eqb_eq a b : ref_eqb a b = true <-> a = b.
Proof.
  destruct a as [a1 a2], b as [b1 b2]. unfold ref_eqb. cbn. rewrite andb_true_iff, !N.eqb_eq.
  split; [intros [-> ->]; reflexivity | intros H; inversion H; auto].
Qed.
Lemma ref_eqb_refl a : ref_eqb a a = true. Proof. apply ref_eqb_eq. reflexivity. Qed.
Lemma ref_eqb_neq a b : ref_eqb a b = false <-> a <> b.
Proof. rewrite <- ref_eqb_eq. destruct (ref_eqb a b); split; congruence. Qed.
Lemma ref_eqb_sym a b : ref_eqb a b = ref_eqb b a.
Proof. destruct (ref_eqb a b) eqn:E; symmetry; [apply ref_eqb_eq; apply ref_eqb_eq in E; auto | apply ref_eqb_neq; apply ref_eqb_neq in E; auto]. Qed.

Lemma idx_get_del m k k' : idx_get (idx_del m k) k' = if ref_eqb k' k then None else idx_get m k'.
Proof.
  induction m as [|[k0 v] m IH]; cbn; [destruct (ref_eqb k' k); reflexivity|].
  destruct (ref_eqb k k0) eqn:E.
  - rewrite IH. apply ref_eqb_eq in E. subst k0. destruct (ref_eqb k' k); reflexivity.
  - cbn. destruct (ref_eqb k' k0) eqn:E2.
    + apply ref_eqb_eq in E2. subst k0. rewrite ref_eqb_sym, E. reflexivity.
    + exact IH.
Qed.
Lemma idx_get_set m k v k' : idx_get (idx_set m k v) k' = if ref_eqb k' k then Some v else idx_get m k'.
Proof. unfold idx_set. cbn. destruct (ref_eqb k' k) eqn:E; [reflexivity|]. rewrite idx_get_del, E. reflexivity. Qed.
Lemma idx_del_absent m k : idx_get m k = None -> idx_del m k = m.
Proof.
  induction m as [|[k0 v] m IH]; cbn; [reflexivity|]. destruct (ref_eqb k k0); [discriminate|].
  intros H. rewrite IH; auto.
Qed.

Lemma bs_get_del m k k' : bs_get (bs_del m k) k' = if k' =? k then None else bs_get m k'.
Proof.
  induction m as [|[k0 v] m IH]; cbn; [destruct (k' =? k); reflexivity|].
  destruct (k =? k0) eqn:E.
  - rewrite IH. apply N.eqb_eq in E. subst k0. destruct (k' =? k); reflexivity.
  - cbn. destruct (k' =? k0) eqn:E2.
    + apply N.eqb_eq in E2. subst k0. rewrite N.eqb_sym, E. reflexivity.
    + exact IH.
Qed.
Lemma bs_get_set m k v k' : bs_get (bs_set m k v) k' = if k' =? k then Some v else bs_get m k'.
Proof. unfold bs_set. cbn. destruct (k' =? k) eqn:E; [reflexivity|]. rewrite bs_get_del, E. reflexivity. Qed.

(* ---------- abstraction ---------- *)
Definition abs_node (n : node) : snode := mkSN (n_ref n) (n_parent n) (n_je n) (n_fe n).
Definition abs (pa : parray) : tree := map abs_node (pa_nodes pa).
Definition created (pa : parray) : N := pa_off pa + lenN (pa_nodes pa).   (* nodes ever created *)

Lemma find_node_app t1 t2 r : find_node (t1 ++ t2) r = match find_node t1 r with Some n => Some n | None => find_node t2 r end.
Proof. unfold find_node. induction t1; cbn; [reflexivity|]. destruct (ref_eqb (s_ref a) r); auto. Qed.
Lemma known_app t1 t2 r : known (t1 ++ t2) r = known t1 r || known t2 r.
Proof. unfold known. rewrite find_node_app. destruct (find_node t1 r); cbn; reflexivity. Qed.
Lemma known_single n r : known [n] r = ref_eqb (s_ref n) r.
Proof. unfold known, find_node. cbn. destruct (ref_eqb (s_ref n) r); reflexivity. Qed.

Lemma find_node_some t r n : find_node t r = Some n -> In n t /\ s_ref n = r.
Proof.
  unfold find_node. intros H. apply find_some in H. destruct H as [H1 H2]. apply ref_eqb_eq in H2. auto.
Qed.
Lemma known_in t r : known t r = true <-> exists n, In n t /\ s_ref n = r.
Proof.
  unfold known. split.
  - destruct (find_node t r) eqn:E; [|discriminate]. intros _. exists s. apply find_node_some. exact E.
  - intros [n [Hin Hr]]. destruct (find_node t r) eqn:E; [reflexivity|]. unfold find_node in E.
    pose proof (find_none _ _ E n Hin) as H. cbn in H. rewrite Hr, ref_eqb_refl in H. discriminate.
Qed.

(* ---------- lowest slot of a root ---------- *)
Fixpoint min_slot_from (ns : list snode) (acc : slot) : slot :=
  match ns with [] => acc | m :: ns' => min_slot_from ns' (N.min acc (snd (s_ref m))) end.
Lemma min_slot_from_fold ns : forall acc, fold_left (fun acc m => N.min acc (snd (s_ref m))) ns acc = min_slot_from ns acc.
Proof. induction ns; intros acc; cbn; [reflexivity|apply IHns]. Qed.
Lemma min_slot_from_le ns : forall acc, min_slot_from ns acc <= acc.
Proof. induction ns; intros acc; cbn; [lia|]. etransitivity; [apply IHns|]. lia. Qed.
Lemma min_slot_from_lb ns : forall acc n, In n ns -> min_slot_from ns acc <= snd (s_ref n).
Proof.
  induction ns; intros acc n Hin; [destruct Hin|]. cbn. destruct Hin as [->|Hin].
  - etransitivity; [apply min_slot_from_le|]. lia.
  - apply IHns. exact Hin.
Qed.
Lemma min_slot_from_mono ns : forall a b, a <= b -> min_slot_from ns a <= min_slot_from ns b.
Proof. induction ns; intros a0 b Hab; cbn; [exact Hab|]. apply IHns. lia. Qed.
Lemma min_slot_from_attained ns : forall acc, min_slot_from ns acc = acc \/ exists n, In n ns /\ min_slot_from ns acc = snd (s_ref n).
Proof.
  induction ns; intros acc; cbn; [left; reflexivity|].
  destruct (IHns (N.min acc (snd (s_ref a)))) as [H|[n [Hin H]]].
  - rewrite H. destruct (N.min_spec acc (snd (s_ref a))) as [[_ E]|[_ E]]; rewrite E; [left; reflexivity|right; exists a; auto].
  - right. exists n. auto.
Qed.

(* characterisation of [low]: the least slot among the nodes of the root *)
Lemma low_none t r : low t r = None <-> forall n, In n t -> fst (s_ref n) <> r.
Proof.
  unfold low, nodes_of_root. split.
  - destruct (filter _ t) eqn:E; [|discriminate]. intros _ n Hin Hr.
    assert (In n (filter (fun n => fst (s_ref n) =? r) t)) by (apply filter_In; split; auto; apply N.eqb_eq; auto).
    rewrite E in H. destruct H.
  - intros H. destruct (filter _ t) eqn:E; [reflexivity|].
    assert (In s (filter (fun n => fst (s_ref n) =? r) t)) by (rewrite E; left; reflexivity).
    apply filter_In in H0. destruct H0 as [H0 H1]. apply N.eqb_eq in H1. exfalso. eapply H; eauto.
Qed.
Lemma low_some t r lo : low t r = Some lo <->
  (exists n, In n t /\ fst (s_ref n) = r /\ snd (s_ref n) = lo) /\ (forall n, In n t -> fst (s_ref n) = r -> lo <= snd (s_ref n)).
Proof.
  unfold low, nodes_of_root. set (f := fun n => fst (s_ref n) =? r).
  assert (Hf : forall n, In n (filter f t) <-> In n t /\ fst (s_ref n) = r).
  { intros n. rewrite filter_In. unfold f. rewrite N.eqb_eq. tauto. }
  destruct (filter f t) as [|n0 ns] eqn:E.
  - split; [discriminate|]. intros [[n [Hin [Hr _]]] _]. assert (In n []) by (apply Hf; auto). destruct H.
  - rewrite min_slot_from_fold. split.
    + intros H. inversion H. subst lo. clear H. split.
      * destruct (min_slot_from_attained ns (snd (s_ref n0))) as [H|[n [Hin H]]].
        -- exists n0. rewrite H. assert (In n0 (n0 :: ns)) by (left; reflexivity). apply Hf in H0. tauto.
        -- exists n. rewrite H. assert (In n (n0 :: ns)) by (right; exact Hin). apply Hf in H0. tauto.
      * intros n Hin Hr. assert (Hn : In n (n0 :: ns)) by (apply Hf; auto). destruct Hn as [->|Hn].
        -- apply min_slot_from_le.
        -- apply min_slot_from_lb. exact Hn.
    + intros [[n [Hin [Hr Hlo]]] Hmin]. f_equal. apply N.le_antisymm.
      * assert (Hn : In n (n0 :: ns)) by (apply Hf; auto). subst lo. destruct Hn as [->|Hn]; [apply min_slot_from_le|apply min_slot_from_lb; auto].
      * destruct (min_slot_from_attained ns (snd (s_ref n0))) as [H|[m [Hm H]]]; rewrite H.
        -- apply Hmin; apply (Hf n0); left; reflexivity.
        -- apply Hmin; apply (Hf m); right; exact Hm.
Qed.

Lemma low_app_single t n r :
  low (t ++ [n]) r =
  if fst (s_ref n) =? r
  then Some (match low t r with Some lo => N.min lo (snd (s_ref n)) | None => snd (s_ref n) end)
  else low t r.
Proof.
  unfold low, nodes_of_root. rewrite filter_app. cbn [filter].
  destruct (fst (s_ref n) =? r); [|rewrite app_nil_r; reflexivity].
  destruct (filter _ t) as [|n0 ns]; cbn [app]; [reflexivity|].
  rewrite fold_left_app. reflexivity.
Qed.

Lemma low_known t r lo : low t r = Some lo -> known t (r, lo) = true.
Proof.
  intros H. apply low_some in H. destruct H as [[n [Hin [Hr Hs]]] _]. apply known_in. exists n. split; auto.
  destruct (s_ref n). cbn in *. subst. reflexivity.
Qed.
Lemma known_low t r s : known t (r, s) = true -> exists lo, low t r = Some lo /\ lo <= s.
Proof.
  intros H. apply known_in in H. destruct H as [n [Hin Hr]].
  destruct (low t r) as [lo|] eqn:E.
  - exists lo. split; auto. apply low_some in E. destruct E as [_ Hmin]. specialize (Hmin n Hin). rewrite Hr in Hmin. apply Hmin. reflexivity.
  - exfalso. rewrite low_none in E. apply (E n Hin). rewrite Hr. reflexivity.
Qed.

(* ---------- the simulation relation ---------- *)
Record Rel (pa : parray) : Prop := mkRel {
  r_idx1 : forall i n, nth_error (pa_nodes pa) i = Some n -> idx_get (pa_idx pa) (n_ref n) = Some (pa_off pa + N.of_nat i);
  r_idx2 : forall r k, idx_get (pa_idx pa) r = Some k ->
           exists i n, nth_error (pa_nodes pa) i = Some n /\ n_ref n = r /\ k = pa_off pa + N.of_nat i;
  r_bs : forall r, bs_get (pa_bs pa) r = low (abs pa) r
}.

Lemma abs_in pa m : In m (abs pa) <-> exists i n, nth_error (pa_nodes pa) i = Some n /\ abs_node n = m.
Proof.
  unfold abs. rewrite in_map_iff. split.
  - intros [n [Hm Hin]]. apply In_nth_error in Hin. destruct Hin as [i Hi]. exists i, n. auto.
  - intros [i [n [Hi Hm]]]. exists n. split; auto. eapply nth_error_In; eauto.
Qed.

Lemma Rel_known pa r : Rel pa -> known (abs pa) r = true <-> exists k, idx_get (pa_idx pa) r = Some k.
Proof.
  intros HR. rewrite known_in. split.
  - intros [m [Hin Hr]]. apply abs_in in Hin. destruct Hin as [i [n [Hi Hm]]]. subst m. cbn in Hr. subst r.
    eexists. eapply r_idx1; eauto.
  - intros [k Hk]. destruct (r_idx2 pa HR r k Hk) as [i [n [Hi [Hr _]]]]. exists (abs_node n). split; [|exact Hr].
    apply abs_in. exists i, n. auto.
Qed.
Lemma Rel_known_false pa r : Rel pa -> known (abs pa) r = false <-> idx_get (pa_idx pa) r = None.
Proof.
  intros HR. pose proof (Rel_known pa r HR) as [H1 H2]. split.
  - intros Hk. destruct (idx_get (pa_idx pa) r) eqn:E; [|reflexivity].
    rewrite H2 in Hk by eauto. discriminate.
  - intros Hn. destruct (known (abs pa) r) eqn:E; [|reflexivity].
    destruct (H1 eq_refl) as [k Hk]. congruence.
Qed.

Lemma abs_push pa n : abs (push_node pa n) = abs pa ++ [abs_node n].
Proof. unfold abs, push_node. cbn. rewrite map_app. reflexivity. Qed.
Lemma created_push pa n : created (push_node pa n) = created pa + 1.
Proof. unfold created, push_node, lenN. cbn. rewrite app_length. cbn. lia. Qed.

Lemma lenN_lt_nth {A} (l : list A) i x : nth_error l i = Some x -> N.of_nat i < lenN l.
Proof. intros H. unfold lenN. assert (i < length l)%nat by (apply nth_error_Some; congruence). lia. Qed.

(* pushing a node with a fresh ref keeps the position table exact *)
Lemma push_idx pa n :
  Rel pa -> idx_get (pa_idx pa) (n_ref n) = None -> created pa < two64 ->
  (forall i m, nth_error (pa_nodes (push_node pa n)) i = Some m ->
     idx_get (pa_idx (push_node pa n)) (n_ref m) = Some (pa_off pa + N.of_nat i)) /\
  (forall r k, idx_get (pa_idx (push_node pa n)) r = Some k ->
     exists i m, nth_error (pa_nodes (push_node pa n)) i = Some m /\ n_ref m = r /\ k = pa_off pa + N.of_nat i).
Proof.
  intros HR Hfresh Hc. unfold push_node. cbn [pa_nodes pa_idx pa_off].
  assert (Hadd : add64 (pa_off pa) (lenN (pa_nodes pa)) = pa_off pa + lenN (pa_nodes pa)).
  { unfold add64. apply wrap64_small. exact Hc. }
  rewrite Hadd. split.
  - intros i m Hi. rewrite idx_get_set.
    destruct (Nat.lt_ge_cases i (length (pa_nodes pa))) as [Hlt|Hge].
    + rewrite nth_error_app1 in Hi by exact Hlt.
      destruct (ref_eqb (n_ref m) (n_ref n)) eqn:E.
      * apply ref_eqb_eq in E. rewrite <- E in Hfresh. rewrite (r_idx1 pa HR i m Hi) in Hfresh. discriminate.
      * eapply r_idx1; eauto.
    + rewrite nth_error_app2 in Hi by exact Hge.
      destruct (i - length (pa_nodes pa))%nat eqn:E; cbn in Hi; [|destruct n0; discriminate].
      inversion Hi. subst m. rewrite ref_eqb_refl. f_equal. unfold lenN. lia.
  - intros r k Hk. rewrite idx_get_set in Hk. destruct (ref_eqb r (n_ref n)) eqn:E.
    + apply ref_eqb_eq in E. inversion Hk. subst. exists (length (pa_nodes pa)), n. split; [|split; [reflexivity|unfold lenN; lia]].
      rewrite nth_error_app2 by lia. rewrite Nat.sub_diag. reflexivity.
    + destruct (r_idx2 pa HR r k Hk) as [i [m [Hi [Hr Hkk]]]]. exists i, m. split; [|auto].
      rewrite nth_error_app1; [exact Hi|]. apply nth_error_Some. congruence.
Qed.

(* ---------- ProcessSlot: the gap-filling loop is add_slots ---------- *)
Lemma gap_created parent sl je fe : forall fuel i pidx pa,
  created pa <= created (fst (gap_loop fuel parent i sl je fe pidx pa)).
Proof.
  induction fuel; intros i pidx pa; cbn [gap_loop]; [cbn; lia|].
  destruct (i <? sl); [|cbn; lia].
  destruct (idx_get (pa_idx pa) (parent, i)).
  - apply IHfuel.
  - etransitivity; [|apply IHfuel]. rewrite created_push. lia.
Qed.

Definition same_frame (pa pa' : parray) : Prop :=
  pa_bs pa' = pa_bs pa /\ pa_off pa' = pa_off pa /\ pa_sink_nil pa' = pa_sink_nil pa /\
  pa_je pa' = pa_je pa /\ pa_fe pa' = pa_fe pa /\ pa_upd pa' = pa_upd pa.
Lemma same_frame_refl pa : same_frame pa pa. Proof. repeat split. Qed.
Lemma same_frame_push pa n : same_frame pa (push_node pa n). Proof. repeat split. Qed.
Lemma same_frame_trans a b c : same_frame a b -> same_frame b c -> same_frame a c.
Proof. unfold same_frame. intuition congruence. Qed.

Lemma Rel_push_slot pa parent lo i pidx je fe :
  Rel pa -> low (abs pa) parent = Some lo -> lo < i -> idx_get (pa_idx pa) (parent, i) = None -> created pa < two64 ->
  Rel (push_node pa (fresh_node (parent, i) pidx parent je fe)).
Proof.
  intros HR Hlo Hi Hfresh Hc.
  destruct (push_idx pa (fresh_node (parent, i) pidx parent je fe) HR Hfresh Hc) as [H1 H2].
  constructor; [exact H1 | exact H2 |].
  intros r. rewrite abs_push, low_app_single. cbn [abs_node fresh_node n_ref s_ref fst snd push_node pa_bs].
  rewrite (r_bs pa HR r). destruct (parent =? r) eqn:E; [|reflexivity].
  apply N.eqb_eq in E. subst r. rewrite Hlo. f_equal. lia.
Qed.

Lemma gap_sim parent sl je fe lo : forall fuel i pidx pa,
  Rel pa -> low (abs pa) parent = Some lo -> lo < i ->
  created (fst (gap_loop fuel parent i sl je fe pidx pa)) < two64 ->
  let pa' := fst (gap_loop fuel parent i sl je fe pidx pa) in
  Rel pa' /\ abs pa' = add_slots fuel (abs pa) parent i (sl - 1) je fe /\ same_frame pa pa'.
Proof.
  induction fuel; intros i pidx pa HR Hlo Hi Hc; cbn [gap_loop add_slots] in *.
  - cbn. split; [exact HR|]. split; [reflexivity|apply same_frame_refl].
  - assert (Hcond : (sl - 1 <? i) = negb (i <? sl)).
    { destruct (N.ltb_spec i sl); destruct (N.ltb_spec (sl - 1) i); cbn; try reflexivity; lia. }
    rewrite Hcond. destruct (i <? sl) eqn:Ei; cbn [negb].
    2: { cbn. split; [exact HR|]. split; [reflexivity|apply same_frame_refl]. }
    match goal with |- context [idx_get (pa_idx pa) ?key] => destruct (idx_get (pa_idx pa) key) as [k|] eqn:Ek end.
    + assert (Hk : known (abs pa) (parent, i) = true) by (apply Rel_known; eauto).
      unfold add_node. cbn [s_ref]. rewrite Hk.
      apply IHfuel; auto. lia.
    + assert (Hk : known (abs pa) (parent, i) = false) by (apply Rel_known_false; auto).
      unfold add_node at 1. cbn [s_ref]. rewrite Hk.
      set (pa1 := push_node pa (fresh_node (parent, i) pidx parent je fe)) in *.
      assert (Hc1 : created pa < two64).
      { pose proof (gap_created parent sl je fe fuel (i + 1) (add64 (pa_off pa) (lenN (pa_nodes pa))) pa1) as Hm.
        unfold pa1 in Hm at 1. rewrite created_push in Hm. lia. }
      assert (HR1 : Rel pa1) by (eapply Rel_push_slot; eauto).
      assert (Hlo1 : low (abs pa1) parent = Some lo).
      { unfold pa1. rewrite abs_push, low_app_single. cbn. rewrite N.eqb_refl, Hlo. f_equal. lia. }
      destruct (IHfuel (i + 1) (add64 (pa_off pa) (lenN (pa_nodes pa))) pa1 HR1 Hlo1 ltac:(lia) Hc) as [A [B C]].
      split; [exact A|]. split.
      * rewrite B. unfold pa1. rewrite abs_push. reflexivity.
      * eapply same_frame_trans; [apply same_frame_push|exact C].
Qed.
