(* Witnesses, by evaluation, of what the pinned snapshot does (model instance [pinned]) against what the Spec demands
   and what the repaired code (model instance [fixed]) does. Each history was replayed on the real Go code by the
   harness (directed histories of harness/fc/run.go). *)
From Coq Require Import NArith ZArith List Bool.
From V Require Import Base.U64 Base.Outcome Forkchoice.ProtoArray Forkchoice.VoteStore Forkchoice.Wrapper
     Forkchoice.TreeSpec Forkchoice.GhostSpec Forkchoice.Step.
Import ListNotations.
Local Open Scope N_scope.

Definition init0 (sink_nil : bool) : init_args := mkInit 4 0 1 0 (0, 1) (0, 1) [10; 10; 10] sink_nil.
Definition run_from (fx : fixes) (i : init_args) (ops : list op) : list (outcome rv * list (ref * bool)) :=
  let '(w, r) := impl_init fx i in match r with Ok _ => impl_run fx w ops | _ => [] end.
Definition last_out (l : list (outcome rv * list (ref * bool))) : outcome rv := fst (last l (Err, [])).

(* the Spec's expectations along a history (sink calls taken from the repaired model's run) *)
Fixpoint spec_run (sink_nil : bool) (s : sstate) (ops : list op) (logs : list (list (ref * bool))) : list expect :=
  match ops with
  | [] => []
  | o :: ops' =>
      let lg := match logs with l :: _ => l | [] => [] end in
      let '(s', e, _) := spec_step sink_nil o lg s in
      e :: spec_run sink_nil s' ops' (tl logs)
  end.
Definition spec_from (i : init_args) (ops : list op) : list expect :=
  spec_run (i_sink_nil i) (fst (spec_init i)) ops (map snd (run_from fixed i ops)).
Definition last_exp (l : list expect) : expect := last l EAny.

(* C11: two sibling leaf blocks are reported in each other's subtree (NONE == NONE best-descendant shortcut) *)
Definition h_siblings : list op := [OBlock 1 2 1 0 0; OBlock 1 3 2 0 0; OHead; OInSub 2 3].
Lemma insubtree_sibling_leaves_refuted :
  last_out (run_from pinned (init0 false) h_siblings) = Ok (RPair false true) /\
  last_exp (spec_from (init0 false) h_siblings) = EVal (RPair false false) /\
  last_out (run_from fixed (init0 false) h_siblings) = Ok (RPair false false).
Proof. vm_compute. repeat split; reflexivity. Qed.

(* C11: an empty-slot anchor does not see the block built on it at the same slot *)
Definition h_same_slot : list op := [OBlock 1 2 1 0 0; OHead; OSearch 1 1 (Some 1) (Some 1)].
Lemma search_same_slot_refuted :
  last_out (run_from pinned (init0 false) h_same_slot) = Ok (RSearch [] []) /\
  last_exp (spec_from (init0 false) h_same_slot) = ESearch [(2, 1)] [] /\
  last_out (run_from fixed (init0 false) h_same_slot) = Ok (RSearch [(2, 1)] []).
Proof. vm_compute. repeat split; reflexivity. Qed.

(* getNode accepts index = offset + len and then indexes out of range *)
Lemma getnode_bound_refuted :
  getNode pinned (new_array 0 1 0 0 0 false) 1 = Panic IndexOOR /\ getNode fixed (new_array 0 1 0 0 0 false) 1 = Err.
Proof. vm_compute. split; reflexivity. Qed.

Definition h_chain : list op :=
  [OBlock 1 2 1 0 0; OBlock 2 3 2 0 0; OBlock 3 4 3 0 0; OBlock 4 5 4 0 0; OBlock 5 6 5 1 1].

(* C10/C17: an update that advances the justified checkpoint never returns (the mutex is taken twice) *)
Definition h_advance : list op := h_chain ++ [OHead; OUpdate 5 (1, 5) (0, 1) (Some [10; 10; 10]) None].
Lemma update_relock_refuted :
  last_out (run_from pinned (init0 false) h_advance) = Blocked /\
  last_exp (spec_from (init0 false) h_advance) = EVal RUnit /\
  last_out (run_from fixed (init0 false) h_advance) = Ok RUnit.
Proof. vm_compute. repeat split; reflexivity. Qed.

(* C10: with the trigger equal to the pin the lock is not retaken, and the swapped (justified, finalized) arguments refuse a valid pair *)
Definition h_advance_pin : list op := h_chain ++ [OHead; OUpdate 1 (1, 5) (0, 1) (Some [10; 10; 10]) None].
Lemma update_argorder_refuted :
  last_out (run_from pinned (init0 false) h_advance_pin) = Err /\
  last_exp (spec_from (init0 false) h_advance_pin) = EVal RUnit /\
  last_out (run_from fixed (init0 false) h_advance_pin) = Ok RUnit.
Proof. vm_compute. repeat split; reflexivity. Qed.

(* C10: OnPrune as written. With only the lock and argument-order repairs applied, finalizing block 5 reports the
   first node of the array again and again (the loop variable j is never advanced) *)
Definition relock_only : fixes :=
  mkFixes false false false false false false false false true true false false false false false false false.
Definition h_prune : list op :=
  h_chain ++ [OBlock 2 7 3 0 0; OHead; OUpdate 6 (1, 5) (1, 5) (Some [10; 10; 10]) None].
Lemma prune_loop_refuted :
  snd (last (run_from relock_only (init0 false) h_prune) (Err, [])) =
    [((1, 0), true); ((1, 0), true); ((1, 0), true); ((1, 0), true); ((1, 0), true); ((1, 0), true); ((1, 0), true); ((1, 0), true)] /\
  snd (last (run_from fixed (init0 false) h_prune) (Err, [])) =
    [((1, 0), true); ((1, 1), true); ((2, 1), true); ((2, 2), true); ((3, 2), true); ((3, 3), true); ((4, 3), true); ((4, 4), true)].
Proof. vm_compute. split; reflexivity. Qed.

(* ... and with a nil sink nothing is pruned at all *)
Lemma prune_nil_sink_refuted :
  last_out (run_from relock_only (init0 true) (h_prune ++ [OGetSlot 3])) = Ok (RSlot (Some 2)) /\
  last_exp (spec_from (init0 true) (h_prune ++ [OGetSlot 3])) = EVal (RSlot None) /\
  last_out (run_from fixed (init0 true) (h_prune ++ [OGetSlot 3])) = Ok (RSlot None).
Proof. vm_compute. repeat split; reflexivity. Qed.

(* KNOWN FINDING prune_keeps_late_fork (not repaired): block 7 forks off block 2 and is inserted after block 5, the node
   finalization moves to. The prune drops the nodes inserted before block 5 only: (2,3), (7,3) stay in the array and the
   maps, the sink never hears of them, and root 7 is still reported as known. *)
Lemma prune_keeps_late_fork_refuted :
  last_out (run_from fixed (init0 true) (h_prune ++ [OGetSlot 7])) = Ok (RSlot (Some 3)) /\
  last_exp (spec_from (init0 true) (h_prune ++ [OGetSlot 7])) = EVal (RSlot None).
Proof. vm_compute. split; reflexivity. Qed.

(* C09: neither the current best child nor the candidate leads to a viable head, one is still chosen by weight:
   the viable parent (2,1) ends with a non-viable best descendant and FindHead errors. (All other repairs applied.) *)
Definition all_but_nonviable : fixes := mkFixes true true true true true true true false true true true true true true true true true.
Definition h_nonviable : list op :=
  [OBlock 1 2 1 1 0; OBlock 2 3 2 2 0; OBlock 2 4 2 2 0; OAtt 0 3 2; OAtt 1 3 2; OHead; OSlot 4 4 2 0;
   OAtt 0 4 4; OAtt 1 4 4; OAtt 2 4 4; OUpdate 1 (1, 2) (0, 1) (Some [10; 10; 10]) None; OFindHead 2 1].
Lemma bestchild_nonviable_refuted :
  last_out (run_from all_but_nonviable (init0 false) h_nonviable) = Err /\
  last_exp (spec_from (init0 false) h_nonviable) = EVal (RRef (2, 1)) /\
  last_out (run_from fixed (init0 false) h_nonviable) = Ok (RRef (2, 1)).
Proof. vm_compute. repeat split; reflexivity. Qed.

(* C09: a vote for an empty slot after the block (the normal case) is refused by the snapshot's slot comparison *)
Definition h_att_gap : list op := [OBlock 1 2 1 0 0; OSlot 2 2 0 0; OAtt 0 2 2].
Lemma attestation_gap_slot_refuted :
  last_out (run_from pinned (init0 false) h_att_gap) = Ok (RBool false) /\
  last_exp (spec_from (init0 false) h_att_gap) = EVal (RBool true) /\
  last_out (run_from fixed (init0 false) h_att_gap) = Ok (RBool true).
Proof. vm_compute. repeat split; reflexivity. Qed.
(* ... while a vote for a (root, slot) pair that does not exist is accepted *)
Definition h_att_unknown : list op := [OBlock 1 2 3 0 0; OAtt 0 2 2].
Lemma attestation_unknown_target_refuted :
  last_out (run_from pinned (init0 false) h_att_unknown) = Ok (RBool true) /\
  last_exp (spec_from (init0 false) h_att_unknown) = EVal (RBool false) /\
  last_out (run_from fixed (init0 false) h_att_unknown) = Ok (RBool false).
Proof. vm_compute. repeat split; reflexivity. Qed.

(* C10: a prune at an empty-slot anchor (root 3, slot 4) with a later block 4@5 built on root 3: without the re-parenting
   repair the block is cut off and the head stays on the empty-slot chain *)
Definition all_but_reparent : fixes := mkFixes true true true true true true true true true true true true true true false false true.
Definition h_gap_anchor : list op :=
  [OBlock 1 2 1 0 0; OBlock 2 3 2 0 0; OSlot 3 4 0 0; OBlock 3 4 5 1 1; OBlock 4 5 6 1 1; OAtt 0 5 6; OHead;
   OUpdate 5 (1, 3) (1, 3) (Some [10; 10; 10]) None; OHead].
Lemma prune_gap_anchor_refuted :
  last_out (run_from all_but_reparent (init0 false) h_gap_anchor) = Ok (RRef (3, 5)) /\
  last_exp (spec_from (init0 false) h_gap_anchor) = EVal (RRef (5, 6)) /\
  last_out (run_from fixed (init0 false) h_gap_anchor) = Ok (RRef (5, 6)).
Proof. vm_compute. repeat split; reflexivity. Qed.

(* the full statements (Step.refines) on concrete non-trivial histories: forks, votes, an update, prunes at a block and at an
   empty-slot anchor, queries after them; and the one history shape on which the repaired code still fails *)
Definition h_rich : list op :=
  h_chain ++ [OBlock 2 7 3 0 0; OBlock 7 8 4 0 0; OAtt 0 6 5; OAtt 1 8 4; OHead; OChain 1 0; OInSub 2 8; OInSub 3 8;
              OSearch 1 0 (Some 2) None; OCanonAt 1 3 true; OCanonAt 1 3 false; OClosest 2 2; OGetSlot 7].
Lemma refines_examples :
  refines sel_c11 true (init0 false) h_rich = true /\ refines sel_c09 true (init0 false) h_rich = true /\
  refines sel_c10 true (init0 false) (h_chain ++ [OHead; OUpdate 6 (1, 5) (1, 5) (Some [10; 10; 10]) None; OHead; OChain 5 4; OGetSlot 2; OFin; OPin]) = true /\
  refines sel_c10 true (init0 false) (h_gap_anchor ++ [OChain 3 4; OGetSlot 2; OBlock 3 9 6 1 1; OAtt 1 9 6; OAtt 2 9 6; OHead]) = true /\
  refines sel_c09 true (init0 false) (h_gap_anchor ++ [OChain 3 4; OGetSlot 2; OBlock 3 9 6 1 1; OAtt 1 9 6; OAtt 2 9 6; OHead]) = true /\
  refines sel_c10 true (init0 false) (h_chain ++ [OHead; OUpdate 6 (1, 5) (1, 5) (Some [10; 10; 10]) (Some 2); OHead; OGetSlot 1; OGetSlot 2]) = true.
Proof. vm_compute. repeat split; reflexivity. Qed.
Lemma late_fork_refutes_full :
  refines sel_c11 true (init0 true) (h_prune ++ [OGetSlot 7]) = false /\
  refines sel_c10 true (init0 false) h_prune = false /\
  refines sel_c11 false (init0 true) (h_prune ++ [OGetSlot 7]) = true /\
  refines sel_c10 false (init0 false) h_prune = true.
Proof. vm_compute. repeat split; reflexivity. Qed.

(* C10, found by review of the first repair series: the sink refuses the 6th node of a prune at the empty-slot anchor (3,4).
   (3,2), the node the blocks built on root 3 hang off, is gone; (3,3) is now the lowest node of root 3 and stays. With the
   re-parenting done only after a complete prune, block 4@5 keeps a dead fork-choice parent: FindHead from (3,3) misses it
   and (3,3) weighs 0 instead of 20. (All other repairs applied.) *)
Definition all_but_partial : fixes := mkFixes true true true true true true true true true true true true true true true false true.
Definition h_gap_fail : list op :=
  [OBlock 1 2 1 0 0; OBlock 2 3 2 0 0; OBlock 3 4 5 1 1; OBlock 4 5 6 1 1; OAtt 0 5 6; OAtt 1 5 6; OHead;
   OUpdate 5 (1, 3) (1, 3) (Some [10; 10; 10]) (Some 5); OFindHead 3 3].
Lemma prune_partial_reparent_refuted :
  last_out (run_from all_but_partial (init0 false) h_gap_fail) = Ok (RRef (3, 5)) /\
  last_exp (spec_from (init0 false) h_gap_fail) = EVal (RRef (5, 6)) /\
  last_out (run_from fixed (init0 false) h_gap_fail) = Ok (RRef (5, 6)).
Proof. vm_compute. repeat split; reflexivity. Qed.
(* C10/C09, reported against the first 16 repairs: a start node on an empty slot that is not the first node known for its root.
   The blocks built on that root hang off its first node, so the walk from the start never met them: Head() from the justified
   empty-slot node (3,4) stayed on root 3's empty slots - after the failed prune, and just the same with no prune (SetPin). *)
Definition all_but_gaphead : fixes := mkFixes true true true true true true true true true true true true true true true true false.
Lemma head_from_gap_start_refuted :
  last_out (run_from all_but_gaphead (init0 false) (removelast h_gap_fail ++ [OHead])) = Ok (RRef (3, 5)) /\
  last_exp (spec_from (init0 false) (removelast h_gap_fail ++ [OHead])) = EVal (RRef (5, 6)) /\
  last_out (run_from fixed (init0 false) (removelast h_gap_fail ++ [OHead])) = Ok (RRef (5, 6)) /\
  last_out (run_from all_but_gaphead (init0 false) (firstn 7 h_gap_fail ++ [OSetPin 3 4; OHead])) = Ok (RRef (3, 5)) /\
  last_exp (spec_from (init0 false) (firstn 7 h_gap_fail ++ [OSetPin 3 4; OHead])) = EVal (RRef (5, 6)) /\
  last_out (run_from fixed (init0 false) (firstn 7 h_gap_fail ++ [OSetPin 3 4; OHead])) = Ok (RRef (5, 6)).
Proof. vm_compute. repeat split; reflexivity. Qed.
(* ... and a legitimate update whose finalized AND justified checkpoints sit on empty slots was refused ("not a viable head"),
   leaving the checkpoints moved, nothing pruned, and Head() on the empty slots of root 3: blocks 2@1, 3@6, 4@9 (4 carries justified 2, finalized 1),
   finalized (root 2, epoch 1) = node (2,4), justified (root 3, epoch 2) = node (3,8); OnPrune asks for a head from (2,4) *)
Definition h_gap_fin : list op :=
  [OBlock 1 2 1 0 0; OBlock 2 3 6 0 0; OBlock 3 4 9 2 1; OAtt 0 4 9; OAtt 1 4 9; OHead; OUpdate 4 (2, 3) (1, 2) (Some [10; 10; 10]) None].
Lemma gap_anchor_prune_head_refuted :
  last_out (run_from all_but_gaphead (init0 false) h_gap_fin) = Err /\
  last_exp (spec_from (init0 false) h_gap_fin) = EVal RUnit /\
  last_out (run_from fixed (init0 false) h_gap_fin) = Ok RUnit /\
  last_out (run_from all_but_gaphead (init0 false) (h_gap_fin ++ [OHead])) = Ok (RRef (3, 9)) /\
  last_exp (spec_from (init0 false) (h_gap_fin ++ [OHead])) = EVal (RRef (4, 9)) /\
  last_out (run_from fixed (init0 false) (h_gap_fin ++ [OHead])) = Ok (RRef (4, 9)) /\
  refines sel_c10 true (init0 false) (h_gap_fin ++ [OHead; OFin; OJust; OPin; OGetSlot 1; OGetSlot 2; OChain 3 8; OBlock 4 5 10 2 1; OAtt 2 5 10; OHead]) = true.
Proof. vm_compute. repeat split; reflexivity. Qed.
Lemma refines_after_sink_failure :
  refines sel_c10 true (init0 false) (h_gap_fail ++ [OHead; OFindHead 3 4; OGetSlot 3; OGetSlot 2; OChain 3 3; OAtt 2 4 5; OHead; OBlock 5 6 7 1 1; OFindHead 3 3;
                                                     OSlot 6 8 2 2; OBlock 6 7 9 2 2; OUpdate 7 (2, 6) (2, 6) (Some [10; 10; 10]) None; OHead; OChain 6 8; OGetSlot 3]) = true /\
  refines sel_c09 true (init0 false) (h_gap_fail ++ [OHead; OFindHead 3 4; OAtt 2 4 5; OHead; OBlock 5 6 7 1 1; OFindHead 3 3]) = true.
Proof. vm_compute. repeat split; reflexivity. Qed.
