(* Impl model of /repo/eth2/forkchoice/forkchoice.go (ProtoForkChoice): the mutex as a `locked` flag
   (an exported method entered while the flag is set never returns: Blocked), SetPin, UpdateJustified /
   updateJustified with the argument order as written or repaired, Head, the vote refresh. NO proofs here. *)
From Coq Require Import NArith ZArith List Bool.
From V Require Import Base.U64 Base.Outcome Forkchoice.ProtoArray Forkchoice.VoteStore.
Import ListNotations.
Local Open Scope N_scope.
Open Scope m_scope.

Notation checkpoint := (N * N)%type (only parsing).   (* (epoch, root) *)
Definition cp_eqb (a b : checkpoint) : bool := (fst a =? fst b) && (snd a =? snd b).

Record wrapper := mkW {
  w_locked : bool; w_pa : parray; w_vs : vstore; w_bal : list N; w_pin : option ref;
  w_just : checkpoint; w_fin : checkpoint; w_spe : N;
  w_log : list (ref * bool)   (* ghost: what the prune sink has been sent during the current call *)
}.

Definition set_locked (w : wrapper) (b : bool) : wrapper :=
  mkW b (w_pa w) (w_vs w) (w_bal w) (w_pin w) (w_just w) (w_fin w) (w_spe w) (w_log w).
Definition set_pa (w : wrapper) (pa : parray) : wrapper :=
  mkW (w_locked w) pa (w_vs w) (w_bal w) (w_pin w) (w_just w) (w_fin w) (w_spe w) (w_log w).
Definition set_vs (w : wrapper) (vs : vstore) : wrapper :=
  mkW (w_locked w) (w_pa w) vs (w_bal w) (w_pin w) (w_just w) (w_fin w) (w_spe w) (w_log w).
Definition set_pin (w : wrapper) (p : option ref) : wrapper :=
  mkW (w_locked w) (w_pa w) (w_vs w) (w_bal w) p (w_just w) (w_fin w) (w_spe w) (w_log w).
Definition set_cps (w : wrapper) (bal : list N) (j f : checkpoint) : wrapper :=
  mkW (w_locked w) (w_pa w) (w_vs w) bal (w_pin w) j f (w_spe w) (w_log w).
Definition set_log (w : wrapper) (l : list (ref * bool)) : wrapper :=
  mkW (w_locked w) (w_pa w) (w_vs w) (w_bal w) (w_pin w) (w_just w) (w_fin w) (w_spe w) l.

Definition lift_pa {A} (m : M parray A) : M wrapper A :=
  fun w => let '(pa, o) := m (w_pa w) in (set_pa w pa, o).
Definition lift_vs {A} (m : M vstore A) : M wrapper A :=
  fun w => let '(vs, o) := m (w_vs w) in (set_vs w vs, o).

(* fc.mu.Lock(); defer fc.mu.Unlock(): a panic unwinds through the deferred unlock, a call that blocks keeps the lock *)
Definition locked_call {A} (body : M wrapper A) : M wrapper A :=
  fun w =>
    if w_locked w then (w, Blocked) else
    let '(w', o) := body (set_locked w true) in
    match o with
    | Blocked => (w', Blocked)
    | OutOfFuel => (w', OutOfFuel)
    | _ => (set_locked w' false, o)
    end.

(* spec.EpochStartSlot with the error dropped (`finSlot, _ :=`) *)
Definition epoch_start (spe : N) (e : epoch) : outcome slot :=
  if spe =? 0 then Panic DivZero else
  let out := mul64 e spe in
  if e =? out / spe then Ok out else Ok 0.

(* ---- exported queries ---- *)
Definition W_InSubtree (fx : fixes) (a r : root) : M wrapper (bool * bool) := locked_call (lift_pa (InSubtree fx a r)).
Definition W_CanonicalChain (fx : fixes) (r : root) (s : slot) := locked_call (lift_pa (CanonicalChain fx r s)).
Definition W_ClosestToSlot (r : root) (s : slot) : M wrapper ref :=
  locked_call (fun w => (w, ClosestToSlot (w_pa w) r s)).
Definition W_CanonAtSlot (fx : fixes) (r : root) (s : slot) (wb : bool) := locked_call (lift_pa (CanonAtSlot fx r s wb)).
Definition W_GetSlot (r : root) : M wrapper (option slot) := locked_call (fun w => (w, Ok (GetSlot (w_pa w) r))).
Definition W_Search (fx : fixes) (a : ref) (p : option root) (s : option slot) := locked_call (lift_pa (Search fx a p s)).
Definition W_Pin : M wrapper (option ref) := locked_call (fun w => (w, Ok (w_pin w))).
Definition W_Justified : M wrapper checkpoint := locked_call (fun w => (w, Ok (w_just w))).
Definition W_Finalized : M wrapper checkpoint := locked_call (fun w => (w, Ok (w_fin w))).
Definition W_ProcessSlot (p : root) (s : slot) (je fe : epoch) := locked_call (lift_pa (ProcessSlot p s je fe)).
Definition W_ProcessBlock (p r : root) (s : slot) (je fe : epoch) := locked_call (lift_pa (ProcessBlock p r s je fe)).

(* InSubtree as called from inside UpdateJustified/updateJustified: the snapshot calls the exported, locking method *)
Definition inner_InSubtree (fx : fixes) (a r : root) : M wrapper (bool * bool) :=
  if f_relock fx then lift_pa (InSubtree fx a r) else W_InSubtree fx a r.

Definition SetPin_body (r : root) (s : slot) : M wrapper unit :=
  w <- get ;;
  closest <- lift_o (ClosestToSlot (w_pa w) r s) ;;
  if snd closest <? s then fail Err else modify (fun w => set_pin w (Some (r, s))).
Definition W_SetPin (r : root) (s : slot) : M wrapper unit := locked_call (SetPin_body r s).

Definition W_ProcessAttestation (fx : fixes) (ix : N) (blockRoot : root) (headSlot : slot) : M wrapper bool :=
  locked_call (
    w <- get ;;
    if (if f_att_target fx
        then match idx_get (pa_idx (w_pa w)) (blockRoot, headSlot) with Some _ => false | None => true end
        else match GetSlot (w_pa w) blockRoot with Some blockSlot => blockSlot <? headSlot | None => true end)
    then ret false
    else lift_vs (vs_ProcessAttestation ix blockRoot headSlot)).

(* updateJustified(finalized, justified, balances callback) *)
Definition updateJustified (fx : fixes) (finalized justified : checkpoint) (bal : option (list N)) : M wrapper unit :=
  if fst justified <? fst finalized then fail Err else
  w <- get ;;
  (if negb (cp_eqb (w_fin w) finalized) then
     ui <- inner_InSubtree fx (snd (w_fin w)) (snd finalized) ;;
     if fst ui then fail Err else
     if negb (snd ui) || (fst finalized <? fst (w_fin w)) then fail Err else ret tt
   else ret tt) ;;;
  (if negb (cp_eqb (w_just w) justified) then
     ui <- inner_InSubtree fx (snd (w_fin w)) (snd justified) ;;
     if fst ui then fail Err else
     if negb (snd ui) || (fst justified <? fst (w_fin w)) then fail Err else ret tt
   else ret tt) ;;;
  match bal with
  | None => fail Err
  | Some newBals =>
      w1 <- get ;;
      deltas <- lift_vs (ComputeDeltas fx (pa_idx (w_pa w1)) (w_bal w1) newBals) ;;
      lift_pa (ApplyScoreChanges fx deltas (fst justified) (fst finalized)) ;;;
      modify (fun w2 => set_cps w2 newBals justified finalized)
  end.

Definition UpdateJustified_body (fx : fixes) (sink : sink_fn) (trigger : root) (justified finalized : checkpoint)
           (bal : option (list N)) : M wrapper unit :=
  w <- get ;;
  if (fst justified <=? fst (w_just w)) && (fst finalized <=? fst (w_fin w)) then ret tt else
  (match w_pin w with
   | Some pin =>
       if negb (trigger =? fst pin) then
         ui <- inner_InSubtree fx (fst pin) trigger ;;
         if fst ui then fail Err else if negb (snd ui) then fail Err else ret tt
       else ret tt
   | None => ret tt
   end) ;;;
  let prevFinalized := w_fin w in
  (if f_argorder fx then updateJustified fx finalized justified bal
   else updateJustified fx justified finalized bal) ;;;
  if negb (cp_eqb prevFinalized finalized) then
    modify (fun w1 => set_pin w1 None) ;;;
    finSlot <- lift_o (epoch_start (w_spe w) (fst finalized)) ;;
    r <- lift_pa (OnPrune_core fx sink (snd finalized) finSlot) ;;
    modify (fun w2 => set_log w2 (w_log w2 ++ fst r)) ;;;
    if snd r then fail Err else ret tt
  else ret tt.

Definition W_UpdateJustified (fx : fixes) (sink : sink_fn) (trigger : root) (justified finalized : checkpoint)
           (bal : option (list N)) : M wrapper unit :=
  locked_call (UpdateJustified_body fx sink trigger justified finalized bal).

Definition updateVotesMaybe (fx : fixes) : M wrapper unit :=
  w <- get ;;
  if negb (vs_changed (w_vs w)) then ret tt else
  deltas <- lift_vs (ComputeDeltas fx (pa_idx (w_pa w)) (w_bal w) (w_bal w)) ;;
  lift_pa (ApplyScoreChanges fx deltas (fst (w_just w)) (fst (w_fin w))).

Definition W_FindHead (fx : fixes) (r : root) (s : slot) : M wrapper ref :=
  locked_call (updateVotesMaybe fx ;;; lift_pa (FindHead fx r s)).

Definition W_Head (fx : fixes) : M wrapper ref :=
  locked_call (
    updateVotesMaybe fx ;;;
    w <- get ;;
    s0 <- lift_o (epoch_start (w_spe w) (fst (w_just w))) ;;
    let '(r, s) := match w_pin w with Some pin => pin | None => (snd (w_just w), s0) end in
    lift_pa (FindHead fx r s)).

(* NewForkChoice (through NewProtoForkChoice): no lock is held by the constructor *)
Definition new_forkchoice (fx : fixes) (spe : N) (finalized justified : checkpoint) (anchorRoot : root) (anchorSlot : slot)
           (anchorParent : root) (initialBalances : list N) (sink_nil : bool) : wrapper * outcome unit :=
  let pa := new_array anchorParent anchorRoot anchorSlot (fst justified) (fst finalized) sink_nil in
  let w := mkW false pa (new_votestore spe) [] None justified finalized spe [] in
  (W_SetPin anchorRoot anchorSlot ;;; updateJustified fx finalized justified (Some initialBalances)) w.
