(* Proofs, part 5 (C11): the walking queries on arrays built by insertions.
   (B) the slots known for a root are contiguous (a property of the Spec's insertions), hence ClosestToSlot's binary search
       returns the greatest known slot at or below the requested one = the Spec's direct scan;
   (A) every node but the first carries, as TransitionParent, the index of its tree parent (array-level invariant), hence
   (C) the chain walk of CanonicalChain and the slot walk of CanonAtSlot are the Spec's walks along transition parents. *)
From Coq Require Import NArith ZArith List Bool Lia.
From Coq Require Import ZifyN ZifyNat ZifyBool.
From V Require Import Base.U64 Base.Outcome Forkchoice.ProtoArray Forkchoice.TreeSpec Forkchoice.TreeProofs.
Import ListNotations.
Local Open Scope N_scope.

(* ================= (B) contiguity and ClosestToSlot ================= *)
Definition Contig (t : tree) : Prop :=
  forall r lo s, low t r = Some lo -> known t (r, s) = true -> forall s', lo <= s' -> s' <= s -> known t (r, s') = true.

Lemma known_snoc t m r : known (t ++ [m]) r = known t r || ref_eqb (s_ref m) r.
Proof. rewrite known_app, known_single. reflexivity. Qed.

Lemma low_root_unknown t r s : low t r = None -> known t (r, s) = false.
Proof.
  intros H. destruct (known t (r, s)) eqn:E; [|reflexivity].
  apply known_low in E. destruct E as [lo [E _]]. congruence.
Qed.

Lemma Contig_add_fresh_root t m :
  Contig t -> low t (fst (s_ref m)) = None -> Contig (t ++ [m]).
Proof.
  intros HC Hn r lo s Hlo Hk s' H1 H2. rewrite low_app_single in Hlo. rewrite known_snoc in *.
  destruct (fst (s_ref m) =? r) eqn:E.
  - apply N.eqb_eq in E. subst r. rewrite Hn in Hlo. inversion Hlo. subst lo.
    rewrite (low_root_unknown _ _ s Hn) in Hk. rewrite (low_root_unknown _ _ s' Hn). cbn [orb] in *. apply ref_eqb_eq in Hk.
    apply ref_eqb_eq. destruct (s_ref m) as [mr ms]. cbn in *. inversion Hk. subst. f_equal. lia.
  - assert (Hne : ref_eqb (s_ref m) (r, s) = false).
    { apply ref_eqb_neq. intros Hc. apply N.eqb_neq in E. apply E. rewrite Hc. reflexivity. }
    rewrite Hne, orb_false_r in Hk. rewrite (HC r lo s Hlo Hk s' H1 H2). reflexivity.
Qed.

Lemma Contig_add_next t p lo i je fe :
  Contig t -> low t p = Some lo -> lo < i -> (forall j, lo <= j -> j < i -> known t (p, j) = true) ->
  Contig (t ++ [mkSN (p, i) p je fe]).
Proof.
  intros HC Hlo Hi Hpre r lo' s Hlo' Hk s' H1 H2. rewrite low_app_single in Hlo'. rewrite known_snoc in *. cbn [s_ref fst snd] in *.
  destruct (p =? r) eqn:E.
  - apply N.eqb_eq in E. subst r. rewrite Hlo in Hlo'. inversion Hlo'. subst lo'. clear Hlo'.
    replace (N.min lo i) with lo in * by lia.
    destruct (N.eq_dec s' i) as [->|Hne]; [rewrite ref_eqb_refl; apply orb_true_r|].
    apply orb_true_iff. left.
    destruct (N.lt_ge_cases s' i) as [Hlt|Hge]; [apply Hpre; lia|].
    apply orb_true_iff in Hk. destruct Hk as [Hk|Hk].
    + eapply HC; eauto.
    + apply ref_eqb_eq in Hk. inversion Hk. lia.
  - assert (Hne : forall x, ref_eqb (p, i) (r, x) = false).
    { intros x. apply ref_eqb_neq. intros Hc. inversion Hc. subst. rewrite N.eqb_refl in E. discriminate. }
    rewrite Hne, orb_false_r in *. eapply HC; eauto.
Qed.

Lemma Contig_add_slots p je fe lo : forall fuel t i to,
  Contig t -> low t p = Some lo -> lo < i -> (forall j, lo <= j -> j < i -> known t (p, j) = true) ->
  Contig (add_slots fuel t p i to je fe) /\ low (add_slots fuel t p i to je fe) p = Some lo.
Proof.
  induction fuel; intros t i to HC Hlo Hi Hpre; cbn [add_slots]; [auto|].
  destruct (to <? i); [auto|].
  unfold add_node. cbn [s_ref]. destruct (known t (p, i)) eqn:Ek.
  - apply IHfuel; auto; [lia|]. intros j H1 H2. destruct (N.eq_dec j i) as [->|]; [exact Ek|apply Hpre; lia].
  - apply IHfuel.
    + eapply Contig_add_next; eauto.
    + rewrite low_app_single. cbn. rewrite N.eqb_refl, Hlo. f_equal. lia.
    + lia.
    + intros j H1 H2. rewrite known_snoc. cbn [s_ref]. destruct (N.eq_dec j i) as [->|]; [rewrite ref_eqb_refl; apply orb_true_r|].
      rewrite Hpre by lia. reflexivity.
Qed.

Lemma Contig_process_slot t p sl je fe : Contig t -> Contig (spec_process_slot t p sl je fe).
Proof.
  intros HC. unfold spec_process_slot. destruct (known t (p, sl)); [exact HC|].
  destruct (low t p) as [lo|] eqn:Hlo; [|exact HC].
  apply (Contig_add_slots p je fe lo); auto; [lia|].
  intros j H1 H2. replace j with lo by lia. apply low_known. exact Hlo.
Qed.
Lemma low_process_slot_other t p sl je fe r : r <> p -> low (spec_process_slot t p sl je fe) r = low t r.
Proof.
  intros Hr. unfold spec_process_slot. destruct (known t (p, sl)); [reflexivity|]. destruct (low t p) as [lo|]; [|reflexivity].
  generalize (N.to_nat (sl - lo)) as fuel. generalize (lo + 1) as i. intros i fuel. revert t i.
  induction fuel; intros t i; cbn [add_slots]; [reflexivity|]. destruct (sl <? i); [reflexivity|].
  rewrite IHfuel. unfold add_node. destruct (known t _); [reflexivity|]. rewrite low_app_single. cbn.
  replace (p =? r) with false by (symmetry; apply N.eqb_neq; congruence). reflexivity.
Qed.
Lemma Contig_process_block t p r sl je fe : Contig t -> Contig (fst (spec_process_block t p r sl je fe)).
Proof.
  intros HC. unfold spec_process_block. destruct (known t (r, sl)); [exact HC|].
  destruct (low t r) eqn:Hr; [exact HC|]. destruct (low t p) as [lo|] eqn:Hp; [|exact HC].
  destruct (sl <=? lo); [exact HC|]. cbn [fst]. unfold add_node. cbn [s_ref].
  destruct (known _ (r, sl)); [apply Contig_process_slot; exact HC|].
  apply Contig_add_fresh_root; [apply Contig_process_slot; exact HC|]. cbn [s_ref fst].
  rewrite low_process_slot_other; [exact Hr|]. intros ->. congruence.
Qed.
Lemma Contig_spec_iop o t : Contig t -> Contig (fst (spec_iop o t)).
Proof.
  intros HC. destruct o; cbn [spec_iop fst]; [apply Contig_process_slot; exact HC|].
  pose proof (Contig_process_block t p r s je fe HC) as H. destruct (spec_process_block t p r s je fe). exact H.
Qed.
Lemma Contig_spec_iops ops : forall t, Contig t -> Contig (fst (spec_iops ops t)).
Proof.
  induction ops as [|o ops IH]; intros t HC; cbn [spec_iops]; [exact HC|].
  pose proof (Contig_spec_iop o t HC) as H1. destruct (spec_iop o t) as [t1 r1]. cbn [fst] in H1.
  pose proof (IH t1 H1) as H2. destruct (spec_iops ops t1). exact H2.
Qed.
Lemma Contig_single n : Contig [n].
Proof.
  intros r lo s Hlo Hk s' H1 H2. rewrite known_single in *. apply ref_eqb_eq in Hk.
  unfold low, nodes_of_root in Hlo. cbn in Hlo. destruct (fst (s_ref n) =? r); [|discriminate]. cbn in Hlo. inversion Hlo. subst lo.
  apply ref_eqb_eq. rewrite Hk in *. cbn in *. f_equal. lia.
Qed.

(* the binary search: between a known slot and an unknown one it ends on a known slot whose successor is unknown *)
Lemma closest_loop_spec pa a (kn : N -> bool) :
  (forall s, kn s = match idx_get (pa_idx pa) (a, s) with Some _ => true | None => false end) ->
  forall f mn mx, kn mn = true -> kn mx = false -> mn < mx -> mx - mn <= 2 ^ N.of_nat f ->
  exists h, closest_loop (S f) pa a mn mx = Ok h /\ kn h = true /\ kn (h + 1) = false /\ mn <= h /\ h < mx.
Proof.
  intros Hkn. induction f; intros mn mx Hmn Hmx Hlt Hd.
  - cbn in Hd. cbn [closest_loop]. replace (mn + 1 <? mx) with false by (symmetry; apply N.ltb_ge; lia).
    exists mn. replace (mn + 1) with mx by lia. repeat split; auto; lia.
  - cbn [closest_loop]. destruct (mn + 1 <? mx) eqn:E.
    2: { apply N.ltb_ge in E. exists mn. replace (mn + 1) with mx by lia. repeat split; auto; lia. }
    apply N.ltb_lt in E. set (pivot := mn + (mx - mn) / 2).
    assert (Hp : mn < pivot /\ pivot < mx).
    { unfold pivot. assert (1 <= (mx - mn) / 2) by (apply N.div_le_lower_bound; lia).
      assert ((mx - mn) / 2 < mx - mn) by (apply N.div_lt; lia). lia. }
    assert (Hpow : 2 ^ N.of_nat (S f) = 2 * 2 ^ N.of_nat f) by (rewrite Nat2N.inj_succ, N.pow_succ_r'; reflexivity).
    assert (Hhalf : (mx - mn) / 2 <= 2 ^ N.of_nat f) by (apply N.div_le_upper_bound; lia).
    assert (Hup : mx - pivot <= 2 ^ N.of_nat f).
    { unfold pivot. pose proof (N.div_mod (mx - mn) 2 ltac:(lia)). pose proof (N.mod_lt (mx - mn) 2 ltac:(lia)).
      assert (mx - mn <= 2 * 2 ^ N.of_nat f) by lia.
      (* mx - mn = 2q + r, r<2, so mx - mn - q = q + r <= 2^f when 2q + r <= 2^(f+1) *)
      set (q := (mx - mn) / 2) in *. set (r := (mx - mn) mod 2) in *.
      assert (q + r <= 2 ^ N.of_nat f).
      { destruct (N.eq_dec r 0); [lia|]. assert (r = 1) by lia.
        assert (2 * q + 1 <= 2 * 2 ^ N.of_nat f) by lia. lia. }
      lia. }
    pose proof (Hkn pivot) as Hkp. fold pivot.
    destruct (idx_get (pa_idx pa) (a, pivot)).
    + destruct (IHf pivot mx Hkp Hmx (proj2 Hp) Hup) as [h [A [B [C [D F]]]]].
      exists h. repeat split; auto; lia.
    + destruct (IHf mn pivot Hmn Hkp (proj1 Hp) ltac:(unfold pivot; lia)) as [h [A [B [C [D F]]]]].
      exists h. repeat split; auto; lia.
Qed.

(* the Spec's scan: the greatest slot at or below sl among the nodes of the root, starting from lo *)
Lemma scan_spec sl : forall (l : list snode) acc,
  let r := fold_left (fun acc m => if (snd (s_ref m) <=? sl) && (acc <? snd (s_ref m)) then snd (s_ref m) else acc) l acc in
  acc <= r /\ (r = acc \/ exists m, In m l /\ snd (s_ref m) = r /\ r <= sl) /\
  (forall m, In m l -> snd (s_ref m) <= sl -> snd (s_ref m) <= r).
Proof.
  induction l as [|x l IH]; intros acc; cbn [fold_left].
  - cbn. split; [lia|]. split; [left; reflexivity|]. intros m [].
  - set (acc' := if (snd (s_ref x) <=? sl) && (acc <? snd (s_ref x)) then snd (s_ref x) else acc).
    destruct (IH acc') as [H1 [H2 H3]]. cbv zeta.
    assert (Ha : acc <= acc' /\ (acc' = acc \/ (acc' = snd (s_ref x) /\ snd (s_ref x) <= sl)) /\ (snd (s_ref x) <= sl -> snd (s_ref x) <= acc')).
    { unfold acc'. destruct (N.leb_spec (snd (s_ref x)) sl); destruct (N.ltb_spec acc (snd (s_ref x))); cbn; repeat split; auto; try lia. }
    destruct Ha as [Ha1 [Ha2 Ha3]]. split; [lia|]. split.
    + destruct H2 as [H2|[m [Hm [E1 E2]]]].
      * destruct Ha2 as [Ha2|[Ha2 Ha2']]; [left; congruence|]. right. exists x. split; [left; reflexivity|]. split; [congruence|]. rewrite H2, Ha2. exact Ha2'.
      * right. exists m. split; [right; exact Hm|auto].
    + intros m [->|Hm] Hs; [specialize (Ha3 Hs); lia|apply H3; auto].
Qed.

Lemma nodes_of_root_in t r m : In m (nodes_of_root t r) <-> In m t /\ fst (s_ref m) = r.
Proof. unfold nodes_of_root. rewrite filter_In, N.eqb_eq. tauto. Qed.

(* C11: ClosestToSlot = the Spec's scan, on every array related to a contiguous tree, for every root and slot *)
Theorem ClosestToSlot_refines pa a sl :
  Rel pa -> Contig (abs pa) -> sl < two64 -> ClosestToSlot pa a sl = spec_closest (abs pa) a sl.
Proof.
  intros HR HC Hsl. unfold ClosestToSlot, spec_closest.
  destruct (idx_get (pa_idx pa) (a, sl)) as [k|] eqn:Ek.
  { replace (known (abs pa) (a, sl)) with true by (symmetry; apply Rel_known; eauto). reflexivity. }
  assert (Hk : known (abs pa) (a, sl) = false) by (apply Rel_known_false; auto). rewrite Hk.
  rewrite (r_bs pa HR a). destruct (low (abs pa) a) as [lo|] eqn:Hlo; [|reflexivity].
  destruct (sl <? lo) eqn:E1; [reflexivity|]. apply N.ltb_ge in E1.
  assert (Hklo : known (abs pa) (a, lo) = true) by (apply low_known; exact Hlo).
  destruct (lo =? sl) eqn:E2; [apply N.eqb_eq in E2; subst; congruence|]. apply N.eqb_neq in E2.
  set (kn := fun s => known (abs pa) (a, s)).
  assert (Hkn : forall s, kn s = match idx_get (pa_idx pa) (a, s) with Some _ => true | None => false end).
  { intros s. unfold kn. destruct (idx_get (pa_idx pa) (a, s)) eqn:E; [apply Rel_known; eauto|apply Rel_known_false; auto]. }
  assert (Hd : sl - lo <= 2 ^ N.of_nat 69).
  { assert (two64 <= 2 ^ N.of_nat 69) by (vm_compute; discriminate). lia. }
  destruct (closest_loop_spec pa a kn Hkn 69 lo sl Hklo Hk ltac:(lia) Hd) as [h [A [B [C [D F]]]]].
  change (closest_loop 70 pa a lo sl) with (closest_loop (S 69) pa a lo sl). rewrite A. cbn [bind]. f_equal. f_equal.
  (* the scan ends on the same slot: the known slot below sl whose successor is unknown is unique *)
  pose proof (scan_spec sl (nodes_of_root (abs pa) a) lo) as S. cbv zeta in S.
  set (r := fold_left _ (nodes_of_root (abs pa) a) lo) in *. destruct S as [S1 [S2 S3]].
  assert (Hr_known : kn r = true).
  { destruct S2 as [->|[m [Hm [E _]]]]; [exact Hklo|]. unfold kn. apply known_in. apply nodes_of_root_in in Hm.
    exists m. split; [tauto|]. destruct (s_ref m) as [mr ms]. cbn [fst snd] in Hm, E. destruct Hm as [_ ->]. subst ms. reflexivity. }
  assert (Hr_le : r <= sl) by (destruct S2 as [->|[m [_ [_ E]]]]; lia).
  assert (Hr_lt : r < sl) by (destruct (N.eq_dec r sl) as [->|]; [unfold kn in Hr_known; congruence|lia]).
  assert (Hge : forall s, kn s = true -> s <= sl -> s <= r).
  { intros s Hs Hle. unfold kn in Hs. apply known_in in Hs. destruct Hs as [m [Hm Hrm]].
    assert (In m (nodes_of_root (abs pa) a)) by (apply nodes_of_root_in; rewrite Hrm; auto).
    specialize (S3 m H). rewrite Hrm in S3. cbn in S3. auto. }
  apply N.le_antisymm.
  - apply Hge; [exact B|lia].
  - destruct (N.le_gt_cases r h) as [|Hgt]; [assumption|]. exfalso.
    (* h < r, both known, so h + 1 is known by contiguity *)
    assert (kn (h + 1) = true) by (unfold kn; apply (HC a lo r Hlo Hr_known); lia). congruence.
Qed.

(* ================= (A) transition-parent links ================= *)
(* the ref of the tree parent, read off the node itself *)
Definition tparent_ref (n : node) : N * N :=
  if n_parent n =? fst (n_ref n) then (fst (n_ref n), snd (n_ref n) - 1) else (n_parent n, snd (n_ref n)).

(* s0 = slot of the first node (the anchor): every later node is strictly above it, and carries the index of its tree parent,
   which was inserted before it; the first node has no transition parent *)
Record Links (s0 : N) (pa : parray) : Prop := mkLinks {
  l_first : exists n0, nth_error (pa_nodes pa) 0 = Some n0 /\ snd (n_ref n0) = s0 /\ n_tp n0 = NONE;
  l_rest : forall i n, nth_error (pa_nodes pa) i = Some n -> (0 < i)%nat ->
           s0 < snd (n_ref n) /\ idx_get (pa_idx pa) (tparent_ref n) = Some (n_tp n) /\ n_tp n < pa_off pa + N.of_nat i
}.

Lemma Links_slot_ge s0 pa i n : Links s0 pa -> nth_error (pa_nodes pa) i = Some n -> s0 <= snd (n_ref n).
Proof.
  intros [[n0 [H0 [Hs _]]] Hr] Hi. destruct i.
  - rewrite H0 in Hi. inversion Hi. subst. lia.
  - destruct (Hr (S i) n Hi ltac:(lia)) as [H _]. lia.
Qed.
Lemma Links_low_ge s0 pa r lo : Links s0 pa -> low (abs pa) r = Some lo -> s0 <= lo.
Proof.
  intros HL H. apply low_some in H. destruct H as [[m [Hin [_ Hs]]] _]. apply abs_in in Hin.
  destruct Hin as [i [n [Hi Hm]]]. subst m. cbn in Hs. subst lo. eapply Links_slot_ge; eauto.
Qed.

Lemma Links_push s0 pa m :
  Rel pa -> Links s0 pa -> idx_get (pa_idx pa) (n_ref m) = None -> created pa < two64 ->
  s0 < snd (n_ref m) -> idx_get (pa_idx pa) (tparent_ref m) = Some (n_tp m) ->
  Links s0 (push_node pa m).
Proof.
  intros HR [[n0 [H0 [Hs0 Ht0]]] Hr] Hfresh Hc Hs Htp.
  assert (Hlen : (0 < length (pa_nodes pa))%nat) by (destruct (pa_nodes pa); [discriminate|cbn; lia]).
  assert (Hadd : add64 (pa_off pa) (lenN (pa_nodes pa)) = pa_off pa + lenN (pa_nodes pa)) by (unfold add64; apply wrap64_small; exact Hc).
  constructor.
  - exists n0. unfold push_node. cbn [pa_nodes]. rewrite nth_error_app1 by exact Hlen. auto.
  - intros i n Hi Hpos. unfold push_node in *. cbn [pa_nodes pa_idx pa_off] in *. rewrite Hadd.
    destruct (Nat.lt_ge_cases i (length (pa_nodes pa))) as [Hlt|Hge].
    + rewrite nth_error_app1 in Hi by exact Hlt. destruct (Hr i n Hi Hpos) as [A [B C]].
      split; [exact A|]. split; [|exact C]. rewrite idx_get_set.
      destruct (ref_eqb (tparent_ref n) (n_ref m)) eqn:E; [|exact B].
      apply ref_eqb_eq in E. rewrite E in B. congruence.
    + rewrite nth_error_app2 in Hi by exact Hge.
      destruct (i - length (pa_nodes pa))%nat eqn:E; cbn in Hi; [|destruct n1; discriminate].
      inversion Hi. subst n. split; [exact Hs|]. split.
      * rewrite idx_get_set. destruct (ref_eqb (tparent_ref m) (n_ref m)) eqn:E2; [|exact Htp].
        apply ref_eqb_eq in E2. rewrite E2 in Htp. congruence.
      * destruct (r_idx2 pa HR _ _ Htp) as [j [x [Hj [_ Hk]]]]. rewrite Hk.
        assert (j < length (pa_nodes pa))%nat by (apply nth_error_Some; congruence). lia.
Qed.

Lemma Links_frame s0 pa pa' :
  pa_nodes pa' = pa_nodes pa -> pa_idx pa' = pa_idx pa -> pa_off pa' = pa_off pa -> Links s0 pa -> Links s0 pa'.
Proof. intros H1 H2 H3 [A B]. constructor; rewrite ?H1, ?H2, ?H3; assumption. Qed.

(* the gap-filling loop keeps the links, and hands on the index of the node just below the next slot *)
Lemma gap_links s0 parent sl je fe lo : forall fuel i pidx pa,
  Rel pa -> Links s0 pa -> low (abs pa) parent = Some lo -> lo < i -> i <= sl -> 1 <= i ->
  idx_get (pa_idx pa) (parent, i - 1) = Some pidx -> (N.to_nat (sl - i) <= fuel)%nat ->
  created (fst (gap_loop fuel parent i sl je fe pidx pa)) < two64 ->
  Links s0 (fst (gap_loop fuel parent i sl je fe pidx pa)) /\
  idx_get (pa_idx (fst (gap_loop fuel parent i sl je fe pidx pa))) (parent, sl - 1) = Some (snd (gap_loop fuel parent i sl je fe pidx pa)).
Proof.
  induction fuel; intros i pidx pa HR HL Hlo Hi Hle H1 Hp Hf; cbn [gap_loop].
  - cbn [fst snd]. intros _. replace sl with i by lia. auto.
  - destruct (i <? sl) eqn:Ei.
    2: { apply N.ltb_ge in Ei. cbn [fst snd]. intros _. replace sl with i by lia. auto. }
    apply N.ltb_lt in Ei.
    match goal with |- context [idx_get (pa_idx pa) ?key] => destruct (idx_get (pa_idx pa) key) as [k|] eqn:Ek end.
    + apply IHfuel; auto; try lia. replace (i + 1 - 1) with i by lia. exact Ek.
    + intros Hc.
      assert (Hc1 : created pa < two64).
      { pose proof (gap_created parent sl je fe fuel (i + 1) (add64 (pa_off pa) (lenN (pa_nodes pa)))
                                (push_node pa (fresh_node (parent, i) pidx parent je fe))) as Hm.
        rewrite created_push in Hm. lia. }
      set (m := fresh_node (parent, i) pidx parent je fe) in *.
      assert (HR1 : Rel (push_node pa m)) by (eapply Rel_push_slot; eauto).
      assert (HL1 : Links s0 (push_node pa m)).
      { apply Links_push; auto.
        - cbn. pose proof (Links_low_ge _ _ _ _ HL Hlo). lia.
        - unfold tparent_ref. cbn. rewrite N.eqb_refl. exact Hp. }
      assert (Hlo1 : low (abs (push_node pa m)) parent = Some lo).
      { rewrite abs_push, low_app_single. cbn. rewrite N.eqb_refl, Hlo. f_equal. lia. }
      apply IHfuel; auto; try lia.
      replace (i + 1 - 1) with i by lia. unfold push_node. cbn [pa_idx]. rewrite idx_get_set. cbn [m fresh_node n_ref].
      rewrite ref_eqb_refl. reflexivity.
Qed.

(* ProcessSlot on an unknown (parent, slot) of a known parent: the concrete result *)
Lemma ProcessSlot_unfold parent sl je fe pa lo :
  idx_get (pa_idx pa) (parent, sl) = None -> bs_get (pa_bs pa) parent = Some lo -> sl - lo <= slot_fuel_limit ->
  ProcessSlot parent sl je fe pa =
  (let '(pa1, pidx) := gap_loop (N.to_nat (sl - lo)) parent (add64 lo 1) sl je fe (idx_get0 (pa_idx pa) (parent, lo)) pa in
   (with_upd (push_node pa1 (fresh_node (parent, sl) pidx parent je fe)) false, Ok tt)).
Proof.
  intros H1 H2 H3. unfold ProcessSlot, mbind, get. rewrite H1, H2.
  replace (slot_fuel_limit <? sl - lo) with false by (symmetry; apply N.ltb_ge; exact H3).
  destruct (gap_loop _ parent (add64 lo 1) sl je fe _ pa). reflexivity.
Qed.

Lemma ProcessSlot_links s0 parent sl je fe pa :
  Rel pa -> Links s0 pa -> sl < two64 ->
  (known (abs pa) (parent, sl) = true \/
   exists lo, low (abs pa) parent = Some lo /\ lo < sl /\ sl - lo <= slot_fuel_limit) ->
  created (fst (ProcessSlot parent sl je fe pa)) < two64 ->
  Links s0 (fst (ProcessSlot parent sl je fe pa)).
Proof.
  intros HR HL Hsl Hdom.
  destruct (idx_get (pa_idx pa) (parent, sl)) as [k|] eqn:Ek.
  { unfold ProcessSlot, mbind, get. rewrite Ek. cbn. auto. }
  assert (Hk : known (abs pa) (parent, sl) = false) by (apply Rel_known_false; auto).
  destruct Hdom as [Hd|[lo [Hlo [Hlt Hgap]]]]; [congruence|].
  rewrite (ProcessSlot_unfold parent sl je fe pa lo Ek ltac:(rewrite (r_bs pa HR); exact Hlo) Hgap).
  assert (Hadd : add64 lo 1 = lo + 1) by (unfold add64; apply wrap64_small; lia). rewrite Hadd.
  destruct (Rel_low_known pa parent lo HR Hlo) as [k0 Hk0].
  assert (H0 : idx_get0 (pa_idx pa) (parent, lo) = k0) by (unfold idx_get0; rewrite Hk0; reflexivity). rewrite H0.
  pose proof (gap_links s0 parent sl je fe lo (N.to_nat (sl - lo)) (lo + 1) k0 pa HR HL Hlo ltac:(lia) ltac:(lia) ltac:(lia)
                        ltac:(replace (lo + 1 - 1) with lo by lia; exact Hk0) ltac:(lia)) as HG.
  pose proof (gap_sim parent sl je fe lo (N.to_nat (sl - lo)) (lo + 1) k0 pa HR Hlo ltac:(lia)) as HS.
  destruct (gap_loop (N.to_nat (sl - lo)) parent (lo + 1) sl je fe k0 pa) as [pa1 pidx] eqn:Eg. cbn [fst snd] in *.
  intros Hc.
  assert (Hc' : created (push_node pa1 (fresh_node (parent, sl) pidx parent je fe)) < two64) by exact Hc.
  rewrite created_push in Hc'.
  destruct (HG ltac:(lia)) as [HL1 Hp1]. destruct (HS ltac:(lia)) as [HR1 [Habs [Hbs _]]].
  assert (Hfresh : idx_get (pa_idx pa1) (parent, sl) = None).
  { apply Rel_known_false; auto. rewrite Habs.
    destruct (known (add_slots _ (abs pa) parent (lo + 1) (sl - 1) je fe) (parent, sl)) eqn:E; [|reflexivity].
    apply known_add_slots in E. destruct E as [E|[_ E]]; [congruence|cbn in E; lia]. }
  eapply Links_frame; [| | |apply (Links_push s0 pa1 (fresh_node (parent, sl) pidx parent je fe) HR1 HL1 Hfresh ltac:(lia))]; try reflexivity.
  - cbn. pose proof (Links_low_ge _ _ _ _ HL Hlo). lia.
  - unfold tparent_ref. cbn. rewrite N.eqb_refl. exact Hp1.
Qed.

Lemma ProcessBlock_links s0 parent r sl je fe pa :
  Rel pa -> Links s0 pa -> sl < two64 ->
  (forall lo, low (abs pa) parent = Some lo -> sl - lo <= slot_fuel_limit) ->
  created (fst (ProcessBlock parent r sl je fe pa)) < two64 ->
  Links s0 (fst (ProcessBlock parent r sl je fe pa)).
Proof.
  intros HR HL Hsl Hgap. rewrite ProcessBlock_unfold.
  destruct (idx_get (pa_idx pa) (r, sl)) as [k|] eqn:Ek; [cbn; auto|].
  destruct (bs_get (pa_bs pa) r) eqn:Er; [cbn; auto|].
  destruct (bs_get (pa_bs pa) parent) as [lo|] eqn:Ep; [|cbn; auto].
  destruct (sl <=? lo) eqn:Ele; [cbn; auto|]. apply N.leb_gt in Ele.
  assert (Hlo : low (abs pa) parent = Some lo) by (rewrite <- (r_bs pa HR); exact Ep).
  assert (Hlr : low (abs pa) r = None) by (rewrite <- (r_bs pa HR); exact Er).
  assert (Hdom : known (abs pa) (parent, sl) = true \/
                 exists lo0, low (abs pa) parent = Some lo0 /\ lo0 < sl /\ sl - lo0 <= slot_fuel_limit).
  { right. exists lo. auto. }
  pose proof (ProcessSlot_sim parent sl je fe pa HR Hsl Hdom) as Hps.
  pose proof (ProcessSlot_links s0 parent sl je fe pa HR HL Hsl Hdom) as Hpl.
  destruct (ProcessSlot parent sl je fe pa) as [pa1 o1] eqn:Eps. cbn [fst snd] in Hps, Hpl.
  destruct o1; cbn [fst]; auto.
  destruct (idx_get (pa_idx pa1) (parent, lo)) as [fcp|] eqn:Efc; [|cbn; auto].
  destruct (idx_get (pa_idx pa1) (parent, sl)) as [tp|] eqn:Etp; [|cbn; auto].
  cbn [fst]. unfold block_final. set (blk := mkNode (r, sl) tp fcp parent je fe 0%Z NONE NONE).
  intros Hc. assert (Hc' : created (push_node pa1 blk) < two64) by exact Hc. rewrite created_push in Hc'.
  destruct (Hps ltac:(lia)) as [_ [HR1 [Habs [Hbs _]]]]. specialize (Hpl ltac:(lia)).
  assert (Hnp : r <> parent) by (intros ->; congruence).
  assert (Hfresh : idx_get (pa_idx pa1) (r, sl) = None).
  { apply Rel_known_false; auto. rewrite Habs.
    destruct (known (spec_process_slot (abs pa) parent sl je fe) (r, sl)) eqn:E; [|reflexivity].
    apply known_spec_process_slot in E. destruct E as [E|E]; [|cbn in E; congruence].
    assert (known (abs pa) (r, sl) = false) by (apply Rel_known_false; auto). congruence. }
  eapply Links_frame; [| | |apply (Links_push s0 pa1 blk HR1 Hpl Hfresh ltac:(lia))]; try reflexivity.
  - cbn. pose proof (Links_low_ge _ _ _ _ HL Hlo). lia.
  - unfold tparent_ref. cbn. replace (parent =? r) with false by (symmetry; apply N.eqb_neq; congruence). exact Etp.
Qed.

Lemma impl_iop_links s0 o pa :
  Rel pa -> Links s0 pa -> iop_dom (abs pa) o -> created (fst (impl_iop o pa)) < two64 -> Links s0 (fst (impl_iop o pa)).
Proof.
  intros HR HL Hdom. destruct o; cbn [impl_iop iop_dom] in *; unfold mbind; destruct Hdom as [Hs Hd].
  - pose proof (ProcessSlot_links s0 p s je fe pa HR HL Hs Hd) as H.
    destruct (ProcessSlot p s je fe pa) as [pa1 o1]. destruct o1; exact H.
  - pose proof (ProcessBlock_links s0 p r s je fe pa HR HL Hs Hd) as H.
    destruct (ProcessBlock p r s je fe pa) as [pa1 o1]. destruct o1; exact H.
Qed.

Theorem insert_links s0 : forall ops pa,
  Rel pa -> Links s0 pa -> iops_dom ops (abs pa) -> created (fst (impl_iops ops pa)) < two64 ->
  Links s0 (fst (impl_iops ops pa)).
Proof.
  induction ops as [|o ops IH]; intros pa HR HL Hdom Hc; cbn [impl_iops iops_dom] in *; [exact HL|].
  destruct Hdom as [Hd1 Hd2].
  pose proof (impl_iop_sim o pa HR Hd1) as Hs. pose proof (impl_iop_links s0 o pa HR HL Hd1) as Hl.
  pose proof (impl_iops_created ops (fst (impl_iop o pa))) as Hm.
  destruct (impl_iop o pa) as [pa1 r1]. cbn [fst snd] in *.
  destruct (impl_iops ops pa1) as [pa2 rs] eqn:Ei. cbn [fst] in *.
  destruct (Hs ltac:(lia)) as [_ [HR1 [Habs _]]]. specialize (Hl ltac:(lia)).
  rewrite <- Habs in Hd2. specialize (IH pa1 HR1 Hl Hd2). rewrite Ei in IH. exact (IH Hc).
Qed.

Lemma Links_new_array parent r s je fe sn : Links s (new_array parent r s je fe sn).
Proof.
  constructor; cbn.
  - eexists. split; [reflexivity|]. auto.
  - intros i n Hi Hpos. destruct i; [lia|]. destruct i; discriminate.
Qed.

(* ================= the head computation only touches weights and best links ================= *)
Definition strip (n : node) := (n_ref n, n_tp n, n_fp n, n_parent n, n_je n, n_fe n).
Definition same_tree (pa pa' : parray) : Prop :=
  pa_idx pa' = pa_idx pa /\ pa_bs pa' = pa_bs pa /\ pa_off pa' = pa_off pa /\ map strip (pa_nodes pa') = map strip (pa_nodes pa).
Lemma same_tree_refl pa : same_tree pa pa. Proof. repeat split. Qed.
Lemma same_tree_trans a b c : same_tree a b -> same_tree b c -> same_tree a c.
Proof. unfold same_tree. intuition congruence. Qed.

Lemma strip_nth l l' i (n : node) : map strip l' = map strip l -> nth_error l i = Some n ->
  exists n', nth_error l' i = Some n' /\ strip n' = strip n.
Proof.
  intros H Hi. assert (E : nth_error (map strip l') i = nth_error (map strip l) i) by (rewrite H; reflexivity).
  rewrite !nth_error_map, Hi in E. destruct (nth_error l' i) as [n'|]; [|discriminate]. cbn [option_map] in E.
  exists n'. split; [reflexivity|congruence].
Qed.
Lemma strip_fields n n' : strip n' = strip n ->
  n_ref n' = n_ref n /\ n_tp n' = n_tp n /\ n_parent n' = n_parent n /\ abs_node n' = abs_node n /\ tparent_ref n' = tparent_ref n.
Proof. unfold strip, abs_node, tparent_ref. intros H. inversion H. repeat split; congruence. Qed.

Lemma strip_set_best n a b : strip (set_best n a b) = strip n. Proof. reflexivity. Qed.
Local Opaque strip.

Lemma same_tree_abs pa pa' : same_tree pa pa' -> abs pa' = abs pa.
Proof.
  intros [_ [_ [_ H]]]. unfold abs. revert H. generalize (pa_nodes pa) as l. generalize (pa_nodes pa') as l'.
  induction l' as [|a l' IH]; intros l H; destruct l as [|b l]; cbn [map] in *; try discriminate; [reflexivity|].
  assert (H1 : strip a = strip b) by congruence. assert (H2 : map strip l' = map strip l) by congruence.
  f_equal; [apply strip_fields; exact H1|apply IH; exact H2].
Qed.
Lemma same_tree_sym_nth pa pa' i n' : same_tree pa pa' -> nth_error (pa_nodes pa') i = Some n' ->
  exists n, nth_error (pa_nodes pa) i = Some n /\ strip n' = strip n.
Proof. intros [_ [_ [_ H]]] Hi. destruct (strip_nth (pa_nodes pa') (pa_nodes pa) i n' (eq_sym H) Hi) as [n [A B]]. eauto. Qed.

Lemma Rel_same_tree pa pa' : same_tree pa pa' -> Rel pa -> Rel pa'.
Proof.
  intros HS HR. pose proof (same_tree_abs _ _ HS) as Ha. destruct HS as [Hi [Hb [Ho Hn]]].
  constructor.
  - intros i n' Hn'. destruct (same_tree_sym_nth pa pa' i n' (conj Hi (conj Hb (conj Ho Hn))) Hn') as [n [A B]].
    apply strip_fields in B. destruct B as [B _]. rewrite Hi, Ho, B. eapply r_idx1; eauto.
  - intros r k Hk. rewrite Hi in Hk. destruct (r_idx2 pa HR r k Hk) as [i [n [A [B C]]]].
    destruct (strip_nth _ _ i n Hn A) as [n' [A' B']]. apply strip_fields in B'. destruct B' as [B' _].
    exists i, n'. rewrite Ho. split; [exact A'|]. split; congruence.
  - intros r. rewrite Hb, Ha. apply (r_bs pa HR).
Qed.
Lemma Links_same_tree s0 pa pa' : same_tree pa pa' -> Links s0 pa -> Links s0 pa'.
Proof.
  intros HS [[n0 [H0 [Hs Ht]]] Hr]. pose proof HS as [Hi [Hb [Ho Hn]]]. constructor.
  - destruct (strip_nth _ _ 0%nat n0 Hn H0) as [n' [A B]]. apply strip_fields in B. destruct B as [B1 [B2 _]].
    exists n'. split; [exact A|]. split; congruence.
  - intros i n' Hn' Hpos. destruct (same_tree_sym_nth pa pa' i n' HS Hn') as [n [A B]].
    apply strip_fields in B. destruct B as [B1 [B2 [_ [_ B5]]]]. destruct (Hr i n A Hpos) as [X [Y Z]].
    rewrite Hi, Ho, B1, B2, B5. auto.
Qed.

Lemma getNode_nth fx pa ix n : getNode fx pa ix = Ok n -> nthN (pa_nodes pa) (ix - pa_off pa) = Some n.
Proof.
  unfold getNode. destruct (ix <? pa_off pa); [discriminate|]. destruct (if f_getnode fx then _ else _); [discriminate|].
  destruct (nthN (pa_nodes pa) (ix - pa_off pa)); [|discriminate]. intros H. inversion H. reflexivity.
Qed.
Lemma strip_updN l k (x y : node) : nthN l k = Some y -> strip x = strip y -> map strip (updN l k x) = map strip l.
Proof.
  unfold updN, nthN. destruct (k <? lenN l); [|discriminate]. generalize (N.to_nat k) as i. clear k.
  induction l as [|a l IH]; intros i Hi Hs; [destruct i; discriminate|].
  destruct i; cbn in *; [inversion Hi; subst; rewrite Hs; reflexivity|]. f_equal. apply IH; assumption.
Qed.

Lemma maybeUpdate_same_tree fx p c pa : same_tree pa (fst (maybeUpdate fx p c pa)).
Proof.
  unfold maybeUpdate, mbind, get, lift_o, ret, put.
  destruct (getNode fx pa c) as [child| | | |]; try apply same_tree_refl.
  destruct (getNode fx pa p) as [parent| | | |] eqn:Ep; try apply same_tree_refl.
  destruct (nodeLeadsToViableHead fx pa child) as [cl| | | |]; try apply same_tree_refl.
  assert (Hput : forall a b, same_tree pa (with_nodes pa (updN (pa_nodes pa) (p - pa_off pa) (set_best parent a b)))).
  { intros a b. unfold same_tree, with_nodes. cbn. repeat split. eapply strip_updN; [eapply getNode_nth; eauto|apply strip_set_best]. }
  repeat match goal with
         | |- same_tree pa (fst (let (_, _) := (if ?b then _ else _) _ in _)) => destruct b
         | |- same_tree pa (fst (let (_, _) := match ?x with _ => _ end in _)) => destruct x
         | |- same_tree pa (fst (match ?x with _ => _ end)) => destruct x
         | |- same_tree pa (fst (match ?x with _ => _ end _)) => destruct x
         end; cbn [fst]; try apply same_tree_refl; try apply Hput.
Qed.

Lemma connections_loop_same_tree fx : forall k pa, same_tree pa (fst (connections_loop fx k pa)).
Proof.
  induction k; intros pa; cbn [connections_loop]; [apply same_tree_refl|].
  unfold mbind at 1. unfold get at 1. unfold mbind at 1. unfold lift_o at 1.
  destruct (rawNode pa (N.of_nat k)) as [node| | | |]; try apply same_tree_refl.
  unfold mbind at 1.
  destruct (negb (n_fp node =? NONE) && _).
  - pose proof (maybeUpdate_same_tree fx (n_fp node) (add64 (pa_off pa) (N.of_nat k)) pa) as H.
    destruct (maybeUpdate fx (n_fp node) (add64 (pa_off pa) (N.of_nat k)) pa) as [pa1 o]. cbn [fst] in H.
    destruct o; try exact H. eapply same_tree_trans; [exact H|apply IHk].
  - cbn [ret]. apply IHk.
Qed.

Lemma ensureConnections_same_tree fx pa : same_tree pa (fst (ensureConnections fx pa)).
Proof.
  unfold ensureConnections, mbind, get. destruct (pa_upd pa); [apply same_tree_refl|].
  unfold updateConnections, mbind, get, put.
  pose proof (connections_loop_same_tree fx (length (pa_nodes pa)) pa) as H.
  destruct (connections_loop fx (length (pa_nodes pa)) pa) as [pa1 o]. cbn [fst] in H.
  destruct o; cbn [fst]; exact H.
Qed.

Lemma FindHead_same_tree fx r s pa : same_tree pa (fst (FindHead fx r s pa)).
Proof.
  unfold FindHead. unfold mbind at 1.
  pose proof (ensureConnections_same_tree fx pa) as H.
  destruct (ensureConnections fx pa) as [pa1 o]. cbn [fst] in H. destruct o; try exact H.
  unfold mbind, get, lift_o, ret, fail.
  destruct (idx_get (pa_idx pa1) (r, s)); [|exact H].
  destruct (getNode fx pa1 n) as [an| | | |]; try exact H.
  match goal with |- context [if ?c then gap_best ?a ?b ?c1 ?d ?e ?f ?g ?h ?i ?j else ?k] =>
    destruct (if c then gap_best a b c1 d e f g h i j else k) as [bi| | | |] end; try exact H.
  destruct (getNode fx pa1 bi) as [bn| | | |]; try exact H.
  destruct (viable pa1 bn); exact H.
Qed.
(* the head FindHead answers is a node of the array *)
Lemma FindHead_known fx r s pa pa1 h : FindHead fx r s pa = (pa1, Ok h) ->
  exists ix n, getNode fx pa1 ix = Ok n /\ n_ref n = h.
Proof.
  unfold FindHead. unfold mbind at 1. destruct (ensureConnections fx pa) as [pa0 o]. destruct o; try discriminate.
  unfold mbind, get, lift_o, ret, fail.
  destruct (idx_get (pa_idx pa0) (r, s)); [|discriminate].
  destruct (getNode fx pa0 n) as [an| | | |]; try discriminate.
  match goal with |- context [if ?c then gap_best ?a ?b ?c1 ?d ?e ?f ?g ?h ?i ?j else ?k] =>
    destruct (if c then gap_best a b c1 d e f g h i j else k) as [bi| | | |] end; try discriminate.
  destruct (getNode fx pa0 bi) as [bn| | | |] eqn:E; try discriminate.
  destruct (viable pa0 bn); [|discriminate]. intros H. inversion H. subst. eauto.
Qed.

(* ================= (C) the walks ================= *)
Lemma find_map_unique {A B} (f : B -> bool) (g : A -> B) : forall (l : list A) j n,
  nth_error l j = Some n -> f (g n) = true ->
  (forall j' n', nth_error l j' = Some n' -> f (g n') = true -> j' = j) ->
  find f (map g l) = Some (g n).
Proof.
  induction l as [|a l IH]; intros j n Hj Hf Hu; [destruct j; discriminate|]. cbn [map find].
  destruct (f (g a)) eqn:E.
  - assert (0%nat = j) by (apply (Hu 0%nat a); auto). subst j. cbn in Hj. inversion Hj. reflexivity.
  - destruct j; [cbn in Hj; inversion Hj; subst; congruence|]. cbn in Hj.
    apply (IH j n Hj Hf). intros j' n' Hj' Hf'. specialize (Hu (S j') n' Hj' Hf'). lia.
Qed.

Lemma Rel_find pa r k : Rel pa -> idx_get (pa_idx pa) r = Some k ->
  exists j n, k = pa_off pa + N.of_nat j /\ nth_error (pa_nodes pa) j = Some n /\ n_ref n = r /\
              find_node (abs pa) r = Some (abs_node n).
Proof.
  intros HR Hk. destruct (r_idx2 pa HR r k Hk) as [j [n [Hj [Hr Hkk]]]]. exists j, n. repeat split; auto.
  unfold find_node, abs. apply (find_map_unique (fun m => ref_eqb (s_ref m) r) abs_node (pa_nodes pa) j n Hj).
  - cbn. rewrite Hr. apply ref_eqb_refl.
  - intros j' n' Hj' Hf. cbn in Hf. apply ref_eqb_eq in Hf. pose proof (r_idx1 pa HR j' n' Hj') as E. rewrite Hf, Hk in E.
    inversion E. lia.
Qed.

Lemma getNode_at pa i n : nth_error (pa_nodes pa) i = Some n -> getNode fixed pa (pa_off pa + N.of_nat i) = Ok n.
Proof.
  intros Hi. unfold getNode. cbn [f_getnode fixed].
  replace (pa_off pa + N.of_nat i <? pa_off pa) with false by (symmetry; apply N.ltb_ge; lia).
  replace (pa_off pa + N.of_nat i - pa_off pa) with (N.of_nat i) by lia.
  pose proof (lenN_lt_nth _ _ _ Hi) as Hl.
  replace (lenN (pa_nodes pa) <=? N.of_nat i) with false by (symmetry; apply N.leb_gt; exact Hl).
  unfold nthN. replace (N.of_nat i <? lenN (pa_nodes pa)) with true by (symmetry; apply N.ltb_lt; exact Hl).
  rewrite Nat2N.id, Hi. reflexivity.
Qed.

Lemma trans_parent_ref t n :
  trans_parent t (abs_node n) =
  if (n_parent n =? fst (n_ref n)) && (snd (n_ref n) =? 0) then None else find_node t (tparent_ref n).
Proof.
  unfold trans_parent, is_block, tparent_ref. cbn [abs_node s_parent s_ref].
  destruct (n_parent n =? fst (n_ref n)); cbn [negb andb]; [destruct (snd (n_ref n) =? 0); reflexivity|reflexivity].
Qed.

Lemma tp_rest s0 pa i n : Rel pa -> Links s0 pa -> nth_error (pa_nodes pa) i = Some n -> (0 < i)%nat ->
  exists j p, n_tp n = pa_off pa + N.of_nat j /\ (j < i)%nat /\ nth_error (pa_nodes pa) j = Some p /\
              trans_parent (abs pa) (abs_node n) = Some (abs_node p).
Proof.
  intros HR HL Hi Hpos. destruct (l_rest s0 pa HL i n Hi Hpos) as [Hs [Hk Hlt]].
  destruct (Rel_find pa _ _ HR Hk) as [j [p [Hj [Hp [_ Hf]]]]]. exists j, p. repeat split; auto; [lia|].
  rewrite trans_parent_ref. replace (snd (n_ref n) =? 0) with false by (symmetry; apply N.eqb_neq; lia).
  rewrite andb_false_r. exact Hf.
Qed.

Lemma tp_first s0 pa n0 : Rel pa -> Links s0 pa -> nth_error (pa_nodes pa) 0 = Some n0 ->
  n_tp n0 = NONE /\ trans_parent (abs pa) (abs_node n0) = None.
Proof.
  intros HR HL H0. destruct (l_first s0 pa HL) as [n0' [H0' [Hs Ht]]]. rewrite H0 in H0'. inversion H0'. subst n0'.
  split; [exact Ht|]. rewrite trans_parent_ref.
  destruct ((n_parent n0 =? fst (n_ref n0)) && (snd (n_ref n0) =? 0)) eqn:E; [reflexivity|].
  destruct (find_node (abs pa) (tparent_ref n0)) as [m|] eqn:Ef; [exfalso|reflexivity].
  apply find_node_some in Ef. destruct Ef as [Hin Hr]. apply abs_in in Hin. destruct Hin as [j [x [Hj Hx]]]. subst m. cbn in Hr.
  pose proof (Links_slot_ge s0 pa j x HL Hj) as Hge.
  unfold tparent_ref in Hr. destruct (n_parent n0 =? fst (n_ref n0)) eqn:Ep.
  - cbn [andb] in E. apply N.eqb_neq in E. rewrite Hr in Hge. cbn in Hge. lia.
  - (* a node (parent root, s0): only the first node sits at s0, and its root is not its parent root *)
    destruct j.
    + rewrite H0 in Hj. inversion Hj. subst x. rewrite Hr in Ep. cbn in Ep. rewrite N.eqb_refl in Ep. discriminate.
    + destruct (l_rest s0 pa HL (S j) x Hj ltac:(lia)) as [Hgt _]. rewrite Hr in Hgt. cbn in Hgt. lia.
Qed.

Definition chain_of (t : tree) (fs : nat) (m : snode) : list (N * N * N) :=
  map (fun x => (s_ref x, s_parent x)) (m :: ancestors_from (trans_parent t) fs m).

(* the chain walk of CanonicalChain from the node at position i = the Spec's walk along transition parents *)
Lemma chain_walk s0 pa : Rel pa -> Links s0 pa -> created pa < two64 ->
  forall i n, nth_error (pa_nodes pa) i = Some n ->
  forall fa fs acc, (i + 2 <= fa)%nat -> (i <= fs)%nat ->
  chain_loop fixed fa pa (pa_off pa + N.of_nat i) acc = Ok (rev acc ++ chain_of (abs pa) fs (abs_node n)).
Proof.
  intros HR HL Hc. induction i as [i IH] using lt_wf_ind. intros n Hi fa fs acc Hfa Hfs.
  destruct fa as [|fa]; [lia|]. cbn [chain_loop].
  pose proof (lenN_lt_nth _ _ _ Hi) as Hl. unfold created in Hc.
  replace (pa_off pa + N.of_nat i =? NONE) with false by (symmetry; apply N.eqb_neq; unfold NONE, max64, two64 in *; lia).
  replace (pa_off pa <=? pa_off pa + N.of_nat i) with true by (symmetry; apply N.leb_le; lia).
  cbn [negb andb]. rewrite (getNode_at pa i n Hi). cbn [bind].
  destruct i as [|i'].
  - destruct (tp_first s0 pa n HR HL Hi) as [Ht Hp]. rewrite Ht.
    destruct fa as [|fa]; [lia|]. cbn [chain_loop]. rewrite N.eqb_refl. cbn [negb andb rev].
    unfold chain_of. destruct fs; cbn [ancestors_from]; [|rewrite Hp]; cbn [map abs_node s_ref s_parent]; reflexivity.
  - destruct (tp_rest s0 pa (S i') n HR HL Hi ltac:(lia)) as [j [p [Ht [Hj [Hpj Hp]]]]]. rewrite Ht.
    destruct fs as [|fs]; [lia|].
    rewrite (IH j ltac:(lia) p Hpj fa fs _ ltac:(lia) ltac:(lia)).
    unfold chain_of. cbn [ancestors_from]. rewrite Hp. cbn [rev map abs_node s_ref s_parent]. rewrite <- app_assoc. reflexivity.
Qed.

(* C11 CanonicalChain: whatever head the array's FindHead answers, the chain returned is the Spec's chain from that node
   down to the root of the tree *)
Theorem CanonicalChain_walk_refines s0 pa r s pa1 out :
  Rel pa -> Links s0 pa -> created pa < two64 ->
  CanonicalChain fixed r s pa = (pa1, Ok out) ->
  exists h hn, fst (FindHead fixed r s pa) = pa1 /\ snd (FindHead fixed r s pa) = Ok h /\
               find_node (abs pa) h = Some hn /\ out = spec_chain_from (abs pa) hn /\
               Rel pa1 /\ Links s0 pa1 /\ abs pa1 = abs pa.
Proof.
  intros HR HL Hc. unfold CanonicalChain. unfold mbind at 1.
  pose proof (FindHead_same_tree fixed r s pa) as HS. pose proof (FindHead_known fixed r s pa) as HK.
  destruct (FindHead fixed r s pa) as [pa0 o]. cbn [fst snd] in *. destruct o as [h| | | |]; try discriminate.
  unfold mbind, get, lift_o.
  pose proof (Rel_same_tree _ _ HS HR) as HR0. pose proof (Links_same_tree _ _ _ HS HL) as HL0.
  pose proof (same_tree_abs _ _ HS) as Ha.
  destruct (HK pa0 h eq_refl) as [ix [n [Hg Hn]]].
  pose proof (getNode_nth _ _ _ _ Hg) as Hnth. unfold nthN in Hnth.
  destruct (ix - pa_off pa0 <? lenN (pa_nodes pa0)) eqn:El; [|discriminate].
  set (i := N.to_nat (ix - pa_off pa0)) in *.
  pose proof (r_idx1 pa0 HR0 i n Hnth) as Hidx. rewrite Hn in Hidx.
  destruct (Rel_find pa0 h _ HR0 Hidx) as [j [n' [Hj [Hnj [_ Hf]]]]].
  assert (j = i) by lia. subst j. rewrite Hnth in Hnj. inversion Hnj. subst n'.
  assert (Hc0 : created pa0 < two64).
  { unfold created in *. destruct HS as [_ [_ [Ho Hm]]]. rewrite Ho. unfold lenN.
    replace (length (pa_nodes pa0)) with (length (pa_nodes pa)); [exact Hc|].
    rewrite <- (map_length strip (pa_nodes pa)), <- Hm, map_length. reflexivity. }
  unfold idx_get0. rewrite Hidx.
  rewrite (chain_walk s0 pa0 HR0 HL0 Hc0 i n Hnth (S (S (length (pa_nodes pa0)))) (tree_fuel (abs pa0)) []).
  - intros H. assert (E1 : pa0 = pa1) by congruence.
    assert (E2 : out = chain_of (abs pa0) (tree_fuel (abs pa0)) (abs_node n)) by (cbn [rev app] in H; congruence).
    subst pa1 out. exists h, (abs_node n). rewrite <- Ha.
    split; [reflexivity|]. split; [reflexivity|]. split; [exact Hf|]. split; [reflexivity|]. split; [exact HR0|]. split; [exact HL0|reflexivity].
  - assert (i < length (pa_nodes pa0))%nat by (apply nth_error_Some; congruence). lia.
  - assert (i < length (pa_nodes pa0))%nat by (apply nth_error_Some; congruence).
    unfold tree_fuel, abs. rewrite map_length. lia.
Qed.

(* the Spec's slot walk over a chain (= spec_canon_walk's body) *)
Definition walk_list (wb : bool) (sl : N) (chain : list snode) : outcome (N * N) :=
  if wb then
    match find (fun n => snd (s_ref n) <=? sl) chain with
    | Some n => if snd (s_ref n) =? sl then (if is_block n then Ok (s_ref n) else Ok zero_ref) else Err
    | None => Err
    end
  else
    match find (fun n => negb (is_block n) && (snd (s_ref n) <=? sl)) chain with
    | Some n => if snd (s_ref n) =? sl then Ok (s_ref n) else Err
    | None => Err
    end.

Lemma canon_walk s0 pa sl wb : Rel pa -> Links s0 pa -> created pa < two64 ->
  forall i n, nth_error (pa_nodes pa) i = Some n ->
  forall fa fs, (i + 2 <= fa)%nat -> (i <= fs)%nat ->
  canon_at_loop fixed fa pa (pa_off pa + N.of_nat i) sl wb =
  walk_list wb sl (abs_node n :: ancestors_from (trans_parent (abs pa)) fs (abs_node n)).
Proof.
  intros HR HL Hc. induction i as [i IH] using lt_wf_ind. intros n Hi fa fs Hfa Hfs.
  destruct fa as [|fa]; [lia|]. cbn [canon_at_loop].
  pose proof (lenN_lt_nth _ _ _ Hi) as Hl. unfold created in Hc.
  replace (pa_off pa + N.of_nat i =? NONE) with false by (symmetry; apply N.eqb_neq; unfold NONE, max64, two64 in *; lia).
  replace (pa_off pa <=? pa_off pa + N.of_nat i) with true by (symmetry; apply N.leb_le; lia).
  cbn [negb andb]. rewrite (getNode_at pa i n Hi). cbn [bind].
  assert (Hblk : is_block (abs_node n) = negb (n_parent n =? fst (n_ref n))) by reflexivity.
  (* the continuation: the walk over the ancestors *)
  assert (Hrec : canon_at_loop fixed fa pa (n_tp n) sl wb =
                 walk_list wb sl (ancestors_from (trans_parent (abs pa)) fs (abs_node n))).
  { destruct i as [|i'].
    - destruct (tp_first s0 pa n HR HL Hi) as [Ht Hp]. rewrite Ht.
      destruct fa as [|fa]; [lia|]. cbn [canon_at_loop]. rewrite N.eqb_refl. cbn [negb andb].
      destruct fs; cbn [ancestors_from]; [|rewrite Hp]; unfold walk_list; destruct wb; reflexivity.
    - destruct (tp_rest s0 pa (S i') n HR HL Hi ltac:(lia)) as [j [p [Ht [Hj [Hpj Hp]]]]]. rewrite Ht.
      destruct fs as [|fs]; [lia|]. cbn [ancestors_from]. rewrite Hp.
      apply (IH j ltac:(lia) p Hpj fa fs); lia. }
  unfold walk_list at 1. destruct wb; cbn [negb andb find].
  - cbn [abs_node s_ref].
    destruct (N.eqb_spec (snd (n_ref n)) sl) as [E|E].
    + subst sl. rewrite N.leb_refl. cbn [s_ref abs_node]. rewrite N.eqb_refl. change (mkSN (n_ref n) (n_parent n) (n_je n) (n_fe n)) with (abs_node n). rewrite Hblk. rewrite (N.eqb_sym (fst (n_ref n)) (n_parent n)).
      destruct (n_parent n =? fst (n_ref n)); reflexivity.
    + destruct (N.ltb_spec (snd (n_ref n)) sl).
      * replace (snd (n_ref n) <=? sl) with true by (symmetry; apply N.leb_le; lia).
        cbn [s_ref abs_node]. replace (snd (n_ref n) =? sl) with false by (symmetry; apply N.eqb_neq; exact E). reflexivity.
      * replace (snd (n_ref n) <=? sl) with false by (symmetry; apply N.leb_gt; lia).
        rewrite Hrec. reflexivity.
  - rewrite Hblk. cbn [abs_node s_ref]. destruct (n_parent n =? fst (n_ref n)) eqn:Ep; cbn [negb andb].
    + destruct (N.eqb_spec (snd (n_ref n)) sl) as [E|E].
      * subst sl. rewrite N.leb_refl. cbn [s_ref abs_node]. rewrite N.eqb_refl. reflexivity.
      * destruct (N.ltb_spec (snd (n_ref n)) sl).
        -- replace (snd (n_ref n) <=? sl) with true by (symmetry; apply N.leb_le; lia).
           cbn [s_ref abs_node]. replace (snd (n_ref n) =? sl) with false by (symmetry; apply N.eqb_neq; exact E). reflexivity.
        -- replace (snd (n_ref n) <=? sl) with false by (symmetry; apply N.leb_gt; lia).
           rewrite Hrec. reflexivity.
    + rewrite Hrec. reflexivity.
Qed.

(* C11 CanonAtSlot, the walking case (requested slot above the anchor root's lowest slot and below the head the array's FindHead
   answers): the result is the Spec's walk from that head *)
Theorem CanonAtSlot_walk_refines s0 pa a lo sl wb pa1 h :
  Rel pa -> Links s0 pa -> created pa < two64 ->
  low (abs pa) a = Some lo -> lo < sl ->
  FindHead fixed a lo pa = (pa1, Ok h) -> sl < snd h ->
  exists hn, find_node (abs pa) h = Some hn /\
             CanonAtSlot fixed a sl wb pa = (pa1, spec_canon_walk (abs pa) hn sl wb).
Proof.
  intros HR HL Hc Hlo Hlt HF Hh.
  pose proof (FindHead_same_tree fixed a lo pa) as HS. rewrite HF in HS. cbn [fst] in HS.
  pose proof (Rel_same_tree _ _ HS HR) as HR1. pose proof (Links_same_tree _ _ _ HS HL) as HL1.
  pose proof (same_tree_abs _ _ HS) as Ha.
  destruct (FindHead_known fixed a lo pa pa1 h HF) as [ix [n [Hg Hn]]].
  pose proof (getNode_nth _ _ _ _ Hg) as Hnth. unfold nthN in Hnth.
  destruct (ix - pa_off pa1 <? lenN (pa_nodes pa1)) eqn:El; [|discriminate].
  set (i := N.to_nat (ix - pa_off pa1)) in *.
  pose proof (r_idx1 pa1 HR1 i n Hnth) as Hidx. rewrite Hn in Hidx.
  destruct (Rel_find pa1 h _ HR1 Hidx) as [j [n' [Hj [Hnj [_ Hf]]]]].
  assert (j = i) by lia. subst j. rewrite Hnth in Hnj. inversion Hnj. subst n'.
  assert (Hc1 : created pa1 < two64).
  { unfold created in *. destruct HS as [_ [_ [Ho Hm]]]. rewrite Ho. unfold lenN.
    replace (length (pa_nodes pa1)) with (length (pa_nodes pa)); [exact Hc|].
    rewrite <- (map_length strip (pa_nodes pa)), <- Hm, map_length. reflexivity. }
  exists (abs_node n). rewrite <- Ha. split; [exact Hf|].
  unfold CanonAtSlot. unfold mbind at 1. unfold get at 1. rewrite (r_bs pa HR a), Hlo.
  replace (sl <? lo) with false by (symmetry; apply N.ltb_ge; lia).
  replace (lo =? sl) with false by (symmetry; apply N.eqb_neq; lia).
  unfold mbind at 1. rewrite HF.
  replace (snd h <=? sl) with false by (symmetry; apply N.leb_gt; exact Hh).
  unfold mbind, get, lift_o. unfold idx_get0. rewrite Hidx. f_equal.
  assert (Hi : (i < length (pa_nodes pa1))%nat) by (apply nth_error_Some; congruence).
  rewrite (canon_walk s0 pa1 sl wb HR1 HL1 Hc1 i n Hnth (S (S (length (pa_nodes pa1)))) (tree_fuel (abs pa1))); [reflexivity|lia|].
  unfold tree_fuel, abs. rewrite map_length. lia.
Qed.

(* ================= all insertion histories from a fresh array ================= *)
Theorem insert_history_invariants : forall parent r s je fe sn ops,
  let pa0 := new_array parent r s je fe sn in
  iops_dom ops (abs pa0) -> created (fst (impl_iops ops pa0)) < two64 ->
  let pa := fst (impl_iops ops pa0) in
  Rel pa /\ Links s pa /\ Contig (abs pa) /\ abs pa = fst (spec_iops ops (abs pa0)) /\
  snd (impl_iops ops pa0) = map Ok (snd (spec_iops ops (abs pa0))).
Proof.
  intros parent r s je fe sn ops pa0 Hdom Hc pa.
  pose proof (Rel_new_array parent r s je fe sn) as HR0. pose proof (Links_new_array parent r s je fe sn) as HL0.
  destruct (insert_refines ops pa0 HR0 Hdom Hc) as [Ho [HR [Ha _]]].
  pose proof (insert_links s ops pa0 HR0 HL0 Hdom Hc) as HL.
  split; [exact HR|]. split; [exact HL|]. split; [|split; [exact Ha|exact Ho]].
  unfold pa. rewrite Ha. apply Contig_spec_iops. apply Contig_single.
Qed.
