(* Proofs, part 6 (C09 weights_inv): the first pass of ApplyScoreChanges adds to every node exactly the sum of the deltas of its
   fork-choice subtree (modulo 2^64, as the int64 arithmetic of the code), for every array whose fork-choice parents point to
   earlier nodes and every delta vector; it never panics; it changes nothing but weights. *)
From Coq Require Import NArith ZArith List Bool Lia.
From Coq Require Import ZifyN ZifyNat ZifyBool.
From V Require Import Base.U64 Base.Outcome Forkchoice.ProtoArray Forkchoice.VoteStore Forkchoice.TreeSpec Forkchoice.TreeProofs.
Import ListNotations.
Local Open Scope N_scope.

(* ---------- arithmetic modulo 2^64 ---------- *)
Definition M64 : Z := 18446744073709551616%Z.
Definition eqm (a b : Z) : Prop := (a mod M64 = b mod M64)%Z.
Lemma eqm_refl a : eqm a a. Proof. reflexivity. Qed.
Lemma eqm_eq a b : a = b -> eqm a b. Proof. intros ->. reflexivity. Qed.
Lemma eqm_sym a b : eqm a b -> eqm b a. Proof. unfold eqm; congruence. Qed.
Lemma eqm_trans a b c : eqm a b -> eqm b c -> eqm a c. Proof. unfold eqm; congruence. Qed.
Lemma eqm_add a b c d : eqm a b -> eqm c d -> eqm (a + c) (b + d).
Proof. unfold eqm. intros H1 H2. rewrite (Z.add_mod a c), (Z.add_mod b d), H1, H2 by (unfold M64; lia). reflexivity. Qed.
Lemma eqm_sub a b c d : eqm a b -> eqm c d -> eqm (a - c) (b - d).
Proof. unfold eqm. intros H1 H2. rewrite (Zminus_mod a c), (Zminus_mod b d), H1, H2. reflexivity. Qed.
Lemma eqm_wrap z : eqm (wrap_s64 z) z.
Proof.
  unfold eqm, wrap_s64. change 18446744073709551616%Z with M64.
  rewrite Zminus_mod_idemp_l. f_equal. lia.
Qed.
Lemma eqm_sadd a b : eqm (sadd64 a b) (a + b). Proof. apply eqm_wrap. Qed.
Lemma eqm_ssub a b : eqm (ssub64 a b) (a - b). Proof. apply eqm_wrap. Qed.
(* two values in the int64 range that agree modulo 2^64 are equal *)
Lemma eqm_small a b : eqm a b -> (- 9223372036854775808 <= a < 9223372036854775808)%Z ->
  (- 9223372036854775808 <= b < 9223372036854775808)%Z -> a = b.
Proof.
  unfold eqm, M64. intros H Ha Hb.
  pose proof (Z.div_mod a 18446744073709551616 ltac:(lia)). pose proof (Z.div_mod b 18446744073709551616 ltac:(lia)).
  pose proof (Z.mod_pos_bound a 18446744073709551616 ltac:(lia)). pose proof (Z.mod_pos_bound b 18446744073709551616 ltac:(lia)).
  nia.
Qed.

(* ---------- fork-choice parents by position ---------- *)
(* the position of the fork-choice parent as ApplyScoreChanges (repaired) uses it: none, or pruned away, or fp - offset *)
Definition fpos (off : N) (n : node) : option nat :=
  if (n_fp n =? NONE) || (n_fp n <? off) then None else Some (N.to_nat (n_fp n - off)).
Definition fps_of (pa : parray) : list (option nat) := map (fpos (pa_off pa)) (pa_nodes pa).
(* parents come earlier in the array *)
Definition FpOk (fps : list (option nat)) : Prop := forall i p, nth_error fps i = Some (Some p) -> (p < i)%nat.

Fixpoint ancf (fuel : nat) (fps : list (option nat)) (i j : nat) : bool :=
  Nat.eqb i j ||
  match fuel with
  | O => false
  | S f => match nth_error fps i with Some (Some p) => ancf f fps p j | _ => false end
  end.
(* node j is node i or one of its fork-choice ancestors *)
Definition anc (fps : list (option nat)) (i j : nat) : bool := ancf i fps i j.

Lemma ancf_le fps : FpOk fps -> forall f i j, ancf f fps i j = true -> (j <= i)%nat.
Proof.
  intros HF. induction f; intros i j H; cbn [ancf] in H.
  - rewrite orb_false_r in H. apply Nat.eqb_eq in H. lia.
  - apply orb_true_iff in H. destruct H as [H|H]; [apply Nat.eqb_eq in H; lia|].
    destruct (nth_error fps i) as [[p|]|] eqn:E; try discriminate. apply IHf in H. specialize (HF i p E). lia.
Qed.
Lemma ancf_fuel fps : FpOk fps -> forall f i j, (i <= f)%nat -> ancf f fps i j = ancf i fps i j.
Proof.
  intros HF. induction f as [f IH] using lt_wf_ind. intros i j Hle.
  destruct f; [replace i with 0%nat by lia; reflexivity|].
  destruct i; cbn [ancf].
  - destruct (nth_error fps 0) as [[p|]|] eqn:E; try reflexivity. specialize (HF _ _ E). lia.
  - destruct (nth_error fps (S i)) as [[p|]|] eqn:E; try reflexivity. specialize (HF _ _ E).
    rewrite (IH f ltac:(lia) p j ltac:(lia)), (IH i ltac:(lia) p j ltac:(lia)). reflexivity.
Qed.
Lemma anc_step fps i j : FpOk fps ->
  anc fps i j = Nat.eqb i j || match nth_error fps i with Some (Some p) => anc fps p j | _ => false end.
Proof.
  intros HF. unfold anc. destruct i; cbn [ancf].
  - destruct (nth_error fps 0) as [[p|]|] eqn:E; try (rewrite orb_false_r; reflexivity). specialize (HF _ _ E). lia.
  - destruct (nth_error fps (S i)) as [[p|]|] eqn:E; try reflexivity. pose proof (HF _ _ E) as Hp.
    rewrite (ancf_fuel fps HF i p j ltac:(lia)). reflexivity.
Qed.
Lemma anc_le fps i j : FpOk fps -> anc fps i j = true -> (j <= i)%nat.
Proof. intros HF. apply ancf_le. exact HF. Qed.
Lemma anc_refl fps i : anc fps i i = true.
Proof. unfold anc. destruct i; cbn [ancf]; rewrite Nat.eqb_refl; reflexivity. Qed.

(* sum of the deltas of the first k nodes that lie in the subtree of node j *)
Definition dnth (d : list Z) (i : nat) : Z := nth i d 0%Z.
Fixpoint csum (fps : list (option nat)) (d : list Z) (k j : nat) : Z :=
  match k with
  | O => 0%Z
  | S i => (csum fps d i j + (if anc fps i j then dnth d i else 0))%Z
  end.

Lemma dnth_upd d p x i : (p < length d)%nat -> dnth (upd_nth d p x) i = if Nat.eqb i p then x else dnth d i.
Proof.
  unfold dnth. revert p i. induction d as [|a d IH]; intros p i Hp; [cbn in Hp; lia|].
  destruct p, i; cbn; try reflexivity. apply IH. cbn in Hp. lia.
Qed.
Lemma csum_upd fps d p x j : (p < length d)%nat -> forall k, (p < k)%nat ->
  csum fps (upd_nth d p x) k j = (csum fps d k j + (if anc fps p j then x - dnth d p else 0))%Z.
Proof.
  intros Hp. induction k; intros Hk; [lia|]. cbn [csum]. rewrite (dnth_upd d p x k Hp).
  destruct (Nat.eqb_spec k p) as [->|Hne].
  - assert (Hlow : forall k', (k' <= p)%nat -> csum fps (upd_nth d p x) k' j = csum fps d k' j).
    { induction k'; intros Hk'; [reflexivity|]. cbn [csum]. rewrite IHk' by lia. rewrite (dnth_upd d p x k' Hp).
      replace (Nat.eqb k' p) with false by (symmetry; apply Nat.eqb_neq; lia). reflexivity. }
    rewrite Hlow by lia. destruct (anc fps p j); lia.
  - rewrite IHk by lia. destruct (anc fps k j); destruct (anc fps p j); lia.
Qed.
Lemma csum_above fps d j : FpOk fps -> forall k, (k <= j)%nat -> csum fps d k j = 0%Z.
Proof.
  intros HF. induction k; intros Hk; [reflexivity|]. cbn [csum]. rewrite IHk by lia.
  destruct (anc fps k j) eqn:E; [|reflexivity]. apply anc_le in E; [lia|exact HF].
Qed.

(* ---------- the first pass of ApplyScoreChanges ---------- *)
Definition ws (pa : parray) : list Z := map n_w (pa_nodes pa).
(* everything but the weights *)
Definition noW (n : node) := (n_ref n, n_tp n, n_fp n, n_parent n, n_je n, n_fe n, n_bc n, n_bd n).
Definition same_but_w (pa pa' : parray) : Prop :=
  pa_sink_nil pa' = pa_sink_nil pa /\ pa_off pa' = pa_off pa /\ pa_je pa' = pa_je pa /\ pa_fe pa' = pa_fe pa /\
  pa_idx pa' = pa_idx pa /\ pa_bs pa' = pa_bs pa /\ pa_upd pa' = pa_upd pa /\ map noW (pa_nodes pa') = map noW (pa_nodes pa).
Lemma same_but_w_refl pa : same_but_w pa pa. Proof. repeat split. Qed.
Lemma same_but_w_trans a b c : same_but_w a b -> same_but_w b c -> same_but_w a c.
Proof. unfold same_but_w. intuition congruence. Qed.
Lemma noW_fpos off n n' : noW n' = noW n -> fpos off n' = fpos off n.
Proof. unfold noW, fpos. intros H. inversion H. congruence. Qed.
Lemma same_but_w_fps pa pa' : same_but_w pa pa' -> fps_of pa' = fps_of pa.
Proof.
  intros [_ [Ho [_ [_ [_ [_ [_ Hn]]]]]]]. unfold fps_of. rewrite Ho. revert Hn.
  generalize (pa_nodes pa) as l. generalize (pa_nodes pa') as l'.
  induction l' as [|a l' IH]; intros l H; destruct l as [|b l]; cbn [map] in *; try discriminate; [reflexivity|].
  assert (H1 : noW a = noW b) by congruence. assert (H2 : map noW l' = map noW l) by congruence.
  f_equal; [apply noW_fpos; exact H1|apply IH; exact H2].
Qed.
Lemma same_but_w_len pa pa' : same_but_w pa pa' -> length (pa_nodes pa') = length (pa_nodes pa).
Proof. intros [_ [_ [_ [_ [_ [_ [_ Hn]]]]]]]. rewrite <- (map_length noW (pa_nodes pa')), Hn, map_length. reflexivity. Qed.

Lemma upd_nth_noW (l : list node) : forall i n x, nth_error l i = Some n -> map noW (upd_nth l i (set_w n x)) = map noW l.
Proof.
  induction l as [|a l IH]; intros i n x H; [destruct i; discriminate|].
  destruct i; cbn in *; [inversion H; reflexivity|]. f_equal. apply IH. exact H.
Qed.
Lemma ws_upd (l : list node) : forall i n x, nth_error l i = Some n ->
  map n_w (upd_nth l i (set_w n x)) = upd_nth (map n_w l) i x.
Proof.
  induction l as [|a l IH]; intros i n x H; [destruct i; discriminate|].
  destruct i; cbn in *; [reflexivity|]. f_equal. apply IH. exact H.
Qed.
Lemma upd_nth_length {A} (l : list A) : forall i x, length (upd_nth l i x) = length l.
Proof. induction l; intros [|i] x; cbn; auto. Qed.

Theorem weights_loop_spec : forall k pa d,
  FpOk (fps_of pa) -> length d = length (pa_nodes pa) -> (k <= length (pa_nodes pa))%nat ->
  exists pa' d', weights_loop fixed k d pa = (pa', Ok d') /\ same_but_w pa pa' /\ length d' = length d /\
    forall j, (j < length (pa_nodes pa))%nat ->
      if (j <? k)%nat then eqm (dnth (ws pa') j) (dnth (ws pa) j + csum (fps_of pa) d k j)
      else dnth (ws pa') j = dnth (ws pa) j.
Proof.
  induction k; intros pa d HF Hd Hk.
  - exists pa, d. cbn [weights_loop ret]. split; [reflexivity|]. split; [apply same_but_w_refl|]. split; [reflexivity|].
    intros j Hj. reflexivity.
  - cbn [weights_loop]. unfold mbind at 1. unfold get at 1.
    destruct (nth_error d k) as [delta|] eqn:Ed; [|apply nth_error_None in Ed; lia].
    unfold mbind at 1. unfold lift_o at 1. unfold rawNode, nthN.
    replace (N.of_nat k <? lenN (pa_nodes pa)) with true by (symmetry; apply N.ltb_lt; unfold lenN; lia).
    rewrite Nat2N.id. destruct (nth_error (pa_nodes pa) k) as [node|] eqn:En; [|apply nth_error_None in En; lia].
    unfold mbind at 1. cbn [put].
    set (pa1 := with_nodes pa (upd_nth (pa_nodes pa) k (set_w node (sadd64 (n_w node) delta)))).
    assert (HS1 : same_but_w pa pa1).
    { unfold same_but_w, pa1, with_nodes. cbn. repeat split. apply upd_nth_noW. exact En. }
    assert (Hws1 : ws pa1 = upd_nth (ws pa) k (sadd64 (n_w node) delta)).
    { unfold ws, pa1, with_nodes. cbn [pa_nodes]. apply ws_upd. exact En. }
    assert (Hwk : dnth (ws pa) k = n_w node).
    { unfold dnth, ws. erewrite nth_indep; [|rewrite map_length; lia]. rewrite (map_nth n_w (pa_nodes pa) node k).
      f_equal. apply nth_error_nth. exact En. }
    assert (Hfpk : nth_error (fps_of pa) k = Some (fpos (pa_off pa) node)) by (unfold fps_of; rewrite nth_error_map, En; reflexivity).
    pose proof (same_but_w_fps _ _ HS1) as Hf1. pose proof (same_but_w_len _ _ HS1) as Hl1.
    assert (Hlw : (k < length (ws pa))%nat) by (unfold ws; rewrite map_length; lia).
    cbn [f_apply_guard fixed].
    destruct (negb (n_fp node =? NONE) && (pa_off pa <=? n_fp node)) eqn:Ec.
    + (* the node has a live parent at position p < k *)
      assert (Hfp : fpos (pa_off pa) node = Some (N.to_nat (n_fp node - pa_off pa))).
      { unfold fpos. apply andb_true_iff in Ec. destruct Ec as [E1 E2]. apply negb_true_iff in E1. apply N.leb_le in E2.
        rewrite E1. replace (n_fp node <? pa_off pa) with false by (symmetry; apply N.ltb_ge; exact E2). reflexivity. }
      set (p := N.to_nat (n_fp node - pa_off pa)) in *.
      assert (Hp : (p < k)%nat) by (apply (HF k p); rewrite Hfpk, Hfp; reflexivity).
      assert (Hsub : sub64 (n_fp node) (pa_off pa) = N.of_nat p).
      { apply andb_true_iff in Ec. destruct Ec as [_ E2]. apply N.leb_le in E2. unfold p. rewrite sub64_ge by exact E2. lia. }
      rewrite Hsub. unfold nthN. replace (N.of_nat p <? lenN d) with true by (symmetry; apply N.ltb_lt; unfold lenN; lia).
      rewrite Nat2N.id. destruct (nth_error d p) as [dp|] eqn:Edp; [|apply nth_error_None in Edp; lia].
      unfold updN. replace (N.of_nat p <? lenN d) with true by (symmetry; apply N.ltb_lt; unfold lenN; lia). rewrite Nat2N.id.
      set (d1 := upd_nth d p (sadd64 dp delta)).
      destruct (IHk pa1 d1) as [pa' [d' [Hrun [HS [Hld Hw]]]]].
      { rewrite Hf1. exact HF. } { unfold d1. rewrite upd_nth_length. lia. } { lia. }
      exists pa', d'. split; [exact Hrun|]. split; [eapply same_but_w_trans; eauto|]. split; [unfold d1 in Hld; rewrite upd_nth_length in Hld; exact Hld|].
      intros j Hj. specialize (Hw j ltac:(lia)). rewrite Hf1, Hws1 in Hw.
      assert (Hdp : dnth d p = dp) by (unfold dnth; apply nth_error_nth; exact Edp).
      assert (Hdk : dnth d k = delta) by (unfold dnth; apply nth_error_nth; exact Ed).
      destruct (Nat.ltb_spec j (S k)) as [Hjk|Hjk].
      * destruct (Nat.ltb_spec j k) as [Hlt|Hge].
        -- (* below k: the parent's delta carried the contribution of node k *)
           rewrite (dnth_upd (ws pa) k _ j Hlw) in Hw. replace (Nat.eqb j k) with false in Hw by (symmetry; apply Nat.eqb_neq; lia).
           eapply eqm_trans; [exact Hw|]. cbn [csum]. unfold d1. rewrite (csum_upd (fps_of pa) d p _ j ltac:(lia) k Hp).
           rewrite Hdp, Hdk. rewrite (anc_step (fps_of pa) k j HF), Hfpk, Hfp.
           replace (Nat.eqb k j) with false by (symmetry; apply Nat.eqb_neq; lia). cbn [orb]. fold p.
           destruct (anc (fps_of pa) p j).
           ++ replace (dnth (ws pa) j + (csum (fps_of pa) d k j + (sadd64 dp delta - dp)))%Z
                with ((dnth (ws pa) j + csum (fps_of pa) d k j - dp) + sadd64 dp delta)%Z by lia.
              replace (dnth (ws pa) j + (csum (fps_of pa) d k j + delta))%Z
                with ((dnth (ws pa) j + csum (fps_of pa) d k j - dp) + (dp + delta))%Z by lia.
              apply eqm_add; [apply eqm_refl|apply eqm_sadd].
           ++ replace (csum (fps_of pa) d k j + 0 + 0)%Z with (csum (fps_of pa) d k j + 0)%Z by lia. apply eqm_refl.
        -- assert (j = k) by lia. subst j.
           replace (k <? k)%nat with false in Hw by (symmetry; apply Nat.ltb_ge; lia).
           rewrite Hw, (dnth_upd (ws pa) k _ k Hlw), Nat.eqb_refl. cbn [csum].
           rewrite (csum_above (fps_of pa) d k HF k (Nat.le_refl _)), anc_refl, Hdk, Hwk. apply eqm_sadd.
      * replace (j <? k)%nat with false in Hw by (symmetry; apply Nat.ltb_ge; lia).
        rewrite Hw, (dnth_upd (ws pa) k _ j Hlw). replace (Nat.eqb j k) with false by (symmetry; apply Nat.eqb_neq; lia). reflexivity.
    + (* no live parent *)
      assert (Hfp : fpos (pa_off pa) node = None).
      { unfold fpos. apply andb_false_iff in Ec. destruct Ec as [E1|E2].
        - apply negb_false_iff in E1. rewrite E1. reflexivity.
        - apply N.leb_gt in E2. replace (n_fp node <? pa_off pa) with true by (symmetry; apply N.ltb_lt; exact E2). rewrite orb_true_r. reflexivity. }
      destruct (IHk pa1 d) as [pa' [d' [Hrun [HS [Hld Hw]]]]].
      { rewrite Hf1. exact HF. } { lia. } { lia. }
      exists pa', d'. split; [exact Hrun|]. split; [eapply same_but_w_trans; eauto|]. split; [exact Hld|].
      intros j Hj. specialize (Hw j ltac:(lia)). rewrite Hf1, Hws1 in Hw.
      assert (Hdk : dnth d k = delta) by (unfold dnth; apply nth_error_nth; exact Ed).
      destruct (Nat.ltb_spec j (S k)) as [Hjk|Hjk].
      * destruct (Nat.ltb_spec j k) as [Hlt|Hge].
        -- rewrite (dnth_upd (ws pa) k _ j Hlw) in Hw. replace (Nat.eqb j k) with false in Hw by (symmetry; apply Nat.eqb_neq; lia).
           eapply eqm_trans; [exact Hw|]. cbn [csum]. rewrite (anc_step (fps_of pa) k j HF), Hfpk, Hfp.
           replace (Nat.eqb k j) with false by (symmetry; apply Nat.eqb_neq; lia). cbn [orb].
           replace (csum (fps_of pa) d k j + 0)%Z with (csum (fps_of pa) d k j) by lia. apply eqm_refl.
        -- assert (j = k) by lia. subst j.
           replace (k <? k)%nat with false in Hw by (symmetry; apply Nat.ltb_ge; lia).
           rewrite Hw, (dnth_upd (ws pa) k _ k Hlw), Nat.eqb_refl. cbn [csum].
           rewrite (csum_above (fps_of pa) d k HF k (Nat.le_refl _)), anc_refl, Hdk, Hwk. apply eqm_sadd.
      * replace (j <? k)%nat with false in Hw by (symmetry; apply Nat.ltb_ge; lia).
        rewrite Hw, (dnth_upd (ws pa) k _ j Hlw). replace (Nat.eqb j k) with false by (symmetry; apply Nat.eqb_neq; lia). reflexivity.
Qed.

(* ---------- ComputeDeltas: one contribution per validator ---------- *)
Definition pos_of (ind : imap) (off : N) (r : N * N) : option nat :=
  match idx_get ind r with Some k => Some (N.to_nat (k - off)) | None => None end.
(* what a vote for r with balance b contributes to the subtree sum of node j *)
Definition term (fps : list (option nat)) (ind : imap) (off : N) (r : N * N) (b : N) (j : nat) : Z :=
  match pos_of ind off r with Some p => if anc fps p j then Z.of_N b else 0%Z | None => 0%Z end.
(* sum of the balances of the validators (from position i on) whose counted vote lies in the subtree of node j *)
Fixpoint vsum (fps : list (option nat)) (ind : imap) (off : N) (votes : list tracker) (bal : list N) (i j : nat) : Z :=
  match votes with
  | [] => 0%Z
  | v :: vs => (term fps ind off (t_cur v) (bal_at bal i) j + vsum fps ind off vs bal (S i) j)%Z
  end.
Definition IdxRange (ind : imap) (off : N) (n : nat) : Prop :=
  forall r k, idx_get ind r = Some k -> off <= k /\ k - off < N.of_nat n.

Lemma eqm_to_s64 b : eqm (to_s64 b) (Z.of_N b). Proof. apply eqm_wrap. Qed.

Lemma nthN_nat (d : list Z) p : (p < length d)%nat -> nthN d (N.of_nat p) = Some (dnth d p).
Proof.
  intros H. unfold nthN, lenN. replace (N.of_nat p <? N.of_nat (length d)) with true by (symmetry; apply N.ltb_lt; lia).
  rewrite Nat2N.id. unfold dnth. destruct (nth_error d p) eqn:E; [symmetry; f_equal; apply nth_error_nth; exact E|].
  apply nth_error_None in E. lia.
Qed.
Lemma updN_nat (d : list Z) p x : (p < length d)%nat -> updN d (N.of_nat p) x = upd_nth d p x.
Proof. intros H. unfold updN, lenN. replace (N.of_nat p <? N.of_nat (length d)) with true by (symmetry; apply N.ltb_lt; lia). rewrite Nat2N.id. reflexivity. Qed.

Lemma csum_upd_eqm fps d p x y j n : (p < length d)%nat -> n = length d -> eqm (x - dnth d p) y ->
  eqm (csum fps (upd_nth d p x) n j) (csum fps d n j + (if anc fps p j then y else 0)).
Proof.
  intros Hp Hn Hxy. subst n. rewrite (csum_upd fps d p x j Hp (length d) Hp).
  apply eqm_add; [apply eqm_refl|]. destruct (anc fps p j); [exact Hxy|apply eqm_refl].
Qed.

Theorem deltas_loop_spec fps ind off ob nb_ n :
  IdxRange ind off n -> idx_get ind zero_ref = None ->
  forall votes i d acc, length d = n ->
  (forall v, In v votes -> idx_get ind (t_cur v) <> None -> idx_get ind (t_next v) <> None) ->
  exists vs' d', deltas_loop fixed ind off ob nb_ i votes d acc = Ok (rev acc ++ vs', d') /\ length d' = n /\
    Forall2 (fun v v' => t_next v' = t_next v /\ t_nexte v' = t_nexte v) votes vs' /\
    forall j, eqm (csum fps d' n j) (csum fps d n j + vsum fps ind off vs' nb_ i j - vsum fps ind off votes ob i j).
Proof.
  intros HI Hz. induction votes as [|vote votes IH]; intros i d acc Hd Hk; cbn [deltas_loop].
  - exists [], d. rewrite app_nil_r. split; [reflexivity|]. split; [exact Hd|]. split; [constructor|].
    intros j. cbn [vsum]. replace (csum fps d n j + 0 - 0)%Z with (csum fps d n j) by lia. apply eqm_refl.
  - assert (Hk' : forall v, In v votes -> idx_get ind (t_cur v) <> None -> idx_get ind (t_next v) <> None)
      by (intros v Hv; apply Hk; right; exact Hv).
    (* the recursion on the rest, with the head tracker becoming v', the deltas d1, and the head's contribution as stated *)
    assert (Hstep : forall v' d1, length d1 = n -> t_next v' = t_next vote -> t_nexte v' = t_nexte vote ->
              (forall j, eqm (csum fps d1 n j) (csum fps d n j + term fps ind off (t_cur v') (bal_at nb_ i) j
                                                 - term fps ind off (t_cur vote) (bal_at ob i) j)) ->
              exists vs' d', deltas_loop fixed ind off ob nb_ (S i) votes d1 (v' :: acc) = Ok (rev acc ++ vs', d') /\ length d' = n /\
                Forall2 (fun v v' => t_next v' = t_next v /\ t_nexte v' = t_nexte v) (vote :: votes) vs' /\
                forall j, eqm (csum fps d' n j) (csum fps d n j + vsum fps ind off vs' nb_ i j - vsum fps ind off (vote :: votes) ob i j)).
    { intros v' d1 Hd1 Hn1 Hn2 Hc. destruct (IH (S i) d1 (v' :: acc) Hd1 Hk') as [vs' [d' [Hrun [Hl [HF Hs]]]]].
      exists (v' :: vs'), d'. cbn [rev] in Hrun. rewrite <- app_assoc in Hrun. split; [exact Hrun|]. split; [exact Hl|].
      split; [constructor; auto|]. intros j. cbn [vsum]. eapply eqm_trans; [apply Hs|].
      replace (csum fps d n j + (term fps ind off (t_cur v') (bal_at nb_ i) j + vsum fps ind off vs' nb_ (S i) j)
               - (term fps ind off (t_cur vote) (bal_at ob i) j + vsum fps ind off votes ob (S i) j))%Z
        with ((csum fps d n j + term fps ind off (t_cur v') (bal_at nb_ i) j - term fps ind off (t_cur vote) (bal_at ob i) j)
              + vsum fps ind off vs' nb_ (S i) j - vsum fps ind off votes ob (S i) j)%Z by lia.
      apply eqm_sub; [|apply eqm_refl]. apply eqm_add; [apply Hc|apply eqm_refl]. }
    destruct (ref_eqb (t_cur vote) zero_ref && ref_eqb (t_next vote) zero_ref) eqn:Ezz.
    { apply (Hstep vote d Hd eq_refl eq_refl). intros j. apply andb_true_iff in Ezz. destruct Ezz as [E1 _].
      apply ref_eqb_eq in E1. unfold term, pos_of. rewrite E1, Hz.
      replace (csum fps d n j + 0 - 0)%Z with (csum fps d n j) by lia. apply eqm_refl. }
    destruct (ref_eqb (t_cur vote) zero_ref || (t_cure vote <? t_nexte vote) || negb (bal_at ob i =? bal_at nb_ i)) eqn:Ec.
    2: { apply (Hstep vote d Hd eq_refl eq_refl). intros j.
         apply orb_false_iff in Ec. destruct Ec as [_ Eb]. apply negb_false_iff, N.eqb_eq in Eb. rewrite Eb.
         replace (csum fps d n j + term fps ind off (t_cur vote) (bal_at nb_ i) j - term fps ind off (t_cur vote) (bal_at nb_ i) j)%Z
           with (csum fps d n j) by lia. apply eqm_refl. }
    specialize (Hk vote (or_introl eq_refl)).
    destruct (idx_get ind (t_cur vote)) as [ci|] eqn:Eci.
    + destruct (HI _ _ Eci) as [Hc1 Hc2]. set (pc := N.to_nat (ci - off)).
      assert (Hpc : (pc < length d)%nat) by (unfold pc; lia).
      replace (sub64 ci off) with (N.of_nat pc) by (rewrite sub64_ge by exact Hc1; unfold pc; lia).
      rewrite (nthN_nat d pc Hpc), (updN_nat d pc _ Hpc). cbn [bind].
      set (d1 := upd_nth d pc (ssub64 (dnth d pc) (to_s64 (bal_at ob i)))).
      assert (Hd1 : length d1 = n) by (unfold d1; rewrite upd_nth_length; exact Hd).
      assert (Hc_d1 : forall j, eqm (csum fps d1 n j) (csum fps d n j + (if anc fps pc j then - Z.of_N (bal_at ob i) else 0))).
      { intros j. unfold d1. apply csum_upd_eqm; auto.
        replace (- Z.of_N (bal_at ob i))%Z with (dnth d pc - Z.of_N (bal_at ob i) - dnth d pc)%Z by lia.
        apply eqm_sub; [|apply eqm_refl]. eapply eqm_trans; [apply eqm_ssub|]. apply eqm_sub; [apply eqm_refl|apply eqm_to_s64]. }
      destruct (idx_get ind (t_next vote)) as [ni|] eqn:Eni; [|exfalso; apply Hk; congruence].
      destruct (HI _ _ Eni) as [Hn1 Hn2]. set (pn := N.to_nat (ni - off)).
      assert (Hpn : (pn < length d1)%nat) by (unfold pn; lia).
      replace (sub64 ni off) with (N.of_nat pn) by (rewrite sub64_ge by exact Hn1; unfold pn; lia).
      rewrite (nthN_nat d1 pn Hpn), (updN_nat d1 pn _ Hpn).
      apply Hstep; [rewrite upd_nth_length; exact Hd1|reflexivity|reflexivity|].
      intros j. cbn [t_cur]. eapply eqm_trans.
      { apply (csum_upd_eqm fps d1 pn _ (Z.of_N (bal_at nb_ i)) j n Hpn (eq_sym Hd1)).
        replace (Z.of_N (bal_at nb_ i)) with (dnth d1 pn + Z.of_N (bal_at nb_ i) - dnth d1 pn)%Z by lia.
        apply eqm_sub; [|apply eqm_refl]. eapply eqm_trans; [apply eqm_sadd|]. apply eqm_add; [apply eqm_refl|apply eqm_to_s64]. }
      unfold term, pos_of. rewrite Eci, Eni. fold pc pn.
      eapply eqm_trans; [apply eqm_add; [apply Hc_d1|apply eqm_refl]|].
      destruct (anc fps pc j); destruct (anc fps pn j); apply eqm_eq; lia.
    + cbn [bind]. destruct (idx_get ind (t_next vote)) as [ni|] eqn:Eni.
      * destruct (HI _ _ Eni) as [Hn1 Hn2]. set (pn := N.to_nat (ni - off)).
        assert (Hpn : (pn < length d)%nat) by (unfold pn; lia).
        replace (sub64 ni off) with (N.of_nat pn) by (rewrite sub64_ge by exact Hn1; unfold pn; lia).
        rewrite (nthN_nat d pn Hpn), (updN_nat d pn _ Hpn).
        apply Hstep; [rewrite upd_nth_length; exact Hd|reflexivity|reflexivity|].
        intros j. cbn [t_cur]. eapply eqm_trans.
        { apply (csum_upd_eqm fps d pn _ (Z.of_N (bal_at nb_ i)) j n Hpn (eq_sym Hd)).
          replace (Z.of_N (bal_at nb_ i)) with (dnth d pn + Z.of_N (bal_at nb_ i) - dnth d pn)%Z by lia.
          apply eqm_sub; [|apply eqm_refl]. eapply eqm_trans; [apply eqm_sadd|]. apply eqm_add; [apply eqm_refl|apply eqm_to_s64]. }
        unfold term, pos_of. rewrite Eci, Eni. fold pn.
        destruct (anc fps pn j); apply eqm_eq; lia.
      * apply (Hstep vote d Hd eq_refl eq_refl). intros j. unfold term, pos_of. rewrite Eci.
        replace (csum fps d n j + 0 - 0)%Z with (csum fps d n j) by lia. apply eqm_refl.
Qed.

(* ---------- weights_inv and the refresh ---------- *)
(* every node weighs (modulo 2^64) the sum of the balances of the validators whose counted vote lies in its fork-choice subtree *)
Definition WInv (pa : parray) (votes : list tracker) (bal : list N) : Prop :=
  forall j, (j < length (pa_nodes pa))%nat ->
    eqm (dnth (ws pa) j) (vsum (fps_of pa) (pa_idx pa) (pa_off pa) votes bal 0 j).

Lemma nth_repeat0 n : forall k, nth k (repeat 0%Z n) 0%Z = 0%Z.
Proof. induction n; intros [|k]; cbn; auto. Qed.
Lemma csum_zero fps n : forall k j, csum fps (repeat 0%Z n) k j = 0%Z.
Proof.
  induction k; intros j; cbn [csum]; [reflexivity|]. rewrite IHk. unfold dnth. rewrite nth_repeat0.
  destruct (anc fps k j); reflexivity.
Qed.

(* the hypotheses on the array under which a refresh is analysed *)
Record WOk (pa : parray) : Prop := mkWOk {
  wo_fp : FpOk (fps_of pa);
  wo_idx : IdxRange (pa_idx pa) (pa_off pa) (length (pa_nodes pa));
  wo_len : length (pa_idx pa) = length (pa_nodes pa);
  wo_min : min_index (pa_idx pa) = pa_off pa;
  wo_zero : idx_get (pa_idx pa) zero_ref = None
}.
(* a pending vote of a validator whose counted vote is known targets a known node *)
Definition VotesKnown (ind : imap) (votes : list tracker) : Prop :=
  forall v, In v votes -> idx_get ind (t_cur v) <> None -> idx_get ind (t_next v) <> None.

(* ComputeDeltas followed by the first pass of ApplyScoreChanges: no panic, nothing but weights changes, and the weights are
   again the subtree sums of the (moved) counted votes under the new balances *)
Theorem refresh_weights pa st ob nb_ :
  WOk pa -> VotesKnown (pa_idx pa) (vs_votes st) -> WInv pa (vs_votes st) ob ->
  exists st' d pa' d',
    ComputeDeltas fixed (pa_idx pa) ob nb_ st = (st', Ok d) /\ length d = length (pa_nodes pa) /\
    weights_loop fixed (length (pa_nodes pa)) d pa = (pa', Ok d') /\ same_but_w pa pa' /\
    WInv pa' (vs_votes st') nb_ /\ vs_changed st' = false /\
    Forall2 (fun v v' => t_next v' = t_next v /\ t_nexte v' = t_nexte v) (vs_votes st) (vs_votes st').
Proof.
  intros [HF HI HL HM HZ] HK HW. set (n := length (pa_nodes pa)) in *.
  destruct (deltas_loop_spec (fps_of pa) (pa_idx pa) (pa_off pa) ob nb_ n HI HZ (vs_votes st) 0%nat (repeat 0%Z n) []
              (repeat_length _ _) HK) as [vs' [d [Hrun [Hd [HF2 Hs]]]]].
  unfold ComputeDeltas, mbind, get. cbn [f_deltas_off fixed]. rewrite HM, HL. fold n. rewrite Hrun. cbn [rev app put ret].
  destruct (weights_loop_spec n pa d HF Hd (Nat.le_refl _)) as [pa' [d' [Hw [HS [_ Hj]]]]].
  exists (mkVS (vs_spe st) vs' false), d, pa', d'.
  split; [reflexivity|]. split; [exact Hd|]. split; [exact Hw|]. split; [exact HS|]. split; [|split; [reflexivity|exact HF2]].
  intros j Hjl. cbn [vs_votes].
  rewrite (same_but_w_len _ _ HS) in Hjl. specialize (Hj j Hjl). fold n in Hjl.
  replace (j <? n)%nat with true in Hj by (symmetry; apply Nat.ltb_lt; exact Hjl).
  rewrite (same_but_w_fps _ _ HS). destruct HS as [_ [Ho [_ [_ [Hi _]]]]]. rewrite Hi, Ho.
  eapply eqm_trans; [exact Hj|].
  eapply eqm_trans; [apply eqm_add; [apply HW; exact Hjl|apply Hs]|].
  rewrite csum_zero. apply eqm_eq. lia.
Qed.

(* ---------- a property kept by every push of a fresh, weightless, link-less node whose fork-choice parent exists is kept by
   ProcessSlot / ProcessBlock / insertion histories (same induction as WalkProofs.Links, for an arbitrary property) ---------- *)
Definition push_ok (pa : parray) (m : node) : Prop :=
  idx_get (pa_idx pa) (n_ref m) = None /\ n_ref m <> zero_ref /\ n_w m = 0%Z /\
  (exists r, idx_get (pa_idx pa) r = Some (n_fp m)) /\ n_bc m = NONE /\ n_bd m = NONE.

Section PushInv.
Variable P : parray -> Prop.
Hypothesis P_push : forall pa m, Rel pa -> P pa -> created pa < two64 -> push_ok pa m -> P (push_node pa m).
Hypothesis P_frame : forall pa pa', pa_nodes pa' = pa_nodes pa -> pa_idx pa' = pa_idx pa -> pa_off pa' = pa_off pa -> P pa -> P pa'.

Lemma gap_P parent sl je fe lo : forall fuel i pidx pa,
  Rel pa -> P pa -> low (abs pa) parent = Some lo -> lo < i -> i <= sl ->
  idx_get (pa_idx pa) (parent, i - 1) = Some pidx -> (N.to_nat (sl - i) <= fuel)%nat ->
  created (fst (gap_loop fuel parent i sl je fe pidx pa)) < two64 ->
  P (fst (gap_loop fuel parent i sl je fe pidx pa)) /\
  idx_get (pa_idx (fst (gap_loop fuel parent i sl je fe pidx pa))) (parent, sl - 1) = Some (snd (gap_loop fuel parent i sl je fe pidx pa)).
Proof.
  induction fuel; intros i pidx pa HR HP Hlo Hi Hle Hp Hf; cbn [gap_loop].
  - cbn [fst snd]. intros _. replace sl with i by lia. auto.
  - destruct (i <? sl) eqn:Ei.
    2: { apply N.ltb_ge in Ei. cbn [fst snd]. intros _. replace sl with i by lia. auto. }
    apply N.ltb_lt in Ei.
    match goal with |- context [idx_get (pa_idx pa) ?key] => destruct (idx_get (pa_idx pa) key) as [k|] eqn:Ek end.
    + apply IHfuel; auto; try lia. replace (i + 1 - 1) with i by lia. exact Ek.
    + intros Hc.
      assert (Hc1 : created pa < two64).
      { pose proof (gap_created parent sl je fe fuel (i + 1) (add64 (pa_off pa) (lenN (pa_nodes pa)))
                                (push_node pa (fresh_node (parent, i) pidx parent je fe))) as Hm.
        rewrite created_push in Hm. lia. }
      set (m := fresh_node (parent, i) pidx parent je fe) in *.
      assert (HR1 : Rel (push_node pa m)) by (eapply Rel_push_slot; eauto).
      assert (HP1 : P (push_node pa m)).
      { apply P_push; auto. repeat split; cbn; auto; [intros Hc0; inversion Hc0; lia|eauto]. }
      assert (Hlo1 : low (abs (push_node pa m)) parent = Some lo).
      { rewrite abs_push, low_app_single. cbn. rewrite N.eqb_refl, Hlo. f_equal. lia. }
      apply IHfuel; auto; try lia.
      replace (i + 1 - 1) with i by lia. unfold push_node. cbn [pa_idx]. rewrite idx_get_set. cbn [m fresh_node n_ref].
      rewrite ref_eqb_refl. reflexivity.
Qed.

Lemma ProcessSlot_P parent sl je fe pa :
  Rel pa -> P pa -> sl < two64 ->
  (known (abs pa) (parent, sl) = true \/
   exists lo, low (abs pa) parent = Some lo /\ lo < sl /\ sl - lo <= slot_fuel_limit) ->
  created (fst (ProcessSlot parent sl je fe pa)) < two64 ->
  P (fst (ProcessSlot parent sl je fe pa)).
Proof.
  intros HR HP Hsl Hdom.
  destruct (idx_get (pa_idx pa) (parent, sl)) as [k|] eqn:Ek.
  { unfold ProcessSlot, mbind, get. rewrite Ek. cbn. auto. }
  assert (Hk : known (abs pa) (parent, sl) = false) by (apply Rel_known_false; auto).
  destruct Hdom as [Hd|[lo [Hlo [Hlt Hgap]]]]; [congruence|].
  unfold ProcessSlot, mbind, get. rewrite Ek, (r_bs pa HR parent), Hlo.
  replace (slot_fuel_limit <? sl - lo) with false by (symmetry; apply N.ltb_ge; exact Hgap).
  assert (Hadd : add64 lo 1 = lo + 1) by (unfold add64; apply wrap64_small; lia). rewrite Hadd.
  destruct (Rel_low_known pa parent lo HR Hlo) as [k0 Hk0].
  assert (H0 : idx_get0 (pa_idx pa) (parent, lo) = k0) by (unfold idx_get0; rewrite Hk0; reflexivity). rewrite H0.
  pose proof (gap_P parent sl je fe lo (N.to_nat (sl - lo)) (lo + 1) k0 pa HR HP Hlo ltac:(lia) ltac:(lia)
                    ltac:(replace (lo + 1 - 1) with lo by lia; exact Hk0) ltac:(lia)) as HG.
  pose proof (gap_sim parent sl je fe lo (N.to_nat (sl - lo)) (lo + 1) k0 pa HR Hlo ltac:(lia)) as HS.
  destruct (gap_loop (N.to_nat (sl - lo)) parent (lo + 1) sl je fe k0 pa) as [pa1 pidx] eqn:Eg. cbn [fst snd put] in *.
  intros Hc.
  assert (Hc' : created (push_node pa1 (fresh_node (parent, sl) pidx parent je fe)) < two64) by exact Hc.
  rewrite created_push in Hc'.
  destruct (HG ltac:(lia)) as [HP1 Hp1]. destruct (HS ltac:(lia)) as [HR1 [Habs [Hbs _]]].
  assert (Hfresh : idx_get (pa_idx pa1) (parent, sl) = None).
  { apply Rel_known_false; auto. rewrite Habs.
    destruct (known (add_slots _ (abs pa) parent (lo + 1) (sl - 1) je fe) (parent, sl)) eqn:E; [|reflexivity].
    apply known_add_slots in E. destruct E as [E|[_ E]]; [congruence|cbn in E; lia]. }
  eapply P_frame; [| | |apply (P_push pa1 (fresh_node (parent, sl) pidx parent je fe) HR1 HP1 ltac:(lia))]; try reflexivity.
  repeat split; cbn; auto; [intros Hc0; inversion Hc0; lia|eauto].
Qed.

Lemma ProcessBlock_P parent r sl je fe pa :
  Rel pa -> P pa -> sl < two64 ->
  (forall lo, low (abs pa) parent = Some lo -> sl - lo <= slot_fuel_limit) ->
  created (fst (ProcessBlock parent r sl je fe pa)) < two64 ->
  P (fst (ProcessBlock parent r sl je fe pa)).
Proof.
  intros HR HP Hsl Hgap. rewrite ProcessBlock_unfold.
  destruct (idx_get (pa_idx pa) (r, sl)) as [k|] eqn:Ek; [cbn; auto|].
  destruct (bs_get (pa_bs pa) r) eqn:Er; [cbn; auto|].
  destruct (bs_get (pa_bs pa) parent) as [lo|] eqn:Ep; [|cbn; auto].
  destruct (sl <=? lo) eqn:Ele; [cbn; auto|]. apply N.leb_gt in Ele.
  assert (Hlo : low (abs pa) parent = Some lo) by (rewrite <- (r_bs pa HR); exact Ep).
  assert (Hlr : low (abs pa) r = None) by (rewrite <- (r_bs pa HR); exact Er).
  assert (Hdom : known (abs pa) (parent, sl) = true \/
                 exists lo0, low (abs pa) parent = Some lo0 /\ lo0 < sl /\ sl - lo0 <= slot_fuel_limit).
  { right. exists lo. auto. }
  pose proof (ProcessSlot_sim parent sl je fe pa HR Hsl Hdom) as Hps.
  pose proof (ProcessSlot_P parent sl je fe pa HR HP Hsl Hdom) as Hpl.
  destruct (ProcessSlot parent sl je fe pa) as [pa1 o1] eqn:Eps. cbn [fst snd] in Hps, Hpl.
  destruct o1; cbn [fst]; auto.
  destruct (idx_get (pa_idx pa1) (parent, lo)) as [fcp|] eqn:Efc; [|cbn; auto].
  destruct (idx_get (pa_idx pa1) (parent, sl)) as [tp|] eqn:Etp; [|cbn; auto].
  cbn [fst]. unfold block_final. set (blk := mkNode (r, sl) tp fcp parent je fe 0%Z NONE NONE).
  intros Hc. assert (Hc' : created (push_node pa1 blk) < two64) by exact Hc. rewrite created_push in Hc'.
  destruct (Hps ltac:(lia)) as [_ [HR1 [Habs [Hbs _]]]]. specialize (Hpl ltac:(lia)).
  assert (Hnp : r <> parent) by (intros ->; congruence).
  assert (Hfresh : idx_get (pa_idx pa1) (r, sl) = None).
  { apply Rel_known_false; auto. rewrite Habs.
    destruct (known (spec_process_slot (abs pa) parent sl je fe) (r, sl)) eqn:E; [|reflexivity].
    apply known_spec_process_slot in E. destruct E as [E|E]; [|cbn in E; congruence].
    assert (known (abs pa) (r, sl) = false) by (apply Rel_known_false; auto). congruence. }
  eapply P_frame; [| | |apply (P_push pa1 blk HR1 Hpl ltac:(lia))]; try reflexivity.
  repeat split; cbn; auto; [intros Hc0; inversion Hc0; lia|eauto].
Qed.

Lemma impl_iop_P o pa :
  Rel pa -> P pa -> iop_dom (abs pa) o -> created (fst (impl_iop o pa)) < two64 -> P (fst (impl_iop o pa)).
Proof.
  intros HR HP Hdom. destruct o; cbn [impl_iop iop_dom] in *; unfold mbind; destruct Hdom as [Hs Hd].
  - pose proof (ProcessSlot_P p s je fe pa HR HP Hs Hd) as H.
    destruct (ProcessSlot p s je fe pa) as [pa1 o1]. destruct o1; exact H.
  - pose proof (ProcessBlock_P p r s je fe pa HR HP Hs Hd) as H.
    destruct (ProcessBlock p r s je fe pa) as [pa1 o1]. destruct o1; exact H.
Qed.
End PushInv.

(* ---------- the invariant of prune-free histories ---------- *)
Definition VKnown (ind : imap) (votes : list tracker) : Prop :=
  forall v, In v votes ->
    (t_cur v = zero_ref \/ idx_get ind (t_cur v) <> None) /\ (t_next v = zero_ref \/ idx_get ind (t_next v) <> None) /\
    (idx_get ind (t_cur v) <> None -> idx_get ind (t_next v) <> None).

Definition JP (votes : list tracker) (bal : list N) (pa : parray) : Prop :=
  FpOk (fps_of pa) /\ (length (pa_idx pa) = length (pa_nodes pa) /\ Forall (fun kv => pa_off pa <= snd kv) (pa_idx pa)) /\
  idx_get (pa_idx pa) zero_ref = None /\ VKnown (pa_idx pa) votes /\ WInv pa votes bal.

Lemma ancf_app fps x j : FpOk fps -> forall f p, (p < length fps)%nat -> ancf f (fps ++ [x]) p j = ancf f fps p j.
Proof.
  intros HF. induction f; intros p Hp; cbn [ancf]; [reflexivity|].
  rewrite nth_error_app1 by exact Hp. destruct (nth_error fps p) as [[q|]|] eqn:E; try reflexivity.
  rewrite IHf; [reflexivity|]. specialize (HF _ _ E). lia.
Qed.
Lemma anc_app fps x p j : FpOk fps -> (p < length fps)%nat -> anc (fps ++ [x]) p j = anc fps p j.
Proof. intros HF Hp. unfold anc. apply ancf_app; assumption. Qed.

Lemma fps_push pa m : fps_of (push_node pa m) = fps_of pa ++ [fpos (pa_off pa) m].
Proof. unfold fps_of, push_node. cbn. rewrite map_app. reflexivity. Qed.

Lemma FpOk_push pa m : Rel pa -> FpOk (fps_of pa) -> (exists r, idx_get (pa_idx pa) r = Some (n_fp m)) ->
  FpOk (fps_of (push_node pa m)).
Proof.
  intros HR HF [r Hr]. rewrite fps_push. intros i p Hi.
  assert (Hlen : length (fps_of pa) = length (pa_nodes pa)) by (unfold fps_of; apply map_length).
  destruct (Nat.lt_ge_cases i (length (fps_of pa))) as [Hlt|Hge].
  - rewrite nth_error_app1 in Hi by exact Hlt. eapply HF; eauto.
  - rewrite nth_error_app2 in Hi by exact Hge. destruct (i - length (fps_of pa))%nat eqn:E; cbn in Hi; [|destruct n; discriminate].
    destruct (r_idx2 pa HR r _ Hr) as [j [x [Hj [_ Hk]]]].
    assert (j < length (pa_nodes pa))%nat by (apply nth_error_Some; congruence).
    unfold fpos in Hi. destruct ((n_fp m =? NONE) || (n_fp m <? pa_off pa)); [discriminate|]. inversion Hi. lia.
Qed.

Lemma idx_set_length m k v : idx_get m k = None -> length (idx_set m k v) = S (length m).
Proof. intros H. unfold idx_set. cbn. rewrite idx_del_absent by exact H. reflexivity. Qed.

Lemma vsum_push pa m (bal : list N) : Rel pa -> FpOk (fps_of pa) -> FpOk (fps_of (push_node pa m)) -> created pa < two64 ->
  idx_get (pa_idx pa) (n_ref m) = None -> idx_get (pa_idx pa) zero_ref = None -> n_ref m <> zero_ref ->
  forall vs i j, (forall v, In v vs -> t_cur v = zero_ref \/ idx_get (pa_idx pa) (t_cur v) <> None) ->
  vsum (fps_of (push_node pa m)) (pa_idx (push_node pa m)) (pa_off pa) vs bal i j =
  if (j <? length (pa_nodes pa))%nat then vsum (fps_of pa) (pa_idx pa) (pa_off pa) vs bal i j
  else if Nat.eqb j (length (pa_nodes pa)) then 0%Z
  else vsum (fps_of (push_node pa m)) (pa_idx (push_node pa m)) (pa_off pa) vs bal i j.
Proof.
  intros HR HF HF' Hc Hfresh Hz Hnz. induction vs as [|v vs IH]; intros i j Hk; cbn [vsum].
  - destruct (j <? _)%nat; [reflexivity|]. destruct (Nat.eqb _ _); reflexivity.
  - rewrite (IH (S i) j) by (intros w Hw; apply Hk; right; exact Hw).
    assert (Hterm : term (fps_of (push_node pa m)) (pa_idx (push_node pa m)) (pa_off pa) (t_cur v) (bal_at bal i) j =
                    if (j <? length (pa_nodes pa))%nat then term (fps_of pa) (pa_idx pa) (pa_off pa) (t_cur v) (bal_at bal i) j
                    else if Nat.eqb j (length (pa_nodes pa)) then 0%Z
                    else term (fps_of (push_node pa m)) (pa_idx (push_node pa m)) (pa_off pa) (t_cur v) (bal_at bal i) j).
    { unfold term, pos_of, push_node. cbn [pa_idx]. rewrite idx_get_set.
      destruct (Hk v (or_introl eq_refl)) as [Hc0|Hc0].
      - rewrite Hc0. replace (ref_eqb zero_ref (n_ref m)) with false by (symmetry; apply ref_eqb_neq; congruence).
        rewrite Hz. destruct (j <? _)%nat; [reflexivity|]. destruct (Nat.eqb _ _); reflexivity.
      - destruct (idx_get (pa_idx pa) (t_cur v)) as [k|] eqn:Ek; [|congruence].
        replace (ref_eqb (t_cur v) (n_ref m)) with false by (symmetry; apply ref_eqb_neq; congruence).
        destruct (r_idx2 pa HR _ _ Ek) as [q [x [Hq [_ Hkq]]]].
        assert (Hql : (q < length (pa_nodes pa))%nat) by (apply nth_error_Some; congruence).
        replace (N.to_nat (k - pa_off pa)) with q by lia.
        assert (Hlen : length (fps_of pa) = length (pa_nodes pa)) by (unfold fps_of; apply map_length).
        change (fps_of (mkPA (pa_sink_nil pa) (pa_off pa) (pa_je pa) (pa_fe pa) (pa_nodes pa ++ [m])
                             (idx_set (pa_idx pa) (n_ref m) (add64 (pa_off pa) (lenN (pa_nodes pa)))) (pa_bs pa) (pa_upd pa)))
          with (fps_of (push_node pa m)).
        destruct (Nat.ltb_spec j (length (pa_nodes pa))).
        + rewrite fps_push, anc_app by (auto; lia). reflexivity.
        + destruct (Nat.eqb_spec j (length (pa_nodes pa))) as [->|]; [|reflexivity].
          destruct (anc (fps_of (push_node pa m)) q (length (pa_nodes pa))) eqn:Ea; [|reflexivity].
          apply anc_le in Ea; [lia|exact HF']. }
    rewrite Hterm. destruct (j <? _)%nat; [reflexivity|]. destruct (Nat.eqb _ _); reflexivity.
Qed.

Lemma JP_push votes bal pa m : Rel pa -> JP votes bal pa -> created pa < two64 -> push_ok pa m -> JP votes bal (push_node pa m).
Proof.
  intros HR [HF [[HL HA] [HZ [HV HW]]]] Hc [Hfresh [Hnz [Hw0 [Hfp _]]]].
  pose proof (FpOk_push pa m HR HF Hfp) as HF'.
  split; [exact HF'|]. split.
  { unfold push_node. cbn [pa_idx pa_nodes pa_off]. split.
    - rewrite idx_set_length by exact Hfresh. rewrite app_length. cbn. lia.
    - unfold idx_set. rewrite idx_del_absent by exact Hfresh. constructor; [|exact HA]. cbn.
      unfold add64. rewrite wrap64_small by exact Hc. lia. }
  split.
  { unfold push_node. cbn [pa_idx]. rewrite idx_get_set. replace (ref_eqb zero_ref (n_ref m)) with false by (symmetry; apply ref_eqb_neq; congruence). exact HZ. }
  assert (Hkeep : forall r, idx_get (pa_idx pa) r <> None -> idx_get (pa_idx (push_node pa m)) r <> None).
  { intros r Hr. unfold push_node. cbn [pa_idx]. rewrite idx_get_set. destruct (ref_eqb r (n_ref m)); [discriminate|exact Hr]. }
  split.
  { intros v Hv. destruct (HV v Hv) as [A [B C]]. split; [destruct A; auto|]. split; [destruct B; auto|].
    intros Hcur. apply Hkeep. apply C. unfold push_node in Hcur. cbn [pa_idx] in Hcur. rewrite idx_get_set in Hcur.
    destruct (ref_eqb (t_cur v) (n_ref m)) eqn:E; [|exact Hcur]. apply ref_eqb_eq in E.
    destruct A as [A|A]; [congruence|]. rewrite E in A. congruence. }
  intros j Hj. change (pa_off (push_node pa m)) with (pa_off pa).
  rewrite (vsum_push pa m bal HR HF HF' Hc Hfresh HZ Hnz votes 0%nat j) by (intros v Hv; apply (HV v Hv)).
  unfold ws, push_node in *. cbn [pa_nodes] in *. rewrite map_app. rewrite app_length in Hj. cbn in Hj.
  unfold dnth. destruct (Nat.ltb_spec j (length (pa_nodes pa))).
  - rewrite app_nth1 by (rewrite map_length; lia). apply HW. lia.
  - assert (j = length (pa_nodes pa)) by lia. subst j. rewrite Nat.eqb_refl.
    rewrite app_nth2 by (rewrite map_length; lia). rewrite map_length, Nat.sub_diag. cbn. rewrite Hw0. apply eqm_refl.
Qed.

Lemma JP_frame votes bal pa pa' :
  pa_nodes pa' = pa_nodes pa -> pa_idx pa' = pa_idx pa -> pa_off pa' = pa_off pa -> JP votes bal pa -> JP votes bal pa'.
Proof.
  intros H1 H2 H3 [A [[B B'] [C [D E]]]]. unfold JP, WInv, fps_of, ws in *. rewrite H1, H2, H3. auto.
Qed.

(* insertions keep the invariant *)
Theorem JP_insert votes bal o pa :
  Rel pa -> JP votes bal pa -> iop_dom (abs pa) o -> created (fst (impl_iop o pa)) < two64 -> JP votes bal (fst (impl_iop o pa)).
Proof. apply (impl_iop_P (JP votes bal) (JP_push votes bal) (JP_frame votes bal)). Qed.

(* ---------- the refresh keeps the invariant ---------- *)
From V Require Import Forkchoice.Wrapper Forkchoice.GhostSpec Forkchoice.GhostProofs Forkchoice.WalkProofs.

Lemma min_index_is m off : Forall (fun kv : (N * N) * N => off <= snd kv) m -> (exists k, In (k, off) m) -> min_index m = off.
Proof.
  intros HA [k Hin]. unfold min_index. destruct m as [|[k0 v0] m]; [destruct Hin|].
  assert (G : forall l acc, Forall (fun kv : (N * N) * N => off <= snd kv) l -> off <= acc ->
              (acc = off \/ exists k, In (k, off) l) -> fold_left (fun acc kv => N.min acc (snd kv)) l acc = off).
  { induction l as [|[k1 v1] l IH]; intros acc Hl Hacc Hex; cbn [fold_left].
    - destruct Hex as [->|[? []]]. reflexivity.
    - inversion Hl; subst. cbn [snd] in *. apply IH; auto; [lia|].
      destruct Hex as [->|[k2 [Hk2|Hk2]]]; [left; lia|inversion Hk2; subst; left; lia|right; eauto]. }
  inversion HA; subst. cbn [snd] in *. apply G; auto. destruct Hin as [Hin|Hin]; [inversion Hin; left; reflexivity|right; eauto].
Qed.
Lemma idx_get_in m k v : idx_get m k = Some v -> In (k, v) m.
Proof.
  induction m as [|[k0 v0] m IH]; cbn; [discriminate|]. destruct (ref_eqb k k0) eqn:E.
  - intros H. inversion H. subst. apply ref_eqb_eq in E. subst. left. reflexivity.
  - intros H. right. apply IH. exact H.
Qed.

Lemma JP_WOk votes bal pa : Rel pa -> JP votes bal pa -> pa_nodes pa <> [] -> WOk pa.
Proof.
  intros HR [HF [[HL HA] [HZ _]]] Hne. constructor; auto.
  - intros r k Hk. destruct (r_idx2 pa HR r k Hk) as [j [n [Hj [_ Hkk]]]].
    assert (j < length (pa_nodes pa))%nat by (apply nth_error_Some; congruence). lia.
  - apply min_index_is; [exact HA|]. destruct (pa_nodes pa) as [|n0 l] eqn:E; [congruence|].
    pose proof (r_idx1 pa HR 0%nat n0) as H0. rewrite E in H0. specialize (H0 eq_refl).
    exists (n_ref n0). apply idx_get_in. rewrite H0. f_equal. lia.
Qed.

(* the second pass and the bookkeeping of ApplyScoreChanges do not touch weights, parents, the maps *)
Definition noBest (n : node) := (n_ref n, n_tp n, n_fp n, n_parent n, n_je n, n_fe n, n_w n).
Definition same_but_best (pa pa' : parray) : Prop :=
  pa_off pa' = pa_off pa /\ pa_idx pa' = pa_idx pa /\ pa_bs pa' = pa_bs pa /\ map noBest (pa_nodes pa') = map noBest (pa_nodes pa).
Lemma sbb_refl pa : same_but_best pa pa. Proof. repeat split. Qed.
Lemma sbb_trans a b c : same_but_best a b -> same_but_best b c -> same_but_best a c.
Proof. unfold same_but_best. intuition congruence. Qed.
Lemma noBest_set_best n a b : noBest (set_best n a b) = noBest n. Proof. reflexivity. Qed.
Lemma noBest_proj n n' : noBest n' = noBest n -> n_w n' = n_w n /\ fpos 0 n' = fpos 0 n /\ forall off, fpos off n' = fpos off n.
Proof. unfold noBest, fpos. intros H. inversion H. repeat split; intros; congruence. Qed.
Local Opaque noBest.
Lemma sbb_views pa pa' : same_but_best pa pa' ->
  ws pa' = ws pa /\ fps_of pa' = fps_of pa /\ length (pa_nodes pa') = length (pa_nodes pa).
Proof.
  intros [Ho [_ [_ Hn]]]. unfold ws, fps_of. rewrite Ho. revert Hn.
  generalize (pa_nodes pa) as l. generalize (pa_nodes pa') as l'.
  induction l' as [|a l' IH]; intros l H; destruct l as [|b l]; cbn [map length] in *; try discriminate; [auto|].
  assert (H1 : noBest a = noBest b) by congruence. assert (H2 : map noBest l' = map noBest l) by congruence.
  destruct (IH l H2) as [A [B C]]. destruct (noBest_proj _ _ H1) as [W [_ F]]. rewrite A, B, C, W, F. auto.
Qed.
Lemma noBest_updN l k (x y : node) : nthN l k = Some y -> noBest x = noBest y -> map noBest (updN l k x) = map noBest l.
Proof.
  unfold updN, nthN. destruct (k <? lenN l); [|discriminate]. generalize (N.to_nat k) as i. clear k.
  induction l as [|a l IH]; intros i Hi Hs; [destruct i; discriminate|].
  destruct i; cbn in *; [inversion Hi; subst; rewrite Hs; reflexivity|]. f_equal. apply IH; assumption.
Qed.
Lemma maybeUpdate_sbb fx p c pa : same_but_best pa (fst (maybeUpdate fx p c pa)).
Proof.
  unfold maybeUpdate, mbind, get, lift_o, ret, put.
  destruct (getNode fx pa c) as [child| | | |]; try apply sbb_refl.
  destruct (getNode fx pa p) as [parent| | | |] eqn:Ep; try apply sbb_refl.
  destruct (nodeLeadsToViableHead fx pa child) as [cl| | | |]; try apply sbb_refl.
  assert (Hput : forall a b, same_but_best pa (with_nodes pa (updN (pa_nodes pa) (p - pa_off pa) (set_best parent a b)))).
  { intros a b. unfold same_but_best, with_nodes. cbn. repeat split.
    eapply noBest_updN; [eapply WalkProofs.getNode_nth; eauto|apply noBest_set_best]. }
  repeat match goal with
         | |- same_but_best pa (fst (let (_, _) := (if ?b then _ else _) _ in _)) => destruct b
         | |- same_but_best pa (fst (let (_, _) := match ?x with _ => _ end in _)) => destruct x
         | |- same_but_best pa (fst (match ?x with _ => _ end)) => destruct x
         | |- same_but_best pa (fst (match ?x with _ => _ end _)) => destruct x
         end; cbn [fst]; try apply sbb_refl; try apply Hput.
Qed.
Lemma connections_loop_sbb fx : forall k pa, same_but_best pa (fst (connections_loop fx k pa)).
Proof.
  induction k; intros pa; cbn [connections_loop]; [apply sbb_refl|].
  unfold mbind at 1. unfold get at 1. unfold mbind at 1. unfold lift_o at 1.
  destruct (rawNode pa (N.of_nat k)) as [node| | | |]; try apply sbb_refl.
  unfold mbind at 1.
  destruct (negb (n_fp node =? NONE) && _).
  - pose proof (maybeUpdate_sbb fx (n_fp node) (add64 (pa_off pa) (N.of_nat k)) pa) as H.
    destruct (maybeUpdate fx (n_fp node) (add64 (pa_off pa) (N.of_nat k)) pa) as [pa1 o]. cbn [fst] in H.
    destruct o; try exact H. eapply sbb_trans; [exact H|apply IHk].
  - cbn [ret]. apply IHk.
Qed.

Lemma JP_views votes bal pa pa' :
  ws pa' = ws pa -> fps_of pa' = fps_of pa -> length (pa_nodes pa') = length (pa_nodes pa) ->
  pa_idx pa' = pa_idx pa -> pa_off pa' = pa_off pa -> JP votes bal pa -> JP votes bal pa'.
Proof.
  intros H1 H2 H3 H4 H5 [A [[B B'] [C [D E]]]]. unfold JP, WInv in *. rewrite H1, H2, H3, H4, H5. auto.
Qed.

(* ---------- the refresh keeps the invariant (continued) ---------- *)
Local Transparent noBest.
Definition abs_of_noW (x : N * N * N * N * N * N * N * N * N) : snode :=
  let '(r, _, _, p, je, fe, _, _) := x in mkSN r p je fe.
Definition abs_of_noBest (x : N * N * N * N * N * N * N * Z) : snode :=
  let '(r, _, _, p, je, fe, _) := x in mkSN r p je fe.
Lemma abs_noW l : map abs_node l = map abs_of_noW (map noW l).
Proof. rewrite map_map. apply map_ext. intros n. reflexivity. Qed.
Lemma abs_noBest l : map abs_node l = map abs_of_noBest (map noBest l).
Proof. rewrite map_map. apply map_ext. intros n. reflexivity. Qed.
Lemma same_but_w_abs pa pa' : same_but_w pa pa' -> abs pa' = abs pa.
Proof. intros [_ [_ [_ [_ [_ [_ [_ H]]]]]]]. unfold abs. rewrite !abs_noW, H. reflexivity. Qed.
Lemma sbb_abs pa pa' : same_but_best pa pa' -> abs pa' = abs pa.
Proof. intros [_ [_ [_ H]]]. unfold abs. rewrite !abs_noBest, H. reflexivity. Qed.

Lemma Rel_same_abs pa pa' : pa_idx pa' = pa_idx pa -> pa_bs pa' = pa_bs pa -> pa_off pa' = pa_off pa -> abs pa' = abs pa ->
  Rel pa -> Rel pa'.
Proof.
  intros Hi Hb Ho Ha HR.
  assert (Hnth : forall i n', nth_error (pa_nodes pa') i = Some n' -> exists n, nth_error (pa_nodes pa) i = Some n /\ n_ref n = n_ref n').
  { intros i n' Hn'. assert (E : nth_error (abs pa') i = Some (abs_node n')) by (unfold abs; rewrite nth_error_map, Hn'; reflexivity).
    rewrite Ha in E. unfold abs in E. rewrite nth_error_map in E. destruct (nth_error (pa_nodes pa) i) as [n|]; [|discriminate].
    exists n. split; [reflexivity|]. cbn in E. inversion E. reflexivity. }
  constructor.
  - intros i n' Hn'. destruct (Hnth i n' Hn') as [n [A B]]. rewrite Hi, Ho, <- B. eapply r_idx1; eauto.
  - intros r k Hk. rewrite Hi in Hk. destruct (r_idx2 pa HR r k Hk) as [i [n [A [B C]]]].
    assert (E : nth_error (abs pa) i = Some (abs_node n)) by (unfold abs; rewrite nth_error_map, A; reflexivity).
    rewrite <- Ha in E. unfold abs in E. rewrite nth_error_map in E. destruct (nth_error (pa_nodes pa') i) as [n'|] eqn:En'; [|discriminate].
    exists i, n'. rewrite Ho. split; [exact En'|]. split; [|exact C]. cbn in E. inversion E. congruence.
  - intros r. rewrite Hb, Ha. apply (r_bs pa HR).
Qed.

Lemma VKnown_refreshed ind vs vs' : VKnown ind vs -> Forall2 (refreshed ind) vs vs' -> VKnown ind vs'.
Proof.
  intros HV HF. induction HF as [|v v' l l' Hr HF IH]; [intros ? []|].
  assert (HVl : VKnown ind l) by (intros x Hx; apply HV; right; exact Hx).
  intros x [<-|Hx]; [|apply IH; auto].
  destruct (HV v (or_introl eq_refl)) as [A [B C]]. destruct Hr as [->|[-> Hn]]; [auto|].
  cbn [t_cur t_next]. split; [right; exact Hn|]. split; [right; exact Hn|]. intros _. exact Hn.
Qed.

(* C09 weights_inv, the refresh: ComputeDeltas + ApplyScoreChanges (any epochs) re-establish the invariant under the new balances;
   the first pass does not panic, and whatever the second pass returns the weights are right and the tree is untouched *)
Theorem JP_refresh st bal nb_ je fe pa :
  Rel pa -> pa_nodes pa <> [] -> JP (vs_votes st) bal pa ->
  exists st' d pa' o,
    ComputeDeltas fixed (pa_idx pa) bal nb_ st = (st', Ok d) /\ ApplyScoreChanges fixed d je fe pa = (pa', o) /\
    JP (vs_votes st') nb_ pa' /\ abs pa' = abs pa /\ Rel pa' /\ vs_changed st' = false.
Proof.
  intros HR Hne HJ. pose proof (JP_WOk _ _ _ HR HJ Hne) as HW.
  destruct HJ as [HF [[HL HA] [HZ [HV HWI]]]].
  assert (HVK : VotesKnown (pa_idx pa) (vs_votes st)) by (intros v Hv; apply (HV v Hv)).
  set (pae := with_epochs pa je fe).
  assert (HWe : WOk pae) by (destruct HW; constructor; assumption).
  destruct (refresh_weights pae st bal nb_ HWe HVK HWI) as [st' [d [pa1 [d' [HC [Hd [Hloop [HS [HW1 [Hch HF2]]]]]]]]]].
  change (pa_idx pae) with (pa_idx pa) in HC. change (length (pa_nodes pae)) with (length (pa_nodes pa)) in Hd, Hloop.
  pose proof (vote_once_refresh fixed (pa_idx pa) bal nb_ st st' d HC) as [HRf _].
  pose proof (same_but_w_fps _ _ HS) as Hf1. pose proof (same_but_w_len _ _ HS) as Hl1. pose proof (same_but_w_abs _ _ HS) as Ha1.
  assert (Hi1 : pa_idx pa1 = pa_idx pa /\ pa_off pa1 = pa_off pa /\ pa_bs pa1 = pa_bs pa).
  { destruct HS as [_ [Ho [_ [_ [Hi [Hb _]]]]]]. auto. }
  destruct Hi1 as [Hi1 [Ho1 Hb1]].
  assert (HJ1 : JP (vs_votes st') nb_ pa1).
  { split; [rewrite Hf1; exact HF|]. split; [rewrite Hi1, Ho1, Hl1; split; assumption|].
    split; [rewrite Hi1; exact HZ|]. split; [rewrite Hi1; eapply VKnown_refreshed; eauto|exact HW1]. }
  pose proof (connections_loop_sbb fixed (length (pa_nodes pa)) pa1) as Hsb.
  exists st', d.
  unfold ApplyScoreChanges. unfold mbind at 1. unfold get at 1.
  replace (length d =? length (pa_nodes pa))%nat with true by (symmetry; apply Nat.eqb_eq; exact Hd). cbn [negb].
  unfold mbind at 1. cbn [put]. fold pae. unfold mbind at 1. rewrite Hloop. unfold mbind at 1.
  destruct (connections_loop fixed (length (pa_nodes pa)) pa1) as [pa2 o2]. cbn [fst] in Hsb.
  destruct (sbb_views _ _ Hsb) as [V1 [V2 V3]]. pose proof (sbb_abs _ _ Hsb) as Ha2. destruct Hsb as [S1 [S2 [S3 S4]]].
  assert (HJ2 : JP (vs_votes st') nb_ pa2) by (apply (JP_views _ _ pa1 pa2); auto).
  assert (HR2 : Rel pa2).
  { apply (Rel_same_abs pa pa2); try congruence. rewrite Ha2, Ha1. reflexivity. }
  destruct o2.
  - unfold mbind, get, put. eexists (with_upd pa2 true), (Ok tt). split; [exact HC|]. split; [reflexivity|].
    split; [apply (JP_views _ _ pa2 (with_upd pa2 true)); auto|]. split; [change (abs (with_upd pa2 true)) with (abs pa2); rewrite Ha2, Ha1; reflexivity|].
    split; [apply Rel_with_upd; exact HR2|exact Hch].
  - exists pa2, Err. split; [exact HC|]. split; [reflexivity|]. split; [exact HJ2|]. split; [rewrite Ha2, Ha1; reflexivity|]. split; [exact HR2|exact Hch].
  - exists pa2, (Panic p). split; [exact HC|]. split; [reflexivity|]. split; [exact HJ2|]. split; [rewrite Ha2, Ha1; reflexivity|]. split; [exact HR2|exact Hch].
  - exists pa2, Blocked. split; [exact HC|]. split; [reflexivity|]. split; [exact HJ2|]. split; [rewrite Ha2, Ha1; reflexivity|]. split; [exact HR2|exact Hch].
  - exists pa2, OutOfFuel. split; [exact HC|]. split; [reflexivity|]. split; [exact HJ2|]. split; [rewrite Ha2, Ha1; reflexivity|]. split; [exact HR2|exact Hch].
Qed.

(* ---------- an accepted attestation keeps the invariant (it only changes a pending vote) ---------- *)
Lemma vsum_cur_eq fps ind off bal : forall vs1 vs2, map t_cur vs1 = map t_cur vs2 ->
  forall i j, vsum fps ind off vs1 bal i j = vsum fps ind off vs2 bal i j.
Proof.
  induction vs1 as [|a vs1 IH]; intros [|b vs2] H i j; cbn [map] in H; try discriminate; [reflexivity|].
  cbn [vsum]. assert (t_cur a = t_cur b) by congruence. assert (map t_cur vs1 = map t_cur vs2) by congruence.
  rewrite H0, (IH vs2 H1). reflexivity.
Qed.
Lemma vsum_app_zero fps ind off bal k : idx_get ind zero_ref = None -> forall vs i j,
  vsum fps ind off (vs ++ repeat zero_tr k) bal i j = vsum fps ind off vs bal i j.
Proof.
  intros Hz. induction vs as [|a vs IH]; intros i j; cbn [app vsum].
  - revert i. induction k; intros i; cbn [repeat vsum]; [reflexivity|]. rewrite IHk. unfold term, pos_of. cbn [t_cur zero_tr]. rewrite Hz. reflexivity.
  - rewrite IH. reflexivity.
Qed.
Lemma map_cur_updN (l : list tracker) ix t t' : nthN l ix = Some t -> t_cur t' = t_cur t -> map t_cur (updN l ix t') = map t_cur l.
Proof.
  unfold updN, nthN. destruct (ix <? lenN l); [|discriminate]. generalize (N.to_nat ix) as i. clear ix.
  induction l as [|a l IH]; intros i Hi Hc; [destruct i; discriminate|].
  destruct i; cbn in *; [inversion Hi; subst; rewrite Hc; reflexivity|]. f_equal. apply IH; assumption.
Qed.
Lemma In_upd_nth {A} (l : list A) : forall i y x, In x (upd_nth l i y) -> x = y \/ In x l.
Proof.
  induction l as [|a l IH]; intros i y x H; [destruct H|]. destruct i; cbn in H.
  - destruct H as [<-|H]; [left; reflexivity|right; right; exact H].
  - destruct H as [<-|H]; [right; left; reflexivity|]. destruct (IH i y x H); [left; assumption|right; right; assumption].
Qed.

Theorem JP_attest st ix r s st' b bal pa :
  JP (vs_votes st) bal pa -> idx_get (pa_idx pa) (r, s) <> None ->
  vs_ProcessAttestation ix r s st = (st', Ok b) -> JP (vs_votes st') bal pa.
Proof.
  intros [HF [HL [HZ [HV HW]]]] Hknown. unfold vs_ProcessAttestation, mbind, get.
  destruct (validator_limit <? ix); [discriminate|]. destruct (vs_spe st =? 0); [discriminate|].
  set (votes := if lenN (vs_votes st) <=? ix then vs_votes st ++ repeat zero_tr (N.to_nat (ix + 1 - lenN (vs_votes st))) else vs_votes st).
  assert (HVe : VKnown (pa_idx pa) votes).
  { unfold votes. destruct (lenN (vs_votes st) <=? ix); [|exact HV]. intros v Hv. apply in_app_or in Hv. destruct Hv as [Hv|Hv]; [apply HV; exact Hv|].
    apply repeat_spec in Hv. subst v. cbn. split; [left; reflexivity|]. split; [left; reflexivity|]. intros Hc. congruence. }
  assert (HSe : forall j, vsum (fps_of pa) (pa_idx pa) (pa_off pa) votes bal 0 j = vsum (fps_of pa) (pa_idx pa) (pa_off pa) (vs_votes st) bal 0 j).
  { intros j. unfold votes. destruct (lenN (vs_votes st) <=? ix); [apply vsum_app_zero; exact HZ|reflexivity]. }
  destruct (nthN votes ix) as [vote|] eqn:Ev; [|discriminate].
  assert (Hvin : In vote votes).
  { unfold nthN in Ev. destruct (ix <? lenN votes); [|discriminate]. eapply nth_error_In; eauto. }
  destruct ((t_nexte vote <? s / vs_spe st) || ((s / vs_spe st =? 0) && tr_is_zero vote)); cbn [put ret fst snd]; intros H; inversion H; subst st' b; clear H; cbn [vs_votes].
  - set (t' := mkTr (t_cur vote) (r, s) (t_cure vote) (s / vs_spe st)).
    split; [exact HF|]. split; [exact HL|]. split; [exact HZ|]. split.
    + intros v Hv. unfold updN in Hv. destruct (ix <? lenN votes); [|apply HVe; exact Hv].
      apply In_upd_nth in Hv. destruct Hv as [->|Hv]; [|apply HVe; exact Hv].
      destruct (HVe vote Hvin) as [A _]. unfold t'. cbn. split; [exact A|]. split; [right; exact Hknown|]. intros _. exact Hknown.
    + intros j Hj. rewrite (vsum_cur_eq _ _ _ bal (updN votes ix t') votes (map_cur_updN votes ix vote t' Ev eq_refl)).
      rewrite HSe. apply HW. exact Hj.
  - split; [exact HF|]. split; [exact HL|]. split; [exact HZ|]. split; [exact HVe|].
    intros j Hj. rewrite HSe. apply HW. exact Hj.
Qed.

(* ---------- weights_inv over prune-free histories ---------- *)
(* the states reached from one satisfying the invariant by insertions in the domain, accepted attestations and refreshes *)
Inductive wreach : parray -> vstore -> list N -> Prop :=
| wr_base pa st bal : Rel pa -> pa_nodes pa <> [] -> JP (vs_votes st) bal pa -> wreach pa st bal
| wr_insert pa st bal o : wreach pa st bal -> iop_dom (abs pa) o -> created (fst (impl_iop o pa)) < two64 ->
    wreach (fst (impl_iop o pa)) st bal
| wr_attest pa st bal ix r s st' b : wreach pa st bal -> idx_get (pa_idx pa) (r, s) <> None ->
    vs_ProcessAttestation ix r s st = (st', Ok b) -> wreach pa st' bal
| wr_refresh pa st bal nb_ je fe st' d pa' o : wreach pa st bal ->
    ComputeDeltas fixed (pa_idx pa) bal nb_ st = (st', Ok d) -> ApplyScoreChanges fixed d je fe pa = (pa', o) ->
    wreach pa' st' nb_.

(* C09 weights_inv, for every state reached without pruning: every node weighs (mod 2^64) the sum of the balances of the validators
   whose counted vote lies in its fork-choice subtree; the array stays related to its tree *)
Theorem weights_inv_reach : forall pa st bal, wreach pa st bal ->
  Rel pa /\ pa_nodes pa <> [] /\ JP (vs_votes st) bal pa.
Proof.
  induction 1 as [pa st bal HR Hne HJ | pa st bal o Hw IH Hdom Hc | pa st bal ix r s st' b Hw IH Hk Hatt
                  | pa st bal nb_ je fe st' d pa' o Hw IH HC HA].
  - auto.
  - destruct IH as [HR [Hne HJ]]. destruct (impl_iop_sim o pa HR Hdom Hc) as [_ [HR' [_ Hoff]]].
    split; [exact HR'|]. split; [|apply JP_insert; auto].
    pose proof (impl_iop_created o pa) as Hm. unfold created, lenN in Hm. rewrite Hoff in Hm.
    intros E. rewrite E in Hm. destruct (pa_nodes pa); [congruence|]. cbn in Hm. lia.
  - destruct IH as [HR [Hne HJ]]. split; [exact HR|]. split; [exact Hne|]. eapply JP_attest; eauto.
  - destruct IH as [HR [Hne HJ]].
    destruct (JP_refresh st bal nb_ je fe pa HR Hne HJ) as [st'' [d'' [pa'' [o'' [HC' [HA' [HJ' [Habs [HR' _]]]]]]]]].
    rewrite HC in HC'. inversion HC'. subst st'' d''. rewrite HA in HA'. inversion HA'. subst pa'' o''.
    split; [exact HR'|]. split; [|exact HJ'].
    intros E. apply Hne. assert (L : length (abs pa') = length (abs pa)) by (rewrite Habs; reflexivity).
    unfold abs in L. rewrite !map_length, E in L. destruct (pa_nodes pa); [reflexivity|discriminate].
Qed.
Corollary weights_inv_partial : forall pa st bal, wreach pa st bal -> WInv pa (vs_votes st) bal.
Proof. intros pa st bal H. apply weights_inv_reach in H. destruct H as [_ [_ [_ [_ [_ [_ H]]]]]]. exact H. Qed.

(* a fresh array with an empty vote store satisfies the invariant (anchor other than the zero ref) *)
Lemma JP_new_array parent r s je fe sn bal : (r, s) <> zero_ref -> JP [] bal (new_array parent r s je fe sn).
Proof.
  intros Hnz. split.
  { intros i p Hi. unfold fps_of, new_array in Hi. cbn in Hi. destruct i; cbn in Hi; [discriminate|destruct i; discriminate]. }
  split; [cbn; split; [reflexivity|constructor; [cbn; lia|constructor]]|].
  split. { cbn. replace (ref_eqb zero_ref (r, s)) with false by (symmetry; apply ref_eqb_neq; congruence). reflexivity. }
  split; [intros v []|]. intros j Hj. cbn in Hj. assert (j = 0%nat) by lia. subst j. cbn. apply eqm_refl.
Qed.
