(* Impl model of /repo/eth2/forkchoice/proto/proto_array.go (ProtoArray).
   Mirrors the Go code statement by statement: the node slice with indexOffset, the two maps, getNode with its
   bound check, every raw `pr.nodes[i]` as a possible Panic, the gap-filling ProcessSlot, ProcessBlock,
   ApplyScoreChanges in two passes, maybeUpdateBestChildAndDescendant, FindHead, InSubtree/inSubtree,
   CanonicalChain, ClosestToSlot (binary search on fuel), CanonAtSlot, Search, OnPrune with the sink as a parameter.
   The record [fixes] selects, defect by defect, the pinned snapshot's statement or the repaired one
   (/verif/fixes/C*-*.diff): [fixed] is the code the theorems are about, [pinned] the snapshot the
   `_refuted` witnesses are about. NO proofs here. *)
From Coq Require Import NArith ZArith List Bool.
From V Require Import Base.U64 Base.Outcome.
Import ListNotations.
Local Open Scope N_scope.

(* ---------- values ---------- *)
(* (notations, not definitions: the five kinds of numbers are all plain N for the type checker) *)
Notation root := N (only parsing).      (* 32-byte roots as big-endian numbers: bytes.Compare = N.compare *)
Notation slot := N (only parsing).
Notation epoch := N (only parsing).
Notation index := N (only parsing).     (* NodeIndex uint64 *)
Notation ref := (N * N)%type (only parsing).   (* NodeRef{Root, Slot} *)
Definition NONE : index := max64.
Definition ref_eqb (a b : ref) : bool := (fst a =? fst b) && (snd a =? snd b).
Definition zero_ref : ref := (0, 0).

(* SignedGwei = int64 *)
Definition wrap_s64 (z : Z) : Z := ((z + 9223372036854775808) mod 18446744073709551616 - 9223372036854775808)%Z.
Definition to_s64 (n : N) : Z := wrap_s64 (Z.of_N n).
Definition sadd64 (a b : Z) : Z := wrap_s64 (a + b).
Definition ssub64 (a b : Z) : Z := wrap_s64 (a - b).

Record node := mkNode {
  n_ref : ref; n_tp : index; n_fp : index; n_parent : root;
  n_je : epoch; n_fe : epoch; n_w : Z; n_bc : index; n_bd : index }.

Definition set_w (n : node) (w : Z) : node :=
  mkNode (n_ref n) (n_tp n) (n_fp n) (n_parent n) (n_je n) (n_fe n) w (n_bc n) (n_bd n).
Definition set_best (n : node) (bc bd : index) : node :=
  mkNode (n_ref n) (n_tp n) (n_fp n) (n_parent n) (n_je n) (n_fe n) (n_w n) bc bd.
Definition set_fp (n : node) (fp : index) : node :=
  mkNode (n_ref n) (n_tp n) fp (n_parent n) (n_je n) (n_fe n) (n_w n) (n_bc n) (n_bd n).

(* ---------- which statements of the snapshot are repaired ---------- *)
Record fixes := mkFixes {
  f_insub_none : bool;      (* C11-insubtree-none-shortcut *)
  f_getnode : bool;         (* C11-getnode-bound *)
  f_rawidx : bool;          (* C11-raw-index-offset *)
  f_insub_slot : bool;      (* C11-insubtree-same-slot *)
  f_apply_guard : bool;     (* C09-applyscore-pruned-parent *)
  f_deltas_off : bool;      (* C09-computedeltas-offset *)
  f_att_target : bool;      (* C09-attestation-target-known *)
  f_nonviable : bool;       (* C09-bestchild-nonviable *)
  f_relock : bool;          (* C10-updatejustified-relock *)
  f_argorder : bool;        (* C10-updatejustified-argorder *)
  f_prune_loop : bool;      (* C10-prune-loop-index *)
  f_prune_nilsink : bool;   (* C10-prune-nil-sink *)
  f_prune_maps : bool;      (* C10-prune-maps *)
  f_prune_canon : bool;     (* C10-prune-canonical-flag *)
  f_prune_reparent : bool;  (* C10-prune-reparent *)
  f_prune_partial : bool;   (* C10-prune-partial-reparent *)
  f_gap_head : bool         (* C10-gap-anchor-prune-head *)
}.
Definition fixed : fixes := mkFixes true true true true true true true true true true true true true true true true true.
Definition pinned : fixes := mkFixes false false false false false false false false false false false false false false false false false.

(* ---------- slices and maps ---------- *)
Definition lenN {A} (l : list A) : N := N.of_nat (length l).
Definition nthN {A} (l : list A) (i : N) : option A :=
  if i <? lenN l then nth_error l (N.to_nat i) else None.
Fixpoint upd_nth {A} (l : list A) (i : nat) (x : A) : list A :=
  match l, i with
  | [], _ => []
  | _ :: t, O => x :: t
  | h :: t, S i' => h :: upd_nth t i' x
  end.
Definition updN {A} (l : list A) (i : N) (x : A) : list A :=
  if i <? lenN l then upd_nth l (N.to_nat i) x else l.

Definition imap := list (ref * index).
Fixpoint idx_get (m : imap) (k : ref) : option index :=
  match m with
  | [] => None
  | (k', v) :: m' => if ref_eqb k k' then Some v else idx_get m' k
  end.
Fixpoint idx_del (m : imap) (k : ref) : imap :=
  match m with
  | [] => []
  | (k', v) :: m' => if ref_eqb k k' then idx_del m' k else (k', v) :: idx_del m' k
  end.
Definition idx_set (m : imap) (k : ref) (v : index) : imap := (k, v) :: idx_del m k.
(* Go: m[k] of a missing key is the zero value *)
Definition idx_get0 (m : imap) (k : ref) : index := match idx_get m k with Some v => v | None => 0 end.

Definition smap := list (root * slot).
Fixpoint bs_get (m : smap) (k : root) : option slot :=
  match m with
  | [] => None
  | (k', v) :: m' => if k =? k' then Some v else bs_get m' k
  end.
Fixpoint bs_del (m : smap) (k : root) : smap :=
  match m with
  | [] => []
  | (k', v) :: m' => if k =? k' then bs_del m' k else (k', v) :: bs_del m' k
  end.
Definition bs_set (m : smap) (k : root) (v : slot) : smap := (k, v) :: bs_del m k.

Record parray := mkPA {
  pa_sink_nil : bool; pa_off : index; pa_je : epoch; pa_fe : epoch;
  pa_nodes : list node; pa_idx : imap; pa_bs : smap; pa_upd : bool }.

Definition with_nodes (pa : parray) (ns : list node) : parray :=
  mkPA (pa_sink_nil pa) (pa_off pa) (pa_je pa) (pa_fe pa) ns (pa_idx pa) (pa_bs pa) (pa_upd pa).
Definition with_upd (pa : parray) (b : bool) : parray :=
  mkPA (pa_sink_nil pa) (pa_off pa) (pa_je pa) (pa_fe pa) (pa_nodes pa) (pa_idx pa) (pa_bs pa) b.
Definition with_epochs (pa : parray) (je fe : epoch) : parray :=
  mkPA (pa_sink_nil pa) (pa_off pa) je fe (pa_nodes pa) (pa_idx pa) (pa_bs pa) (pa_upd pa).

(* ---------- state-and-outcome monad: an error return keeps the mutations made so far ---------- *)
Definition M (S A : Type) : Type := S -> S * outcome A.
Definition ret {S A} (a : A) : M S A := fun s => (s, Ok a).
Definition fail {S A} (o : outcome A) : M S A := fun s => (s, o).
Definition mbind {S A B} (m : M S A) (f : A -> M S B) : M S B :=
  fun s => match m s with
           | (s', Ok a) => f a s'
           | (s', Err) => (s', Err)
           | (s', Panic p) => (s', Panic p)
           | (s', Blocked) => (s', Blocked)
           | (s', OutOfFuel) => (s', OutOfFuel)
           end.
Definition get {S} : M S S := fun s => (s, Ok s).
Definition put {S} (s : S) : M S unit := fun _ => (s, Ok tt).
Definition lift_o {S A} (o : outcome A) : M S A := fun s => (s, o).
Definition modify {S} (f : S -> S) : M S unit := fun s => (f s, Ok tt).
Declare Scope m_scope.
Notation "x <- m ;; f" := (mbind m (fun x => f)) (at level 61, m at next level, right associativity) : m_scope.
Notation "m ;;; f" := (mbind m (fun _ => f)) (at level 61, right associativity) : m_scope.
Open Scope m_scope.

(* ---------- NewProtoArray ---------- *)
Definition new_array (parent : root) (blockRoot : root) (blockSlot : slot) (je fe : epoch) (sink_nil : bool) : parray :=
  mkPA sink_nil 0 je fe
       [mkNode (blockRoot, blockSlot) NONE NONE parent je fe 0%Z NONE NONE]
       [((blockRoot, blockSlot), 0)] [(blockRoot, blockSlot)] true.

(* ---------- getNode ---------- *)
Definition getNode (fx : fixes) (pa : parray) (ix : index) : outcome node :=
  if ix <? pa_off pa then Err else
  let i := ix - pa_off pa in
  if (if f_getnode fx then lenN (pa_nodes pa) <=? i else lenN (pa_nodes pa) <? i) then Err else
  match nthN (pa_nodes pa) i with
  | Some n => Ok n
  | None => Panic IndexOOR
  end.

(* raw pr.nodes[e] with e a uint64 expression *)
Definition rawNode (pa : parray) (i : N) : outcome node :=
  match nthN (pa_nodes pa) i with Some n => Ok n | None => Panic IndexOOR end.
(* pr.nodes[ix] as the snapshot writes it / pr.nodes[ix - offset] as repaired *)
Definition rawNodeAt (fx : fixes) (pa : parray) (ix : index) : outcome node :=
  rawNode pa (if f_rawidx fx then sub64 ix (pa_off pa) else ix).

Definition viable (pa : parray) (n : node) : bool :=
  ((n_je n =? pa_je pa) || (pa_je pa =? 0)) && ((n_fe n =? pa_fe pa) || (pa_fe pa =? 0)).

Definition nodeLeadsToViableHead (fx : fixes) (pa : parray) (n : node) : outcome bool :=
  if negb (n_bd n =? NONE) then
    bind (getNode fx pa (n_bd n)) (fun best => Ok (viable pa best))
  else Ok (viable pa n).

(* ---------- maybeUpdateBestChildAndDescendant ---------- *)
Inductive change := NoChange | ToNone | ToChild.

Definition maybeUpdate (fx : fixes) (parentIndex childIndex : index) : M parray unit :=
  pa <- get ;;
  child <- lift_o (getNode fx pa childIndex) ;;
  parent <- lift_o (getNode fx pa parentIndex) ;;
  childLeads <- lift_o (nodeLeadsToViableHead fx pa child) ;;
  ch <- (if negb (n_bc parent =? NONE) then
           if n_bc parent =? childIndex then
             ret (if negb childLeads then ToNone else ToChild)
           else
             bestChild <- lift_o (getNode fx pa (n_bc parent)) ;;
             bestLeads <- lift_o (nodeLeadsToViableHead fx pa bestChild) ;;
             if childLeads && negb bestLeads then ret ToChild
             else if negb childLeads && bestLeads then ret NoChange
             else if f_nonviable fx && negb childLeads && negb bestLeads then ret ToNone
             else if (n_w child =? n_w bestChild)%Z then
               ret (if fst (n_ref bestChild) <? fst (n_ref child) then ToChild else NoChange)
             else ret (if (n_w bestChild <=? n_w child)%Z then ToChild else NoChange)
         else ret (if childLeads then ToChild else NoChange)) ;;
  match ch with
  | NoChange => ret tt
  | ToNone => put (with_nodes pa (updN (pa_nodes pa) (parentIndex - pa_off pa) (set_best parent NONE NONE)))
  | ToChild =>
      let bd := if n_bd child =? NONE then childIndex else n_bd child in
      put (with_nodes pa (updN (pa_nodes pa) (parentIndex - pa_off pa) (set_best parent childIndex bd)))
  end.

(* the second loop of ApplyScoreChanges = updateConnections: i from len-1 down to 0 *)
Fixpoint connections_loop (fx : fixes) (k : nat) : M parray unit :=
  match k with
  | O => ret tt
  | S i =>
      pa <- get ;;
      node <- lift_o (rawNode pa (N.of_nat i)) ;;
      (if negb (n_fp node =? NONE) && (if f_apply_guard fx then pa_off pa <=? n_fp node else true)
       then maybeUpdate fx (n_fp node) (add64 (pa_off pa) (N.of_nat i))
       else ret tt) ;;;
      connections_loop fx i
  end.

Definition updateConnections (fx : fixes) : M parray unit :=
  pa <- get ;;
  connections_loop fx (length (pa_nodes pa)) ;;;
  pa' <- get ;;
  put (with_upd pa' true).

(* first loop of ApplyScoreChanges; the deltas slice is mutated in place *)
Fixpoint weights_loop (fx : fixes) (k : nat) (deltas : list Z) : M parray (list Z) :=
  match k with
  | O => ret deltas
  | S i =>
      pa <- get ;;
      match nth_error deltas i with
      | None => fail (Panic IndexOOR)
      | Some delta =>
          node <- lift_o (rawNode pa (N.of_nat i)) ;;
          put (with_nodes pa (upd_nth (pa_nodes pa) i (set_w node (sadd64 (n_w node) delta)))) ;;;
          if negb (n_fp node =? NONE) && (if f_apply_guard fx then pa_off pa <=? n_fp node else true) then
            let j := sub64 (n_fp node) (pa_off pa) in
            match nthN deltas j with
            | None => fail (Panic IndexOOR)
            | Some dp => weights_loop fx i (updN deltas j (sadd64 dp delta))
            end
          else weights_loop fx i deltas
      end
  end.

Definition ApplyScoreChanges (fx : fixes) (deltas : list Z) (je fe : epoch) : M parray unit :=
  pa <- get ;;
  if negb (length deltas =? length (pa_nodes pa))%nat then fail Err else
  put (with_epochs pa je fe) ;;;
  weights_loop fx (length (pa_nodes pa)) deltas ;;;
  connections_loop fx (length (pa_nodes pa)) ;;;
  pa' <- get ;;
  put (with_upd pa' true).

(* ---------- ProcessSlot ---------- *)
Definition fresh_node (r : ref) (parentIndex : index) (parent : root) (je fe : epoch) : node :=
  mkNode r parentIndex parentIndex parent je fe 0%Z NONE NONE.

Definition push_node (pa : parray) (n : node) : parray :=
  mkPA (pa_sink_nil pa) (pa_off pa) (pa_je pa) (pa_fe pa) (pa_nodes pa ++ [n])
       (idx_set (pa_idx pa) (n_ref n) (add64 (pa_off pa) (lenN (pa_nodes pa)))) (pa_bs pa) (pa_upd pa).

(* for i := from; i < slot; i++ : fuel = slot - from *)
Fixpoint gap_loop (fuel : nat) (parent : root) (i slot : slot) (je fe : epoch) (parentIndex : index) (pa : parray)
  : parray * index :=
  match fuel with
  | O => (pa, parentIndex)
  | S fuel' =>
      if i <? slot then
        match idx_get (pa_idx pa) (parent, i) with
        | Some nodeIndex => gap_loop fuel' parent (i + 1) slot je fe nodeIndex pa
        | None =>
            let nodeIndex := add64 (pa_off pa) (lenN (pa_nodes pa)) in
            gap_loop fuel' parent (i + 1) slot je fe nodeIndex
                     (push_node pa (fresh_node (parent, i) parentIndex parent je fe))
        end
      else (pa, parentIndex)
  end.

Definition slot_fuel_limit : N := 100000.

Definition ProcessSlot (parent : root) (sl : slot) (je fe : epoch) : M parray unit :=
  pa <- get ;;
  match idx_get (pa_idx pa) (parent, sl) with
  | Some _ => ret tt
  | None =>
      match bs_get (pa_bs pa) parent with
      | Some parentSlot =>
          if slot_fuel_limit <? sl - parentSlot then fail OutOfFuel else
          let parentIndex := idx_get0 (pa_idx pa) (parent, parentSlot) in
          let '(pa1, parentIndex') :=
            gap_loop (N.to_nat (sl - parentSlot)) parent (add64 parentSlot 1) sl je fe parentIndex pa in
          put (with_upd (push_node pa1 (fresh_node (parent, sl) parentIndex' parent je fe)) false)
      | None =>
          put (with_upd (push_node pa (fresh_node (parent, sl) NONE parent je fe)) false)
      end
  end.

(* ---------- ProcessBlock ---------- *)
Definition ProcessBlock (parent blockRoot : root) (blockSlot : slot) (je fe : epoch) : M parray bool :=
  pa <- get ;;
  match idx_get (pa_idx pa) (blockRoot, blockSlot) with
  | Some _ => ret true
  | None =>
      match bs_get (pa_bs pa) blockRoot with
      | Some _ => ret true
      | None =>
          match bs_get (pa_bs pa) parent with
          | None => ret false
          | Some parentBlockSlot =>
              if blockSlot <=? parentBlockSlot then ret false else
              ProcessSlot parent blockSlot je fe ;;;
              pa1 <- get ;;
              match idx_get (pa_idx pa1) (parent, parentBlockSlot) with
              | None => ret false
              | Some fcParent =>
                  match idx_get (pa_idx pa1) (parent, blockSlot) with
                  | None => fail (Panic Explicit)
                  | Some tParent =>
                      let nodeIndex := add64 (pa_off pa1) (lenN (pa_nodes pa1)) in
                      let n := mkNode (blockRoot, blockSlot) tParent fcParent parent je fe 0%Z NONE NONE in
                      let pa2 := push_node pa1 n in
                      put (mkPA (pa_sink_nil pa2) (pa_off pa2) (pa_je pa2) (pa_fe pa2) (pa_nodes pa2) (pa_idx pa2)
                                (bs_set (pa_bs pa2) blockRoot blockSlot) false) ;;;
                      ret true
                  end
              end
          end
      end
  end.

(* ---------- FindHead ---------- *)
Definition ensureConnections (fx : fixes) : M parray unit :=
  pa <- get ;;
  if pa_upd pa then ret tt else updateConnections fx.

(* repaired (C10-gap-anchor-prune-head): a start on an empty slot above the first slot known for its root. The blocks built on that
   root after the start slot hang off the root's first node; they descend from the start all the same. for i := range pr.nodes:
   among the next empty slot and those blocks, the one leading to a viable head with the greatest (weight, root) *)
Fixpoint gap_best (fx : fixes) (pa : parray) (nodes : list node) (i : nat) (anchorIndex lowIndex : index) (anchorRoot : root)
         (anchorSlot : slot) (best : option node) (bestDesc : index) : outcome index :=
  match nodes with
  | [] => Ok bestDesc
  | n :: rest =>
      if negb (n_fp n =? anchorIndex) &&
         negb ((n_fp n =? lowIndex) && (n_parent n =? anchorRoot) && negb (fst (n_ref n) =? anchorRoot) && (anchorSlot <? snd (n_ref n)))
      then gap_best fx pa rest (S i) anchorIndex lowIndex anchorRoot anchorSlot best bestDesc
      else
        bind (nodeLeadsToViableHead fx pa n) (fun leads =>
          if leads && (match best with
                       | None => true
                       | Some b => (n_w b <? n_w n)%Z || ((n_w n =? n_w b)%Z && (fst (n_ref b) <? fst (n_ref n)))
                       end)
          then gap_best fx pa rest (S i) anchorIndex lowIndex anchorRoot anchorSlot (Some n)
                        (if n_bd n =? NONE then add64 (pa_off pa) (N.of_nat i) else n_bd n)
          else gap_best fx pa rest (S i) anchorIndex lowIndex anchorRoot anchorSlot best bestDesc)
  end.

Definition FindHead (fx : fixes) (anchorRoot : root) (anchorSlot : slot) : M parray ref :=
  ensureConnections fx ;;;
  pa <- get ;;
  match idx_get (pa_idx pa) (anchorRoot, anchorSlot) with
  | None => fail Err
  | Some anchorIndex =>
      anchorNode <- lift_o (getNode fx pa anchorIndex) ;;
      let lowSlot := match bs_get (pa_bs pa) anchorRoot with Some s => s | None => 0 end in
      bestDescIndex <- lift_o (if f_gap_head fx && (n_parent anchorNode =? anchorRoot) && (lowSlot <? anchorSlot)
                               then gap_best fx pa (pa_nodes pa) 0 anchorIndex (idx_get0 (pa_idx pa) (anchorRoot, lowSlot))
                                             anchorRoot anchorSlot None anchorIndex
                               else Ok (if n_bd anchorNode =? NONE then anchorIndex else n_bd anchorNode)) ;;
      bestNode <- lift_o (getNode fx pa bestDescIndex) ;;
      if viable pa bestNode then ret (n_ref bestNode) else fail Err
  end.

(* ---------- CanonicalChain ---------- *)
Fixpoint chain_loop (fx : fixes) (fuel : nat) (pa : parray) (ix : index) (acc : list (ref * root))
  : outcome (list (ref * root)) :=
  match fuel with
  | O => OutOfFuel
  | S fuel' =>
      if negb (ix =? NONE) && (pa_off pa <=? ix) then
        bind (getNode fx pa ix) (fun node => chain_loop fx fuel' pa (n_tp node) ((n_ref node, n_parent node) :: acc))
      else Ok (rev acc)
  end.

Definition CanonicalChain (fx : fixes) (anchorRoot : root) (anchorSlot : slot) : M parray (list (ref * root)) :=
  head <- FindHead fx anchorRoot anchorSlot ;;
  pa <- get ;;
  lift_o (chain_loop fx (S (S (length (pa_nodes pa)))) pa (idx_get0 (pa_idx pa) head) []).

(* ---------- ClosestToSlot ---------- *)
Fixpoint closest_loop (fuel : nat) (pa : parray) (anchor : root) (mn mx : slot) : outcome slot :=
  match fuel with
  | O => OutOfFuel
  | S fuel' =>
      if mn + 1 <? mx then
        let pivot := mn + (mx - mn) / 2 in
        match idx_get (pa_idx pa) (anchor, pivot) with
        | Some _ => closest_loop fuel' pa anchor pivot mx
        | None => closest_loop fuel' pa anchor mn pivot
        end
      else Ok mn
  end.

Definition ClosestToSlot (pa : parray) (anchor : root) (sl : slot) : outcome ref :=
  match idx_get (pa_idx pa) (anchor, sl) with
  | Some _ => Ok (anchor, sl)
  | None =>
      match bs_get (pa_bs pa) anchor with
      | None => Err
      | Some anchorSlot =>
          if sl <? anchorSlot then Err else
          if anchorSlot =? sl then Ok (anchor, anchorSlot) else
          bind (closest_loop 70 pa anchor anchorSlot sl) (fun s => Ok (anchor, s))
      end
  end.

(* ---------- CanonAtSlot ---------- *)
Fixpoint canon_at_loop (fx : fixes) (fuel : nat) (pa : parray) (ix : index) (sl : slot) (withBlock : bool) : outcome ref :=
  match fuel with
  | O => OutOfFuel
  | S fuel' =>
      if negb (ix =? NONE) && (pa_off pa <=? ix) then
        bind (getNode fx pa ix) (fun node =>
          if negb withBlock && negb (n_parent node =? fst (n_ref node)) then
            canon_at_loop fx fuel' pa (n_tp node) sl withBlock
          else if snd (n_ref node) =? sl then
            (if withBlock && (fst (n_ref node) =? n_parent node) then Ok zero_ref else Ok (n_ref node))
          else if snd (n_ref node) <? sl then Err
          else canon_at_loop fx fuel' pa (n_tp node) sl withBlock)
      else Err
  end.

Definition CanonAtSlot (fx : fixes) (anchor : root) (sl : slot) (withBlock : bool) : M parray ref :=
  pa <- get ;;
  match bs_get (pa_bs pa) anchor with
  | None => fail Err
  | Some anchorSlot =>
      if sl <? anchorSlot then fail Err else
      if anchorSlot =? sl then
        if negb withBlock then
          match idx_get (pa_idx pa) (anchor, sl) with
          | None => fail (Panic Explicit)
          | Some i =>
              node <- lift_o (rawNodeAt fx pa i) ;;
              if negb (n_parent node =? anchor) then fail Err else ret (anchor, sl)
          end
        else ret (anchor, sl)
      else
        head <- FindHead fx anchor anchorSlot ;;
        if snd head <=? sl then ret head else
        pa1 <- get ;;
        lift_o (canon_at_loop fx (S (S (length (pa_nodes pa1)))) pa1 (idx_get0 (pa_idx pa1) head) sl withBlock)
  end.

Definition GetSlot (pa : parray) (r : root) : option slot := bs_get (pa_bs pa) r.

(* ---------- inSubtree / InSubtree ---------- *)
Fixpoint insub_loop (fx : fixes) (fuel : nat) (pa : parray) (anchorIndex : index) (anchorBd : index) (i : index) : outcome bool :=
  match fuel with
  | O => OutOfFuel
  | S fuel' =>
      if negb (i =? NONE) && (anchorIndex <=? i) then
        bind (rawNodeAt fx pa i) (fun tmp =>
          if (if f_insub_none fx
              then (i =? anchorIndex) || (negb (anchorBd =? NONE) && (n_bd tmp =? anchorBd))
              else n_bd tmp =? anchorBd)
          then Ok true
          else insub_loop fx fuel' pa anchorIndex anchorBd (n_tp tmp))
      else Ok false
  end.

(* (unknown, inSubtree) *)
Definition inSubtree (fx : fixes) (pa : parray) (anchorIndex lookupIndex : index) : outcome (bool * bool) :=
  if anchorIndex =? lookupIndex then Ok (false, true) else
  match getNode fx pa anchorIndex with
  | Err => Ok (true, false)
  | Ok anchorNode =>
      match getNode fx pa lookupIndex with
      | Err => Ok (true, false)
      | Ok lookupNode =>
          if (if f_insub_slot fx then snd (n_ref lookupNode) <? snd (n_ref anchorNode)
              else snd (n_ref lookupNode) <=? snd (n_ref anchorNode)) then Ok (false, false) else
          if lookupIndex <=? anchorIndex then Ok (false, false) else
          if (n_bd anchorNode =? lookupIndex) ||
             ((if f_insub_none fx then negb (n_bd anchorNode =? NONE) else true) && (n_bd anchorNode =? n_bd lookupNode))
          then Ok (false, true) else
          bind (insub_loop fx (S (S (length (pa_nodes pa)))) pa anchorIndex (n_bd anchorNode) (n_tp lookupNode))
               (fun b => Ok (false, b))
      | Panic p => Panic p
      | Blocked => Blocked
      | OutOfFuel => OutOfFuel
      end
  | Panic p => Panic p
  | Blocked => Blocked
  | OutOfFuel => OutOfFuel
  end.

Definition InSubtree (fx : fixes) (anchor r : root) : M parray (bool * bool) :=
  if anchor =? r then ret (false, true) else
  fun pa0 =>
    let '(pa, o) := ensureConnections fx pa0 in
    match o with
    | Ok _ =>
        match bs_get (pa_bs pa) anchor with
        | None => (pa, Ok (true, false))
        | Some anchorSlot =>
            match idx_get (pa_idx pa) (anchor, anchorSlot) with
            | None => (pa, Ok (true, false))
            | Some anchorIndex =>
                match bs_get (pa_bs pa) r with
                | None => (pa, Ok (true, false))
                | Some sl =>
                    match idx_get (pa_idx pa) (r, sl) with
                    | None => (pa, Ok (true, false))
                    | Some lookupIndex => (pa, inSubtree fx pa anchorIndex lookupIndex)
                    end
                end
            end
        end
    | Err => (pa, Ok (true, false))
    | Panic p => (pa, Panic p)
    | Blocked => (pa, Blocked)
    | OutOfFuel => (pa, OutOfFuel)
    end.

(* ---------- Search ---------- *)
Fixpoint search_loop (fx : fixes) (pa : parray) (nodes : list node) (anchorIndex headIndex : index) (head : ref)
         (parentRoot : option root) (sl : option slot) (non can : list ref) : outcome (list ref * list ref) :=
  match nodes with
  | [] => Ok (rev non, rev can)
  | node :: rest =>
      let continue_ := search_loop fx pa rest anchorIndex headIndex head parentRoot sl non can in
      if fst (n_ref node) =? n_parent node then continue_ else
      bind (match parentRoot, sl with
            | None, None =>
                if negb (n_bc node =? NONE) then
                  bind (rawNodeAt fx pa (n_bd node)) (fun desc => Ok (fst (n_ref desc) =? fst (n_ref node)))
                else Ok true
            | _, _ =>
                Ok ((match parentRoot with Some p => n_parent node =? p | None => true end) &&
                    (match sl with Some s => snd (n_ref node) =? s | None => true end))
            end)
           (fun keep =>
              if negb keep then continue_ else
              bind (inSubtree fx pa anchorIndex (idx_get0 (pa_idx pa) (n_ref node))) (fun ui =>
                if negb (snd ui) then continue_ else
                if ref_eqb (n_ref node) head || (n_bd node =? headIndex)
                then search_loop fx pa rest anchorIndex headIndex head parentRoot sl non (n_ref node :: can)
                else search_loop fx pa rest anchorIndex headIndex head parentRoot sl (n_ref node :: non) can))
  end.

Definition Search (fx : fixes) (anchor : ref) (parentRoot : option root) (sl : option slot) : M parray (list ref * list ref) :=
  head <- FindHead fx (fst anchor) (snd anchor) ;;
  pa <- get ;;
  lift_o (search_loop fx pa (pa_nodes pa) (idx_get0 (pa_idx pa) anchor) (idx_get0 (pa_idx pa) head) head parentRoot sl [] []).

(* ---------- OnPrune ---------- *)
(* The sink: the k-th call (0-based) of this prune with (ref, canonical); true = accepted, false = it returned an error. *)
Definition sink_fn := N -> ref -> bool -> bool.

(* canonical nodes below the anchor: the transition chain under it (repaired) *)
Fixpoint canon_set (fuel : nat) (pa : parray) (i : index) (acc : list index) : outcome (list index) :=
  match fuel with
  | O => OutOfFuel
  | S fuel' =>
      if negb (i =? NONE) && (pa_off pa <=? i) then
        bind (rawNode pa (i - pa_off pa)) (fun n => canon_set fuel' pa (n_tp n) (i :: acc))
      else Ok acc
  end.

(* for i := offset; i < anchorIndex; i++ : collect (ref, canonical) *)
Fixpoint collect_pruned (fx : fixes) (pa : parray) (cnt : nat) (i : index) (headIndex : index) (canon : list index)
         (acc : list (ref * bool)) : outcome (list (ref * bool)) :=
  match cnt with
  | O => Ok (rev acc)
  | S cnt' =>
      bind (rawNode pa (if f_prune_loop fx then i - pa_off pa else 0)) (fun node =>
        let c := if f_prune_canon fx then existsb (N.eqb i) canon else n_bd node =? headIndex in
        if f_prune_nilsink fx || negb (pa_sink_nil pa)
        then collect_pruned fx pa cnt' (i + 1) headIndex canon ((n_ref node, c) :: acc)
        else collect_pruned fx pa cnt' (i + 1) headIndex canon acc)
  end.

(* the sink loop: (number accepted, failed?, calls made) *)
Fixpoint sink_loop (sink : sink_fn) (k : N) (l : list (ref * bool)) (calls : list (ref * bool)) : N * bool * list (ref * bool) :=
  match l with
  | [] => (k, false, rev calls)
  | (r, c) :: l' => if sink k r c then sink_loop sink (k + 1) l' ((r, c) :: calls) else (k, true, rev ((r, c) :: calls))
  end.

Fixpoint drop_pruned (fx : fixes) (l : list (ref * bool)) (pa : parray) : parray :=
  match l with
  | [] => pa
  | (r, _) :: l' =>
      let idx' := idx_del (pa_idx pa) r in
      let bs' :=
        if f_prune_maps fx then
          if (match bs_get (pa_bs pa) (fst r) with Some s => s | None => 0 end) =? snd r then
            match idx_get idx' (fst r, add64 (snd r) 1) with
            | Some _ => bs_set (pa_bs pa) (fst r) (add64 (snd r) 1)
            | None => bs_del (pa_bs pa) (fst r)
            end
          else pa_bs pa
        else bs_del (pa_bs pa) (fst r) in
      drop_pruned fx l' (mkPA (pa_sink_nil pa) (add64 (pa_off pa) 1) (pa_je pa) (pa_fe pa) (tl (pa_nodes pa)) idx' bs' (pa_upd pa))
  end.

(* repaired: blocks built on the anchor root that pointed below the offset hang off the anchor *)
Fixpoint reparent_loop (nodes : list node) (off anchorIndex : index) (anchorRoot : root) (anchorSlot : slot)
  : list node * Z * bool :=
  match nodes with
  | [] => ([], 0%Z, false)
  | n :: rest =>
      let '(rest', w, ch) := reparent_loop rest off anchorIndex anchorRoot anchorSlot in
      if negb (n_fp n =? NONE) && (n_fp n <? off) && (n_parent n =? anchorRoot) && negb (fst (n_ref n) =? anchorRoot)
         && (anchorSlot <? snd (n_ref n))
      then (set_fp n anchorIndex :: rest', sadd64 (n_w n) w, true)
      else (n :: rest', w, ch)
  end.

(* repaired further (C10-prune-partial-reparent): after a complete or a partial prune, every block whose fork-choice parent was
   dropped while its parent root lives on moves to that root's new lowest node, with its weight. for i := range pr.nodes *)
Fixpoint reparent_general (cnt : nat) (i : nat) : M parray unit :=
  match cnt with
  | O => ret tt
  | S cnt' =>
      pa <- get ;;
      node <- lift_o (rawNode pa (N.of_nat i)) ;;
      (if (n_fp node =? NONE) || (pa_off pa <=? n_fp node) || (fst (n_ref node) =? n_parent node) then ret tt else
       match bs_get (pa_bs pa) (n_parent node) with
       | None => ret tt
       | Some lowest =>
           if snd (n_ref node) <=? lowest then ret tt else
           match idx_get (pa_idx pa) (n_parent node, lowest) with
           | None => ret tt
           | Some parentIndex =>
               let nodes1 := upd_nth (pa_nodes pa) i (set_fp node parentIndex) in
               match nthN nodes1 (sub64 parentIndex (pa_off pa)) with
               | None => fail (Panic IndexOOR)
               | Some pn =>
                   put (mkPA (pa_sink_nil pa) (pa_off pa) (pa_je pa) (pa_fe pa)
                             (updN nodes1 (sub64 parentIndex (pa_off pa)) (set_w pn (sadd64 (n_w pn) (n_w node))))
                             (pa_idx pa) (pa_bs pa) false)
               end
           end
       end) ;;;
      reparent_general cnt' (S i)
  end.

(* returns the calls made to the sink and whether the sink failed (the Go function then returns the sink's error) *)
Definition OnPrune_core (fx : fixes) (sink : sink_fn) (anchorRoot : root) (anchorSlot : slot) : M parray (list (ref * bool) * bool) :=
  pa <- get ;;
  match idx_get (pa_idx pa) (anchorRoot, anchorSlot) with
  | None => ret ([], false)
  | Some anchorIndex =>
      if anchorIndex =? pa_off pa then ret ([], false) else
      head <- FindHead fx anchorRoot anchorSlot ;;
      pa1 <- get ;;
      match idx_get (pa_idx pa1) head with
      | None => fail Err
      | Some headIndex =>
          canon <- (if f_prune_canon fx then
                      anchorNode <- lift_o (rawNode pa1 (sub64 anchorIndex (pa_off pa1))) ;;
                      lift_o (canon_set (S (S (length (pa_nodes pa1)))) pa1 (n_tp anchorNode) [])
                    else ret []) ;;
          pruned <- lift_o (collect_pruned fx pa1 (N.to_nat (anchorIndex - pa_off pa1)) (pa_off pa1) headIndex canon []) ;;
          let '(upto, failed, calls) :=
            if pa_sink_nil pa1 then (lenN pruned, false, []) else sink_loop sink 0 pruned [] in
          let pa2 := if f_prune_maps fx then pa1
                     else mkPA (pa_sink_nil pa1) (pa_off pa1) (pa_je pa1) (pa_fe pa1) (pa_nodes pa1) (pa_idx pa1)
                               (bs_set (pa_bs pa1) anchorRoot anchorSlot) (pa_upd pa1) in
          let pa3 := drop_pruned fx (firstn (N.to_nat upto) pruned) pa2 in
          if f_prune_partial fx then
            put pa3 ;;; reparent_general (length (pa_nodes pa3)) 0 ;;; ret (calls, failed)
          else
          if failed then put pa3 ;;; ret (calls, true) else
          if f_prune_reparent fx then
            anchorNode <- lift_o (rawNode pa3 (sub64 anchorIndex (pa_off pa3))) ;;
            let '(nodes', w, ch) := reparent_loop (pa_nodes pa3) (pa_off pa3) anchorIndex anchorRoot anchorSlot in
            let nodes'' := updN nodes' (sub64 anchorIndex (pa_off pa3)) (set_w anchorNode (sadd64 (n_w anchorNode) w)) in
            put (mkPA (pa_sink_nil pa3) (pa_off pa3) (pa_je pa3) (pa_fe pa3) (if ch then nodes'' else pa_nodes pa3)
                      (pa_idx pa3) (pa_bs pa3) (if ch then false else pa_upd pa3)) ;;;
            ret (calls, false)
          else put pa3 ;;; ret (calls, false)
      end
  end.

Definition OnPrune (fx : fixes) (sink : sink_fn) (anchorRoot : root) (anchorSlot : slot) : M parray (list (ref * bool)) :=
  r <- OnPrune_core fx sink anchorRoot anchorSlot ;;
  if snd r then fail Err else ret (fst r).
