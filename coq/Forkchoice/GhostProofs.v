(* Proofs, part 4 (C09): the latest-message rule of the vote store (one tracker per validator, a later target epoch
   replaces, older or equal epochs change nothing), and properties of the Spec's walk. For ALL states and inputs. *)
From Coq Require Import NArith ZArith List Bool Lia.
From Coq Require Import ZifyN ZifyNat ZifyBool.
From V Require Import Base.U64 Base.Outcome Forkchoice.ProtoArray Forkchoice.VoteStore Forkchoice.Wrapper
     Forkchoice.TreeSpec Forkchoice.GhostSpec Forkchoice.TreeProofs.
Import ListNotations.
Local Open Scope N_scope.

(* tracker of validator i (validators beyond the slice have the zero tracker) *)
Definition tracker_of (st : vstore) (i : N) : tracker :=
  match nthN (vs_votes st) i with Some t => t | None => zero_tr end.

Lemma nthN_app_l {A} (l1 l2 : list A) i : i < lenN l1 -> nthN (l1 ++ l2) i = nthN l1 i.
Proof.
  intros H. unfold nthN, lenN in *. rewrite app_length.
  replace (i <? N.of_nat (length l1 + length l2)) with true by (symmetry; apply N.ltb_lt; lia).
  replace (i <? N.of_nat (length l1)) with true by (symmetry; apply N.ltb_lt; lia).
  apply nth_error_app1. lia.
Qed.
Lemma nthN_repeat {A} (x : A) n i : nthN (repeat x n) i = if i <? N.of_nat n then Some x else None.
Proof.
  unfold nthN, lenN. rewrite repeat_length. destruct (i <? N.of_nat n) eqn:E; [|reflexivity].
  apply N.ltb_lt in E. destruct (nth_error (repeat x n) (N.to_nat i)) eqn:E2.
  - f_equal. apply nth_error_In in E2. apply repeat_spec in E2. exact E2.
  - apply nth_error_None in E2. rewrite repeat_length in E2. lia.
Qed.
Lemma nthN_app_r {A} (l1 l2 : list A) i : lenN l1 <= i -> nthN (l1 ++ l2) i = nthN l2 (i - lenN l1).
Proof.
  intros H. unfold nthN, lenN in *. rewrite app_length.
  destruct (N.ltb_spec i (N.of_nat (length l1 + length l2))); destruct (N.ltb_spec (i - N.of_nat (length l1)) (N.of_nat (length l2))); try lia; [|reflexivity].
  rewrite nth_error_app2 by lia. f_equal. lia.
Qed.
Lemma nthN_upd_nth {A} (l : list A) : forall i j x, nth_error (upd_nth l i x) j = if Nat.eqb j i then (match nth_error l i with Some _ => Some x | None => None end) else nth_error l j.
Proof.
  induction l; intros i j x; cbn.
  - destruct (Nat.eqb j i); destruct i, j; reflexivity.
  - destruct i, j; cbn; try reflexivity. apply IHl.
Qed.
Lemma upd_nth_length {A} (l : list A) : forall i x, length (upd_nth l i x) = length l.
Proof. induction l; intros [|i] x; cbn; auto. Qed.
Lemma nthN_updN {A} (l : list A) i j x :
  nthN (updN l i x) j = if (j =? i) && (i <? lenN l) then Some x else nthN l j.
Proof.
  unfold updN, nthN, lenN. destruct (N.ltb_spec i (N.of_nat (length l))).
  - rewrite upd_nth_length. destruct (N.ltb_spec j (N.of_nat (length l))).
    + rewrite nthN_upd_nth. destruct (N.eqb_spec j i).
      * subst. rewrite Nat.eqb_refl. cbn. destruct (nth_error l (N.to_nat i)) eqn:E; [reflexivity|].
        apply nth_error_None in E. lia.
      * replace (Nat.eqb (N.to_nat j) (N.to_nat i)) with false by (symmetry; apply Nat.eqb_neq; lia). rewrite andb_false_l. reflexivity.
    + destruct (N.eqb_spec j i); [lia|]. reflexivity.
  - rewrite andb_false_r. reflexivity.
Qed.

(* C09 vote_once, the acceptance rule: ProcessAttestation touches the tracker of that validator only; it never touches the
   vote that is currently counted; it replaces the pending vote iff the target epoch is strictly later, or the validator has
   never voted and the target epoch is 0 *)
Theorem vote_once_attest : forall st ix r s st' b,
  vs_ProcessAttestation ix r s st = (st', Ok b) ->
  b = true /\
  (forall j, j <> ix -> tracker_of st' j = tracker_of st j) /\
  t_cur (tracker_of st' ix) = t_cur (tracker_of st ix) /\ t_cure (tracker_of st' ix) = t_cure (tracker_of st ix) /\
  let old := tracker_of st ix in
  let e := s / vs_spe st in
  if (t_nexte old <? e) || ((e =? 0) && tr_is_zero old)
  then t_next (tracker_of st' ix) = (r, s) /\ t_nexte (tracker_of st' ix) = e
  else t_next (tracker_of st' ix) = t_next old /\ t_nexte (tracker_of st' ix) = t_nexte old.
Proof.
  intros st ix r s st' b. unfold vs_ProcessAttestation, mbind, get.
  destruct (validator_limit <? ix); [discriminate|].
  destruct (vs_spe st =? 0); [discriminate|].
  set (votes := if lenN (vs_votes st) <=? ix then vs_votes st ++ repeat zero_tr (N.to_nat (ix + 1 - lenN (vs_votes st))) else vs_votes st).
  assert (Hsame : forall j, (match nthN votes j with Some t => t | None => zero_tr end) = tracker_of st j).
  { intros j. unfold votes, tracker_of. destruct (N.leb_spec (lenN (vs_votes st)) ix); [|reflexivity].
    destruct (N.ltb_spec j (lenN (vs_votes st))).
    - rewrite nthN_app_l by assumption. reflexivity.
    - rewrite nthN_app_r by assumption. rewrite nthN_repeat.
      replace (nthN (vs_votes st) j) with (@None tracker).
      + destruct (_ <? _); reflexivity.
      + unfold nthN. replace (j <? lenN (vs_votes st)) with false by (symmetry; apply N.ltb_ge; assumption). reflexivity. }
  assert (Hlen : ix < lenN votes).
  { unfold votes. destruct (N.leb_spec (lenN (vs_votes st)) ix); [|assumption].
    unfold lenN. rewrite app_length, repeat_length. unfold lenN in *. lia. }
  destruct (nthN votes ix) as [vote|] eqn:Ev.
  2: { unfold nthN in Ev. replace (ix <? lenN votes) with true in Ev by (symmetry; apply N.ltb_lt; assumption).
       apply nth_error_None in Ev. unfold lenN in Hlen. lia. }
  assert (Hold : vote = tracker_of st ix) by (rewrite <- Hsame, Ev; reflexivity).
  cbv zeta. rewrite <- Hold.
  assert (Hupd : forall t' ch j, tracker_of (mkVS (vs_spe st) (updN votes ix t') ch) j = if j =? ix then t' else tracker_of st j).
  { intros t' ch j. unfold tracker_of at 1. cbn [vs_votes]. rewrite nthN_updN.
    replace (ix <? lenN votes) with true by (symmetry; apply N.ltb_lt; assumption). rewrite andb_true_r.
    destruct (j =? ix); [reflexivity|apply Hsame]. }
  assert (Hkeep : forall ch j, tracker_of (mkVS (vs_spe st) votes ch) j = tracker_of st j).
  { intros ch j. unfold tracker_of at 1. cbn [vs_votes]. apply Hsame. }
  destruct ((t_nexte vote <? s / vs_spe st) || ((s / vs_spe st =? 0) && tr_is_zero vote)) eqn:Ec;
    cbn [put ret fst snd]; intros H; inversion H; subst st' b; clear H.
  - split; [reflexivity|]. split; [|rewrite !Hupd, N.eqb_refl; cbn; auto].
    intros j Hj. rewrite Hupd. replace (j =? ix) with false by (symmetry; apply N.eqb_neq; assumption). reflexivity.
  - split; [reflexivity|]. split; [intros j Hj; apply Hkeep|]. rewrite !Hkeep. subst vote. auto.
Qed.

(* what a refresh may do to a tracker: nothing, or count the pending vote (only if its node is known); the pending vote itself
   is never changed by a refresh *)
Definition refreshed (indices : imap) (t t' : tracker) : Prop :=
  t' = t \/ (t' = mkTr (t_next t) (t_next t) (t_nexte t) (t_nexte t) /\ idx_get indices (t_next t) <> None).

Lemma deltas_loop_trackers fx ind off ob nb_ : forall votes i deltas acc votes' d',
  deltas_loop fx ind off ob nb_ i votes deltas acc = Ok (votes', d') ->
  exists rest, votes' = rev acc ++ rest /\ Forall2 (refreshed ind) votes rest.
Proof.
  induction votes as [|vote votes IH]; intros i deltas acc votes' d' H; cbn [deltas_loop] in H.
  - inversion H. subst. exists []. split; [rewrite app_nil_r; reflexivity|constructor].
  - destruct (ref_eqb (t_cur vote) zero_ref && ref_eqb (t_next vote) zero_ref).
    { apply IH in H. destruct H as [rest [E F]]. exists (vote :: rest). cbn [rev] in E. rewrite <- app_assoc in E. cbn in E.
      split; [exact E|]. constructor; [left; reflexivity|exact F]. }
    destruct (ref_eqb (t_cur vote) zero_ref || (t_cure vote <? t_nexte vote) || negb (bal_at ob i =? bal_at nb_ i)).
    2: { apply IH in H. destruct H as [rest [E F]]. exists (vote :: rest). cbn [rev] in E. rewrite <- app_assoc in E. cbn in E.
         split; [exact E|]. constructor; [left; reflexivity|exact F]. }
    match type of H with bind ?x _ = _ => destruct x as [deltas1| | | |] eqn:E1 end; cbn [bind] in H; try discriminate.
    destruct (idx_get ind (t_next vote)) as [ni|] eqn:En.
    + destruct (nthN deltas1 (sub64 ni off)); [|discriminate].
      apply IH in H. destruct H as [rest [E F]]. eexists (_ :: rest). cbn [rev] in E. rewrite <- app_assoc in E. cbn in E.
      split; [exact E|]. constructor; [|exact F]. right. split; [reflexivity|congruence].
    + apply IH in H. destruct H as [rest [E F]]. exists (vote :: rest). cbn [rev] in E. rewrite <- app_assoc in E. cbn in E.
      split; [exact E|]. constructor; [left; reflexivity|exact F].
Qed.

(* C09 vote_once, the refresh: ComputeDeltas keeps one tracker per validator, never changes a pending vote, and the counted
   vote can only become the pending one *)
Theorem vote_once_refresh : forall fx ind ob nb_ st st' d,
  ComputeDeltas fx ind ob nb_ st = (st', Ok d) ->
  Forall2 (refreshed ind) (vs_votes st) (vs_votes st') /\ vs_changed st' = false /\ length d = length ind.
Proof.
  intros fx ind ob nb_ st st' d. unfold ComputeDeltas, mbind, get.
  destruct (deltas_loop fx ind _ ob nb_ 0 (vs_votes st) (repeat 0%Z (length ind)) []) as [[votes' deltas]| | | |] eqn:E;
    cbn; intros H; inversion H; subst; clear H.
  pose proof (deltas_loop_trackers _ _ _ _ _ _ _ _ _ _ _ E) as [rest [Hv F]]. cbn in Hv. subst votes'.
  split; [exact F|]. split; [reflexivity|].
  (* the delta vector keeps its length *)
  clear F.
  assert (Hlen : forall votes i d0 acc vs d1, deltas_loop fx ind (if f_deltas_off fx then min_index ind else 0) ob nb_ i votes d0 acc = Ok (vs, d1) -> length d1 = length d0).
  { clear. induction votes as [|vote votes IH]; intros i d0 acc vs d1 H; cbn [deltas_loop] in H.
    - inversion H. reflexivity.
    - destruct (ref_eqb (t_cur vote) zero_ref && ref_eqb (t_next vote) zero_ref); [eapply IH; eauto|].
      destruct (ref_eqb (t_cur vote) zero_ref || (t_cure vote <? t_nexte vote) || negb (bal_at ob i =? bal_at nb_ i)); [|eapply IH; eauto].
      match type of H with bind ?x _ = _ => destruct x as [deltas1| | | |] eqn:E1 end; cbn [bind] in H; try discriminate.
      assert (L1 : length deltas1 = length d0).
      { destruct (idx_get ind (t_cur vote)); [|inversion E1; reflexivity].
        destruct (nthN d0 _); [|discriminate]. inversion E1. unfold updN. destruct (_ <? _); [apply upd_nth_length|reflexivity]. }
      destruct (idx_get ind (t_next vote)).
      + destruct (nthN deltas1 _); [|discriminate]. apply IH in H. rewrite H. unfold updN. destruct (_ <? _); [rewrite upd_nth_length|]; exact L1.
      + apply IH in H. congruence. }
  apply Hlen in E. rewrite E. apply repeat_length.
Qed.

(* ---------- the Spec's prune is exact (C10 prune_exact, at the level of the Spec) ---------- *)
Lemma spec_prune_exact s a n :
  In n (ss_tree (prune_to s a)) <-> In n (ss_tree s) /\ is_desc (ss_tree s) a n = true.
Proof. unfold prune_to, subtree. cbn. apply filter_In. Qed.
Lemma spec_dropped_exact t a n :
  known t a = true -> (In n (to_drop t a) <-> In n t /\ is_desc t a n = false).
Proof.
  intros H. unfold to_drop, non_descendants. rewrite H. rewrite filter_In. rewrite negb_true_iff. tauto.
Qed.
Lemma spec_prune_partition s a n :
  known (ss_tree s) a = true -> In n (ss_tree s) ->
  (In n (ss_tree (prune_to s a)) /\ ~ In n (to_drop (ss_tree s) a)) \/ (~ In n (ss_tree (prune_to s a)) /\ In n (to_drop (ss_tree s) a)).
Proof.
  intros Hk Hin. rewrite spec_prune_exact, (spec_dropped_exact _ _ _ Hk).
  destruct (is_desc (ss_tree s) a n); [left|right]; split; auto; intros [_ H]; discriminate.
Qed.

(* the Spec's head, when there is one, is a node of the tree and viable (C10 head_in_finalized_subtree at the level of the
   Spec: after a prune every node of the tree descends from the finalized node) *)
Lemma best_child_in s n c : best_child s n = Some c -> In c (ss_tree s).
Proof.
  unfold best_child. set (cs := filter (leads_viable s) (fc_children (ss_tree s) n)).
  assert (Hcs : forall x, In x cs -> In x (ss_tree s)).
  { intros x Hx. unfold cs in Hx. apply filter_In in Hx. destruct Hx as [Hx _]. unfold fc_children in Hx. apply filter_In in Hx. tauto. }
  assert (G : forall l acc, (forall x, In x l -> In x (ss_tree s)) -> (forall b, acc = Some b -> In b (ss_tree s)) ->
              forall c, fold_left (fun acc c => match acc with None => Some c | Some b => if better s c b then Some c else Some b end) l acc = Some c -> In c (ss_tree s)).
  { induction l as [|x l IH]; intros acc Hl Hacc c0 H; cbn in H; [auto|].
    eapply IH; [intros y Hy; apply Hl; right; exact Hy| |exact H].
    intros b Hb. destruct acc as [b0|]; [destruct (better s x b0); inversion Hb; subst; [apply Hl; left; reflexivity|apply Hacc; reflexivity]|inversion Hb; subst; apply Hl; left; reflexivity]. }
  intros H. eapply G; [exact Hcs| |exact H]. intros b Hb. discriminate.
Qed.
Lemma head_walk_in s : forall fuel n, In n (ss_tree s) -> In (head_walk fuel s n) (ss_tree s).
Proof.
  induction fuel; intros n Hn; cbn [head_walk]; [exact Hn|].
  destruct (best_child s n) as [c|] eqn:E; [|exact Hn]. apply IHfuel. eapply best_child_in; eauto.
Qed.
Theorem spec_head_sound s start e :
  spec_find_head s start = Ok e -> In e (ss_tree s) /\ is_desc (ss_tree s) start e = true /\ s_viable s e = true.
Proof.
  unfold spec_find_head. destruct (find_node (ss_tree s) start) as [n|] eqn:E; [|discriminate].
  set (s' := mkS (subtree (ss_tree s) start) (ss_just s) (ss_fin s) (ss_pin s) (ss_latest s) (ss_applied s) (ss_bal s) (ss_spe s) (ss_partial s)).
  remember (tree_fuel (ss_tree s')) as fuel.
  destruct (s_viable s (head_walk fuel s' n)) eqn:V; [|discriminate].
  intros H. assert (He : e = head_walk fuel s' n) by congruence. subst e.
  apply find_node_some in E. destruct E as [Hin Hr].
  assert (Hn : In n (ss_tree s')).
  { cbn [ss_tree s']. unfold subtree. apply filter_In. split; [exact Hin|]. unfold is_desc, tree_fuel. cbn [reaches].
    rewrite Hr, ref_eqb_refl. reflexivity. }
  pose proof (head_walk_in s' fuel n Hn) as Hw. cbn [ss_tree s'] in Hw. unfold subtree in Hw. apply filter_In in Hw.
  destruct Hw as [A B]. auto.
Qed.
Corollary spec_head_in_finalized_subtree s a start e :
  spec_find_head (prune_to s a) start = Ok e -> is_desc (ss_tree s) a e = true.
Proof. intros H. apply spec_head_sound in H. destruct H as [H _]. apply spec_prune_exact in H. tauto. Qed.
