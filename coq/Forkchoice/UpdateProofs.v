(* Proofs about the Impl model, part 2 (C10): the repaired wrapper never waits on its own mutex and leaves it free,
   for every state, every input and every prune-sink behaviour; older-or-equal checkpoint pairs change nothing. *)
From Coq Require Import NArith ZArith List Bool Lia.
From V Require Import Base.U64 Base.Outcome Forkchoice.ProtoArray Forkchoice.VoteStore Forkchoice.Wrapper Forkchoice.Step
     Forkchoice.ArrayProofs.
Import ListNotations.
Local Open Scope N_scope.
Open Scope m_scope.

(* a computation of the wrapper that never touches the lock flag *)
Definition keeps {A} (m : M wrapper A) : Prop := forall s, w_locked (fst (m s)) = w_locked s.

Lemma keeps_ret {A} (a : A) : keeps (ret a). Proof. intros s; reflexivity. Qed.
Lemma keeps_get : keeps get. Proof. intros s; reflexivity. Qed.
Lemma keeps_fail {A} (o : outcome A) : keeps (fail o). Proof. intros s; reflexivity. Qed.
Lemma keeps_lift_o {A} (o : outcome A) : keeps (lift_o o). Proof. intros s; reflexivity. Qed.
Lemma keeps_modify (f : wrapper -> wrapper) : (forall w, w_locked (f w) = w_locked w) -> keeps (modify f).
Proof. intros H s. cbn. apply H. Qed.
Lemma keeps_bind {A B} (m : M wrapper A) (f : A -> M wrapper B) : keeps m -> (forall a, keeps (f a)) -> keeps (mbind m f).
Proof.
  intros Hm Hf s. unfold mbind. specialize (Hm s). destruct (m s) as [s' o]. cbn in Hm.
  destruct o; cbn; auto. rewrite Hf. exact Hm.
Qed.
Lemma keeps_lift_pa {A} (m : M parray A) : keeps (lift_pa m).
Proof. intros s. unfold lift_pa. destruct (m (w_pa s)). reflexivity. Qed.
Lemma keeps_lift_vs {A} (m : M vstore A) : keeps (lift_vs m).
Proof. intros s. unfold lift_vs. destruct (m (w_vs s)). reflexivity. Qed.
Lemma nb_lift_pa {A} (m : M parray A) : nb m -> nb (lift_pa m).
Proof. intros H s. unfold lift_pa. specialize (H (w_pa s)). destruct (m (w_pa s)). exact H. Qed.
Lemma nb_lift_vs {A} (m : M vstore A) : nb m -> nb (lift_vs m).
Proof. intros H s. unfold lift_vs. specialize (H (w_vs s)). destruct (m (w_vs s)). exact H. Qed.
Lemma nb_modify {S} (f : S -> S) : nb (modify f).
Proof. intros s. cbn. discriminate. Qed.

Ltac keeps_step :=
  match goal with
  | |- keeps (mbind _ _) => apply keeps_bind; [| intros ? ]
  | |- keeps (ret _) => apply keeps_ret
  | |- keeps get => apply keeps_get
  | |- keeps (fail _) => apply keeps_fail
  | |- keeps (lift_o _) => apply keeps_lift_o
  | |- keeps (lift_pa _) => apply keeps_lift_pa
  | |- keeps (lift_vs _) => apply keeps_lift_vs
  | |- keeps (modify _) => apply keeps_modify; intros; reflexivity
  | |- keeps (if ?b then _ else _) => destruct b
  | |- keeps (match ?x with _ => _ end) => destruct x
  end.
Ltac keeps_auto := repeat keeps_step.

Ltac wnb_step :=
  match goal with
  | |- nb (lift_pa _) => apply nb_lift_pa
  | |- nb (lift_vs _) => apply nb_lift_vs
  | |- nb (modify _) => apply nb_modify
  | _ => nb_step
  end.
Ltac wnb_auto := repeat (wnb_step; auto with nb).

(* fc.mu.Lock() ... defer Unlock(): on a free lock the call does not block, and when it returns the lock is free again *)
Lemma locked_call_free {A} (body : M wrapper A) (w : wrapper) :
  nb body -> keeps body -> w_locked w = false ->
  snd (locked_call body w) <> Blocked /\
  (snd (locked_call body w) <> OutOfFuel -> w_locked (fst (locked_call body w)) = false).
Proof.
  intros Hnb Hk Hw. unfold locked_call. rewrite Hw.
  specialize (Hnb (set_locked w true)). specialize (Hk (set_locked w true)).
  destruct (body (set_locked w true)) as [w' o]. cbn in *.
  destruct o; cbn; split; try discriminate; try reflexivity; try congruence;
    try (intros H; exfalso; apply H; reflexivity).
Qed.

Definition returns_free {A} (m : M wrapper A) : Prop :=
  forall w, w_locked w = false ->
    snd (m w) <> Blocked /\ (snd (m w) <> OutOfFuel -> w_locked (fst (m w)) = false).

Lemma returns_free_locked {A} (body : M wrapper A) : nb body -> keeps body -> returns_free (locked_call body).
Proof. intros H1 H2 w Hw. apply locked_call_free; assumption. Qed.

Lemma returns_free_mmap {A B} (f : A -> B) (m : M wrapper A) : returns_free m -> returns_free (mmap f m).
Proof.
  intros H w Hw. specialize (H w Hw). unfold mmap. destruct (m w) as [w' o]. cbn in *.
  destruct H as [H1 H2]. destruct o; cbn; split; try discriminate; try (intros _; apply H2; discriminate);
    try (intros Hc; exfalso; apply Hc; reflexivity); try (exfalso; apply H1; reflexivity).
Qed.

(* the repaired inner InSubtree goes to the array directly *)
Lemma inner_InSubtree_nb a r : nb (inner_InSubtree fixed a r).
Proof. unfold inner_InSubtree. cbn [f_relock fixed]. wnb_auto. Qed.
Lemma inner_InSubtree_keeps a r : keeps (inner_InSubtree fixed a r).
Proof. unfold inner_InSubtree. cbn [f_relock fixed]. keeps_auto. Qed.
#[export] Hint Resolve inner_InSubtree_nb : nb.

Lemma epoch_start_nb spe e : onb (epoch_start spe e).
Proof. unfold epoch_start. nb_auto. Qed.
#[export] Hint Resolve epoch_start_nb : nb.

Lemma updateJustified_nb f j bal : nb (updateJustified fixed f j bal).
Proof. unfold updateJustified. wnb_auto. Qed.
Lemma updateJustified_keeps f j bal : keeps (updateJustified fixed f j bal).
Proof. unfold updateJustified. keeps_auto; apply inner_InSubtree_keeps. Qed.
#[export] Hint Resolve updateJustified_nb : nb.

Lemma UpdateJustified_body_nb sink t j f bal : nb (UpdateJustified_body fixed sink t j f bal).
Proof. unfold UpdateJustified_body. cbn [f_argorder fixed]. wnb_auto. Qed.
Lemma UpdateJustified_body_keeps sink t j f bal : keeps (UpdateJustified_body fixed sink t j f bal).
Proof.
  unfold UpdateJustified_body. cbn [f_argorder fixed].
  keeps_auto; try apply inner_InSubtree_keeps; try apply updateJustified_keeps.
Qed.

Lemma updateVotesMaybe_nb : nb (updateVotesMaybe fixed).
Proof. unfold updateVotesMaybe. wnb_auto. Qed.
Lemma updateVotesMaybe_keeps : keeps (updateVotesMaybe fixed).
Proof. unfold updateVotesMaybe. keeps_auto. Qed.
#[export] Hint Resolve updateVotesMaybe_nb : nb.

(* every exported method of the repaired wrapper, on a free lock: returns (value, error or panic), lock free again *)
Theorem step_returns_free : forall o, returns_free (impl_step fixed o).
Proof.
  destruct o; cbn [impl_step].
  - apply returns_free_mmap, returns_free_locked; [wnb_auto | keeps_auto].
  - apply returns_free_mmap, returns_free_locked; [wnb_auto | keeps_auto].
  - apply returns_free_mmap, returns_free_locked; [wnb_auto | keeps_auto].
  - intros w Hw.
    pose proof (returns_free_mmap (fun _ : unit => RUnit) _ (returns_free_locked _ (UpdateJustified_body_nb (sink_of fail) trigger j f bal)
                  (UpdateJustified_body_keeps (sink_of fail) trigger j f bal)) (set_log w []) Hw) as H.
    exact H.
  - apply returns_free_mmap, returns_free_locked; [unfold SetPin_body; wnb_auto | unfold SetPin_body; keeps_auto].
  - apply returns_free_mmap, returns_free_locked; [wnb_auto | keeps_auto; apply updateVotesMaybe_keeps].
  - apply returns_free_mmap, returns_free_locked; [wnb_auto | keeps_auto; apply updateVotesMaybe_keeps].
  - apply returns_free_mmap, returns_free_locked; [wnb_auto | keeps_auto].
  - apply returns_free_mmap, returns_free_locked; [intros s0; cbn; apply ClosestToSlot_nb | intros s0; reflexivity].
  - apply returns_free_mmap, returns_free_locked; [wnb_auto | keeps_auto].
  - apply returns_free_mmap, returns_free_locked; [intros s0; cbn; discriminate | intros s0; reflexivity].
  - apply returns_free_mmap, returns_free_locked; [wnb_auto | keeps_auto].
  - apply returns_free_mmap, returns_free_locked; [wnb_auto | keeps_auto].
  - apply returns_free_mmap, returns_free_locked; [intros s0; cbn; discriminate | intros s0; reflexivity].
  - apply returns_free_mmap, returns_free_locked; [intros s0; cbn; discriminate | intros s0; reflexivity].
  - apply returns_free_mmap, returns_free_locked; [intros s0; cbn; discriminate | intros s0; reflexivity].
  - intros w Hw. cbn. pose proof (getNode_nb fixed (w_pa w) ix) as H.
    destruct (getNode fixed (w_pa w) ix); cbn; split; auto; try discriminate.
Qed.


(* the constructor hands over a free lock *)
Lemma init_free : forall i u, snd (impl_init fixed i) = Ok u -> w_locked (fst (impl_init fixed i)) = false.
Proof.
  intros i u. unfold impl_init, new_forkchoice.
  set (w0 := mkW false _ _ _ _ _ _ _ _).
  assert (Hnb : nb (SetPin_body (i_anchor_root i) (i_anchor_slot i))) by (unfold SetPin_body; wnb_auto).
  assert (Hk : keeps (SetPin_body (i_anchor_root i) (i_anchor_slot i))) by (unfold SetPin_body; keeps_auto).
  pose proof (locked_call_free _ w0 Hnb Hk eq_refl) as [Hp1 Hp2].
  unfold mbind, W_SetPin.
  destruct (locked_call (SetPin_body (i_anchor_root i) (i_anchor_slot i)) w0) as [w1 o1]. cbn in Hp1, Hp2.
  destruct o1; cbn; try discriminate.
  intros _. rewrite (updateJustified_keeps (i_fin i) (i_just i) (Some (i_bal i)) w1). apply Hp2. discriminate.
Qed.

(* C10 update_returns, the blocking half, for ALL histories: no call of any history ever blocks *)
Lemma run_never_blocks : forall ops w, w_locked w = false ->
  Forall (fun r => fst r <> Blocked) (impl_run fixed w ops).
Proof.
  induction ops as [|o ops IH]; intros w Hw; cbn [impl_run]; [constructor|].
  pose proof (step_returns_free o w Hw) as [H1 H2].
  destruct (impl_step fixed o w) as [w' r]. cbn in H1, H2.
  destruct r; try (constructor; [cbn; discriminate | apply IH; apply H2; discriminate]);
    try (constructor; [cbn; try discriminate; exact H1 | constructor]).
Qed.

(* C10 update_older_noop: an older-or-equal pair (by epochs) changes nothing at all, whatever trigger, roots, balances, sink *)
Theorem update_older_noop : forall sink trigger j f bal w,
  w_locked w = false -> fst j <= fst (w_just w) -> fst f <= fst (w_fin w) ->
  W_UpdateJustified fixed sink trigger j f bal w = (w, Ok tt).
Proof.
  intros sink trigger j f bal w Hw Hj Hf.
  unfold W_UpdateJustified, locked_call. rewrite Hw.
  apply N.leb_le in Hj. apply N.leb_le in Hf.
  destruct w as [lk pa vs bl pin ju fi spe lg]. cbn in Hw, Hj, Hf. subst lk.
  unfold UpdateJustified_body, mbind, get, set_locked. cbn [w_just w_fin w_locked w_pa w_vs w_bal w_pin w_spe w_log].
  match goal with |- context [if ?c then ret tt else _] =>
    assert (E : c = true) by (apply andb_true_intro; split; assumption); rewrite E end.
  reflexivity.
Qed.

(* what a refused update may have touched: only the array's best-child links were (possibly) refreshed *)
Definition same_but_links (w w' : wrapper) : Prop :=
  w_locked w' = w_locked w /\ w_vs w' = w_vs w /\ w_bal w' = w_bal w /\ w_pin w' = w_pin w /\
  w_just w' = w_just w /\ w_fin w' = w_fin w /\ w_log w' = w_log w /\
  pa_off (w_pa w') = pa_off (w_pa w) /\ pa_idx (w_pa w') = pa_idx (w_pa w) /\ pa_bs (w_pa w') = pa_bs (w_pa w) /\
  length (pa_nodes (w_pa w')) = length (pa_nodes (w_pa w)).

(* C10 update_outside_refused: a new finalized checkpoint whose root the array reports as unknown or outside the subtree of the
   current finalized root is refused, and nothing but the array's refreshed links changes: votes, balances, checkpoints, pin, and
   the node set stay; nothing is pruned, the sink is not called. For every state, trigger, justified pair, balances, sink. *)
Lemma updateJustified_refuses_outside : forall w f j bal pa' u i,
  cp_eqb (w_fin w) f = false -> fst f <= fst j ->
  InSubtree fixed (snd (w_fin w)) (snd f) (w_pa w) = (pa', Ok (u, i)) -> (u = true \/ i = false) ->
  updateJustified fixed f j bal w = (set_pa w pa', Err).
Proof.
  intros w f j bal pa' u i Hne Hle Hin Hout.
  unfold updateJustified.
  replace (fst j <? fst f) with false by (symmetry; apply N.ltb_ge; exact Hle).
  unfold mbind at 1. unfold get at 1. unfold mbind at 1. rewrite Hne. cbn [negb].
  unfold mbind at 1. unfold inner_InSubtree. cbn [f_relock fixed]. unfold lift_pa at 1. rewrite Hin.
  destruct Hout as [-> | ->]; cbn; [reflexivity|]. destruct u; reflexivity.
Qed.

Theorem update_outside_refused : forall sink trigger j f bal w pa' u i,
  w_locked w = false ->
  (fst (w_just w) < fst j \/ fst (w_fin w) < fst f) ->           (* not an older-or-equal pair *)
  (match w_pin w with Some p => trigger = fst p | None => True end) ->   (* the pin does not object *)
  cp_eqb (w_fin w) f = false -> fst f <= fst j ->
  InSubtree fixed (snd (w_fin w)) (snd f) (w_pa w) = (pa', Ok (u, i)) -> (u = true \/ i = false) ->
  W_UpdateJustified fixed sink trigger j f bal w = (set_pa w pa', Err).
Proof.
  intros sink trigger j f bal w pa' u i Hw Hnew Hpin Hne Hle Hin Hout.
  unfold W_UpdateJustified, locked_call. rewrite Hw.
  unfold UpdateJustified_body. unfold mbind at 1. unfold get at 1.
  assert (Hc : (fst j <=? fst (w_just (set_locked w true))) && (fst f <=? fst (w_fin (set_locked w true))) = false).
  { cbn [w_just w_fin set_locked]. apply andb_false_iff. destruct Hnew; [left|right]; apply N.leb_gt; assumption. }
  rewrite Hc. unfold mbind at 1.
  assert (Hp : (match w_pin (set_locked w true) with
                | Some pin => if negb (trigger =? fst pin)
                              then mbind (inner_InSubtree fixed (fst pin) trigger)
                                         (fun ui => if fst ui then fail Err else if negb (snd ui) then fail Err else ret tt)
                              else ret tt
                | None => ret tt end) (set_locked w true) = (set_locked w true, Ok tt)).
  { cbn [w_pin set_locked]. destruct (w_pin w) as [p|]; [|reflexivity]. subst trigger. rewrite N.eqb_refl. reflexivity. }
  rewrite Hp. cbn [f_argorder fixed]. unfold mbind at 1.
  rewrite (updateJustified_refuses_outside (set_locked w true) f j bal pa' u i); auto.
  destruct w; cbn in *; subst; reflexivity.
Qed.

(* ---------- C10 prune: what is dropped is what the sink acknowledged, each node reported once, in order ---------- *)
Definition slice {A} (l : list A) (j cnt : nat) : list A := firstn cnt (skipn j l).
Lemma slice_step {A} (l : list A) j cnt x : nth_error l j = Some x -> slice l j (S cnt) = x :: slice l (S j) cnt.
Proof.
  unfold slice. revert j. induction l as [|a l IH]; intros j H; [destruct j; discriminate|].
  destruct j; cbn in *; [inversion H; reflexivity|]. apply IH. exact H.
Qed.

Lemma collect_refs : forall cnt pa i hi canon acc l,
  collect_pruned fixed pa cnt i hi canon acc = Ok l -> pa_off pa <= i ->
  map fst l = rev (map fst acc) ++ map n_ref (slice (pa_nodes pa) (N.to_nat (i - pa_off pa)) cnt).
Proof.
  induction cnt; intros pa i hi canon acc l H Hi; cbn [collect_pruned] in H.
  - inversion H. subst. unfold slice. cbn. rewrite app_nil_r, map_rev. reflexivity.
  - cbn [f_prune_loop f_prune_canon f_prune_nilsink fixed orb] in H.
    unfold rawNode in H. destruct (nthN (pa_nodes pa) (i - pa_off pa)) as [node|] eqn:En; [|discriminate]. cbn [bind] in H.
    cbv zeta in H. apply IHcnt in H; [|lia]. rewrite H. simpl map. simpl rev.
    unfold nthN in En. destruct (i - pa_off pa <? lenN (pa_nodes pa)); [|discriminate].
    rewrite (slice_step _ _ _ _ En). simpl map.
    replace (N.to_nat (i + 1 - pa_off pa)) with (S (N.to_nat (i - pa_off pa))) by lia.
    generalize (map n_ref (slice (pa_nodes pa) (S (N.to_nat (i - pa_off pa))) cnt)) as tl_.
    generalize (rev (map fst acc)) as hd_. intros hd_ tl_. induction hd_; simpl; [reflexivity|f_equal; assumption].
Qed.

Lemma sink_loop_spec sink : forall l k calls upto failed out,
  sink_loop sink k l calls = (upto, failed, out) ->
  exists m, out = rev calls ++ firstn (m + if failed then 1 else 0) l /\ upto = k + N.of_nat m /\
            (m + (if failed then 1 else 0) <= length l)%nat /\ (failed = false -> m = length l).
Proof.
  induction l as [|[r c] l IH]; intros k calls upto failed out H; cbn [sink_loop] in H.
  - inversion H. subst. exists 0%nat. cbn. rewrite app_nil_r. repeat split; lia.
  - destruct (sink k r c).
    + apply IH in H. destruct H as [m [E1 [E2 [E3 E4]]]]. exists (S m). cbn [rev] in E1. rewrite <- app_assoc in E1. cbn in E1.
      repeat split; [exact E1 | lia | cbn; lia | intros F; rewrite (E4 F); reflexivity].
    + inversion H. subst. exists 0%nat. cbn. repeat split; try lia; try discriminate.
Qed.

Lemma drop_pruned_refs fx : forall l pa, map n_ref (pa_nodes (drop_pruned fx l pa)) = skipn (length l) (map n_ref (pa_nodes pa)).
Proof.
  induction l as [|[r c] l IH]; intros pa; cbn [drop_pruned]; [reflexivity|].
  rewrite IH. cbn [pa_nodes length]. destruct (pa_nodes pa); cbn; [destruct (length l); reflexivity|reflexivity].
Qed.

Lemma reparent_refs : forall nodes off ai ar asl, map n_ref (fst (fst (reparent_loop nodes off ai ar asl))) = map n_ref nodes.
Proof.
  induction nodes as [|n nodes IH]; intros; cbn [reparent_loop]; [reflexivity|].
  specialize (IH off ai ar asl). destruct (reparent_loop nodes off ai ar asl) as [[rest' w] ch]. cbn [fst] in IH.
  destruct (_ && _); cbn [fst map]; rewrite IH; reflexivity.
Qed.
Lemma upd_nth_refs (nodes : list node) : forall i n, (forall m, nth_error nodes i = Some m -> n_ref n = n_ref m) ->
  map n_ref (upd_nth nodes i n) = map n_ref nodes.
Proof.
  induction nodes as [|a nodes IH]; intros i n H; [reflexivity|]. destruct i; cbn.
  - rewrite (H a eq_refl). reflexivity.
  - rewrite IH; [reflexivity|]. intros m Hm. apply H. exact Hm.
Qed.

Lemma nth_error_upd_nth_same {A} (l : list A) : forall i x y, nth_error l i = Some y -> nth_error (upd_nth l i x) i = Some x.
Proof. induction l; intros [|i] x y H; cbn in *; try discriminate; [reflexivity|eapply IHl; eauto]. Qed.

(* the general re-parenting pass changes fork-choice parents and weights only *)
Lemma reparent_general_refs : forall cnt i pa,
  map n_ref (pa_nodes (fst (reparent_general cnt i pa))) = map n_ref (pa_nodes pa).
Proof.
  induction cnt; intros i pa; cbn [reparent_general]; [reflexivity|].
  unfold mbind at 1. unfold get at 1. unfold mbind at 1. unfold lift_o at 1.
  unfold rawNode. destruct (nthN (pa_nodes pa) (N.of_nat i)) as [node|] eqn:En; [|reflexivity].
  assert (Hi : nth_error (pa_nodes pa) i = Some node).
  { unfold nthN in En. destruct (_ <? _); [|discriminate]. rewrite Nat2N.id in En. exact En. }
  unfold mbind at 1.
  match goal with |- context [(if ?c then ret tt else ?e) pa] => destruct c end; [cbn [ret]; apply IHcnt|].
  destruct (bs_get (pa_bs pa) (n_parent node)) as [lowest|]; [|cbn [ret]; apply IHcnt].
  destruct (snd (n_ref node) <=? lowest); [cbn [ret]; apply IHcnt|].
  destruct (idx_get (pa_idx pa) (n_parent node, lowest)) as [pidx|]; [|cbn [ret]; apply IHcnt].
  set (nodes1 := upd_nth (pa_nodes pa) i (set_fp node pidx)).
  assert (H1 : map n_ref nodes1 = map n_ref (pa_nodes pa)).
  { unfold nodes1. apply upd_nth_refs. intros m Hm. rewrite Hi in Hm. inversion Hm. reflexivity. }
  destruct (nthN nodes1 (sub64 pidx (pa_off pa))) as [pn|] eqn:Ep; [|reflexivity].
  cbn [put]. rewrite IHcnt. cbn [pa_nodes]. rewrite <- H1.
  unfold updN. destruct (_ <? _) eqn:El; [|reflexivity].
  apply upd_nth_refs. intros m Hm. cbn.
  unfold nthN in Ep. rewrite El in Ep. rewrite Ep in Hm. inversion Hm. reflexivity.
Qed.

(* C10 prune, for every array state, anchor and sink behaviour: the nodes removed are a prefix of the node table; with a sink,
   exactly those nodes were handed to it, once each and in order; if the sink refused a node, that node is the one extra call,
   it stays in the array and the prune reports failure *)
Theorem prune_reports_once : forall sink ar asl pa pa' calls failed,
  OnPrune_core fixed sink ar asl pa = (pa', Ok (calls, failed)) ->
  exists pa1 k,
    map n_ref (pa_nodes pa') = skipn k (map n_ref (pa_nodes pa1)) /\
    (pa_sink_nil pa1 = false -> map fst calls = firstn (k + if failed then 1 else 0) (map n_ref (pa_nodes pa1))) /\
    (pa_sink_nil pa1 = true -> calls = [] /\ failed = false) /\
    (failed = true -> (k < length (pa_nodes pa1))%nat).
Proof.
  intros sink ar asl pa pa' calls failed. unfold OnPrune_core. unfold mbind at 1. unfold get at 1.
  destruct (idx_get (pa_idx pa) (ar, asl)) as [ai|]; cbn [ret].
  2: { intros H. inversion H. subst. exists pa', 0%nat. cbn. repeat split; auto; discriminate. }
  destruct (ai =? pa_off pa).
  { intros H. inversion H. subst. exists pa', 0%nat. cbn. repeat split; auto; discriminate. }
  unfold mbind at 1. destruct (FindHead fixed ar asl pa) as [pa1 oh]. destruct oh as [head| | | |]; try discriminate.
  unfold mbind at 1. unfold get at 1.
  destruct (idx_get (pa_idx pa1) head) as [hi|]; [|discriminate].
  cbn [f_prune_canon fixed]. unfold mbind at 1.
  match goal with |- context [mbind (lift_o (rawNode pa1 ?x)) _] => destruct (rawNode pa1 x) as [an| | | |] eqn:Ean end;
    unfold mbind at 1, lift_o at 1; try discriminate.
  unfold mbind at 1, lift_o at 1.
  destruct (canon_set _ pa1 (n_tp an) []) as [canon| | | |]; try discriminate.
  unfold mbind at 1, lift_o at 1.
  destruct (collect_pruned fixed pa1 (N.to_nat (ai - pa_off pa1)) (pa_off pa1) hi canon []) as [pruned| | | |] eqn:Ec; try discriminate.
  pose proof (collect_refs _ _ _ _ _ _ _ Ec (N.le_refl _)) as Hrefs. cbn [map rev app] in Hrefs.
  rewrite N.sub_diag in Hrefs. unfold slice in Hrefs. cbn [N.to_nat skipn] in Hrefs.
  cbn [f_prune_maps f_prune_partial fixed].
  assert (Hlp : length pruned = Nat.min (N.to_nat (ai - pa_off pa1)) (length (pa_nodes pa1))).
  { rewrite <- (map_length fst pruned), Hrefs, map_length. apply firstn_length. }
  destruct (pa_sink_nil pa1) eqn:Enil.
  - (* nil sink: everything collected is dropped, no call *)
    set (pa3 := drop_pruned fixed (firstn (N.to_nat (lenN pruned)) pruned) pa1).
    cbn [put]. unfold mbind at 1.
    pose proof (reparent_general_refs (length (pa_nodes pa3)) 0 pa3) as Hr.
    destruct (reparent_general (length (pa_nodes pa3)) 0 pa3) as [pa4 o4]. cbn [fst] in Hr.
    destruct o4; try discriminate. cbn [ret]. intros H. inversion H. subst pa' calls failed. clear H.
    exists pa1, (length pruned). split; [|split; [congruence|split; [auto|discriminate]]].
    rewrite Hr. unfold pa3. rewrite drop_pruned_refs. f_equal. unfold lenN. rewrite Nat2N.id. rewrite firstn_all. reflexivity.
  - destruct (sink_loop sink 0 pruned []) as [[upto fl] cl] eqn:Es.
    pose proof (sink_loop_spec sink _ _ _ _ _ _ Es) as [m [E1 [E2 [E3 E4]]]]. cbn [rev app] in E1. rewrite N.add_0_l in E2. subst upto.
    set (pa3 := drop_pruned fixed (firstn (N.to_nat (N.of_nat m)) pruned) pa1).
    cbn [put]. unfold mbind at 1.
    pose proof (reparent_general_refs (length (pa_nodes pa3)) 0 pa3) as Hr.
    destruct (reparent_general (length (pa_nodes pa3)) 0 pa3) as [pa4 o4]. cbn [fst] in Hr.
    destruct o4; try discriminate. cbn [ret]. intros H. inversion H. subst pa' calls failed. clear H.
    exists pa1, m. split; [|split; [|split; [congruence|]]].
    + rewrite Hr. unfold pa3. rewrite drop_pruned_refs. f_equal. rewrite Nat2N.id. apply firstn_length_le. lia.
    + intros _. rewrite E1. rewrite <- firstn_map, Hrefs. rewrite !firstn_map. rewrite firstn_firstn. f_equal. f_equal. lia.
    + intros ->. lia.
Qed.

(* C10, mixed pairs: a finalized checkpoint of an OLDER epoch is refused whatever its root (the current finalized root included),
   whatever else the update carries (a newer justified checkpoint in particular); only the array's links may have been refreshed
   by the subtree query, nothing else of the state changes, nothing is pruned, the sink is not called. For every state. *)
Lemma updateJustified_refuses_older_finalized : forall w f j bal,
  fst f < fst (w_fin w) ->
  exists pa' o, updateJustified fixed f j bal w = (set_pa w pa', o) /\
                (forall ui, snd (InSubtree fixed (snd (w_fin w)) (snd f) (w_pa w)) = Ok ui \/ fst j < fst f -> o = Err).
Proof.
  intros w f j bal Hold. unfold updateJustified.
  destruct (fst j <? fst f) eqn:Ejf.
  - exists (w_pa w), Err. cbn [fail]. split; [destruct w; reflexivity|auto].
  - apply N.ltb_ge in Ejf. unfold mbind at 1. unfold get at 1. unfold mbind at 1.
    assert (Hne : cp_eqb (w_fin w) f = false).
    { unfold cp_eqb. apply andb_false_iff. left. apply N.eqb_neq. lia. }
    rewrite Hne. cbn [negb]. unfold mbind at 1. unfold inner_InSubtree. cbn [f_relock fixed]. unfold lift_pa at 1.
    destruct (InSubtree fixed (snd (w_fin w)) (snd f) (w_pa w)) as [pa' o] eqn:Ei. cbn [fst snd].
    exists pa'. destruct o as [[u i]| | | |]; cbn [fst snd].
    + replace (fst f <? fst (w_fin w)) with true by (symmetry; apply N.ltb_lt; exact Hold). rewrite orb_true_r.
      exists Err. destruct u; cbn [fail]; split; auto.
    + exists Err. split; auto.
    + exists (Panic p). split; [reflexivity|]. intros ui [H|H]; [discriminate|lia].
    + exists Blocked. split; [reflexivity|]. intros ui [H|H]; [discriminate|lia].
    + exists OutOfFuel. split; [reflexivity|]. intros ui [H|H]; [discriminate|lia].
Qed.

Theorem update_older_finalized_refused : forall sink trigger j f bal w ui,
  w_locked w = false ->
  fst f < fst (w_fin w) -> fst (w_just w) < fst j ->             (* finalized behind, justified ahead *)
  (match w_pin w with Some p => trigger = fst p | None => True end) ->
  snd (InSubtree fixed (snd (w_fin w)) (snd f) (w_pa w)) = Ok ui \/ fst j < fst f ->
  exists pa', W_UpdateJustified fixed sink trigger j f bal w = (set_pa w pa', Err).
Proof.
  intros sink trigger j f bal w ui Hw Hold Hnew Hpin Hq.
  unfold W_UpdateJustified, locked_call. rewrite Hw.
  unfold UpdateJustified_body. unfold mbind at 1. unfold get at 1.
  assert (Hc : (fst j <=? fst (w_just (set_locked w true))) && (fst f <=? fst (w_fin (set_locked w true))) = false).
  { cbn [w_just w_fin set_locked]. apply andb_false_iff. left. apply N.leb_gt. exact Hnew. }
  rewrite Hc. unfold mbind at 1.
  assert (Hp : (match w_pin (set_locked w true) with
                | Some pin => if negb (trigger =? fst pin)
                              then mbind (inner_InSubtree fixed (fst pin) trigger)
                                         (fun ui => if fst ui then fail Err else if negb (snd ui) then fail Err else ret tt)
                              else ret tt
                | None => ret tt end) (set_locked w true) = (set_locked w true, Ok tt)).
  { cbn [w_pin set_locked]. destruct (w_pin w) as [p|]; [|reflexivity]. subst trigger. rewrite N.eqb_refl. reflexivity. }
  rewrite Hp. cbn [f_argorder fixed]. unfold mbind at 1.
  destruct (updateJustified_refuses_older_finalized (set_locked w true) f j bal Hold) as [pa' [o [Heq Herr]]].
  rewrite Heq. rewrite (Herr ui Hq). exists pa'. destruct w; cbn in *; subst; reflexivity.
Qed.
