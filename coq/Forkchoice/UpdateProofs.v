(* Proofs about the Impl model, part 2 (C10): the repaired wrapper never waits on its own mutex and leaves it free,
   for every state, every input and every prune-sink behaviour; older-or-equal checkpoint pairs change nothing. *)
From Coq Require Import NArith ZArith List Bool Lia.
From V Require Import Base.U64 Base.Outcome Forkchoice.ProtoArray Forkchoice.VoteStore Forkchoice.Wrapper Forkchoice.Step
     Forkchoice.ArrayProofs.
Import ListNotations.
Local Open Scope N_scope.
Open Scope m_scope.

(* a computation of the wrapper that never touches the lock flag *)
Definition keeps {A} (m : M wrapper A) : Prop := forall s, w_locked (fst (m s)) = w_locked s.

Lemma keeps_ret {A} (a : A) : keeps (ret a). Proof. intros s; reflexivity. Qed.
Lemma keeps_get : keeps get. Proof. intros s; reflexivity. Qed.
Lemma keeps_fail {A} (o : outcome A) : keeps (fail o). Proof. intros s; reflexivity. Qed.
Lemma keeps_lift_o {A} (o : outcome A) : keeps (lift_o o). Proof. intros s; reflexivity. Qed.
Lemma keeps_modify (f : wrapper -> wrapper) : (forall w, w_locked (f w) = w_locked w) -> keeps (modify f).
Proof. intros H s. cbn. apply H. Qed.
Lemma keeps_bind {A B} (m : M wrapper A) (f : A -> M wrapper B) : keeps m -> (forall a, keeps (f a)) -> keeps (mbind m f).
Proof.
  intros Hm Hf s. unfold mbind. specialize (Hm s). destruct (m s) as [s' o]. cbn in Hm.
  destruct o; cbn; auto. rewrite Hf. exact Hm.
Qed.
Lemma keeps_lift_pa {A} (m : M parray A) : keeps (lift_pa m).
Proof. intros s. unfold lift_pa. destruct (m (w_pa s)). reflexivity. Qed.
Lemma keeps_lift_vs {A} (m : M vstore A) : keeps (lift_vs m).
Proof. intros s. unfold lift_vs. destruct (m (w_vs s)). reflexivity. Qed.
Lemma nb_lift_pa {A} (m : M parray A) : nb m -> nb (lift_pa m).
Proof. intros H s. unfold lift_pa. specialize (H (w_pa s)). destruct (m (w_pa s)). exact H. Qed.
Lemma nb_lift_vs {A} (m : M vstore A) : nb m -> nb (lift_vs m).
Proof. intros H s. unfold lift_vs. specialize (H (w_vs s)). destruct (m (w_vs s)). exact H. Qed.
Lemma nb_modify {S} (f : S -> S) : nb (modify f).
Proof. intros s. cbn. discriminate. Qed.

Ltac keeps_step :=
  match goal with
  | |- keeps (mbind _ _) => apply keeps_bind; [| intros ? ]
  | |- keeps (ret _) => apply keeps_ret
  | |- keeps get => apply keeps_get
  | |- keeps (fail _) => apply keeps_fail
  | |- keeps (lift_o _) => apply keeps_lift_o
  | |- keeps (lift_pa _) => apply keeps_lift_pa
  | |- keeps (lift_vs _) => apply keeps_lift_vs
  | |- keeps (modify _) => apply keeps_modify; intros; reflexivity
  | |- keeps (if ?b then _ else _) => destruct b
  | |- keeps (match ?x with _ => _ end) => destruct x
  end.
Ltac keeps_auto := repeat keeps_step.

Ltac wnb_step :=
  match goal with
  | |- nb (lift_pa _) => apply nb_lift_pa
  | |- nb (lift_vs _) => apply nb_lift_vs
  | |- nb (modify _) => apply nb_modify
  | _ => nb_step
  end.
Ltac wnb_auto := repeat (wnb_step; auto with nb).

(* fc.mu.Lock() ... defer Unlock(): on a free lock the call does not block, and when it returns the lock is free again *)
Lemma locked_call_free {A} (body : M wrapper A) (w : wrapper) :
  nb body -> keeps body -> w_locked w = false ->
  snd (locked_call body w) <> Blocked /\
  (snd (locked_call body w) <> OutOfFuel -> w_locked (fst (locked_call body w)) = false).
Proof.
  intros Hnb Hk Hw. unfold locked_call. rewrite Hw.
  specialize (Hnb (set_locked w true)). specialize (Hk (set_locked w true)).
  destruct (body (set_locked w true)) as [w' o]. cbn in *.
  destruct o; cbn; split; try discriminate; try reflexivity; try congruence;
    try (intros H; exfalso; apply H; reflexivity).
Qed.

Definition returns_free {A} (m : M wrapper A) : Prop :=
  forall w, w_locked w = false ->
    snd (m w) <> Blocked /\ (snd (m w) <> OutOfFuel -> w_locked (fst (m w)) = false).

Lemma returns_free_locked {A} (body : M wrapper A) : nb body -> keeps body -> returns_free (locked_call body).
Proof. intros H1 H2 w Hw. apply locked_call_free; assumption. Qed.

Lemma returns_free_mmap {A B} (f : A -> B) (m : M wrapper A) : returns_free m -> returns_free (mmap f m).
Proof.
  intros H w Hw. specialize (H w Hw). unfold mmap. destruct (m w) as [w' o]. cbn in *.
  destruct H as [H1 H2]. destruct o; cbn; split; try discriminate; try (intros _; apply H2; discriminate);
    try (intros Hc; exfalso; apply Hc; reflexivity); try (exfalso; apply H1; reflexivity).
Qed.

(* the repaired inner InSubtree goes to the array directly *)
Lemma inner_InSubtree_nb a r : nb (inner_InSubtree fixed a r).
Proof. unfold inner_InSubtree. cbn [f_relock fixed]. wnb_auto. Qed.
Lemma inner_InSubtree_keeps a r : keeps (inner_InSubtree fixed a r).
Proof. unfold inner_InSubtree. cbn [f_relock fixed]. keeps_auto. Qed.
#[export] Hint Resolve inner_InSubtree_nb : nb.

Lemma epoch_start_nb spe e : onb (epoch_start spe e).
Proof. unfold epoch_start. nb_auto. Qed.
#[export] Hint Resolve epoch_start_nb : nb.

Lemma updateJustified_nb f j bal : nb (updateJustified fixed f j bal).
Proof. unfold updateJustified. wnb_auto. Qed.
Lemma updateJustified_keeps f j bal : keeps (updateJustified fixed f j bal).
Proof. unfold updateJustified. keeps_auto; apply inner_InSubtree_keeps. Qed.
#[export] Hint Resolve updateJustified_nb : nb.

Lemma UpdateJustified_body_nb sink t j f bal : nb (UpdateJustified_body fixed sink t j f bal).
Proof. unfold UpdateJustified_body. cbn [f_argorder fixed]. wnb_auto. Qed.
Lemma UpdateJustified_body_keeps sink t j f bal : keeps (UpdateJustified_body fixed sink t j f bal).
Proof.
  unfold UpdateJustified_body. cbn [f_argorder fixed].
  keeps_auto; try apply inner_InSubtree_keeps; try apply updateJustified_keeps.
Qed.

Lemma updateVotesMaybe_nb : nb (updateVotesMaybe fixed).
Proof. unfold updateVotesMaybe. wnb_auto. Qed.
Lemma updateVotesMaybe_keeps : keeps (updateVotesMaybe fixed).
Proof. unfold updateVotesMaybe. keeps_auto. Qed.
#[export] Hint Resolve updateVotesMaybe_nb : nb.

(* every exported method of the repaired wrapper, on a free lock: returns (value, error or panic), lock free again *)
Theorem step_returns_free : forall o, returns_free (impl_step fixed o).
Proof.
  destruct o; cbn [impl_step].
  - apply returns_free_mmap, returns_free_locked; [wnb_auto | keeps_auto].
  - apply returns_free_mmap, returns_free_locked; [wnb_auto | keeps_auto].
  - apply returns_free_mmap, returns_free_locked; [wnb_auto | keeps_auto].
  - intros w Hw.
    pose proof (returns_free_mmap (fun _ : unit => RUnit) _ (returns_free_locked _ (UpdateJustified_body_nb (sink_of fail) trigger j f bal)
                  (UpdateJustified_body_keeps (sink_of fail) trigger j f bal)) (set_log w []) Hw) as H.
    exact H.
  - apply returns_free_mmap, returns_free_locked; [unfold SetPin_body; wnb_auto | unfold SetPin_body; keeps_auto].
  - apply returns_free_mmap, returns_free_locked; [wnb_auto | keeps_auto; apply updateVotesMaybe_keeps].
  - apply returns_free_mmap, returns_free_locked; [wnb_auto | keeps_auto; apply updateVotesMaybe_keeps].
  - apply returns_free_mmap, returns_free_locked; [wnb_auto | keeps_auto].
  - apply returns_free_mmap, returns_free_locked; [intros s0; cbn; apply ClosestToSlot_nb | intros s0; reflexivity].
  - apply returns_free_mmap, returns_free_locked; [wnb_auto | keeps_auto].
  - apply returns_free_mmap, returns_free_locked; [intros s0; cbn; discriminate | intros s0; reflexivity].
  - apply returns_free_mmap, returns_free_locked; [wnb_auto | keeps_auto].
  - apply returns_free_mmap, returns_free_locked; [wnb_auto | keeps_auto].
  - apply returns_free_mmap, returns_free_locked; [intros s0; cbn; discriminate | intros s0; reflexivity].
  - apply returns_free_mmap, returns_free_locked; [intros s0; cbn; discriminate | intros s0; reflexivity].
  - apply returns_free_mmap, returns_free_locked; [intros s0; cbn; discriminate | intros s0; reflexivity].
  - intros w Hw. cbn. pose proof (getNode_nb fixed (w_pa w) ix) as H.
    destruct (getNode fixed (w_pa w) ix); cbn; split; auto; try discriminate.
Qed.


(* the constructor hands over a free lock *)
Lemma init_free : forall i u, snd (impl_init fixed i) = Ok u -> w_locked (fst (impl_init fixed i)) = false.
Proof.
  intros i u. unfold impl_init, new_forkchoice.
  set (w0 := mkW false _ _ _ _ _ _ _ _).
  assert (Hnb : nb (SetPin_body (i_anchor_root i) (i_anchor_slot i))) by (unfold SetPin_body; wnb_auto).
  assert (Hk : keeps (SetPin_body (i_anchor_root i) (i_anchor_slot i))) by (unfold SetPin_body; keeps_auto).
  pose proof (locked_call_free _ w0 Hnb Hk eq_refl) as [Hp1 Hp2].
  unfold mbind, W_SetPin.
  destruct (locked_call (SetPin_body (i_anchor_root i) (i_anchor_slot i)) w0) as [w1 o1]. cbn in Hp1, Hp2.
  destruct o1; cbn; try discriminate.
  intros _. rewrite (updateJustified_keeps (i_fin i) (i_just i) (Some (i_bal i)) w1). apply Hp2. discriminate.
Qed.

(* C10 update_returns, the blocking half, for ALL histories: no call of any history ever blocks *)
Lemma run_never_blocks : forall ops w, w_locked w = false ->
  Forall (fun r => fst r <> Blocked) (impl_run fixed w ops).
Proof.
  induction ops as [|o ops IH]; intros w Hw; cbn [impl_run]; [constructor|].
  pose proof (step_returns_free o w Hw) as [H1 H2].
  destruct (impl_step fixed o w) as [w' r]. cbn in H1, H2.
  destruct r; try (constructor; [cbn; discriminate | apply IH; apply H2; discriminate]);
    try (constructor; [cbn; try discriminate; exact H1 | constructor]).
Qed.

(* C10 update_older_noop: an older-or-equal pair (by epochs) changes nothing at all, whatever trigger, roots, balances, sink *)
Theorem update_older_noop : forall sink trigger j f bal w,
  w_locked w = false -> fst j <= fst (w_just w) -> fst f <= fst (w_fin w) ->
  W_UpdateJustified fixed sink trigger j f bal w = (w, Ok tt).
Proof.
  intros sink trigger j f bal w Hw Hj Hf.
  unfold W_UpdateJustified, locked_call. rewrite Hw.
  apply N.leb_le in Hj. apply N.leb_le in Hf.
  destruct w as [lk pa vs bl pin ju fi spe lg]. cbn in Hw, Hj, Hf. subst lk.
  unfold UpdateJustified_body, mbind, get, set_locked. cbn [w_just w_fin w_locked w_pa w_vs w_bal w_pin w_spe w_log].
  match goal with |- context [if ?c then ret tt else _] =>
    assert (E : c = true) by (apply andb_true_intro; split; assumption); rewrite E end.
  reflexivity.
Qed.

(* what a refused update may have touched: only the array's best-child links were (possibly) refreshed *)
Definition same_but_links (w w' : wrapper) : Prop :=
  w_locked w' = w_locked w /\ w_vs w' = w_vs w /\ w_bal w' = w_bal w /\ w_pin w' = w_pin w /\
  w_just w' = w_just w /\ w_fin w' = w_fin w /\ w_log w' = w_log w /\
  pa_off (w_pa w') = pa_off (w_pa w) /\ pa_idx (w_pa w') = pa_idx (w_pa w) /\ pa_bs (w_pa w') = pa_bs (w_pa w) /\
  length (pa_nodes (w_pa w')) = length (pa_nodes (w_pa w)).
