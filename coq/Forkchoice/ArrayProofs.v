(* Proofs about the Impl model, part 1: no call of the array, the vote store or the (repaired) wrapper ever waits for a
   mutex it already holds; the lock is free between calls. For ALL states and inputs. *)
From Coq Require Import NArith ZArith List Bool Lia.
From V Require Import Base.U64 Base.Outcome Forkchoice.ProtoArray Forkchoice.VoteStore Forkchoice.Wrapper Forkchoice.Step.
Import ListNotations.
Local Open Scope N_scope.
Open Scope m_scope.

(* ---------- "never blocks" for state-and-outcome computations ---------- *)
Definition nb {S A} (m : M S A) : Prop := forall s, snd (m s) <> Blocked.
Definition onb {A} (o : outcome A) : Prop := o <> Blocked.

Lemma nb_ret {S A} (a : A) : nb (@ret S A a).
Proof. intros s. cbn. discriminate. Qed.
Lemma nb_get {S} : nb (@get S).
Proof. intros s. cbn. discriminate. Qed.
Lemma nb_put {S} (x : S) : nb (put x).
Proof. intros s. cbn. discriminate. Qed.
Lemma nb_fail {S A} (o : outcome A) : onb o -> nb (@fail S A o).
Proof. intros H s. cbn. exact H. Qed.
Lemma nb_lift_o {S A} (o : outcome A) : onb o -> nb (@lift_o S A o).
Proof. intros H s. cbn. exact H. Qed.
Lemma nb_bind {S A B} (m : M S A) (f : A -> M S B) : nb m -> (forall a, nb (f a)) -> nb (mbind m f).
Proof.
  intros Hm Hf s. unfold mbind. specialize (Hm s). destruct (m s) as [s' o]. cbn in Hm.
  destruct o; try discriminate; try (exfalso; apply Hm; reflexivity). apply Hf.
Qed.
Lemma onb_bind {A B} (x : outcome A) (f : A -> outcome B) : onb x -> (forall a, onb (f a)) -> onb (bind x f).
Proof. intros Hx Hf. unfold onb in *. destruct x; cbn; try discriminate; [apply Hf | exfalso; apply Hx; reflexivity]. Qed.
Lemma onb_ok {A} (a : A) : onb (Ok a). Proof. discriminate. Qed.
Lemma onb_err {A} : onb (@Err A). Proof. discriminate. Qed.
Lemma onb_panic {A} p : onb (@Panic A p). Proof. discriminate. Qed.
Lemma onb_oof {A} : onb (@OutOfFuel A). Proof. discriminate. Qed.
Lemma nb_if {S A} (b : bool) (x y : M S A) : nb x -> nb y -> nb (if b then x else y).
Proof. destruct b; auto. Qed.
Lemma onb_if {A} (b : bool) (x y : outcome A) : onb x -> onb y -> onb (if b then x else y).
Proof. destruct b; auto. Qed.

#[export] Hint Resolve nb_ret nb_get nb_put onb_ok onb_err onb_panic onb_oof : nb.

(* one step of structural decomposition *)
Ltac nb_step :=
  match goal with
  | |- nb (mbind _ _) => apply nb_bind; [| intros ? ]
  | |- nb (ret _) => apply nb_ret
  | |- nb get => apply nb_get
  | |- nb (put _) => apply nb_put
  | |- nb (fail _) => apply nb_fail
  | |- nb (lift_o _) => apply nb_lift_o
  | |- onb (bind _ _) => apply onb_bind; [| intros ? ]
  | |- onb (Ok _) => apply onb_ok
  | |- onb Err => apply onb_err
  | |- onb (Panic _) => apply onb_panic
  | |- onb OutOfFuel => apply onb_oof
  | |- nb (if ?b then _ else _) => destruct b
  | |- onb (if ?b then _ else _) => destruct b
  | |- nb (match ?x with _ => _ end) => destruct x
  | |- onb (match ?x with _ => _ end) => destruct x
  | |- nb (let '(_, _) := ?x in _) => destruct x
  | |- onb (let '(_, _) := ?x in _) => destruct x
  end.
Ltac nb_auto := repeat (nb_step; auto with nb).

(* ---------- the array ---------- *)
Lemma getNode_nb fx pa ix : onb (getNode fx pa ix).
Proof. unfold getNode. nb_auto. Qed.
Lemma rawNode_nb pa i : onb (rawNode pa i).
Proof. unfold rawNode. nb_auto. Qed.
Lemma rawNodeAt_nb fx pa i : onb (rawNodeAt fx pa i).
Proof. unfold rawNodeAt. apply rawNode_nb. Qed.
Lemma nodeLeads_nb fx pa n : onb (nodeLeadsToViableHead fx pa n).
Proof. unfold nodeLeadsToViableHead. nb_auto. apply getNode_nb. Qed.
#[export] Hint Resolve getNode_nb rawNode_nb rawNodeAt_nb nodeLeads_nb : nb.

Lemma maybeUpdate_nb fx p c : nb (maybeUpdate fx p c).
Proof. unfold maybeUpdate. nb_auto. Qed.
#[export] Hint Resolve maybeUpdate_nb : nb.

Lemma connections_loop_nb fx k : nb (connections_loop fx k).
Proof. induction k; cbn [connections_loop]; nb_auto. Qed.
#[export] Hint Resolve connections_loop_nb : nb.
Lemma updateConnections_nb fx : nb (updateConnections fx).
Proof. unfold updateConnections. nb_auto. Qed.
#[export] Hint Resolve updateConnections_nb : nb.
Lemma weights_loop_nb fx k : forall d, nb (weights_loop fx k d).
Proof. induction k; intros d; cbn [weights_loop]; nb_auto. Qed.
#[export] Hint Resolve weights_loop_nb : nb.
Lemma ApplyScoreChanges_nb fx d je fe : nb (ApplyScoreChanges fx d je fe).
Proof. unfold ApplyScoreChanges. nb_auto. Qed.
#[export] Hint Resolve ApplyScoreChanges_nb : nb.

Lemma ProcessSlot_nb p s je fe : nb (ProcessSlot p s je fe).
Proof. unfold ProcessSlot. nb_auto. Qed.
#[export] Hint Resolve ProcessSlot_nb : nb.
Lemma ProcessBlock_nb p r s je fe : nb (ProcessBlock p r s je fe).
Proof. unfold ProcessBlock. nb_auto. Qed.
#[export] Hint Resolve ProcessBlock_nb : nb.

Lemma ensureConnections_nb fx : nb (ensureConnections fx).
Proof. unfold ensureConnections. nb_auto. Qed.
#[export] Hint Resolve ensureConnections_nb : nb.
Lemma gap_best_nb fx pa : forall nodes i ai li ar asl best bd, onb (gap_best fx pa nodes i ai li ar asl best bd).
Proof. induction nodes; intros; cbn [gap_best]; nb_auto. Qed.
#[export] Hint Resolve gap_best_nb : nb.
Lemma FindHead_nb fx r s : nb (FindHead fx r s).
Proof. unfold FindHead. nb_auto. Qed.
#[export] Hint Resolve FindHead_nb : nb.

Lemma chain_loop_nb fx fuel : forall pa ix acc, onb (chain_loop fx fuel pa ix acc).
Proof. induction fuel; intros; cbn [chain_loop]; nb_auto. Qed.
#[export] Hint Resolve chain_loop_nb : nb.
Lemma CanonicalChain_nb fx r s : nb (CanonicalChain fx r s).
Proof. unfold CanonicalChain. nb_auto. Qed.

Lemma closest_loop_nb fuel : forall pa a mn mx, onb (closest_loop fuel pa a mn mx).
Proof. induction fuel; intros; cbn [closest_loop]; nb_auto. Qed.
#[export] Hint Resolve closest_loop_nb : nb.
Lemma ClosestToSlot_nb pa a s : onb (ClosestToSlot pa a s).
Proof. unfold ClosestToSlot. nb_auto. Qed.
#[export] Hint Resolve ClosestToSlot_nb : nb.

Lemma canon_at_loop_nb fx fuel : forall pa ix sl wb, onb (canon_at_loop fx fuel pa ix sl wb).
Proof. induction fuel; intros; cbn [canon_at_loop]; nb_auto. Qed.
#[export] Hint Resolve canon_at_loop_nb : nb.
Lemma CanonAtSlot_nb fx a s wb : nb (CanonAtSlot fx a s wb).
Proof. unfold CanonAtSlot. nb_auto. Qed.

Lemma insub_loop_nb fx fuel : forall pa ai abd i, onb (insub_loop fx fuel pa ai abd i).
Proof. induction fuel; intros; cbn [insub_loop]; nb_auto. Qed.
#[export] Hint Resolve insub_loop_nb : nb.
Lemma inSubtree_nb fx pa a l : onb (inSubtree fx pa a l).
Proof.
  unfold inSubtree. destruct (a =? l); [nb_auto|].
  pose proof (getNode_nb fx pa a) as Ha. pose proof (getNode_nb fx pa l) as Hl.
  destruct (getNode fx pa a); try (exfalso; apply Ha; reflexivity); nb_auto;
  destruct (getNode fx pa l); try (exfalso; apply Hl; reflexivity); nb_auto.
Qed.
#[export] Hint Resolve inSubtree_nb : nb.
Lemma InSubtree_nb fx a r : nb (InSubtree fx a r).
Proof.
  unfold InSubtree. destruct (a =? r); [apply nb_ret|]. intros s.
  pose proof (ensureConnections_nb fx s) as H. destruct (ensureConnections fx s) as [pa o]. cbn in H.
  destruct o; cbn; try discriminate; try (exfalso; apply H; reflexivity).
  repeat match goal with
         | |- snd (match ?x with _ => _ end) <> _ => destruct x; cbn; try discriminate
         end.
  apply inSubtree_nb.
Qed.
#[export] Hint Resolve InSubtree_nb : nb.

Lemma search_loop_nb fx pa : forall nodes ai hi h p s non can, onb (search_loop fx pa nodes ai hi h p s non can).
Proof. induction nodes; intros; cbn [search_loop]; nb_auto. Qed.
#[export] Hint Resolve search_loop_nb : nb.
Lemma Search_nb fx a p s : nb (Search fx a p s).
Proof. unfold Search. nb_auto. Qed.

Lemma canon_set_nb fuel : forall pa i acc, onb (canon_set fuel pa i acc).
Proof. induction fuel; intros; cbn [canon_set]; nb_auto. Qed.
Lemma collect_pruned_nb fx pa cnt : forall i hi canon acc, onb (collect_pruned fx pa cnt i hi canon acc).
Proof. induction cnt; intros; cbn [collect_pruned]; nb_auto. Qed.
#[export] Hint Resolve canon_set_nb collect_pruned_nb : nb.
Lemma reparent_general_nb : forall cnt i, nb (reparent_general cnt i).
Proof. induction cnt; intros i; cbn [reparent_general]; nb_auto. Qed.
#[export] Hint Resolve reparent_general_nb : nb.
Lemma OnPrune_core_nb fx sink r s : nb (OnPrune_core fx sink r s).
Proof. unfold OnPrune_core. nb_auto. Qed.
#[export] Hint Resolve OnPrune_core_nb CanonicalChain_nb CanonAtSlot_nb Search_nb : nb.

(* ---------- the vote store ---------- *)
Lemma vs_ProcessAttestation_nb ix r s : nb (vs_ProcessAttestation ix r s).
Proof. unfold vs_ProcessAttestation. nb_auto. Qed.
Lemma deltas_loop_nb fx ind off ob nb_ : forall votes i deltas acc, onb (deltas_loop fx ind off ob nb_ i votes deltas acc).
Proof. induction votes; intros; cbn [deltas_loop]; nb_auto. Qed.
Lemma ComputeDeltas_nb fx ind ob nb_ : nb (ComputeDeltas fx ind ob nb_).
Proof.
  unfold ComputeDeltas. nb_step. auto with nb.
  pose proof (deltas_loop_nb fx ind (if f_deltas_off fx then min_index ind else 0) ob nb_ (vs_votes a) 0%nat (repeat 0%Z (length ind)) []) as H.
  destruct (deltas_loop fx ind _ ob nb_ 0 (vs_votes a) _ []); try (exfalso; apply H; reflexivity); nb_auto.
Qed.
#[export] Hint Resolve vs_ProcessAttestation_nb ComputeDeltas_nb : nb.
