(* Proofs, part 7 (C09 best links, soundness half): BestChild/BestDescendant never leave the fork-choice subtree.
   For every state reached without pruning: a node's BestChild is one of its fork-choice children and its BestDescendant lies in that
   child's subtree (or both are NONE); hence the head FindHead answers is the start node or one of its fork-choice descendants, and
   it is viable. (That the links are the ARGMAX chain - best_links_inv proper - is not proved.) *)
From Coq Require Import NArith ZArith List Bool Lia.
From Coq Require Import ZifyN ZifyNat ZifyBool.
From V Require Import Base.U64 Base.Outcome Forkchoice.ProtoArray Forkchoice.VoteStore Forkchoice.TreeSpec Forkchoice.TreeProofs
     Forkchoice.WalkProofs Forkchoice.WeightProofs.
Import ListNotations.
Local Open Scope N_scope.

(* one more step up: if c' is above-or-equal d's chain and ci is the parent of c', then ci is on d's chain *)
Lemma ancf_parent fps c' ci : nth_error fps c' = Some (Some ci) ->
  forall f d, ancf f fps d c' = true -> ancf (S f) fps d ci = true.
Proof.
  intros Hc. induction f; intros d H; cbn [ancf] in H.
  - rewrite orb_false_r in H. apply Nat.eqb_eq in H. subst d. cbn [ancf]. rewrite Hc. cbn [ancf]. rewrite Nat.eqb_refl.
    cbn [orb]. destruct (Nat.eqb c' ci); reflexivity.
  - apply orb_true_iff in H. destruct H as [H|H].
    + apply Nat.eqb_eq in H. subst d.
      change (ancf (S (S f)) fps c' ci) with (Nat.eqb c' ci || match nth_error fps c' with Some (Some p) => ancf (S f) fps p ci | _ => false end).
      rewrite Hc. cbn [ancf]. rewrite Nat.eqb_refl. cbn [orb]. destruct (Nat.eqb c' ci); reflexivity.
    + destruct (nth_error fps d) as [[q|]|] eqn:E; try discriminate. apply IHf in H.
      change (ancf (S (S f)) fps d ci) with (Nat.eqb d ci || match nth_error fps d with Some (Some p) => ancf (S f) fps p ci | _ => false end).
      rewrite E, H. apply orb_true_r.
Qed.
Lemma anc_parent fps d c' ci : FpOk fps -> nth_error fps c' = Some (Some ci) -> anc fps d c' = true -> anc fps d ci = true.
Proof.
  intros HF Hc H. unfold anc in *. apply (ancf_parent fps c' ci Hc) in H. rewrite (ancf_fuel fps HF (S d) d ci) in H by lia. exact H.
Qed.

(* the best links of the node at position i point into its fork-choice subtree *)
Definition link_ok (fps : list (option nat)) (off : N) (i : nat) (n : node) : Prop :=
  (n_bc n = NONE /\ n_bd n = NONE) \/
  exists c d, n_bc n = off + N.of_nat c /\ n_bd n = off + N.of_nat d /\ (c < length fps)%nat /\ (d < length fps)%nat /\
              nth_error fps c = Some (Some i) /\ anc fps d c = true.
Definition BL (pa : parray) : Prop :=
  FpOk (fps_of pa) /\
  forall i n, nth_error (pa_nodes pa) i = Some n -> link_ok (fps_of pa) (pa_off pa) i n.

Lemma fps_len pa : length (fps_of pa) = length (pa_nodes pa). Proof. unfold fps_of. apply map_length. Qed.
Lemma fps_nth pa i n : nth_error (pa_nodes pa) i = Some n -> nth_error (fps_of pa) i = Some (fpos (pa_off pa) n).
Proof. intros H. unfold fps_of. rewrite nth_error_map, H. reflexivity. Qed.

Lemma getNode_pos pa ix n : getNode fixed pa ix = Ok n ->
  exists i, ix = pa_off pa + N.of_nat i /\ nth_error (pa_nodes pa) i = Some n.
Proof.
  intros H. pose proof (getNode_nth _ _ _ _ H) as Hn. unfold getNode in H. destruct (ix <? pa_off pa) eqn:E; [discriminate|].
  apply N.ltb_ge in E. unfold nthN in Hn. destruct (ix - pa_off pa <? lenN (pa_nodes pa)); [|discriminate].
  exists (N.to_nat (ix - pa_off pa)). split; [lia|exact Hn].
Qed.

Lemma nth_upd_nth {A} (l : list A) : forall i j x, nth_error (upd_nth l i x) j =
  if Nat.eqb j i then (match nth_error l i with Some _ => Some x | None => None end) else nth_error l j.
Proof.
  induction l; intros i j x; cbn.
  - destruct (Nat.eqb j i); destruct i, j; reflexivity.
  - destruct i, j; cbn; try reflexivity. apply IHl.
Qed.

Lemma map_upd_nth_same {A B} (f : A -> B) (l : list A) : forall i x y,
  nth_error l i = Some y -> f x = f y -> map f (upd_nth l i x) = map f l.
Proof.
  induction l as [|a l IH]; intros i x y Hi Hf; [destruct i; discriminate|].
  destruct i; cbn in *; [inversion Hi; subst; rewrite Hf; reflexivity|]. f_equal. eapply IH; eauto.
Qed.
Lemma updN_of_nat {A} (l : list A) i x : (i < length l)%nat -> updN l (N.of_nat i) x = upd_nth l i x.
Proof. intros H. unfold updN, lenN. replace (N.of_nat i <? N.of_nat (length l)) with true by (symmetry; apply N.ltb_lt; lia). rewrite Nat2N.id. reflexivity. Qed.

(* replacing the best links of the node at position pp by links that are fine keeps BL *)
Lemma BL_set_best pa pp parent a b :
  BL pa -> nth_error (pa_nodes pa) pp = Some parent -> link_ok (fps_of pa) (pa_off pa) pp (set_best parent a b) ->
  BL (with_nodes pa (updN (pa_nodes pa) (N.of_nat pp) (set_best parent a b))).
Proof.
  intros [HF HL] Hp Hok.
  assert (Hlt : (pp < length (pa_nodes pa))%nat) by (apply nth_error_Some; congruence).
  rewrite (updN_of_nat _ _ _ Hlt).
  assert (Hfps : fps_of (with_nodes pa (upd_nth (pa_nodes pa) pp (set_best parent a b))) = fps_of pa).
  { unfold fps_of, with_nodes. cbn [pa_nodes pa_off]. eapply map_upd_nth_same; eauto. }
  split; [rewrite Hfps; exact HF|].
  intros i n Hi. rewrite Hfps. unfold with_nodes in Hi. cbn [pa_nodes pa_off] in *. rewrite nth_upd_nth in Hi.
  destruct (Nat.eqb_spec i pp) as [->|Hne].
  - rewrite Hp in Hi. inversion Hi. subst n. exact Hok.
  - apply HL. exact Hi.
Qed.

(* maybeUpdate, called for a child whose fork-choice parent is the node it updates *)
Lemma maybeUpdate_BL p c pa :
  BL pa ->
  (forall child, getNode fixed pa c = Ok child ->
     exists ci pp, c = pa_off pa + N.of_nat ci /\ p = pa_off pa + N.of_nat pp /\ nth_error (pa_nodes pa) ci = Some child /\
                   fpos (pa_off pa) child = Some pp) ->
  BL (fst (maybeUpdate fixed p c pa)).
Proof.
  intros HB Hcall. unfold maybeUpdate, mbind, get, lift_o, ret, put.
  destruct (getNode fixed pa c) as [child| | | |] eqn:Ec; try exact HB.
  destruct (Hcall child eq_refl) as [ci [pp [Hc [Hp [Hci Hfp]]]]].
  destruct (getNode fixed pa p) as [parent| | | |] eqn:Ep; try exact HB.
  destruct (getNode_pos pa p parent Ep) as [pp' [Hp' Hpp]]. assert (pp' = pp) by lia. subst pp'.
  destruct (nodeLeadsToViableHead fixed pa child) as [cl| | | |]; try exact HB.
  replace (p - pa_off pa) with (N.of_nat pp) by lia.
  destruct HB as [HF HL].
  assert (Hcil : (ci < length (pa_nodes pa))%nat) by (apply nth_error_Some; congruence).
  assert (Hnone : BL (with_nodes pa (updN (pa_nodes pa) (N.of_nat pp) (set_best parent NONE NONE)))).
  { apply BL_set_best; [split; auto|exact Hpp|]. left. split; reflexivity. }
  assert (Hchild : BL (with_nodes pa (updN (pa_nodes pa) (N.of_nat pp) (set_best parent c (if n_bd child =? NONE then c else n_bd child))))).
  { apply BL_set_best; [split; auto|exact Hpp|]. right. cbn [set_best n_bc n_bd].
    assert (Hfc : nth_error (fps_of pa) ci = Some (Some pp)) by (rewrite (fps_nth pa ci child Hci), Hfp; reflexivity).
    destruct (n_bd child =? NONE) eqn:Eb.
    - exists ci, ci. rewrite fps_len. repeat split; auto. apply anc_refl.
    - apply N.eqb_neq in Eb. destruct (HL ci child Hci) as [[_ Hn]|[c' [d [Hbc [Hbd [Hc' [Hd [Hfc' Ha]]]]]]]]; [congruence|].
      exists ci, d. rewrite fps_len in *. repeat split; auto. eapply anc_parent; eauto. }
  repeat match goal with
         | |- BL (fst (let (_, _) := (if ?b then _ else _) _ in _)) => destruct b
         | |- BL (fst (let (_, _) := match ?x with _ => _ end in _)) => destruct x
         | |- BL (fst (match ?x with _ => _ end)) => destruct x
         | |- BL (fst (match ?x with _ => _ end _)) => destruct x
         end; cbn [fst]; try (split; auto; fail); try exact Hnone; try exact Hchild.
Qed.

Lemma connections_loop_BL : forall k pa, BL pa -> created pa < two64 -> (k <= length (pa_nodes pa))%nat -> BL (fst (connections_loop fixed k pa)).
Proof.
  induction k; intros pa HB Hcr Hk; cbn [connections_loop]; [exact HB|].
  unfold mbind at 1. unfold get at 1. unfold mbind at 1. unfold lift_o at 1. unfold rawNode, nthN.
  replace (N.of_nat k <? lenN (pa_nodes pa)) with true by (symmetry; apply N.ltb_lt; unfold lenN; lia). rewrite Nat2N.id.
  destruct (nth_error (pa_nodes pa) k) as [node|] eqn:En; [|exact HB].
  unfold mbind at 1. cbn [f_apply_guard fixed].
  destruct (negb (n_fp node =? NONE) && (pa_off pa <=? n_fp node)) eqn:Ec.
  - assert (Hadd : add64 (pa_off pa) (N.of_nat k) = pa_off pa + N.of_nat k).
    { unfold add64. apply wrap64_small. unfold created, lenN in Hcr. lia. }
    rewrite Hadd.
    assert (HB1 : BL (fst (maybeUpdate fixed (n_fp node) (pa_off pa + N.of_nat k) pa))).
    { apply maybeUpdate_BL; [exact HB|]. intros child Hg. rewrite (getNode_at pa k node En) in Hg. inversion Hg. subst child.
      apply andb_true_iff in Ec. destruct Ec as [E1 E2]. apply negb_true_iff in E1. apply N.leb_le in E2.
      exists k, (N.to_nat (n_fp node - pa_off pa)). split; [reflexivity|]. split; [lia|]. split; [exact En|].
      unfold fpos. rewrite E1. replace (n_fp node <? pa_off pa) with false by (symmetry; apply N.ltb_ge; exact E2). reflexivity. }
    pose proof (maybeUpdate_sbb fixed (n_fp node) (pa_off pa + N.of_nat k) pa) as Hs.
    destruct (maybeUpdate fixed (n_fp node) (pa_off pa + N.of_nat k) pa) as [pa1 o]. cbn [fst] in *.
    destruct (sbb_views _ _ Hs) as [_ [_ Hl]]. destruct Hs as [Ho _].
    destruct o; try exact HB1. apply IHk; [exact HB1|unfold created, lenN in *; rewrite Ho, Hl; exact Hcr|lia].
  - cbn [ret]. apply IHk; [exact HB|exact Hcr|lia].
Qed.

Lemma BL_views pa pa' :
  fps_of pa' = fps_of pa -> pa_off pa' = pa_off pa -> length (pa_nodes pa') = length (pa_nodes pa) ->
  map (fun n => (n_bc n, n_bd n)) (pa_nodes pa') = map (fun n => (n_bc n, n_bd n)) (pa_nodes pa) -> BL pa -> BL pa'.
Proof.
  intros Hf Ho Hl Hb [HF HL]. split; [rewrite Hf; exact HF|].
  intros i n' Hi. rewrite Hf, Ho.
  assert (E : nth_error (map (fun n => (n_bc n, n_bd n)) (pa_nodes pa')) i = Some (n_bc n', n_bd n')) by (rewrite nth_error_map, Hi; reflexivity).
  rewrite Hb, nth_error_map in E. destruct (nth_error (pa_nodes pa) i) as [n|] eqn:En; [|discriminate]. cbn in E. inversion E.
  specialize (HL i n En). unfold link_ok in *. rewrite <- H0, <- H1. exact HL.
Qed.

Lemma same_but_w_best pa pa' : same_but_w pa pa' ->
  map (fun n => (n_bc n, n_bd n)) (pa_nodes pa') = map (fun n => (n_bc n, n_bd n)) (pa_nodes pa).
Proof.
  intros [_ [_ [_ [_ [_ [_ [_ H]]]]]]].
  assert (G : forall l, map (fun n => (n_bc n, n_bd n)) l = map (fun x : N * N * N * N * N * N * N * N * N => let '(_, _, _, _, _, _, bc, bd) := x in (bc, bd)) (map noW l)).
  { intros l. rewrite map_map. apply map_ext. intros n. reflexivity. }
  rewrite !G, H. reflexivity.
Qed.

Lemma ApplyScoreChanges_BL d je fe pa : BL pa -> created pa < two64 -> BL (fst (ApplyScoreChanges fixed d je fe pa)).
Proof.
  intros HB Hcr. unfold ApplyScoreChanges. unfold mbind at 1. unfold get at 1.
  destruct (length d =? length (pa_nodes pa))%nat eqn:El; cbn [negb]; [|exact HB]. apply Nat.eqb_eq in El.
  unfold mbind at 1. cbn [put]. set (pae := with_epochs pa je fe).
  assert (HBe : BL pae) by (destruct HB as [A C]; split; [exact A|exact C]).
  unfold mbind at 1.
  destruct (weights_loop_spec (length (pa_nodes pa)) pae d (proj1 HBe) El (Nat.le_refl _)) as [pa1 [d' [Hrun [HS _]]]].
  rewrite Hrun.
  assert (HB1 : BL pa1).
  { apply (BL_views pae pa1); auto; [apply same_but_w_fps; exact HS|destruct HS as [_ [Ho _]]; exact Ho|apply same_but_w_len; exact HS|apply same_but_w_best; exact HS]. }
  unfold mbind at 1.
  assert (Hcr1 : created pa1 < two64).
  { unfold created, lenN in *. rewrite (same_but_w_len _ _ HS). destruct HS as [_ [Ho _]]. rewrite Ho. exact Hcr. }
  pose proof (connections_loop_BL (length (pa_nodes pa)) pa1 HB1 Hcr1 ltac:(rewrite (same_but_w_len _ _ HS); cbn; lia)) as HB2.
  destruct (connections_loop fixed (length (pa_nodes pa)) pa1) as [pa2 o2]. cbn [fst] in HB2.
  destruct o2; cbn [fst]; exact HB2.
Qed.

Lemma ensureConnections_BL pa : BL pa -> created pa < two64 -> BL (fst (ensureConnections fixed pa)).
Proof.
  intros HB Hcr. unfold ensureConnections, mbind, get. destruct (pa_upd pa); [exact HB|].
  unfold updateConnections, mbind, get, put.
  pose proof (connections_loop_BL (length (pa_nodes pa)) pa HB Hcr (Nat.le_refl _)) as H.
  destruct (connections_loop fixed (length (pa_nodes pa)) pa) as [pa1 o]. cbn [fst] in H.
  destruct o; cbn [fst]; exact H.
Qed.

(* the candidates of a start on an empty slot above the first slot of its root (C10-gap-anchor-prune-head) *)
Definition gap_cand (ai li ar asl : N) (n : node) : Prop :=
  n_fp n = ai \/ (n_fp n = li /\ n_parent n = ar /\ fst (n_ref n) <> ar /\ asl < snd (n_ref n)).
Lemma gap_best_spec pa ai li ar asl : forall nodes i0 best bd0 bd,
  (forall k n, nth_error nodes k = Some n -> nth_error (pa_nodes pa) (i0 + k) = Some n) ->
  gap_best fixed pa nodes i0 ai li ar asl best bd0 = Ok bd ->
  bd = bd0 \/ exists i n, nth_error (pa_nodes pa) i = Some n /\ gap_cand ai li ar asl n /\
                          bd = (if n_bd n =? NONE then add64 (pa_off pa) (N.of_nat i) else n_bd n).
Proof.
  induction nodes as [|n rest IH]; intros i0 best bd0 bd Hpos H; cbn [gap_best] in H.
  - inversion H. left. reflexivity.
  - assert (Hrest : forall k m, nth_error rest k = Some m -> nth_error (pa_nodes pa) (S i0 + k) = Some m).
    { intros k m Hk. replace (S i0 + k)%nat with (i0 + S k)%nat by lia. apply Hpos. exact Hk. }
    assert (Hn : nth_error (pa_nodes pa) i0 = Some n) by (replace i0 with (i0 + 0)%nat by lia; apply Hpos; reflexivity).
    destruct (negb (n_fp n =? ai) && negb ((n_fp n =? li) && (n_parent n =? ar) && negb (fst (n_ref n) =? ar) && (asl <? snd (n_ref n)))) eqn:Ec.
    + eapply IH; eauto.
    + assert (Hcand : gap_cand ai li ar asl n).
      { apply andb_false_iff in Ec. destruct Ec as [E|E]; apply negb_false_iff in E.
        - left. apply N.eqb_eq. exact E.
        - right. repeat (apply andb_true_iff in E; destruct E as [E ?]). apply N.eqb_eq in E. apply N.eqb_eq in H2.
          apply negb_true_iff, N.eqb_neq in H1. apply N.ltb_lt in H0. auto. }
      destruct (nodeLeadsToViableHead fixed pa n) as [leads| | | |]; cbn [bind] in H; try discriminate.
      destruct (leads && _).
      * destruct (IH (S i0) _ _ bd Hrest H) as [->|Hex]; [|right; exact Hex]. right. exists i0, n. auto.
      * eapply IH; eauto.
Qed.

(* C09, soundness of the head: FindHead keeps the links sound and, when it answers, the head is viable and is the start node, a
   fork-choice descendant of it (positional ancestry, as in WInv), or - for a start on an empty slot - a fork-choice descendant of a
   block built on the start's root after the start slot *)
Theorem FindHead_sound r s pa pa1 h :
  BL pa -> created pa < two64 -> FindHead fixed r s pa = (pa1, Ok h) ->
  BL pa1 /\
  exists ia ih nh, idx_get (pa_idx pa1) (r, s) = Some (pa_off pa1 + N.of_nat ia) /\
                   nth_error (pa_nodes pa1) ih = Some nh /\ n_ref nh = h /\ viable pa1 nh = true /\
                   (anc (fps_of pa1) ih ia = true \/
                    exists ic nc, nth_error (pa_nodes pa1) ic = Some nc /\ n_parent nc = r /\ fst (n_ref nc) <> r /\
                                  s < snd (n_ref nc) /\ anc (fps_of pa1) ih ic = true).
Proof.
  intros HB Hcr. unfold FindHead. unfold mbind at 1.
  pose proof (ensureConnections_BL pa HB Hcr) as HB0.
  pose proof (ensureConnections_same_tree fixed pa) as HS0.
  destruct (ensureConnections fixed pa) as [pa0 o]. cbn [fst] in HB0, HS0. destruct o; try discriminate.
  assert (Hcr0 : created pa0 < two64).
  { destruct HS0 as [_ [_ [Ho Hm]]]. unfold created, lenN in *. rewrite Ho.
    replace (length (pa_nodes pa0)) with (length (pa_nodes pa)); [exact Hcr|].
    rewrite <- (map_length strip (pa_nodes pa)), <- Hm, map_length. reflexivity. }
  unfold mbind, get, lift_o, ret, fail.
  destruct (idx_get (pa_idx pa0) (r, s)) as [ai|] eqn:Ea; [|discriminate].
  destruct (getNode fixed pa0 ai) as [an| | | |] eqn:Ean; try discriminate.
  destruct (getNode_pos pa0 ai an Ean) as [ia [Hai Hia]].
  destruct HB0 as [HF HL].
  (* where a best-descendant field of a node leads: into the subtree of that node *)
  assert (Hbd : forall i n ih, nth_error (pa_nodes pa0) i = Some n ->
            (if n_bd n =? NONE then pa_off pa0 + N.of_nat i else n_bd n) = pa_off pa0 + N.of_nat ih -> anc (fps_of pa0) ih i = true).
  { intros i n ih Hi Hq. destruct (n_bd n =? NONE) eqn:Eb.
    - assert (ih = i) by lia. subst ih. apply anc_refl.
    - apply N.eqb_neq in Eb. destruct (HL i n Hi) as [[_ Hn]|[c [d [Hbc [Hbd [Hcl [Hdl [Hfc Ha]]]]]]]]; [congruence|].
      assert (ih = d) by lia. subst ih. eapply anc_parent; eauto. }
  cbn [f_gap_head fixed andb].
  destruct ((n_parent an =? r) && ((match bs_get (pa_bs pa0) r with Some s0 => s0 | None => 0 end) <? s)) eqn:Eg.
  - (* start on an empty slot above the first slot of its root *)
    match goal with |- context [gap_best ?a ?b ?c ?d ?e ?f ?g ?h ?i ?j] => destruct (gap_best a b c d e f g h i j) as [bi| | | |] eqn:Egb end; try discriminate.
    destruct (getNode fixed pa0 bi) as [bn| | | |] eqn:Ebn; try discriminate.
    destruct (viable pa0 bn) eqn:Ev; [|discriminate]. intros H. inversion H. subst pa1 h. split; [split; assumption|].
    destruct (getNode_pos pa0 _ bn Ebn) as [ih [Hbi Hih]].
    exists ia, ih, bn. split; [rewrite Ea, Hai; reflexivity|]. split; [exact Hih|]. split; [reflexivity|]. split; [exact Ev|].
    apply gap_best_spec in Egb; [|intros k n Hk; exact Hk].
    destruct Egb as [->|[i [n [Hi [Hc Hq]]]]].
    + left. assert (ih = ia) by lia. subst ih. apply anc_refl.
    + assert (Hadd : add64 (pa_off pa0) (N.of_nat i) = pa_off pa0 + N.of_nat i).
      { unfold add64. apply wrap64_small. assert (i < length (pa_nodes pa0))%nat by (apply nth_error_Some; congruence).
        unfold created, lenN in Hcr0. lia. }
      rewrite Hadd in Hq. rewrite Hbi in Hq. pose proof (Hbd i n ih Hi (eq_sym Hq)) as Hanc.
      destruct Hc as [Hfp|[Hfp [Hp [Hr Hs]]]].
      * left. assert (Hfi : nth_error (fps_of pa0) i = Some (Some ia)).
        { rewrite (fps_nth pa0 i n Hi). unfold fpos. rewrite Hfp, Hai.
          replace (pa_off pa0 + N.of_nat ia =? NONE) with false by (symmetry; apply N.eqb_neq; unfold NONE, max64, two64, created, lenN in *; assert (ia < length (pa_nodes pa0))%nat by (apply nth_error_Some; congruence); lia).
          replace (pa_off pa0 + N.of_nat ia <? pa_off pa0) with false by (symmetry; apply N.ltb_ge; lia). cbn [orb]. f_equal. f_equal. lia. }
        eapply anc_parent; eauto.
      * right. exists i, n. auto.
  - destruct (getNode fixed pa0 (if n_bd an =? NONE then ai else n_bd an)) as [bn| | | |] eqn:Ebn; try discriminate.
    destruct (viable pa0 bn) eqn:Ev; [|discriminate]. intros H. inversion H. subst pa1 h. split; [split; assumption|].
    destruct (getNode_pos pa0 _ bn Ebn) as [ih [Hbi Hih]].
    exists ia, ih, bn. split; [rewrite Ea, Hai; reflexivity|]. split; [exact Hih|]. split; [reflexivity|]. split; [exact Ev|].
    left. apply (Hbd ia an ih Hia). rewrite <- Hbi, Hai. reflexivity.
Qed.

(* pushes of fresh nodes without best links keep BL: via the generic induction of WeightProofs *)
Lemma BL_push pa m : Rel pa -> BL pa -> created pa < two64 -> push_ok pa m -> BL (push_node pa m).
Proof.
  intros HR [HF HL] _ [Hfresh [_ [_ [Hfp [Hbc Hbd]]]]].
  pose proof (FpOk_push pa m HR HF Hfp) as HF'.
  split; [exact HF'|].
  intros i n Hi. rewrite fps_push. change (pa_off (push_node pa m)) with (pa_off pa).
  unfold push_node in Hi. cbn [pa_nodes] in Hi.
  destruct (Nat.lt_ge_cases i (length (pa_nodes pa))) as [Hlt|Hge].
  - rewrite nth_error_app1 in Hi by exact Hlt. destruct (HL i n Hi) as [Hl|[c [d [A [B [C [D [E F]]]]]]]]; [left; exact Hl|].
    right. exists c, d. rewrite app_length. cbn [length]. repeat split; auto; try lia.
    + rewrite nth_error_app1 by exact C. exact E.
    + rewrite anc_app by assumption. exact F.
  - rewrite nth_error_app2 in Hi by exact Hge. destruct (i - length (pa_nodes pa))%nat; cbn in Hi; [|destruct n0; discriminate].
    inversion Hi. subst n. left. auto.
Qed.

Lemma BL_frame pa pa' : pa_nodes pa' = pa_nodes pa -> pa_idx pa' = pa_idx pa -> pa_off pa' = pa_off pa -> BL pa -> BL pa'.
Proof. intros H1 H2 H3 [A B]. unfold BL, fps_of in *. rewrite H1, H3. auto. Qed.
Theorem BL_insert o pa :
  Rel pa -> BL pa -> iop_dom (abs pa) o -> created (fst (impl_iop o pa)) < two64 -> BL (fst (impl_iop o pa)).
Proof. apply (impl_iop_P BL BL_push BL_frame). Qed.

Lemma ApplyScoreChanges_shape d je fe pa paF oF : Rel pa -> FpOk (fps_of pa) ->
  ApplyScoreChanges fixed d je fe pa = (paF, oF) -> Rel paF /\ abs paF = abs pa /\ created paF = created pa.
Proof.
  intros HR HF. unfold ApplyScoreChanges. unfold mbind at 1. unfold get at 1.
  destruct (length d =? length (pa_nodes pa))%nat eqn:El; cbn [negb]; [|cbn; intros H; inversion H; subst; auto]. apply Nat.eqb_eq in El.
  unfold mbind at 1. cbn [put]. set (pae := with_epochs pa je fe). unfold mbind at 1.
  destruct (weights_loop_spec (length (pa_nodes pa)) pae d HF El (Nat.le_refl _)) as [pa1 [d' [Hrun [HS _]]]].
  rewrite Hrun. unfold mbind at 1.
  pose proof (connections_loop_sbb fixed (length (pa_nodes pa)) pa1) as Hs.
  destruct (connections_loop fixed (length (pa_nodes pa)) pa1) as [pa2 o2]. cbn [fst] in Hs.
  pose proof (same_but_w_abs _ _ HS) as A1. pose proof (sbb_abs _ _ Hs) as A2.
  pose proof (same_but_w_len _ _ HS) as L1. destruct (sbb_views _ _ Hs) as [_ [_ L2]].
  destruct HS as [_ [O1 [_ [_ [I1 [B1 _]]]]]]. destruct Hs as [O2 [I2 [B2 _]]].
  assert (HR2 : Rel pa2) by (apply (Rel_same_abs pa pa2); [rewrite I2, I1; reflexivity|rewrite B2, B1; reflexivity|rewrite O2, O1; reflexivity|rewrite A2, A1; reflexivity|exact HR]).
  assert (HA2 : abs pa2 = abs pa) by (rewrite A2, A1; reflexivity).
  assert (HC2 : created pa2 = created pa) by (unfold created, lenN; rewrite O2, O1, L2, L1; reflexivity).
  destruct o2; unfold mbind, get, put; intros H; inversion H; subst; auto.
  split; [apply Rel_with_upd; exact HR2|]. split; [exact HA2|exact HC2].
Qed.
Lemma ApplyScoreChanges_tree d je fe pa : Rel pa -> FpOk (fps_of pa) ->
  Rel (fst (ApplyScoreChanges fixed d je fe pa)) /\ abs (fst (ApplyScoreChanges fixed d je fe pa)) = abs pa /\
  created (fst (ApplyScoreChanges fixed d je fe pa)) = created pa.
Proof.
  intros HR HF. destruct (ApplyScoreChanges fixed d je fe pa) as [paF oF] eqn:E. cbn [fst].
  eapply ApplyScoreChanges_shape; eauto.
Qed.

(* the states reached without pruning: insertions in the domain, score changes with any deltas and epochs, head computations *)
Inductive lreach : parray -> Prop :=
| lr_base pa : Rel pa -> BL pa -> created pa < two64 -> lreach pa
| lr_insert pa o : lreach pa -> iop_dom (abs pa) o -> created (fst (impl_iop o pa)) < two64 -> lreach (fst (impl_iop o pa))
| lr_apply pa d je fe : lreach pa -> lreach (fst (ApplyScoreChanges fixed d je fe pa))
| lr_head pa r s : lreach pa -> lreach (fst (FindHead fixed r s pa)).

Theorem links_reach : forall pa, lreach pa -> Rel pa /\ BL pa /\ created pa < two64.
Proof.
  induction 1 as [pa HR HB Hc | pa o Hl IH Hdom Hc | pa d je fe Hl IH | pa r s Hl IH].
  - auto.
  - destruct IH as [HR [HB _]]. destruct (impl_iop_sim o pa HR Hdom Hc) as [_ [HR' _]].
    split; [exact HR'|]. split; [apply BL_insert; auto|exact Hc].
  - destruct IH as [HR [HB Hc]]. destruct (ApplyScoreChanges_tree d je fe pa HR (proj1 HB)) as [HR' [_ Hcr]].
    split; [exact HR'|]. split; [apply ApplyScoreChanges_BL; auto|rewrite Hcr; exact Hc].
  - destruct IH as [HR [HB Hc]]. pose proof (FindHead_same_tree fixed r s pa) as HS.
    split; [eapply Rel_same_tree; eauto|]. split.
    + unfold FindHead. unfold mbind at 1. pose proof (ensureConnections_BL pa HB Hc) as H0.
      destruct (ensureConnections fixed pa) as [pa0 o0]. cbn [fst] in H0. destruct o0; try exact H0.
      unfold mbind, get, lift_o, ret, fail. destruct (idx_get (pa_idx pa0) (r, s)); [|exact H0].
      destruct (getNode fixed pa0 n) as [an| | | |]; try exact H0.
      match goal with |- context [if ?c then gap_best ?a ?b ?c1 ?d ?e ?f ?g ?h ?i ?j else ?k] =>
        destruct (if c then gap_best a b c1 d e f g h i j else k) as [bi| | | |] end; try exact H0.
      destruct (getNode fixed pa0 bi) as [bn| | | |]; try exact H0.
      destruct (viable pa0 bn); exact H0.
    + destruct HS as [_ [_ [Ho Hm]]]. unfold created, lenN in *. rewrite Ho.
      replace (length (pa_nodes (fst (FindHead fixed r s pa)))) with (length (pa_nodes pa)); [exact Hc|].
      rewrite <- (map_length strip (pa_nodes pa)), <- Hm, map_length. reflexivity.
Qed.

(* C09 head_refines, soundness half, for every state reached without pruning: when FindHead answers, the head is the start node or
   one of its fork-choice descendants, and it is viable *)
Theorem head_sound_partial : forall pa r s pa1 h, lreach pa -> FindHead fixed r s pa = (pa1, Ok h) ->
  exists ia ih nh, idx_get (pa_idx pa1) (r, s) = Some (pa_off pa1 + N.of_nat ia) /\
                   nth_error (pa_nodes pa1) ih = Some nh /\ n_ref nh = h /\ viable pa1 nh = true /\
                   (anc (fps_of pa1) ih ia = true \/
                    exists ic nc, nth_error (pa_nodes pa1) ic = Some nc /\ n_parent nc = r /\ fst (n_ref nc) <> r /\
                                  s < snd (n_ref nc) /\ anc (fps_of pa1) ih ic = true).
Proof.
  intros pa r s pa1 h Hl HF. destruct (links_reach pa Hl) as [_ [HB Hc]]. exact (proj2 (FindHead_sound r s pa pa1 h HB Hc HF)).
Qed.

Lemma BL_new_array parent r s je fe sn : BL (new_array parent r s je fe sn).
Proof.
  split.
  - intros i p Hi. unfold fps_of, new_array in Hi. cbn in Hi. destruct i; cbn in Hi; [discriminate|destruct i; discriminate].
  - intros i n Hi. destruct i; cbn in Hi; [|destruct i; discriminate]. inversion Hi. left. split; reflexivity.
Qed.
