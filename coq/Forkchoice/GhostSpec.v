(* Spec, part 2: LMD-GHOST over the inserted tree, the latest-message rule, and what an update of the
   justified/finalized pair has to do. Weights are recomputed from scratch from the votes; nothing incremental. NO proofs here. *)
From Coq Require Import NArith ZArith List Bool.
From V Require Import Base.U64 Base.Outcome Forkchoice.ProtoArray Forkchoice.Wrapper Forkchoice.TreeSpec.
Import ListNotations.
Local Open Scope N_scope.

Record sstate := mkS {
  ss_tree : tree;
  ss_just : checkpoint; ss_fin : checkpoint; ss_pin : option ref;
  ss_latest : list (option (ref * epoch));  (* per validator: the latest accepted vote and its target epoch *)
  ss_applied : list (option ref);           (* the votes the head reflects: the latest ones as of the last refresh *)
  ss_bal : list N; ss_spe : N;
  ss_partial : bool                         (* unused since C10-prune-partial-reparent (always false): after a sink failure the tree is what was not acknowledged *)
}.

Definition with_tree (s : sstate) (t : tree) : sstate :=
  mkS t (ss_just s) (ss_fin s) (ss_pin s) (ss_latest s) (ss_applied s) (ss_bal s) (ss_spe s) (ss_partial s).
Definition with_pin (s : sstate) (p : option ref) : sstate :=
  mkS (ss_tree s) (ss_just s) (ss_fin s) p (ss_latest s) (ss_applied s) (ss_bal s) (ss_spe s) (ss_partial s).
Definition with_latest (s : sstate) (l : list (option (ref * epoch))) : sstate :=
  mkS (ss_tree s) (ss_just s) (ss_fin s) (ss_pin s) l (ss_applied s) (ss_bal s) (ss_spe s) (ss_partial s).
(* refresh: the head reflects every accepted vote *)
Definition refresh (s : sstate) : sstate :=
  mkS (ss_tree s) (ss_just s) (ss_fin s) (ss_pin s) (ss_latest s)
      (map (fun o => match o with Some (r, _) => Some r | None => None end) (ss_latest s))
      (ss_bal s) (ss_spe s) (ss_partial s).

(* ---------- viability, weights, the walk ---------- *)
Definition s_viable (s : sstate) (n : snode) : bool :=
  ((s_je n =? fst (ss_just s)) || (fst (ss_just s) =? 0)) && ((s_fe n =? fst (ss_fin s)) || (fst (ss_fin s) =? 0)).

(* the fork-choice ancestors of a node, itself included: the nodes whose subtree it lies in *)
Definition fc_chain (t : tree) (m : snode) : list ref :=
  map s_ref (m :: ancestors_from (fc_parent t) (tree_fuel t) m).

(* per validator with an applied vote for a known node: the nodes that vote supports, and the validator's balance *)
Fixpoint vote_chains (t : tree) (votes : list (option ref)) (bal : list N) : list (list ref * N) :=
  match votes with
  | [] => []
  | v :: votes' =>
      let b := match bal with [] => 0 | b :: _ => b end in
      let rest := vote_chains t votes' (tl bal) in
      match v with
      | Some r => match find_node t r with Some m => (fc_chain t m, b) :: rest | None => rest end
      | None => rest
      end
  end.

(* sum of the balances of the validators whose (applied) vote lies in the fork-choice subtree of r: each validator once *)
Definition weight_of (chains : list (list ref * N)) (r : ref) : Z :=
  fold_left (fun acc cb => if ref_mem r (fst cb) then (acc + Z.of_N (snd cb))%Z else acc) chains 0%Z.
Definition s_chains (s : sstate) : list (list ref * N) := vote_chains (ss_tree s) (ss_applied s) (ss_bal s).
Definition s_weight (s : sstate) (n : snode) : Z := weight_of (s_chains s) (s_ref n).

Definition fc_children (t : tree) (n : snode) : list snode :=
  filter (fun m => match fc_parent t m with Some p => ref_eqb (s_ref p) (s_ref n) | None => false end) t.

(* n leads to a viable head: some node of its fork-choice subtree is viable *)
Definition leads_viable (s : sstate) (n : snode) : bool :=
  existsb (fun m => is_fc_desc (ss_tree s) (s_ref n) m && s_viable s m) (ss_tree s).

(* greatest (weight, root) *)
Definition better (s : sstate) (a b : snode) : bool :=
  let wa := s_weight s a in let wb := s_weight s b in
  (wb <? wa)%Z || ((wa =? wb)%Z && (fst (s_ref b) <? fst (s_ref a))).
Definition best_child (s : sstate) (n : snode) : option snode :=
  fold_left (fun acc c => match acc with None => Some c | Some b => if better s c b then Some c else Some b end)
            (filter (leads_viable s) (fc_children (ss_tree s) n)) None.

Fixpoint head_walk (fuel : nat) (s : sstate) (n : snode) : snode :=
  match fuel with
  | O => n
  | S fuel' => match best_child s n with Some c => head_walk fuel' s c | None => n end
  end.

(* the head from a starting node: LMD-GHOST over the tree of its descendants (inside that tree the start is the lowest node of its
   root, so the blocks built on that root after an empty-slot start are its children); the end of the walk if it is viable *)
Definition spec_find_head (s : sstate) (start : ref) : outcome snode :=
  match find_node (ss_tree s) start with
  | None => Err
  | Some n =>
      let s' := mkS (subtree (ss_tree s) start) (ss_just s) (ss_fin s) (ss_pin s) (ss_latest s) (ss_applied s) (ss_bal s) (ss_spe s) (ss_partial s) in
      let e := head_walk (tree_fuel (ss_tree s')) s' n in if s_viable s e then Ok e else Err
  end.

Definition start_slot (spe : N) (e : epoch) : slot := e * spe.
Definition spec_head_start (s : sstate) : ref :=
  match ss_pin s with Some p => p | None => (snd (ss_just s), start_slot (ss_spe s) (fst (ss_just s))) end.

(* ---------- votes ---------- *)
Fixpoint set_latest (l : list (option (ref * epoch))) (v : nat) (x : ref * epoch) : list (option (ref * epoch)) :=
  match v, l with
  | O, [] => [Some x]
  | O, _ :: l' => Some x :: l'
  | S v', [] => None :: set_latest [] v' x
  | S v', h :: l' => h :: set_latest l' v' x
  end.

(* accepted iff the target node is known; it replaces the validator's vote iff its target epoch is later (or it is the first) *)
Definition spec_attest (s : sstate) (v : N) (r : root) (sl : slot) : sstate * bool :=
  if negb (known (ss_tree s) (r, sl)) then (s, false) else
  let e := sl / ss_spe s in
  match nth (N.to_nat v) (ss_latest s) None with
  | Some (_, e0) => if e0 <? e then (with_latest s (set_latest (ss_latest s) (N.to_nat v) ((r, sl), e)), true) else (s, true)
  | None => (with_latest s (set_latest (ss_latest s) (N.to_nat v) ((r, sl), e)), true)
  end.

(* ---------- SetPin ---------- *)
Definition spec_set_pin (s : sstate) (r : root) (sl : slot) : sstate * bool :=
  if known (ss_tree s) (r, sl) then (with_pin s (Some (r, sl)), true) else (s, false).

(* ---------- UpdateJustified ---------- *)
Inductive upd_verdict :=
| UNoop          (* older or equal pair: nothing changes *)
| URefused       (* refused before anything changes *)
| UApplied (anchor : option ref).   (* checkpoints, balances and votes taken over; Some a = finalization moved to node a *)

Definition spec_update_check (s : sstate) (trigger : root) (j f : checkpoint) (bal : option (list N)) : upd_verdict :=
  let t := ss_tree s in
  if (fst j <=? fst (ss_just s)) && (fst f <=? fst (ss_fin s)) then UNoop else
  if (match ss_pin s with
      | Some p => if trigger =? fst p then false
                  else let ui := spec_in_subtree t (fst p) trigger in fst ui || negb (snd ui)
      | None => false end) then URefused else
  if fst j <? fst f then URefused else
  if negb (cp_eqb (ss_fin s) f) &&
     (let ui := spec_in_subtree t (snd (ss_fin s)) (snd f) in fst ui || negb (snd ui) || (fst f <? fst (ss_fin s)))
  then URefused else
  if negb (cp_eqb (ss_just s) j) &&
     (let ui := spec_in_subtree t (snd (ss_fin s)) (snd j) in fst ui || negb (snd ui) || (fst j <? fst (ss_fin s)))
  then URefused else
  match bal with
  | None => URefused
  | Some _ => UApplied (if cp_eqb (ss_fin s) f then None else Some (snd f, start_slot (ss_spe s) (fst f)))
  end.

(* the state after an applied update, before any pruning *)
Definition spec_update_apply (s : sstate) (j f : checkpoint) (bal : list N) (moved : bool) : sstate :=
  let s1 := refresh s in
  mkS (ss_tree s1) j f (if moved then None else ss_pin s1) (ss_latest s1) (ss_applied s1) bal (ss_spe s1) (ss_partial s1).

(* what must be dropped when finalization moves to node a: nothing if a is unknown, else all non-descendants of a *)
Definition to_drop (t : tree) (a : ref) : tree := if known t a then non_descendants t a else [].
(* canonical = the anchor was built on it *)
Definition is_canonical (t : tree) (a : ref) (n : snode) : bool :=
  match find_node t a with
  | Some an => existsb (fun c => ref_eqb (s_ref c) (s_ref n)) (trans_ancestors t an)
  | None => false
  end.
Definition prune_to (s : sstate) (a : ref) : sstate := with_tree s (subtree (ss_tree s) a).
