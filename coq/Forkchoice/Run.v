(* C09/C10/C11 correspondence: evaluate the Impl model and the Spec on the operation histories the Go harness ran.
   One case = the constructor arguments, what the constructor did, and for every call: the operation, what Go returned,
   the calls the prune sink received during it, and a checksum of Go's private state after it (verif hooks). *)
From Coq Require Import NArith ZArith List Bool Uint63.
From V Require Import Base.U64 Base.Outcome Forkchoice.ProtoArray Forkchoice.VoteStore Forkchoice.Wrapper
     Forkchoice.TreeSpec Forkchoice.GhostSpec Forkchoice.Step.
Import ListNotations.
Local Open Scope N_scope.

(* operation, what Go returned, the sink calls during it, checksum of Go's state after it, checksum of Go's node weights after it *)
Definition step := (op * gores rv * list (ref * bool) * N * N)%type.
Inductive fcase := mkCase (i : init_args) (init_go : gores rv) (steps : list step).

(* ---------- the state checksum (same fold as harness/fc/fc.go: checksum) ---------- *)
Definition u (n : N) : int := Uint63.of_Z (Z.of_N n).
Definition hadd (h x : int) : int := (h * 1000003 + x)%uint63.
Definition hN (h : int) (n : N) : int := hadd h (u n).
Definition hB (h : int) (b : bool) : int := hadd h (if b then 1%uint63 else 0%uint63).
Definition mix3 (a b c : N) : int := hN (hN (hN 11%uint63 a) b) c.

Definition chk_node (h : int) (n : node) : int :=
  let h := hN h (fst (n_ref n)) in let h := hN h (snd (n_ref n)) in
  let h := hN h (n_tp n) in let h := hN h (n_fp n) in let h := hN h (n_parent n) in
  let h := hN h (n_je n) in let h := hN h (n_fe n) in
  let h := hadd h (Uint63.of_Z (n_w n)) in
  let h := hN h (n_bc n) in hN h (n_bd n).
Definition chk_tracker (h : int) (t : tracker) : int :=
  let h := hN h (fst (t_cur t)) in let h := hN h (snd (t_cur t)) in
  let h := hN h (fst (t_next t)) in let h := hN h (snd (t_next t)) in
  let h := hN h (t_cure t) in hN h (t_nexte t).

Definition checksum (w : wrapper) : int :=
  let pa := w_pa w in
  let h := 7%uint63 in
  let h := hN h (pa_off pa) in let h := hN h (pa_je pa) in let h := hN h (pa_fe pa) in
  let h := hB h (pa_upd pa) in
  let h := hN h (lenN (pa_nodes pa)) in
  let h := fold_left chk_node (pa_nodes pa) h in
  let h := hN h (lenN (pa_idx pa)) in
  let h := hadd h (fold_left (fun acc kv => (acc + mix3 (fst (fst kv)) (snd (fst kv)) (snd kv))%uint63) (pa_idx pa) 0%uint63) in
  let h := hN h (lenN (pa_bs pa)) in
  let h := hadd h (fold_left (fun acc kv => (acc + mix3 (fst kv) (snd kv) 5)%uint63) (pa_bs pa) 0%uint63) in
  let h := hN h (lenN (vs_votes (w_vs w))) in
  let h := hB h (vs_changed (w_vs w)) in
  let h := fold_left chk_tracker (vs_votes (w_vs w)) h in
  let h := hN h (lenN (w_bal w)) in
  let h := fold_left hN (w_bal w) h in
  let h := match w_pin w with None => hN h 0 | Some p => hN (hN (hN h 1) (fst p)) (snd p) end in
  let h := hN h (fst (w_just w)) in let h := hN h (snd (w_just w)) in
  let h := hN h (fst (w_fin w)) in hN h (snd (w_fin w)).

(* ---------- Impl correspondence ---------- *)
Definition log_eqb (a b : list (ref * bool)) : bool :=
  list_eqb (fun x y => ref_eqb (fst x) (fst y) && Bool.eqb (snd x) (snd y)) a b.

(* index (1-based) of the first step where Go and the model differ; 0 = none *)
Fixpoint impl_steps (fx : fixes) (k : N) (w : wrapper) (steps : list step) : N :=
  match steps with
  | [] => 0
  | (o, go, log, chk, _) :: rest =>
      let '(w', r) := impl_step fx o w in
      let lg := match o with OUpdate _ _ _ _ _ => w_log w' | _ => [] end in
      if negb (agree rv_eqb r go && log_eqb lg log) then k else
      match r with
      | Ok _ | Err => if Uint63.eqb (checksum w') (u chk) then impl_steps fx (k + 1) w' rest else k
      | _ => match rest with [] => 0 | _ => k end   (* a call that does not return ends the history *)
      end
  end.

Definition impl_first_bad (fx : fixes) (c : fcase) : N :=
  let '(mkCase i init_go steps) := c in
  let '(w, r) := impl_init fx i in
  if negb (agree (fun _ _ => true) (bind r (fun _ => Ok RUnit)) init_go) then 255 else
  match r with
  | Ok _ => impl_steps fx 1 w steps
  | _ => match steps with [] => 0 | _ => 255 end
  end.
Definition impl_ok (c : fcase) : bool := impl_first_bad fixed c =? 0.

(* ---------- Spec verdicts ---------- *)
(* order-independent checksum of (node, weight) over the Spec's tree; the harness computes the same over Go's node table *)
Definition spec_wchk (s : sstate) : int :=
  let chains := s_chains s in
  fold_left (fun acc n => (acc + hadd (hN (hN 11%uint63 (fst (s_ref n))) (snd (s_ref n))) (Uint63.of_Z (weight_of chains (s_ref n))))%uint63)
            (ss_tree s) 0%uint63.

(* first step (1-based) at which Go's observed result is not what the Spec demands, among the steps selected by [sel]
   (sel gets the operation and whether finalization has moved earlier in this history); 0 = none.
   Outside the domain, and after a sink failure, the Spec demands nothing. *)
Fixpoint spec_steps (sel : op -> bool -> bool) (sink_nil : bool) (k : N) (s : sstate) (b : binding) (moved late : bool)
         (steps : list step) : N * bool :=
  match steps with
  | [] => (0, late)
  | (o, go, log, _, wchk) :: rest =>
      let '(ind, b') := op_in_domain s b o in
      if negb ind || ss_partial s then (0, late) else
      let late' := late || late_fork_at s o in
      let '(s', e, logok) := spec_step sink_nil o log s in
      (* weights_inv, observed: after a head computation or an update every node weighs what the Spec says *)
      let wok := match o, go with
                 | (OHead | OFindHead _ _ | OUpdate _ _ _ _ _), (GoOk _ | GoErr) =>
                     negb (sel OHead false) (* the weights belong to C09 *) || ss_partial s' || Uint63.eqb (spec_wchk s') (u wchk)
                 | _, _ => true end in
      let good := meets e go && logok && wok in
      if sel o moved && negb good then (k, late') else
      match go with
      | GoOk _ | GoErr =>
          (* if Go deviated on an unselected call, the Spec state can no longer be followed *)
          if good then spec_steps sel sink_nil (k + 1) s' b'
                                  (moved || negb (cp_eqb (ss_fin s) (ss_fin s'))) late' rest
          else (0, late')
      | _ => (0, late')
      end
  end.

Definition spec_first_bad (sel : op -> bool -> bool) (c : fcase) : N * bool :=
  let '(mkCase i init_go steps) := c in
  if negb (init_in_domain i) then (0, false) else
  (* the constructor succeeds iff the pinned anchor exists: always, in the domain *)
  match init_go with
  | GoOk _ => let '(s, _) := spec_init i in
              spec_steps sel (i_sink_nil i) 1 s [(i_anchor_root i, (i_anchor_parent i, i_anchor_slot i))] false false steps
  | _ => (255, false)
  end.


(* mismatch code of a case: bit 1 = Go differs from the Impl model, bit 2 = Go differs from the Spec (in the domain);
   + 4 * (first step where the Impl differs) + 1024 * (first step where the Spec is violated), for the replay file;
   + 2^20 when the shape of the known finding prune_keeps_late_fork occurred at or before that step *)
Definition code_of (sel : op -> bool -> bool) (c : fcase) : N :=
  let ib := N.min 255 (impl_first_bad fixed c) in
  let '(sb0, late) := spec_first_bad sel c in
  let sb := N.min 255 sb0 in
  if (ib =? 0) && (sb =? 0) then 0 else
  (if ib =? 0 then 0 else 1) + (if sb =? 0 then 0 else 2) + 4 * ib + 1024 * sb + (if late then 1048576 else 0).

Fixpoint mism (sel : op -> bool -> bool) (i : N) (cs : list fcase) : list (N * N) :=
  match cs with
  | [] => []
  | c :: cs' =>
      let r := code_of sel c in
      if r =? 0 then mism sel (i + 1) cs' else (i, r) :: mism sel (i + 1) cs'
  end.
Definition mismatches_c09 (cs : list fcase) : list (N * N) := mism sel_c09 0 cs.
Definition mismatches_c10 (cs : list fcase) : list (N * N) := mism sel_c10 0 cs.
Definition mismatches_c11 (cs : list fcase) : list (N * N) := mism sel_c11 0 cs.

(* the same comparison against the model of the pinned snapshot (used by the _refuted witnesses) *)
Definition impl_ok_pinned (c : fcase) : bool := impl_first_bad pinned c =? 0.

(* ---------- debugging aids (used by lib/checks/fc_common.py to localise a mismatch) ---------- *)
Fixpoint model_at_steps (fx : fixes) (k : nat) (w : wrapper) (steps : list step) : option (outcome rv * list (ref * bool) * wrapper) :=
  match steps with
  | [] => None
  | (o, _, _, _, _) :: rest =>
      let '(w', r) := impl_step fx o w in
      match k with
      | O => Some (r, w_log w', w')
      | S k' => model_at_steps fx k' w' rest
      end
  end.
(* the model's result, sink calls and state at (1-based) step k *)
Definition model_at (fx : fixes) (c : fcase) (k : nat) :=
  let '(mkCase i _ steps) := c in
  let '(w, r) := impl_init fx i in
  match k with O => Some (bind r (fun _ => Ok RUnit), [], w) | S k' => model_at_steps fx k' w steps end.

Fixpoint spec_at_steps (sink_nil : bool) (k : nat) (s : sstate) (steps : list step) : option (expect * bool * sstate) :=
  match steps with
  | [] => None
  | (o, _, log, _, _) :: rest =>
      let '(s', e, logok) := spec_step sink_nil o log s in
      match k with
      | O => Some (e, logok, s')
      | S k' => spec_at_steps sink_nil k' s' rest
      end
  end.
Definition spec_at (c : fcase) (k : nat) :=
  let '(mkCase i _ steps) := c in
  let '(s, _) := spec_init i in
  match k with O => None | S k' => spec_at_steps (i_sink_nil i) k' s steps end.
