(* The API as an operation alphabet; one step of the Impl model (the wrapper with the array and the vote store)
   and one step of the Spec (tree + LMD-GHOST + update rule) with the verdict on an observed result. NO proofs here. *)
From Coq Require Import NArith ZArith List Bool.
From V Require Import Base.U64 Base.Outcome Forkchoice.ProtoArray Forkchoice.VoteStore Forkchoice.Wrapper
     Forkchoice.TreeSpec Forkchoice.GhostSpec.
Import ListNotations.
Local Open Scope N_scope.
Open Scope m_scope.

Inductive op :=
| OSlot (p : root) (s : slot) (je fe : epoch)
| OBlock (p r : root) (s : slot) (je fe : epoch)
| OAtt (v : N) (r : root) (s : slot)
| OUpdate (trigger : root) (j f : checkpoint) (bal : option (list N)) (fail : option N)
                             (* bal = None: the balances callback fails; fail = Some k: the sink fails at its k-th call *)
| OSetPin (r : root) (s : slot)
| OHead
| OFindHead (r : root) (s : slot)
| OChain (r : root) (s : slot)
| OClosest (r : root) (s : slot)
| OCanonAt (r : root) (s : slot) (withBlock : bool)
| OGetSlot (r : root)
| OInSub (a r : root)
| OSearch (ar : root) (asl : slot) (p : option root) (s : option slot)
| OPin | OJust | OFin
| OGetNode (ix : index).   (* the unexported bounds-checked accessor, through the verif hook *)

Inductive rv :=
| RUnit | RBool (b : bool) | RRef (r : ref) | RChain (l : list (ref * root)) | RPair (a b : bool)
| RSearch (non can : list ref) | RSlot (o : option slot) | ROptRef (o : option ref).

Definition opt_eqb {A} (e : A -> A -> bool) (a b : option A) : bool :=
  match a, b with Some x, Some y => e x y | None, None => true | _, _ => false end.
Fixpoint list_eqb {A} (e : A -> A -> bool) (a b : list A) : bool :=
  match a, b with
  | [], [] => true
  | x :: a', y :: b' => e x y && list_eqb e a' b'
  | _, _ => false
  end.
Definition rv_eqb (a b : rv) : bool :=
  match a, b with
  | RUnit, RUnit => true
  | RBool x, RBool y => Bool.eqb x y
  | RRef x, RRef y => ref_eqb x y
  | RChain x, RChain y => list_eqb (fun p q => ref_eqb (fst p) (fst q) && (snd p =? snd q)) x y
  | RPair a1 b1, RPair a2 b2 => Bool.eqb a1 a2 && Bool.eqb b1 b2
  | RSearch n1 c1, RSearch n2 c2 => list_eqb ref_eqb n1 n2 && list_eqb ref_eqb c1 c2
  | RSlot x, RSlot y => opt_eqb N.eqb x y
  | ROptRef x, ROptRef y => opt_eqb ref_eqb x y
  | _, _ => false
  end.

Definition mmap {S A B} (f : A -> B) (m : M S A) : M S B := fun s => let '(s', o) := m s in (s', bind o (fun a => Ok (f a))).

Definition sink_of (fail : option N) : sink_fn :=
  fun k _ _ => match fail with Some f => negb (k =? f) | None => true end.

(* ---------- Impl ---------- *)
Definition impl_step (fx : fixes) (o : op) : M wrapper rv :=
  match o with
  | OSlot p s je fe => mmap (fun _ => RUnit) (W_ProcessSlot p s je fe)
  | OBlock p r s je fe => mmap RBool (W_ProcessBlock p r s je fe)
  | OAtt v r s => mmap RBool (W_ProcessAttestation fx v r s)
  | OUpdate t j f bal fail =>
      fun w => mmap (fun _ => RUnit) (W_UpdateJustified fx (sink_of fail) t j f bal) (set_log w [])
  | OSetPin r s => mmap (fun _ => RUnit) (W_SetPin r s)
  | OHead => mmap RRef (W_Head fx)
  | OFindHead r s => mmap RRef (W_FindHead fx r s)
  | OChain r s => mmap RChain (W_CanonicalChain fx r s)
  | OClosest r s => mmap RRef (W_ClosestToSlot r s)
  | OCanonAt r s wb => mmap RRef (W_CanonAtSlot fx r s wb)
  | OGetSlot r => mmap RSlot (W_GetSlot r)
  | OInSub a r => mmap (fun ui => RPair (fst ui) (snd ui)) (W_InSubtree fx a r)
  | OSearch ar asl p s => mmap (fun nc => RSearch (fst nc) (snd nc)) (W_Search fx (ar, asl) p s)
  | OPin => mmap ROptRef W_Pin
  | OJust => mmap (fun c => RRef (snd c, fst c)) W_Justified
  | OFin => mmap (fun c => RRef (snd c, fst c)) W_Finalized
  | OGetNode ix =>
      fun w => (w, match getNode fx (w_pa w) ix with
                   | Ok _ => Ok (RBool true) | Err => Ok (RBool false)
                   | Panic p => Panic p | Blocked => Blocked | OutOfFuel => OutOfFuel end)
  end.

Record init_args := mkInit {
  i_spe : N; i_anchor_parent : root; i_anchor_root : root; i_anchor_slot : slot;
  i_fin : checkpoint; i_just : checkpoint; i_bal : list N; i_sink_nil : bool }.

Definition impl_init (fx : fixes) (i : init_args) : wrapper * outcome unit :=
  new_forkchoice fx (i_spe i) (i_fin i) (i_just i) (i_anchor_root i) (i_anchor_slot i) (i_anchor_parent i) (i_bal i) (i_sink_nil i).

(* the outputs of a history; the run stops at a call that does not return normally *)
Fixpoint impl_run (fx : fixes) (w : wrapper) (ops : list op) : list (outcome rv * list (ref * bool)) :=
  match ops with
  | [] => []
  | o :: ops' =>
      let '(w', r) := impl_step fx o w in
      let lg := match o with OUpdate _ _ _ _ _ => w_log w' | _ => [] end in
      match r with
      | Ok _ | Err => (r, lg) :: impl_run fx w' ops'
      | _ => [(r, lg)]
      end
  end.

(* ---------- Spec ---------- *)
Definition spec_init (i : init_args) : sstate * bool :=
  let t := [mkSN (i_anchor_root i, i_anchor_slot i) (i_anchor_parent i) (fst (i_just i)) (fst (i_fin i))] in
  (* the constructor pins the anchor and takes the initial balances *)
  (mkS t (i_just i) (i_fin i) (Some (i_anchor_root i, i_anchor_slot i)) [] [] (i_bal i) (i_spe i) false, true).

(* what the Spec expects of a call: the value, an error, or "anything" (not the Spec's business) *)
Inductive expect := EVal (v : rv) | EErr | EAny | ESearch (non can : list ref).

Definition meets (e : expect) (g : gores rv) : bool :=
  match e, g with
  | EAny, (GoOk _ | GoErr) => true
  | EVal v, GoOk x => rv_eqb v x
  | EErr, GoErr => true
  | ESearch n c, GoOk (RSearch n' c') => refs_same_set n n' && refs_same_set c c'
  | _, _ => false
  end.

Definition head_expect (o : outcome snode) : expect :=
  match o with Ok n => EVal (RRef (s_ref n)) | _ => EErr end.

Definition spec_canon_at (s : sstate) (r : root) (sl : slot) (wb : bool) : expect :=
  let t := ss_tree s in
  match low t r with
  | None => EErr
  | Some lo =>
      if sl <? lo then EErr else
      if lo =? sl then
        if negb wb then
          match find_node t (r, sl) with
          | Some n => if is_block n then EErr else EVal (RRef (r, sl))
          | None => EErr
          end
        else EVal (RRef (r, sl))
      else
        match spec_find_head s (r, lo) with
        | Ok h => if snd (s_ref h) <=? sl then EVal (RRef (s_ref h))
                  else match spec_canon_walk t h sl wb with Ok x => EVal (RRef x) | _ => EErr end
        | _ => EErr
        end
  end.

Definition log_refs (l : list (ref * bool)) : list ref := map fst l.
Fixpoint nodup_refs (l : list ref) : bool :=
  match l with [] => true | r :: l' => negb (ref_mem r l') && nodup_refs l' end.

(* UpdateJustified: the expected result, the next state, and whether the observed sink calls are acceptable.
   The order in which dropped nodes reach the sink is not specified: the observed calls are an input. *)
Definition spec_update (s : sstate) (sink_nil : bool) (trigger : root) (j f : checkpoint) (bal : option (list N)) (fail : option N)
           (log : list (ref * bool)) : sstate * expect * bool :=
  match spec_update_check s trigger j f bal with
  | UNoop => (s, EVal RUnit, (length log =? 0)%nat)
  | URefused => (s, EErr, (length log =? 0)%nat)
  | UApplied None =>
      (spec_update_apply s j f (match bal with Some b => b | None => [] end) false, EVal RUnit, (length log =? 0)%nat)
  | UApplied (Some a) =>
      let s1 := spec_update_apply s j f (match bal with Some b => b | None => [] end) true in
      let t := ss_tree s1 in
      let drop := to_drop t a in
      match drop with
      | [] => (s1, EVal RUnit, (length log =? 0)%nat)
      | _ =>
          match spec_find_head s1 a with
          | Ok _ =>
              if sink_nil then (prune_to s1 a, EVal RUnit, (length log =? 0)%nat) else
              let calls_ok :=
                nodup_refs (log_refs log) &&
                forallb (fun rc => match find_node drop (fst rc) with
                                   | Some n => Bool.eqb (snd rc) (is_canonical t a n)
                                   | None => false end) log in
              match fail with
              | Some k =>
                  if k <? lenN drop then
                    (* the sink fails at its k-th call: an error, the k acknowledged nodes gone, the refused one (reported last)
                       and everything else retained; the tree is whatever is left (a forest until the next prune) *)
                    let gone := firstn (N.to_nat k) (log_refs log) in
                    (with_tree s1 (filter (fun n => negb (ref_mem (s_ref n) gone)) t),
                     EErr, calls_ok && (lenN log =? k + 1))
                  else (prune_to s1 a, EVal RUnit, calls_ok && refs_same_set (log_refs log) (map s_ref drop))
              | None => (prune_to s1 a, EVal RUnit, calls_ok && refs_same_set (log_refs log) (map s_ref drop))
              end
          | _ => (s1, EErr, (length log =? 0)%nat)
          end
      end
  end.

(* one step of the Spec on an observed call: next state and what the call has to return; the sink calls are judged too *)
Definition spec_step (sink_nil : bool) (o : op) (log : list (ref * bool)) (s : sstate) : sstate * expect * bool :=
  let t := ss_tree s in
  match o with
  | OSlot p sl je fe => (with_tree s (spec_process_slot t p sl je fe), EVal RUnit, true)
  | OBlock p r sl je fe => let '(t', b) := spec_process_block t p r sl je fe in (with_tree s t', EVal (RBool b), true)
  | OAtt v r sl => let '(s', b) := spec_attest s v r sl in (s', EVal (RBool b), true)
  | OUpdate trig j f bal fail => spec_update s sink_nil trig j f bal fail log
  | OSetPin r sl => let '(s', b) := spec_set_pin s r sl in (s', if b then EVal RUnit else EErr, true)
  | OHead => let s1 := refresh s in (s1, head_expect (spec_find_head s1 (spec_head_start s1)), true)
  | OFindHead r sl => let s1 := refresh s in (s1, head_expect (spec_find_head s1 (r, sl)), true)
  | OChain r sl =>
      (s, match spec_find_head s (r, sl) with Ok h => EVal (RChain (spec_chain_from t h)) | _ => EErr end, true)
  | OClosest r sl => (s, match spec_closest t r sl with Ok x => EVal (RRef x) | _ => EErr end, true)
  | OCanonAt r sl wb => (s, spec_canon_at s r sl wb, true)
  | OGetSlot r => (s, EVal (RSlot (spec_get_slot t r)), true)
  | OInSub a r => let ui := spec_in_subtree t a r in (s, EVal (RPair (fst ui) (snd ui)), true)
  | OSearch ar asl p sl =>
      match p, sl with
      | None, None => (s, EAny, true)   (* the unfiltered "heads" search is not part of the property *)
      | _, _ =>
          (s, match spec_find_head s (ar, asl) with
              | Ok h => let nc := spec_search t (ar, asl) h p sl in ESearch (fst nc) (snd nc)
              | _ => EErr end, true)
      end
  | OPin => (s, EVal (ROptRef (ss_pin s)), true)
  | OJust => (s, EVal (RRef (snd (ss_just s), fst (ss_just s))), true)
  | OFin => (s, EVal (RRef (snd (ss_fin s), fst (ss_fin s))), true)
  | OGetNode _ => (s, EAny, true)
  end.

(* ---------- domain (DESIGN: nonzero roots, sum of balances < 2^63, slots < 2^40, ProcessSlot only for a known parent and a
   slot above its lowest known slot; a root stands for one block: always the same parent and slot) ---------- *)
Definition bound40 : N := 1099511627776.
Definition sum_ok (b : list N) : bool := fold_left N.add b 0 <? 9223372036854775808.
Definition binding := list (root * (root * slot)).
Fixpoint bind_get (b : binding) (r : root) : option (root * slot) :=
  match b with [] => None | (k, v) :: b' => if k =? r then Some v else bind_get b' r end.

Definition init_in_domain (i : init_args) : bool :=
  negb (i_anchor_root i =? 0) && negb (i_spe i =? 0) && sum_ok (i_bal i) && (i_anchor_slot i <? bound40)
  && (fst (i_just i) <? bound40) && (fst (i_fin i) <? bound40).

Definition op_in_domain (s : sstate) (b : binding) (o : op) : bool * binding :=
  match o with
  | OSlot p sl _ _ =>
      (negb (p =? 0) && (sl <? bound40) &&
       (known (ss_tree s) (p, sl) || match low (ss_tree s) p with Some lo => lo <? sl | None => false end), b)
  | OBlock p r sl _ _ =>
      match bind_get b r with
      | Some (p', sl') => (negb (r =? 0) && (sl <? bound40) && (p =? p') && (sl =? sl'), b)
      | None => (negb (r =? 0) && (sl <? bound40), (r, (p, sl)) :: b)
      end
  | OAtt v r sl => (negb (r =? 0) && (v <? 65536) && (sl <? bound40), b)
  | OUpdate _ j f bal _ =>
      ((fst j <? bound40) && (fst f <? bound40) && match bal with Some l => sum_ok l | None => true end, b)
  | OSetPin _ sl | OFindHead _ sl | OChain _ sl | OClosest _ sl | OCanonAt _ sl _ => (sl <? bound40, b)
  | OSearch _ asl _ sl => ((asl <? bound40) && match sl with Some x => x <? bound40 | None => true end, b)
  | _ => (true, b)
  end.

(* ---------- the known finding's shape, and the full statements as lockstep runs ---------- *)
(* Shape of the known finding `prune_keeps_late_fork`: finalization moves to node a while some node that does not
   descend from a was inserted after a (the tree list is in insertion order; only this predicate looks at the order). *)
Fixpoint inserted_after (t : tree) (a : ref) (seen : bool) : list snode :=
  match t with
  | [] => []
  | n :: t' => if ref_eqb (s_ref n) a then inserted_after t' a true
               else if seen then n :: inserted_after t' a seen else inserted_after t' a seen
  end.
Definition late_fork_at (s : sstate) (o : op) : bool :=
  match o with
  | OUpdate trig j f bal _ =>
      match spec_update_check s trig j f bal with
      | UApplied (Some a) =>
          known (ss_tree s) a && existsb (fun n => negb (is_desc (ss_tree s) a n)) (inserted_after (ss_tree s) a false)
      | _ => false
      end
  | _ => false
  end.


(* which calls a property is about *)
Definition is_query (o : op) : bool :=
  match o with
  | OChain _ _ | OClosest _ _ | OCanonAt _ _ _ | OGetSlot _ | OInSub _ _ | OSearch _ _ _ _ | OBlock _ _ _ _ _ | OSlot _ _ _ _ => true
  | _ => false
  end.
Definition is_head (o : op) : bool :=
  match o with OHead | OFindHead _ _ | OAtt _ _ _ => true | _ => false end.
Definition is_update (o : op) : bool :=
  match o with OUpdate _ _ _ _ _ | OSetPin _ _ | OPin | OJust | OFin => true | _ => false end.

Definition as_go (r : outcome rv) : gores rv :=
  match r with Ok v => GoOk v | Err => GoErr | Panic _ => GoPanic | _ => GoNoReturn end.

(* Impl and Spec side by side over a history: every selected call of the Impl returns what the Spec expects (sink calls included),
   no call panics or blocks; outside the domain and after a sink failure nothing is demanded (the run is cut there).
   [late] = false: histories showing the shape of the known finding are cut at that update. *)
Fixpoint lockstep (sel : op -> bool -> bool) (allow_late : bool) (sink_nil : bool) (w : wrapper) (s : sstate) (b : binding)
         (moved : bool) (ops : list op) : bool :=
  match ops with
  | [] => true
  | o :: ops' =>
      let '(ind, b') := op_in_domain s b o in
      if negb ind || ss_partial s || (negb allow_late && late_fork_at s o) then true else
      let '(w', r) := impl_step fixed o w in
      let lg := match o with OUpdate _ _ _ _ _ => w_log w' | _ => [] end in
      let '(s', e, logok) := spec_step sink_nil o lg s in
      match r with
      | Ok _ | Err =>
          let good := meets e (as_go r) && logok in
          if good then lockstep sel allow_late sink_nil w' s' b' (moved || negb (cp_eqb (ss_fin s) (ss_fin s'))) ops'
          else negb (sel o moved)   (* a deviation on a call of another property ends the comparison here *)
      | _ => false
      end
  end.

Definition refines (sel : op -> bool -> bool) (allow_late : bool) (i : init_args) (ops : list op) : bool :=
  if negb (init_in_domain i) then true else
  match impl_init fixed i with
  | (w, Ok _) => lockstep sel allow_late (i_sink_nil i) w (fst (spec_init i)) [(i_anchor_root i, (i_anchor_parent i, i_anchor_slot i))] false ops
  | _ => false
  end.

Definition sel_c11 (o : op) (moved : bool) : bool := is_query o.
Definition sel_c09 (o : op) (moved : bool) : bool := is_head o.
Definition sel_c10 (o : op) (moved : bool) : bool := is_update o || moved.
