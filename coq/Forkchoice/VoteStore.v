(* Impl model of /repo/eth2/forkchoice/proto/votestore.go (ProtoVoteStore). NO proofs here. *)
From Coq Require Import NArith ZArith List Bool.
From V Require Import Base.U64 Base.Outcome Forkchoice.ProtoArray.
Import ListNotations.
Local Open Scope N_scope.
Open Scope m_scope.

Record tracker := mkTr { t_cur : ref; t_next : ref; t_cure : epoch; t_nexte : epoch }.
Definition zero_tr : tracker := mkTr zero_ref zero_ref 0 0.
Definition tr_is_zero (t : tracker) : bool :=
  ref_eqb (t_cur t) zero_ref && ref_eqb (t_next t) zero_ref && (t_cure t =? 0) && (t_nexte t =? 0).

Record vstore := mkVS { vs_spe : N; vs_votes : list tracker; vs_changed : bool }.
Definition new_votestore (spe : N) : vstore := mkVS spe [] true.

Definition validator_limit : N := 100000.

(* ProcessAttestation(index, blockRoot, headSlot) *)
Definition vs_ProcessAttestation (ix : N) (blockRoot : root) (headSlot : slot) : M vstore bool :=
  st <- get ;;
  if validator_limit <? ix then fail OutOfFuel else
  if vs_spe st =? 0 then fail (Panic DivZero) else
  let votes := if lenN (vs_votes st) <=? ix
               then vs_votes st ++ repeat zero_tr (N.to_nat (ix + 1 - lenN (vs_votes st)))
               else vs_votes st in
  match nthN votes ix with
  | None => fail (Panic IndexOOR)
  | Some vote =>
      let targetEpoch := headSlot / vs_spe st in
      if (t_nexte vote <? targetEpoch) || ((targetEpoch =? 0) && tr_is_zero vote) then
        put (mkVS (vs_spe st) (updN votes ix (mkTr (t_cur vote) (blockRoot, headSlot) (t_cure vote) targetEpoch)) true) ;;;
        ret true
      else
        put (mkVS (vs_spe st) votes (vs_changed st)) ;;; ret true
  end.

Definition min_index (m : imap) : index :=
  match m with
  | [] => 0
  | (_, v) :: m' => fold_left (fun acc kv => N.min acc (snd kv)) m' v
  end.

Definition bal_at (b : list N) (i : nat) : N := nth i b 0.

Fixpoint deltas_loop (fx : fixes) (indices : imap) (off : index) (oldB newB : list N) (i : nat)
         (votes : list tracker) (deltas : list Z) (acc : list tracker) : outcome (list tracker * list Z) :=
  match votes with
  | [] => Ok (rev acc, deltas)
  | vote :: rest =>
      if ref_eqb (t_cur vote) zero_ref && ref_eqb (t_next vote) zero_ref
      then deltas_loop fx indices off oldB newB (S i) rest deltas (vote :: acc) else
      let oldBal := bal_at oldB i in
      let newBal := bal_at newB i in
      if ref_eqb (t_cur vote) zero_ref || (t_cure vote <? t_nexte vote) || negb (oldBal =? newBal) then
        bind (match idx_get indices (t_cur vote) with
              | Some ci =>
                  let j := sub64 ci off in
                  match nthN deltas j with
                  | Some d => Ok (updN deltas j (ssub64 d (to_s64 oldBal)))
                  | None => Panic IndexOOR
                  end
              | None => Ok deltas
              end)
             (fun deltas1 =>
                match idx_get indices (t_next vote) with
                | Some ni =>
                    let j := sub64 ni off in
                    match nthN deltas1 j with
                    | Some d =>
                        deltas_loop fx indices off oldB newB (S i) rest (updN deltas1 j (sadd64 d (to_s64 newBal)))
                                    (mkTr (t_next vote) (t_next vote) (t_nexte vote) (t_nexte vote) :: acc)
                    | None => Panic IndexOOR
                    end
                | None => deltas_loop fx indices off oldB newB (S i) rest deltas1 (vote :: acc)
                end)
      else deltas_loop fx indices off oldB newB (S i) rest deltas (vote :: acc)
  end.

Definition ComputeDeltas (fx : fixes) (indices : imap) (oldB newB : list N) : M vstore (list Z) :=
  st <- get ;;
  let off := if f_deltas_off fx then min_index indices else 0 in
  match deltas_loop fx indices off oldB newB 0 (vs_votes st) (repeat 0%Z (length indices)) [] with
  | Ok (votes', deltas) => put (mkVS (vs_spe st) votes' false) ;;; ret deltas
  | Err => fail Err
  | Panic p => fail (Panic p)
  | Blocked => fail Blocked
  | OutOfFuel => fail OutOfFuel
  end.
