(* C19: implementation models (Impl) and specifications (Spec) of zrnt's
   numeric, time and Merkle helpers.  No proofs here, so the model still runs
   when a proof breaks.
   Go sources: eth2/util/math/math_util.go, eth2/util/merkle/crypto_util.go,
   eth2/beacon/common/time.go, eth2/beacon/common/shuffling.go (CommitteeCount),
   eth2/gossipval/common.go (CheckSlotSpan). *)
From Coq Require Import NArith List Bool.
From V Require Import Base.U64 Base.Outcome.
Import ListNotations.
Local Open Scope N_scope.

(* ---------- IntegerSquareroot ---------- *)
(* for y < x { x = y; y = (x + n/x) >> 1 }  ; n/x panics when x = 0 *)
Fixpoint isqrt_loop (fuel : nat) (n x y : N) : outcome N :=
  match fuel with
  | O => OutOfFuel
  | S f =>
      if y <? x then
        if y =? 0 then Panic DivZero
        else isqrt_loop f n y (shr64 (add64 y (n / y)) 1)
      else Ok x
  end.
(* as found in the pinned snapshot: y := (x + 1) >> 1 *)
Definition isqrt_go_orig (n : N) : outcome N := isqrt_loop 70 n n (shr64 (add64 n 1) 1).
(* after "fix: IntegerSquareroot ..." : y := x>>1 + x&1 *)
Definition isqrt_go (n : N) : outcome N := isqrt_loop 70 n n (add64 (shr64 n 1) (N.land n 1)).
Definition isqrt_spec (n : N) : N := N.sqrt n.

(* ---------- IsPowerOfTwo / NextPowerOfTwo ---------- *)
Definition is_pow2_go (n : N) : bool := (0 <? n) && (N.land n (sub64 n 1) =? 0).
Definition smear (v s : N) : N := N.lor v (shr64 v s).
Definition next_pow2_go (n : N) : N :=
  let v := sub64 n 1 in
  let v := smear v 1 in let v := smear v 2 in let v := smear v 4 in
  let v := smear v 8 in let v := smear v 16 in let v := smear v 32 in
  add64 v 1.
(* Spec: least power of two >= n when representable; 0 maps to 0 (as the repository's table test fixes) *)
Definition next_pow2_spec (n : N) : N := if n =? 0 then 0 else 2 ^ N.log2_up n.

(* ---------- time / slot / epoch ---------- *)
Section Time.
  Variable SECONDS_PER_SLOT SLOTS_PER_EPOCH MAX_SEED_LOOKAHEAD : N.
  Variable MIN_PER_EPOCH_CHURN_LIMIT CHURN_LIMIT_QUOTIENT : N.
  Variable TARGET_COMMITTEE_SIZE MAX_COMMITTEES_PER_SLOT : N.

  Definition time_to_slot (t genesis : N) : N :=
    if t <? genesis then 0 else (t - genesis) / SECONDS_PER_SLOT.
  (* as found: slot >= max is an error *)
  Definition time_at_slot_orig (slot genesis : N) : outcome N :=
    let max := (max64 - genesis) / SECONDS_PER_SLOT in
    if max <=? slot then Err else Ok (add64 (mul64 slot SECONDS_PER_SLOT) genesis).
  (* after "fix: TimeAtSlot ..." : slot > max is an error *)
  Definition time_at_slot (slot genesis : N) : outcome N :=
    let max := (max64 - genesis) / SECONDS_PER_SLOT in
    if max <? slot then Err else Ok (add64 (mul64 slot SECONDS_PER_SLOT) genesis).
  (* Spec: compute_time_at_slot with checked arithmetic *)
  Definition time_at_slot_spec (slot genesis : N) : outcome N :=
    let r := slot * SECONDS_PER_SLOT + genesis in
    if r <? two64 then Ok r else Err.

  Definition slot_to_epoch (s : N) : N := s / SLOTS_PER_EPOCH.
  Definition epoch_start_slot (e : N) : outcome N :=
    let out := mul64 e SLOTS_PER_EPOCH in
    if e =? slot_to_epoch out then Ok out else Err.
  Definition epoch_start_slot_spec (e : N) : outcome N :=
    let r := e * SLOTS_PER_EPOCH in if r <? two64 then Ok r else Err.

  Definition activation_exit_epoch (e : N) : N := add64 (add64 e 1) MAX_SEED_LOOKAHEAD.
  Definition activation_exit_epoch_spec (e : N) : N := e + 1 + MAX_SEED_LOOKAHEAD.

  Definition churn_limit (active : N) : N := N.max MIN_PER_EPOCH_CHURN_LIMIT (active / CHURN_LIMIT_QUOTIENT).

  Definition committee_count (active : N) : N :=
    let per_slot := active / SLOTS_PER_EPOCH in
    let c := per_slot / TARGET_COMMITTEE_SIZE in
    let c := if MAX_COMMITTEES_PER_SLOT <? c then MAX_COMMITTEES_PER_SLOT else c in
    if c =? 0 then 1 else c.
  (* get_committee_count_per_slot: max(1, min(MAX, active / SPE / TARGET)) *)
  Definition committee_count_spec (active : N) : N :=
    N.max 1 (N.min MAX_COMMITTEES_PER_SLOT (active / SLOTS_PER_EPOCH / TARGET_COMMITTEE_SIZE)).
End Time.

Definition slot_prev (s : N) : N := if s =? 0 then 0 else s - 1.

(* ---------- CheckSlotSpan : the clock is a parameter (two readings) ---------- *)
Definition check_slot_span (min_slot max_slot slot span : N) : bool (* true = nil error *) :=
  let s := add64 slot span in
  if s <? slot then false
  else if s <? min_slot then false
  else if max_slot <? slot then false
  else true.
Definition check_slot_span_spec (min_slot max_slot slot span : N) : bool :=
  (slot + span <? two64) && (min_slot <=? slot + span) && (slot <=? max_slot).

(* ---------- XorBytes32 (hashing/hash_util.go): byte-wise xor of two 32-byte arrays ---------- *)
Fixpoint xor_bytes (a b : list N) : list N :=
  match a, b with
  | x :: a', y :: b' => N.lxor x y :: xor_bytes a' b'
  | _, _ => []
  end.

(* ---------- VerifyMerkleBranch over an arbitrary hash ---------- *)
Section Merkle.
  Context {B : Type}.                       (* byte strings *)
  Variable H : B -> B.
  Variable cat : B -> B -> B.
  Variable beq : B -> B -> bool.

  (* i counts up from 0; [remaining] = depth - i; indexing branch[i] panics past its end *)
  Fixpoint merkle_fold (value : B) (br : list B) (remaining i index : N) : outcome B :=
    if remaining =? 0 then Ok value else
    match br with
    | [] => Panic IndexOOR
    | b :: br' =>
        let value' := if N.testbit index i then H (cat b value) else H (cat value b) in
        merkle_fold value' br' (remaining - 1) (i + 1) index
    end.
  Definition verify_merkle_branch (leaf : B) (branch : list B) (depth index : N) (root : B) : outcome bool :=
    bind (merkle_fold leaf branch depth 0 index) (fun v => Ok (beq v root)).

  (* Spec: is_valid_merkle_branch, `index // 2**i % 2` *)
  Fixpoint merkle_root_spec (value : B) (br : list B) (i index : N) : B :=
    match br with
    | [] => value
    | b :: br' =>
        let value' := if (index / 2 ^ i) mod 2 =? 1 then H (cat b value) else H (cat value b) in
        merkle_root_spec value' br' (i + 1) index
    end.
  Definition is_valid_merkle_branch_spec (leaf : B) (branch : list B) (depth : nat) (index : N) (root : B) : bool :=
    beq (merkle_root_spec leaf (firstn depth branch) 0 index) root.
End Merkle.
