(* C19 correspondence: evaluate Impl and Spec on the cases the Go harness ran. *)
From Coq Require Import NArith List Bool.
From V Require Import Base.U64 Base.Outcome Base.Sha256 Math.MathModel Math.Prysm.
Import ListNotations.
Local Open Scope N_scope.

Definition bytes := list N.
Fixpoint bytes_eqb (a b : bytes) : bool :=
  match a, b with
  | [], [] => true
  | x :: a', y :: b' => (x =? y) && bytes_eqb a' b'
  | _, _ => false
  end.
Definition sha_cat (a b : bytes) : bytes := a ++ b.

Inductive mcase :=
| CIsqrt (n : N) (go : gores N)
| CIsPow2 (n : N) (go : bool)
| CNextPow2 (n : N) (go : N)
| CTimeToSlot (sps t g : N) (go : N)
| CTimeAtSlot (sps slot g : N) (go : gores N)
| CEpochStart (spe e : N) (go : gores N)
| CActExit (msl e : N) (go : N)
| CChurn (minch chq active : N) (go : N)
| CCommittee (spe tcs mcps active : N) (go : N)
| CSlotSpan (mn mx slot span : N) (go : bool)
| CSlotPrev (s : N) (go : N)
| CSlotToEpoch (spe s : N) (go : N)
| CMinMax (a b : N) (gomin gomax : N)
| CMerkle (leaf : bytes) (branch : list bytes) (depth index : N) (root : bytes) (go : gores bool)
| CSha (msg : bytes) (go : bytes)
| CXor (a b : bytes) (go : bytes)
(* IntegerSquareRootPrysm: [est] = the float64 estimate as computed by the harness with the same Go expression (oracle) *)
| CIsqrtPrysm (n est : N) (go : N).

(* impl_ok: Go agrees with the implementation model. *)
Definition impl_ok (c : mcase) : bool :=
  match c with
  | CIsqrt n go => agree N.eqb (isqrt_go n) go
  | CIsPow2 n go => Bool.eqb (is_pow2_go n) go
  | CNextPow2 n go => next_pow2_go n =? go
  | CTimeToSlot sps t g go => time_to_slot sps t g =? go
  | CTimeAtSlot sps slot g go => agree N.eqb (time_at_slot sps slot g) go
  | CEpochStart spe e go => agree N.eqb (epoch_start_slot spe e) go
  | CActExit msl e go => activation_exit_epoch msl e =? go
  | CChurn a b c go => churn_limit a b c =? go
  | CCommittee a b c d go => committee_count a b c d =? go
  | CSlotSpan a b c d go => Bool.eqb (check_slot_span a b c d) go
  | CSlotPrev s go => slot_prev s =? go
  | CSlotToEpoch spe s go => slot_to_epoch spe s =? go
  | CMinMax a b gmin gmax => (N.min a b =? gmin) && (N.max a b =? gmax)
  | CMerkle leaf br d i root go => agree Bool.eqb (verify_merkle_branch sha256 sha_cat bytes_eqb leaf br d i root) go
  | CSha msg go => bytes_eqb (sha256 msg) go
  | CXor a b go => bytes_eqb (xor_bytes a b) go
  | CIsqrtPrysm n est go => match prysm_go 16 est n with Ok r => r =? go | _ => false end
  end.

Definition is_pow2_spec (n : N) : bool := (0 <? n) && (2 ^ N.log2 n =? n).

(* spec_ok: Go returns the specification's value (judged directly, without the Impl model);
   cases outside the documented domain (zero divisors, depth beyond the branch) are vacuous. *)
Definition spec_ok (c : mcase) : bool :=
  match c with
  | CIsqrt n go => match go with GoOk r => (r * r <=? n) && (n <? (r + 1) * (r + 1)) | _ => false end
  | CIsPow2 n go => Bool.eqb (is_pow2_spec n) go
  | CNextPow2 n go => if n <=? 2 ^ 63 then next_pow2_spec n =? go else true
  | CTimeToSlot sps t g go => if sps =? 0 then true else (if t <? g then 0 else (t - g) / sps) =? go
  | CTimeAtSlot sps slot g go => if sps =? 0 then true else agree N.eqb (time_at_slot_spec sps slot g) go
  | CEpochStart spe e go => if spe =? 0 then true else agree N.eqb (epoch_start_slot_spec spe e) go
  | CActExit msl e go => if e + 1 + msl <? two64 then activation_exit_epoch_spec msl e =? go else true
  | CChurn a b c go => if b =? 0 then true else N.max a (c / b) =? go
  | CCommittee a b c d go => if (a =? 0) || (b =? 0) || (c =? 0) then true else committee_count_spec a b c d =? go
  | CSlotSpan a b c d go => Bool.eqb (check_slot_span_spec a b c d) go
  | CSlotPrev s go => (if s =? 0 then 0 else s - 1) =? go
  | CSlotToEpoch spe s go => if spe =? 0 then true else (go * spe <=? s) && (s <? (go + 1) * spe)
  | CMinMax a b gmin gmax => (gmin <=? a) && (gmin <=? b) && ((gmin =? a) || (gmin =? b)) && (a <=? gmax) && (b <=? gmax) && ((gmax =? a) || (gmax =? b))
  | CMerkle leaf br d i root go =>
      if d <=? N.of_nat (length br)
      then match go with
           | GoOk b => Bool.eqb (is_valid_merkle_branch_spec sha256 sha_cat bytes_eqb leaf br (N.to_nat d) i root) b
           | _ => false end
      else true
  | CSha msg go => bytes_eqb (sha256 msg) go
  | CXor a b go => Nat.eqb (length go) (length a) && forallb (fun i => N.lxor (nth i a 0) (nth i b 0) =? nth i go 0) (seq 0 (length a))
  | CIsqrtPrysm n _ go => (go * go <=? n) && (n <? (go + 1) * (go + 1))
  end.

Fixpoint mism (i : N) (cs : list mcase) : list (N * N) :=
  match cs with
  | [] => []
  | c :: cs' =>
      let r := (if impl_ok c then 0 else 1) + (if spec_ok c then 0 else 2) in
      if r =? 0 then mism (i + 1) cs' else (i, r) :: mism (i + 1) cs'
  end.
Definition mismatches (cs : list mcase) : list (N * N) := mism 0 cs.
