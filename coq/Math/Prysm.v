From Coq Require Import NArith ZArith Lia List Bool.
From Coq Require Import ZifyN ZifyNat ZifyBool.
From V Require Import Base.U64 Base.Outcome.
Import ListNotations.
(* IntegerSquareRootPrysm after 'fix: IntegerSquareRootPrysm ...': table, float64 estimate (an ORACLE here: [est] is whatever
   uint64(math.Sqrt(float64 n)) returned), then two division-based correction loops. Arithmetic is unbounded N: every x visited lies
   between min(est, sqrt n) and max(est, sqrt n) <= 2^32, so x-1 / x+1 cannot wrap in uint64 (argued, not part of the theorem). *)
Local Open Scope N_scope.

Fixpoint prysm_down (fuel : nat) (n x : N) : outcome N :=
  match fuel with
  | O => Err
  | S f => if (0 <? x) && (n / x <? x) then prysm_down f n (x - 1) else Ok x
  end.
Fixpoint prysm_up (fuel : nat) (n x : N) : outcome N :=
  match fuel with
  | O => Err
  | S f => if (x + 1 <=? n / (x + 1)) then prysm_up f n (x + 1) else Ok x
  end.
Definition prysm_fixed (fuel : nat) (est n : N) : outcome N :=
  match prysm_down fuel n est with Ok x => prysm_up fuel n x | o => o end.

Lemma div_lt_iff n x : 0 < x -> (n / x < x <-> N.sqrt n < x).
Proof.
  intros Hx. rewrite <- (N.sqrt_lt_square n x) by lia. unfold N.square.
  split; intros H.
  - pose proof (N.mul_succ_div_gt n x ltac:(lia)). nia.
  - apply N.div_lt_upper_bound; lia.
Qed.
Lemma le_div_iff n y : 0 < y -> (y <= n / y <-> y <= N.sqrt n).
Proof.
  intros Hy. rewrite <- (N.sqrt_le_square n y) by lia. unfold N.square.
  split; intros H.
  - pose proof (N.mul_div_le n y ltac:(lia)). nia.
  - apply N.div_le_lower_bound; lia.
Qed.

Lemma prysm_down_spec fuel n x : (N.to_nat (x - N.sqrt n) < fuel)%nat ->
  prysm_down fuel n x = Ok (N.min x (N.sqrt n)).
Proof.
  revert x; induction fuel as [|f IH]; intros x Hf; [lia|]. cbn [prysm_down].
  destruct (N.ltb_spec 0 x) as [Hx|Hx]; cbn [andb].
  - destruct (N.ltb_spec (n / x) x) as [Hd|Hd].
    + apply div_lt_iff in Hd; [|exact Hx]. rewrite IH by lia. f_equal. lia.
    + f_equal. assert (~ N.sqrt n < x) by (intro Hc; apply (div_lt_iff n x Hx) in Hc; lia). lia.
  - f_equal. lia.
Qed.
Lemma prysm_up_spec fuel n x : x <= N.sqrt n -> (N.to_nat (N.sqrt n - x) < fuel)%nat ->
  prysm_up fuel n x = Ok (N.sqrt n).
Proof.
  revert x; induction fuel as [|f IH]; intros x Hle Hf; [lia|]. cbn [prysm_up].
  destruct (N.leb_spec (x + 1) (n / (x + 1))) as [Hd|Hd].
  - apply le_div_iff in Hd; [|lia]. apply IH; lia.
  - f_equal. assert (~ x + 1 <= N.sqrt n) by (intro Hc; apply (le_div_iff n (x + 1) ltac:(lia)) in Hc; lia). lia.
Qed.
(* for ANY estimate: the corrected result is the floor square root *)
Theorem prysm_fixed_exact fuel est n :
  (N.to_nat (est - N.sqrt n) < fuel)%nat -> (N.to_nat (N.sqrt n - est) < fuel)%nat ->
  prysm_fixed fuel est n = Ok (N.sqrt n).
Proof.
  intros H1 H2. unfold prysm_fixed. rewrite prysm_down_spec by exact H1.
  apply prysm_up_spec; lia.
Qed.

Definition prysm_table : list (N * N) :=
  [(4,2);(16,4);(64,8);(256,16);(1024,32);(4096,64);(16384,128);(65536,256);(262144,512);(1048576,1024);(4194304,2048)].
Definition prysm_go (fuel : nat) (est n : N) : outcome N :=
  match find (fun p => fst p =? n) prysm_table with
  | Some p => Ok (snd p)
  | None => prysm_fixed fuel est n
  end.
Lemma prysm_table_ok : forallb (fun p => N.sqrt (fst p) =? snd p) prysm_table = true.
Proof. vm_compute. reflexivity. Qed.
(* table or estimate: for ANY estimate the answer is the floor square root *)
Theorem prysm_go_exact fuel est n :
  (N.to_nat (est - N.sqrt n) < fuel)%nat -> (N.to_nat (N.sqrt n - est) < fuel)%nat ->
  prysm_go fuel est n = Ok (N.sqrt n).
Proof.
  intros H1 H2. unfold prysm_go. destruct (find _ prysm_table) as [p|] eqn:F; [|apply prysm_fixed_exact; assumption].
  apply find_some in F. destruct F as [Hin Hp]. apply N.eqb_eq in Hp.
  pose proof (proj1 (forallb_forall _ _) prysm_table_ok p Hin) as Hs. apply N.eqb_eq in Hs. rewrite <- Hp, Hs. reflexivity.
Qed.
(* the snapshot (no correction) was refuted by the estimate Go actually produces at the first failing input *)
Definition prysm_orig (est n : N) : N :=
  match find (fun p => fst p =? n) prysm_table with Some p => snd p | None => est end.
Lemma prysm_orig_refuted : prysm_orig 67108865 4503599761588224 <> N.sqrt 4503599761588224.
Proof. vm_compute. discriminate. Qed.
