From Coq Require Import NArith ZArith Lia List Bool.
From Coq Require Import ZifyN ZifyNat ZifyBool.
From V Require Import Base.U64 Base.Outcome Math.MathModel.
Import ListNotations.
Local Open Scope N_scope.
Ltac Zify.zify_post_hook ::= Z.div_mod_to_equations.

(* ================= integer square root ================= *)

Lemma sqrt_lt_pow32 n : n < two64 -> N.sqrt n < 4294967296.
Proof.
  intros Hn. pose proof (N.sqrt_spec' n) as [Hlo _].
  destruct (N.lt_ge_cases (N.sqrt n) 4294967296) as [H|H]; [exact H|].
  exfalso. assert (4294967296 * 4294967296 <= N.sqrt n * N.sqrt n) by (apply N.mul_le_mono; exact H).
  unfold two64 in Hn. lia.
Qed.

(* Newton step stays at or above the floor square root *)
Lemma newton_ge n x : 0 < x -> N.sqrt n <= (x + n / x) / 2.
Proof.
  intros Hx. set (s := N.sqrt n). set (q := n / x).
  pose proof (N.sqrt_spec' n) as [Hlo _]. fold s in Hlo.
  assert (Hq : n < x * (q + 1)).
  { unfold q. pose proof (N.mul_succ_div_gt n x ltac:(lia)). lia. }
  assert (Hs : s * s < x * (q + 1)) by lia.
  assert (H2 : 2 * s < x + q + 1).
  { destruct (N.lt_ge_cases (2 * s) (x + q + 1)) as [H|H]; [exact H|exfalso].
    assert ((x + q + 1) * (x + q + 1) <= (2*s) * (2*s)) by (apply N.mul_le_mono; exact H).
    assert (4 * (x * (q+1)) <= (x + q + 1) * (x + q + 1)).
    { assert (Hsq: forall a b : N, 4 * (a * b) <= (a + b) * (a + b)).
      { intros a b. destruct (N.le_ge_cases a b) as [Hab|Hab].
        - replace b with (a + (b - a)) by lia. nia.
        - replace a with (b + (a - b)) by lia. nia. }
      specialize (Hsq x (q+1)). replace (x + (q+1)) with (x + q + 1) in Hsq by lia. exact Hsq. }
    nia. }
  assert (s <= (x + q) / 2).
  { apply N.div_le_lower_bound; lia. }
  exact H.
Qed.

Lemma div_le_sqrt n x : N.sqrt n < x -> n / x <= N.sqrt n.
Proof.
  intros Hx. pose proof (N.sqrt_spec' n) as [_ Hhi].
  set (s := N.sqrt n) in *.
  assert (n / x < s + 1); [|lia].
  apply N.div_lt_upper_bound; [lia|]. nia.
Qed.

Lemma newton_fix n x : 0 < x -> x <= N.sqrt n -> x <= (x + n / x) / 2.
Proof.
  intros Hx Hle. pose proof (N.sqrt_spec' n) as [Hlo _].
  assert (x * x <= n) by nia.
  assert (x <= n / x) by (apply N.div_le_lower_bound; lia).
  apply N.div_le_lower_bound; lia.
Qed.

Lemma shr1 x : shr64 x 1 = x / 2.
Proof. unfold shr64. rewrite N.shiftr_div_pow2. reflexivity. Qed.

Lemma isqrt_loop_correct f : forall n x,
  1 <= n -> n < two64 -> N.sqrt n <= x -> x <= 2 ^ 63 ->
  x - N.sqrt n < 2 ^ N.of_nat f ->
  isqrt_loop (S f) n x (shr64 (add64 x (n / x)) 1) = Ok (N.sqrt n).
Proof.
  induction f as [|f IH]; intros n x Hn1 Hn Hsx Hx63 Hd.
  - assert (x = N.sqrt n) by (simpl in Hd; lia). subst x.
    assert (Hs0 : 0 < N.sqrt n).
    { destruct (N.eq_0_gt_0_cases (N.sqrt n)) as [E|]; [|assumption].
      pose proof (N.sqrt_spec' n) as [_ Hhi]. rewrite E in Hhi. lia. }
    cbn [isqrt_loop]. rewrite shr1.
    pose proof (sqrt_lt_pow32 n Hn) as H32.
    assert (Hq : n / N.sqrt n <= N.sqrt n + 2).
    { pose proof (N.sqrt_spec' n) as [_ Hhi].
      assert (n / N.sqrt n < N.sqrt n + 3); [|lia].
      apply N.div_lt_upper_bound; [lia|]. nia. }
    unfold add64. rewrite wrap64_small by (unfold two64; lia).
    pose proof (newton_fix n (N.sqrt n) Hs0 (N.le_refl _)) as Hfix.
    destruct (N.ltb_spec ((N.sqrt n + n / N.sqrt n) / 2) (N.sqrt n)); [lia|reflexivity].
  - set (s := N.sqrt n) in *.
    assert (Hs0 : 0 < s).
    { destruct (N.eq_0_gt_0_cases s) as [E|]; [|assumption].
      pose proof (N.sqrt_spec' n) as [_ Hhi]. fold s in Hhi. rewrite E in Hhi. lia. }
    pose proof (sqrt_lt_pow32 n Hn) as H32. fold s in H32.
    assert (Hx0 : 0 < x) by lia.
    assert (Hqb : n / x <= s + 2).
    { pose proof (N.sqrt_spec' n) as [_ Hhi]. fold s in Hhi.
      assert (n / x < s + 3); [|lia].
      apply N.div_lt_upper_bound; [lia|]. nia. }
    assert (Hnw : x + n / x < two64) by (unfold two64; lia).
    remember (S f) as f1 eqn:Ef1.
    assert (Hadd : add64 x (n / x) = x + n / x) by (unfold add64; apply wrap64_small; exact Hnw).
    cbn [isqrt_loop]. rewrite Hadd. rewrite shr1.
    set (y := (x + n / x) / 2).
    pose proof (newton_ge n x Hx0) as Hyge. fold s y in Hyge.
    destruct (N.eq_dec x s) as [E|NE].
    + pose proof (newton_fix n x Hx0 ltac:(lia)) as Hfix. fold y in Hfix.
      destruct (N.ltb_spec y x); [lia|]. f_equal. exact E.
    + assert (Hxs : s < x) by lia.
      pose proof (div_le_sqrt n x Hxs) as Hq. fold s in Hq.
      assert (Hyx : y < x).
      { unfold y. apply N.div_lt_upper_bound; lia. }
      destruct (N.ltb_spec y x); [|lia].
      destruct (N.eqb_spec y 0); [lia|].
      subst f1. apply IH; try assumption; try lia.
      assert (Hy2 : y <= (x + s) / 2) by (unfold y; apply N.div_le_mono; lia).
      assert (2 ^ N.of_nat (S f) = 2 * 2 ^ N.of_nat f).
      { rewrite Nnat.Nat2N.inj_succ, N.pow_succ_r'. reflexivity. }
      assert ((x + s) / 2 - s < 2 ^ N.of_nat f); [|lia].
      assert ((x + s) / 2 <= s + (x - s) / 2).
      { replace (x + s) with ((x - s) + s * 2) by lia. rewrite N.div_add by lia. lia. }
      assert ((x - s) / 2 < 2 ^ N.of_nat f) by (apply N.div_lt_upper_bound; lia).
      lia.
Qed.

Lemma isqrt_loop_S f n x y :
  isqrt_loop (S f) n x y =
  if y <? x then if y =? 0 then Panic DivZero else isqrt_loop f n y (shr64 (add64 y (n / y)) 1) else Ok x.
Proof. reflexivity. Qed.

Lemma ceil_half n : n < two64 -> add64 (shr64 n 1) (N.land n 1) = (n + 1) / 2.
Proof.
  intros Hn. rewrite shr1. replace 1 with (N.ones 1) at 1 by reflexivity.
  rewrite N.land_ones. change (2 ^ 1) with 2.
  unfold add64. rewrite wrap64_small by (unfold two64 in *; lia). lia.
Qed.

Theorem isqrt_correct n : n < two64 -> isqrt_go n = Ok (N.sqrt n).
Proof.
  intros Hn. unfold isqrt_go. rewrite ceil_half by exact Hn.
  destruct (N.eq_dec n 0) as [->|N0]; [reflexivity|].
  destruct (N.eq_dec n 1) as [->|N1]; [reflexivity|].
  assert (Hy : (n + 1) / 2 < n) by (apply N.div_lt_upper_bound; lia).
  rewrite (isqrt_loop_S 69).
  destruct (N.ltb_spec ((n + 1) / 2) n); [|lia].
  destruct (N.eqb_spec ((n + 1) / 2) 0); [lia|].
  apply isqrt_loop_correct; try lia.
  - pose proof (newton_ge n n ltac:(lia)) as H1. rewrite N.div_same in H1 by lia. exact H1.
  - unfold two64 in Hn. apply N.div_le_upper_bound; lia.
  - assert ((n+1)/2 < 2 ^ 64).
    { apply N.div_lt_upper_bound; unfold two64 in *; lia. }
    change (N.of_nat 68) with 68. assert (2^64 < 2^68) by (vm_compute; reflexivity). lia.
Qed.

Corollary isqrt_floor n : n < two64 ->
  exists r, isqrt_go n = Ok r /\ r * r <= n < (r + 1) * (r + 1).
Proof.
  intros Hn. exists (N.sqrt n). split; [apply isqrt_correct; exact Hn|].
  pose proof (N.sqrt_spec' n) as [Hlo Hhi]. lia.
Qed.

(* The snapshot's version divides by zero at exactly the top of the domain. *)
Lemma isqrt_orig_max_refuted : isqrt_go_orig max64 = Panic DivZero.
Proof. vm_compute. reflexivity. Qed.
Lemma isqrt_fixed_at_max : isqrt_go max64 = Ok 4294967295.
Proof. vm_compute. reflexivity. Qed.

(* ================= time / epoch ================= *)
Section TimeProofs.

  Theorem epoch_start_slot_exact SPE (SPE_pos : 0 < SPE) e : e < two64 -> SPE < two64 ->
    epoch_start_slot SPE e = epoch_start_slot_spec SPE e.
  Proof.
    intros He Hs. unfold epoch_start_slot, epoch_start_slot_spec, slot_to_epoch, mul64, wrap64.
    destruct (N.ltb_spec (e * SPE) two64) as [Hlt|Hge].
    - rewrite N.mod_small by exact Hlt. rewrite N.div_mul by lia. rewrite N.eqb_refl. reflexivity.
    - destruct (N.eqb_spec e ((e * SPE) mod two64 / SPE)) as [E|]; [exfalso|reflexivity].
      assert (Hm : (e * SPE) mod two64 <= e * SPE - two64).
      { pose proof (N.div_mod (e*SPE) two64 ltac:(discriminate)).
        assert (1 <= e * SPE / two64) by (apply N.div_le_lower_bound; [discriminate|lia]). nia. }
      assert (Hd : (e * SPE) mod two64 / SPE < e).
      { apply N.div_lt_upper_bound; [lia|]. unfold two64 in *. nia. }
      lia.
  Qed.

  Theorem time_at_slot_exact SPS (SPS_pos : 0 < SPS) slot g : slot < two64 -> g < two64 ->
    time_at_slot SPS slot g = time_at_slot_spec SPS slot g.
  Proof.
    intros Hs Hg. unfold time_at_slot, time_at_slot_spec, add64, mul64.
    set (mx := (max64 - g) / SPS).
    destruct (N.ltb_spec mx slot) as [Hgt|Hle].
    - assert (max64 - g < slot * SPS).
      { unfold mx in Hgt. pose proof (N.mul_succ_div_gt (max64 - g) SPS ltac:(lia)). nia. }
      destruct (N.ltb_spec (slot * SPS + g) two64); [unfold max64, two64 in *; lia|reflexivity].
    - assert (slot * SPS <= max64 - g).
      { unfold mx in Hle. pose proof (N.mul_div_le (max64 - g) SPS ltac:(lia)). nia. }
      assert (slot * SPS + g < two64) by (unfold max64, two64 in *; lia).
      destruct (N.ltb_spec (slot * SPS + g) two64); [|lia].
      rewrite (wrap64_small (slot * SPS)) by lia. rewrite wrap64_small by lia. reflexivity.
  Qed.

  (* the snapshot's `>=` refused a representable result *)
  Lemma time_at_slot_orig_refuted :
    exists sps slot g, 0 < sps /\ time_at_slot_orig sps slot g = Err /\
                       exists r, time_at_slot_spec sps slot g = Ok r.
  Proof. exists 12, 1537228672809129301, 0. split; [lia|]. split; [reflexivity|]. eexists. vm_compute. reflexivity. Qed.

  Theorem time_to_slot_spec SPS t g : 
    time_to_slot SPS t g = if t <? g then 0 else (t - g) / SPS.
  Proof. reflexivity. Qed.
  Theorem time_to_slot_inverse SPS (SPS_pos : 0 < SPS) slot g r : slot < two64 -> g < two64 ->
    time_at_slot SPS slot g = Ok r -> time_to_slot SPS r g = slot.
  Proof.
    intros Hs Hg. rewrite (time_at_slot_exact SPS SPS_pos) by assumption. unfold time_at_slot_spec, time_to_slot.
    destruct (N.ltb_spec (slot * SPS + g) two64); [|discriminate]. intros [= <-].
    destruct (N.ltb_spec (slot * SPS + g) g); [lia|].
    replace (slot * SPS + g - g) with (slot * SPS) by lia. apply N.div_mul. lia.
  Qed.

  Theorem activation_exit_epoch_repr MSL e : e + 1 + MSL < two64 ->
    activation_exit_epoch MSL e = activation_exit_epoch_spec MSL e.
  Proof.
    intros H. unfold activation_exit_epoch, activation_exit_epoch_spec, add64.
    rewrite (wrap64_small (e + 1)) by lia. apply wrap64_small. exact H.
  Qed.

  Theorem committee_count_eq SPE TCS MCPS active : 0 < MCPS ->
    committee_count SPE TCS MCPS active = committee_count_spec SPE TCS MCPS active.
  Proof.
    intros HM. unfold committee_count, committee_count_spec.
    set (c := active / SPE / TCS).
    destruct (N.ltb_spec MCPS c) as [Hc|Hc].
    - destruct (N.eqb_spec MCPS 0); lia.
    - destruct (N.eqb_spec c 0); lia.
  Qed.

  Theorem churn_limit_eq MINCH CHQ active : churn_limit MINCH CHQ active = N.max MINCH (active / CHQ).
  Proof. reflexivity. Qed.
End TimeProofs.

(* ---- floor characterisations (added round 7): TimeToSlot / SlotToEpoch against the spec's intervals ---- *)
(* compute_slot_at_time: the slot whose time interval [s*SPS+g, (s+1)*SPS+g) contains t; before genesis: slot 0 *)
Theorem time_to_slot_floor SPS t g : 0 < SPS ->
  (t < g -> time_to_slot SPS t g = 0) /\
  (g <= t -> time_to_slot SPS t g * SPS + g <= t /\ t < (time_to_slot SPS t g + 1) * SPS + g).
Proof.
  intros HS. unfold time_to_slot. split; intros H.
  - destruct (N.ltb_spec t g); [reflexivity|lia].
  - destruct (N.ltb_spec t g); [lia|].
    pose proof (N.div_mod (t - g) SPS ltac:(lia)) as Hdm.
    pose proof (N.mod_lt (t - g) SPS ltac:(lia)) as Hlt.
    set (q := (t - g) / SPS) in *. set (r := (t - g) mod SPS) in *. nia.
Qed.
Theorem time_to_slot_unique SPS t g s : 0 < SPS -> g <= t ->
  s * SPS + g <= t -> t < (s + 1) * SPS + g -> time_to_slot SPS t g = s.
Proof.
  intros HS Hgt Hlo Hhi. unfold time_to_slot. destruct (N.ltb_spec t g); [lia|].
  symmetry. apply (N.div_unique (t - g) SPS s (t - g - s * SPS)); nia.
Qed.
(* the result of TimeToSlot is itself a 64-bit value for 64-bit arguments (nothing wraps) *)
Theorem time_to_slot_bound SPS t g : 0 < SPS -> t < two64 -> time_to_slot SPS t g < two64.
Proof.
  intros HS Ht. unfold time_to_slot. destruct (N.ltb_spec t g); [reflexivity|].
  apply N.le_lt_trans with (t - g); [|lia]. apply N.div_le_upper_bound; nia.
Qed.
(* compute_epoch_at_slot / compute_start_slot_at_epoch: EpochStartSlot is the least slot of the epoch *)
Theorem slot_to_epoch_floor SPE s : 0 < SPE ->
  slot_to_epoch SPE s * SPE <= s /\ s < (slot_to_epoch SPE s + 1) * SPE.
Proof.
  intros HS. unfold slot_to_epoch.
  pose proof (N.div_mod s SPE ltac:(lia)) as Hdm. pose proof (N.mod_lt s SPE ltac:(lia)) as Hlt.
  set (q := s / SPE) in *. set (r := s mod SPE) in *. nia.
Qed.
Theorem epoch_start_slot_inverse SPE e s : 0 < SPE -> e < two64 -> SPE < two64 ->
  epoch_start_slot SPE e = Ok s ->
  slot_to_epoch SPE s = e /\ (forall s', slot_to_epoch SPE s' = e -> s <= s') /\ s < two64.
Proof.
  intros HS He HSPE. rewrite (epoch_start_slot_exact SPE HS e He HSPE). unfold epoch_start_slot_spec.
  destruct (N.ltb_spec (e * SPE) two64) as [Hr|Hr]; [|discriminate]. intros [= <-].
  split; [unfold slot_to_epoch; apply N.div_mul; lia|]. split; [|exact Hr].
  intros s' Hs'. pose proof (slot_to_epoch_floor SPE s' HS) as [Hlo _]. rewrite Hs' in Hlo. exact Hlo.
Qed.
(* Slot.Previous / Epoch.Previous: saturating predecessor, never wraps below genesis *)
Theorem slot_prev_spec s : slot_prev s = N.pred s /\ slot_prev s <= s /\ (0 < s -> slot_prev s + 1 = s).
Proof. unfold slot_prev. destruct (N.eqb_spec s 0); subst; cbn; lia. Qed.

(* ================= XorBytes32 ================= *)
Lemma xor_bytes_length a b : length a = length b -> length (xor_bytes a b) = length a.
Proof. revert b; induction a as [|x a IH]; intros [|y b] H; cbn in *; try discriminate; [reflexivity|]. f_equal. apply IH. now injection H. Qed.
Lemma xor_bytes_comm a b : xor_bytes a b = xor_bytes b a.
Proof. revert b; induction a as [|x a IH]; intros [|y b]; cbn; try reflexivity. rewrite N.lxor_comm. f_equal. apply IH. Qed.
(* mixing the same value in twice restores the original (the randao mix / seed construction relies on it) *)
Lemma xor_bytes_involutive a b : length a = length b -> xor_bytes (xor_bytes a b) b = a.
Proof.
  revert b; induction a as [|x a IH]; intros [|y b] H; cbn in *; try discriminate; [reflexivity|].
  rewrite N.lxor_assoc, N.lxor_nilpotent, N.lxor_0_r. f_equal. apply IH. now injection H.
Qed.
Lemma xor_bytes_nth a b i : length a = length b -> (i < length a)%nat ->
  nth i (xor_bytes a b) 0 = N.lxor (nth i a 0) (nth i b 0).
Proof.
  revert b i; induction a as [|x a IH]; intros [|y b] i H Hi; cbn in *; try discriminate; [lia|].
  destruct i as [|i]; [reflexivity|]. apply IH; [now injection H|lia].
Qed.
Lemma xor_bytes_byte a b : Forall (fun x => x < 256) a -> Forall (fun x => x < 256) b ->
  Forall (fun x => x < 256) (xor_bytes a b).
Proof.
  intros Ha; revert b; induction Ha as [|x a Hx Ha IH]; intros b Hb; [constructor|].
  destruct Hb as [|y b Hy Hb]; cbn; constructor; [|apply IH; exact Hb].
  destruct (N.eq_dec (N.lxor x y) 0) as [->|Hnz]; [lia|].
  apply N.log2_lt_pow2 with (b := 8); [lia|].
  eapply N.le_lt_trans; [apply N.log2_lxor|].
  apply N.max_lub_lt.
  - destruct (N.eq_dec x 0) as [->|]; [cbn; lia|]. apply N.log2_lt_pow2; lia.
  - destruct (N.eq_dec y 0) as [->|]; [cbn; lia|]. apply N.log2_lt_pow2; lia.
Qed.

(* ================= slot span ================= *)
Theorem check_slot_span_iff mn mx slot span : slot < two64 -> span < two64 ->
  check_slot_span mn mx slot span = check_slot_span_spec mn mx slot span.
Proof.
  intros Hs Hp. unfold check_slot_span, check_slot_span_spec, add64, wrap64.
  destruct (N.ltb_spec (slot + span) two64) as [Hlt|Hge].
  - rewrite N.mod_small by exact Hlt.
    destruct (N.ltb_spec (slot + span) slot); [lia|].
    destruct (N.ltb_spec (slot + span) mn); destruct (N.leb_spec mn (slot + span)); try lia; cbn;
    destruct (N.ltb_spec mx slot); destruct (N.leb_spec slot mx); try lia; reflexivity.
  - assert ((slot + span) mod two64 = slot + span - two64).
    { replace (slot + span) with ((slot + span - two64) + 1 * two64) at 1 by lia.
      rewrite N.mod_add by discriminate. apply N.mod_small. lia. }
    destruct (N.ltb_spec ((slot + span) mod two64) slot); [reflexivity|lia].
Qed.

(* ================= Merkle branches ================= *)
Section MerkleProofs.
  Context {B : Type}.
  Variable H : B -> B.
  Variable cat : B -> B -> B.
  Variable beq : B -> B -> bool.

  Lemma testbit_divmod index i : N.testbit index i = ((index / 2 ^ i) mod 2 =? 1).
  Proof.
    rewrite N.testbit_eqb. reflexivity.
  Qed.

  Lemma merkle_fold_spec : forall (br : list B) (value : B) (d : nat) (i index : N),
    (d <= length br)%nat ->
    merkle_fold H cat value br (N.of_nat d) i index =
    Ok (merkle_root_spec H cat value (firstn d br) i index).
  Proof.
    induction br as [|b br IH]; intros value d i index Hd.
    - assert (d = 0%nat) by (simpl in Hd; lia). subst d. reflexivity.
    - destruct d as [|d].
      + reflexivity.
      + cbn [merkle_fold firstn merkle_root_spec].
        destruct (N.eqb_spec (N.of_nat (S d)) 0); [lia|].
        replace (N.of_nat (S d) - 1) with (N.of_nat d) by lia.
        rewrite testbit_divmod. apply IH. simpl in Hd. lia.
  Qed.

  (* indexing past the end of the branch is the only panic *)
  Lemma merkle_fold_short : forall (br : list B) (value : B) (d i index : N),
    N.of_nat (length br) < d ->
    merkle_fold H cat value br d i index = Panic IndexOOR.
  Proof.
    induction br as [|b br IH]; intros value d i index Hd.
    - cbn. destruct (N.eqb_spec d 0); [simpl in Hd; lia|reflexivity].
    - cbn [merkle_fold]. destruct (N.eqb_spec d 0); [simpl length in Hd; lia|].
      apply IH. simpl length in Hd. lia.
  Qed.

  Theorem merkle_verify_iff leaf branch (depth : nat) index root :
    (depth <= length branch)%nat ->
    verify_merkle_branch H cat beq leaf branch (N.of_nat depth) index root =
    Ok (is_valid_merkle_branch_spec H cat beq leaf branch depth index root).
  Proof.
    intros Hd. unfold verify_merkle_branch, is_valid_merkle_branch_spec.
    rewrite merkle_fold_spec by exact Hd. reflexivity.
  Qed.

  Theorem merkle_verify_no_panic_in_domain leaf branch depth index root :
    depth <= N.of_nat (length branch) ->
    exists b, verify_merkle_branch H cat beq leaf branch depth index root = Ok b.
  Proof.
    intros Hd. rewrite <- (Nnat.N2Nat.id depth). eexists. apply merkle_verify_iff. lia.
  Qed.
End MerkleProofs.
