From Coq Require Import NArith ZArith Lia List Bool.
From Coq Require Import ZifyN ZifyNat ZifyBool.
From V Require Import Base.U64 Base.Outcome Math.MathModel.
Local Open Scope N_scope.

(* ================= IsPowerOfTwo ================= *)
Theorem is_pow2_iff n : n < two64 -> (is_pow2_go n = true <-> exists k, n = 2 ^ k).
Proof.
  intros Hn. unfold is_pow2_go. split.
  - intros H. apply andb_true_iff in H as [Hpos Hland].
    apply N.ltb_lt in Hpos. apply N.eqb_eq in Hland.
    rewrite sub64_ge in Hland by lia.
    exists (N.log2 n).
    pose proof (N.log2_spec n Hpos) as [Hlo Hhi].
    destruct (N.eq_dec n (2 ^ N.log2 n)) as [E|NE]; [exact E|exfalso].
    assert (Hm : N.log2 (n - 1) = N.log2 n).
    { apply N.log2_unique; [lia|]. lia. }
    assert (Hb1 : N.testbit n (N.log2 n) = true) by (apply N.bit_log2; lia).
    assert (Hb2 : N.testbit (n - 1) (N.log2 n) = true).
    { rewrite <- Hm. apply N.bit_log2. lia. }
    assert (Hb : N.testbit (N.land n (n - 1)) (N.log2 n) = true).
    { rewrite N.land_spec, Hb1, Hb2. reflexivity. }
    rewrite Hland in Hb. rewrite N.bits_0 in Hb. discriminate.
  - intros [k ->].
    assert (0 < 2 ^ k) by (apply N.neq_0_lt_0, N.pow_nonzero; discriminate).
    apply andb_true_iff. split; [apply N.ltb_lt; assumption|].
    rewrite sub64_ge by lia. apply N.eqb_eq.
    replace (2 ^ k - 1) with (N.ones k) by (rewrite N.ones_equiv; lia).
    rewrite N.land_ones. apply N.mod_same. lia.
Qed.

(* ================= NextPowerOfTwo ================= *)
Definition topset (v w : N) : Prop :=
  forall j, j <= N.log2 v -> N.log2 v < j + w -> N.testbit v j = true.

Lemma topset_1 v : 0 < v -> topset v 1.
Proof. intros Hv j H1 H2. assert (j = N.log2 v) by lia. subst j. apply N.bit_log2. lia. Qed.

Lemma smear_log2 v s : N.log2 (smear v s) = N.log2 v.
Proof.
  unfold smear, shr64. rewrite N.log2_lor, N.log2_shiftr. lia.
Qed.

Lemma smear_topset v s : topset v s -> topset (smear v s) (2 * s).
Proof.
  intros Hv j H1 H2. rewrite smear_log2 in *.
  unfold smear, shr64. rewrite N.lor_spec, N.shiftr_spec'.
  destruct (N.lt_ge_cases (N.log2 v) (j + s)) as [H|H].
  - rewrite (Hv j H1 H). reflexivity.
  - rewrite (Hv (j + s)) by lia. apply orb_true_r.
Qed.

Lemma smear_pos v s : 0 < v -> 0 < smear v s.
Proof.
  intros Hv. unfold smear. destruct (N.eq_0_gt_0_cases (N.lor v (shr64 v s))) as [E|]; [|assumption].
  apply N.lor_eq_0_l in E. lia.
Qed.

Definition smear6 (v : N) : N :=
  smear (smear (smear (smear (smear (smear v 1) 2) 4) 8) 16) 32.

Lemma smear6_ones v : 0 < v -> v < two64 -> smear6 v = N.ones (N.succ (N.log2 v)).
Proof.
  intros Hv H64. unfold smear6.
  pose proof (topset_1 v Hv) as T1.
  apply smear_topset in T1. apply smear_topset in T1. apply smear_topset in T1.
  apply smear_topset in T1. apply smear_topset in T1. apply smear_topset in T1.
  change (2 * (2 * (2 * (2 * (2 * (2 * 1)))))) with 64 in T1.
  change (2 * (2 * (2 * (2 * (2 * 1))))) with 32 in T1.
  change (2 * (2 * (2 * (2 * 1)))) with 16 in T1. change (2 * (2 * (2 * 1))) with 8 in T1.
  change (2 * (2 * 1)) with 4 in T1. change (2 * 1) with 2 in T1.
  set (r := smear (smear (smear (smear (smear (smear v 1) 2) 4) 8) 16) 32) in *.
  assert (Hl : N.log2 r = N.log2 v) by (unfold r; rewrite !smear_log2; reflexivity).
  assert (Ht : N.log2 v < 64).
  { apply N.log2_lt_pow2; [assumption|exact H64]. }
  apply N.bits_inj. intros j.
  destruct (N.lt_ge_cases j (N.succ (N.log2 v))) as [Hj|Hj].
  - rewrite N.ones_spec_low by exact Hj. apply T1; rewrite Hl; lia.
  - rewrite N.ones_spec_high by exact Hj. apply N.bits_above_log2. rewrite Hl. lia.
Qed.

Lemma next_pow2_unfold n : next_pow2_go n = add64 (smear6 (sub64 n 1)) 1.
Proof. reflexivity. Qed.

Theorem next_pow2_correct n : n <= 2 ^ 63 -> next_pow2_go n = next_pow2_spec n.
Proof.
  intros Hn. rewrite next_pow2_unfold. unfold next_pow2_spec.
  destruct (N.eqb_spec n 0) as [->|N0]; [vm_compute; reflexivity|].
  destruct (N.eq_dec n 1) as [->|N1]; [vm_compute; reflexivity|].
  rewrite sub64_ge by lia.
  assert (H64 : n - 1 < two64) by (unfold two64; lia).
  rewrite smear6_ones by lia.
  rewrite N.ones_equiv.
  assert (Hup : N.log2_up n = N.succ (N.log2 (n - 1))).
  { rewrite <- N.pred_sub. unfold N.log2_up. destruct (N.compare_spec 1 n); lia. }
  rewrite Hup.
  assert (Hp : 0 < 2 ^ N.succ (N.log2 (n - 1))) by (apply N.neq_0_lt_0, N.pow_nonzero; discriminate).
  assert (Hle : 2 ^ N.succ (N.log2 (n - 1)) <= 2 ^ 63).
  { apply N.pow_le_mono_r; [discriminate|].
    assert (N.log2 (n - 1) < 63); [|lia].
    apply N.log2_lt_pow2; lia. }
  unfold add64. rewrite wrap64_small; [lia|]. unfold two64. lia.
Qed.

(* beyond 2^63 the least power of two is 2^64: not representable; Go's result wraps to 0 *)
Theorem next_pow2_wrap n : 2 ^ 63 < n -> n < two64 -> next_pow2_go n = 0.
Proof.
  intros Hlo Hhi. rewrite next_pow2_unfold. rewrite sub64_ge by lia.
  rewrite smear6_ones by (unfold two64 in *; lia).
  assert (N.log2 (n - 1) = 63).
  { apply N.log2_unique; [lia|]. change (2 ^ N.succ 63) with two64. lia. }
  rewrite H. vm_compute. reflexivity.
Qed.

Theorem next_pow2_is_least n : 0 < n -> n <= 2 ^ 63 ->
  n <= next_pow2_go n /\ (exists k, next_pow2_go n = 2 ^ k) /\
  forall k, n <= 2 ^ k -> next_pow2_go n <= 2 ^ k.
Proof.
  intros Hp Hn. rewrite next_pow2_correct by exact Hn. unfold next_pow2_spec.
  destruct (N.eqb_spec n 0); [lia|].
  split; [|split].
  - destruct (N.eq_dec n 1) as [->|]; [vm_compute; discriminate|].
    apply N.log2_up_spec. lia.
  - eexists; reflexivity.
  - intros k Hk. apply N.pow_le_mono_r; [discriminate|].
    apply N.log2_up_le_pow2; assumption.
Qed.
