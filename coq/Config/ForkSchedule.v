(* C14: fork schedule lookups of zrnt — implementation models (Impl) and specification (Spec).
   No proofs here (Config/ForkProofs.v), so the model still runs when a proof breaks.

   Go sources modelled:
     eth2/beacon/common/spec.go        Spec.ForkVersion                      -> fork_version (+ fork_version_orig)
     eth2/beacon/common/versioning.go  ComputeForkDataRoot/ComputeForkDigest -> fork_data_root, fork_digest
     eth2/beacon/common/bls.go         ComputeDomain, ComputeSigningRoot     -> compute_domain, signing_root
     eth2/beacon/fork.go               NewForkDecoder, ForkDecoder.ForkDigest, BlockAllocator,
                                       StandardUpgradeableBeaconState.UpgradeMaybe, EnvelopeToSignedBeaconBlock
     eth2/beacon/*/fork.go             UpgradeTo* (only the Fork record and the resulting state type)
     eth2/beacon/common/transition.go  ProcessSlots (only slot counter + UpgradeMaybe; the epoch transition
                                       does not touch the state type or the Fork record)
     eth2/beacon/*/block.go            Envelope(), BeaconBlock.Header()
     eth2/beacon/common/block.go       BeaconBlockEnvelope.VerifySignature(Versioned)

   The model describes the code WITH the two proposed repairs applied
   (fixes/C14-forkversion.diff, fixes/C14-upgrade-boundary.diff); the behaviour of the pinned snapshot
   is kept as `..._orig`. *)
From Coq Require Import NArith List Bool.
From V Require Import Base.U64 Base.Outcome.
Import ListNotations.
Local Open Scope N_scope.

Definition bytes := list N.            (* each element < 256 *)
Fixpoint bytes_eqb (a b : bytes) : bool :=
  match a, b with
  | [], [] => true
  | x :: a', y :: b' => (x =? y) && bytes_eqb a' b'
  | _, _ => false
  end.

(* ---------- forks and configurations ---------- *)
Inductive fork := Phase0 | Altair | Bellatrix | Capella | Deneb | Electra | Fulu.
Definition fork_index (f : fork) : N :=
  match f with Phase0 => 0 | Altair => 1 | Bellatrix => 2 | Capella => 3 | Deneb => 4 | Electra => 5 | Fulu => 6 end.
Definition fork_eqb (a b : fork) : bool :=
  match a, b with
  | Phase0, Phase0 | Altair, Altair | Bellatrix, Bellatrix | Capella, Capella
  | Deneb, Deneb | Electra, Electra | Fulu, Fulu => true
  | _, _ => false
  end.
Definition all_forks : list fork := [Phase0; Altair; Bellatrix; Capella; Deneb; Electra; Fulu].

Definition FAR_FUTURE_EPOCH : N := max64.

(* The part of common.Spec that the fork lookups read.  Versions are the 4 bytes read as a
   big-endian 32-bit number (Version.ToUint32); epochs and SLOTS_PER_EPOCH are uint64. *)
Record fork_cfg := mkCfg {
  c_spe : N;
  v_genesis : N; v_altair : N; v_bellatrix : N; v_capella : N; v_deneb : N; v_electra : N; v_fulu : N;
  e_altair : N; e_bellatrix : N; e_capella : N; e_deneb : N; e_electra : N; e_fulu : N }.

Definition version_of (c : fork_cfg) (f : fork) : N :=
  match f with
  | Phase0 => v_genesis c | Altair => v_altair c | Bellatrix => v_bellatrix c | Capella => v_capella c
  | Deneb => v_deneb c | Electra => v_electra c | Fulu => v_fulu c
  end.
(* activation epoch; the genesis fork is active from GENESIS_EPOCH *)
Definition epoch_of (c : fork_cfg) (f : fork) : N :=
  match f with
  | Phase0 => 0 | Altair => e_altair c | Bellatrix => e_bellatrix c | Capella => e_capella c
  | Deneb => e_deneb c | Electra => e_electra c | Fulu => e_fulu c
  end.
Definition pred_fork (f : fork) : fork :=
  match f with
  | Phase0 => Phase0 | Altair => Phase0 | Bellatrix => Altair | Capella => Bellatrix
  | Deneb => Capella | Electra => Deneb | Fulu => Electra
  end.

(* A valid configuration lists its forks in activation order (equal epochs and FAR_FUTURE allowed). *)
Definition schedule_sorted (c : fork_cfg) : Prop :=
  e_altair c <= e_bellatrix c /\ e_bellatrix c <= e_capella c /\ e_capella c <= e_deneb c /\
  e_deneb c <= e_electra c /\ e_electra c <= e_fulu c.
Definition schedule_sorted_b (c : fork_cfg) : bool :=
  (e_altair c <=? e_bellatrix c) && (e_bellatrix c <=? e_capella c) && (e_capella c <=? e_deneb c) &&
  (e_deneb c <=? e_electra c) && (e_electra c <=? e_fulu c).
Definition versions_distinct_b (c : fork_cfg) : bool :=
  (fix nodup (l : list N) : bool :=
     match l with [] => true | x :: l' => negb (existsb (N.eqb x) l') && nodup l' end)
    (map (version_of c) all_forks).

(* spec.SlotToEpoch *)
Definition slot_to_epoch (c : fork_cfg) (slot : N) : N := slot / c_spe c.

(* ================= Impl ================= *)

(* Spec.ForkVersion as found in the pinned snapshot: the chain skips CAPELLA_FORK_VERSION, so every
   later interval reports the version of the following fork, and FULU_FORK_EPOCH is never read. *)
Definition fork_version_orig (c : fork_cfg) (slot : N) : N :=
  let epoch := slot_to_epoch c slot in
  if epoch <? e_altair c then v_genesis c
  else if epoch <? e_bellatrix c then v_altair c
  else if epoch <? e_capella c then v_bellatrix c
  else if epoch <? e_deneb c then v_deneb c
  else if epoch <? e_electra c then v_electra c
  else v_fulu c.

(* Spec.ForkVersion after fixes/C14-forkversion.diff *)
Definition fork_version (c : fork_cfg) (slot : N) : N :=
  let epoch := slot_to_epoch c slot in
  if epoch <? e_altair c then v_genesis c
  else if epoch <? e_bellatrix c then v_altair c
  else if epoch <? e_capella c then v_bellatrix c
  else if epoch <? e_deneb c then v_capella c
  else if epoch <? e_electra c then v_deneb c
  else if epoch <? e_fulu c then v_electra c
  else v_fulu c.

(* the fork NAME selected by the same ascending chain (ForkDecoder.ForkDigest picks its digest field so) *)
Definition fork_at_epoch (c : fork_cfg) (epoch : N) : fork :=
  if epoch <? e_altair c then Phase0
  else if epoch <? e_bellatrix c then Altair
  else if epoch <? e_capella c then Bellatrix
  else if epoch <? e_deneb c then Capella
  else if epoch <? e_electra c then Deneb
  else if epoch <? e_fulu c then Electra
  else Fulu.

Definition version_bytes (v : N) : bytes :=
  [(v / 16777216) mod 256; (v / 65536) mod 256; (v / 256) mod 256; v mod 256].
Definition zero32 : bytes := repeat 0 32.
(* a uint64 as a 32-byte SSZ leaf: little-endian, zero padded *)
Fixpoint le_bytes (n : nat) (v : N) : bytes :=
  match n with O => [] | S k => (v mod 256) :: le_bytes k (v / 256) end.
Definition u64_leaf (v : N) : bytes := le_bytes 8 v ++ repeat 0 24.

Definition DOMAIN_BEACON_PROPOSER : bytes := [0; 0; 0; 0].

Section Hashed.
  Variable H : bytes -> bytes.   (* the hash function (64 bytes -> 32 bytes); no law is assumed *)

  (* ForkData{current_version, genesis_validators_root}.HashTreeRoot: two leaves *)
  Definition fork_data_root (version : N) (gvr : bytes) : bytes :=
    H ((version_bytes version ++ repeat 0 28) ++ gvr).
  Definition fork_digest (version : N) (gvr : bytes) : bytes := firstn 4 (fork_data_root version gvr).
  (* ComputeDomain: domain type ++ first 28 bytes of the fork data root *)
  Definition compute_domain (domain_type : bytes) (version : N) (gvr : bytes) : bytes :=
    domain_type ++ firstn 28 (fork_data_root version gvr).
  (* ComputeSigningRoot: SigningData{object_root, domain}.HashTreeRoot *)
  Definition signing_root (object_root domain : bytes) : bytes := H (object_root ++ domain).

  (* BeaconBlockHeader.HashTreeRoot: five fields, padded to eight leaves *)
  Definition header_root (slot proposer : N) (parent state body_root : bytes) : bytes :=
    let h01 := H (u64_leaf slot ++ u64_leaf proposer) in
    let h23 := H (parent ++ state) in
    let h45 := H (body_root ++ zero32) in
    let h67 := H (zero32 ++ zero32) in
    H (H (h01 ++ h23) ++ H (h45 ++ h67)).

  (* ---- ForkDecoder ---- *)
  Record decoder := mkDec {
    d_cfg : fork_cfg;
    d_genesis : bytes; d_altair : bytes; d_bellatrix : bytes; d_capella : bytes;
    d_deneb : bytes; d_electra : bytes; d_fulu : bytes }.
  Definition new_decoder (c : fork_cfg) (gvr : bytes) : decoder :=
    mkDec c (fork_digest (v_genesis c) gvr) (fork_digest (v_altair c) gvr) (fork_digest (v_bellatrix c) gvr)
          (fork_digest (v_capella c) gvr) (fork_digest (v_deneb c) gvr) (fork_digest (v_electra c) gvr)
          (fork_digest (v_fulu c) gvr).
  Definition digest_of (d : decoder) (f : fork) : bytes :=
    match f with
    | Phase0 => d_genesis d | Altair => d_altair d | Bellatrix => d_bellatrix d | Capella => d_capella d
    | Deneb => d_deneb d | Electra => d_electra d | Fulu => d_fulu d
    end.
  (* ForkDecoder.ForkDigest(epoch) *)
  Definition decoder_fork_digest (d : decoder) (epoch : N) : bytes :=
    let c := d_cfg d in
    if epoch <? e_altair c then d_genesis d
    else if epoch <? e_bellatrix c then d_altair d
    else if epoch <? e_capella c then d_bellatrix d
    else if epoch <? e_deneb c then d_capella d
    else if epoch <? e_electra c then d_deneb d
    else if epoch <? e_fulu c then d_electra d
    else d_fulu d.
  (* ForkDecoder.BlockAllocator(digest): a Go `switch` over the digest fields, first match wins; there is
     no Fulu case (the repository has no Fulu block type): Err = "unrecognized fork digest". The result is
     the fork whose SignedBeaconBlock type the returned allocator creates. *)
  Definition block_allocator (d : decoder) (digest : bytes) : outcome fork :=
    if bytes_eqb digest (d_genesis d) then Ok Phase0
    else if bytes_eqb digest (d_altair d) then Ok Altair
    else if bytes_eqb digest (d_bellatrix d) then Ok Bellatrix
    else if bytes_eqb digest (d_capella d) then Ok Capella
    else if bytes_eqb digest (d_deneb d) then Ok Deneb
    else if bytes_eqb digest (d_electra d) then Ok Electra
    else Err.
  (* the digests of the six forks that have a block type are pairwise distinct (a decidable condition on a
     concrete configuration and genesis_validators_root; NOT derivable from distinct versions without
     collision resistance of H, which is not assumed) *)
  Definition digests_distinct_b (c : fork_cfg) (gvr : bytes) : bool :=
    (fix nodup (l : list bytes) : bool :=
       match l with [] => true | x :: l' => negb (existsb (bytes_eqb x) l') && nodup l' end)
      (map (fun f => fork_digest (version_of c f) gvr) [Phase0; Altair; Bellatrix; Capella; Deneb; Electra]).
End Hashed.

(* The same table keyed by the version instead of its digest (what the lookup theorem can be stated over
   without any assumption on the hash). *)
Definition allocator_by_version (c : fork_cfg) (version : N) : outcome fork :=
  if version =? v_genesis c then Ok Phase0
  else if version =? v_altair c then Ok Altair
  else if version =? v_bellatrix c then Ok Bellatrix
  else if version =? v_capella c then Ok Capella
  else if version =? v_deneb c then Ok Deneb
  else if version =? v_electra c then Ok Electra
  else Err.

(* ---- state type and Fork record under UpgradeMaybe / ProcessSlots ---- *)
Record fork_record := mkFork { fr_prev : N; fr_cur : N; fr_epoch : N }.
(* what the lookups can see of a beacon state: its Go type, its Fork field, its slot *)
Record fstate := mkSt { st_type : fork; st_fork : fork_record; st_slot : N }.

(* GenesisFromEth1 / KickStartState *)
Definition genesis_state (c : fork_cfg) : fstate :=
  mkSt Phase0 (mkFork (v_genesis c) (v_genesis c) 0) 0.

(* altair.UpgradeToAltair ... deneb.UpgradeToDeneb: epoch := SlotToEpoch(pre.slot),
   Fork{PreviousVersion: pre.fork.CurrentVersion, CurrentVersion: spec.X_FORK_VERSION, Epoch: epoch} *)
Definition upgrade_to (c : fork_cfg) (f : fork) (pre : fstate) : fstate :=
  mkSt f (mkFork (fr_cur (st_fork pre)) (version_of c f) (slot_to_epoch c (st_slot pre))) (st_slot pre).

(* the fork trigger of the pinned snapshot: slot == Slot(X_FORK_EPOCH) * SLOTS_PER_EPOCH  (uint64, wraps) *)
Definition at_boundary_orig (c : fork_cfg) (slot fork_epoch : N) : bool :=
  slot =? mul64 fork_epoch (c_spe c).
(* after fixes/C14-upgrade-boundary.diff: slot%SLOTS_PER_EPOCH == 0 && SlotToEpoch(slot) == X_FORK_EPOCH *)
Definition at_boundary (c : fork_cfg) (slot fork_epoch : N) : bool :=
  (slot mod c_spe c =? 0) && (slot_to_epoch c slot =? fork_epoch).

Section Upgrade.
  Variable atb : fork_cfg -> N -> N -> bool.
  (* one `if tpre, ok := s.BeaconState.(pre-fork state view); ok && <trigger>` block *)
  Definition upgrade_if (c : fork_cfg) (pre_type post_type : fork) (s : fstate) : fstate :=
    if fork_eqb (st_type s) pre_type && atb c (st_slot s) (epoch_of c post_type)
    then upgrade_to c post_type s else s.
  (* StandardUpgradeableBeaconState.UpgradeMaybe: five blocks in sequence; the last one calls
     electra.UpgradeToElectra, which returns "not supported" *)
  Definition upgrade_maybe_gen (c : fork_cfg) (s : fstate) : outcome fstate :=
    let s := upgrade_if c Phase0 Altair s in
    let s := upgrade_if c Altair Bellatrix s in
    let s := upgrade_if c Bellatrix Capella s in
    let s := upgrade_if c Capella Deneb s in
    if fork_eqb (st_type s) Deneb && atb c (st_slot s) (e_electra c) then Err else Ok s.

  (* the loop of common.ProcessSlots, projected on (type, fork, slot): slot += 1; UpgradeMaybe.
     (ProcessSlot/ProcessEpoch/RotateEpochs do not write these three.) fuel = number of slots to go. *)
  Fixpoint process_slots_loop (c : fork_cfg) (fuel : nat) (s : fstate) : outcome fstate :=
    match fuel with
    | O => Ok s
    | S k =>
        match upgrade_maybe_gen c (mkSt (st_type s) (st_fork s) (st_slot s + 1)) with
        | Ok s' => process_slots_loop c k s'
        | e => e
        end
    end.
  (* common.ProcessSlots(state, target): error unless state.slot < target *)
  Definition process_slots_gen (c : fork_cfg) (s : fstate) (target : N) : outcome fstate :=
    if target <=? st_slot s then Err
    else process_slots_loop c (N.to_nat (target - st_slot s)) s.
End Upgrade.

Definition upgrade_maybe := upgrade_maybe_gen at_boundary.
Definition process_slots := process_slots_gen at_boundary.
Definition upgrade_maybe_orig := upgrade_maybe_gen at_boundary_orig.
Definition process_slots_orig := process_slots_gen at_boundary_orig.

(* ---- signed blocks and their fork-agnostic envelope ---- *)
Section Blocks.
  Variable H : bytes -> bytes.
  Variable Body : Type.                       (* contents of a fork's BeaconBlockBody; opaque here *)
  Variable body_root : fork -> Body -> bytes. (* BeaconBlockBody.HashTreeRoot of that fork's body type *)

  (* <fork>.SignedBeaconBlock{Message: BeaconBlock{Slot, ProposerIndex, ParentRoot, StateRoot, Body}, Signature} *)
  Record signed_block := mkBlock {
    sb_fork : fork; sb_slot : N; sb_proposer : N; sb_parent : bytes; sb_state : bytes;
    sb_body : Body; sb_sig : bytes }.
  (* common.BeaconBlockEnvelope; the dynamic type of Body is the pair's first component *)
  Record envelope := mkEnv {
    env_digest : bytes;
    env_slot : N; env_proposer : N; env_parent : bytes; env_state : bytes; env_body_root : bytes;
    env_body_fork : fork; env_body : Body;
    env_root : bytes; env_sig : bytes }.

  (* BeaconBlock.HashTreeRoot (five fields; the body enters through its own root) *)
  Definition block_root (b : signed_block) : bytes :=
    header_root H (sb_slot b) (sb_proposer b) (sb_parent b) (sb_state b) (body_root (sb_fork b) (sb_body b)).

  (* (b *SignedBeaconBlock).Envelope(spec, digest): header := b.Message.Header(spec); the same text in all six packages *)
  Definition envelope_of (b : signed_block) (digest : bytes) : envelope :=
    let br := body_root (sb_fork b) (sb_body b) in
    mkEnv digest (sb_slot b) (sb_proposer b) (sb_parent b) (sb_state b) br
          (sb_fork b) (sb_body b)
          (header_root H (sb_slot b) (sb_proposer b) (sb_parent b) (sb_state b) br)
          (sb_sig b).

  (* beacon.EnvelopeToSignedBeaconBlock: type switch on the body, six cases, default = error *)
  Definition envelope_to_signed_block (e : envelope) : outcome signed_block :=
    match env_body_fork e with
    | Fulu => Err
    | f => Ok (mkBlock f (env_slot e) (env_proposer e) (env_parent e) (env_state e) (env_body e) (env_sig e))
    end.

  (* ---- signature check through the envelope ---- *)
  Variable bls_verify : bytes -> bytes -> bytes -> bool.  (* pubkey, message, signature; false when either does not parse *)

  (* BeaconBlockEnvelope.VerifySignatureVersioned *)
  Definition verify_signature_versioned (e : envelope) (version : N) (gvr : bytes) (proposer : N) (pk : bytes) : bool :=
    if negb (env_proposer e =? proposer) then false
    else if negb (bytes_eqb (firstn 4 (fork_data_root H version gvr)) (env_digest e)) then false
    else bls_verify pk (signing_root H (env_root e) (compute_domain H DOMAIN_BEACON_PROPOSER version gvr)) (env_sig e).
  (* BeaconBlockEnvelope.VerifySignature: version := spec.ForkVersion(b.Slot) *)
  Definition verify_signature (c : fork_cfg) (e : envelope) (gvr : bytes) (proposer : N) (pk : bytes) : bool :=
    verify_signature_versioned e (fork_version c (env_slot e)) gvr proposer pk.
  Definition verify_signature_orig (c : fork_cfg) (e : envelope) (gvr : bytes) (proposer : N) (pk : bytes) : bool :=
    verify_signature_versioned e (fork_version_orig c (env_slot e)) gvr proposer pk.
End Blocks.

(* ================= Spec ================= *)

(* consensus-specs compute_fork_version (fulu/fork.md), descending:
     if epoch >= FULU_FORK_EPOCH: return FULU_FORK_VERSION ... return GENESIS_FORK_VERSION *)
Definition compute_fork_version (c : fork_cfg) (epoch : N) : N :=
  if e_fulu c <=? epoch then v_fulu c
  else if e_electra c <=? epoch then v_electra c
  else if e_deneb c <=? epoch then v_deneb c
  else if e_capella c <=? epoch then v_capella c
  else if e_bellatrix c <=? epoch then v_bellatrix c
  else if e_altair c <=? epoch then v_altair c
  else v_genesis c.
(* the fork that compute_fork_version names *)
Definition spec_fork_at_epoch (c : fork_cfg) (epoch : N) : fork :=
  if e_fulu c <=? epoch then Fulu
  else if e_electra c <=? epoch then Electra
  else if e_deneb c <=? epoch then Deneb
  else if e_capella c <=? epoch then Capella
  else if e_bellatrix c <=? epoch then Bellatrix
  else if e_altair c <=? epoch then Altair
  else Phase0.

(* spec upgrade_to_X: fork=Fork(previous_version=pre.fork.current_version, current_version=X_FORK_VERSION,
   epoch=get_current_epoch(pre)) *)
Definition spec_upgrade_to (c : fork_cfg) (f : fork) (pre : fstate) : fstate :=
  mkSt f (mkFork (fr_cur (st_fork pre)) (version_of c f) (st_slot pre / c_spe c)) (st_slot pre).
(* fork.md of each fork: the upgrade is applied when
   state.slot % SLOTS_PER_EPOCH == 0 and compute_epoch_at_slot(state.slot) == X_FORK_EPOCH,
   to a state of the preceding fork; forks scheduled at the same epoch are applied in order. *)
Definition spec_trigger (c : fork_cfg) (f : fork) (s : fstate) : bool :=
  fork_eqb (st_type s) (pred_fork f) && (st_slot s mod c_spe c =? 0) && (st_slot s / c_spe c =? epoch_of c f).
Definition spec_upgrades (c : fork_cfg) (s : fstate) : fstate :=
  fold_left (fun s f => if spec_trigger c f s then spec_upgrade_to c f s else s)
            [Altair; Bellatrix; Capella; Deneb; Electra; Fulu] s.
Fixpoint spec_process_slots_loop (c : fork_cfg) (fuel : nat) (s : fstate) : fstate :=
  match fuel with
  | O => s
  | S k => spec_process_slots_loop c k (spec_upgrades c (mkSt (st_type s) (st_fork s) (st_slot s + 1)))
  end.
Definition spec_process_slots (c : fork_cfg) (s : fstate) (target : N) : option fstate :=
  if target <=? st_slot s then None   (* assert state.slot < slot *)
  else Some (spec_process_slots_loop c (N.to_nat (target - st_slot s)) s).

(* closed form of the Fork record of a chain that started at a phase0 genesis and is now in `epoch` *)
Definition spec_fork_record (c : fork_cfg) (epoch : N) : fork_record :=
  match spec_fork_at_epoch c epoch with
  | Phase0 => mkFork (v_genesis c) (v_genesis c) 0
  | f => mkFork (version_of c (pred_fork f)) (version_of c f) (epoch_of c f)
  end.
