(* C14: the preset and configuration constants the consensus specification publishes
   (ethereum/consensus-specs, presets/{mainnet,minimal}/{phase0,altair,bellatrix,capella,deneb,electra}.yaml
   and configs/{mainnet,minimal}.yaml, at the release the repository vendors: v1.5.0-beta.3 era, i.e.
   MAX_PAYLOAD_SIZE already renamed, ELECTRA_FORK_EPOCH on mainnet still unscheduled).

   HAND-PINNED ORACLE: typed from the published files as I know them, NOT generated from /repo.  The
   translator tools/cfg2coq regenerates the same tables from /repo's YAML files and Go `const` blocks on
   every run (gen/GenConfig.v) and `table_diff gen pinned = []` is re-checked by vm_compute; the harness
   dumps configs.Mainnet / configs.Minimal after YAML decoding and compares every struct field with these
   tables as well.  design/C14.md lists the entries I could not recall independently. *)
From Coq Require Import String Ascii NArith List Bool.
Import ListNotations.
Local Open Scope string_scope.
Local Open Scope N_scope.

Inductive cval := CN (n : N) | CHex (b : list N) | CStr (s : string).
Definition table := list (string * cval).

(* "0a1B" -> [10; 27]; a malformed digit yields 256 (never equal to a byte) *)
Definition hexdigit (a : ascii) : N :=
  let n := N_of_ascii a in
  if (48 <=? n) && (n <=? 57) then n - 48
  else if (97 <=? n) && (n <=? 102) then n - 87
  else if (65 <=? n) && (n <=? 70) then n - 55
  else 256.
Fixpoint hexbytes (s : string) : list N :=
  match s with
  | String a (String b rest) => (if (hexdigit a <? 16) && (hexdigit b <? 16) then 16 * hexdigit a + hexdigit b else 256) :: hexbytes rest
  | String _ EmptyString => [256]
  | EmptyString => []
  end.
Definition hex (s : string) : cval := CHex (hexbytes s).

Fixpoint list_N_eqb (a b : list N) : bool :=
  match a, b with
  | [], [] => true
  | x :: a', y :: b' => (x =? y) && list_N_eqb a' b'
  | _, _ => false
  end.
Definition cval_eqb (a b : cval) : bool :=
  match a, b with
  | CN x, CN y => x =? y
  | CHex x, CHex y => list_N_eqb x y
  | CStr x, CStr y => String.eqb x y
  | _, _ => false
  end.
Fixpoint lookup (k : string) (t : table) : option cval :=
  match t with
  | [] => None
  | (k', v) :: t' => if String.eqb k k' then Some v else lookup k t'
  end.
Definition opt_cval_eqb (a b : option cval) : bool :=
  match a, b with
  | Some x, Some y => cval_eqb x y
  | None, None => true
  | _, _ => false
  end.
(* every key of either table with the two values, when they are not the same *)
Definition table_diff (a b : table) : list (string * option cval * option cval) :=
  flat_map (fun kv => if opt_cval_eqb (Some (snd kv)) (lookup (fst kv) b) then []
                      else [(fst kv, Some (snd kv), lookup (fst kv) b)]) a ++
  flat_map (fun kv => match lookup (fst kv) a with
                      | None => [(fst kv, None, Some (snd kv))]
                      | Some _ => []
                      end) b.

(* ================= presets ================= *)
Definition mainnet_phase0 : table := [
  ("MAX_COMMITTEES_PER_SLOT", CN 64); ("TARGET_COMMITTEE_SIZE", CN 128);
  ("MAX_VALIDATORS_PER_COMMITTEE", CN 2048); ("SHUFFLE_ROUND_COUNT", CN 90);
  ("HYSTERESIS_QUOTIENT", CN 4); ("HYSTERESIS_DOWNWARD_MULTIPLIER", CN 1); ("HYSTERESIS_UPWARD_MULTIPLIER", CN 5);
  ("MIN_DEPOSIT_AMOUNT", CN 1000000000); ("MAX_EFFECTIVE_BALANCE", CN 32000000000);
  ("EFFECTIVE_BALANCE_INCREMENT", CN 1000000000);
  ("MIN_ATTESTATION_INCLUSION_DELAY", CN 1); ("SLOTS_PER_EPOCH", CN 32); ("MIN_SEED_LOOKAHEAD", CN 1);
  ("MAX_SEED_LOOKAHEAD", CN 4); ("EPOCHS_PER_ETH1_VOTING_PERIOD", CN 64); ("SLOTS_PER_HISTORICAL_ROOT", CN 8192);
  ("MIN_EPOCHS_TO_INACTIVITY_PENALTY", CN 4);
  ("EPOCHS_PER_HISTORICAL_VECTOR", CN 65536); ("EPOCHS_PER_SLASHINGS_VECTOR", CN 8192);
  ("HISTORICAL_ROOTS_LIMIT", CN 16777216); ("VALIDATOR_REGISTRY_LIMIT", CN 1099511627776);
  ("BASE_REWARD_FACTOR", CN 64); ("WHISTLEBLOWER_REWARD_QUOTIENT", CN 512); ("PROPOSER_REWARD_QUOTIENT", CN 8);
  ("INACTIVITY_PENALTY_QUOTIENT", CN 67108864); ("MIN_SLASHING_PENALTY_QUOTIENT", CN 128);
  ("PROPORTIONAL_SLASHING_MULTIPLIER", CN 1);
  ("MAX_PROPOSER_SLASHINGS", CN 16); ("MAX_ATTESTER_SLASHINGS", CN 2); ("MAX_ATTESTATIONS", CN 128);
  ("MAX_DEPOSITS", CN 16); ("MAX_VOLUNTARY_EXITS", CN 16) ].

Definition minimal_phase0 : table := [
  ("MAX_COMMITTEES_PER_SLOT", CN 4); ("TARGET_COMMITTEE_SIZE", CN 4);
  ("MAX_VALIDATORS_PER_COMMITTEE", CN 2048); ("SHUFFLE_ROUND_COUNT", CN 10);
  ("HYSTERESIS_QUOTIENT", CN 4); ("HYSTERESIS_DOWNWARD_MULTIPLIER", CN 1); ("HYSTERESIS_UPWARD_MULTIPLIER", CN 5);
  ("MIN_DEPOSIT_AMOUNT", CN 1000000000); ("MAX_EFFECTIVE_BALANCE", CN 32000000000);
  ("EFFECTIVE_BALANCE_INCREMENT", CN 1000000000);
  ("MIN_ATTESTATION_INCLUSION_DELAY", CN 1); ("SLOTS_PER_EPOCH", CN 8); ("MIN_SEED_LOOKAHEAD", CN 1);
  ("MAX_SEED_LOOKAHEAD", CN 4); ("EPOCHS_PER_ETH1_VOTING_PERIOD", CN 4); ("SLOTS_PER_HISTORICAL_ROOT", CN 64);
  ("MIN_EPOCHS_TO_INACTIVITY_PENALTY", CN 4);
  ("EPOCHS_PER_HISTORICAL_VECTOR", CN 64); ("EPOCHS_PER_SLASHINGS_VECTOR", CN 64);
  ("HISTORICAL_ROOTS_LIMIT", CN 16777216); ("VALIDATOR_REGISTRY_LIMIT", CN 1099511627776);
  ("BASE_REWARD_FACTOR", CN 64); ("WHISTLEBLOWER_REWARD_QUOTIENT", CN 512); ("PROPOSER_REWARD_QUOTIENT", CN 8);
  ("INACTIVITY_PENALTY_QUOTIENT", CN 33554432); ("MIN_SLASHING_PENALTY_QUOTIENT", CN 64);
  ("PROPORTIONAL_SLASHING_MULTIPLIER", CN 2);
  ("MAX_PROPOSER_SLASHINGS", CN 16); ("MAX_ATTESTER_SLASHINGS", CN 2); ("MAX_ATTESTATIONS", CN 128);
  ("MAX_DEPOSITS", CN 16); ("MAX_VOLUNTARY_EXITS", CN 16) ].

Definition mainnet_altair : table := [
  ("INACTIVITY_PENALTY_QUOTIENT_ALTAIR", CN 50331648); ("MIN_SLASHING_PENALTY_QUOTIENT_ALTAIR", CN 64);
  ("PROPORTIONAL_SLASHING_MULTIPLIER_ALTAIR", CN 2);
  ("SYNC_COMMITTEE_SIZE", CN 512); ("EPOCHS_PER_SYNC_COMMITTEE_PERIOD", CN 256);
  ("MIN_SYNC_COMMITTEE_PARTICIPANTS", CN 1); ("UPDATE_TIMEOUT", CN 8192) ].
Definition minimal_altair : table := [
  ("INACTIVITY_PENALTY_QUOTIENT_ALTAIR", CN 50331648); ("MIN_SLASHING_PENALTY_QUOTIENT_ALTAIR", CN 64);
  ("PROPORTIONAL_SLASHING_MULTIPLIER_ALTAIR", CN 2);
  ("SYNC_COMMITTEE_SIZE", CN 32); ("EPOCHS_PER_SYNC_COMMITTEE_PERIOD", CN 8);
  ("MIN_SYNC_COMMITTEE_PARTICIPANTS", CN 1); ("UPDATE_TIMEOUT", CN 64) ].

Definition mainnet_bellatrix : table := [
  ("INACTIVITY_PENALTY_QUOTIENT_BELLATRIX", CN 16777216); ("MIN_SLASHING_PENALTY_QUOTIENT_BELLATRIX", CN 32);
  ("PROPORTIONAL_SLASHING_MULTIPLIER_BELLATRIX", CN 3);
  ("MAX_BYTES_PER_TRANSACTION", CN 1073741824); ("MAX_TRANSACTIONS_PER_PAYLOAD", CN 1048576);
  ("BYTES_PER_LOGS_BLOOM", CN 256); ("MAX_EXTRA_DATA_BYTES", CN 32) ].
Definition minimal_bellatrix : table := mainnet_bellatrix.

Definition mainnet_capella : table := [
  ("MAX_BLS_TO_EXECUTION_CHANGES", CN 16); ("MAX_WITHDRAWALS_PER_PAYLOAD", CN 16);
  ("MAX_VALIDATORS_PER_WITHDRAWALS_SWEEP", CN 16384) ].
Definition minimal_capella : table := [
  ("MAX_BLS_TO_EXECUTION_CHANGES", CN 16); ("MAX_WITHDRAWALS_PER_PAYLOAD", CN 4);
  ("MAX_VALIDATORS_PER_WITHDRAWALS_SWEEP", CN 16) ].

Definition mainnet_deneb : table := [
  ("FIELD_ELEMENTS_PER_BLOB", CN 4096); ("MAX_BLOB_COMMITMENTS_PER_BLOCK", CN 4096);
  ("KZG_COMMITMENT_INCLUSION_PROOF_DEPTH", CN 17) ].
Definition minimal_deneb : table := [
  ("FIELD_ELEMENTS_PER_BLOB", CN 4096); ("MAX_BLOB_COMMITMENTS_PER_BLOCK", CN 32);
  ("KZG_COMMITMENT_INCLUSION_PROOF_DEPTH", CN 10) ].

Definition mainnet_electra : table := [
  ("MIN_ACTIVATION_BALANCE", CN 32000000000); ("MAX_EFFECTIVE_BALANCE_ELECTRA", CN 2048000000000);
  ("PENDING_DEPOSITS_LIMIT", CN 134217728); ("PENDING_PARTIAL_WITHDRAWALS_LIMIT", CN 134217728);
  ("PENDING_CONSOLIDATIONS_LIMIT", CN 262144);
  ("MIN_SLASHING_PENALTY_QUOTIENT_ELECTRA", CN 4096); ("WHISTLEBLOWER_REWARD_QUOTIENT_ELECTRA", CN 4096);
  ("MAX_ATTESTER_SLASHINGS_ELECTRA", CN 1); ("MAX_ATTESTATIONS_ELECTRA", CN 8);
  ("MAX_CONSOLIDATION_REQUESTS_PER_PAYLOAD", CN 2);
  ("MAX_DEPOSIT_REQUESTS_PER_PAYLOAD", CN 8192); ("MAX_WITHDRAWAL_REQUESTS_PER_PAYLOAD", CN 16);
  ("MAX_PENDING_PARTIALS_PER_WITHDRAWALS_SWEEP", CN 8); ("MAX_PENDING_DEPOSITS_PER_EPOCH", CN 16) ].
Definition minimal_electra : table := [
  ("MIN_ACTIVATION_BALANCE", CN 32000000000); ("MAX_EFFECTIVE_BALANCE_ELECTRA", CN 2048000000000);
  ("PENDING_DEPOSITS_LIMIT", CN 134217728); ("PENDING_PARTIAL_WITHDRAWALS_LIMIT", CN 64);
  ("PENDING_CONSOLIDATIONS_LIMIT", CN 64);
  ("MIN_SLASHING_PENALTY_QUOTIENT_ELECTRA", CN 4096); ("WHISTLEBLOWER_REWARD_QUOTIENT_ELECTRA", CN 4096);
  ("MAX_ATTESTER_SLASHINGS_ELECTRA", CN 1); ("MAX_ATTESTATIONS_ELECTRA", CN 8);
  ("MAX_CONSOLIDATION_REQUESTS_PER_PAYLOAD", CN 2);
  ("MAX_DEPOSIT_REQUESTS_PER_PAYLOAD", CN 4); ("MAX_WITHDRAWAL_REQUESTS_PER_PAYLOAD", CN 2);
  ("MAX_PENDING_PARTIALS_PER_WITHDRAWALS_SWEEP", CN 2); ("MAX_PENDING_DEPOSITS_PER_EPOCH", CN 16) ].

(* ================= configs ================= *)
Definition FAR_FUTURE : cval := CN 18446744073709551615.

Definition mainnet_config : table := [
  ("PRESET_BASE", CStr "mainnet"); ("CONFIG_NAME", CStr "mainnet");
  ("TERMINAL_TOTAL_DIFFICULTY", CN 58750000000000000000000);
  ("TERMINAL_BLOCK_HASH", hex "0000000000000000000000000000000000000000000000000000000000000000");
  ("TERMINAL_BLOCK_HASH_ACTIVATION_EPOCH", FAR_FUTURE);
  ("MIN_GENESIS_ACTIVE_VALIDATOR_COUNT", CN 16384); ("MIN_GENESIS_TIME", CN 1606824000);
  ("GENESIS_FORK_VERSION", hex "00000000"); ("GENESIS_DELAY", CN 604800);
  ("ALTAIR_FORK_VERSION", hex "01000000"); ("ALTAIR_FORK_EPOCH", CN 74240);
  ("BELLATRIX_FORK_VERSION", hex "02000000"); ("BELLATRIX_FORK_EPOCH", CN 144896);
  ("CAPELLA_FORK_VERSION", hex "03000000"); ("CAPELLA_FORK_EPOCH", CN 194048);
  ("DENEB_FORK_VERSION", hex "04000000"); ("DENEB_FORK_EPOCH", CN 269568);
  ("ELECTRA_FORK_VERSION", hex "05000000"); ("ELECTRA_FORK_EPOCH", FAR_FUTURE);
  ("FULU_FORK_VERSION", hex "06000000"); ("FULU_FORK_EPOCH", FAR_FUTURE);
  ("EIP7441_FORK_VERSION", hex "08000000"); ("EIP7441_FORK_EPOCH", FAR_FUTURE);
  ("EIP7732_FORK_VERSION", hex "09000000"); ("EIP7732_FORK_EPOCH", FAR_FUTURE);
  ("SECONDS_PER_SLOT", CN 12); ("SECONDS_PER_ETH1_BLOCK", CN 14);
  ("MIN_VALIDATOR_WITHDRAWABILITY_DELAY", CN 256); ("SHARD_COMMITTEE_PERIOD", CN 256);
  ("ETH1_FOLLOW_DISTANCE", CN 2048);
  ("INACTIVITY_SCORE_BIAS", CN 4); ("INACTIVITY_SCORE_RECOVERY_RATE", CN 16);
  ("EJECTION_BALANCE", CN 16000000000); ("MIN_PER_EPOCH_CHURN_LIMIT", CN 4);
  ("CHURN_LIMIT_QUOTIENT", CN 65536); ("MAX_PER_EPOCH_ACTIVATION_CHURN_LIMIT", CN 8);
  ("PROPOSER_SCORE_BOOST", CN 40); ("REORG_HEAD_WEIGHT_THRESHOLD", CN 20);
  ("REORG_PARENT_WEIGHT_THRESHOLD", CN 160); ("REORG_MAX_EPOCHS_SINCE_FINALIZATION", CN 2);
  ("DEPOSIT_CHAIN_ID", CN 1); ("DEPOSIT_NETWORK_ID", CN 1);
  ("DEPOSIT_CONTRACT_ADDRESS", hex "00000000219ab540356cBB839Cbe05303d7705Fa");
  ("MAX_PAYLOAD_SIZE", CN 10485760); ("MAX_REQUEST_BLOCKS", CN 1024);
  ("EPOCHS_PER_SUBNET_SUBSCRIPTION", CN 256); ("MIN_EPOCHS_FOR_BLOCK_REQUESTS", CN 33024);
  ("TTFB_TIMEOUT", CN 5); ("RESP_TIMEOUT", CN 10); ("ATTESTATION_PROPAGATION_SLOT_RANGE", CN 32);
  ("MAXIMUM_GOSSIP_CLOCK_DISPARITY", CN 500);
  ("MESSAGE_DOMAIN_INVALID_SNAPPY", hex "00000000"); ("MESSAGE_DOMAIN_VALID_SNAPPY", hex "01000000");
  ("SUBNETS_PER_NODE", CN 2); ("ATTESTATION_SUBNET_COUNT", CN 64);
  ("ATTESTATION_SUBNET_EXTRA_BITS", CN 0); ("ATTESTATION_SUBNET_PREFIX_BITS", CN 6);
  ("MAX_REQUEST_BLOCKS_DENEB", CN 128); ("MIN_EPOCHS_FOR_BLOB_SIDECARS_REQUESTS", CN 4096);
  ("BLOB_SIDECAR_SUBNET_COUNT", CN 6); ("MAX_BLOBS_PER_BLOCK", CN 6); ("MAX_REQUEST_BLOB_SIDECARS", CN 768);
  ("MIN_PER_EPOCH_CHURN_LIMIT_ELECTRA", CN 128000000000);
  ("MAX_PER_EPOCH_ACTIVATION_EXIT_CHURN_LIMIT", CN 256000000000);
  ("BLOB_SIDECAR_SUBNET_COUNT_ELECTRA", CN 9); ("MAX_BLOBS_PER_BLOCK_ELECTRA", CN 9);
  ("MAX_REQUEST_BLOB_SIDECARS_ELECTRA", CN 1152);
  ("NUMBER_OF_COLUMNS", CN 128); ("NUMBER_OF_CUSTODY_GROUPS", CN 128);
  ("DATA_COLUMN_SIDECAR_SUBNET_COUNT", CN 128); ("MAX_REQUEST_DATA_COLUMN_SIDECARS", CN 16384);
  ("SAMPLES_PER_SLOT", CN 8); ("CUSTODY_REQUIREMENT", CN 4); ("VALIDATOR_CUSTODY_REQUIREMENT", CN 8);
  ("BALANCE_PER_ADDITIONAL_CUSTODY_GROUP", CN 32000000000); ("MAX_BLOBS_PER_BLOCK_FULU", CN 12);
  ("MIN_EPOCHS_FOR_DATA_COLUMN_SIDECARS_REQUESTS", CN 4096);
  ("EPOCHS_PER_SHUFFLING_PHASE", CN 256); ("PROPOSER_SELECTION_GAP", CN 2);
  ("MAX_REQUEST_PAYLOADS", CN 128) ].

Definition minimal_config : table := [
  ("PRESET_BASE", CStr "minimal"); ("CONFIG_NAME", CStr "minimal");
  (* 2**256 - 2**10 *)
  ("TERMINAL_TOTAL_DIFFICULTY", CN (2 ^ 256 - 2 ^ 10));
  ("TERMINAL_BLOCK_HASH", hex "0000000000000000000000000000000000000000000000000000000000000000");
  ("TERMINAL_BLOCK_HASH_ACTIVATION_EPOCH", FAR_FUTURE);
  ("MIN_GENESIS_ACTIVE_VALIDATOR_COUNT", CN 64); ("MIN_GENESIS_TIME", CN 1578009600);
  ("GENESIS_FORK_VERSION", hex "00000001"); ("GENESIS_DELAY", CN 300);
  ("ALTAIR_FORK_VERSION", hex "01000001"); ("ALTAIR_FORK_EPOCH", FAR_FUTURE);
  ("BELLATRIX_FORK_VERSION", hex "02000001"); ("BELLATRIX_FORK_EPOCH", FAR_FUTURE);
  ("CAPELLA_FORK_VERSION", hex "03000001"); ("CAPELLA_FORK_EPOCH", FAR_FUTURE);
  ("DENEB_FORK_VERSION", hex "04000001"); ("DENEB_FORK_EPOCH", FAR_FUTURE);
  ("ELECTRA_FORK_VERSION", hex "05000001"); ("ELECTRA_FORK_EPOCH", FAR_FUTURE);
  ("FULU_FORK_VERSION", hex "06000001"); ("FULU_FORK_EPOCH", FAR_FUTURE);
  ("EIP7441_FORK_VERSION", hex "08000001"); ("EIP7441_FORK_EPOCH", FAR_FUTURE);
  ("EIP7732_FORK_VERSION", hex "09000001"); ("EIP7732_FORK_EPOCH", FAR_FUTURE);
  ("SECONDS_PER_SLOT", CN 6); ("SECONDS_PER_ETH1_BLOCK", CN 14);
  ("MIN_VALIDATOR_WITHDRAWABILITY_DELAY", CN 256); ("SHARD_COMMITTEE_PERIOD", CN 64);
  ("ETH1_FOLLOW_DISTANCE", CN 16);
  ("INACTIVITY_SCORE_BIAS", CN 4); ("INACTIVITY_SCORE_RECOVERY_RATE", CN 16);
  ("EJECTION_BALANCE", CN 16000000000); ("MIN_PER_EPOCH_CHURN_LIMIT", CN 2);
  ("CHURN_LIMIT_QUOTIENT", CN 32); ("MAX_PER_EPOCH_ACTIVATION_CHURN_LIMIT", CN 4);
  ("PROPOSER_SCORE_BOOST", CN 40); ("REORG_HEAD_WEIGHT_THRESHOLD", CN 20);
  ("REORG_PARENT_WEIGHT_THRESHOLD", CN 160); ("REORG_MAX_EPOCHS_SINCE_FINALIZATION", CN 2);
  ("DEPOSIT_CHAIN_ID", CN 5); ("DEPOSIT_NETWORK_ID", CN 5);
  ("DEPOSIT_CONTRACT_ADDRESS", hex "1234567890123456789012345678901234567890");
  ("MAX_PAYLOAD_SIZE", CN 10485760); ("MAX_REQUEST_BLOCKS", CN 1024);
  ("EPOCHS_PER_SUBNET_SUBSCRIPTION", CN 256); ("MIN_EPOCHS_FOR_BLOCK_REQUESTS", CN 272);
  ("TTFB_TIMEOUT", CN 5); ("RESP_TIMEOUT", CN 10); ("ATTESTATION_PROPAGATION_SLOT_RANGE", CN 32);
  ("MAXIMUM_GOSSIP_CLOCK_DISPARITY", CN 500);
  ("MESSAGE_DOMAIN_INVALID_SNAPPY", hex "00000000"); ("MESSAGE_DOMAIN_VALID_SNAPPY", hex "01000000");
  ("SUBNETS_PER_NODE", CN 2); ("ATTESTATION_SUBNET_COUNT", CN 64);
  ("ATTESTATION_SUBNET_EXTRA_BITS", CN 0); ("ATTESTATION_SUBNET_PREFIX_BITS", CN 6);
  ("MAX_REQUEST_BLOCKS_DENEB", CN 128); ("MIN_EPOCHS_FOR_BLOB_SIDECARS_REQUESTS", CN 4096);
  ("BLOB_SIDECAR_SUBNET_COUNT", CN 6); ("MAX_BLOBS_PER_BLOCK", CN 6); ("MAX_REQUEST_BLOB_SIDECARS", CN 768);
  ("MIN_PER_EPOCH_CHURN_LIMIT_ELECTRA", CN 64000000000);
  ("MAX_PER_EPOCH_ACTIVATION_EXIT_CHURN_LIMIT", CN 128000000000);
  ("BLOB_SIDECAR_SUBNET_COUNT_ELECTRA", CN 9); ("MAX_BLOBS_PER_BLOCK_ELECTRA", CN 9);
  ("MAX_REQUEST_BLOB_SIDECARS_ELECTRA", CN 1152);
  ("NUMBER_OF_COLUMNS", CN 128); ("NUMBER_OF_CUSTODY_GROUPS", CN 128);
  ("DATA_COLUMN_SIDECAR_SUBNET_COUNT", CN 128); ("MAX_REQUEST_DATA_COLUMN_SIDECARS", CN 16384);
  ("SAMPLES_PER_SLOT", CN 8); ("CUSTODY_REQUIREMENT", CN 4); ("VALIDATOR_CUSTODY_REQUIREMENT", CN 8);
  ("BALANCE_PER_ADDITIONAL_CUSTODY_GROUP", CN 32000000000); ("MAX_BLOBS_PER_BLOCK_FULU", CN 12);
  ("MIN_EPOCHS_FOR_DATA_COLUMN_SIDECARS_REQUESTS", CN 4096);
  ("EPOCHS_PER_SHUFFLING_PHASE", CN 4); ("PROPOSER_SELECTION_GAP", CN 1);
  ("MAX_REQUEST_PAYLOADS", CN 128) ].

(* ================= constants written in Go source ================= *)
(* common/spec.go (const + domain-type vars), common/constants.go, altair/participation.go *)
Definition go_constants : table := [
  (* validator.md / p2p-interface.md constants *)
  ("TARGET_AGGREGATORS_PER_COMMITTEE", CN 16); ("RANDOM_SUBNETS_PER_VALIDATOR", CN 1);
  ("EPOCHS_PER_RANDOM_SUBNET_SUBSCRIPTION", CN 256);
  ("BLS_WITHDRAWAL_PREFIX", CN 0); ("ETH1_ADDRESS_WITHDRAWAL_PREFIX", CN 1);
  ("SYNC_COMMITTEE_SUBNET_COUNT", CN 4); ("TARGET_AGGREGATORS_PER_SYNC_SUBCOMMITTEE", CN 16);
  (* domain types *)
  ("DOMAIN_BEACON_PROPOSER", hex "00000000"); ("DOMAIN_BEACON_ATTESTER", hex "01000000");
  ("DOMAIN_RANDAO", hex "02000000"); ("DOMAIN_DEPOSIT", hex "03000000");
  ("DOMAIN_VOLUNTARY_EXIT", hex "04000000"); ("DOMAIN_SELECTION_PROOF", hex "05000000");
  ("DOMAIN_AGGREGATE_AND_PROOF", hex "06000000");
  ("DOMAIN_SYNC_COMMITTEE", hex "07000000"); ("DOMAIN_SYNC_COMMITTEE_SELECTION_PROOF", hex "08000000");
  ("DOMAIN_CONTRIBUTION_AND_PROOF", hex "09000000");
  ("DOMAIN_BLS_TO_EXECUTION_CHANGE", hex "0A000000");
  (* deneb *)
  ("BLOB_TX_TYPE", CN 3); ("VERSIONED_HASH_VERSION_KZG", CN 1);
  (* constants.go *)
  ("FAR_FUTURE_EPOCH", CN 18446744073709551615); ("BASE_REWARDS_PER_EPOCH", CN 4);
  ("DEPOSIT_CONTRACT_TREE_DEPTH", CN 32); ("SECONDS_PER_DAY", CN 86400);
  ("GENESIS_SLOT", CN 0); ("GENESIS_EPOCH", CN 0); ("JUSTIFICATION_BITS_LENGTH", CN 4);
  (* altair participation flags and incentivization weights *)
  ("TIMELY_SOURCE_FLAG_INDEX", CN 0); ("TIMELY_TARGET_FLAG_INDEX", CN 1); ("TIMELY_HEAD_FLAG_INDEX", CN 2);
  ("TIMELY_SOURCE_FLAG", CN 1); ("TIMELY_TARGET_FLAG", CN 2); ("TIMELY_HEAD_FLAG", CN 4);
  ("TIMELY_SOURCE_WEIGHT", CN 14); ("TIMELY_TARGET_WEIGHT", CN 26); ("TIMELY_HEAD_WEIGHT", CN 14);
  ("SYNC_REWARD_WEIGHT", CN 2); ("PROPOSER_WEIGHT", CN 8); ("WEIGHT_DENOMINATOR", CN 64) ].

(* keys of the published preset files that zrnt's structs have no field for (light-client only) *)
Definition not_in_struct : list string := ["UPDATE_TIMEOUT"].

(* all pinned tables by (network, section) as the harness names them *)
Definition pinned (net section : string) : option table :=
  if String.eqb net "mainnet" then
    if String.eqb section "Phase0Preset" then Some mainnet_phase0
    else if String.eqb section "AltairPreset" then Some mainnet_altair
    else if String.eqb section "BellatrixPreset" then Some mainnet_bellatrix
    else if String.eqb section "CapellaPreset" then Some mainnet_capella
    else if String.eqb section "DenebPreset" then Some mainnet_deneb
    else if String.eqb section "ElectraPreset" then Some mainnet_electra
    else if String.eqb section "Config" then Some mainnet_config
    else None
  else if String.eqb net "minimal" then
    if String.eqb section "Phase0Preset" then Some minimal_phase0
    else if String.eqb section "AltairPreset" then Some minimal_altair
    else if String.eqb section "BellatrixPreset" then Some minimal_bellatrix
    else if String.eqb section "CapellaPreset" then Some minimal_capella
    else if String.eqb section "DenebPreset" then Some minimal_deneb
    else if String.eqb section "ElectraPreset" then Some minimal_electra
    else if String.eqb section "Config" then Some minimal_config
    else None
  else if String.eqb net "go" then
    if String.eqb section "constants" then Some go_constants else None
  else None.

(* ---------- the comparison is sound: an empty diff means equal lookups for every key ---------- *)
Lemma list_N_eqb_eq a b : list_N_eqb a b = true -> a = b.
Proof.
  revert b. induction a as [|x a IH]; destruct b as [|y b]; cbn; try discriminate; try reflexivity.
  intros Hb. apply andb_true_iff in Hb. destruct Hb as [H1 H2].
  apply N.eqb_eq in H1. subst. f_equal. apply IH. exact H2.
Qed.
Lemma cval_eqb_eq a b : cval_eqb a b = true -> a = b.
Proof.
  destruct a, b; cbn; try discriminate; intros Hx.
  - apply N.eqb_eq in Hx. subst. reflexivity.
  - apply list_N_eqb_eq in Hx. subst. reflexivity.
  - apply String.eqb_eq in Hx. subst. reflexivity.
Qed.
Lemma lookup_in k v t : lookup k t = Some v -> In (k, v) t.
Proof.
  induction t as [|[k' v'] t IH]; cbn; [discriminate|].
  destruct (String.eqb_spec k k') as [->|Hne].
  - intros Hx. inversion Hx. subst. left. reflexivity.
  - intros Hx. right. apply IH. exact Hx.
Qed.
Theorem table_diff_sound a b : table_diff a b = [] -> forall k, lookup k a = lookup k b.
Proof.
  unfold table_diff. intros Hd k. apply app_eq_nil in Hd. destruct Hd as [Ha Hb].
  destruct (lookup k a) as [v|] eqn:Hka.
  - apply lookup_in in Hka.
    assert (Hall : forall kv, In kv a -> opt_cval_eqb (Some (snd kv)) (lookup (fst kv) b) = true).
    { intros kv Hin. destruct (opt_cval_eqb (Some (snd kv)) (lookup (fst kv) b)) eqn:E; [reflexivity|].
      exfalso. assert (Hin' : In (fst kv, Some (snd kv), lookup (fst kv) b)
                                 (flat_map (fun kv => if opt_cval_eqb (Some (snd kv)) (lookup (fst kv) b) then []
                                                      else [(fst kv, Some (snd kv), lookup (fst kv) b)]) a)).
      { apply in_flat_map. exists kv. split; [exact Hin|]. rewrite E. left. reflexivity. }
      rewrite Ha in Hin'. exact Hin'. }
    specialize (Hall (k, v) Hka). cbn in Hall.
    destruct (lookup k b) as [w|]; cbn in Hall; [|discriminate].
    apply cval_eqb_eq in Hall. subst. reflexivity.
  - destruct (lookup k b) as [w|] eqn:Hkb; [|reflexivity].
    apply lookup_in in Hkb. exfalso.
    assert (Hin' : In (k, @None cval, Some w)
                      (flat_map (fun kv : string * cval => match lookup (fst kv) a with
                                           | None => [(fst kv, @None cval, Some (snd kv))]
                                           | Some _ => [] end) b)).
    { apply in_flat_map. exists (k, w). split; [exact Hkb|]. cbn. rewrite Hka. left. reflexivity. }
    rewrite Hb in Hin'. exact Hin'.
Qed.
