(* C14: the field-copy shape that every fork's Envelope(), Header() and EnvelopeToSignedBeaconBlock case must
   have for Config/ForkSchedule.v's `envelope_of` / `envelope_to_signed_block` to be their model:
   each target field is written from exactly the like-named source field.  tools/cfg2coq re-extracts the
   composite literals from the Go source on every run (gen/GenFork.v) and the obligation
   `gen_*_fields = expected_*_fields` is re-checked; a dropped, swapped or misdirected field changes the
   extracted table.  (The harness additionally runs the real functions on blocks of every fork.) *)
From Coq Require Import String List.
Import ListNotations.
Local Open Scope string_scope.

Definition block_forks : list string := ["phase0"; "altair"; "bellatrix"; "capella"; "deneb"; "electra"].

(* &common.BeaconBlockEnvelope{...} in (b *SignedBeaconBlock).Envelope(spec, digest), after header := b.Message.Header(spec) *)
Definition envelope_shape : list (string * string) :=
  [("ForkDigest", "digest"); ("BeaconBlockHeader", "*header"); ("Body", "&b.Message.Body");
   ("BlockRoot", "header.HashTreeRoot(tree.GetHashFn())"); ("Signature", "b.Signature")].
(* &common.BeaconBlockHeader{...} in (block *BeaconBlock).Header(spec) *)
Definition header_shape : list (string * string) :=
  [("Slot", "block.Slot"); ("ProposerIndex", "block.ProposerIndex"); ("ParentRoot", "block.ParentRoot");
   ("StateRoot", "block.StateRoot"); ("BodyRoot", "block.Body.HashTreeRoot(spec, tree.GetHashFn())")].
(* &<fork>.SignedBeaconBlock{Message: <fork>.BeaconBlock{...}, Signature: ...} in the case for *<fork>.BeaconBlockBody *)
Definition from_envelope_shape : list (string * string) :=
  [("Message.Slot", "benv.Slot"); ("Message.ProposerIndex", "benv.ProposerIndex");
   ("Message.ParentRoot", "benv.ParentRoot"); ("Message.StateRoot", "benv.StateRoot");
   ("Message.Body", "*x"); ("Signature", "benv.Signature")].

Definition expected_envelope_fields : list (string * list (string * string)) :=
  map (fun f => (f, envelope_shape)) block_forks.
Definition expected_header_fields : list (string * list (string * string)) :=
  map (fun f => (f, header_shape)) block_forks.
Definition expected_from_envelope_fields : list (string * list (string * string)) :=
  map (fun f => (f, from_envelope_shape)) block_forks ++ [("default", [("error", "true")])].
