(* C14 correspondence: evaluate Impl and Spec on the cases the Go harness ran (harness/cmd/c14).
   impl_ok : Go's observed result = the implementation model (Config/ForkSchedule.v, repaired code)
   spec_ok : Go's observed result = what the property demands, judged directly against the specification
             (compute_fork_version, the closed form of the Fork record, the published constant tables);
             true (vacuous) outside the documented domain: unsorted schedules, SLOTS_PER_EPOCH = 0,
             a post-genesis fork at epoch 0, slots at or after the Electra fork for the state clause. *)
From Coq Require Import String NArith List Bool.
From V Require Import Base.U64 Base.Outcome Base.Sha256 Config.ForkSchedule Config.SpecConstants.
Import ListNotations.
Local Open Scope N_scope.

Definition hx (s : string) : bytes := hexbytes s.

Definition fork_of_index (i : N) : fork :=
  match i with
  | 0 => Phase0 | 1 => Altair | 2 => Bellatrix | 3 => Capella | 4 => Deneb | 5 => Electra | _ => Fulu
  end.

(* what the harness reads off a signed block / an envelope *)
Record blk_obs := mkB {
  o_fork : N; o_slot : N; o_proposer : N; o_parent : bytes; o_state : bytes; o_body_root : bytes; o_sig : bytes }.
Record env_obs := mkE {
  eo_digest : bytes; eo_slot : N; eo_proposer : N; eo_parent : bytes; eo_state : bytes; eo_body_root : bytes;
  eo_body_fork : N; eo_root : bytes; eo_sig : bytes }.

Inductive ccase :=
(* Spec.ForkVersion(slot), as a big-endian number *)
| CVersion (c : fork_cfg) (slot : N) (go : N)
(* NewForkDecoder(spec, gvr): ForkDigest(epoch) and the block type BlockAllocator gives for that digest *)
| CDigest (c : fork_cfg) (gvr : bytes) (epoch : N) (go_digest : bytes) (go_alloc : gores N)
(* BlockAllocator on an arbitrary digest *)
| CAlloc (c : fork_cfg) (gvr : bytes) (digest : bytes) (go_alloc : gores N)
(* KickStartState (phase0) then ProcessSlots to `target`: [type index; fork.previous; fork.current; fork.epoch] *)
| CUpgrade (c : fork_cfg) (target : N) (go : gores (list N))
(* a signed block of fork o_fork: serialized, decoded through BlockAllocator(digest of its fork), Envelope(),
   EnvelopeToSignedBeaconBlock *)
| CEnvelope (b : blk_obs) (digest : bytes) (go_block_root : bytes) (go_env : env_obs) (go_back : gores blk_obs)
(* Envelope(spec, digest).VerifySignature(spec, gvr, proposer, pk); the only signature the harness made for
   this block is `o_sig b`, by `signer` over `signed_msg` *)
| CSig (c : fork_cfg) (gvr : bytes) (b : blk_obs) (digest : bytes) (proposer : N) (pk signer signed_msg : bytes) (go : bool)
(* one field of configs.Mainnet / configs.Minimal after YAML decoding *)
| CConst (net section name : string) (v : cval)
| CConstCount (net section : string) (fields : N).

Definition sha := sha256.
Definition body_root_id (_ : fork) (b : bytes) : bytes := b.

Definition blk_of (b : blk_obs) : signed_block bytes :=
  mkBlock bytes (fork_of_index (o_fork b)) (o_slot b) (o_proposer b) (o_parent b) (o_state b) (o_body_root b) (o_sig b).
Definition blk_obs_eqb (a b : blk_obs) : bool :=
  (o_fork a =? o_fork b) && (o_slot a =? o_slot b) && (o_proposer a =? o_proposer b) &&
  bytes_eqb (o_parent a) (o_parent b) && bytes_eqb (o_state a) (o_state b) &&
  bytes_eqb (o_body_root a) (o_body_root b) && bytes_eqb (o_sig a) (o_sig b).
Definition obs_of_blk (b : signed_block bytes) : blk_obs :=
  mkB (fork_index (sb_fork bytes b)) (sb_slot bytes b) (sb_proposer bytes b) (sb_parent bytes b) (sb_state bytes b)
      (sb_body bytes b) (sb_sig bytes b).
Definition env_matches (e : envelope bytes) (o : env_obs) : bool :=
  bytes_eqb (env_digest bytes e) (eo_digest o) && (env_slot bytes e =? eo_slot o) &&
  (env_proposer bytes e =? eo_proposer o) && bytes_eqb (env_parent bytes e) (eo_parent o) &&
  bytes_eqb (env_state bytes e) (eo_state o) && bytes_eqb (env_body_root bytes e) (eo_body_root o) &&
  (fork_index (env_body_fork bytes e) =? eo_body_fork o) && bytes_eqb (env_root bytes e) (eo_root o) &&
  bytes_eqb (env_sig bytes e) (eo_sig o).
Definition env_of_obs (o : env_obs) : envelope bytes :=
  mkEnv bytes (eo_digest o) (eo_slot o) (eo_proposer o) (eo_parent o) (eo_state o) (eo_body_root o)
        (fork_of_index (eo_body_fork o)) (eo_body_root o) (eo_root o) (eo_sig o).

Fixpoint list_eqb (a b : list N) : bool :=
  match a, b with
  | [], [] => true
  | x :: a', y :: b' => (x =? y) && list_eqb a' b'
  | _, _ => false
  end.

(* the executable BLS instance: the harness made exactly one signature for the block *)
Definition table_verify (signer signed_msg sig_made : bytes) (pk msg sig : bytes) : bool :=
  bytes_eqb pk signer && bytes_eqb msg signed_msg && bytes_eqb sig sig_made.

Definition st_obs (s : fstate) : list N :=
  [fork_index (st_type s); fr_prev (st_fork s); fr_cur (st_fork s); fr_epoch (st_fork s)].
Definition map_outcome {A B} (f : A -> B) (o : outcome A) : outcome B :=
  match o with Ok a => Ok (f a) | Err => Err | Panic p => Panic p | Blocked => Blocked | OutOfFuel => OutOfFuel end.

Definition count_in_struct (t : table) : N :=
  N.of_nat (length (filter (fun kv => negb (existsb (String.eqb (fst kv)) not_in_struct)) t)).

Definition impl_ok (cs : ccase) : bool :=
  match cs with
  | CVersion c slot go => fork_version c slot =? go
  | CDigest c gvr epoch go_digest go_alloc =>
      let d := new_decoder sha c gvr in
      bytes_eqb (decoder_fork_digest d epoch) go_digest &&
      agree N.eqb (map_outcome fork_index (block_allocator d go_digest)) go_alloc
  | CAlloc c gvr digest go_alloc =>
      agree N.eqb (map_outcome fork_index (block_allocator (new_decoder sha c gvr) digest)) go_alloc
  | CUpgrade c target go => agree list_eqb (map_outcome st_obs (process_slots c (genesis_state c) target)) go
  | CEnvelope b digest go_block_root go_env go_back =>
      let e := envelope_of sha bytes body_root_id (blk_of b) digest in
      env_matches e go_env && bytes_eqb (block_root sha bytes body_root_id (blk_of b)) go_block_root &&
      agree blk_obs_eqb (map_outcome obs_of_blk (envelope_to_signed_block bytes (env_of_obs go_env))) go_back
  | CSig c gvr b digest proposer pk signer signed_msg go =>
      let e := envelope_of sha bytes body_root_id (blk_of b) digest in
      Bool.eqb (verify_signature sha bytes (table_verify signer signed_msg (o_sig b)) c e gvr proposer pk) go
  | CConst net section name v =>
      match pinned net section with
      | Some t => opt_cval_eqb (lookup name t) (Some v)
      | None => false
      end
  | CConstCount net section n =>
      match pinned net section with Some t => count_in_struct t =? n | None => false end
  end.

(* documented domain of the lookups *)
Definition in_domain (c : fork_cfg) : bool := schedule_sorted_b c && (0 <? c_spe c).

Definition spec_ok (cs : ccase) : bool :=
  match cs with
  | CVersion c slot go =>
      if in_domain c then compute_fork_version c (slot / c_spe c) =? go else true
  | CDigest c gvr epoch go_digest go_alloc =>
      if in_domain c then
        let v := compute_fork_version c epoch in
        (* the digest names the version compute_fork_version gives ... *)
        bytes_eqb (fork_digest sha v gvr) go_digest &&
        (* ... and, where a block type exists and the six digests do not collide, so does the block type *)
        (if (epoch <? e_fulu c) && digests_distinct_b sha c gvr
         then match go_alloc with GoOk i => i =? fork_index (spec_fork_at_epoch c epoch) | _ => false end
         else true)
      else true
  | CAlloc c gvr digest go_alloc =>
      (* a type is only ever handed out for the digest of that fork's version *)
      match go_alloc with
      | GoOk i => (i <? 6) && bytes_eqb digest (fork_digest sha (version_of c (fork_of_index i)) gvr)
      | GoErr => true
      | _ => false
      end
  | CUpgrade c target go =>
      if in_domain c && (1 <=? e_altair c) && (0 <? target) && (target / c_spe c <? e_electra c) then
        let epoch := target / c_spe c in
        let fr := spec_fork_record c epoch in
        match go with
        | GoOk l => list_eqb l [fork_index (spec_fork_at_epoch c epoch); fr_prev fr; fr_cur fr; fr_epoch fr]
        | _ => false
        end
      else true
  | CEnvelope b digest go_block_root go_env go_back =>
      (* root, signature and body survive both conversions; header fields and digest are carried over *)
      bytes_eqb (eo_root go_env) go_block_root && bytes_eqb (eo_sig go_env) (o_sig b) &&
      bytes_eqb (eo_body_root go_env) (o_body_root b) && (eo_body_fork go_env =? o_fork b) &&
      bytes_eqb (eo_digest go_env) digest && (eo_slot go_env =? o_slot b) && (eo_proposer go_env =? o_proposer b) &&
      bytes_eqb (eo_parent go_env) (o_parent b) && bytes_eqb (eo_state go_env) (o_state b) &&
      match go_back with GoOk b' => blk_obs_eqb b b' | _ => false end
  | CSig c gvr b digest proposer pk signer signed_msg go =>
      if in_domain c then
        let v := compute_fork_version c (o_slot b / c_spe c) in
        let root := header_root sha (o_slot b) (o_proposer b) (o_parent b) (o_state b) (o_body_root b) in
        let msg := signing_root sha root (compute_domain sha DOMAIN_BEACON_PROPOSER v gvr) in
        Bool.eqb ((o_proposer b =? proposer) && bytes_eqb digest (fork_digest sha v gvr) &&
                  table_verify signer signed_msg (o_sig b) pk msg (o_sig b)) go
      else true
  | CConst net section name v =>
      match pinned net section with
      | Some t => opt_cval_eqb (lookup name t) (Some v)
      | None => false
      end
  | CConstCount net section n =>
      match pinned net section with Some t => count_in_struct t =? n | None => false end
  end.

Fixpoint mism (i : N) (cs : list ccase) : list (N * N) :=
  match cs with
  | [] => []
  | c :: cs' =>
      let r := (if impl_ok c then 0 else 1) + (if spec_ok c then 0 else 2) in
      if r =? 0 then mism (i + 1) cs' else (i, r) :: mism (i + 1) cs'
  end.
Definition mismatches (cs : list ccase) : list (N * N) := mism 0 cs.
