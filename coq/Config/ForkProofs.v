(* C14: proofs about the fork-schedule model (Config/ForkSchedule.v).
   Everything is for ALL configurations (any epochs, any versions, any SLOTS_PER_EPOCH > 0 where a division
   matters), ALL slots/epochs and ALL genesis validators roots; the hash and the BLS check are parameters
   with no assumed law. *)
From Coq Require Import NArith ZArith Lia List Bool.
From Coq Require Import ZifyN ZifyNat ZifyBool.
From V Require Import Base.U64 Base.Outcome Config.ForkSchedule.
Import ListNotations.
Local Open Scope N_scope.

(* ---------- small facts ---------- *)
Lemma bytes_eqb_refl a : bytes_eqb a a = true.
Proof. induction a as [|x a IH]; cbn; [reflexivity|]. rewrite N.eqb_refl. exact IH. Qed.
Lemma bytes_eqb_eq a b : bytes_eqb a b = true <-> a = b.
Proof.
  split.
  - revert b. induction a as [|x a IH]; destruct b as [|y b]; cbn; try discriminate; try reflexivity.
    intros Hb. apply andb_true_iff in Hb. destruct Hb as [H1 H2].
    apply N.eqb_eq in H1. subst y. f_equal. apply IH. exact H2.
  - intros ->. apply bytes_eqb_refl.
Qed.
Lemma fork_eqb_eq a b : fork_eqb a b = true <-> a = b.
Proof. destruct a, b; cbn; split; intros Hx; try reflexivity; try discriminate. Qed.
Lemma schedule_sorted_b_iff c : schedule_sorted_b c = true <-> schedule_sorted c.
Proof. unfold schedule_sorted_b, schedule_sorted. lia. Qed.

Ltac split_ltb :=
  repeat match goal with
         | |- context [N.ltb ?a ?b] => destruct (N.ltb_spec a b); try lia
         | |- context [N.leb ?a ?b] => destruct (N.leb_spec a b); try lia
         end.

(* ---------- version lookups: the repaired if-chain is compute_fork_version ---------- *)
Lemma fork_at_epoch_spec c epoch :
  schedule_sorted c -> fork_at_epoch c epoch = spec_fork_at_epoch c epoch.
Proof.
  unfold schedule_sorted, fork_at_epoch, spec_fork_at_epoch. intros Hs.
  split_ltb; reflexivity.
Qed.
Lemma fork_version_names c slot :
  fork_version c slot = version_of c (fork_at_epoch c (slot_to_epoch c slot)).
Proof. unfold fork_version, fork_at_epoch. split_ltb; reflexivity. Qed.
Lemma compute_fork_version_names c epoch :
  compute_fork_version c epoch = version_of c (spec_fork_at_epoch c epoch).
Proof. unfold compute_fork_version, spec_fork_at_epoch. split_ltb; reflexivity. Qed.
Theorem fork_version_correct c slot :
  schedule_sorted c -> fork_version c slot = compute_fork_version c (slot_to_epoch c slot).
Proof.
  intros Hs. rewrite fork_version_names, compute_fork_version_names, fork_at_epoch_spec by exact Hs. reflexivity.
Qed.

(* the interval of each fork (what "names the fork of this epoch" means) *)
Lemma spec_fork_at_epoch_interval c epoch f :
  schedule_sorted c -> spec_fork_at_epoch c epoch = f ->
  epoch_of c f <= epoch /\ (forall g, fork_index f < fork_index g -> epoch < epoch_of c g).
Proof.
  unfold schedule_sorted, spec_fork_at_epoch. intros Hs.
  split_ltb; intros <-; (split; [cbn; lia | intros g; destruct g; cbn; lia]).
Qed.

(* equal activation epochs: the later fork wins; never-activated forks are never reported *)
Lemma fork_never_activated c f epoch :
  schedule_sorted c -> epoch < epoch_of c f -> spec_fork_at_epoch c epoch <> f.
Proof.
  intros Hs Hlt Heq. destruct (spec_fork_at_epoch_interval c epoch f Hs Heq) as [Hle _]. lia.
Qed.

(* pinned snapshot: wrong in the capella, deneb and electra intervals *)
Definition mainnet_like : fork_cfg :=
  mkCfg 32 0 16777216 33554432 50331648 67108864 83886080 100663296
        74240 144896 194048 269568 364032 FAR_FUTURE_EPOCH.
Lemma fork_version_orig_refuted :
  schedule_sorted mainnet_like /\
  (* a capella epoch reports the deneb version *)
  fork_version_orig mainnet_like (200000 * 32) = v_deneb mainnet_like /\
  compute_fork_version mainnet_like 200000 = v_capella mainnet_like /\
  (* a deneb epoch reports the electra version *)
  fork_version_orig mainnet_like (300000 * 32) = v_electra mainnet_like /\
  compute_fork_version mainnet_like 300000 = v_deneb mainnet_like /\
  (* an electra epoch reports the fulu version *)
  fork_version_orig mainnet_like (400000 * 32) = v_fulu mainnet_like /\
  compute_fork_version mainnet_like 400000 = v_electra mainnet_like.
Proof. vm_compute. repeat split; intros; discriminate. Qed.
(* ... and right in the other four, so the repair touches nothing else *)
Lemma fork_version_orig_early c slot :
  slot_to_epoch c slot < e_capella c -> fork_version_orig c slot = fork_version c slot.
Proof. unfold fork_version_orig, fork_version. intros Hlt. split_ltb; reflexivity. Qed.

(* ---------- decoder ---------- *)
Section Hashed.
  Variable H : bytes -> bytes.

  Lemma digest_of_new_decoder c gvr f :
    digest_of (new_decoder H c gvr) f = fork_digest H (version_of c f) gvr.
  Proof. destruct f; reflexivity. Qed.

  Lemma decoder_fork_digest_names c gvr epoch :
    decoder_fork_digest (new_decoder H c gvr) epoch
    = digest_of (new_decoder H c gvr) (fork_at_epoch c epoch).
  Proof. unfold decoder_fork_digest, fork_at_epoch. cbn [d_cfg new_decoder]. split_ltb; reflexivity. Qed.

  (* the digest the decoder reports for an epoch is the digest of the version the configuration reports *)
  Theorem decoder_digest_correct c gvr slot :
    decoder_fork_digest (new_decoder H c gvr) (slot_to_epoch c slot) = fork_digest H (fork_version c slot) gvr.
  Proof. rewrite decoder_fork_digest_names, digest_of_new_decoder, fork_version_names. reflexivity. Qed.

  (* whatever type the allocator picks, the digest is that fork's digest (no hypothesis) *)
  Lemma block_allocator_sound d digest f :
    block_allocator d digest = Ok f -> digest = digest_of d f /\ f <> Fulu.
  Proof.
    unfold block_allocator.
    repeat match goal with
           | |- context [bytes_eqb ?a ?b] => destruct (bytes_eqb a b) eqn:?
           end; intros Hx; inversion Hx; subst; (split; [apply bytes_eqb_eq; assumption | discriminate]).
  Qed.

  Lemma nodup_b_spec {A} (eqb : A -> A -> bool) (l : list A) :
    (forall x y, eqb x y = true <-> x = y) ->
    (fix nodup (l : list A) : bool :=
       match l with [] => true | x :: l' => negb (existsb (eqb x) l') && nodup l' end) l = true ->
    NoDup l.
  Proof.
    intros Heq. induction l as [|x l IH]; intros Hn; [constructor|].
    apply andb_true_iff in Hn. destruct Hn as [H1 H2]. constructor.
    - intros Hin. apply negb_true_iff in H1.
      assert (existsb (eqb x) l = true) by (apply existsb_exists; exists x; split; [exact Hin | apply Heq; reflexivity]).
      congruence.
    - apply IH. exact H2.
  Qed.

  (* block type chosen for a fork's digest, when the six digests of this configuration do not collide *)
  Theorem block_allocator_complete c gvr f :
    digests_distinct_b H c gvr = true -> f <> Fulu ->
    block_allocator (new_decoder H c gvr) (fork_digest H (version_of c f) gvr) = Ok f.
  Proof.
    intros Hd Hf. unfold digests_distinct_b in Hd.
    apply (nodup_b_spec bytes_eqb _ bytes_eqb_eq) in Hd.
    cbn [map] in Hd.
    repeat match goal with
           | Hn : NoDup (_ :: _) |- _ => inversion Hn; clear Hn; subst
           end.
    cbn [In] in *.
    unfold block_allocator. cbn [new_decoder d_genesis d_altair d_bellatrix d_capella d_deneb d_electra].
    destruct f; try congruence; cbn [version_of];
      repeat match goal with
             | |- context [bytes_eqb ?a ?a] => rewrite (bytes_eqb_refl a)
             | |- context [bytes_eqb ?a ?b] =>
                 let E := fresh "E" in
                 destruct (bytes_eqb a b) eqn:E; [apply bytes_eqb_eq in E; exfalso; intuition congruence|]
             end; reflexivity.
  Qed.
End Hashed.

(* the same lookup over versions (no hash involved): distinct versions suffice *)
Lemma versions_distinct_spec c :
  versions_distinct_b c = true -> NoDup (map (version_of c) all_forks).
Proof.
  unfold versions_distinct_b. intros Hd.
  pose proof (fun l => @nodup_b_spec N N.eqb l N.eqb_eq) as Hn.
  apply Hn. exact Hd.
Qed.
Theorem allocator_by_version_complete c f :
  versions_distinct_b c = true -> f <> Fulu -> allocator_by_version c (version_of c f) = Ok f.
Proof.
  intros Hd Hf. apply versions_distinct_spec in Hd. cbn [map all_forks] in Hd.
  repeat match goal with
         | Hn : NoDup (_ :: _) |- _ => inversion Hn; clear Hn; subst
         end.
  cbn [In] in *.
  unfold allocator_by_version.
  destruct f; try congruence; cbn [version_of];
    repeat match goal with
           | |- context [N.eqb ?a ?a] => rewrite (N.eqb_refl a)
           | |- context [N.eqb ?a ?b] => destruct (N.eqb_spec a b); [exfalso; intuition congruence|]
           end; reflexivity.
Qed.

(* ---------- state upgrades along ProcessSlots ---------- *)
Lemma at_boundary_epoch c slot e E :
  slot mod c_spe c = 0 -> slot / c_spe c = e -> at_boundary c slot E = (e =? E).
Proof. unfold at_boundary, slot_to_epoch. intros -> ->. reflexivity. Qed.
Lemma at_boundary_mid c slot E : slot mod c_spe c <> 0 -> at_boundary c slot E = false.
Proof. unfold at_boundary. intros Hn. destruct (N.eqb_spec (slot mod c_spe c) 0); [contradiction|reflexivity]. Qed.

Lemma upgrade_if_hit atb c pre post t p cu ep sl :
  fork_eqb t pre = true ->
  upgrade_if atb c pre post (mkSt t (mkFork p cu ep) sl)
  = if atb c sl (epoch_of c post)
    then mkSt post (mkFork cu (version_of c post) (slot_to_epoch c sl)) sl
    else mkSt t (mkFork p cu ep) sl.
Proof. intros Ht. unfold upgrade_if, upgrade_to. cbn [st_type st_slot st_fork fr_cur]. rewrite Ht. reflexivity. Qed.
Lemma upgrade_if_miss atb c pre post t fr sl :
  fork_eqb t pre = false -> upgrade_if atb c pre post (mkSt t fr sl) = mkSt t fr sl.
Proof. intros Ht. unfold upgrade_if. cbn [st_type]. rewrite Ht. reflexivity. Qed.

Ltac split_cmp :=
  repeat (match goal with
          | |- context [N.ltb ?a ?b] => destruct (N.ltb_spec a b); try lia
          | |- context [N.leb ?a ?b] => destruct (N.leb_spec a b); try lia
          | |- context [N.eqb ?a ?b] => destruct (N.eqb_spec a b); try lia
          end; cbv beta iota).

(* the state a correct chain is in at slot s: type and Fork record named by compute_fork_version *)
Definition good (c : fork_cfg) (s : N) : fstate :=
  mkSt (spec_fork_at_epoch c (s / c_spe c)) (spec_fork_record c (s / c_spe c)) s.

(* first slot of epoch e+1: the cascade of UpgradeMaybe lands exactly on the fork of epoch e+1 *)
Lemma upgrade_maybe_boundary c e slot :
  schedule_sorted c -> 1 <= e_altair c ->
  slot mod c_spe c = 0 -> slot / c_spe c = e + 1 -> e + 1 < e_electra c ->
  upgrade_maybe c (mkSt (spec_fork_at_epoch c e) (spec_fork_record c e) slot)
  = Ok (mkSt (spec_fork_at_epoch c (e + 1)) (spec_fork_record c (e + 1)) slot).
Proof.
  intros Hs Ha Hmod Hdiv Hel.
  unfold upgrade_maybe, upgrade_maybe_gen. cbv zeta.
  unfold spec_fork_record, spec_fork_at_epoch, schedule_sorted in *.
  split_cmp; cbn [pred_fork version_of epoch_of];
    repeat (match goal with
            | |- context [upgrade_if ?atb ?c ?pre ?post (mkSt ?t (mkFork ?p ?cu ?ep) ?sl)] =>
                first [ rewrite (upgrade_if_miss atb c pre post t (mkFork p cu ep) sl) by reflexivity
                      | rewrite (upgrade_if_hit atb c pre post t p cu ep sl) by reflexivity;
                        rewrite (at_boundary_epoch c sl _ _ Hmod Hdiv); cbn [epoch_of version_of];
                        match goal with
                        | |- context [N.eqb ?a ?b] => destruct (N.eqb_spec a b); try lia
                        end; cbv beta iota ]
            end);
    cbn [st_type st_slot fork_eqb andb];
    try (rewrite (at_boundary_epoch c slot _ _ Hmod Hdiv);
         match goal with
         | |- context [N.eqb ?a ?b] => destruct (N.eqb_spec a b); try lia
         end; cbv beta iota);
    unfold slot_to_epoch; rewrite ?Hdiv;
    try reflexivity; repeat f_equal; lia.
Qed.

(* a slot that is not the first of an epoch: nothing happens *)
Lemma upgrade_if_off atb c pre post s :
  atb c (st_slot s) (epoch_of c post) = false -> upgrade_if atb c pre post s = s.
Proof. intros Hf. unfold upgrade_if. rewrite Hf, andb_false_r. reflexivity. Qed.
Lemma upgrade_maybe_mid c st :
  st_slot st mod c_spe c <> 0 -> upgrade_maybe c st = Ok st.
Proof.
  intros Hn. unfold upgrade_maybe, upgrade_maybe_gen. cbv zeta.
  rewrite (upgrade_if_off at_boundary c Phase0 Altair st) by (apply at_boundary_mid; exact Hn).
  rewrite (upgrade_if_off at_boundary c Altair Bellatrix st) by (apply at_boundary_mid; exact Hn).
  rewrite (upgrade_if_off at_boundary c Bellatrix Capella st) by (apply at_boundary_mid; exact Hn).
  rewrite (upgrade_if_off at_boundary c Capella Deneb st) by (apply at_boundary_mid; exact Hn).
  rewrite (at_boundary_mid c _ _ Hn), andb_false_r. reflexivity.
Qed.

Lemma div_succ_mid spe s : 0 < spe -> (s + 1) mod spe <> 0 -> (s + 1) / spe = s / spe.
Proof.
  intros Hp Hn.
  pose proof (N.div_mod s spe ltac:(lia)) as Hs.
  pose proof (N.mod_lt s spe ltac:(lia)) as Hr.
  destruct (N.eq_dec (s mod spe + 1) spe) as [E|E].
  - exfalso. apply Hn.
    replace (s + 1) with (0 + (s / spe + 1) * spe) by lia.
    rewrite N.mod_add by lia. apply N.mod_0_l. lia.
  - symmetry. apply (N.div_unique (s + 1) spe (s / spe) (s mod spe + 1)); lia.
Qed.
Lemma div_succ_boundary spe s : 0 < spe -> (s + 1) mod spe = 0 -> (s + 1) / spe = s / spe + 1.
Proof.
  intros Hp Hz.
  pose proof (N.div_mod (s + 1) spe ltac:(lia)) as Hs. rewrite Hz in Hs.
  assert (Hq : 1 <= (s + 1) / spe) by (destruct (N.eq_dec ((s + 1) / spe) 0) as [E|E]; [rewrite E in Hs; lia | lia]).
  remember ((s + 1) / spe) as q eqn:Eq.
  assert (Hex : exists q', q = q' + 1) by (exists (q - 1); lia).
  destruct Hex as [q' ->]. rewrite N.mul_add_distr_l, N.mul_1_r in Hs.
  assert (Hd : s / spe = q').
  { symmetry. apply (N.div_unique s spe q' (spe - 1)); lia. }
  lia.
Qed.

(* one iteration of the ProcessSlots loop keeps the chain in the state the schedule names *)
Lemma process_slot_step c s :
  schedule_sorted c -> 0 < c_spe c -> 1 <= e_altair c -> (s + 1) / c_spe c < e_electra c ->
  upgrade_maybe c (mkSt (st_type (good c s)) (st_fork (good c s)) (s + 1)) = Ok (good c (s + 1)).
Proof.
  intros Hs Hp Ha Hel. unfold good. cbn [st_type st_fork].
  destruct (N.eq_dec ((s + 1) mod c_spe c) 0) as [Hz|Hn].
  - pose proof (div_succ_boundary (c_spe c) s Hp Hz) as Hd. rewrite Hd in *.
    apply upgrade_maybe_boundary; assumption.
  - rewrite (div_succ_mid (c_spe c) s Hp Hn). apply upgrade_maybe_mid. exact Hn.
Qed.

Lemma process_slots_loop_good c n : forall s,
  schedule_sorted c -> 0 < c_spe c -> 1 <= e_altair c -> (s + N.of_nat n) / c_spe c < e_electra c ->
  process_slots_loop at_boundary c n (good c s) = Ok (good c (s + N.of_nat n)).
Proof.
  induction n as [|n IH]; intros s Hs Hp Ha Hel.
  - cbn. rewrite N.add_0_r. reflexivity.
  - cbn [process_slots_loop].
    assert (Hle : (s + 1) / c_spe c <= (s + N.of_nat (S n)) / c_spe c) by (apply N.div_le_mono; lia).
    fold (upgrade_maybe c).
    assert (Hel1 : (s + 1) / c_spe c < e_electra c).
    { eapply N.le_lt_trans; [exact Hle | exact Hel]. }
    rewrite process_slot_step by assumption.
    assert (Heq : s + 1 + N.of_nat n = s + N.of_nat (S n)) by lia.
    assert (Hel2 : (s + 1 + N.of_nat n) / c_spe c < e_electra c) by (rewrite Heq; exact Hel).
    rewrite IH by assumption. change (st_slot (good c s)) with s. rewrite Heq. reflexivity.
Qed.

Lemma genesis_good c : schedule_sorted c -> 1 <= e_altair c -> genesis_state c = good c 0.
Proof.
  intros Hs Ha. unfold genesis_state, good, spec_fork_record, spec_fork_at_epoch, schedule_sorted in *.
  replace (0 / c_spe c) with 0 by (destruct (c_spe c); reflexivity).
  split_cmp; reflexivity.
Qed.

(* ProcessSlots from a phase0 genesis to ANY slot before the Electra fork: state type and Fork record are
   the ones compute_fork_version names (equal fork epochs cascade; never-activated forks do nothing) *)
Theorem process_slots_correct c target :
  schedule_sorted c -> 0 < c_spe c -> 1 <= e_altair c -> 0 < target ->
  target / c_spe c < e_electra c ->
  process_slots c (genesis_state c) target
  = Ok (mkSt (spec_fork_at_epoch c (target / c_spe c)) (spec_fork_record c (target / c_spe c)) target).
Proof.
  intros Hs Hp Ha Ht Hel. unfold process_slots, process_slots_gen.
  cbn [genesis_state st_slot]. destruct (N.leb_spec target 0); [lia|].
  rewrite genesis_good by assumption. rewrite N.sub_0_r.
  rewrite process_slots_loop_good; rewrite ?N2Nat.id, ?N.add_0_l; try assumption.
  reflexivity.
Qed.
(* ... and refuses to go on at the first slot of the Electra fork (UpgradeToElectra is a stub) *)
Lemma upgrade_maybe_electra_stub c slot fr :
  slot mod c_spe c = 0 -> slot / c_spe c = e_electra c ->
  upgrade_maybe c (mkSt Deneb fr slot) = Err.
Proof.
  intros Hmod Hdiv. unfold upgrade_maybe, upgrade_maybe_gen. cbv zeta.
  rewrite !upgrade_if_miss by reflexivity. cbn [st_type st_slot fork_eqb andb].
  rewrite (at_boundary_epoch c slot _ _ Hmod Hdiv). rewrite N.eqb_refl. reflexivity.
Qed.

(* the repaired trigger equals the snapshot's whenever the fork's start slot is representable *)
Lemma at_boundary_orig_eq c slot E :
  0 < c_spe c -> E * c_spe c < two64 -> at_boundary_orig c slot E = at_boundary c slot E.
Proof.
  intros Hp Hr. unfold at_boundary_orig, at_boundary, slot_to_epoch, mul64.
  rewrite wrap64_small by exact Hr.
  destruct (N.eqb_spec slot (E * c_spe c)) as [->|Hne].
  - rewrite N.mod_mul by lia. rewrite N.div_mul by lia. rewrite !N.eqb_refl. reflexivity.
  - destruct (N.eqb_spec (slot mod c_spe c) 0) as [Hz|]; [|reflexivity].
    destruct (N.eqb_spec (slot / c_spe c) E) as [He|]; [|reflexivity].
    exfalso. apply Hne. pose proof (N.div_mod slot (c_spe c) ltac:(lia)). rewrite Hz, He in *. lia.
Qed.
(* pinned snapshot: a fork epoch whose start slot wraps activates at a wrong slot.
   SLOTS_PER_EPOCH = 8, ALTAIR_FORK_EPOCH = 2^61 + 1: 8 * (2^61+1) wraps to 8, so the state turns altair at
   slot 8 (epoch 1) while every version/digest lookup still says phase0. *)
Definition wrap_cfg : fork_cfg :=
  mkCfg 8 1 16777217 33554433 50331649 67108865 83886081 100663297
        2305843009213693953 FAR_FUTURE_EPOCH FAR_FUTURE_EPOCH FAR_FUTURE_EPOCH FAR_FUTURE_EPOCH FAR_FUTURE_EPOCH.
Lemma upgrade_boundary_orig_refuted :
  schedule_sorted wrap_cfg /\ 1 <= e_altair wrap_cfg /\
  (exists st, process_slots_orig wrap_cfg (genesis_state wrap_cfg) 8 = Ok st /\ st_type st = Altair) /\
  spec_fork_at_epoch wrap_cfg (8 / 8) = Phase0 /\
  fork_version wrap_cfg 8 = v_genesis wrap_cfg /\
  process_slots wrap_cfg (genesis_state wrap_cfg) 8 = Ok (mkSt Phase0 (mkFork 1 1 0) 8).
Proof.
  split; [vm_compute; repeat split; discriminate|].
  split; [vm_compute; discriminate|].
  split; [eexists; split; vm_compute; reflexivity|].
  vm_compute. repeat split; reflexivity.
Qed.

(* ---------- the specification's own slot loop has the same closed form (all seven forks) ---------- *)
Definition spec_stage (c : fork_cfg) (s : fstate) (f : fork) : fstate :=
  if spec_trigger c f s then spec_upgrade_to c f s else s.
Lemma spec_stage_hit c f t p cu ep sl e' :
  fork_eqb t (pred_fork f) = true -> sl mod c_spe c = 0 -> sl / c_spe c = e' ->
  spec_stage c (mkSt t (mkFork p cu ep) sl) f
  = if e' =? epoch_of c f then mkSt f (mkFork cu (version_of c f) e') sl else mkSt t (mkFork p cu ep) sl.
Proof.
  intros Ht Hm Hd. unfold spec_stage, spec_trigger, spec_upgrade_to. cbn [st_type st_slot st_fork fr_cur].
  rewrite Ht, Hm, Hd. cbn [andb N.eqb]. reflexivity.
Qed.
Lemma spec_stage_miss c f t fr sl :
  fork_eqb t (pred_fork f) = false -> spec_stage c (mkSt t fr sl) f = mkSt t fr sl.
Proof. intros Ht. unfold spec_stage, spec_trigger. cbn [st_type]. rewrite Ht. reflexivity. Qed.
Lemma spec_stage_mid c f s : st_slot s mod c_spe c <> 0 -> spec_stage c s f = s.
Proof.
  intros Hn. unfold spec_stage, spec_trigger.
  destruct (N.eqb_spec (st_slot s mod c_spe c) 0); [contradiction|].
  rewrite andb_false_r. reflexivity.
Qed.

Lemma spec_upgrades_boundary c e slot :
  schedule_sorted c -> 1 <= e_altair c ->
  slot mod c_spe c = 0 -> slot / c_spe c = e + 1 ->
  spec_upgrades c (mkSt (spec_fork_at_epoch c e) (spec_fork_record c e) slot)
  = mkSt (spec_fork_at_epoch c (e + 1)) (spec_fork_record c (e + 1)) slot.
Proof.
  intros Hs Ha Hmod Hdiv.
  unfold spec_upgrades. cbn [fold_left].
  repeat match goal with
         | |- context [if spec_trigger ?c ?f ?s then spec_upgrade_to ?c ?f ?s else ?s] =>
             change (if spec_trigger c f s then spec_upgrade_to c f s else s) with (spec_stage c s f)
         end.
  unfold spec_fork_record, spec_fork_at_epoch, schedule_sorted in *.
  split_cmp; cbn [pred_fork version_of epoch_of];
    repeat (match goal with
            | |- context [spec_stage ?c (mkSt ?t (mkFork ?p ?cu ?ep) ?sl) ?f] =>
                first [ rewrite (spec_stage_miss c f t (mkFork p cu ep) sl) by reflexivity
                      | rewrite (spec_stage_hit c f t p cu ep sl (e + 1)) by (reflexivity || assumption);
                        cbn [epoch_of version_of];
                        match goal with
                        | |- context [N.eqb ?a ?b] => destruct (N.eqb_spec a b); try lia
                        end; cbv beta iota ]
            end);
    try reflexivity; repeat f_equal; lia.
Qed.
Lemma spec_upgrades_mid c s : st_slot s mod c_spe c <> 0 -> spec_upgrades c s = s.
Proof.
  intros Hn. unfold spec_upgrades. cbn [fold_left].
  repeat match goal with
         | |- context [if spec_trigger ?c ?f ?s then spec_upgrade_to ?c ?f ?s else ?s] =>
             change (if spec_trigger c f s then spec_upgrade_to c f s else s) with (spec_stage c s f)
         end.
  rewrite (spec_stage_mid c Altair s Hn), (spec_stage_mid c Bellatrix s Hn), (spec_stage_mid c Capella s Hn),
    (spec_stage_mid c Deneb s Hn), (spec_stage_mid c Electra s Hn), (spec_stage_mid c Fulu s Hn).
  reflexivity.
Qed.
Lemma spec_slot_step c s :
  schedule_sorted c -> 0 < c_spe c -> 1 <= e_altair c ->
  spec_upgrades c (mkSt (st_type (good c s)) (st_fork (good c s)) (s + 1)) = good c (s + 1).
Proof.
  intros Hs Hp Ha. unfold good. cbn [st_type st_fork].
  destruct (N.eq_dec ((s + 1) mod c_spe c) 0) as [Hz|Hn].
  - pose proof (div_succ_boundary (c_spe c) s Hp Hz) as Hd. rewrite Hd in *.
    apply spec_upgrades_boundary; assumption.
  - rewrite (div_succ_mid (c_spe c) s Hp Hn). apply spec_upgrades_mid. exact Hn.
Qed.
Lemma spec_process_slots_loop_good c n : forall s,
  schedule_sorted c -> 0 < c_spe c -> 1 <= e_altair c ->
  spec_process_slots_loop c n (good c s) = good c (s + N.of_nat n).
Proof.
  induction n as [|n IH]; intros s Hs Hp Ha.
  - cbn. rewrite N.add_0_r. reflexivity.
  - cbn [spec_process_slots_loop]. change (st_slot (good c s)) with s.
    rewrite spec_slot_step by assumption. rewrite IH by assumption.
    f_equal. lia.
Qed.
Theorem spec_process_slots_closed c target :
  schedule_sorted c -> 0 < c_spe c -> 1 <= e_altair c -> 0 < target ->
  spec_process_slots c (genesis_state c) target
  = Some (mkSt (spec_fork_at_epoch c (target / c_spe c)) (spec_fork_record c (target / c_spe c)) target).
Proof.
  intros Hs Hp Ha Ht. unfold spec_process_slots. cbn [genesis_state st_slot].
  destruct (N.leb_spec target 0); [lia|].
  rewrite genesis_good by assumption. rewrite N.sub_0_r, spec_process_slots_loop_good by assumption.
  rewrite N2Nat.id, N.add_0_l. reflexivity.
Qed.
(* Impl refines Spec: same state type, same Fork record, same slot *)
Corollary process_slots_refines_spec c target :
  schedule_sorted c -> 0 < c_spe c -> 1 <= e_altair c -> 0 < target -> target / c_spe c < e_electra c ->
  exists st, process_slots c (genesis_state c) target = Ok st /\
             spec_process_slots c (genesis_state c) target = Some st.
Proof.
  intros Hs Hp Ha Ht Hel. eexists. split.
  - apply process_slots_correct; assumption.
  - apply spec_process_slots_closed; assumption.
Qed.

(* ---------- envelopes ---------- *)
Section Blocks.
  Variable H : bytes -> bytes.
  Variable Body : Type.
  Variable body_root : fork -> Body -> bytes.
  Variable bls_verify : bytes -> bytes -> bytes -> bool.

  Notation signed_block := (signed_block Body).
  Notation envelope := (envelope Body).

  (* signed block -> envelope -> signed block is the identity, for every fork that has a block type,
     and the envelope carries the block's root, signature, body and body root unchanged *)
  Theorem envelope_roundtrip (b : signed_block) digest :
    sb_fork Body b <> Fulu ->
    let e := envelope_of H Body body_root b digest in
    envelope_to_signed_block Body e = Ok b /\
    env_root Body e = block_root H Body body_root b /\
    env_sig Body e = sb_sig Body b /\
    env_body Body e = sb_body Body b /\ env_body_fork Body e = sb_fork Body b /\
    env_body_root Body e = body_root (sb_fork Body b) (sb_body Body b) /\
    env_digest Body e = digest /\
    env_slot Body e = sb_slot Body b /\ env_proposer Body e = sb_proposer Body b /\
    env_parent Body e = sb_parent Body b /\ env_state Body e = sb_state Body b.
  Proof.
    intros Hf. destruct b as [f sl pr pa st bo sg]. cbn in Hf.
    destruct f; try congruence; cbn; repeat split; reflexivity.
  Qed.

  (* an envelope is well formed when its cached roots are the roots of what it carries *)
  Definition envelope_wf (e : envelope) : Prop :=
    env_body_root Body e = body_root (env_body_fork Body e) (env_body Body e) /\
    env_root Body e = header_root H (env_slot Body e) (env_proposer Body e) (env_parent Body e)
                        (env_state Body e) (env_body_root Body e).
  (* envelope -> signed block -> envelope is the identity on well-formed envelopes *)
  Theorem envelope_roundtrip_back (e : envelope) b :
    envelope_wf e -> envelope_to_signed_block Body e = Ok b ->
    envelope_of H Body body_root b (env_digest Body e) = e /\ block_root H Body body_root b = env_root Body e.
  Proof.
    intros [Hb Hr] Hx. destruct e as [dg sl pr pa st br f bo rt sg]. cbn in *.
    unfold envelope_to_signed_block in Hx. cbn in Hx.
    destruct f; inversion Hx; subst; unfold envelope_of, block_root; cbn; split; reflexivity.
  Qed.
  Lemma envelope_of_wf (b : signed_block) digest : envelope_wf (envelope_of H Body body_root b digest).
  Proof. destruct b. unfold envelope_wf, envelope_of. cbn. split; reflexivity. Qed.

  (* the message the envelope check presents to BLS for a block at `slot` *)
  Definition proposer_message (c : fork_cfg) (gvr root : bytes) (slot : N) : bytes :=
    signing_root H root (compute_domain H DOMAIN_BEACON_PROPOSER (compute_fork_version c (slot_to_epoch c slot)) gvr).

  (* VerifySignature accepts exactly when: the proposer index is the expected one, the envelope's digest is
     the digest of the version compute_fork_version gives for the block's slot, and BLS accepts the
     signature over the signing root under THAT version's proposer domain. *)
  Theorem envelope_sig_iff c (e : envelope) gvr proposer pk :
    schedule_sorted c ->
    verify_signature H Body bls_verify c e gvr proposer pk = true <->
    (env_proposer Body e = proposer /\
     env_digest Body e = fork_digest H (compute_fork_version c (slot_to_epoch c (env_slot Body e))) gvr /\
     bls_verify pk (proposer_message c gvr (env_root Body e) (env_slot Body e)) (env_sig Body e) = true).
  Proof.
    intros Hs. unfold verify_signature, verify_signature_versioned, proposer_message, fork_digest.
    rewrite (fork_version_correct c _ Hs).
    destruct (N.eqb_spec (env_proposer Body e) proposer) as [Hp|Hp]; cbn [negb].
    - destruct (bytes_eqb _ (env_digest Body e)) eqn:Hd; cbn [negb].
      + apply bytes_eqb_eq in Hd. split; [intros Hv; repeat split; [exact Hp | symmetry; exact Hd | exact Hv] | intros [_ [_ Hv]]; exact Hv].
      + split; [discriminate|]. intros [_ [Hd' _]]. rewrite Hd' in Hd. rewrite bytes_eqb_refl in Hd. discriminate.
    - split; [discriminate|]. intros [Hp' _]. contradiction.
  Qed.

  (* a signature made under another version w is presented to BLS together with the message of the slot's
     version v, never with the message it was made for (that the two messages differ when v <> w is
     collision resistance of H, which is NOT assumed here: unforgeability is outside) *)
  Corollary envelope_sig_message c (b : signed_block) gvr pk :
    schedule_sorted c -> sb_fork Body b <> Fulu ->
    let v := compute_fork_version c (slot_to_epoch c (sb_slot Body b)) in
    verify_signature H Body bls_verify c (envelope_of H Body body_root b (fork_digest H v gvr)) gvr (sb_proposer Body b) pk
    = bls_verify pk (signing_root H (block_root H Body body_root b) (compute_domain H DOMAIN_BEACON_PROPOSER v gvr)) (sb_sig Body b).
  Proof.
    intros Hs Hf v. destruct b as [f sl pr pa st bo sg].
    unfold verify_signature, verify_signature_versioned, envelope_of, block_root. cbn.
    rewrite (fork_version_correct c _ Hs). fold v.
    rewrite N.eqb_refl. cbn [negb]. unfold fork_digest. rewrite bytes_eqb_refl. cbn [negb]. reflexivity.
  Qed.

  (* pinned snapshot: a capella block is checked against the deneb version *)
  Lemma verify_signature_orig_version c (e : envelope) gvr proposer pk :
    verify_signature_orig H Body bls_verify c e gvr proposer pk
    = verify_signature_versioned H Body bls_verify e (fork_version_orig c (env_slot Body e)) gvr proposer pk.
  Proof. reflexivity. Qed.
End Blocks.

(* ---------- the combined statement ---------- *)
Section Combined.
  Variable H : bytes -> bytes.

  Theorem fork_lookups_agree c gvr :
    schedule_sorted c -> 0 < c_spe c ->
    forall slot,
      let epoch := slot_to_epoch c slot in
      let f := spec_fork_at_epoch c epoch in
      (* the configuration's version is the specification's *)
      fork_version c slot = compute_fork_version c epoch /\
      fork_version c slot = version_of c f /\
      (* the decoder's digest is the digest of that version *)
      decoder_fork_digest (new_decoder H c gvr) epoch = fork_digest H (fork_version c slot) gvr /\
      (* the block type: over versions (distinct versions suffice), and over digests when the six digests of
         this configuration do not collide; a Fulu epoch has no block type in the repository *)
      (versions_distinct_b c = true -> epoch < e_fulu c -> allocator_by_version c (fork_version c slot) = Ok f) /\
      (digests_distinct_b H c gvr = true -> epoch < e_fulu c ->
         block_allocator (new_decoder H c gvr) (decoder_fork_digest (new_decoder H c gvr) epoch) = Ok f) /\
      (* the state a chain is in after ProcessSlots from a phase0 genesis to this slot (forks phase0..deneb) *)
      (1 <= e_altair c -> 0 < slot -> epoch < e_electra c ->
         exists st, process_slots c (genesis_state c) slot = Ok st /\
                    spec_process_slots c (genesis_state c) slot = Some st /\
                    st_type st = f /\ st_slot st = slot /\
                    fr_cur (st_fork st) = fork_version c slot /\
                    st_fork st = spec_fork_record c epoch /\
                    (f <> Phase0 -> fr_prev (st_fork st) = version_of c (pred_fork f) /\ fr_epoch (st_fork st) = epoch_of c f) /\
                    (f = Phase0 -> st_fork st = mkFork (v_genesis c) (v_genesis c) 0)).
  Proof.
    intros Hs Hp slot epoch f.
    assert (Hv : fork_version c slot = compute_fork_version c epoch) by (apply fork_version_correct; exact Hs).
    assert (Hn : fork_version c slot = version_of c f).
    { rewrite Hv. apply compute_fork_version_names. }
    assert (Hnf : epoch < e_fulu c -> f <> Fulu).
    { intros Hlt. apply (fork_never_activated c Fulu epoch Hs). exact Hlt. }
    split; [exact Hv|]. split; [exact Hn|].
    split; [apply decoder_digest_correct|].
    split; [intros Hd Hlt; rewrite Hn; apply allocator_by_version_complete; auto|].
    split.
    { intros Hd Hlt. unfold epoch. rewrite decoder_digest_correct, Hn.
      apply block_allocator_complete; auto. }
    intros Ha Hpos Hel.
    exists (mkSt f (spec_fork_record c epoch) slot).
    split; [apply process_slots_correct; assumption|].
    split; [apply spec_process_slots_closed; assumption|].
    cbn [st_type st_slot st_fork].
    split; [reflexivity|]. split; [reflexivity|].
    unfold spec_fork_record. fold f.
    split; [rewrite Hn; destruct f; reflexivity|].
    split; [reflexivity|].
    split; [intros Hne; destruct f; try congruence; split; reflexivity|].
    intros ->. reflexivity.
  Qed.
End Combined.

(* the name DESIGN.md uses *)
Definition fork_version_refuted := fork_version_orig_refuted.

(* ---------- deepening: any consistent start, the Electra stub, uniqueness of the named fork ---------- *)

(* ProcessSlots from ANY state that is consistent with the schedule (not only genesis) *)
Theorem process_slots_from_good c s0 target :
  schedule_sorted c -> 0 < c_spe c -> 1 <= e_altair c -> s0 < target -> target / c_spe c < e_electra c ->
  process_slots c (good c s0) target = Ok (good c target).
Proof.
  intros Hs Hp Ha Hlt Hel. unfold process_slots, process_slots_gen.
  change (st_slot (good c s0)) with s0. destruct (N.leb_spec target s0); [lia|].
  assert (Heq : s0 + N.of_nat (N.to_nat (target - s0)) = target) by lia.
  rewrite process_slots_loop_good; rewrite ?Heq; try assumption. reflexivity.
Qed.

Lemma process_slots_loop_app atb c n : forall m s,
  process_slots_loop atb c (n + m) s
  = match process_slots_loop atb c n s with Ok s' => process_slots_loop atb c m s' | e => e end.
Proof.
  induction n as [|n IH]; intros m s; [reflexivity|].
  cbn [Nat.add process_slots_loop].
  destruct (upgrade_maybe_gen atb c _) as [s'| | | |]; try reflexivity. apply IH.
Qed.

(* first slot of the Electra epoch: the cascade reaches a deneb state and UpgradeToElectra refuses *)
Lemma upgrade_maybe_boundary_electra c e slot :
  schedule_sorted c -> 1 <= e_altair c ->
  slot mod c_spe c = 0 -> slot / c_spe c = e + 1 -> e + 1 = e_electra c ->
  upgrade_maybe c (mkSt (spec_fork_at_epoch c e) (spec_fork_record c e) slot) = Err.
Proof.
  intros Hs Ha Hmod Hdiv Hel.
  unfold upgrade_maybe, upgrade_maybe_gen. cbv zeta.
  unfold spec_fork_record, spec_fork_at_epoch, schedule_sorted in *.
  split_cmp; cbn [pred_fork version_of epoch_of];
    repeat (match goal with
            | |- context [upgrade_if ?atb ?c ?pre ?post (mkSt ?t (mkFork ?p ?cu ?ep) ?sl)] =>
                first [ rewrite (upgrade_if_miss atb c pre post t (mkFork p cu ep) sl) by reflexivity
                      | rewrite (upgrade_if_hit atb c pre post t p cu ep sl) by reflexivity;
                        rewrite (at_boundary_epoch c sl _ _ Hmod Hdiv); cbn [epoch_of version_of];
                        match goal with
                        | |- context [N.eqb ?a ?b] => destruct (N.eqb_spec a b); try lia
                        end; cbv beta iota ]
            end);
    cbn [st_type st_slot fork_eqb andb];
    try (rewrite (at_boundary_epoch c slot _ _ Hmod Hdiv);
         match goal with
         | |- context [N.eqb ?a ?b] => destruct (N.eqb_spec a b); try lia
         end; cbv beta iota);
    reflexivity.
Qed.

Lemma process_slots_loop_err atb c n : forall s,
  upgrade_maybe_gen atb c (mkSt (st_type s) (st_fork s) (st_slot s + 1)) = Err ->
  process_slots_loop atb c (S n) s = Err.
Proof. intros s He. cbn [process_slots_loop]. rewrite He. reflexivity. Qed.

(* ProcessSlots to a slot at or after the Electra fork stops with an error at the fork's first slot:
   so (for sorted schedules, from genesis) success is EXACTLY "the target lies before the Electra fork" *)
Theorem process_slots_electra_refused c target :
  schedule_sorted c -> 0 < c_spe c -> 1 <= e_altair c -> e_electra c <= target / c_spe c ->
  process_slots c (genesis_state c) target = Err.
Proof.
  intros Hs Hp Ha Hge. unfold process_slots, process_slots_gen. cbn [genesis_state st_slot].
  assert (He1 : 1 <= e_electra c) by (unfold schedule_sorted in Hs; lia).
  set (b := e_electra c * c_spe c).
  assert (Hb : b <= target).
  { pose proof (N.mul_div_le target (c_spe c) ltac:(lia)) as Hm.
    assert (e_electra c * c_spe c <= (target / c_spe c) * c_spe c) by (apply N.mul_le_mono_r; exact Hge).
    unfold b. lia. }
  assert (Hb1 : 1 <= b) by (unfold b; nia).
  destruct (N.leb_spec target 0); [lia|].
  rewrite genesis_good by assumption. rewrite N.sub_0_r.
  (* split the loop: b-1 good steps, then the refused step, then the rest *)
  replace (N.to_nat target) with (N.to_nat (b - 1) + S (N.to_nat (target - b)))%nat by lia.
  rewrite process_slots_loop_app.
  assert (Hdivb : b / c_spe c = e_electra c) by (unfold b; apply N.div_mul; lia).
  assert (Hmodb : b mod c_spe c = 0) by (unfold b; apply N.mod_mul; lia).
  assert (Hpre : (b - 1) / c_spe c = e_electra c - 1).
  { pose proof (div_succ_boundary (c_spe c) (b - 1) Hp) as Hd.
    replace (b - 1 + 1) with b in Hd by lia. specialize (Hd Hmodb). lia. }
  rewrite process_slots_loop_good; rewrite ?N2Nat.id, ?N.add_0_l; try assumption; [|rewrite Hpre; lia].
  apply process_slots_loop_err.
  unfold good. cbn [st_type st_fork st_slot]. rewrite Hpre.
  replace (b - 1 + 1) with b by lia.
  fold (upgrade_maybe c).
  apply (upgrade_maybe_boundary_electra c (e_electra c - 1) b); try assumption; lia.
Qed.

(* with distinct versions a version names exactly one fork *)
Lemma version_of_injective c f g :
  versions_distinct_b c = true -> version_of c f = version_of c g -> f = g.
Proof.
  intros Hd Heq. apply versions_distinct_spec in Hd. cbn [map all_forks] in Hd.
  repeat match goal with
         | Hn : NoDup (_ :: _) |- _ => inversion Hn; clear Hn; subst
         end.
  cbn [In] in *.
  destruct f, g; cbn [version_of] in Heq; try reflexivity; exfalso; intuition congruence.
Qed.
Corollary fork_version_names_unique c slot f :
  schedule_sorted c -> versions_distinct_b c = true ->
  fork_version c slot = version_of c f -> f = spec_fork_at_epoch c (slot_to_epoch c slot).
Proof.
  intros Hs Hd Hv. apply (version_of_injective c _ _ Hd).
  rewrite <- Hv, fork_version_correct by exact Hs. apply compute_fork_version_names.
Qed.

(* ---------- the snapshot's envelope check, on a concrete Capella block (real SHA-256) ---------- *)
From V Require Import Base.Sha256.
Section SnapshotSignature.
  (* a toy signature scheme, enough to see WHICH message the check asks about: a "signature" is the message *)
  Let toy_verify (pk msg sig : bytes) : bool := bytes_eqb msg sig.
  Let gvr : bytes := repeat 7 32.
  Let slot : N := 200000 * 32.                         (* a Capella epoch of mainnet_like *)
  Let root (sig : bytes) : bytes :=
    block_root sha256 bytes (fun _ b => b) (mkBlock bytes Capella slot 5 (repeat 1 32) (repeat 2 32) (repeat 3 32) sig).
  Let msg_under (v : N) : bytes := signing_root sha256 (root []) (compute_domain sha256 DOMAIN_BEACON_PROPOSER v gvr).
  Let env (v_signed v_digest : N) : envelope bytes :=
    envelope_of sha256 bytes (fun _ b => b)
      (mkBlock bytes Capella slot 5 (repeat 1 32) (repeat 2 32) (repeat 3 32) (msg_under v_signed))
      (fork_digest sha256 v_digest gvr).

  Lemma verify_signature_orig_refuted :
    (* signed under the Capella version, as the specification demands: the snapshot rejects, the repaired code accepts *)
    verify_signature_orig sha256 bytes toy_verify mainnet_like (env (v_capella mainnet_like) (v_capella mainnet_like)) gvr 5 [] = false /\
    verify_signature sha256 bytes toy_verify mainnet_like (env (v_capella mainnet_like) (v_capella mainnet_like)) gvr 5 [] = true /\
    (* signed under the DENEB version with the Deneb digest: the snapshot accepts, the repaired code rejects *)
    verify_signature_orig sha256 bytes toy_verify mainnet_like (env (v_deneb mainnet_like) (v_deneb mainnet_like)) gvr 5 [] = true /\
    verify_signature sha256 bytes toy_verify mainnet_like (env (v_deneb mainnet_like) (v_deneb mainnet_like)) gvr 5 [] = false.
  Proof. vm_compute. repeat split; reflexivity. Qed.
End SnapshotSignature.
