(* Typed beacon state (superset of the five forks) and its conversion to/from SSZ values. *)
From Coq Require Import String.
From Coq Require Import NArith List Bool.
From RecordUpdate Require Import RecordSet.
From V Require Import Ssz.SszCore Beacon.Config Beacon.Schemas.
Import ListNotations RecordSetNotations.
Local Open Scope N_scope.
Local Open Scope string_scope.

Record Validator := mkValidator {
  v_pubkey : bytes; v_withdrawal_credentials : bytes; v_effective_balance : N; v_slashed : bool;
  v_activation_eligibility_epoch : N; v_activation_epoch : N; v_exit_epoch : N; v_withdrawable_epoch : N }.
#[export] Instance etaValidator : Settable _ :=
  settable! mkValidator <v_pubkey; v_withdrawal_credentials; v_effective_balance; v_slashed;
    v_activation_eligibility_epoch; v_activation_epoch; v_exit_epoch; v_withdrawable_epoch>.

Record Checkpoint := mkCheckpoint { cp_epoch : N; cp_root : bytes }.
Record ForkRec := mkFork { f_previous_version : bytes; f_current_version : bytes; f_epoch : N }.
Record Header := mkHeader { h_slot : N; h_proposer_index : N; h_parent_root : bytes; h_state_root : bytes; h_body_root : bytes }.
Record Eth1Data := mkEth1Data { e_deposit_root : bytes; e_deposit_count : N; e_block_hash : bytes }.
Record SyncCommittee := mkSyncCommittee { sc_pubkeys : list bytes; sc_aggregate_pubkey : bytes }.

Record BeaconState := mkState {
  genesis_time : N;
  genesis_validators_root : bytes;
  slot : N;
  fork_rec : ForkRec;
  latest_block_header : Header;
  block_roots : list bytes;
  state_roots : list bytes;
  historical_roots : list bytes;
  eth1_data : Eth1Data;
  eth1_data_votes : list Eth1Data;
  eth1_deposit_index : N;
  validators : list Validator;
  balances : list N;
  randao_mixes : list bytes;
  slashings : list N;
  previous_epoch_attestations : list value;    (* phase0: PendingAttestation values *)
  current_epoch_attestations : list value;
  previous_epoch_participation : list N;       (* altair+ *)
  current_epoch_participation : list N;
  justification_bits : list bool;
  previous_justified_checkpoint : Checkpoint;
  current_justified_checkpoint : Checkpoint;
  finalized_checkpoint : Checkpoint;
  inactivity_scores : list N;
  current_sync_committee : SyncCommittee;
  next_sync_committee : SyncCommittee;
  latest_execution_payload_header : value;     (* bellatrix+: ExecutionPayloadHeader value of the state's fork *)
  next_withdrawal_index : N;
  next_withdrawal_validator_index : N;
  historical_summaries : list (bytes * bytes)
}.
#[export] Instance etaState : Settable _ :=
  settable! mkState <genesis_time; genesis_validators_root; slot; fork_rec; latest_block_header; block_roots; state_roots;
    historical_roots; eth1_data; eth1_data_votes; eth1_deposit_index; validators; balances; randao_mixes; slashings;
    previous_epoch_attestations; current_epoch_attestations; previous_epoch_participation; current_epoch_participation;
    justification_bits; previous_justified_checkpoint; current_justified_checkpoint; finalized_checkpoint;
    inactivity_scores; current_sync_committee; next_sync_committee; latest_execution_payload_header;
    next_withdrawal_index; next_withdrawal_validator_index; historical_summaries>.

(* ---- records <-> values ---- *)
Definition validator_to_value (v : Validator) : value :=
  VCont [VBytes (v_pubkey v); VBytes (v_withdrawal_credentials v); VUint (v_effective_balance v); VBool (v_slashed v);
         VUint (v_activation_eligibility_epoch v); VUint (v_activation_epoch v); VUint (v_exit_epoch v); VUint (v_withdrawable_epoch v)].
Definition validator_of_value (x : value) : Validator :=
  mkValidator (vbytes (vfield x 0)) (vbytes (vfield x 1)) (vuint (vfield x 2)) (vbool (vfield x 3))
              (vuint (vfield x 4)) (vuint (vfield x 5)) (vuint (vfield x 6)) (vuint (vfield x 7)).
Definition cp_to_value (c : Checkpoint) : value := VCont [VUint (cp_epoch c); VBytes (cp_root c)].
Definition cp_of_value (x : value) : Checkpoint := mkCheckpoint (vuint (vfield x 0)) (vbytes (vfield x 1)).
Definition fork_to_value (f : ForkRec) : value := VCont [VBytes (f_previous_version f); VBytes (f_current_version f); VUint (f_epoch f)].
Definition fork_of_value (x : value) : ForkRec := mkFork (vbytes (vfield x 0)) (vbytes (vfield x 1)) (vuint (vfield x 2)).
Definition header_to_value (h : Header) : value :=
  VCont [VUint (h_slot h); VUint (h_proposer_index h); VBytes (h_parent_root h); VBytes (h_state_root h); VBytes (h_body_root h)].
Definition header_of_value (x : value) : Header :=
  mkHeader (vuint (vfield x 0)) (vuint (vfield x 1)) (vbytes (vfield x 2)) (vbytes (vfield x 3)) (vbytes (vfield x 4)).
Definition eth1_to_value (e : Eth1Data) : value := VCont [VBytes (e_deposit_root e); VUint (e_deposit_count e); VBytes (e_block_hash e)].
Definition eth1_of_value (x : value) : Eth1Data := mkEth1Data (vbytes (vfield x 0)) (vuint (vfield x 1)) (vbytes (vfield x 2)).
Definition sc_to_value (s : SyncCommittee) : value := VCont [VSeq (map VBytes (sc_pubkeys s)); VBytes (sc_aggregate_pubkey s)].
Definition sc_of_value (x : value) : SyncCommittee := mkSyncCommittee (map vbytes (vseq (vfield x 0))) (vbytes (vfield x 1)).

Definition state_field_to_value (st : BeaconState) (name : string) : value :=
  if name =? "genesis_time" then VUint (genesis_time st) else
  if name =? "genesis_validators_root" then VBytes (genesis_validators_root st) else
  if name =? "slot" then VUint (slot st) else
  if name =? "fork" then fork_to_value (fork_rec st) else
  if name =? "latest_block_header" then header_to_value (latest_block_header st) else
  if name =? "block_roots" then VSeq (map VBytes (block_roots st)) else
  if name =? "state_roots" then VSeq (map VBytes (state_roots st)) else
  if name =? "historical_roots" then VSeq (map VBytes (historical_roots st)) else
  if name =? "eth1_data" then eth1_to_value (eth1_data st) else
  if name =? "eth1_data_votes" then VSeq (map eth1_to_value (eth1_data_votes st)) else
  if name =? "eth1_deposit_index" then VUint (eth1_deposit_index st) else
  if name =? "validators" then VSeq (map validator_to_value (validators st)) else
  if name =? "balances" then VSeq (map VUint (balances st)) else
  if name =? "randao_mixes" then VSeq (map VBytes (randao_mixes st)) else
  if name =? "slashings" then VSeq (map VUint (slashings st)) else
  if name =? "previous_epoch_attestations" then VSeq (previous_epoch_attestations st) else
  if name =? "current_epoch_attestations" then VSeq (current_epoch_attestations st) else
  if name =? "previous_epoch_participation" then VSeq (map VUint (previous_epoch_participation st)) else
  if name =? "current_epoch_participation" then VSeq (map VUint (current_epoch_participation st)) else
  if name =? "justification_bits" then VBits (justification_bits st) else
  if name =? "previous_justified_checkpoint" then cp_to_value (previous_justified_checkpoint st) else
  if name =? "current_justified_checkpoint" then cp_to_value (current_justified_checkpoint st) else
  if name =? "finalized_checkpoint" then cp_to_value (finalized_checkpoint st) else
  if name =? "inactivity_scores" then VSeq (map VUint (inactivity_scores st)) else
  if name =? "current_sync_committee" then sc_to_value (current_sync_committee st) else
  if name =? "next_sync_committee" then sc_to_value (next_sync_committee st) else
  if name =? "latest_execution_payload_header" then latest_execution_payload_header st else
  if name =? "next_withdrawal_index" then VUint (next_withdrawal_index st) else
  if name =? "next_withdrawal_validator_index" then VUint (next_withdrawal_validator_index st) else
  if name =? "historical_summaries" then VSeq (map (fun p => VCont [VBytes (fst p); VBytes (snd p)]) (historical_summaries st)) else
  VUint 0.

Definition state_to_value (c : Config) (f : fork) (st : BeaconState) : value :=
  VCont (map (fun nt => state_field_to_value st (fst nt)) (state_fields c f)).

Definition empty_sc : SyncCommittee := mkSyncCommittee [] [].
Definition state_of_value (c : Config) (f : fork) (x : value) : BeaconState :=
  let t := BeaconStateT c f in
  let g := vget t x in
  {| genesis_time := vuint (g "genesis_time");
     genesis_validators_root := vbytes (g "genesis_validators_root");
     slot := vuint (g "slot");
     fork_rec := fork_of_value (g "fork");
     latest_block_header := header_of_value (g "latest_block_header");
     block_roots := map vbytes (vseq (g "block_roots"));
     state_roots := map vbytes (vseq (g "state_roots"));
     historical_roots := map vbytes (vseq (g "historical_roots"));
     eth1_data := eth1_of_value (g "eth1_data");
     eth1_data_votes := map eth1_of_value (vseq (g "eth1_data_votes"));
     eth1_deposit_index := vuint (g "eth1_deposit_index");
     validators := map validator_of_value (vseq (g "validators"));
     balances := map vuint (vseq (g "balances"));
     randao_mixes := map vbytes (vseq (g "randao_mixes"));
     slashings := map vuint (vseq (g "slashings"));
     previous_epoch_attestations := if fork_ge f Altair then [] else vseq (g "previous_epoch_attestations");
     current_epoch_attestations := if fork_ge f Altair then [] else vseq (g "current_epoch_attestations");
     previous_epoch_participation := if fork_ge f Altair then map vuint (vseq (g "previous_epoch_participation")) else [];
     current_epoch_participation := if fork_ge f Altair then map vuint (vseq (g "current_epoch_participation")) else [];
     justification_bits := vbits (g "justification_bits");
     previous_justified_checkpoint := cp_of_value (g "previous_justified_checkpoint");
     current_justified_checkpoint := cp_of_value (g "current_justified_checkpoint");
     finalized_checkpoint := cp_of_value (g "finalized_checkpoint");
     inactivity_scores := if fork_ge f Altair then map vuint (vseq (g "inactivity_scores")) else [];
     current_sync_committee := if fork_ge f Altair then sc_of_value (g "current_sync_committee") else empty_sc;
     next_sync_committee := if fork_ge f Altair then sc_of_value (g "next_sync_committee") else empty_sc;
     latest_execution_payload_header := if fork_ge f Bellatrix then g "latest_execution_payload_header" else VCont [];
     next_withdrawal_index := if fork_ge f Capella then vuint (g "next_withdrawal_index") else 0;
     next_withdrawal_validator_index := if fork_ge f Capella then vuint (g "next_withdrawal_validator_index") else 0;
     historical_summaries := if fork_ge f Capella
        then map (fun p => (vbytes (vfield p 0), vbytes (vfield p 1))) (vseq (g "historical_summaries")) else [] |}.
