(* Entry points of the executable beacon model: bytes in, bytes out. Used by the extracted OCaml driver. *)
From Coq Require Import String.
From Coq Require Import NArith List Bool.
From V Require Import Base.Sha256 Ssz.SszCore Beacon.Config Beacon.Schemas Beacon.State
  Beacon.Spec.Helpers Beacon.Spec.Epoch Beacon.Spec.Block Beacon.Spec.Transition.
Import ListNotations.
Local Open Scope string_scope.
Local Open Scope list_scope.
Local Open Scope N_scope.

(* zero-hash table for SHA-256, depth 0..64, computed once *)
Definition zh_table : list bytes :=
  (fix go (n : nat) (z : bytes) : list bytes := match n with O => [z] | S k => z :: go k (sha256 (z ++ z)) end) 64%nat (repeat 0 32).
Definition zh_lookup (d : nat) : bytes := nth d zh_table [].

Inductive result :=
| RBadInput (what : string)       (* the bytes do not decode under the stated fork/schema *)
| RReject                         (* the Spec rejects (assertion failure) *)
| ROk (f : fork) (post : bytes) (root : bytes).

(* [hash] is Base.Sha256.sha256, possibly wrapped by the driver in a memo table (a pure function: caching
   cannot change any result) *)
Definition mk_env (c : Config) (hash : bytes -> bytes)
    (verify : bytes -> bytes -> bytes -> bool) (fav : list bytes -> bytes -> bytes -> bool)
    (agg : list bytes -> bytes) (engine : value -> list bytes -> bytes -> bool) : Env :=
  mkEnv c hash zh_lookup verify fav agg engine.

Definition decode_state (c : Config) (f : fork) (bs : bytes) : option BeaconState :=
  match deserialize (BeaconStateT c f) bs with
  | Some v => Some (state_of_value c f v)
  | None => None
  end.
Definition encode_state (c : Config) (f : fork) (st : BeaconState) : bytes :=
  serialize (BeaconStateT c f) (state_to_value c f st).

Definition finish (E : Env) (r : option (fork * BeaconState)) : result :=
  match r with
  | None => RReject
  | Some (f, st) =>
      if has_type (BeaconStateT (cfg E) f) (state_to_value (cfg E) f st)
      then ROk f (encode_state (cfg E) f st) (state_root E f st)
      else RReject      (* a uint64 of the Spec overflowed: the pyspec raises *)
  end.

Definition run_slots (E : Env) (f : fork) (pre : bytes) (target : N) : result :=
  match decode_state (cfg E) f pre with
  | None => RBadInput "pre-state"
  | Some st => finish E (process_slots E f st target)
  end.

Definition run_transition (E : Env) (f : fork) (pre : bytes) (bf : fork) (blk : bytes) (validate : bool) : result :=
  match decode_state (cfg E) f pre with
  | None => RBadInput "pre-state"
  | Some st =>
      match deserialize (SignedBeaconBlockT (cfg E) bf) blk with
      | None => RBadInput "block"
      | Some sb => finish E (state_transition E f st bf sb validate)
      end
  end.

(* third component: true iff the registry has fewer validators than SLOTS_PER_EPOCH (zrnt documents that it
   refuses to build such a state because it cannot derive a full epochs context for it) *)
Definition run_genesis (E : Env) (eth1_block_hash : bytes) (eth1_timestamp : N) (deposits : bytes) : result * bool * bool :=
  match deserialize (TList DepositT (2 ^ 32)) deposits with
  | None => (RBadInput "deposits", false, false)
  | Some v =>
      match initialize_beacon_state_from_eth1 E eth1_block_hash eth1_timestamp (vseq v) with
      | None => (RReject, false, false)
      | Some st => (finish E (Some (Phase0, st)), is_valid_genesis_state E st,
                    N.of_nat (length (validators st)) <? SLOTS_PER_EPOCH (cfg E))
      end
  end.

(* names of the top-level state fields on which two encodings differ (diagnostics) *)
Definition diff_state_fields (c : Config) (f : fork) (a b : bytes) : list string :=
  match deserialize (BeaconStateT c f) a, deserialize (BeaconStateT c f) b with
  | Some (VCont va), Some (VCont vb) =>
      map (fun x => fst (fst x))
          (filter (fun x => negb (value_eqb (snd (fst x)) (snd x)))
                  (combine (combine (map fst (state_fields c f)) va) vb))
  | None, _ => ["<first does not decode>"]
  | _, None => ["<second does not decode>"]
  | _, _ => ["<not containers>"]
  end.

(* ---- C07 / C08: what the Spec says an epochs context must contain, computed from a state ---- *)
Record epc_view := mkEpcView {
  ev_current_epoch : N;
  ev_active : list (list N);                   (* prev, cur, next *)
  ev_committees : list (list (list (list N))); (* per epoch (prev,cur,next): per slot: per committee index: members *)
  ev_proposers : list (option N);              (* per slot of the current epoch *)
  ev_effective_balances : list N;
  ev_total_active_stake : N;
  ev_sync_current : option (list N);
  ev_sync_next : option (list N)
}.

Section EpcView.
  Variable E : Env.
  Let c := cfg E.
  Definition committees_of_epoch (st : BeaconState) (epoch : N) : list (list (list N)) :=
    let per_slot := get_committee_count_per_slot E st epoch in
    map (fun s =>
           map (fun i => match get_beacon_committee E st (compute_start_slot_at_epoch E epoch + s) i with
                         | Some l => l | None => [] end)
               (seqN 0 (N.to_nat per_slot)))
        (seqN 0 (N.to_nat (SLOTS_PER_EPOCH c))).
  Definition proposer_at (st : BeaconState) (s : N) : option N :=
    (* get_beacon_proposer_index of the state advanced to slot s within the same epoch: only state.slot enters the seed *)
    let epoch := get_current_epoch E st in
    let seed := Hash E (get_seed E st epoch DOMAIN_BEACON_PROPOSER ++ uint_to_bytes 8 s) in
    compute_proposer_index E st (get_active_validator_indices st epoch) seed.
  Definition sync_indices_of (st : BeaconState) (sc : SyncCommittee) : option (list N) :=
    all_some (map (fun pk => find_pubkey pk (validators st) 0) (sc_pubkeys sc)).
  Definition spec_epc_view (f : fork) (st : BeaconState) : epc_view :=
    let ce := get_current_epoch E st in
    let pe := get_previous_epoch E st in
    {| ev_current_epoch := ce;
       ev_active := [get_active_validator_indices st pe; get_active_validator_indices st ce; get_active_validator_indices st (ce + 1)];
       ev_committees := [committees_of_epoch st pe; committees_of_epoch st ce; committees_of_epoch st (ce + 1)];
       ev_proposers := map (fun s => proposer_at st (compute_start_slot_at_epoch E ce + s)) (seqN 0 (N.to_nat (SLOTS_PER_EPOCH c)));
       ev_effective_balances := map v_effective_balance (validators st);
       ev_total_active_stake := get_total_active_balance E st;
       ev_sync_current := if fork_ge f Altair then sync_indices_of st (current_sync_committee st) else None;
       ev_sync_next := if fork_ge f Altair then sync_indices_of st (next_sync_committee st) else None |}.
  Definition run_epc_view (f : fork) (bs : bytes) : option epc_view :=
    match decode_state c f bs with Some st => Some (spec_epc_view f st) | None => None end.
End EpcView.

(* ---- diagnostics: name the first stage of state_transition at which the Spec rejects ---- *)
Section Diagnose.
  Variable E : Env.
  Let c := cfg E.
  Definition first_failing_op (f : fork) (st : BeaconState) (name : string) (ops : list value)
             (fn : BeaconState -> value -> option BeaconState) : BeaconState + string :=
    (fix go (i : nat) (ops : list value) (st : BeaconState) : BeaconState + string :=
       match ops with
       | [] => inl st
       | op :: ops' => match fn st op with
                       | Some st' => go (S i) ops' st'
                       | None => inr (String.append name (String.append "[" (String (Ascii.ascii_of_nat (48 + i)) "]")))
                       end
       end) 0%nat ops st.
  Definition diagnose_block (f : fork) (st : BeaconState) (blk : value) : string :=
    let body := vfield blk 4 in
    match process_block_header E f st blk with
    | None => "process_block_header"
    | Some st =>
    match (match f with
           | Phase0 | Altair => inl st
           | Bellatrix => if is_execution_enabled E f st body
                          then match process_execution_payload E f st body with Some s => inl s | None => inr "process_execution_payload" end
                          else inl st
           | _ => match process_withdrawals E f st (body_get E f body "execution_payload") with
                  | None => inr "process_withdrawals"
                  | Some st => match process_execution_payload E f st body with Some s => inl s | None => inr "process_execution_payload" end
                  end
           end) with
    | inr e => e
    | inl st =>
    match process_randao E f st body with
    | None => "process_randao"
    | Some st =>
    let st := process_eth1_data E f st body in
    let deposits := vseq (body_get E f body "deposits") in
    if negb (N.of_nat (length deposits) =? N.min (MAX_DEPOSITS c) (e_deposit_count (eth1_data st) - eth1_deposit_index st))
    then "deposit-count" else
    match first_failing_op f st "proposer_slashing" (vseq (body_get E f body "proposer_slashings")) (process_proposer_slashing E f) with
    | inr e => e | inl st =>
    match first_failing_op f st "attester_slashing" (vseq (body_get E f body "attester_slashings")) (process_attester_slashing E f) with
    | inr e => e | inl st =>
    match first_failing_op f st "attestation" (vseq (body_get E f body "attestations")) (process_attestation E f) with
    | inr e => e | inl st =>
    match first_failing_op f st "deposit" deposits (process_deposit E f) with
    | inr e => e | inl st =>
    match first_failing_op f st "voluntary_exit" (vseq (body_get E f body "voluntary_exits")) (process_voluntary_exit E f) with
    | inr e => e | inl st =>
    match (if fork_ge f Capella
           then first_failing_op f st "bls_to_execution_change" (vseq (body_get E f body "bls_to_execution_changes")) (process_bls_to_execution_change E)
           else inl st) with
    | inr e => e | inl st =>
    if fork_ge f Altair
    then match process_sync_aggregate E st (body_get E f body "sync_aggregate") with None => "process_sync_aggregate" | Some _ => "accepted" end
    else "accepted"
    end end end end end end end end end.

  Definition diagnose_transition (f : fork) (pre : bytes) (bf : fork) (blk : bytes) (validate : bool) : string :=
    match decode_state c f pre, deserialize (SignedBeaconBlockT c bf) blk with
    | Some st, Some sb =>
        let b := vfield sb 0 in
        match process_slots E f st (vuint (vfield b 0)) with
        | None => "process_slots"
        | Some (f', st1) =>
            if negb (fork_idx f' =? fork_idx bf) then "block-fork-differs-from-state-fork"
            else if validate && negb (verify_block_signature E f' st1 sb) then "block-signature"
            else match diagnose_block f' st1 b with
                 | "accepted" =>
                     match process_block E f' st1 b with
                     | Some st2 => if validate && negb (bytes_eqb (vbytes (vfield b 3)) (state_root E f' st2)) then "state-root" else "accepted"
                     | None => "process_block(?)"
                     end
                 | e => e
                 end
        end
    | _, _ => "undecodable"
    end.
End Diagnose.

(* hash-tree-root of an execution payload value of fork f (what the engine is shown) *)
Definition payload_root (E : Env) (f : fork) (p : value) : bytes := htr E (ExecutionPayloadT (cfg E) f) p.

(* hash-tree-root (Spec merkleization) of a state given as SSZ bytes: compared with the root zrnt's tree-backed view reports *)
Definition run_state_root (E : Env) (f : fork) (bs : bytes) : option bytes :=
  match decode_state (cfg E) f bs with Some st => Some (state_root E f st) | None => None end.
