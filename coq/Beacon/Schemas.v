(* SSZ schemas of the consensus-specs containers (phase0 .. deneb) as functions of the configuration. *)
From Coq Require Import String.
From Coq Require Import NArith List.
From V Require Import Ssz.SszCore Beacon.Config.
Import ListNotations.
Local Open Scope N_scope.
Local Open Scope string_scope.

Definition u64 := TUint 8.
Definition u8 := TUint 1.
Definition u256 := TUint 32.
Definition B4 := TByteVector 4.
Definition B20 := TByteVector 20.
Definition B32 := TByteVector 32.
Definition B48 := TByteVector 48.
Definition B96 := TByteVector 96.

Definition ForkT := TContainer [("previous_version", B4); ("current_version", B4); ("epoch", u64)].
Definition ForkDataT := TContainer [("current_version", B4); ("genesis_validators_root", B32)].
Definition SigningDataT := TContainer [("object_root", B32); ("domain", B32)].
Definition CheckpointT := TContainer [("epoch", u64); ("root", B32)].
Definition ValidatorT := TContainer
  [("pubkey", B48); ("withdrawal_credentials", B32); ("effective_balance", u64); ("slashed", TBool);
   ("activation_eligibility_epoch", u64); ("activation_epoch", u64); ("exit_epoch", u64); ("withdrawable_epoch", u64)].
Definition AttestationDataT := TContainer
  [("slot", u64); ("index", u64); ("beacon_block_root", B32); ("source", CheckpointT); ("target", CheckpointT)].
Definition Eth1DataT := TContainer [("deposit_root", B32); ("deposit_count", u64); ("block_hash", B32)].
Definition BeaconBlockHeaderT := TContainer
  [("slot", u64); ("proposer_index", u64); ("parent_root", B32); ("state_root", B32); ("body_root", B32)].
Definition SignedBeaconBlockHeaderT := TContainer [("message", BeaconBlockHeaderT); ("signature", B96)].
Definition DepositMessageT := TContainer [("pubkey", B48); ("withdrawal_credentials", B32); ("amount", u64)].
Definition DepositDataT := TContainer [("pubkey", B48); ("withdrawal_credentials", B32); ("amount", u64); ("signature", B96)].
Definition DepositT := TContainer [("proof", TVector B32 33); ("data", DepositDataT)].
Definition VoluntaryExitT := TContainer [("epoch", u64); ("validator_index", u64)].
Definition SignedVoluntaryExitT := TContainer [("message", VoluntaryExitT); ("signature", B96)].
Definition HistoricalBatchRootsT (n : N) := TVector B32 n.
Definition HistoricalSummaryT := TContainer [("block_summary_root", B32); ("state_summary_root", B32)].
Definition WithdrawalT := TContainer [("index", u64); ("validator_index", u64); ("address", B20); ("amount", u64)].
Definition BLSToExecutionChangeT := TContainer [("validator_index", u64); ("from_bls_pubkey", B48); ("to_execution_address", B20)].
Definition SignedBLSToExecutionChangeT := TContainer [("message", BLSToExecutionChangeT); ("signature", B96)].

Section WithConfig.
  Variable c : Config.

  Definition PendingAttestationT := TContainer
    [("aggregation_bits", TBitlist (MAX_VALIDATORS_PER_COMMITTEE c)); ("data", AttestationDataT);
     ("inclusion_delay", u64); ("proposer_index", u64)].
  Definition AttestationT := TContainer
    [("aggregation_bits", TBitlist (MAX_VALIDATORS_PER_COMMITTEE c)); ("data", AttestationDataT); ("signature", B96)].
  Definition IndexedAttestationT := TContainer
    [("attesting_indices", TList u64 (MAX_VALIDATORS_PER_COMMITTEE c)); ("data", AttestationDataT); ("signature", B96)].
  Definition AttesterSlashingT := TContainer [("attestation_1", IndexedAttestationT); ("attestation_2", IndexedAttestationT)].
  Definition ProposerSlashingT := TContainer [("signed_header_1", SignedBeaconBlockHeaderT); ("signed_header_2", SignedBeaconBlockHeaderT)].
  Definition SyncCommitteeT := TContainer [("pubkeys", TVector B48 (SYNC_COMMITTEE_SIZE c)); ("aggregate_pubkey", B48)].
  Definition SyncAggregateT := TContainer
    [("sync_committee_bits", TBitvector (SYNC_COMMITTEE_SIZE c)); ("sync_committee_signature", B96)].
  Definition HistoricalBatchT := TContainer
    [("block_roots", TVector B32 (SLOTS_PER_HISTORICAL_ROOT c)); ("state_roots", TVector B32 (SLOTS_PER_HISTORICAL_ROOT c))].

  Definition payload_common : list (string * ty) :=
    [("parent_hash", B32); ("fee_recipient", B20); ("state_root", B32); ("receipts_root", B32);
     ("logs_bloom", TByteVector (BYTES_PER_LOGS_BLOOM c)); ("prev_randao", B32); ("block_number", u64);
     ("gas_limit", u64); ("gas_used", u64); ("timestamp", u64);
     ("extra_data", TByteList (MAX_EXTRA_DATA_BYTES c)); ("base_fee_per_gas", u256); ("block_hash", B32)].
  Definition TransactionsT := TList (TByteList (MAX_BYTES_PER_TRANSACTION c)) (MAX_TRANSACTIONS_PER_PAYLOAD c).
  Definition WithdrawalsT := TList WithdrawalT (MAX_WITHDRAWALS_PER_PAYLOAD c).
  Definition ExecutionPayloadT (f : fork) : ty :=
    TContainer (payload_common ++ [("transactions", TransactionsT)]
      ++ (if fork_ge f Capella then [("withdrawals", WithdrawalsT)] else [])
      ++ (if fork_ge f Deneb then [("blob_gas_used", u64); ("excess_blob_gas", u64)] else [])).
  Definition ExecutionPayloadHeaderT (f : fork) : ty :=
    TContainer (payload_common ++ [("transactions_root", B32)]
      ++ (if fork_ge f Capella then [("withdrawals_root", B32)] else [])
      ++ (if fork_ge f Deneb then [("blob_gas_used", u64); ("excess_blob_gas", u64)] else [])).

  Definition body_fields (f : fork) : list (string * ty) :=
    [("randao_reveal", B96); ("eth1_data", Eth1DataT); ("graffiti", B32);
     ("proposer_slashings", TList ProposerSlashingT (MAX_PROPOSER_SLASHINGS c));
     ("attester_slashings", TList AttesterSlashingT (MAX_ATTESTER_SLASHINGS c));
     ("attestations", TList AttestationT (MAX_ATTESTATIONS c));
     ("deposits", TList DepositT (MAX_DEPOSITS c));
     ("voluntary_exits", TList SignedVoluntaryExitT (MAX_VOLUNTARY_EXITS c))]
    ++ (if fork_ge f Altair then [("sync_aggregate", SyncAggregateT)] else [])
    ++ (if fork_ge f Bellatrix then [("execution_payload", ExecutionPayloadT f)] else [])
    ++ (if fork_ge f Capella then [("bls_to_execution_changes", TList SignedBLSToExecutionChangeT (MAX_BLS_TO_EXECUTION_CHANGES c))] else [])
    ++ (if fork_ge f Deneb then [("blob_kzg_commitments", TList B48 (MAX_BLOB_COMMITMENTS_PER_BLOCK c))] else []).
  Definition BeaconBlockBodyT (f : fork) := TContainer (body_fields f).
  Definition BeaconBlockT (f : fork) := TContainer
    [("slot", u64); ("proposer_index", u64); ("parent_root", B32); ("state_root", B32); ("body", BeaconBlockBodyT f)].
  Definition SignedBeaconBlockT (f : fork) := TContainer [("message", BeaconBlockT f); ("signature", B96)].

  Definition state_fields (f : fork) : list (string * ty) :=
    [("genesis_time", u64); ("genesis_validators_root", B32); ("slot", u64); ("fork", ForkT);
     ("latest_block_header", BeaconBlockHeaderT);
     ("block_roots", TVector B32 (SLOTS_PER_HISTORICAL_ROOT c)); ("state_roots", TVector B32 (SLOTS_PER_HISTORICAL_ROOT c));
     ("historical_roots", TList B32 (HISTORICAL_ROOTS_LIMIT c));
     ("eth1_data", Eth1DataT);
     ("eth1_data_votes", TList Eth1DataT (EPOCHS_PER_ETH1_VOTING_PERIOD c * SLOTS_PER_EPOCH c));
     ("eth1_deposit_index", u64);
     ("validators", TList ValidatorT (VALIDATOR_REGISTRY_LIMIT c)); ("balances", TList u64 (VALIDATOR_REGISTRY_LIMIT c));
     ("randao_mixes", TVector B32 (EPOCHS_PER_HISTORICAL_VECTOR c)); ("slashings", TVector u64 (EPOCHS_PER_SLASHINGS_VECTOR c))]
    ++ (if fork_ge f Altair
        then [("previous_epoch_participation", TList u8 (VALIDATOR_REGISTRY_LIMIT c));
              ("current_epoch_participation", TList u8 (VALIDATOR_REGISTRY_LIMIT c))]
        else [("previous_epoch_attestations", TList PendingAttestationT (MAX_ATTESTATIONS c * SLOTS_PER_EPOCH c));
              ("current_epoch_attestations", TList PendingAttestationT (MAX_ATTESTATIONS c * SLOTS_PER_EPOCH c))])
    ++ [("justification_bits", TBitvector 4);
        ("previous_justified_checkpoint", CheckpointT); ("current_justified_checkpoint", CheckpointT);
        ("finalized_checkpoint", CheckpointT)]
    ++ (if fork_ge f Altair
        then [("inactivity_scores", TList u64 (VALIDATOR_REGISTRY_LIMIT c));
              ("current_sync_committee", SyncCommitteeT); ("next_sync_committee", SyncCommitteeT)] else [])
    ++ (if fork_ge f Bellatrix then [("latest_execution_payload_header", ExecutionPayloadHeaderT f)] else [])
    ++ (if fork_ge f Capella
        then [("next_withdrawal_index", u64); ("next_withdrawal_validator_index", u64);
              ("historical_summaries", TList HistoricalSummaryT (HISTORICAL_ROOTS_LIMIT c))] else []).
  Definition BeaconStateT (f : fork) := TContainer (state_fields f).
End WithConfig.

(* ---- untyped accessors on SSZ values ---- *)
Definition vfield (v : value) (i : nat) : value :=
  match v with VCont vs => nth i vs (VUint 0) | _ => VUint 0 end.
Definition vuint (v : value) : N := match v with VUint n => n | _ => 0 end.
Definition vbool (v : value) : bool := match v with VBool b => b | _ => false end.
Definition vbytes (v : value) : bytes := match v with VBytes b => b | _ => [] end.
Definition vbits (v : value) : list bool := match v with VBits b => b | _ => [] end.
Definition vseq (v : value) : list value := match v with VSeq l => l | _ => [] end.

Fixpoint index_of (name : string) (fs : list (string * ty)) (i : nat) : option nat :=
  match fs with
  | [] => None
  | (n, _) :: fs' => if String.eqb n name then Some i else index_of name fs' (S i)
  end.
(* field of a container value by name, given its schema *)
Definition vget (t : ty) (v : value) (name : string) : value :=
  match t with
  | TContainer fs => match index_of name fs 0 with Some i => vfield v i | None => VUint 0 end
  | _ => VUint 0
  end.
Definition field_ty (t : ty) (name : string) : ty :=
  match t with
  | TContainer fs =>
      (fix go (fs : list (string * ty)) : ty :=
         match fs with [] => TBool | (n, ft) :: fs' => if String.eqb n name then ft else go fs' end) fs
  | _ => TBool
  end.

(* default (all-zero) value of a type *)
Fixpoint default_value (t : ty) : value :=
  match t with
  | TUint _ => VUint 0
  | TBool => VBool false
  | TByteVector n => VBytes (repeat 0 (N.to_nat n))
  | TByteList _ => VBytes []
  | TBitvector n => VBits (repeat false (N.to_nat n))
  | TBitlist _ => VBits []
  | TVector et n => VSeq (repeat (default_value et) (N.to_nat n))
  | TList _ _ => VSeq []
  | TContainer fs =>
      VCont ((fix go (fs : list (string * ty)) : list value :=
                match fs with [] => [] | (_, ft) :: fs' => default_value ft :: go fs' end) fs)
  end.
