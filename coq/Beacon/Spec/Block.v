(* process_block and the block operations: phase0 .. deneb. Pyspec transliteration; blocks are SSZ values. *)
From Coq Require Import String.
From Coq Require Import NArith List Bool.
From RecordUpdate Require Import RecordSet.
From V Require Import Ssz.SszCore Beacon.Config Beacon.Schemas Beacon.State Beacon.Spec.Helpers Beacon.Spec.Epoch.
Import ListNotations RecordSetNotations.
Local Open Scope string_scope.
Local Open Scope list_scope.
Local Open Scope N_scope.

Definition G2_POINT_AT_INFINITY : bytes := 192 :: repeat 0 95.

Section Block.
  Variable E : Env.
  Variable f : fork.
  Let c := cfg E.
  Notation htr := (htr E).

  Definition BodyT := BeaconBlockBodyT c f.
  Definition BlockT := BeaconBlockT c f.
  Definition body_get (body : value) (name : string) : value := vget BodyT body name.

  (* ---------- header ---------- *)
  Definition process_block_header (st : BeaconState) (blk : value) : option BeaconState :=
    let b_slot := vuint (vfield blk 0) in
    let b_proposer := vuint (vfield blk 1) in
    let b_parent := vbytes (vfield blk 2) in
    let body := vfield blk 4 in
    assert (b_slot =? slot st) ;;
    assert (h_slot (latest_block_header st) <? b_slot) ;;
    p <- get_beacon_proposer_index E st ;;
    assert (b_proposer =? p) ;;
    assert (bytes_eqb b_parent (htr BeaconBlockHeaderT (header_to_value (latest_block_header st)))) ;;
    let st := st <| latest_block_header := mkHeader b_slot b_proposer b_parent zero32 (htr BodyT body) |> in
    proposer <- nthN (validators st) b_proposer ;;
    assert (negb (v_slashed proposer)) ;;
    Some st.

  (* ---------- randao, eth1 ---------- *)
  Definition process_randao (st : BeaconState) (body : value) : option BeaconState :=
    let epoch := get_current_epoch E st in
    p <- get_beacon_proposer_index E st ;;
    proposer <- nthN (validators st) p ;;
    let reveal := vbytes (body_get body "randao_reveal") in
    let signing_root := compute_signing_root E (htr u64 (VUint epoch)) (get_domain E st DOMAIN_RANDAO epoch) in
    assert (bls_verify E (v_pubkey proposer) signing_root reveal) ;;
    let mix := xor_bytes (get_randao_mix E st epoch) (Hash E reveal) in
    Some (st <| randao_mixes := setN (randao_mixes st) (epoch mod EPOCHS_PER_HISTORICAL_VECTOR c) mix |>).

  Definition eth1_eqb (a b : Eth1Data) : bool :=
    bytes_eqb (e_deposit_root a) (e_deposit_root b) && (e_deposit_count a =? e_deposit_count b)
    && bytes_eqb (e_block_hash a) (e_block_hash b).
  Definition process_eth1_data (st : BeaconState) (body : value) : BeaconState :=
    let d := eth1_of_value (body_get body "eth1_data") in
    let st := st <| eth1_data_votes := eth1_data_votes st ++ [d] |> in
    let count := N.of_nat (length (filter (eth1_eqb d) (eth1_data_votes st))) in
    if EPOCHS_PER_ETH1_VOTING_PERIOD c * SLOTS_PER_EPOCH c <? count * 2 then st <| eth1_data := d |> else st.

  (* ---------- proposer slashing ---------- *)
  Definition process_proposer_slashing (st : BeaconState) (ps : value) : option BeaconState :=
    let sh1 := vfield ps 0 in let sh2 := vfield ps 1 in
    let h1 := vfield sh1 0 in let h2 := vfield sh2 0 in
    assert (vuint (vfield h1 0) =? vuint (vfield h2 0)) ;;
    assert (vuint (vfield h1 1) =? vuint (vfield h2 1)) ;;
    assert (negb (value_eqb h1 h2)) ;;
    let pi := vuint (vfield h1 1) in
    proposer <- nthN (validators st) pi ;;
    assert (is_slashable_validator proposer (get_current_epoch E st)) ;;
    let check sh :=
        let h := vfield sh 0 in
        let domain := get_domain E st DOMAIN_BEACON_PROPOSER (compute_epoch_at_slot E (vuint (vfield h 0))) in
        bls_verify E (v_pubkey proposer) (compute_signing_root E (htr BeaconBlockHeaderT h) domain) (vbytes (vfield sh 1)) in
    assert (check sh1) ;;
    assert (check sh2) ;;
    slash_validator E f st pi None.

  (* ---------- attester slashing ---------- *)
  Definition process_attester_slashing (st : BeaconState) (asl : value) : option BeaconState :=
    let a1 := vfield asl 0 in let a2 := vfield asl 1 in
    assert (is_slashable_attestation_data (vfield a1 1) (vfield a2 1)) ;;
    assert (is_valid_indexed_attestation E st a1) ;;
    assert (is_valid_indexed_attestation E st a2) ;;
    let i1 := map vuint (vseq (vfield a1 0)) in
    let i2 := map vuint (vseq (vfield a2 0)) in
    let common := sort_uniq (filter (fun i => memN i i2) i1) in
    r <- fold_left (fun (acc : option (BeaconState * bool)) i =>
           sb <- acc ;;
           let '(st, any) := sb in
           v <- nthN (validators st) i ;;
           if is_slashable_validator v (get_current_epoch E st)
           then st' <- slash_validator E f st i None ;; Some (st', true)
           else Some (st, any))
         common (Some (st, false)) ;;
    assert (snd r) ;; Some (fst r).

  (* ---------- attestations ---------- *)
  Definition get_attestation_participation_flag_indices (st : BeaconState) (data : value) (inclusion_delay : N) : option (list N) :=
    let justified := if cp_epoch (ad_target data) =? get_current_epoch E st
                     then current_justified_checkpoint st else previous_justified_checkpoint st in
    let is_matching_source := cp_eqb (ad_source data) justified in
    assert is_matching_source ;;
    troot <- get_block_root E st (cp_epoch (ad_target data)) ;;
    let is_matching_target := bytes_eqb (cp_root (ad_target data)) troot in
    hroot <- get_block_root_at_slot E st (ad_slot data) ;;
    let is_matching_head := is_matching_target && bytes_eqb (ad_beacon_block_root data) hroot in
    Some ((if inclusion_delay <=? integer_squareroot (SLOTS_PER_EPOCH c) then [TIMELY_SOURCE_FLAG_INDEX] else [])
       ++ (if is_matching_target && (fork_ge f Deneb || (inclusion_delay <=? SLOTS_PER_EPOCH c)) then [TIMELY_TARGET_FLAG_INDEX] else [])
       ++ (if is_matching_head && (inclusion_delay =? MIN_ATTESTATION_INCLUSION_DELAY c) then [TIMELY_HEAD_FLAG_INDEX] else [])).

  Definition process_attestation (st : BeaconState) (att : value) : option BeaconState :=
    let bits := vbits (vfield att 0) in
    let data := vfield att 1 in
    let tgt := ad_target data in
    let ce := get_current_epoch E st in
    assert ((cp_epoch tgt =? get_previous_epoch E st) || (cp_epoch tgt =? ce)) ;;
    assert (cp_epoch tgt =? compute_epoch_at_slot E (ad_slot data)) ;;
    assert (ad_slot data + MIN_ATTESTATION_INCLUSION_DELAY c <=? slot st) ;;
    assert (fork_ge f Deneb || (slot st <=? ad_slot data + SLOTS_PER_EPOCH c)) ;;
    assert (ad_index data <? get_committee_count_per_slot E st (cp_epoch tgt)) ;;
    committee <- get_beacon_committee E st (ad_slot data) (ad_index data) ;;
    assert (Nat.eqb (length bits) (length committee)) ;;
    match f with
    | Phase0 =>
        p <- get_beacon_proposer_index E st ;;
        let pa := VCont [VBits bits; data; VUint (slot st - ad_slot data); VUint p] in
        st <- (if cp_epoch tgt =? ce
               then assert (cp_eqb (ad_source data) (current_justified_checkpoint st)) ;;
                    Some (st <| current_epoch_attestations := current_epoch_attestations st ++ [pa] |>)
               else assert (cp_eqb (ad_source data) (previous_justified_checkpoint st)) ;;
                    Some (st <| previous_epoch_attestations := previous_epoch_attestations st ++ [pa] |>)) ;;
        ia <- get_indexed_attestation E st att ;;
        assert (is_valid_indexed_attestation E st ia) ;;
        Some st
    | _ =>
        flags <- get_attestation_participation_flag_indices st data (slot st - ad_slot data) ;;
        ia <- get_indexed_attestation E st att ;;
        assert (is_valid_indexed_attestation E st ia) ;;
        let is_cur := cp_epoch tgt =? ce in
        let part := if is_cur then current_epoch_participation st else previous_epoch_participation st in
        let brpi := get_base_reward_per_increment E st in
        let '(part, num) :=
            fold_left (fun (pn : list N * N) i =>
                fold_left (fun (pn : list N * N) fl =>
                    let '(part, num) := pn in
                    match nthN part i with
                    | Some cur =>
                        if memN fl flags && negb (has_flag cur fl)
                        then (setN part i (add_flag cur fl),
                              num + eff_bal st i / EFFECTIVE_BALANCE_INCREMENT c * brpi * flag_weight fl)
                        else (part, num)
                    | None => (part, num)
                    end) [0; 1; 2] pn)
              (select_bits bits committee) (part, 0) in
        let denom := (WEIGHT_DENOMINATOR - PROPOSER_WEIGHT) * WEIGHT_DENOMINATOR / PROPOSER_WEIGHT in
        let st := if is_cur then st <| current_epoch_participation := part |> else st <| previous_epoch_participation := part |> in
        p <- get_beacon_proposer_index E st ;;
        Some (increase_balance st p (num / denom))
    end.

  (* ---------- deposits ---------- *)
  Definition get_validator_from_deposit (pubkey wc : bytes) (amount : N) : Validator :=
    mkValidator pubkey wc (N.min (amount - amount mod EFFECTIVE_BALANCE_INCREMENT c) (MAX_EFFECTIVE_BALANCE c)) false
                FAR_FUTURE_EPOCH FAR_FUTURE_EPOCH FAR_FUTURE_EPOCH FAR_FUTURE_EPOCH.
  Definition add_validator_to_registry (st : BeaconState) (pubkey wc : bytes) (amount : N) : BeaconState :=
    let st := st <| validators := validators st ++ [get_validator_from_deposit pubkey wc amount] |>
                 <| balances := balances st ++ [amount] |> in
    if fork_ge f Altair
    then st <| previous_epoch_participation := previous_epoch_participation st ++ [0] |>
            <| current_epoch_participation := current_epoch_participation st ++ [0] |>
            <| inactivity_scores := inactivity_scores st ++ [0] |>
    else st.
  Fixpoint find_pubkey (pk : bytes) (vs : list Validator) (i : N) : option N :=
    match vs with
    | [] => None
    | v :: vs' => if bytes_eqb (v_pubkey v) pk then Some i else find_pubkey pk vs' (i + 1)
    end.
  Definition apply_deposit (st : BeaconState) (pubkey wc : bytes) (amount : N) (sig : bytes) : BeaconState :=
    match find_pubkey pubkey (validators st) 0 with
    | None =>
        let msg := VCont [VBytes pubkey; VBytes wc; VUint amount] in
        let domain := compute_domain E DOMAIN_DEPOSIT (GENESIS_FORK_VERSION c) zero32 in
        if bls_verify E pubkey (compute_signing_root E (htr DepositMessageT msg) domain) sig
        then add_validator_to_registry st pubkey wc amount else st
    | Some i => increase_balance st i amount
    end.
  Definition process_deposit (st : BeaconState) (dep : value) : option BeaconState :=
    let proof := map vbytes (vseq (vfield dep 0)) in
    let data := vfield dep 1 in
    assert (is_valid_merkle_branch E (htr DepositDataT data) proof (DEPOSIT_CONTRACT_TREE_DEPTH + 1)
              (eth1_deposit_index st) (e_deposit_root (eth1_data st))) ;;
    let st := st <| eth1_deposit_index := eth1_deposit_index st + 1 |> in
    Some (apply_deposit st (vbytes (vfield data 0)) (vbytes (vfield data 1)) (vuint (vfield data 2)) (vbytes (vfield data 3))).

  (* ---------- voluntary exits ---------- *)
  Definition process_voluntary_exit (st : BeaconState) (sve : value) : option BeaconState :=
    let ve := vfield sve 0 in
    let ve_epoch := vuint (vfield ve 0) in
    let vi := vuint (vfield ve 1) in
    v <- nthN (validators st) vi ;;
    let ce := get_current_epoch E st in
    assert (is_active_validator v ce) ;;
    assert (v_exit_epoch v =? FAR_FUTURE_EPOCH) ;;
    assert (ve_epoch <=? ce) ;;
    assert (v_activation_epoch v + SHARD_COMMITTEE_PERIOD c <=? ce) ;;
    let domain := if fork_ge f Deneb
                  then compute_domain E DOMAIN_VOLUNTARY_EXIT (CAPELLA_FORK_VERSION c) (genesis_validators_root st)
                  else get_domain E st DOMAIN_VOLUNTARY_EXIT ve_epoch in
    assert (bls_verify E (v_pubkey v) (compute_signing_root E (htr VoluntaryExitT ve) domain) (vbytes (vfield sve 1))) ;;
    initiate_validator_exit E st vi.

  (* ---------- capella: BLS to execution change ---------- *)
  Definition process_bls_to_execution_change (st : BeaconState) (sc : value) : option BeaconState :=
    let ch := vfield sc 0 in
    let vi := vuint (vfield ch 0) in
    let from_pk := vbytes (vfield ch 1) in
    let to_addr := vbytes (vfield ch 2) in
    v <- nthN (validators st) vi ;;
    let wc := v_withdrawal_credentials v in
    assert (nth 0 wc 1 =? BLS_WITHDRAWAL_PREFIX) ;;
    assert (bytes_eqb (skipn 1 wc) (skipn 1 (Hash E from_pk))) ;;
    let domain := compute_domain E DOMAIN_BLS_TO_EXECUTION_CHANGE (GENESIS_FORK_VERSION c) (genesis_validators_root st) in
    assert (bls_verify E from_pk (compute_signing_root E (htr BLSToExecutionChangeT ch) domain) (vbytes (vfield sc 1))) ;;
    Some (st <| validators := updN (validators st) vi
            (fun v => v <| v_withdrawal_credentials := (ETH1_ADDRESS_WITHDRAWAL_PREFIX :: repeat 0 11) ++ to_addr |>) |>).

  (* ---------- operations ---------- *)
  Definition for_ops (ops : list value) (fn : BeaconState -> value -> option BeaconState) (st : BeaconState) : option BeaconState :=
    fold_left (fun acc op => st <- acc ;; fn st op) ops (Some st).
  Definition process_operations (st : BeaconState) (body : value) : option BeaconState :=
    let deposits := vseq (body_get body "deposits") in
    assert (N.of_nat (length deposits) =? N.min (MAX_DEPOSITS c) (e_deposit_count (eth1_data st) - eth1_deposit_index st)) ;;
    assert (eth1_deposit_index st <=? e_deposit_count (eth1_data st)) ;;
    st <- for_ops (vseq (body_get body "proposer_slashings")) process_proposer_slashing st ;;
    st <- for_ops (vseq (body_get body "attester_slashings")) process_attester_slashing st ;;
    st <- for_ops (vseq (body_get body "attestations")) process_attestation st ;;
    st <- for_ops deposits process_deposit st ;;
    st <- for_ops (vseq (body_get body "voluntary_exits")) process_voluntary_exit st ;;
    if fork_ge f Capella
    then for_ops (vseq (body_get body "bls_to_execution_changes")) process_bls_to_execution_change st
    else Some st.

  (* ---------- altair: sync aggregate ---------- *)
  Definition process_sync_aggregate (st : BeaconState) (sa : value) : option BeaconState :=
    let bits := vbits (vfield sa 0) in
    let sig := vbytes (vfield sa 1) in
    let committee_pubkeys := sc_pubkeys (current_sync_committee st) in
    let participants := select_bits bits committee_pubkeys in
    let previous_slot := N.max (slot st) 1 - 1 in
    let domain := get_domain E st DOMAIN_SYNC_COMMITTEE (compute_epoch_at_slot E previous_slot) in
    root <- get_block_root_at_slot E st previous_slot ;;
    let signing_root := compute_signing_root E root domain in
    assert (match participants with
            | [] => bytes_eqb sig G2_POINT_AT_INFINITY
            | _ => bls_fast_aggregate_verify E participants signing_root sig
            end) ;;
    let total_active_increments := get_total_active_balance E st / EFFECTIVE_BALANCE_INCREMENT c in
    let total_base_rewards := get_base_reward_per_increment E st * total_active_increments in
    let max_participant_rewards := total_base_rewards * SYNC_REWARD_WEIGHT / WEIGHT_DENOMINATOR / SLOTS_PER_EPOCH c in
    let participant_reward := max_participant_rewards / SYNC_COMMITTEE_SIZE c in
    let proposer_reward := participant_reward * PROPOSER_WEIGHT / (WEIGHT_DENOMINATOR - PROPOSER_WEIGHT) in
    committee_indices <- all_some (map (fun pk => find_pubkey pk (validators st) 0) committee_pubkeys) ;;
    proposer <- get_beacon_proposer_index E st ;;
    Some (fold_left (fun st ib =>
            let '(i, b) := ib in
            if (b : bool) then increase_balance (increase_balance st i participant_reward) proposer proposer_reward
            else decrease_balance st i participant_reward)
          (combine committee_indices bits) st).

  (* ---------- bellatrix+: execution payload ---------- *)
  Definition PayloadT := ExecutionPayloadT c f.
  Definition HeaderT := ExecutionPayloadHeaderT c f.
  Definition pl_get (p : value) (name : string) : value := vget PayloadT p name.
  Definition is_merge_transition_complete (st : BeaconState) : bool :=
    negb (value_eqb (latest_execution_payload_header st) (default_value HeaderT)).
  Definition is_merge_transition_block (st : BeaconState) (body : value) : bool :=
    negb (is_merge_transition_complete st) && negb (value_eqb (body_get body "execution_payload") (default_value PayloadT)).
  Definition is_execution_enabled (st : BeaconState) (body : value) : bool :=
    is_merge_transition_block st body || is_merge_transition_complete st.
  Definition compute_timestamp_at_slot (st : BeaconState) (s : N) : N := genesis_time st + (s - GENESIS_SLOT) * SECONDS_PER_SLOT c.
  Definition kzg_commitment_to_versioned_hash (cm : bytes) : bytes := VERSIONED_HASH_VERSION_KZG :: skipn 1 (Hash E cm).

  Definition payload_to_header (p : value) : value :=
    match PayloadT with
    | TContainer fs =>
        VCont (map (fun nv : (string * ty) * value =>
                 let '((name, t), v) := nv in
                 if String.eqb name "transactions" then VBytes (htr t v)
                 else if String.eqb name "withdrawals" then VBytes (htr t v)
                 else v)
               (combine fs (match p with VCont vs => vs | _ => [] end)))
    | _ => VCont []
    end.

  Definition process_execution_payload (st : BeaconState) (body : value) : option BeaconState :=
    let payload := body_get body "execution_payload" in
    assert ((if fork_ge f Capella then false else negb (is_merge_transition_complete st))
            || bytes_eqb (vbytes (pl_get payload "parent_hash"))
                         (vbytes (vget HeaderT (latest_execution_payload_header st) "block_hash"))) ;;
    assert (bytes_eqb (vbytes (pl_get payload "prev_randao")) (get_randao_mix E st (get_current_epoch E st))) ;;
    assert (vuint (pl_get payload "timestamp") =? compute_timestamp_at_slot st (slot st)) ;;
    let commitments := if fork_ge f Deneb then map vbytes (vseq (body_get body "blob_kzg_commitments")) else [] in
    assert (N.of_nat (length commitments) <=? (if fork_ge f Deneb then MAX_BLOBS_PER_BLOCK c else 0)) ;;
    assert (engine_accepts E payload (map kzg_commitment_to_versioned_hash commitments)
                           (h_parent_root (latest_block_header st))) ;;
    Some (st <| latest_execution_payload_header := payload_to_header payload |>).

  (* ---------- capella: withdrawals ---------- *)
  Definition has_eth1_withdrawal_credential (v : Validator) : bool :=
    nth 0 (v_withdrawal_credentials v) 0 =? ETH1_ADDRESS_WITHDRAWAL_PREFIX.
  Definition is_fully_withdrawable_validator (v : Validator) (balance epoch : N) : bool :=
    has_eth1_withdrawal_credential v && (v_withdrawable_epoch v <=? epoch) && (0 <? balance).
  Definition is_partially_withdrawable_validator (v : Validator) (balance : N) : bool :=
    has_eth1_withdrawal_credential v && (v_effective_balance v =? MAX_EFFECTIVE_BALANCE c) && (MAX_EFFECTIVE_BALANCE c <? balance).
  (* withdrawals as (index, validator_index, address, amount) *)
  Fixpoint withdrawals_sweep (n : nat) (st : BeaconState) (epoch widx vidx : N) (acc : list (N * N * bytes * N))
    : list (N * N * bytes * N) :=
    match n with
    | O => acc
    | S n' =>
        match nthN (validators st) vidx, nthN (balances st) vidx with
        | Some v, Some bal =>
            let addr := skipn 12 (v_withdrawal_credentials v) in
            let '(acc, widx) :=
                if is_fully_withdrawable_validator v bal epoch then (acc ++ [(widx, vidx, addr, bal)], widx + 1)
                else if is_partially_withdrawable_validator v bal then (acc ++ [(widx, vidx, addr, bal - MAX_EFFECTIVE_BALANCE c)], widx + 1)
                else (acc, widx) in
            if N.of_nat (length acc) =? MAX_WITHDRAWALS_PER_PAYLOAD c then acc
            else withdrawals_sweep n' st epoch widx ((vidx + 1) mod N.of_nat (length (validators st))) acc
        | _, _ => acc
        end
    end.
  Definition get_expected_withdrawals (st : BeaconState) : list (N * N * bytes * N) :=
    let bound := N.min (N.of_nat (length (validators st))) (MAX_VALIDATORS_PER_WITHDRAWALS_SWEEP c) in
    withdrawals_sweep (N.to_nat bound) st (get_current_epoch E st) (next_withdrawal_index st) (next_withdrawal_validator_index st) [].
  Definition withdrawal_to_value (w : N * N * bytes * N) : value :=
    let '(i, vi, a, amt) := w in VCont [VUint i; VUint vi; VBytes a; VUint amt].
  Definition process_withdrawals (st : BeaconState) (payload : value) : option BeaconState :=
    let expected := get_expected_withdrawals st in
    let got := vseq (pl_get payload "withdrawals") in
    assert (Nat.eqb (length got) (length expected)) ;;
    assert (forallb (fun p => value_eqb (fst p) (withdrawal_to_value (snd p))) (combine got expected)) ;;
    let st := fold_left (fun st w => let '(_, vi, _, amt) := w in decrease_balance st vi amt) expected st in
    let n := N.of_nat (length (validators st)) in
    let st := match rev expected with
              | (i, _, _, _) :: _ => st <| next_withdrawal_index := i + 1 |>
              | [] => st end in
    Some (match rev expected with
          | (_, vi, _, _) :: _ =>
              if N.of_nat (length expected) =? MAX_WITHDRAWALS_PER_PAYLOAD c
              then st <| next_withdrawal_validator_index := (vi + 1) mod n |>
              else st <| next_withdrawal_validator_index := (next_withdrawal_validator_index st + MAX_VALIDATORS_PER_WITHDRAWALS_SWEEP c) mod n |>
          | [] => st <| next_withdrawal_validator_index := (next_withdrawal_validator_index st + MAX_VALIDATORS_PER_WITHDRAWALS_SWEEP c) mod n |>
          end).

  (* ---------- process_block ---------- *)
  Definition process_block (st : BeaconState) (blk : value) : option BeaconState :=
    let body := vfield blk 4 in
    st <- process_block_header st blk ;;
    st <- (match f with
           | Phase0 | Altair => Some st
           | Bellatrix => if is_execution_enabled st body then process_execution_payload st body else Some st
           | _ => st <- process_withdrawals st (body_get body "execution_payload") ;; process_execution_payload st body
           end) ;;
    st <- process_randao st body ;;
    let st := process_eth1_data st body in
    st <- process_operations st body ;;
    if fork_ge f Altair then process_sync_aggregate st (body_get body "sync_aggregate") else Some st.
End Block.
