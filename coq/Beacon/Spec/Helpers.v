(* Consensus-spec helper functions (phase0 beacon-chain.md "Helper functions", with the altair..deneb
   modifications selected by the fork parameter).  Transliteration of the pyspec; `option` = assert. *)
From Coq Require Import String.
From Coq Require Import NArith List Bool.
From RecordUpdate Require Import RecordSet.
From V Require Import Ssz.SszCore Beacon.Config Beacon.Schemas Beacon.State.
Import ListNotations RecordSetNotations.
Local Open Scope N_scope.

(* the environment: configuration and the cryptographic oracles *)
Record Env := mkEnv {
  cfg : Config;
  Hash : bytes -> bytes;
  zero_hashes : nat -> bytes;
  bls_verify : bytes -> bytes -> bytes -> bool;                       (* pubkey, message, signature *)
  bls_fast_aggregate_verify : list bytes -> bytes -> bytes -> bool;  (* pubkeys, message, signature *)
  bls_aggregate_pubkeys : list bytes -> bytes;                       (* eth_aggregate_pubkeys *)
  engine_accepts : value -> list bytes -> bytes -> bool              (* payload, versioned hashes, parent beacon root *)
}.

Notation "x <- a ;; b" := (match a with Some x => b | None => None end)
  (at level 61, a at next level, right associativity).
Notation "'assert' c ;; b" := (if c then b else None) (at level 61, c at next level, right associativity).

(* ---- list utilities ---- *)
(* the bound test keeps evaluation cheap for hostile indices (N.to_nat of 2^30 would build a huge unary number) *)
Definition nthN {A} (l : list A) (i : N) : option A :=
  if i <? N.of_nat (length l) then nth_error l (N.to_nat i) else None.
Fixpoint upd_nat {A} (l : list A) (i : nat) (f : A -> A) : list A :=
  match l, i with
  | [], _ => []
  | x :: l', O => f x :: l'
  | x :: l', S i' => x :: upd_nat l' i' f
  end.
Definition updN {A} (l : list A) (i : N) (f : A -> A) : list A :=
  if i <? N.of_nat (length l) then upd_nat l (N.to_nat i) f else l.
Definition setN {A} (l : list A) (i : N) (x : A) : list A := updN l i (fun _ => x).
Definition sumN (l : list N) : N := fold_left N.add l 0.
Fixpoint seqN (start : N) (len : nat) : list N :=
  match len with O => [] | S n => start :: seqN (start + 1) n end.
Definition indices {A} (l : list A) : list N := seqN 0 (length l).
Fixpoint bytes_eqb (a b : bytes) : bool :=
  match a, b with
  | [], [] => true
  | x :: a', y :: b' => (x =? y) && bytes_eqb a' b'
  | _, _ => false
  end.
Fixpoint list_eqb {A} (eqb : A -> A -> bool) (a b : list A) : bool :=
  match a, b with
  | [], [] => true
  | x :: a', y :: b' => eqb x y && list_eqb eqb a' b'
  | _, _ => false
  end.
Fixpoint value_eqb (a b : value) {struct a} : bool :=
  match a, b with
  | VUint x, VUint y => x =? y
  | VBool x, VBool y => Bool.eqb x y
  | VBytes x, VBytes y => bytes_eqb x y
  | VBits x, VBits y => list_eqb Bool.eqb x y
  | VSeq x, VSeq y =>
      (fix go (x y : list value) : bool :=
         match x, y with [], [] => true | p :: x', q :: y' => value_eqb p q && go x' y' | _, _ => false end) x y
  | VCont x, VCont y =>
      (fix go (x y : list value) : bool :=
         match x, y with [], [] => true | p :: x', q :: y' => value_eqb p q && go x' y' | _, _ => false end) x y
  | _, _ => false
  end.
Definition memN (x : N) (l : list N) : bool := existsb (N.eqb x) l.
Fixpoint xor_bytes (a b : bytes) : bytes :=
  match a, b with x :: a', y :: b' => N.lxor x y :: xor_bytes a' b' | _, _ => [] end.
Definition uint_to_bytes (n : nat) (v : N) : bytes := le_bytes n v.
Definition bytes_to_uint64 (b : bytes) : N := le_value (firstn 8 b).
Definition zero32 : bytes := repeat 0 32.
Fixpoint maxl (l : list N) (d : N) : N := match l with [] => d | x :: l' => maxl l' (N.max x d) end.

Section Spec.
  Variable E : Env.
  Variable f : fork.
  Let c := cfg E.

  Definition htr (t : ty) (v : value) : bytes := hash_tree_root (Hash E) (zero_hashes E) t v.

  (* ---- math / predicates ---- *)
  Definition integer_squareroot (n : N) : N := N.sqrt n.
  Definition is_active_validator (v : Validator) (epoch : N) : bool :=
    (v_activation_epoch v <=? epoch) && (epoch <? v_exit_epoch v).
  Definition is_eligible_for_activation_queue (v : Validator) : bool :=
    (v_activation_eligibility_epoch v =? FAR_FUTURE_EPOCH) && (v_effective_balance v =? MAX_EFFECTIVE_BALANCE c).
  Definition is_eligible_for_activation (st : BeaconState) (v : Validator) : bool :=
    (v_activation_eligibility_epoch v <=? cp_epoch (finalized_checkpoint st)) && (v_activation_epoch v =? FAR_FUTURE_EPOCH).
  Definition is_slashable_validator (v : Validator) (epoch : N) : bool :=
    negb (v_slashed v) && (v_activation_epoch v <=? epoch) && (epoch <? v_withdrawable_epoch v).

  (* ---- time ---- *)
  Definition compute_epoch_at_slot (s : N) : N := s / SLOTS_PER_EPOCH c.
  Definition compute_start_slot_at_epoch (e : N) : N := e * SLOTS_PER_EPOCH c.
  Definition compute_activation_exit_epoch (e : N) : N := e + 1 + MAX_SEED_LOOKAHEAD c.
  Definition get_current_epoch (st : BeaconState) : N := compute_epoch_at_slot (slot st).
  Definition get_previous_epoch (st : BeaconState) : N :=
    let ce := get_current_epoch st in if ce =? GENESIS_EPOCH then GENESIS_EPOCH else ce - 1.

  (* ---- domains ---- *)
  Definition compute_fork_data_root (version gvr : bytes) : bytes := htr ForkDataT (VCont [VBytes version; VBytes gvr]).
  Definition compute_domain (domain_type version gvr : bytes) : bytes :=
    domain_type ++ firstn 28 (compute_fork_data_root version gvr).
  Definition compute_signing_root (object_root domain : bytes) : bytes :=
    htr SigningDataT (VCont [VBytes object_root; VBytes domain]).
  Definition get_domain (st : BeaconState) (domain_type : bytes) (epoch : N) : bytes :=
    let fk := fork_rec st in
    let version := if epoch <? f_epoch fk then f_previous_version fk else f_current_version fk in
    compute_domain domain_type version (genesis_validators_root st).

  (* ---- roots / mixes ---- *)
  Definition get_block_root_at_slot (st : BeaconState) (s : N) : option bytes :=
    assert ((s <? slot st) && (slot st <=? s + SLOTS_PER_HISTORICAL_ROOT c)) ;;
    nthN (block_roots st) (s mod SLOTS_PER_HISTORICAL_ROOT c).
  Definition get_block_root (st : BeaconState) (epoch : N) : option bytes :=
    get_block_root_at_slot st (compute_start_slot_at_epoch epoch).
  Definition get_randao_mix (st : BeaconState) (epoch : N) : bytes :=
    match nthN (randao_mixes st) (epoch mod EPOCHS_PER_HISTORICAL_VECTOR c) with Some m => m | None => zero32 end.
  Definition get_seed (st : BeaconState) (epoch : N) (domain_type : bytes) : bytes :=
    let mix := get_randao_mix st (epoch + EPOCHS_PER_HISTORICAL_VECTOR c - MIN_SEED_LOOKAHEAD c - 1) in
    Hash E (domain_type ++ uint_to_bytes 8 epoch ++ mix).

  (* ---- registry views ---- *)
  Definition get_active_validator_indices (st : BeaconState) (epoch : N) : list N :=
    map fst (filter (fun iv => is_active_validator (snd iv) epoch) (combine (indices (validators st)) (validators st))).
  Definition get_validator_churn_limit (st : BeaconState) : N :=
    N.max (MIN_PER_EPOCH_CHURN_LIMIT c)
          (N.of_nat (length (get_active_validator_indices st (get_current_epoch st))) / CHURN_LIMIT_QUOTIENT c).
  (* deneb EIP-7514 *)
  Definition get_validator_activation_churn_limit (st : BeaconState) : N :=
    N.min (MAX_PER_EPOCH_ACTIVATION_CHURN_LIMIT c) (get_validator_churn_limit st).
  Definition eff_bal (st : BeaconState) (i : N) : N :=
    match nthN (validators st) i with Some v => v_effective_balance v | None => 0 end.
  Definition get_total_balance (st : BeaconState) (idx : list N) : N :=
    N.max (EFFECTIVE_BALANCE_INCREMENT c) (sumN (map (eff_bal st) idx)).
  Definition get_total_active_balance (st : BeaconState) : N :=
    get_total_balance st (get_active_validator_indices st (get_current_epoch st)).

  (* ---- shuffling ---- *)
  Fixpoint shuffle_rounds (rounds : nat) (r : N) (index count : N) (seed : bytes) : N :=
    match rounds with
    | O => index
    | S k =>
        let pivot := bytes_to_uint64 (firstn 8 (Hash E (seed ++ uint_to_bytes 1 r))) mod count in
        let flip := (pivot + count - index) mod count in
        let position := N.max index flip in
        let source := Hash E (seed ++ uint_to_bytes 1 r ++ uint_to_bytes 4 (position / 256)) in
        let byte := nth (N.to_nat ((position mod 256) / 8)) source 0 in
        let bit := N.testbit byte (position mod 8) in
        shuffle_rounds k (r + 1) (if bit then flip else index) count seed
    end.
  Definition compute_shuffled_index (index count : N) (seed : bytes) : option N :=
    assert (index <? count) ;;
    Some (shuffle_rounds (N.to_nat (SHUFFLE_ROUND_COUNT c)) 0 index count seed).

  Definition compute_committee (idx : list N) (seed : bytes) (index count : N) : option (list N) :=
    let n := N.of_nat (length idx) in
    let start := n * index / count in
    let stop := n * (index + 1) / count in
    all_some (map (fun i => j <- compute_shuffled_index i n seed ;; nthN idx j) (seqN start (N.to_nat (stop - start)))).

  Definition get_committee_count_per_slot (st : BeaconState) (epoch : N) : N :=
    N.max 1 (N.min (MAX_COMMITTEES_PER_SLOT c)
      (N.of_nat (length (get_active_validator_indices st epoch)) / SLOTS_PER_EPOCH c / TARGET_COMMITTEE_SIZE c)).
  Definition get_beacon_committee (st : BeaconState) (s index : N) : option (list N) :=
    let epoch := compute_epoch_at_slot s in
    let per_slot := get_committee_count_per_slot st epoch in
    compute_committee (get_active_validator_indices st epoch) (get_seed st epoch DOMAIN_BEACON_ATTESTER)
      ((s mod SLOTS_PER_EPOCH c) * per_slot + index) (per_slot * SLOTS_PER_EPOCH c).

  Fixpoint proposer_loop (fuel : nat) (st : BeaconState) (idx : list N) (seed : bytes) (i : N) : option N :=
    match fuel with
    | O => None
    | S k =>
        let total := N.of_nat (length idx) in
        j <- compute_shuffled_index (i mod total) total seed ;;
        cand <- nthN idx j ;;
        let random_byte := nth (N.to_nat (i mod 32)) (Hash E (seed ++ uint_to_bytes 8 (i / 32))) 0 in
        if MAX_EFFECTIVE_BALANCE c * random_byte <=? eff_bal st cand * 255 then Some cand
        else proposer_loop k st idx seed (i + 1)
    end.
  Definition PROPOSER_FUEL : nat := N.to_nat 40000.
  Definition compute_proposer_index (st : BeaconState) (idx : list N) (seed : bytes) : option N :=
    assert (negb (N.of_nat (length idx) =? 0)) ;; proposer_loop PROPOSER_FUEL st idx seed 0.
  Definition get_beacon_proposer_index (st : BeaconState) : option N :=
    let epoch := get_current_epoch st in
    let seed := Hash E (get_seed st epoch DOMAIN_BEACON_PROPOSER ++ uint_to_bytes 8 (slot st)) in
    compute_proposer_index st (get_active_validator_indices st epoch) seed.

  (* ---- balances ---- *)
  Definition increase_balance (st : BeaconState) (i delta : N) : BeaconState :=
    st <| balances := updN (balances st) i (fun b => b + delta) |>.
  Definition decrease_balance (st : BeaconState) (i delta : N) : BeaconState :=
    st <| balances := updN (balances st) i (fun b => b - delta) |>.   (* N subtraction saturates at 0 *)

  (* ---- exits and slashing ---- *)
  Definition initiate_validator_exit (st : BeaconState) (index : N) : option BeaconState :=
    v <- nthN (validators st) index ;;
    if negb (v_exit_epoch v =? FAR_FUTURE_EPOCH) then Some st else
    let exit_epochs := filter (fun e => negb (e =? FAR_FUTURE_EPOCH)) (map v_exit_epoch (validators st)) in
    let q := maxl exit_epochs (compute_activation_exit_epoch (get_current_epoch st)) in
    let churn := N.of_nat (length (filter (fun w => v_exit_epoch w =? q) (validators st))) in
    let q := if get_validator_churn_limit st <=? churn then q + 1 else q in
    Some (st <| validators := updN (validators st) index
                 (fun v => v <| v_exit_epoch := q |> <| v_withdrawable_epoch := q + MIN_VALIDATOR_WITHDRAWABILITY_DELAY c |>) |>).

  Definition min_slashing_penalty_quotient : N :=
    match f with Phase0 => MIN_SLASHING_PENALTY_QUOTIENT c | Altair => MIN_SLASHING_PENALTY_QUOTIENT_ALTAIR c
               | _ => MIN_SLASHING_PENALTY_QUOTIENT_BELLATRIX c end.
  Definition proportional_slashing_multiplier : N :=
    match f with Phase0 => PROPORTIONAL_SLASHING_MULTIPLIER c | Altair => PROPORTIONAL_SLASHING_MULTIPLIER_ALTAIR c
               | _ => PROPORTIONAL_SLASHING_MULTIPLIER_BELLATRIX c end.
  Definition inactivity_penalty_quotient : N :=
    match f with Phase0 => INACTIVITY_PENALTY_QUOTIENT c | Altair => INACTIVITY_PENALTY_QUOTIENT_ALTAIR c
               | _ => INACTIVITY_PENALTY_QUOTIENT_BELLATRIX c end.

  Definition slash_validator (st : BeaconState) (slashed_index : N) (whistleblower : option N) : option BeaconState :=
    let epoch := get_current_epoch st in
    st <- initiate_validator_exit st slashed_index ;;
    v <- nthN (validators st) slashed_index ;;
    let st := st <| validators := updN (validators st) slashed_index
                 (fun v => v <| v_slashed := true |>
                             <| v_withdrawable_epoch := N.max (v_withdrawable_epoch v) (epoch + EPOCHS_PER_SLASHINGS_VECTOR c) |>) |> in
    let st := st <| slashings := updN (slashings st) (epoch mod EPOCHS_PER_SLASHINGS_VECTOR c)
                                     (fun s => s + v_effective_balance v) |> in
    let st := decrease_balance st slashed_index (v_effective_balance v / min_slashing_penalty_quotient) in
    proposer_index <- get_beacon_proposer_index st ;;
    let wb := match whistleblower with Some w => w | None => proposer_index end in
    let whistleblower_reward := v_effective_balance v / WHISTLEBLOWER_REWARD_QUOTIENT c in
    let proposer_reward := match f with
                           | Phase0 => whistleblower_reward / PROPOSER_REWARD_QUOTIENT c
                           | _ => whistleblower_reward * PROPOSER_WEIGHT / WEIGHT_DENOMINATOR end in
    let st := increase_balance st proposer_index proposer_reward in
    Some (increase_balance st wb (whistleblower_reward - proposer_reward)).

  (* ---- attestations ---- *)
  Definition AttData := value.   (* AttestationData as SSZ value: slot index beacon_block_root source target *)
  Definition ad_slot (d : AttData) : N := vuint (vfield d 0).
  Definition ad_index (d : AttData) : N := vuint (vfield d 1).
  Definition ad_beacon_block_root (d : AttData) : bytes := vbytes (vfield d 2).
  Definition ad_source (d : AttData) : Checkpoint := cp_of_value (vfield d 3).
  Definition ad_target (d : AttData) : Checkpoint := cp_of_value (vfield d 4).
  Definition cp_eqb (a b : Checkpoint) : bool := (cp_epoch a =? cp_epoch b) && bytes_eqb (cp_root a) (cp_root b).

  Definition is_slashable_attestation_data (d1 d2 : AttData) : bool :=
    (negb (value_eqb d1 d2) && (cp_epoch (ad_target d1) =? cp_epoch (ad_target d2)))
    || ((cp_epoch (ad_source d1) <? cp_epoch (ad_source d2)) && (cp_epoch (ad_target d2) <? cp_epoch (ad_target d1))).

  Fixpoint strictly_sorted (l : list N) : bool :=
    match l with
    | a :: ((b :: _) as l') => (a <? b) && strictly_sorted l'
    | _ => true
    end.
  (* indexed attestation value: attesting_indices data signature *)
  Definition is_valid_indexed_attestation (st : BeaconState) (ia : value) : bool :=
    let idx := map vuint (vseq (vfield ia 0)) in
    let data := vfield ia 1 in
    let sig := vbytes (vfield ia 2) in
    if (N.of_nat (length idx) =? 0) || negb (strictly_sorted idx) then false else
    match all_some (map (fun i => option_map v_pubkey (nthN (validators st) i)) idx) with
    | None => false
    | Some pubkeys =>
        let domain := get_domain st DOMAIN_BEACON_ATTESTER (cp_epoch (ad_target data)) in
        let signing_root := compute_signing_root (htr AttestationDataT data) domain in
        bls_fast_aggregate_verify E pubkeys signing_root sig
    end.

  Fixpoint select_bits {A} (bits : list bool) (l : list A) : list A :=
    match bits, l with
    | b :: bits', x :: l' => if b then x :: select_bits bits' l' else select_bits bits' l'
    | _, _ => []
    end.
  (* get_attesting_indices(state, data, bits): the set, here as the committee order filtered by bits *)
  Definition get_attesting_indices (st : BeaconState) (data : AttData) (bits : list bool) : option (list N) :=
    committee <- get_beacon_committee st (ad_slot data) (ad_index data) ;;
    Some (select_bits bits committee).
  Fixpoint insert_sorted (x : N) (l : list N) : list N :=
    match l with
    | [] => [x]
    | y :: l' => if x <? y then x :: l else if x =? y then l else y :: insert_sorted x l'
    end.
  Definition sort_uniq (l : list N) : list N := fold_right insert_sorted [] l.
  (* get_indexed_attestation: value of IndexedAttestationT *)
  Definition get_indexed_attestation (st : BeaconState) (att : value) : option value :=
    idx <- get_attesting_indices st (vfield att 1) (vbits (vfield att 0)) ;;
    Some (VCont [VSeq (map VUint (sort_uniq idx)); vfield att 1; vfield att 2]).

  (* ---- merkle branch (deposits) ---- *)
  Fixpoint merkle_branch_root (leaf : bytes) (branch : list bytes) (i index : N) : bytes :=
    match branch with
    | [] => leaf
    | b :: br => merkle_branch_root (if N.testbit index i then Hash E (b ++ leaf) else Hash E (leaf ++ b)) br (i + 1) index
    end.
  Definition is_valid_merkle_branch (leaf : bytes) (branch : list bytes) (depth index : N) (root : bytes) : bool :=
    bytes_eqb (merkle_branch_root leaf (firstn (N.to_nat depth) branch) 0 index) root.
End Spec.
