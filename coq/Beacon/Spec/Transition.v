(* process_slot / process_slots with in-place fork upgrades / state_transition; upgrade_to_*; genesis. *)
From Coq Require Import String.
From Coq Require Import NArith List Bool.
From RecordUpdate Require Import RecordSet.
From V Require Import Ssz.SszCore Beacon.Config Beacon.Schemas Beacon.State Beacon.Spec.Helpers Beacon.Spec.Epoch Beacon.Spec.Block.
Import ListNotations RecordSetNotations.
Local Open Scope string_scope.
Local Open Scope list_scope.
Local Open Scope N_scope.

Section Transition.
  Variable E : Env.
  Let c := cfg E.

  Definition state_root (f : fork) (st : BeaconState) : bytes := htr E (BeaconStateT c f) (state_to_value c f st).

  Definition process_slot (f : fork) (st : BeaconState) : BeaconState :=
    let previous_state_root := state_root f st in
    let st := st <| state_roots := setN (state_roots st) (slot st mod SLOTS_PER_HISTORICAL_ROOT c) previous_state_root |> in
    let h := latest_block_header st in
    let st := if bytes_eqb (h_state_root h) zero32
              then st <| latest_block_header := mkHeader (h_slot h) (h_proposer_index h) (h_parent_root h) previous_state_root (h_body_root h) |>
              else st in
    let previous_block_root := htr E BeaconBlockHeaderT (header_to_value (latest_block_header st)) in
    st <| block_roots := setN (block_roots st) (slot st mod SLOTS_PER_HISTORICAL_ROOT c) previous_block_root |>.

  (* ---------- upgrades ---------- *)
  Definition next_fork (f : fork) : option fork :=
    match f with Phase0 => Some Altair | Altair => Some Bellatrix | Bellatrix => Some Capella | Capella => Some Deneb | Deneb => None end.
  Definition fork_epoch_of (f : fork) : N :=
    match f with Phase0 => 0 | Altair => ALTAIR_FORK_EPOCH c | Bellatrix => BELLATRIX_FORK_EPOCH c
               | Capella => CAPELLA_FORK_EPOCH c | Deneb => DENEB_FORK_EPOCH c end.
  Definition fork_version_of (f : fork) : bytes :=
    match f with Phase0 => GENESIS_FORK_VERSION c | Altair => ALTAIR_FORK_VERSION c | Bellatrix => BELLATRIX_FORK_VERSION c
               | Capella => CAPELLA_FORK_VERSION c | Deneb => DENEB_FORK_VERSION c end.

  Definition translate_participation (st : BeaconState) (pending : list value) : option BeaconState :=
    fold_left (fun (acc : option BeaconState) a =>
        st <- acc ;;
        let data := pa_data a in
        flags <- get_attestation_participation_flag_indices E Altair st data (pa_inclusion_delay a) ;;
        idx <- get_attesting_indices E st data (pa_bits a) ;;
        Some (st <| previous_epoch_participation :=
                fold_left (fun part i => updN part i (fun x => fold_left add_flag flags x)) idx (previous_epoch_participation st) |>))
      pending (Some st).

  (* header of the next fork from the previous fork's header value: new fields are zero *)
  Definition upgrade_header (fnew : fork) (old : value) : value :=
    match ExecutionPayloadHeaderT c fnew, old with
    | TContainer fs, VCont vs =>
        VCont ((fix go (fs : list (string * ty)) (vs : list value) : list value :=
                  match fs with
                  | [] => []
                  | (_, t) :: fs' => match vs with v :: vs' => v :: go fs' vs' | [] => default_value t :: go fs' [] end
                  end) fs vs)
    | t, _ => default_value t
    end.

  Definition upgrade_to (fnew : fork) (pre : BeaconState) : option BeaconState :=
    let epoch := compute_epoch_at_slot E (slot pre) in
    let post := pre <| fork_rec := mkFork (f_current_version (fork_rec pre)) (fork_version_of fnew) epoch |> in
    match fnew with
    | Phase0 => None
    | Altair =>
        let n := length (validators pre) in
        let post := post <| previous_epoch_attestations := [] |> <| current_epoch_attestations := [] |>
                         <| previous_epoch_participation := repeat 0 n |> <| current_epoch_participation := repeat 0 n |>
                         <| inactivity_scores := repeat 0 n |> in
        post <- translate_participation post (previous_epoch_attestations pre) ;;
        sc <- get_next_sync_committee E post ;;
        Some (post <| current_sync_committee := sc |> <| next_sync_committee := sc |>)
    | Bellatrix => Some (post <| latest_execution_payload_header := default_value (ExecutionPayloadHeaderT c Bellatrix) |>)
    | Capella => Some (post <| latest_execution_payload_header := upgrade_header Capella (latest_execution_payload_header pre) |>
                            <| next_withdrawal_index := 0 |> <| next_withdrawal_validator_index := 0 |> <| historical_summaries := [] |>)
    | Deneb => Some (post <| latest_execution_payload_header := upgrade_header Deneb (latest_execution_payload_header pre) |>)
    end.

  Fixpoint upgrade_maybe (fuel : nat) (f : fork) (st : BeaconState) : option (fork * BeaconState) :=
    match fuel with
    | O => Some (f, st)
    | S k =>
        match next_fork f with
        | Some fn =>
            if (slot st mod SLOTS_PER_EPOCH c =? 0) && (compute_epoch_at_slot E (slot st) =? fork_epoch_of fn)
            then st' <- upgrade_to fn st ;; upgrade_maybe k fn st'
            else Some (f, st)
        | None => Some (f, st)
        end
    end.

  (* one iteration of the process_slots loop *)
  Definition slot_step (f : fork) (st : BeaconState) : option (fork * BeaconState) :=
    let st := process_slot f st in
    st <- (if (slot st + 1) mod SLOTS_PER_EPOCH c =? 0 then process_epoch E f st else Some st) ;;
    upgrade_maybe 5 f (st <| slot := slot st + 1 |>).

  Fixpoint slots_loop (fuel : nat) (f : fork) (st : BeaconState) (target : N) : option (fork * BeaconState) :=
    if target <=? slot st then Some (f, st) else
    match fuel with
    | O => None
    | S k => fs <- slot_step f st ;; slots_loop k (fst fs) (snd fs) target
    end.
  (* a single call advancing more than MAX_SLOTS_PER_CALL slots is outside the model (the pyspec would loop for years) *)
  Definition MAX_SLOTS_PER_CALL : N := 1048576.
  Definition process_slots (f : fork) (st : BeaconState) (target : N) : option (fork * BeaconState) :=
    assert (slot st <? target) ;;
    assert (target - slot st <=? MAX_SLOTS_PER_CALL) ;;
    slots_loop (N.to_nat (target - slot st)) f st target.

  Definition verify_block_signature (f : fork) (st : BeaconState) (signed_block : value) : bool :=
    let blk := vfield signed_block 0 in
    match nthN (validators st) (vuint (vfield blk 1)) with
    | Some proposer =>
        let domain := get_domain E st DOMAIN_BEACON_PROPOSER (get_current_epoch E st) in
        bls_verify E (v_pubkey proposer) (compute_signing_root E (htr E (BeaconBlockT c f) blk) domain) (vbytes (vfield signed_block 1))
    | None => false
    end.

  (* the signed block is given as bytes with the fork the caller decoded it under;
     the spec requires it to be a block of the fork the state is in at the block's slot *)
  Definition state_transition (f : fork) (st : BeaconState) (bf : fork) (signed_block : value) (validate_result : bool)
    : option (fork * BeaconState) :=
    let blk := vfield signed_block 0 in
    fs <- process_slots f st (vuint (vfield blk 0)) ;;
    let '(f', st) := fs in
    assert (fork_idx f' =? fork_idx bf) ;;
    assert (negb validate_result || verify_block_signature f' st signed_block) ;;
    st <- process_block E f' st blk ;;
    assert (negb validate_result || bytes_eqb (vbytes (vfield blk 3)) (state_root f' st)) ;;
    Some (f', st).

  (* ---------- genesis (phase0) ---------- *)
  Definition DepositDataListT := TList DepositDataT (2 ^ DEPOSIT_CONTRACT_TREE_DEPTH).
  Definition genesis_body_root : bytes := htr E (BeaconBlockBodyT c Phase0) (default_value (BeaconBlockBodyT c Phase0)).
  Definition initialize_beacon_state_from_eth1 (eth1_block_hash : bytes) (eth1_timestamp : N) (deposits : list value)
    : option BeaconState :=
    let n0 := N.to_nat (SLOTS_PER_HISTORICAL_ROOT c) in
    let st0 := {|
      genesis_time := eth1_timestamp + GENESIS_DELAY c;
      genesis_validators_root := zero32;
      slot := 0;
      fork_rec := mkFork (GENESIS_FORK_VERSION c) (GENESIS_FORK_VERSION c) GENESIS_EPOCH;
      latest_block_header := mkHeader 0 0 zero32 zero32 genesis_body_root;
      block_roots := repeat zero32 n0; state_roots := repeat zero32 n0; historical_roots := [];
      eth1_data := mkEth1Data zero32 (N.of_nat (length deposits)) eth1_block_hash;
      eth1_data_votes := []; eth1_deposit_index := 0;
      validators := []; balances := [];
      randao_mixes := repeat eth1_block_hash (N.to_nat (EPOCHS_PER_HISTORICAL_VECTOR c));
      slashings := repeat 0 (N.to_nat (EPOCHS_PER_SLASHINGS_VECTOR c));
      previous_epoch_attestations := []; current_epoch_attestations := [];
      previous_epoch_participation := []; current_epoch_participation := [];
      justification_bits := repeat false 4;
      previous_justified_checkpoint := mkCheckpoint 0 zero32; current_justified_checkpoint := mkCheckpoint 0 zero32;
      finalized_checkpoint := mkCheckpoint 0 zero32;
      inactivity_scores := []; current_sync_committee := empty_sc; next_sync_committee := empty_sc;
      latest_execution_payload_header := VCont []; next_withdrawal_index := 0; next_withdrawal_validator_index := 0;
      historical_summaries := [] |} in
    (* process deposits with an incrementally growing deposit-data list root *)
    r <- fold_left (fun (acc : option (BeaconState * list value)) dep =>
           sl <- acc ;;
           let '(st, leaves) := sl in
           let leaves := leaves ++ [vfield dep 1] in
           let st := st <| eth1_data := mkEth1Data (htr E DepositDataListT (VSeq leaves)) (e_deposit_count (eth1_data st)) (e_block_hash (eth1_data st)) |> in
           st <- process_deposit E Phase0 st dep ;;
           Some (st, leaves))
         deposits (Some (st0, [])) ;;
    let st := fst r in
    (* genesis activations *)
    let st := st <| validators := map (fun vb =>
                  let '(v, b) := vb in
                  let v := v <| v_effective_balance := N.min (b - b mod EFFECTIVE_BALANCE_INCREMENT c) (MAX_EFFECTIVE_BALANCE c) |> in
                  if v_effective_balance v =? MAX_EFFECTIVE_BALANCE c
                  then v <| v_activation_eligibility_epoch := GENESIS_EPOCH |> <| v_activation_epoch := GENESIS_EPOCH |>
                  else v) (combine (validators st) (balances st)) |> in
    Some (st <| genesis_validators_root := htr E (TList ValidatorT (VALIDATOR_REGISTRY_LIMIT c)) (VSeq (map validator_to_value (validators st))) |>).

  Definition is_valid_genesis_state (st : BeaconState) : bool :=
    (MIN_GENESIS_TIME c <=? genesis_time st)
    && (MIN_GENESIS_ACTIVE_VALIDATOR_COUNT c <=? N.of_nat (length (get_active_validator_indices st GENESIS_EPOCH))).
End Transition.
