(* process_epoch and its sub-transitions: phase0, altair, bellatrix, capella, deneb. Pyspec transliteration. *)
From Coq Require Import String.
From Coq Require Import NArith List Bool.
From RecordUpdate Require Import RecordSet.
From V Require Import Ssz.SszCore Beacon.Config Beacon.Schemas Beacon.State Beacon.Spec.Helpers.
Import ListNotations RecordSetNotations.
Local Open Scope N_scope.

Section Epoch.
  Variable E : Env.
  Variable f : fork.
  Let c := cfg E.
  Notation htr := (htr E).

  Definition nvals (st : BeaconState) : nat := length (validators st).
  Definition zeros (st : BeaconState) : list N := repeat 0 (nvals st).
  Definition addN (l : list N) (i d : N) : list N := updN l i (fun x => x + d).

  (* ---------- phase0 pending-attestation views ---------- *)
  Definition pa_bits (a : value) : list bool := vbits (vfield a 0).
  Definition pa_data (a : value) : value := vfield a 1.
  Definition pa_inclusion_delay (a : value) : N := vuint (vfield a 2).
  Definition pa_proposer_index (a : value) : N := vuint (vfield a 3).

  Definition get_matching_source_attestations (st : BeaconState) (epoch : N) : option (list value) :=
    assert ((epoch =? get_previous_epoch E st) || (epoch =? get_current_epoch E st)) ;;
    Some (if epoch =? get_current_epoch E st then current_epoch_attestations st else previous_epoch_attestations st).
  Definition get_matching_target_attestations (st : BeaconState) (epoch : N) : option (list value) :=
    src <- get_matching_source_attestations st epoch ;;
    match src with
    | [] => Some []
    | _ => root <- get_block_root E st epoch ;;
           Some (filter (fun a => bytes_eqb (cp_root (ad_target (pa_data a))) root) src)
    end.
  Definition get_matching_head_attestations (st : BeaconState) (epoch : N) : option (list value) :=
    tgt <- get_matching_target_attestations st epoch ;;
    all <- all_some (map (fun a => r <- get_block_root_at_slot E st (ad_slot (pa_data a)) ;;
                                   Some (a, bytes_eqb (ad_beacon_block_root (pa_data a)) r)) tgt) ;;
    Some (map fst (filter snd all)).
  Definition is_slashed (st : BeaconState) (i : N) : bool :=
    match nthN (validators st) i with Some v => v_slashed v | None => false end.
  Definition get_unslashed_attesting_indices (st : BeaconState) (atts : list value) : option (list N) :=
    sets <- all_some (map (fun a => get_attesting_indices E st (pa_data a) (pa_bits a)) atts) ;;
    Some (filter (fun i => negb (is_slashed st i)) (sort_uniq (concat sets))).
  Definition get_attesting_balance (st : BeaconState) (atts : list value) : option N :=
    idx <- get_unslashed_attesting_indices st atts ;; Some (get_total_balance E st idx).

  (* ---------- altair participation ---------- *)
  Definition has_flag (flags flag_index : N) : bool := N.testbit flags flag_index.
  Definition add_flag (flags flag_index : N) : N := N.lor flags (2 ^ flag_index).
  Definition get_unslashed_participating_indices (st : BeaconState) (flag_index epoch : N) : option (list N) :=
    assert ((epoch =? get_previous_epoch E st) || (epoch =? get_current_epoch E st)) ;;
    let part := if epoch =? get_current_epoch E st then current_epoch_participation st else previous_epoch_participation st in
    Some (filter (fun i => match nthN part i with Some fl => has_flag fl flag_index | None => false end
                           && negb (is_slashed st i))
                 (get_active_validator_indices st epoch)).

  (* ---------- justification and finalization ---------- *)
  Definition weigh_justification_and_finalization (st : BeaconState) (total prev_target cur_target : N) : option BeaconState :=
    let previous_epoch := get_previous_epoch E st in
    let current_epoch := get_current_epoch E st in
    let old_prev := previous_justified_checkpoint st in
    let old_cur := current_justified_checkpoint st in
    let st := st <| previous_justified_checkpoint := old_cur |> in
    let bits := false :: firstn 3 (justification_bits st) in
    st_bits <-
      (if total * 2 <=? prev_target * 3
       then r <- get_block_root E st previous_epoch ;;
            Some (st <| current_justified_checkpoint := mkCheckpoint previous_epoch r |>, setN bits 1 true)
       else Some (st, bits)) ;;
    let '(st, bits) := st_bits in
    st_bits <-
      (if total * 2 <=? cur_target * 3
       then r <- get_block_root E st current_epoch ;;
            Some (st <| current_justified_checkpoint := mkCheckpoint current_epoch r |>, setN bits 0 true)
       else Some (st, bits)) ;;
    let '(st, bits) := st_bits in
    let st := st <| justification_bits := bits |> in
    let b i := nth i bits false in
    let st := if b 1%nat && b 2%nat && b 3%nat && (cp_epoch old_prev + 3 =? current_epoch) then st <| finalized_checkpoint := old_prev |> else st in
    let st := if b 1%nat && b 2%nat && (cp_epoch old_prev + 2 =? current_epoch) then st <| finalized_checkpoint := old_prev |> else st in
    let st := if b 0%nat && b 1%nat && b 2%nat && (cp_epoch old_cur + 2 =? current_epoch) then st <| finalized_checkpoint := old_cur |> else st in
    let st := if b 0%nat && b 1%nat && (cp_epoch old_cur + 1 =? current_epoch) then st <| finalized_checkpoint := old_cur |> else st in
    Some st.

  Definition process_justification_and_finalization (st : BeaconState) : option BeaconState :=
    if get_current_epoch E st <=? GENESIS_EPOCH + 1 then Some st else
    let total := get_total_active_balance E st in
    match f with
    | Phase0 =>
        pa <- get_matching_target_attestations st (get_previous_epoch E st) ;;
        ca <- get_matching_target_attestations st (get_current_epoch E st) ;;
        pb <- get_attesting_balance st pa ;;
        cb <- get_attesting_balance st ca ;;
        weigh_justification_and_finalization st total pb cb
    | _ =>
        pi <- get_unslashed_participating_indices st TIMELY_TARGET_FLAG_INDEX (get_previous_epoch E st) ;;
        ci <- get_unslashed_participating_indices st TIMELY_TARGET_FLAG_INDEX (get_current_epoch E st) ;;
        weigh_justification_and_finalization st total (get_total_balance E st pi) (get_total_balance E st ci)
    end.

  (* ---------- rewards and penalties ---------- *)
  Definition get_finality_delay (st : BeaconState) : N := get_previous_epoch E st - cp_epoch (finalized_checkpoint st).
  Definition is_in_inactivity_leak (st : BeaconState) : bool := MIN_EPOCHS_TO_INACTIVITY_PENALTY c <? get_finality_delay st.
  Definition get_eligible_validator_indices (st : BeaconState) : list N :=
    let pe := get_previous_epoch E st in
    map fst (filter (fun iv => let v := snd iv in
                               is_active_validator v pe || (v_slashed v && (pe + 1 <? v_withdrawable_epoch v)))
                    (combine (indices (validators st)) (validators st))).

  (* phase0 *)
  Definition get_base_reward0 (st : BeaconState) (total : N) (i : N) : N :=
    eff_bal st i * BASE_REWARD_FACTOR c / integer_squareroot total / BASE_REWARDS_PER_EPOCH.
  Definition get_proposer_reward0 (st : BeaconState) (total i : N) : N := get_base_reward0 st total i / PROPOSER_REWARD_QUOTIENT c.

  Definition get_attestation_component_deltas (st : BeaconState) (atts : list value) : option (list N * list N) :=
    let total := get_total_active_balance E st in
    unsl <- get_unslashed_attesting_indices st atts ;;
    let attesting_balance := get_total_balance E st unsl in
    let inc := EFFECTIVE_BALANCE_INCREMENT c in
    Some (fold_left (fun (rp : list N * list N) i =>
            let '(r, p) := rp in
            if memN i unsl then
              if is_in_inactivity_leak st then (addN r i (get_base_reward0 st total i), p)
              else (addN r i (get_base_reward0 st total i * (attesting_balance / inc) / (total / inc)), p)
            else (r, addN p i (get_base_reward0 st total i)))
          (get_eligible_validator_indices st) (zeros st, zeros st)).

  Fixpoint min_by_delay (best : option value) (l : list value) : option value :=
    match l with
    | [] => best
    | a :: l' =>
        match best with
        | None => min_by_delay (Some a) l'
        | Some b => if pa_inclusion_delay a <? pa_inclusion_delay b then min_by_delay (Some a) l' else min_by_delay best l'
        end
    end.
  Definition get_inclusion_delay_deltas (st : BeaconState) : option (list N * list N) :=
    let total := get_total_active_balance E st in
    src <- get_matching_source_attestations st (get_previous_epoch E st) ;;
    unsl <- get_unslashed_attesting_indices st src ;;
    withidx <- all_some (map (fun a => s <- get_attesting_indices E st (pa_data a) (pa_bits a) ;; Some (a, s)) src) ;;
    r <- fold_left (fun (acc : option (list N)) i =>
            r <- acc ;;
            a <- min_by_delay None (map fst (filter (fun p => memN i (snd p)) withidx)) ;;
            let r := addN r (pa_proposer_index a) (get_proposer_reward0 st total i) in
            let max_att := get_base_reward0 st total i - get_proposer_reward0 st total i in
            assert (negb (pa_inclusion_delay a =? 0)) ;;
            Some (addN r i (max_att / pa_inclusion_delay a)))
          unsl (Some (zeros st)) ;;
    Some (r, zeros st).
  Definition get_inactivity_penalty_deltas0 (st : BeaconState) : option (list N * list N) :=
    let total := get_total_active_balance E st in
    if is_in_inactivity_leak st then
      tgt <- get_matching_target_attestations st (get_previous_epoch E st) ;;
      tidx <- get_unslashed_attesting_indices st tgt ;;
      Some (zeros st,
            fold_left (fun p i =>
                let p := addN p i (BASE_REWARDS_PER_EPOCH * get_base_reward0 st total i - get_proposer_reward0 st total i) in
                if memN i tidx then p
                else addN p i (eff_bal st i * get_finality_delay st / INACTIVITY_PENALTY_QUOTIENT c))
              (get_eligible_validator_indices st) (zeros st))
    else Some (zeros st, zeros st).
  Definition add_lists (a b : list N) : list N := map (fun p => fst p + snd p) (combine a b).
  Definition get_attestation_deltas (st : BeaconState) : option (list N * list N) :=
    pe <- Some (get_previous_epoch E st) ;;
    srcA <- get_matching_source_attestations st pe ;;
    tgtA <- get_matching_target_attestations st pe ;;
    headA <- get_matching_head_attestations st pe ;;
    s <- get_attestation_component_deltas st srcA ;;
    t <- get_attestation_component_deltas st tgtA ;;
    h <- get_attestation_component_deltas st headA ;;
    d <- get_inclusion_delay_deltas st ;;
    ip <- get_inactivity_penalty_deltas0 st ;;
    Some (add_lists (add_lists (add_lists (add_lists (fst s) (fst t)) (fst h)) (fst d)) (fst ip),
          add_lists (add_lists (add_lists (add_lists (snd s) (snd t)) (snd h)) (snd d)) (snd ip)).

  Definition apply_deltas (st : BeaconState) (rp : list N * list N) : BeaconState :=
    st <| balances := map (fun x => let '(b, (r, p)) := x in (b + r) - p)
                          (combine (balances st) (combine (fst rp) (snd rp))) |>.

  (* altair+ *)
  Definition get_base_reward_per_increment (st : BeaconState) : N :=
    EFFECTIVE_BALANCE_INCREMENT c * BASE_REWARD_FACTOR c / integer_squareroot (get_total_active_balance E st).
  Definition get_base_reward (st : BeaconState) (i : N) : N :=
    eff_bal st i / EFFECTIVE_BALANCE_INCREMENT c * get_base_reward_per_increment st.
  Definition flag_weight (flag_index : N) : N := nth (N.to_nat flag_index) PARTICIPATION_FLAG_WEIGHTS 0.
  Definition get_flag_index_deltas (st : BeaconState) (flag_index : N) : option (list N * list N) :=
    unsl <- get_unslashed_participating_indices st flag_index (get_previous_epoch E st) ;;
    let weight := flag_weight flag_index in
    let part_incr := get_total_balance E st unsl / EFFECTIVE_BALANCE_INCREMENT c in
    let active_incr := get_total_active_balance E st / EFFECTIVE_BALANCE_INCREMENT c in
    let brpi := get_base_reward_per_increment st in
    let leak := is_in_inactivity_leak st in
    Some (fold_left (fun (rp : list N * list N) i =>
            let '(r, p) := rp in
            let base_reward := eff_bal st i / EFFECTIVE_BALANCE_INCREMENT c * brpi in
            if memN i unsl then
              if leak then (r, p)
              else (addN r i (base_reward * weight * part_incr / (active_incr * WEIGHT_DENOMINATOR)), p)
            else if flag_index =? TIMELY_HEAD_FLAG_INDEX then (r, p)
            else (r, addN p i (base_reward * weight / WEIGHT_DENOMINATOR)))
          (get_eligible_validator_indices st) (zeros st, zeros st)).
  Definition get_inactivity_penalty_deltas (st : BeaconState) : option (list N * list N) :=
    tidx <- get_unslashed_participating_indices st TIMELY_TARGET_FLAG_INDEX (get_previous_epoch E st) ;;
    Some (zeros st,
          fold_left (fun p i =>
              if memN i tidx then p
              else let score := match nthN (inactivity_scores st) i with Some s => s | None => 0 end in
                   addN p i (eff_bal st i * score / (INACTIVITY_SCORE_BIAS c * inactivity_penalty_quotient E f)))
            (get_eligible_validator_indices st) (zeros st)).

  Definition process_inactivity_updates (st : BeaconState) : option BeaconState :=
    if get_current_epoch E st =? GENESIS_EPOCH then Some st else
    tidx <- get_unslashed_participating_indices st TIMELY_TARGET_FLAG_INDEX (get_previous_epoch E st) ;;
    let leak := is_in_inactivity_leak st in
    Some (st <| inactivity_scores :=
            fold_left (fun sc i =>
                updN sc i (fun s =>
                  let s := if memN i tidx then s - N.min 1 s else s + INACTIVITY_SCORE_BIAS c in
                  if leak then s else s - N.min (INACTIVITY_SCORE_RECOVERY_RATE c) s))
              (get_eligible_validator_indices st) (inactivity_scores st) |>).

  Definition process_rewards_and_penalties (st : BeaconState) : option BeaconState :=
    if get_current_epoch E st =? GENESIS_EPOCH then Some st else
    match f with
    | Phase0 => d <- get_attestation_deltas st ;; Some (apply_deltas st d)
    | _ =>
        d0 <- get_flag_index_deltas st 0 ;;
        d1 <- get_flag_index_deltas st 1 ;;
        d2 <- get_flag_index_deltas st 2 ;;
        d3 <- get_inactivity_penalty_deltas st ;;
        Some (apply_deltas (apply_deltas (apply_deltas (apply_deltas st d0) d1) d2) d3)
    end.

  (* ---------- registry updates ---------- *)
  Fixpoint insert_by (key : N * N) (i : N) (l : list (N * N * N)) : list (N * N * N) :=
    match l with
    | [] => [(key, i)]
    | ((k, j) as h) :: l' =>
        if (fst key <? fst k) || ((fst key =? fst k) && (snd key <? snd k)) then (key, i) :: l else h :: insert_by key i l'
    end.
  Definition process_registry_updates (st : BeaconState) : option BeaconState :=
    let ce := get_current_epoch E st in
    st <- fold_left (fun (acc : option BeaconState) i =>
             st <- acc ;;
             v <- nthN (validators st) i ;;
             let st := if is_eligible_for_activation_queue E v
                       then st <| validators := updN (validators st) i (fun v => v <| v_activation_eligibility_epoch := ce + 1 |>) |>
                       else st in
             if is_active_validator v ce && (v_effective_balance v <=? EJECTION_BALANCE c)
             then initiate_validator_exit E st i else Some st)
           (indices (validators st)) (Some st) ;;
    let queue := fold_right (fun iv acc =>
                    let '(i, v) := iv in
                    if is_eligible_for_activation st v then insert_by (v_activation_eligibility_epoch v, i) i acc else acc)
                  [] (combine (indices (validators st)) (validators st)) in
    let limit := match f with Deneb => get_validator_activation_churn_limit E st | _ => get_validator_churn_limit E st end in
    let act := firstn (N.to_nat limit) (map snd queue) in
    Some (fold_left (fun st i =>
            st <| validators := updN (validators st) i (fun v => v <| v_activation_epoch := compute_activation_exit_epoch E ce |>) |>)
          act st).

  (* ---------- slashings ---------- *)
  Definition process_slashings (st : BeaconState) : BeaconState :=
    let epoch := get_current_epoch E st in
    let total := get_total_active_balance E st in
    let adj := N.min (sumN (slashings st) * proportional_slashing_multiplier E f) total in
    let inc := EFFECTIVE_BALANCE_INCREMENT c in
    fold_left (fun st iv =>
        let '(i, v) := iv in
        if v_slashed v && (epoch + EPOCHS_PER_SLASHINGS_VECTOR c / 2 =? v_withdrawable_epoch v)
        then decrease_balance st i (v_effective_balance v / inc * adj / total * inc)
        else st)
      (combine (indices (validators st)) (validators st)) st.

  (* ---------- final updates ---------- *)
  Definition process_eth1_data_reset (st : BeaconState) : BeaconState :=
    let next_epoch := get_current_epoch E st + 1 in
    if next_epoch mod EPOCHS_PER_ETH1_VOTING_PERIOD c =? 0 then st <| eth1_data_votes := [] |> else st.
  Definition process_effective_balance_updates (st : BeaconState) : BeaconState :=
    let hyst := EFFECTIVE_BALANCE_INCREMENT c / HYSTERESIS_QUOTIENT c in
    let down := hyst * HYSTERESIS_DOWNWARD_MULTIPLIER c in
    let up := hyst * HYSTERESIS_UPWARD_MULTIPLIER c in
    st <| validators := map (fun vb =>
            let '(v, b) := vb in
            if (b + down <? v_effective_balance v) || (v_effective_balance v + up <? b)
            then v <| v_effective_balance := N.min (b - b mod EFFECTIVE_BALANCE_INCREMENT c) (MAX_EFFECTIVE_BALANCE c) |>
            else v) (combine (validators st) (balances st)) |>.
  Definition process_slashings_reset (st : BeaconState) : BeaconState :=
    st <| slashings := setN (slashings st) ((get_current_epoch E st + 1) mod EPOCHS_PER_SLASHINGS_VECTOR c) 0 |>.
  Definition process_randao_mixes_reset (st : BeaconState) : BeaconState :=
    let ce := get_current_epoch E st in
    st <| randao_mixes := setN (randao_mixes st) ((ce + 1) mod EPOCHS_PER_HISTORICAL_VECTOR c) (get_randao_mix E st ce) |>.
  Definition roots_vec_t := TVector B32 (SLOTS_PER_HISTORICAL_ROOT c).
  Definition process_historical_update (st : BeaconState) : BeaconState :=
    let next_epoch := get_current_epoch E st + 1 in
    if next_epoch mod (SLOTS_PER_HISTORICAL_ROOT c / SLOTS_PER_EPOCH c) =? 0 then
      let br := VSeq (map VBytes (block_roots st)) in
      let sr := VSeq (map VBytes (state_roots st)) in
      if fork_ge f Capella
      then st <| historical_summaries := historical_summaries st ++ [(htr roots_vec_t br, htr roots_vec_t sr)] |>
      else st <| historical_roots := historical_roots st ++ [htr (HistoricalBatchT c) (VCont [br; sr])] |>
    else st.
  Definition process_participation_record_updates (st : BeaconState) : BeaconState :=
    st <| previous_epoch_attestations := current_epoch_attestations st |> <| current_epoch_attestations := [] |>.
  Definition process_participation_flag_updates (st : BeaconState) : BeaconState :=
    st <| previous_epoch_participation := current_epoch_participation st |>
       <| current_epoch_participation := repeat 0 (nvals st) |>.

  (* ---------- sync committees ---------- *)
  Fixpoint sync_loop (fuel : nat) (st : BeaconState) (active : list N) (seed : bytes) (i : N) (need : nat) : option (list N) :=
    match need with
    | O => Some []
    | S need' =>
        match fuel with
        | O => None
        | S k =>
            let total := N.of_nat (length active) in
            j <- compute_shuffled_index E (i mod total) total seed ;;
            cand <- nthN active j ;;
            let random_byte := nth (N.to_nat (i mod 32)) (Hash E (seed ++ uint_to_bytes 8 (i / 32))) 0 in
            if MAX_EFFECTIVE_BALANCE c * random_byte <=? eff_bal st cand * 255
            then rest <- sync_loop k st active seed (i + 1) need' ;; Some (cand :: rest)
            else sync_loop k st active seed (i + 1) need
        end
    end.
  Definition get_next_sync_committee_indices (st : BeaconState) : option (list N) :=
    let epoch := get_current_epoch E st + 1 in
    let active := get_active_validator_indices st epoch in
    assert (negb (N.of_nat (length active) =? 0)) ;;
    sync_loop PROPOSER_FUEL st active (get_seed E st epoch DOMAIN_SYNC_COMMITTEE) 0 (N.to_nat (SYNC_COMMITTEE_SIZE c)).
  Definition get_next_sync_committee (st : BeaconState) : option SyncCommittee :=
    idx <- get_next_sync_committee_indices st ;;
    pks <- all_some (map (fun i => option_map v_pubkey (nthN (validators st) i)) idx) ;;
    Some (mkSyncCommittee pks (bls_aggregate_pubkeys E pks)).
  Definition process_sync_committee_updates (st : BeaconState) : option BeaconState :=
    let next_epoch := get_current_epoch E st + 1 in
    if next_epoch mod EPOCHS_PER_SYNC_COMMITTEE_PERIOD c =? 0 then
      nsc <- get_next_sync_committee st ;;
      Some (st <| current_sync_committee := next_sync_committee st |> <| next_sync_committee := nsc |>)
    else Some st.

  Definition process_epoch (st : BeaconState) : option BeaconState :=
    st <- process_justification_and_finalization st ;;
    st <- (match f with Phase0 => Some st | _ => process_inactivity_updates st end) ;;
    st <- process_rewards_and_penalties st ;;
    st <- process_registry_updates st ;;
    let st := process_slashings st in
    let st := process_eth1_data_reset st in
    let st := process_effective_balance_updates st in
    let st := process_slashings_reset st in
    let st := process_randao_mixes_reset st in
    let st := process_historical_update st in
    match f with
    | Phase0 => Some (process_participation_record_updates st)
    | _ => process_sync_committee_updates (process_participation_flag_updates st)
    end.
End Epoch.
