(* The agreement of zrnt's EpochsContext with the state (epc_ok / epc2_ok) is carried from the pre-state of a block to
   every intermediate state, using the block frame and stability theorems of property C08
   (Beacon/Proofs/{Stability,EpcInv}.v) and the frames of Block2Frame.v.  Only the pubkey cache moves (deposits). *)
From Coq Require Import String NArith ZArith List Bool Lia.
From Coq Require Import ZifyN ZifyNat ZifyBool.
From RecordUpdate Require Import RecordSet.
From V Require Import Base.U64 Base.Outcome Ssz.SszCore Beacon.Config Beacon.Schemas Beacon.State
  Beacon.Spec.Helpers Beacon.Spec.Epoch Beacon.Spec.Block Beacon.Spec.Transition Beacon.Run
  Beacon.Impl.BlockOps Beacon.Impl.Block2Ops
  Beacon.Proofs.ListFacts Beacon.Proofs.Frame Beacon.Proofs.Stability Beacon.Proofs.EpcInv
  Beacon.Refine.BlockLemmas Beacon.Refine.BlockEpc Beacon.Refine.RejectRules Beacon.Refine.Block2Refine
  Beacon.Refine.Block2AttRefine Beacon.Refine.Block2Frame.
Import ListNotations RecordSetNotations.
Local Open Scope list_scope.
Local Open Scope N_scope.

(* the pubkey cache agrees with the registry *)
Definition cache_ok (st : BeaconState) (epc : BlockEpc) : Prop :=
  (forall pk, be_pubkey_index epc pk = find_pubkey pk (validators st) 0)
  /\ (forall i, be_pubkey_of epc i = option_map v_pubkey (nthN (validators st) i)).
(* everything of the context except the pubkey cache *)
Definition same_but_cache (a b : BlockEpc) : Prop :=
  be_current_epoch a = be_current_epoch b /\ be_active_count a = be_active_count b /\ be_proposer a = be_proposer b
  /\ be_eff_balances a = be_eff_balances b /\ be_total_active_stake a = be_total_active_stake b
  /\ be_total_active_stake_sqrt a = be_total_active_stake_sqrt b /\ be_sync_indices a = be_sync_indices b
  /\ be_sync_pubkeys a = be_sync_pubkeys b.
Lemma sbc_refl a : same_but_cache a a.
Proof. repeat split. Qed.
Lemma sbc_trans a b d : same_but_cache a b -> same_but_cache b d -> same_but_cache a d.
Proof. unfold same_but_cache. intuition congruence. Qed.
Lemma sbc_cache_add a i pk : same_but_cache (cache_add a i pk) a.
Proof. repeat split. Qed.

Lemma find_pubkey_keys pk : forall vs vs' s, map v_pubkey vs = map v_pubkey vs' -> find_pubkey pk vs s = find_pubkey pk vs' s.
Proof.
  induction vs as [|v vs IH]; intros [|v' vs'] s H; cbn in H; try discriminate; [reflexivity|].
  injection H as Hv Hr. cbn [find_pubkey]. rewrite Hv. destruct (bytes_eqb (v_pubkey v') pk); [reflexivity|]. apply IH. exact Hr.
Qed.
Lemma nthN_map {A B} (h : A -> B) l i : nthN (map h l) i = option_map h (nthN l i).
Proof. rewrite !nthN_eq. apply nth_error_map. Qed.
Lemma cache_ok_pk_frame st st' epc : pk_frame st st' -> cache_ok st epc -> cache_ok st' epc.
Proof.
  unfold pk_frame. intros Hk [H1 H2]. split.
  - intros pk. rewrite H1. apply find_pubkey_keys. symmetry. exact Hk.
  - intros i. rewrite H2, <- !nthN_map, Hk. reflexivity.
Qed.

Section Carry.
  Variable E : Env.
  Let c := cfg E.

  Theorem epc_ok_carry st0 s epc0 epc :
    Config_wf c -> get_current_epoch E st0 + 1 < FAR_FUTURE_EPOCH ->
    epc_ok E st0 epc0 -> same_but_cache epc epc0 -> block_frame E st0 s -> cache_ok s epc ->
    epc_ok E s epc.
  Proof.
    intros W Hf H0 (S1 & S2 & S3 & S4 & S5 & S6 & S7 & S8) B [C1 C2].
    pose proof (bk_epoch E st0 s B) as He.
    assert (Hpe : get_previous_epoch E s = get_previous_epoch E st0) by (unfold get_previous_epoch; now rewrite He).
    destruct (previous_epoch_window E st0) as [Hw1 Hw2].
    constructor.
    - rewrite S1, He. apply (eo_epoch E st0 epc0 H0).
    - rewrite S2, He, (active_indices_block_stable E st0 s) by (try assumption; lia). apply (eo_active E st0 epc0 H0).
    - rewrite S3, (eo_proposer E st0 epc0 H0). rewrite !proposer_at_current.
      destruct (bk_base E st0 s B) as (Hs & _). rewrite Hs. symmetry. apply proposer_block_stable; assumption.
    - intros i v Hv Hact. rewrite S4, He, Hpe in *.
      destruct (bk_vals E st0 s B) as (old' & new & Hvs & F & Hn).
      destruct (N.lt_ge_cases i (N.of_nat (length (validators st0)))) as [Hlt|Hge].
      + destruct (lf_nthN_lt_Some _ _ Hlt) as (v0 & Hv0).
        destruct (Forall2_nthN _ _ _ F i v0 Hv0) as (v' & Hv' & Hk).
        rewrite Hvs, lf_nthN_app_l in Hv by (rewrite <- (lf_Forall2_length _ _ _ F); exact Hlt).
        assert (v' = v) by congruence. subst v'.
        rewrite !(vkeep_active E (get_current_epoch E st0) v0 v) in Hact by (try apply W; try assumption; lia).
        rewrite (eo_eff E st0 epc0 H0 i v0 Hv0 Hact). f_equal. symmetry. apply Hk.
      + exfalso. assert (Hin : In v new).
        { rewrite Hvs, nthN_eq in Hv. rewrite nth_error_app2 in Hv by (rewrite <- (lf_Forall2_length _ _ _ F); lia).
          eapply nth_error_In. exact Hv. }
        rewrite Forall_forall in Hn. specialize (Hn v Hin).
        rewrite !(vnew_inactive v) in Hact by (try assumption; lia). discriminate.
    - rewrite S5, (eo_total E st0 epc0 H0). symmetry. apply total_active_balance_block_stable; assumption.
    - rewrite S6, (eo_sqrt E st0 epc0 H0). f_equal. symmetry. apply total_active_balance_block_stable; assumption.
    - rewrite S8, (bk_sync_cur E st0 s B). apply (eo_sync_pubkeys E st0 epc0 H0).
    - rewrite S7, (bk_sync_cur E st0 s B).
      apply (sync_indices_block_stable E st0 s (current_sync_committee st0) _ B). apply (eo_sync_indices E st0 epc0 H0).
    - exact C1.
    - exact C2.
  Qed.

  Theorem epc2_ok_carry st0 s epc2 :
    Config_wf c -> get_current_epoch E st0 + 1 < FAR_FUTURE_EPOCH ->
    epc2_ok E st0 epc2 -> block_frame E st0 s -> cache_ok s (e2 epc2) ->
    epc2_ok E s epc2.
  Proof.
    intros W Hf H0 B C. pose proof (bk_epoch E st0 s B) as He.
    assert (Hpe : get_previous_epoch E s = get_previous_epoch E st0) by (unfold get_previous_epoch; now rewrite He).
    destruct (previous_epoch_window E st0) as [Hw1 Hw2].
    constructor.
    - apply (epc_ok_carry st0 s (e2 epc2) (e2 epc2)); try assumption; [apply (e2o_base E st0 epc2 H0)|apply sbc_refl].
    - intros e Hw. rewrite He, Hpe in Hw. rewrite (e2o_count E st0 epc2 H0 e Hw). f_equal. symmetry.
      apply committee_count_block_stable; try assumption. destruct Hw as [-> | ->]; lia.
    - intros sl i Hw. rewrite He, Hpe in Hw. rewrite (e2o_committee E st0 epc2 H0 sl i Hw).
      rewrite (committee_count_block_stable E st0 s) by (try assumption; destruct Hw as [-> | ->]; lia).
      rewrite (beacon_committee_block_stable E st0 s) by (try assumption; destruct Hw as [-> | ->]; lia). reflexivity.
  Qed.
End Carry.
