(* C08, implementation side: finished theorems under stable names (for Properties/C08.v).
   Impl = Beacon/Impl/Epc.v (model of zrnt's EpochsContext: NewEpochsContext, RotateEpochs, LoadSyncCommittees, the deposit
   path of ProcessDeposit, UpgradeMaybe, and the drivers ProcessSlots / StateTransition / chains);
   proofs = Beacon/Refine/EpcRefine.v.  Every entry restates the full statement and is closed by [exact <lemma>]. *)
From Coq Require Import String NArith List Bool Lia.
From RecordUpdate Require Import RecordSet.
From V Require Import Base.U64 Base.Outcome Ssz.SszCore Beacon.Config Beacon.Schemas Beacon.State
  Beacon.Spec.Helpers Beacon.Spec.Epoch Beacon.Spec.Block Beacon.Spec.Transition Beacon.Run
  Beacon.Proofs.C08Theorems Beacon.Impl.Shuffling Beacon.Impl.Epc Beacon.Refine.ShufflingRefine Beacon.Refine.ProposersRefine.
From V Require Export Beacon.Refine.EpcRefine.
From V Require Shuffle.ShuffleArith.
Import ListNotations RecordSetNotations.
Local Open Scope N_scope.

(* ================= 1. the leaf functions of the context computation ================= *)
Theorem C08I_get_seed_refines : forall E st epoch dt,
  MIN_SEED_LOOKAHEAD (cfg E) + 2 < EPOCHS_PER_HISTORICAL_VECTOR (cfg E) ->
  epoch + EPOCHS_PER_HISTORICAL_VECTOR (cfg E) < two64 ->
  get_seed_impl E (randao_mixes st) epoch dt = Ok (get_seed E st epoch dt).
Proof. exact get_seed_impl_ok. Qed.
Theorem C08I_epoch_start_slot_refines : forall E e, 0 < SLOTS_PER_EPOCH (cfg E) -> e * SLOTS_PER_EPOCH (cfg E) < two64 ->
  epoch_start_slot_impl E e = Ok (compute_start_slot_at_epoch E e).
Proof. exact epoch_start_slot_impl_ok. Qed.
Theorem C08I_load_current_stake_refines : forall E st,
  sumN (map (eff_bal st) (get_active_validator_indices st (get_current_epoch E st))) < two64 ->
  EFFECTIVE_BALANCE_INCREMENT (cfg E) < two64 ->
  load_current_stake E (validators st) (load_bounded_indices (validators st)) (get_current_epoch E st) =
  Ok (map v_effective_balance (validators st), get_total_active_balance E st, N.sqrt (get_total_active_balance E st)).
Proof. exact load_current_stake_ok. Qed.
Theorem C08I_hydrate_sync_committee_refines : forall st sc,
  hydrate_sync_committee (map v_pubkey (validators st)) sc =
  match sync_indices_of st sc with Some l => Ok l | None => Err end.
Proof. exact hydrate_sync_committee_spec. Qed.
Theorem C08I_compute_shuffling_epoch_refines : forall E st e,
  Config_wf (cfg E) -> e + EPOCHS_PER_HISTORICAL_VECTOR (cfg E) < two64 -> shuffle_ok E st e ->
  exists she, compute_shuffling_epoch E (randao_mixes st) (load_bounded_indices (validators st)) e = Ok she /\
    se_epoch she = e /\ se_active she = get_active_validator_indices st e /\
    se_committees she = committees_of_epoch E st e.
Proof. exact compute_shuffling_epoch_ok. Qed.
Theorem C08I_compute_proposers_epoch_refines : forall E st,
  Config_wf (cfg E) -> get_current_epoch E st + EPOCHS_PER_HISTORICAL_VECTOR (cfg E) < two64 -> proposers_ok E st ->
  exists ps, compute_proposers_epoch E (validators st) (randao_mixes st) (get_current_epoch E st)
               (get_active_validator_indices st (get_current_epoch E st)) = Ok (get_current_epoch E st, ps) /\
    map Some ps = map (fun s => proposer_at E st (compute_start_slot_at_epoch E (get_current_epoch E st) + s))
                      (seqN 0 (N.to_nat (SLOTS_PER_EPOCH (cfg E)))).
Proof. exact compute_proposers_epoch_ok. Qed.

(* ================= 2. Spec facts the invariant needs beyond Beacon/Proofs ================= *)
(* a freshly sampled sync committee consists of registered validators *)
Theorem C08I_next_sync_committee_registered : forall E s nsc,
  get_next_sync_committee E s = Some nsc -> sync_indices_of s nsc <> None.
Proof. exact next_sync_committee_registered. Qed.
(* process_epoch rotates the sync committees at period boundaries (from altair) and never touches them otherwise *)
Theorem C08I_process_epoch_sync : forall E f st st', process_epoch E f st = Some st' ->
  (fork_ge f Altair = true -> (get_current_epoch E st + 1) mod EPOCHS_PER_SYNC_COMMITTEE_PERIOD (cfg E) = 0 ->
     current_sync_committee st' = next_sync_committee st /\ sync_indices_of st' (next_sync_committee st') <> None) /\
  (fork_ge f Altair = false \/ (get_current_epoch E st + 1) mod EPOCHS_PER_SYNC_COMMITTEE_PERIOD (cfg E) <> 0 ->
     current_sync_committee st' = current_sync_committee st /\ next_sync_committee st' = next_sync_committee st).
Proof. exact process_epoch_sync. Qed.
(* apart from the sync indices the from-scratch view depends on the epoch, the registry and the mixes only *)
Theorem C08I_spec_view_nonsync : forall E f f' st st',
  get_current_epoch E st' = get_current_epoch E st -> validators st' = validators st -> randao_mixes st' = randao_mixes st ->
  ev_current_epoch (spec_epc_view E f' st') = ev_current_epoch (spec_epc_view E f st) /\
  ev_active (spec_epc_view E f' st') = ev_active (spec_epc_view E f st) /\
  ev_committees (spec_epc_view E f' st') = ev_committees (spec_epc_view E f st) /\
  ev_proposers (spec_epc_view E f' st') = ev_proposers (spec_epc_view E f st) /\
  ev_effective_balances (spec_epc_view E f' st') = ev_effective_balances (spec_epc_view E f st) /\
  ev_total_active_stake (spec_epc_view E f' st') = ev_total_active_stake (spec_epc_view E f st).
Proof. exact spec_view_nonsync. Qed.

(* ================= 3. the invariant, step by step ================= *)
Theorem C08I_epc_matches_sync_registered : forall E f st e, epc_matches E f st e -> sync_registered f st.
Proof. exact epc_matches_sync_registered. Qed.
Theorem C08I_new_epochs_context_matches : forall E f st,
  Config_wf (cfg E) -> new_ok E st -> sync_registered f st ->
  exists e, new_epochs_context E f st = Ok e /\ epc_matches E f st e.
Proof. exact new_epochs_context_matches. Qed.
Theorem C08I_epc_matches_frame : forall E f st st' e,
  Config_wf (cfg E) -> get_current_epoch E st + 1 < FAR_FUTURE_EPOCH -> block_frame E st st' ->
  epc_matches E f st e -> epc_matches E f st' (epc_after_block e st st').
Proof. exact epc_matches_frame. Qed.
Theorem C08I_epc_inv_block : forall E f st blk st' e,
  Config_wf (cfg E) -> get_current_epoch E st + 1 < FAR_FUTURE_EPOCH ->
  epc_matches E f st e -> process_block E f st blk = Some st' ->
  epc_matches E f st' (epc_after_block e st st').
Proof. exact epc_inv_block. Qed.
Theorem C08I_epc_apply_deposit_refines : forall E f st e pk wc amount sig,
  0 < EFFECTIVE_BALANCE_INCREMENT (cfg E) -> epc_matches E f st e ->
  epc_apply_deposit E e st pk wc amount sig = Ok (epc_after_block e st (apply_deposit E f st pk wc amount sig)).
Proof. exact epc_apply_deposit_refines. Qed.
Theorem C08I_epc_process_deposits_refines : forall E f deps st st' e,
  Config_wf (cfg E) -> get_current_epoch E st + 1 < FAR_FUTURE_EPOCH -> 0 < EFFECTIVE_BALANCE_INCREMENT (cfg E) ->
  epc_matches E f st e -> for_ops deps (process_deposit E f) st = Some st' ->
  epc_process_deposits E f st e deps = Ok (epc_after_block e st st') /\ block_frame E st st'.
Proof. exact epc_process_deposits_refines. Qed.
Theorem C08I_epc_after_block_same_length : forall e st st',
  length (validators st') = length (validators st) -> epc_after_block e st st' = e.
Proof. exact epc_after_block_same_length. Qed.
Theorem C08I_epc_inv_slot : forall E f st f' st' e,
  0 < SLOTS_PER_EPOCH (cfg E) -> (slot st + 1) mod SLOTS_PER_EPOCH (cfg E) <> 0 ->
  epc_matches E f st e -> slot_step E f st = Some (f', st') ->
  f' = f /\ epc_slot_step E f st e = Ok e /\ epc_matches E f st' e.
Proof. exact epc_inv_slot. Qed.
Theorem C08I_epc_inv_rotate : forall E f st st1 e,
  Config_wf (cfg E) -> lengths_inv f st -> (slot st + 1) mod SLOTS_PER_EPOCH (cfg E) = 0 ->
  epc_matches E f st e ->
  process_epoch E f (process_slot E f st) = Some st1 ->
  rotate_ok E (st1 <| slot := slot st1 + 1 |>) ->
  exists e', rotate_epochs E f (st1 <| slot := slot st1 + 1 |>) e = Ok e' /\
             epc_matches E f (st1 <| slot := slot st1 + 1 |>) e'.
Proof. exact epc_inv_rotate. Qed.
Theorem C08I_epc_inv_upgrade : forall E fuel f st f' st' e,
  epc_matches E f st e -> upgrade_maybe E fuel f st = Some (f', st') ->
  exists e', epc_upgrade_maybe E fuel f st e = Ok e' /\ epc_matches E f' st' e'.
Proof. exact epc_inv_upgrade. Qed.
Theorem C08I_epc_inv_slot_step : forall E f st f' st' e,
  Config_wf (cfg E) -> lengths_inv f st -> epc_matches E f st e ->
  slot_step E f st = Some (f', st') -> slot_hyp E f st ->
  exists e', epc_slot_step E f st e = Ok e' /\ epc_matches E f' st' e'.
Proof. exact epc_inv_slot_step. Qed.
Theorem C08I_epc_inv_process_slots : forall E f st e target f' st',
  Config_wf (cfg E) -> lengths_inv f st -> epc_matches E f st e ->
  process_slots E f st target = Some (f', st') -> process_slots_hyp E f st target ->
  exists e', epc_process_slots E f st e target = Ok e' /\ epc_matches E f' st' e'.
Proof. exact epc_inv_process_slots. Qed.
Theorem C08I_epc_inv_state_transition : forall E f st e bf sb validate f' st',
  Config_wf (cfg E) -> lengths_inv f st -> epc_matches E f st e ->
  state_transition E f st bf sb validate = Some (f', st') -> transition_hyp E f st sb ->
  exists e', epc_state_transition E f st e bf sb validate = Ok e' /\ epc_matches E f' st' e'.
Proof. exact epc_inv_state_transition. Qed.

(* ================= 4. chains ================= *)
Theorem C08I_epc_always_fresh : forall E steps f st e f' st',
  Config_wf (cfg E) -> lengths_inv f st -> epc_matches E f st e ->
  spec_chain E steps f st = Some (f', st') -> chain_hyp E steps f st ->
  exists e', epc_chain E steps f st e = Ok e' /\ epc_matches E f' st' e' /\ lengths_inv f' st'.
Proof. exact epc_always_fresh. Qed.
Theorem C08I_epc_always_fresh_from_new : forall E steps f st f' st',
  Config_wf (cfg E) -> lengths_inv f st -> new_ok E st -> sync_registered f st ->
  spec_chain E steps f st = Some (f', st') -> chain_hyp E steps f st ->
  exists e0 e', new_epochs_context E f st = Ok e0 /\ epc_chain E steps f st e0 = Ok e' /\ epc_matches E f' st' e'.
Proof. exact epc_always_fresh_from_new. Qed.
Theorem C08I_epc_matches_unique : forall E f st e1 e2, epc_matches E f st e1 -> epc_matches E f st e2 ->
  epc_to_view e1 = epc_to_view e2 /\ epc_pubkeys e1 = epc_pubkeys e2.
Proof. exact epc_matches_unique. Qed.
Theorem C08I_reload_continue_same : forall E steps f st e f' st' more f'' st'',
  Config_wf (cfg E) -> lengths_inv f st -> epc_matches E f st e ->
  spec_chain E steps f st = Some (f', st') -> chain_hyp E steps f st -> new_ok E st' ->
  spec_chain E more f' st' = Some (f'', st'') -> chain_hyp E more f' st' ->
  exists live fresh live2 fresh2,
    epc_chain E steps f st e = Ok live /\ new_epochs_context E f' st' = Ok fresh /\
    epc_to_view live = epc_to_view fresh /\ epc_pubkeys live = epc_pubkeys fresh /\
    epc_chain E more f' st' live = Ok live2 /\ epc_chain E more f' st' fresh = Ok fresh2 /\
    epc_to_view live2 = epc_to_view fresh2 /\ epc_pubkeys live2 = epc_pubkeys fresh2 /\
    epc_to_view live2 = spec_epc_view E f'' st''.
Proof. exact reload_continue_same. Qed.

(* ================= 5. a concrete instance of every hypothesis (for the Example of Properties/C08.v) =================
   minimal-like configuration (SLOTS_PER_EPOCH 8), trivial oracles (constant hash: the shuffle is then the identity and
   the first candidate proposer is accepted, which keeps vm_compute cheap; nothing in the theorems depends on it),
   phase0 state at slot 9 with 12 validators of which one exits and one is activated at epoch 2. *)
Open Scope string_scope.
Definition ci_num (k : string) : N :=
  if k =? "SLOTS_PER_EPOCH" then 8 else if k =? "MIN_SEED_LOOKAHEAD" then 1 else if k =? "MAX_SEED_LOOKAHEAD" then 4
  else if k =? "EPOCHS_PER_HISTORICAL_VECTOR" then 64 else if k =? "EPOCHS_PER_SLASHINGS_VECTOR" then 64
  else if k =? "SLOTS_PER_HISTORICAL_ROOT" then 64 else if k =? "SHUFFLE_ROUND_COUNT" then 10
  else if k =? "MAX_EFFECTIVE_BALANCE" then 32000000000 else if k =? "EFFECTIVE_BALANCE_INCREMENT" then 1000000000
  else if k =? "MAX_DEPOSITS" then 16 else if k =? "EPOCHS_PER_ETH1_VOTING_PERIOD" then 4
  else if k =? "MAX_COMMITTEES_PER_SLOT" then 4 else if k =? "TARGET_COMMITTEE_SIZE" then 4
  else if k =? "VALIDATOR_REGISTRY_LIMIT" then 1099511627776 else 1.
Close Scope string_scope.
Definition ci_cfg : Config := config_of ci_num (fun _ => [0; 0; 0; 1]).
Definition ci_z32 : bytes := repeat 0 32.
Definition ci_E : Env := mkEnv ci_cfg (fun _ => ci_z32) (fun _ => ci_z32) (fun _ _ _ => true) (fun _ _ _ => true)
                              (fun _ => repeat 0 48) (fun _ _ _ => true).
(* 12 validators: number 3 exits at epoch 2, number 7 is activated at epoch 2: the active sets of epochs 1, 2 differ *)
Definition ci_validator (i : N) : Validator :=
  mkValidator (repeat i 48) ci_z32 32000000000 false 0 (if i =? 7 then 2 else 0) (if i =? 3 then 2 else FAR_FUTURE_EPOCH) FAR_FUTURE_EPOCH.
Definition ci_st : BeaconState := {|
  genesis_time := 0; genesis_validators_root := ci_z32; slot := 9;
  fork_rec := mkFork [0;0;0;1] [0;0;0;1] 0;
  latest_block_header := mkHeader 8 0 ci_z32 ci_z32 ci_z32;
  block_roots := repeat ci_z32 64; state_roots := repeat ci_z32 64; historical_roots := [];
  eth1_data := mkEth1Data ci_z32 1 ci_z32; eth1_data_votes := []; eth1_deposit_index := 0;
  validators := map ci_validator [1; 2; 3; 4; 5; 6; 7; 8; 9; 10; 11; 12]; balances := repeat 32000000000 12;
  randao_mixes := repeat ci_z32 64; slashings := repeat 0 64;
  previous_epoch_attestations := []; current_epoch_attestations := [];
  previous_epoch_participation := []; current_epoch_participation := [];
  justification_bits := repeat false 4;
  previous_justified_checkpoint := mkCheckpoint 0 ci_z32; current_justified_checkpoint := mkCheckpoint 0 ci_z32;
  finalized_checkpoint := mkCheckpoint 0 ci_z32;
  inactivity_scores := []; current_sync_committee := empty_sc; next_sync_committee := empty_sc;
  latest_execution_payload_header := VCont []; next_withdrawal_index := 0; next_withdrawal_validator_index := 0;
  historical_summaries := [] |}.
Definition ci_next (s : BeaconState) : BeaconState :=
  match slot_step ci_E Phase0 s with Some (_, s') => s' | None => s end.
Definition ci_s10 := Eval vm_compute in ci_next ci_st.
Definition ci_s11 := Eval vm_compute in ci_next ci_s10.
Definition ci_s12 := Eval vm_compute in ci_next ci_s11.
Definition ci_s13 := Eval vm_compute in ci_next ci_s12.
Definition ci_s14 := Eval vm_compute in ci_next ci_s13.
Definition ci_s15 := Eval vm_compute in ci_next ci_s14.
Definition ci_s16 := Eval vm_compute in ci_next ci_s15.
Definition ci_s17 := Eval vm_compute in ci_next ci_s16.
Definition ci_deposit : value :=
  VCont [VSeq (map VBytes (repeat ci_z32 33));
         VCont [VBytes (repeat 99 48); VBytes ci_z32; VUint 17500000000; VBytes (repeat 0 96)]].
Definition ci_body : value :=
  VCont [VBytes (repeat 0 96); VCont [VBytes ci_z32; VUint 1; VBytes ci_z32]; VBytes ci_z32;
         VSeq []; VSeq []; VSeq []; VSeq [ci_deposit]; VSeq []].
Definition ci_blk : value :=
  VCont [VUint 17;
         VUint (match get_beacon_proposer_index ci_E ci_s17 with Some p => p | None => 0 end);
         VBytes (htr ci_E BeaconBlockHeaderT (header_to_value (latest_block_header ci_s17)));
         VBytes ci_z32; ci_body].
Definition ci_signed : value := VCont [ci_blk; VBytes (repeat 0 96)].
Definition ci_chain : list chain_step := [CBlock Phase0 ci_signed false; CSlots 25].
Definition ci_b17 := Eval vm_compute in
  match state_transition ci_E Phase0 ci_st Phase0 ci_signed false with Some (_, s) => s | None => ci_st end.
Definition ci_s18 := Eval vm_compute in ci_next ci_b17.
Definition ci_s19 := Eval vm_compute in ci_next ci_s18.
Definition ci_s20 := Eval vm_compute in ci_next ci_s19.
Definition ci_s21 := Eval vm_compute in ci_next ci_s20.
Definition ci_s22 := Eval vm_compute in ci_next ci_s21.
Definition ci_s23 := Eval vm_compute in ci_next ci_s22.
Definition ci_s24 := Eval vm_compute in ci_next ci_s23.
Definition ci_s25 := Eval vm_compute in ci_next ci_s24.
Definition ci_e15 := Eval vm_compute in
  match process_epoch ci_E Phase0 (process_slot ci_E Phase0 ci_s15) with Some s => s | None => ci_st end.
Definition ci_e23 := Eval vm_compute in
  match process_epoch ci_E Phase0 (process_slot ci_E Phase0 ci_s23) with Some s => s | None => ci_st end.

Lemma ci_hash_bytes : forall m, ShuffleArith.bytes_ok (Hash ci_E m).
Proof. intros m. unfold ShuffleArith.bytes_ok. cbn [Hash ci_E]. unfold ci_z32. cbn [repeat]. repeat constructor. Qed.
Lemma Forall_by_forallb {A} (p : A -> bool) (P : A -> Prop) l :
  (forall x, p x = true -> P x) -> forallb p l = true -> Forall P l.
Proof. intros H Hl. apply Forall_forall. intros x Hx. apply H. exact (proj1 (forallb_forall p l) Hl x Hx). Qed.

Ltac ci_shuffle_ok := constructor; try exact ci_hash_bytes; vm_compute; try reflexivity; discriminate.
Ltac ci_rotate_ok :=
  constructor;
  [ ci_shuffle_ok
  | constructor;
    [ vm_compute; discriminate | exact ci_hash_bytes | vm_compute; reflexivity | vm_compute; discriminate
    | vm_compute; reflexivity
    | apply (Forall_by_forallb (fun v => v_effective_balance v * 255 <? two64));
      [ intros x Hx; apply N.ltb_lt; exact Hx | vm_compute; reflexivity ]
    | vm_compute; discriminate
    | intros i _; exists 0; vm_compute; reflexivity ]
  | vm_compute; reflexivity | vm_compute; reflexivity | vm_compute; reflexivity | vm_compute; reflexivity ].

Lemma ci_new_ok : new_ok ci_E ci_st.
Proof. constructor; [ci_shuffle_ok|ci_shuffle_ok|ci_rotate_ok]. Qed.
Lemma ci_rotate_ok_16 : rotate_ok ci_E (ci_e15 <| slot := slot ci_e15 + 1 |>).
Proof. ci_rotate_ok. Qed.
Lemma ci_rotate_ok_24 : rotate_ok ci_E (ci_e23 <| slot := slot ci_e23 + 1 |>).
Proof. ci_rotate_ok. Qed.

Lemma slots_hyp_step E k f st t f1 st1 : (t <=? slot st) = false -> slot_step E f st = Some (f1, st1) ->
  slot_hyp E f st -> slots_hyp E k f1 st1 t -> slots_hyp E (S k) f st t.
Proof. intros H1 H2 H3 H4. cbn [slots_hyp]. rewrite H1, H2. split; assumption. Qed.
Lemma slots_hyp_done E k f st t : (t <=? slot st) = true -> slots_hyp E k f st t.
Proof. intros H. destruct k; cbn [slots_hyp]; rewrite H; exact I. Qed.
Lemma slot_hyp_off E f st : (slot st + 1) mod SLOTS_PER_EPOCH (cfg E) <> 0 -> slot_hyp E f st.
Proof. intros H Hb. contradiction. Qed.
Lemma slot_hyp_at E f st st1 : process_epoch E f (process_slot E f st) = Some st1 ->
  rotate_ok E (st1 <| slot := slot st1 + 1 |>) -> slot_hyp E f st.
Proof. intros H R _ st1' H'. rewrite H in H'. injection H' as <-. exact R. Qed.

Ltac ci_step := vm_compute; reflexivity.
Lemma ci_step9 : slot_step ci_E Phase0 ci_st = Some (Phase0, ci_s10). Proof. ci_step. Qed.
Lemma ci_step10 : slot_step ci_E Phase0 ci_s10 = Some (Phase0, ci_s11). Proof. ci_step. Qed.
Lemma ci_step11 : slot_step ci_E Phase0 ci_s11 = Some (Phase0, ci_s12). Proof. ci_step. Qed.
Lemma ci_step12 : slot_step ci_E Phase0 ci_s12 = Some (Phase0, ci_s13). Proof. ci_step. Qed.
Lemma ci_step13 : slot_step ci_E Phase0 ci_s13 = Some (Phase0, ci_s14). Proof. ci_step. Qed.
Lemma ci_step14 : slot_step ci_E Phase0 ci_s14 = Some (Phase0, ci_s15). Proof. ci_step. Qed.
Lemma ci_step15 : slot_step ci_E Phase0 ci_s15 = Some (Phase0, ci_s16). Proof. ci_step. Qed.
Lemma ci_step16 : slot_step ci_E Phase0 ci_s16 = Some (Phase0, ci_s17). Proof. ci_step. Qed.
Lemma ci_step17 : slot_step ci_E Phase0 ci_b17 = Some (Phase0, ci_s18). Proof. ci_step. Qed.
Lemma ci_step18 : slot_step ci_E Phase0 ci_s18 = Some (Phase0, ci_s19). Proof. ci_step. Qed.
Lemma ci_step19 : slot_step ci_E Phase0 ci_s19 = Some (Phase0, ci_s20). Proof. ci_step. Qed.
Lemma ci_step20 : slot_step ci_E Phase0 ci_s20 = Some (Phase0, ci_s21). Proof. ci_step. Qed.
Lemma ci_step21 : slot_step ci_E Phase0 ci_s21 = Some (Phase0, ci_s22). Proof. ci_step. Qed.
Lemma ci_step22 : slot_step ci_E Phase0 ci_s22 = Some (Phase0, ci_s23). Proof. ci_step. Qed.
Lemma ci_step23 : slot_step ci_E Phase0 ci_s23 = Some (Phase0, ci_s24). Proof. ci_step. Qed.
Lemma ci_step24 : slot_step ci_E Phase0 ci_s24 = Some (Phase0, ci_s25). Proof. ci_step. Qed.
Lemma ci_epoch15 : process_epoch ci_E Phase0 (process_slot ci_E Phase0 ci_s15) = Some ci_e15. Proof. ci_step. Qed.
Lemma ci_epoch23 : process_epoch ci_E Phase0 (process_slot ci_E Phase0 ci_s23) = Some ci_e23. Proof. ci_step. Qed.
Lemma ci_slots17 : process_slots ci_E Phase0 ci_st 17 = Some (Phase0, ci_s17). Proof. ci_step. Qed.
Lemma ci_transition : state_transition ci_E Phase0 ci_st Phase0 ci_signed false = Some (Phase0, ci_b17). Proof. ci_step. Qed.
Lemma ci_slots25 : process_slots ci_E Phase0 ci_b17 25 = Some (Phase0, ci_s25). Proof. ci_step. Qed.

Ltac ci_off S := refine (slots_hyp_step _ _ _ _ _ _ _ _ S _ _); [vm_compute; reflexivity | apply slot_hyp_off; vm_compute; discriminate | ].
Ltac ci_at S Ep R := refine (slots_hyp_step _ _ _ _ _ _ _ _ S _ _); [vm_compute; reflexivity | exact (slot_hyp_at _ _ _ _ Ep R) | ].
Lemma ci_slots_hyp_17 : process_slots_hyp ci_E Phase0 ci_st 17.
Proof.
  unfold process_slots_hyp. change (N.to_nat (17 - slot ci_st)) with 8%nat.
  ci_off ci_step9. ci_off ci_step10. ci_off ci_step11. ci_off ci_step12. ci_off ci_step13. ci_off ci_step14.
  ci_at ci_step15 ci_epoch15 ci_rotate_ok_16.
  ci_off ci_step16. apply slots_hyp_done. vm_compute. reflexivity.
Qed.
Lemma ci_slots_hyp_25 : process_slots_hyp ci_E Phase0 ci_b17 25.
Proof.
  unfold process_slots_hyp. change (N.to_nat (25 - slot ci_b17)) with 8%nat.
  ci_off ci_step17. ci_off ci_step18. ci_off ci_step19. ci_off ci_step20. ci_off ci_step21. ci_off ci_step22.
  ci_at ci_step23 ci_epoch23 ci_rotate_ok_24.
  ci_off ci_step24. apply slots_hyp_done. vm_compute. reflexivity.
Qed.
Lemma ci_chain_hyp : chain_hyp ci_E ci_chain Phase0 ci_st.
Proof.
  unfold ci_chain. cbn [chain_hyp chain_step_hyp spec_chain_step]. rewrite ci_transition. rewrite ci_slots25.
  split; [split; [exact ci_slots_hyp_17|]|split; [exact ci_slots_hyp_25|exact I]].
  intros f1 st1 H. change (vuint (vfield (vfield ci_signed 0) 0)) with 17 in H. rewrite ci_slots17 in H. injection H as _ <-.
  vm_compute. reflexivity.
Qed.
Lemma ci_spec_chain : spec_chain ci_E ci_chain Phase0 ci_st = Some (Phase0, ci_s25).
Proof. unfold ci_chain. cbn [spec_chain spec_chain_step]. rewrite ci_transition, ci_slots25. reflexivity. Qed.

(* every hypothesis of epc_always_fresh_from_new holds for this chain: a block at slot 17 (after the epoch boundary
   15 -> 16) carrying one deposit of a new key, then empty slots across the boundary 23 -> 24 *)
Theorem ci_nonvacuous :
  Config_wf (cfg ci_E) /\ lengths_inv Phase0 ci_st /\ new_ok ci_E ci_st /\ sync_registered Phase0 ci_st /\
  spec_chain ci_E ci_chain Phase0 ci_st = Some (Phase0, ci_s25) /\ chain_hyp ci_E ci_chain Phase0 ci_st /\
  slot ci_s25 = 25 /\ length (validators ci_s25) = 13%nat /\
  get_active_validator_indices ci_st 1 <> get_active_validator_indices ci_st 2 /\
  exists e0 e', new_epochs_context ci_E Phase0 ci_st = Ok e0 /\ epc_chain ci_E ci_chain Phase0 ci_st e0 = Ok e' /\
    epc_matches ci_E Phase0 ci_s25 e' /\ length (epc_effective_balances e') = 13%nat /\ se_epoch (epc_cur e') = 3.
Proof.
  assert (W : Config_wf (cfg ci_E)) by (constructor; vm_compute; first [reflexivity|discriminate]).
  assert (L : lengths_inv Phase0 ci_st) by (split; [vm_compute; reflexivity|intros H; vm_compute in H; discriminate H]).
  split; [exact W|]. split; [exact L|]. split; [exact ci_new_ok|]. split; [exact (sync_registered_phase0 ci_st)|].
  split; [exact ci_spec_chain|]. split; [exact ci_chain_hyp|].
  split; [vm_compute; reflexivity|]. split; [vm_compute; reflexivity|]. split; [vm_compute; discriminate|].
  destruct (epc_always_fresh_from_new ci_E ci_chain Phase0 ci_st Phase0 ci_s25 W L ci_new_ok (sync_registered_phase0 ci_st)
              ci_spec_chain ci_chain_hyp) as (e0 & e' & R0 & R & M).
  exists e0, e'. split; [exact R0|]. split; [exact R|]. split; [exact M|].
  destruct M as (V & _ & _). split.
  - apply (f_equal ev_effective_balances) in V. cbn [epc_to_view ev_effective_balances] in V. rewrite V. vm_compute. reflexivity.
  - apply (f_equal ev_current_epoch) in V. cbn [epc_to_view ev_current_epoch] in V. rewrite V. vm_compute. reflexivity.
Qed.

(* ================= 6. the pinned snapshot's deposit path (before fix 8e640f4) breaks the match =================
   a matching context, one deposit of a new key: the registry (and the from-scratch view) has 13 effective balances,
   the context maintained by the old code still 12 *)
Theorem deposit_path_orig_refuted :
  exists E f st e pk wc amount sig e',
    epc_matches E f st e /\ epc_apply_deposit_orig E e st pk wc amount sig = Ok e' /\
    ~ epc_matches E f (apply_deposit E f st pk wc amount sig) e'.
Proof.
  assert (W : Config_wf (cfg ci_E)) by (constructor; vm_compute; first [reflexivity|discriminate]).
  destruct (new_epochs_context_matches ci_E Phase0 ci_st W ci_new_ok (sync_registered_phase0 ci_st)) as (e0 & R0 & M0).
  vm_compute in R0. injection R0 as R0.
  exists ci_E, Phase0, ci_st, e0, (repeat 99 48), ci_z32, 17500000000, (repeat 0 96).
  rewrite <- R0 in *. eexists. split; [exact M0|]. split; [vm_compute; reflexivity|].
  intros (V & _ & _). apply (f_equal (fun v => length (ev_effective_balances v))) in V. vm_compute in V. discriminate V.
Qed.
