(* C07: zrnt's committees (NewShufflingEpoch: UnshuffleList of the active indices, then slicing) are exactly the
   committees the specification computes index by index (compute_committee / get_beacon_committee).
   Rests on C06 (Shuffle/ShuffleProofs.v: the whole-list routine equals the per-index function pointwise) and on
   Beacon/Proofs/ShuffleBridge.v (the beacon Spec's shuffle_rounds is that per-index function). *)
From Coq Require Import NArith ZArith List Lia Bool Permutation.
From Coq Require Import ZifyN ZifyNat ZifyBool.
From V Require Import Base.U64 Base.Outcome Ssz.SszCore Beacon.Config Beacon.State Beacon.Spec.Helpers
  Beacon.Proofs.CommitteeSlices Beacon.Proofs.CommitteePartition Beacon.Proofs.ShuffleBridge Beacon.Impl.Shuffling.
From V Require Math.MathModel Math.MathProofs Shuffle.ShuffleModel Shuffle.ShuffleArith Shuffle.ShuffleIndexProofs
  Shuffle.ShuffleListProofs Shuffle.ShuffleProofs.
Import ListNotations.
Local Open Scope N_scope.
Ltac Zify.zify_post_hook ::= Z.div_mod_to_equations.

(* ---------- list plumbing ---------- *)
Lemma skipn_nth_cons {A} (l : list A) (a : nat) (d : A) : (a < length l)%nat ->
  skipn a l = nth a l d :: skipn (S a) l.
Proof.
  revert a. induction l as [|x l IH]; intros a Ha; cbn in Ha; [lia|].
  destruct a as [|a]; [reflexivity|]. cbn [skipn nth]. rewrite (IH a) by lia. reflexivity.
Qed.
Lemma firstn_skipn_seqN {A} (l : list A) (d : A) : forall k a, (a + k <= length l)%nat ->
  firstn k (skipn a l) = map (fun i => nth (N.to_nat i) l d) (seqN (N.of_nat a) k).
Proof.
  induction k as [|k IH]; intros a Hk; [reflexivity|].
  rewrite (skipn_nth_cons l a d) by lia. cbn [firstn seqN map]. rewrite Nat2N.id. f_equal.
  rewrite IH by lia. f_equal. f_equal. lia.
Qed.
Lemma slice_spec {A} (l : list A) (d : A) a b : a <= b -> b <= N.of_nat (length l) ->
  slice l a b = Ok (map (fun i => nth (N.to_nat i) l d) (seqN a (N.to_nat (b - a)))).
Proof.
  intros Hab Hb. unfold slice.
  replace ((a <=? b) && (b <=? N.of_nat (length l))) with true
    by (symmetry; apply andb_true_iff; split; apply N.leb_le; assumption).
  rewrite (firstn_skipn_seqN l d) by lia. rewrite N2Nat.id. reflexivity.
Qed.

Lemma ok_all_map {A B} (f : A -> outcome B) (g : A -> B) (l : list A) :
  (forall x, In x l -> f x = Ok (g x)) -> ok_all (map f l) = Ok (map g l).
Proof.
  induction l as [|x l IH]; intros Hf; [reflexivity|].
  cbn [map ok_all]. rewrite (Hf x (or_introl eq_refl)). cbn [bind].
  rewrite IH by (intros y Hy; apply Hf; right; exact Hy). reflexivity.
Qed.
Lemma nthN_map_seqN {B} (g : N -> B) (k : nat) (s : N) : s < N.of_nat k -> nthN (map g (seqN 0 k)) s = Some (g s).
Proof.
  intros Hs. unfold nthN. rewrite map_length, seqN_length.
  replace (s <? N.of_nat k) with true by (symmetry; apply N.ltb_lt; exact Hs).
  rewrite nth_error_map.
  assert (G : forall k a j, (j < k)%nat -> nth_error (seqN a k) j = Some (a + N.of_nat j)).
  { clear. induction k as [|k IH]; intros a j Hj; [lia|]. destruct j as [|j]; cbn [seqN nth_error].
    - f_equal. lia.
    - rewrite IH by lia. f_equal. lia. }
  rewrite G by lia. cbn [option_map]. f_equal. f_equal. lia.
Qed.

(* ---------- ActiveIndices = get_active_validator_indices ---------- *)
Lemma active_indices_from s vals epoch :
  active_indices_impl (load_bounded_from s vals) epoch =
  map fst (filter (fun iv => is_active_validator (snd iv) epoch) (combine (seqN s (length vals)) vals)).
Proof.
  revert s. induction vals as [|v vals IH]; intros s; [reflexivity|].
  unfold active_indices_impl in *. cbn [load_bounded_from length seqN combine filter bi_activation bi_exit snd].
  unfold is_active_validator at 1. destruct ((v_activation_epoch v <=? epoch) && (epoch <? v_exit_epoch v));
    cbn [map fst bi_index]; rewrite IH; reflexivity.
Qed.
Theorem active_indices_refines st epoch :
  active_indices_impl (load_bounded_indices (validators st)) epoch = get_active_validator_indices st epoch.
Proof. apply active_indices_from. Qed.

Section CommitteeRefine.
  Variable E : Env.
  Let c := cfg E.

  (* what the refinement really needs *)
  Record shuffling_params_ok (n : N) : Prop := {
    po_rounds : SHUFFLE_ROUND_COUNT c <= 255;                        (* uint8(SHUFFLE_ROUND_COUNT) is exact *)
    po_bytes : forall m, ShuffleArith.bytes_ok (Hash E m);           (* the hash returns bytes *)
    po_size : n <= ShuffleIndexProofs.spec_limit;                    (* 2^40: the spec's uint32(position // 256) *)
    po_spe : 0 < SLOTS_PER_EPOCH c;
    po_tcs : 0 < TARGET_COMMITTEE_SIZE c;
    po_mcps : 0 < MAX_COMMITTEES_PER_SLOT c;
    po_count64 : MAX_COMMITTEES_PER_SLOT c * SLOTS_PER_EPOCH c < two64;        (* committeeCount fits uint64 *)
    po_nowrap : n * (MAX_COMMITTEES_PER_SLOT c * SLOTS_PER_EPOCH c) < two64  (* validatorCount * (index+1) fits uint64 *)
  }.

  (* CommitteeCount = max(1, min(MAX_COMMITTEES_PER_SLOT, n / SLOTS_PER_EPOCH / TARGET_COMMITTEE_SIZE)) *)
  Lemma committee_count_impl_eq n : 0 < MAX_COMMITTEES_PER_SLOT c ->
    committee_count_impl E n =
    N.max 1 (N.min (MAX_COMMITTEES_PER_SLOT c) (n / SLOTS_PER_EPOCH c / TARGET_COMMITTEE_SIZE c)).
  Proof. intros H. unfold committee_count_impl. fold c. rewrite MathProofs.committee_count_eq by exact H. reflexivity. Qed.
  Theorem committee_count_refines st epoch : 0 < MAX_COMMITTEES_PER_SLOT c ->
    committee_count_impl E (N.of_nat (length (get_active_validator_indices st epoch))) =
    get_committee_count_per_slot E st epoch.
  Proof. intros H. rewrite committee_count_impl_eq by exact H. reflexivity. Qed.

  Variable idx : list N.          (* the active validator indices of the epoch *)
  Variable seed : bytes.          (* the attester seed of the epoch *)
  Let n := N.of_nat (length idx).
  Let per_slot := committee_count_impl E n.
  Hypothesis Hok : shuffling_params_ok n.

  Lemma per_slot_bounds : 1 <= per_slot /\ per_slot <= MAX_COMMITTEES_PER_SLOT c.
  Proof. destruct Hok. unfold per_slot. rewrite committee_count_impl_eq by assumption. lia. Qed.

  (* the specification's committee (slot s of the epoch, committee index ci), written out *)
  Definition spec_committee (s ci : N) : list N :=
    let count := per_slot * SLOTS_PER_EPOCH c in
    let k := s * per_slot + ci in
    map (fun i => nth (N.to_nat (sigma E idx seed i)) idx 0)
        (seqN (slice_start n count k) (N.to_nat (slice_start n count (k + 1) - slice_start n count k))).

  Lemma spec_committee_is_compute_committee s ci : s < SLOTS_PER_EPOCH c -> ci < per_slot ->
    compute_committee E idx seed (s * per_slot + ci) (per_slot * SLOTS_PER_EPOCH c) = Some (spec_committee s ci).
  Proof.
    intros Hs Hci. destruct per_slot_bounds as [Hp1 Hp2]. destruct Hok.
    apply compute_committee_eq; [apply sigma_range_c06|nia|nia].
  Qed.

  (* UnshuffleList of the active indices: position i holds idx[sigma i] *)
  Lemma unshuffle_is_sigma :
    exists shuffling,
      ShuffleModel.unshuffle_list (Hash E) seed (ShuffleModel.wrap8 (SHUFFLE_ROUND_COUNT c)) idx = Ok shuffling /\
      length shuffling = length idx /\
      forall i, i < n -> nth (N.to_nat i) shuffling 0 = nth (N.to_nat (sigma E idx seed i)) idx 0.
  Proof.
    destruct Hok.
    assert (Hw : ShuffleModel.wrap8 (SHUFFLE_ROUND_COUNT c) = SHUFFLE_ROUND_COUNT c)
      by (unfold ShuffleModel.wrap8; apply N.mod_small; lia).
    rewrite Hw.
    assert (Hmax : n < ShuffleIndexProofs.max_size)
      by (unfold ShuffleIndexProofs.spec_limit, ShuffleIndexProofs.max_size in *; lia).
    destruct (ShuffleProofs.unshuffle_list_perm (Hash E) seed (SHUFFLE_ROUND_COUNT c) idx po_rounds0 Hmax)
      as (l' & El & Ll & Gl).
    exists l'. split; [exact El|]. split; [exact Ll|]. intros i Hi.
    specialize (Gl i Hi). unfold ShuffleListProofs.get in Gl.
    unfold sigma. fold c. fold n.
    rewrite (shuffle_rounds_is_perm E seed po_bytes0) by (try assumption; lia).
    pose proof (ShuffleIndexProofs.perm_lt (Hash E) seed n (SHUFFLE_ROUND_COUNT c) i ltac:(lia) Hi) as Hp.
    fold n in Gl.
    rewrite (nth_error_nth' idx 0) in Gl by (subst n; lia).
    apply nth_error_nth. exact Gl.
  Qed.

  (* the slicing of NewShufflingEpoch on that list *)
  Lemma impl_committee_spec shuffling s ci :
    length shuffling = length idx ->
    (forall i, i < n -> nth (N.to_nat i) shuffling 0 = nth (N.to_nat (sigma E idx seed i)) idx 0) ->
    s < SLOTS_PER_EPOCH c -> ci < per_slot ->
    impl_committee E shuffling per_slot s ci = Ok (spec_committee s ci).
  Proof.
    intros Hlen Hnth Hs Hci. destruct per_slot_bounds as [Hp1 Hp2]. destruct Hok.
    unfold impl_committee. fold c. rewrite Hlen. fold n.
    set (count := per_slot * SLOTS_PER_EPOCH c). set (k := s * per_slot + ci).
    assert (Hcount : 0 < count) by (subst count; nia).
    assert (Hcm : count <= MAX_COMMITTEES_PER_SLOT c * SLOTS_PER_EPOCH c) by (subst count; nia).
    assert (Hk : k + 1 <= count) by (subst k count; nia).
    assert (Hn1 : n * (k + 1) < two64) by nia.
    assert (Hn0 : n * k < two64) by nia.
    assert (Hc64 : count < two64) by nia.
    assert (E1 : mul64 per_slot (SLOTS_PER_EPOCH c) = count) by (unfold mul64; apply wrap64_small; exact Hc64).
    assert (E2 : add64 (mul64 s per_slot) ci = k).
    { unfold add64, mul64. rewrite (wrap64_small (s * per_slot)) by nia. apply wrap64_small. subst k. nia. }
    assert (E3 : add64 k 1 = k + 1) by (unfold add64; apply wrap64_small; nia).
    rewrite E1, E2, E3.
    replace (count =? 0) with false by (symmetry; apply N.eqb_neq; lia).
    unfold mul64. rewrite !wrap64_small by assumption.
    fold (slice_start n count k). fold (slice_start n count (k + 1)).
    pose proof (slice_mono n count k Hcount) as Hm.
    assert (Hle : slice_start n count (k + 1) <= n).
    { rewrite <- (slice_end n count Hcount) at 2. unfold slice_start. apply N.div_le_mono; [lia|nia]. }
    rewrite (slice_spec shuffling 0) by (try assumption; rewrite Hlen; exact Hle).
    f_equal. unfold spec_committee. fold count. fold k.
    apply map_ext_in. intros i Hi. apply in_seqN in Hi. apply Hnth. lia.
  Qed.

  (* ===== committee_refines: one committee ===== *)
  Theorem committee_refines s ci : s < SLOTS_PER_EPOCH c -> ci < per_slot ->
    exists shuffling comm,
      ShuffleModel.unshuffle_list (Hash E) seed (ShuffleModel.wrap8 (SHUFFLE_ROUND_COUNT c)) idx = Ok shuffling /\
      impl_committee E shuffling per_slot s ci = Ok comm /\
      compute_committee E idx seed (s * per_slot + ci) (per_slot * SLOTS_PER_EPOCH c) = Some comm.
  Proof.
    intros Hs Hci. destruct unshuffle_is_sigma as (sh & Esh & Lsh & Gsh).
    exists sh, (spec_committee s ci). split; [exact Esh|]. split.
    - apply impl_committee_spec; assumption.
    - apply spec_committee_is_compute_committee; assumption.
  Qed.
End CommitteeRefine.

Section EpochRefine.
  Variable E : Env.
  Let c := cfg E.

  (* ===== the whole ShufflingEpoch value ===== *)
  Theorem new_shuffling_epoch_refines bounded seed epoch :
    let idx := active_indices_impl bounded epoch in
    let n := N.of_nat (length idx) in
    let per_slot := committee_count_impl E n in
    shuffling_params_ok E n ->
    exists she, new_shuffling_epoch E bounded seed epoch = Ok she /\
      se_epoch she = epoch /\ se_active she = idx /\ Permutation (se_shuffling she) idx /\
      se_committees she = map (fun s => map (fun ci => spec_committee E idx seed s ci) (seqN 0 (N.to_nat per_slot)))
                              (seqN 0 (N.to_nat (SLOTS_PER_EPOCH c))) /\
      forall s ci, s < SLOTS_PER_EPOCH c -> ci < per_slot ->
        exists comm, committee_at she s ci = Some comm /\
                     compute_committee E idx seed (s * per_slot + ci) (per_slot * SLOTS_PER_EPOCH c) = Some comm.
  Proof.
    intros idx n per_slot Hok. unfold new_shuffling_epoch. fold c. fold idx.
    destruct (unshuffle_is_sigma E idx seed Hok) as (sh & Esh & Lsh & Gsh). fold c in Esh.
    rewrite Esh. cbn [bind]. rewrite Lsh. fold n. fold per_slot.
    rewrite (ok_all_map _ (fun s => map (fun ci => spec_committee E idx seed s ci) (seqN 0 (N.to_nat per_slot)))).
    2:{ intros s Hs. apply in_seqN in Hs. apply ok_all_map. intros ci Hci. apply in_seqN in Hci.
        apply impl_committee_spec; try assumption; unfold c, per_slot, n in *; lia. }
    cbn [bind]. eexists. split; [reflexivity|]. cbn [se_epoch se_active se_shuffling se_committees].
    split; [reflexivity|]. split; [reflexivity|]. split.
    { destruct Hok.
      assert (Hw : ShuffleModel.wrap8 (SHUFFLE_ROUND_COUNT c) = SHUFFLE_ROUND_COUNT c)
        by (unfold ShuffleModel.wrap8; apply N.mod_small; fold c in po_rounds0; lia).
      rewrite Hw in Esh.
      destruct (ShuffleProofs.unshuffle_list_Permutation (Hash E) seed (SHUFFLE_ROUND_COUNT c) idx) as (l' & El & Pl).
      - exact po_rounds0.
      - fold n. unfold ShuffleIndexProofs.spec_limit, ShuffleIndexProofs.max_size in *. lia.
      - rewrite Esh in El. injection El as <-. exact Pl. }
    split; [reflexivity|].
    intros s ci Hs Hci. exists (spec_committee E idx seed s ci). split.
    - unfold committee_at. cbn [se_committees].
      rewrite (nthN_map_seqN _ _ s) by lia. apply (nthN_map_seqN (fun ci => spec_committee E idx seed s ci)). lia.
    - apply spec_committee_is_compute_committee; assumption.
  Qed.

  (* ===== against the state: get_beacon_committee ===== *)
  Theorem beacon_committee_refines st slot ci :
    let epoch := compute_epoch_at_slot E slot in
    let idx := get_active_validator_indices st epoch in
    let seed := get_seed E st epoch DOMAIN_BEACON_ATTESTER in
    shuffling_params_ok E (N.of_nat (length idx)) ->
    ci < get_committee_count_per_slot E st epoch ->
    exists she comm,
      new_shuffling_epoch E (load_bounded_indices (validators st)) seed epoch = Ok she /\
      se_active she = idx /\
      committee_at she (slot mod SLOTS_PER_EPOCH c) ci = Some comm /\
      get_beacon_committee E st slot ci = Some comm.
  Proof.
    intros epoch idx seed Hok Hci.
    pose proof (new_shuffling_epoch_refines (load_bounded_indices (validators st)) seed epoch) as R.
    cbv zeta in R. rewrite active_indices_refines in R. fold idx in R.
    destruct (R Hok) as (she & Eshe & _ & Eact & _ & _ & Hc).
    rewrite <- committee_count_refines in Hci by (destruct Hok; assumption). fold idx in Hci.
    assert (Hs : slot mod SLOTS_PER_EPOCH c < SLOTS_PER_EPOCH c) by (apply N.mod_lt; destruct Hok; fold c in po_spe0; lia).
    destruct (Hc (slot mod SLOTS_PER_EPOCH c) ci Hs Hci) as (comm & Ecomm & Espec).
    exists she, comm. split; [exact Eshe|]. split; [exact Eact|]. split; [exact Ecomm|].
    unfold get_beacon_committee. fold c. fold epoch. fold idx. fold seed.
    rewrite <- committee_count_refines by (destruct Hok; assumption). fold idx. exact Espec.
  Qed.
End EpochRefine.
