(* C07: stable names of the committee / proposer refinement theorems (for Properties/C07.v).
   Impl = Beacon/Impl/Shuffling.v (model of shuffling.go, proposers.go; the list shuffle is the C06 model),
   Spec = Beacon/Spec/Helpers.v, spec-side views = Beacon/Run.v (committees_of_epoch, proposer_at). *)
From Coq Require Import NArith ZArith List Lia Bool Permutation.
From Coq Require Import ZifyN ZifyNat ZifyBool.
From V Require Import Base.U64 Base.Outcome Ssz.SszCore Beacon.Config Beacon.State Beacon.Spec.Helpers Beacon.Run
  Beacon.Proofs.CommitteeSlices Beacon.Proofs.CommitteePartition Beacon.Proofs.ShuffleBridge
  Beacon.Impl.Shuffling Beacon.Refine.ShufflingRefine Beacon.Refine.ProposersRefine.
From V Require Shuffle.ShuffleModel Shuffle.ShuffleArith Shuffle.ShuffleIndexProofs.
Import ListNotations.
Local Open Scope N_scope.
Ltac Zify.zify_post_hook ::= Z.div_mod_to_equations.

(* ---- active set and committee count ---- *)
Theorem C07T_active_indices_refine : forall st epoch,
  active_indices_impl (load_bounded_indices (validators st)) epoch = get_active_validator_indices st epoch.
Proof. exact active_indices_refines. Qed.

Theorem C07T_committee_count_refines : forall E st epoch, 0 < MAX_COMMITTEES_PER_SLOT (cfg E) ->
  committee_count_impl E (N.of_nat (length (get_active_validator_indices st epoch))) =
  get_committee_count_per_slot E st epoch.
Proof. exact committee_count_refines. Qed.

(* ---- one committee, for any active list and seed ---- *)
Theorem C07T_committee_refines : forall E idx seed,
  let n := N.of_nat (length idx) in
  let per_slot := committee_count_impl E n in
  shuffling_params_ok E n ->
  forall s ci, s < SLOTS_PER_EPOCH (cfg E) -> ci < per_slot ->
  exists shuffling comm,
    ShuffleModel.unshuffle_list (Hash E) seed (ShuffleModel.wrap8 (SHUFFLE_ROUND_COUNT (cfg E))) idx = Ok shuffling /\
    impl_committee E shuffling per_slot s ci = Ok comm /\
    compute_committee E idx seed (s * per_slot + ci) (per_slot * SLOTS_PER_EPOCH (cfg E)) = Some comm.
Proof. exact committee_refines. Qed.

(* ---- the whole ShufflingEpoch value of NewShufflingEpoch ---- *)
Theorem C07T_new_shuffling_epoch_refines : forall E bounded seed epoch,
  let idx := active_indices_impl bounded epoch in
  let n := N.of_nat (length idx) in
  let per_slot := committee_count_impl E n in
  shuffling_params_ok E n ->
  exists she, new_shuffling_epoch E bounded seed epoch = Ok she /\
    se_epoch she = epoch /\ se_active she = idx /\ Permutation (se_shuffling she) idx /\
    se_committees she = map (fun s => map (fun ci => spec_committee E idx seed s ci) (seqN 0 (N.to_nat per_slot)))
                            (seqN 0 (N.to_nat (SLOTS_PER_EPOCH (cfg E)))) /\
    forall s ci, s < SLOTS_PER_EPOCH (cfg E) -> ci < per_slot ->
      exists comm, committee_at she s ci = Some comm /\
                   compute_committee E idx seed (s * per_slot + ci) (per_slot * SLOTS_PER_EPOCH (cfg E)) = Some comm.
Proof. exact new_shuffling_epoch_refines. Qed.

(* ---- against the state: get_beacon_committee, any slot (previous, current, next epoch alike) ---- *)
Theorem C07T_beacon_committee_refines : forall E st slot ci,
  let epoch := compute_epoch_at_slot E slot in
  let idx := get_active_validator_indices st epoch in
  let seed := get_seed E st epoch DOMAIN_BEACON_ATTESTER in
  shuffling_params_ok E (N.of_nat (length idx)) ->
  ci < get_committee_count_per_slot E st epoch ->
  exists she comm,
    new_shuffling_epoch E (load_bounded_indices (validators st)) seed epoch = Ok she /\
    se_active she = idx /\
    committee_at she (slot mod SLOTS_PER_EPOCH (cfg E)) ci = Some comm /\
    get_beacon_committee E st slot ci = Some comm.
Proof. exact beacon_committee_refines. Qed.

(* ---- the full committee table of an epoch = the spec-side view of Run.v ---- *)
Theorem C07T_committees_of_epoch_refine : forall E st epoch,
  let idx := get_active_validator_indices st epoch in
  let seed := get_seed E st epoch DOMAIN_BEACON_ATTESTER in
  shuffling_params_ok E (N.of_nat (length idx)) ->
  exists she,
    new_shuffling_epoch E (load_bounded_indices (validators st)) seed epoch = Ok she /\
    se_active she = idx /\
    se_committees she = committees_of_epoch E st epoch.
Proof.
  intros E st epoch idx seed Hok.
  pose proof (new_shuffling_epoch_refines E (load_bounded_indices (validators st)) seed epoch) as R.
  cbv zeta in R. rewrite active_indices_refines in R. fold idx in R.
  destruct (R Hok) as (she & Eshe & _ & Eact & _ & Ecomm & _).
  exists she. split; [exact Eshe|]. split; [exact Eact|]. rewrite Ecomm.
  unfold committees_of_epoch.
  pose proof (committee_count_refines E st epoch (po_mcps _ _ Hok)) as Ecc. fold idx in Ecc.
  rewrite <- Ecc.
  set (per_slot := committee_count_impl E (N.of_nat (length idx))).
  pose proof (po_spe _ _ Hok) as Hspe.
  apply map_ext_in. intros s Hs. apply in_seqN in Hs.
  apply map_ext_in. intros ci Hci. apply in_seqN in Hci.
  unfold get_beacon_committee, compute_start_slot_at_epoch, compute_epoch_at_slot.
  set (SPE := SLOTS_PER_EPOCH (cfg E)) in *.
  assert (Hs' : s < SPE) by lia.
  rewrite (N.div_add_l epoch SPE s) by lia. rewrite (N.div_small s SPE) by exact Hs'. rewrite N.add_0_r.
  rewrite (N.add_comm (epoch * SPE) s), (N.mod_add s epoch SPE) by lia. rewrite (N.mod_small s SPE) by exact Hs'.
  fold idx. fold seed. rewrite <- Ecc. subst SPE. unfold per_slot in *.
  rewrite (spec_committee_is_compute_committee E idx seed Hok s ci) by lia. reflexivity.
Qed.

(* ---- proposers ---- *)
Theorem C07T_compute_proposer_index_refines : forall E st idx seed,
  proposer_params_ok E st idx -> 0 < N.of_nat (length idx) ->
  match proposer_loop E CAP st idx seed 0 with
  | Some p => compute_proposer_index_impl E (validators st) idx seed = Ok p /\ compute_proposer_index E st idx seed = Some p
  | None => compute_proposer_index_impl E (validators st) idx seed = Err
  end.
Proof. exact compute_proposer_index_refines. Qed.

Theorem C07T_compute_proposers_refines : forall E st idx epoch_seed start,
  proposer_params_ok E st idx -> 0 < N.of_nat (length idx) ->
  start + SLOTS_PER_EPOCH (cfg E) <= two64 ->
  (forall i, i < SLOTS_PER_EPOCH (cfg E) ->
     exists p, proposer_loop E CAP st idx (Hash E (epoch_seed ++ uint_to_bytes 8 (start + i))) 0 = Some p) ->
  exists ps, compute_proposers_impl E (validators st) idx epoch_seed start = Ok ps /\
    map Some ps = map (fun i => compute_proposer_index E st idx (Hash E (epoch_seed ++ uint_to_bytes 8 (start + i))))
                      (seqN 0 (N.to_nat (SLOTS_PER_EPOCH (cfg E)))).
Proof. exact compute_proposers_refines. Qed.

(* the proposers of the current epoch = Run.v's proposer_at, slot by slot *)
Theorem C07T_proposers_refine : forall E st,
  let ce := get_current_epoch E st in
  let idx := get_active_validator_indices st ce in
  let start := compute_start_slot_at_epoch E ce in
  SHUFFLE_ROUND_COUNT (cfg E) <= 255 -> (forall m, ShuffleArith.bytes_ok (Hash E m)) ->
  0 < N.of_nat (length idx) -> N.of_nat (length idx) <= ShuffleIndexProofs.spec_limit ->
  MAX_EFFECTIVE_BALANCE (cfg E) * 255 < two64 ->
  Forall (fun v => v_effective_balance v * 255 < two64) (validators st) ->
  start + SLOTS_PER_EPOCH (cfg E) <= two64 ->
  (forall i, i < SLOTS_PER_EPOCH (cfg E) ->
     exists p, proposer_loop E CAP st idx
                 (Hash E (get_seed E st ce DOMAIN_BEACON_PROPOSER ++ uint_to_bytes 8 (start + i))) 0 = Some p) ->
  exists ps, compute_proposers_impl E (validators st) idx (get_seed E st ce DOMAIN_BEACON_PROPOSER) start = Ok ps /\
    map Some ps = map (fun s => proposer_at E st (start + s)) (seqN 0 (N.to_nat (SLOTS_PER_EPOCH (cfg E)))).
Proof.
  intros E st ce idx start HR Hb Hn Hlim Hmax Heb Hstart Hcap.
  apply (compute_proposers_refines E st idx (get_seed E st ce DOMAIN_BEACON_PROPOSER) start); try assumption.
  constructor; try assumption. apply active_indices_in_registry.
Qed.

(* ---- a small concrete instance for the non-vacuity Example of Properties/C07.v ----
   tiny_cfg (SLOTS_PER_EPOCH 8, TARGET_COMMITTEE_SIZE 4, MAX_COMMITTEES_PER_SLOT 4, 10 rounds), real SHA-256 (its output
   passed through `mod 256`, which makes "returns bytes" provable and changes nothing on real digests),
   72 validators of which every ninth has exited: 64 active, 2 committees per slot, 16 committees of 4. *)
From V Require Base.Sha256 Beacon.Refine.Fixtures.
Definition c07_hash (m : bytes) : bytes := map (fun b => b mod 256) (Sha256.sha256 m).
Definition c07_env : Env :=
  mkEnv Fixtures.tiny_cfg c07_hash (fun _ => repeat 0 32) (fun _ _ _ => true) (fun _ _ _ => true) (fun _ => repeat 0 48)
        (fun _ _ _ => true).
Definition c07_validators : list Validator :=
  map (fun i => Fixtures.mkv 32000000000 false 0 0 (if Nat.eqb (Nat.modulo i 9) 4 then 3 else FAR_FUTURE_EPOCH) FAR_FUTURE_EPOCH)
      (seq 0 72).
Definition c07_seed : bytes := repeat 9 32.
Definition c07_epoch : N := 5.
Definition c07_active : list N := active_indices_impl (load_bounded_indices c07_validators) c07_epoch.

Lemma c07_hash_bytes : forall m, ShuffleArith.bytes_ok (c07_hash m).
Proof.
  intros m. unfold ShuffleArith.bytes_ok, c07_hash. apply Forall_forall. intros b Hb.
  apply in_map_iff in Hb. destruct Hb as (x & <- & _). apply N.mod_lt. discriminate.
Qed.
Lemma c07_params_ok : shuffling_params_ok c07_env (N.of_nat (length c07_active)).
Proof.
  constructor; try exact c07_hash_bytes; vm_compute; try reflexivity; discriminate.
Qed.

Definition list_N_eqb (a b : list N) : bool :=
  Nat.eqb (length a) (length b) && forallb (fun p => fst p =? snd p) (combine a b).
(* Impl table = table of the spec's compute_committee, committee by committee; the shuffle is not the identity *)
Definition c07_example_check : bool :=
  match new_shuffling_epoch c07_env (load_bounded_indices c07_validators) c07_seed c07_epoch with
  | Ok she =>
      let per_slot := committee_count_impl c07_env (N.of_nat (length c07_active)) in
      (per_slot =? 2) && Nat.eqb (length (se_active she)) 64 && Nat.eqb (length (se_committees she)) 8 &&
      negb (list_N_eqb (se_shuffling she) (se_active she)) &&
      forallb (fun s => forallb (fun ci =>
                 match committee_at she s ci, compute_committee c07_env c07_active c07_seed (s * per_slot + ci) (per_slot * 8) with
                 | Some a, Some b => list_N_eqb a b && Nat.eqb (length a) 4
                 | _, _ => false end) (seqN 0 2)) (seqN 0 8)
  | _ => false
  end.

(* ---- sync committee sampling ---- *)
From V Require Import Beacon.Spec.Epoch Beacon.Refine.SyncCommitteeRefine.
Theorem C07T_sync_committee_indices_refines : forall E st idx seed,
  proposer_params_ok E st idx -> 0 < N.of_nat (length idx) ->
  forall fuel l, N.of_nat fuel < two64 ->
  sync_loop E fuel st idx seed 0 (N.to_nat (SYNC_COMMITTEE_SIZE (cfg E))) = Some l ->
  compute_sync_committee_indices_impl E fuel (validators st) idx seed = Ok l.
Proof. exact sync_committee_indices_refines_partial. Qed.

Theorem C07T_next_sync_committee_indices_refines : forall E st l,
  let epoch := get_current_epoch E st + 1 in
  let active := get_active_validator_indices st epoch in
  SHUFFLE_ROUND_COUNT (cfg E) <= 255 -> (forall m, ShuffleArith.bytes_ok (Hash E m)) ->
  N.of_nat (length active) <= ShuffleIndexProofs.spec_limit ->
  MAX_EFFECTIVE_BALANCE (cfg E) * 255 < two64 ->
  Forall (fun v => v_effective_balance v * 255 < two64) (validators st) ->
  get_next_sync_committee_indices E st = Some l ->
  compute_sync_committee_indices_impl E PROPOSER_FUEL (validators st) active
    (get_seed E st epoch DOMAIN_SYNC_COMMITTEE) = Ok l.
Proof. exact next_sync_committee_indices_refines_partial. Qed.
