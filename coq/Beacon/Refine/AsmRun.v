(* C02ASM correspondence: evaluate the new Impl models (Impl/SyncRotation.v, Impl/Upgrades.v) and the Spec on the cases
   the Go harness (harness/cmd/c02asm) ran through the real zrnt functions.
     SyncCase : common.ComputeSyncCommitteeIndices(spec, state, baseEpoch, active)   vs compute_sync_committee_indices
     FlagCase : altair.GetApplicableAttestationParticipationFlags(spec, state, data, inclusionDelay)  vs applicable_flags_go
     impl_ok : Go's observed result = the Impl model's (incl. errors, panics and "does not return")
     spec_ok : Go's observed result = the Spec function's, inside the documented domain (true otherwise). *)
From Coq Require Import String.
From Coq Require Import NArith List Bool.
From RecordUpdate Require Import RecordSet.
From V Require Import Base.U64 Base.Outcome Base.Sha256 Ssz.SszCore Beacon.Config Beacon.Schemas Beacon.State.
From V Require Import Beacon.Spec.Helpers Beacon.Spec.Epoch Beacon.Spec.Block Beacon.Run.
From V Require Import Beacon.Impl.SyncRotation Beacon.Impl.Upgrades Beacon.Refine.Fixtures.
Import ListNotations RecordSetNotations.
Local Open Scope N_scope.

Local Open Scope string_scope.
Definition run_num (size rounds la : N) (k : string) : N :=
  let is s := String.eqb k s in
  if is "SYNC_COMMITTEE_SIZE" then size else if is "SHUFFLE_ROUND_COUNT" then rounds else
  if is "MIN_SEED_LOOKAHEAD" then la else if is "SLOTS_PER_EPOCH" then 4 else
  if is "SLOTS_PER_HISTORICAL_ROOT" then 16 else if is "EPOCHS_PER_HISTORICAL_VECTOR" then 16 else
  if is "EPOCHS_PER_SLASHINGS_VECTOR" then 8 else tiny_num k.
Local Close Scope string_scope.

Definition run_env (size rounds la : N) : Env :=
  mkEnv (config_of (run_num size rounds la) (fun _ => [0; 0; 0; 1])) sha256 zh_lookup
        (fun _ _ _ => true) (fun _ _ _ => true) (fun _ => repeat 0 48) (fun _ _ _ => true).

(* the harness fills roots and mixes with one-byte patterns *)
Definition patt (b : N) : bytes := repeat (b mod 256) 32.
Definition run_state (sl : N) (effs : list N) (mseed rseed : N) (pj cj : N * N) : BeaconState :=
  base_state <| slot := sl |>
             <| validators := map (fun e => mkv e false 0 0 FAR_FUTURE_EPOCH FAR_FUTURE_EPOCH) effs |>
             <| balances := effs |>
             <| block_roots := map (fun i => patt (rseed + i)) (seqN 0 16) |>
             <| state_roots := map (fun i => patt (rseed + 100 + i)) (seqN 0 16) |>
             <| randao_mixes := map (fun i => patt (mseed + 7 * i)) (seqN 0 16) |>
             <| slashings := repeat 0 8 |>
             <| previous_justified_checkpoint := mkCheckpoint (fst pj) (patt (snd pj)) |>
             <| current_justified_checkpoint := mkCheckpoint (fst cj) (patt (snd cj)) |>.

Inductive acase :=
| SyncCase (size rounds la sl : N) (effs : list N) (mseed base : N) (active : list N) (fuel : N) (res : gores (list N))
| FlagCase (sl rseed : N) (pj cj : N * N) (d_slot d_index d_bbr : N) (src tgt : N * N) (delay : N) (res : gores N).

Definition listN_eqb (a b : list N) : bool := list_eqb N.eqb a b.
Definition att_data (d_slot d_index d_bbr : N) (src tgt : N * N) : value :=
  VCont [VUint d_slot; VUint d_index; VBytes (patt d_bbr);
         VCont [VUint (fst src); VBytes (patt (snd src))]; VCont [VUint (fst tgt); VBytes (patt (snd tgt))]].

Definition impl_ok (x : acase) : bool :=
  match x with
  | SyncCase size rounds la sl effs mseed base active fuel res =>
      let E := run_env size rounds la in
      agree listN_eqb (compute_sync_committee_indices E (N.to_nat fuel) (run_state sl effs mseed 0 (0, 0) (0, 0)) base active) res
  | FlagCase sl rseed pj cj ds di db src tgt delay res =>
      let E := run_env 8 2 1 in
      agree N.eqb (applicable_flags_go E (run_state sl [] 0 rseed pj cj) (att_data ds di db src tgt) delay) res
  end.

Definition spec_ok (x : acase) : bool :=
  match x with
  | SyncCase size rounds la sl effs mseed base active fuel res =>
      let E := run_env size rounds la in
      let st := run_state sl effs mseed 0 (0, 0) (0, 0) in
      (* domain: the call ComputeNextSyncCommittee makes (next epoch and its active set), a committee to fill, and some
         validator that can be accepted (otherwise the pyspec loops for ever and so does zrnt) *)
      if (base =? get_current_epoch E st + 1) && listN_eqb active (get_active_validator_indices st base)
         && negb (size =? 0) && existsb (fun e => negb (e =? 0)) effs
      then match get_next_sync_committee_indices E st, res with
           | Some r, GoOk g => listN_eqb r g
           | None, GoOk _ => false
           | Some _, _ => false
           | None, _ => true
           end
      else true
  | FlagCase sl rseed pj cj ds di db src tgt delay res =>
      let E := run_env 8 2 1 in
      let st := run_state sl [] 0 rseed pj cj in
      match get_attestation_participation_flag_indices E Altair st (att_data ds di db src tgt) delay, res with
      | Some flags, GoOk w => w =? fold_left add_flag flags 0
      | Some _, _ => false
      | None, _ => true         (* the Spec rejects (source mismatch, or a root outside its range: zrnt reads modulo) *)
      end
  end.

Fixpoint mism (i : N) (cs : list acase) : list (N * N) :=
  match cs with
  | [] => []
  | x :: cs' =>
      let r := (if impl_ok x then 0 else 1) + (if spec_ok x then 0 else 2) in
      if r =? 0 then mism (i + 1) cs' else (i, r) :: mism (i + 1) cs'
  end.
Definition mismatches (cs : list acase) : list (N * N) := mism 0 cs.
