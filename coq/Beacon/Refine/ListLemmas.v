(* List facts shared by the refinement proofs: updN/nthN, seqN/indices/combine, maxl, counting, takeWhile. *)
From Coq Require Import NArith ZArith Lia List Bool.
From Coq Require Import ZifyN ZifyNat ZifyBool.
From V Require Import Base.U64 Beacon.Config Beacon.State Beacon.Spec.Helpers Beacon.Impl.Flat.
Import ListNotations.
Local Open Scope N_scope.
Ltac Zify.zify_post_hook ::= Z.div_mod_to_equations.

(* ---------- maxl ---------- *)
Lemma maxl_cons x l d : maxl (x :: l) d = maxl l (N.max x d).
Proof. reflexivity. Qed.
Lemma maxl_max l : forall x d, maxl l (N.max x d) = N.max x (maxl l d).
Proof.
  induction l as [|y l IH]; intros x d; cbn [maxl]; [reflexivity|].
  rewrite <- IH. f_equal. lia.
Qed.
Lemma maxl_app a b d : maxl (a ++ b) d = maxl b (maxl a d).
Proof. revert d. induction a as [|x a IH]; intros d; cbn [maxl app]; [reflexivity|apply IH]. Qed.
Lemma maxl_ge_d l : forall d, d <= maxl l d.
Proof. induction l as [|y l IH]; intros d; cbn [maxl]; [lia|]. specialize (IH (N.max y d)). lia. Qed.
Lemma maxl_ge_in l : forall d x, In x l -> x <= maxl l d.
Proof.
  induction l as [|y l IH]; intros d x Hin; [destruct Hin|].
  cbn [maxl]. destruct Hin as [->|Hin].
  - pose proof (maxl_ge_d l (N.max x d)). lia.
  - apply IH. exact Hin.
Qed.
Lemma maxl_in l : forall d, maxl l d = d \/ In (maxl l d) l.
Proof.
  induction l as [|y l IH]; intros d; cbn [maxl]; [left; reflexivity|].
  destruct (IH (N.max y d)) as [H|H].
  - rewrite H. destruct (N.max_spec y d) as [[_ ->]|[_ ->]]; [left; reflexivity|right; left; reflexivity].
  - right. right. exact H.
Qed.
Lemma maxl_mid a x b d : maxl (a ++ x :: b) d = N.max x (maxl (a ++ b) d).
Proof. rewrite !maxl_app. cbn [maxl]. rewrite maxl_max. reflexivity. Qed.

(* ---------- counting ---------- *)
Definition countN {A} (p : A -> bool) (l : list A) : N := N.of_nat (length (filter p l)).
Lemma countN_nil {A} (p : A -> bool) : countN p [] = 0.
Proof. reflexivity. Qed.
Lemma countN_cons {A} (p : A -> bool) x l : countN p (x :: l) = (if p x then 1 else 0) + countN p l.
Proof. unfold countN. cbn [filter]. destruct (p x); cbn [length]; lia. Qed.
Lemma countN_app {A} (p : A -> bool) a b : countN p (a ++ b) = countN p a + countN p b.
Proof. unfold countN. rewrite filter_app, app_length. lia. Qed.
Lemma countN_le_length {A} (p : A -> bool) l : countN p l <= N.of_nat (length l).
Proof.
  unfold countN. induction l as [|x l IH]; cbn [filter length]; [lia|].
  destruct (p x); cbn [length]; lia.
Qed.
Lemma countN_ext {A} (p q : A -> bool) l : (forall x, In x l -> p x = q x) -> countN p l = countN q l.
Proof.
  induction l as [|x l IH]; intros H; [reflexivity|].
  rewrite !countN_cons, H by (left; reflexivity). rewrite IH; [reflexivity|]. intros y Hy. apply H. right. exact Hy.
Qed.
Lemma countN_zero {A} (p : A -> bool) l : (forall x, In x l -> p x = false) -> countN p l = 0.
Proof.
  induction l as [|x l IH]; intros H; [reflexivity|].
  rewrite countN_cons, H by (left; reflexivity). rewrite IH; [reflexivity|]. intros y Hy. apply H. right. exact Hy.
Qed.

(* ---------- updN / nthN ---------- *)
Lemma upd_nat_oob0 {A} (f : A -> A) : forall (l : list A) i, (length l <= i)%nat -> upd_nat l i f = l.
Proof.
  induction l as [|x l IH]; intros [|i] H; cbn [upd_nat length] in *; try reflexivity; try lia.
  f_equal. apply IH. lia.
Qed.
(* the guarded definitions of Spec/Helpers.v are the plain list functions *)
Lemma nthN_nth_error {A} (l : list A) i : nthN l i = nth_error l (N.to_nat i).
Proof.
  unfold nthN. destruct (N.ltb_spec i (N.of_nat (length l))); [reflexivity|]. symmetry. apply nth_error_None. lia.
Qed.
Lemma updN_upd_nat {A} (l : list A) i (f : A -> A) : updN l i f = upd_nat l (N.to_nat i) f.
Proof.
  unfold updN. destruct (N.ltb_spec i (N.of_nat (length l))); [reflexivity|]. symmetry. apply upd_nat_oob0. lia.
Qed.
Lemma upd_nat_length {A} (f : A -> A) : forall (l : list A) i, length (upd_nat l i f) = length l.
Proof. induction l as [|x l IH]; intros [|i]; cbn [upd_nat length]; auto. Qed.
Lemma updN_length {A} (l : list A) i (f : A -> A) : length (updN l i f) = length l.
Proof. rewrite updN_upd_nat. apply upd_nat_length. Qed.
Lemma upd_nat_app {A} (f : A -> A) : forall (pre : list A) x post,
  upd_nat (pre ++ x :: post) (length pre) f = pre ++ f x :: post.
Proof. induction pre as [|y pre IH]; intros x post; cbn [app length upd_nat]; [reflexivity|]. f_equal. apply IH. Qed.
Lemma updN_app {A} (f : A -> A) (pre : list A) x post :
  updN (pre ++ x :: post) (N.of_nat (length pre)) f = pre ++ f x :: post.
Proof. rewrite updN_upd_nat, Nnat.Nat2N.id. apply upd_nat_app. Qed.
Lemma nthN_app {A} (pre : list A) x post : nthN (pre ++ x :: post) (N.of_nat (length pre)) = Some x.
Proof.
  rewrite nthN_nth_error, Nnat.Nat2N.id. rewrite nth_error_app2 by lia. rewrite Nat.sub_diag. reflexivity.
Qed.
Lemma upd_nat_oob {A} (f : A -> A) : forall (l : list A) i, (length l <= i)%nat -> upd_nat l i f = l.
Proof.
  induction l as [|x l IH]; intros [|i] H; cbn [upd_nat length] in *; try reflexivity; try lia.
  f_equal. apply IH. lia.
Qed.
Lemma upd_nat_nth {A} (f : A -> A) : forall (l : list A) i j,
  nth_error (upd_nat l i f) j = if Nat.eqb i j then option_map f (nth_error l j) else nth_error l j.
Proof.
  induction l as [|x l IH]; intros i j.
  - destruct i, j; cbn [upd_nat nth_error option_map]; destruct (Nat.eqb _ _); reflexivity.
  - destruct i as [|i], j as [|j]; cbn [upd_nat nth_error Nat.eqb option_map]; try reflexivity. apply IH.
Qed.
Lemma upd_nat_map {A B} (g : A -> B) (f : A -> A) (h : B -> B) :
  (forall x, g (f x) = h (g x)) -> forall l i, map g (upd_nat l i f) = upd_nat (map g l) i h.
Proof.
  intros H. induction l as [|x l IH]; intros [|i]; cbn [upd_nat map]; try reflexivity.
  - rewrite H. reflexivity.
  - f_equal. apply IH.
Qed.
Lemma upd_nat_map_id {A B} (g : A -> B) (f : A -> A) :
  (forall x, g (f x) = g x) -> forall l i, map g (upd_nat l i f) = map g l.
Proof.
  intros H. induction l as [|x l IH]; intros [|i]; cbn [upd_nat map]; try reflexivity.
  - rewrite H. reflexivity.
  - f_equal. apply IH.
Qed.

(* ---------- seqN / indices / indexed ---------- *)
Lemma seqN_length s n : length (seqN s n) = n.
Proof. revert s. induction n as [|n IH]; intros s; cbn [seqN length]; auto. Qed.
Lemma combine_seqN_indexed {A} : forall (l : list A) s, combine (seqN s (length l)) l = indexed_from s l.
Proof. induction l as [|x l IH]; intros s; cbn [length seqN combine indexed_from]; [reflexivity|]. f_equal. apply IH. Qed.
Lemma combine_indices_indexed {A} (l : list A) : combine (indices l) l = indexed l.
Proof. apply combine_seqN_indexed. Qed.
Lemma indexed_from_app {A} : forall (a b : list A) s,
  indexed_from s (a ++ b) = indexed_from s a ++ indexed_from (s + N.of_nat (length a)) b.
Proof.
  induction a as [|x a IH]; intros b s; cbn [app indexed_from length].
  - f_equal. lia.
  - f_equal. rewrite IH. f_equal. f_equal. lia.
Qed.
Lemma indexed_from_map {A B} (g : A -> B) : forall (l : list A) s,
  indexed_from s (map g l) = map (fun p => (fst p, g (snd p))) (indexed_from s l).
Proof. induction l as [|x l IH]; intros s; cbn [map indexed_from]; [reflexivity|]. f_equal. apply IH. Qed.
Lemma indexed_from_fst_bounds {A} : forall (l : list A) s i x,
  In (i, x) (indexed_from s l) -> s <= i < s + N.of_nat (length l) /\ nth_error l (N.to_nat (i - s)) = Some x.
Proof.
  induction l as [|y l IH]; intros s i x Hin; [destruct Hin|].
  cbn [indexed_from] in Hin. destruct Hin as [Heq|Hin].
  - inversion Heq; subst. cbn [length]. split; [lia|]. rewrite N.sub_diag. reflexivity.
  - apply IH in Hin. destruct Hin as [Hb Hn]. cbn [length]. split; [lia|].
    replace (N.to_nat (i - s)) with (S (N.to_nat (i - (s + 1)))) by lia. exact Hn.
Qed.
Lemma seqN_S s n : seqN s (S n) = s :: seqN (s + 1) n.
Proof. reflexivity. Qed.

(* ---------- takeWhile ---------- *)
Fixpoint takeWhile {A} (p : A -> bool) (l : list A) : list A :=
  match l with [] => [] | x :: l' => if p x then x :: takeWhile p l' else [] end.
Lemma takeWhile_firstn {A} (p : A -> bool) : forall n (l : list A),
  takeWhile p (firstn n l) = firstn n (takeWhile p l).
Proof.
  induction n as [|n IH]; intros [|x l]; cbn [firstn takeWhile]; try reflexivity.
  destruct (p x); cbn [firstn]; [f_equal; apply IH|reflexivity].
Qed.

(* ---------- fold_left over option accumulators ---------- *)
Lemma fold_left_none {A B} (f : option A -> B -> option A) (l : list B) :
  (forall b, f None b = None) -> fold_left f l None = None.
Proof. intros H. induction l as [|x l IH]; cbn [fold_left]; [reflexivity|]. rewrite H. exact IH. Qed.

Lemma countN_map {A B} (g : A -> B) (p : B -> bool) l : countN p (map g l) = countN (fun x => p (g x)) l.
Proof.
  induction l as [|x l IH]; [reflexivity|]. cbn [map]. rewrite !countN_cons, IH. reflexivity.
Qed.
Lemma filter_snd_indexed_length {A} (p : A -> bool) : forall (l : list A) s,
  length (filter (fun iv => p (snd iv)) (indexed_from s l)) = length (filter p l).
Proof.
  induction l as [|x l IH]; intros s; cbn [indexed_from filter snd]; [reflexivity|].
  destruct (p x); cbn [length]; rewrite IH; reflexivity.
Qed.
