(* Facts about get_beacon_proposer_index needed by the block-operation refinements:
     proposer_in_range   the proposer is a registry index
     proposer_frame      the proposer depends only on the slot, the randao mixes and, per validator,
                         (active in the current epoch?, effective balance)
   so the value zrnt caches in its EpochsContext at the start of the epoch stays the spec's value while block
   operations change exit epochs (to future epochs), slashed flags, balances, participation and append validators
   that are not yet active. *)
From Coq Require Import String.
From Coq Require Import NArith ZArith Lia List Bool.
From Coq Require Import ZifyN ZifyNat ZifyBool.
From RecordUpdate Require Import RecordSet.
From V Require Import Ssz.SszCore Beacon.Config Beacon.Schemas Beacon.State Beacon.Spec.Helpers Beacon.Refine.BlockLemmas.
Import ListNotations RecordSetNotations.
Local Open Scope list_scope.
Local Open Scope N_scope.

Lemma in_combine_seqN {A} (l : list A) : forall s i v, In (i, v) (combine (seqN s (length l)) l) -> s <= i < s + N.of_nat (length l).
Proof.
  induction l as [|x l IH]; intros s i v H; cbn [length seqN combine] in H; [destruct H|].
  destruct H as [H|H].
  - injection H as <- <-. cbn [length]. lia.
  - apply IH in H. cbn [length]. lia.
Qed.
Lemma active_indices_lt st e i : In i (get_active_validator_indices st e) -> i < N.of_nat (length (validators st)).
Proof.
  unfold get_active_validator_indices, indices. intros H. apply in_map_iff in H. destruct H as ([j v] & <- & H).
  apply filter_In in H. destruct H as [H _]. apply in_combine_seqN in H. cbn [fst]. lia.
Qed.

Section Proposer.
  Variable E : Env.
  Let c := cfg E.

  Lemma proposer_loop_in fuel st idx seed : forall i p, proposer_loop E fuel st idx seed i = Some p -> In p idx.
  Proof.
    induction fuel as [|k IH]; intros i p H; cbn [proposer_loop] in H; [discriminate|].
    destruct (compute_shuffled_index E _ _ seed) as [j|]; [|discriminate].
    destruct (nthN idx j) as [cand|] eqn:Hc; [|discriminate].
    destruct (_ <=? _).
    - injection H as <-. rewrite nthN_eq in Hc. eapply nth_error_In. exact Hc.
    - eapply IH. exact H.
  Qed.
  Theorem proposer_in_range st p : get_beacon_proposer_index E st = Some p -> p < N.of_nat (length (validators st)).
  Proof.
    unfold get_beacon_proposer_index, compute_proposer_index. intros H.
    destruct (negb _); [|discriminate]. apply proposer_loop_in in H. eapply active_indices_lt. exact H.
  Qed.

  (* what the proposer selection reads of a validator *)
  Definition pview (e : N) (v : Validator) : bool * N := (is_active_validator v e, v_effective_balance v).

  Lemma active_filter_ext e (l1 l2 : list Validator) : forall s,
    map (pview e) l1 = map (pview e) l2 ->
    map fst (filter (fun iv => is_active_validator (snd iv) e) (combine (seqN s (length l1)) l1))
    = map fst (filter (fun iv => is_active_validator (snd iv) e) (combine (seqN s (length l2)) l2)).
  Proof.
    revert l2. induction l1 as [|v1 l1 IH]; intros [|v2 l2] s H; cbn [map] in H; try discriminate; [reflexivity|].
    unfold pview in H at 1 3. injection H as Ha He Hl.
    cbn [length seqN combine filter snd]. rewrite Ha. destruct (is_active_validator v2 e); cbn [map fst]; [f_equal|]; apply IH; exact Hl.
  Qed.
  Lemma active_indices_frame st1 st2 e :
    map (pview e) (validators st1) = map (pview e) (validators st2) ->
    get_active_validator_indices st1 e = get_active_validator_indices st2 e.
  Proof. intros H. unfold get_active_validator_indices, indices. apply active_filter_ext. exact H. Qed.
  Lemma eff_bal_frame st1 st2 e i :
    map (pview e) (validators st1) = map (pview e) (validators st2) -> eff_bal st1 i = eff_bal st2 i.
  Proof.
    intros H. unfold eff_bal; rewrite !nthN_eq.
    assert (Hn : nth_error (map (pview e) (validators st1)) (N.to_nat i) = nth_error (map (pview e) (validators st2)) (N.to_nat i))
      by (rewrite H; reflexivity).
    rewrite !nth_error_map in Hn.
    destruct (nth_error (validators st1) (N.to_nat i)), (nth_error (validators st2) (N.to_nat i)); cbn in Hn; try discriminate; [|reflexivity].
    injection Hn as _ Hn. exact Hn.
  Qed.
  Lemma proposer_loop_frame st1 st2 e idx seed fuel :
    map (pview e) (validators st1) = map (pview e) (validators st2) ->
    forall i, proposer_loop E fuel st1 idx seed i = proposer_loop E fuel st2 idx seed i.
  Proof.
    intros H. induction fuel as [|k IH]; intros i; cbn [proposer_loop]; [reflexivity|].
    destruct (compute_shuffled_index E _ _ seed) as [j|]; [|reflexivity].
    destruct (nthN idx j) as [cand|]; [|reflexivity].
    rewrite (eff_bal_frame st1 st2 e cand H). rewrite IH. reflexivity.
  Qed.

  Theorem proposer_frame st1 st2 :
    slot st1 = slot st2 -> randao_mixes st1 = randao_mixes st2 ->
    map (pview (get_current_epoch E st1)) (validators st1) = map (pview (get_current_epoch E st1)) (validators st2) ->
    get_beacon_proposer_index E st1 = get_beacon_proposer_index E st2.
  Proof.
    intros Hs Hr Hv. unfold get_beacon_proposer_index, get_seed, get_randao_mix, get_current_epoch in *.
    rewrite <- Hs, <- Hr. unfold compute_proposer_index.
    rewrite <- (active_indices_frame st1 st2 _ Hv).
    destruct (negb _); [|reflexivity]. eapply proposer_loop_frame. exact Hv.
  Qed.

  (* an update of one validator that preserves its (active?, effective balance) view *)
  Lemma pview_updN e vs i g :
    (forall v, nthN vs i = Some v -> pview e (g v) = pview e v) ->
    map (pview e) (updN vs i g) = map (pview e) vs.
  Proof.
    rewrite updN_eq. intros H. assert (H' : forall v, nth_error vs (N.to_nat i) = Some v -> pview e (g v) = pview e v)
      by (intros v Hv; apply H; rewrite nthN_eq; exact Hv).
    clear H. revert H'. generalize (N.to_nat i) as k. clear i.
    induction vs as [|v vs IH]; intros [|k] H; cbn [upd_nat map]; try reflexivity.
    - rewrite (H v eq_refl). reflexivity.
    - f_equal. apply IH. intros w Hw. apply H. exact Hw.
  Qed.
End Proposer.
