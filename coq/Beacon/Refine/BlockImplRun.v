(* C01 Impl correspondence: the cases printed by harness/cmd/c01impl (zrnt's exported block-operation functions run
   on small states) evaluated against the Impl models of Beacon/Impl/BlockOps.v (`impl_ok`) and, directly, against
   the Spec functions (`spec_ok`, vacuous outside the documented domain).  Both models are those of the REPAIRED code
   (/repo 74b46c6, 9bd2c6a); `orig_shapes` counts the inputs on which the pinned snapshot differed from the Spec.

   Every state has exactly one validator active in the current epoch, with full effective balance, so the spec's
   proposer is that validator whatever the hash; zrnt's EpochsContext is filled by the harness accordingly. *)
From Coq Require Import String.
From Coq Require Import NArith List Bool.
From RecordUpdate Require Import RecordSet.
From V Require Import Base.U64 Base.Outcome Base.Sha256 Ssz.SszCore Beacon.Config Beacon.Schemas Beacon.State
  Beacon.Spec.Helpers Beacon.Spec.Epoch Beacon.Spec.Block Beacon.Run Beacon.Impl.BlockOps Beacon.Impl.Block2Ops Beacon.Refine.BlockFixtures
  Beacon.Refine.BlockSyncRefine.
Import ListNotations RecordSetNotations.
Local Open Scope string_scope.
Local Open Scope list_scope.
Local Open Scope N_scope.

(* configuration: the fixture values with per-case overrides *)
Fixpoint lookup (k : string) (ov : list (string * N)) : option N :=
  match ov with [] => None | (k', v) :: r => if String.eqb k k' then Some v else lookup k r end.
Definition run_cfg (ov : list (string * N)) : Config :=
  config_of (fun k => match lookup k ov with Some v => v | None => blk_num k end) (fun _ => [0; 0; 0; 1]).
(* sigkind 0: the aggregate verifies; 1: it does not; 2: the signature is the point at infinity *)
Definition run_env (ov : list (string * N)) (sigkind : N) : Env :=
  mk_env (run_cfg ov) Base.Sha256.sha256 (fun _ _ _ => sigkind =? 0) (fun _ _ _ => sigkind =? 0) (fun _ => repeat 0 48) (fun _ _ _ => true).

(* validator of a case: (eth1 credential?, effective balance, slashed, activation, exit, withdrawable) *)
Definition cval := (bool * N * bool * N * N * N)%type.
Definition mk_val (id : N) (v : cval) : Validator :=
  let '(e1, eff, sl, ac, ex, wd) := v in fx_validator id e1 eff sl ac ex wd.
Fixpoint mk_vals (id : N) (l : list cval) : list Validator :=
  match l with [] => [] | v :: r => mk_val id v :: mk_vals (id + 1) r end.
Definition roots64 : list bytes := map (fun i => repeat i 32) (seqN 1 64).
Definition mk_state (slot_ : N) (vals : list cval) (bals : list N) : BeaconState :=
  (fx_state slot_ (mk_vals 0 vals) bals) <| block_roots := roots64 |> <| randao_mixes := roots64 |>.

Definition obs_w (w : N * N * bytes * N) : N * N * N * N := let '(i, vi, a, amt) := w in (i, vi, nth 0 a 0, amt).
Definition w_of_obs (o : N * N * N * N) : value :=
  let '(i, vi, a, amt) := o in VCont [VUint i; VUint vi; VBytes (repeat a 20); VUint amt].
Definition capella_payload (c : Config) (ws : list (N * N * N * N)) : value :=
  match ExecutionPayloadT c Capella with
  | TContainer fs => VCont (map (fun nt : string * ty => if String.eqb (fst nt) "withdrawals" then VSeq (map w_of_obs ws)
                                                       else default_value (snd nt)) fs)
  | _ => VCont []
  end.

Inductive bcase :=
(* capella.GetExpectedWithdrawals *)
| CSweep (ov : list (string * N)) (slot_ : N) (vals : list cval) (bals : list N) (nwi nwvi : N)
         (go : gores (list (N * N * N * N)))
(* capella.ProcessWithdrawals: observed (balances, next_withdrawal_index, next_withdrawal_validator_index) *)
| CProcW (ov : list (string * N)) (slot_ : N) (vals : list cval) (bals : list N) (nwi nwvi : N)
         (payload : list (N * N * N * N)) (go : gores (list N * N * N))
(* phase0.InitiateValidatorExit: observed (exit_epoch, withdrawable_epoch) of the validator *)
| CExit (ov : list (string * N)) (slot_ : N) (vals : list cval) (active : N) (idx : N) (go : gores (N * N))
(* phase0.SlashValidator (fork 0..4): observed (slashed, exit, withdrawable) of the validator, balances, slashings *)
| CSlash (ov : list (string * N)) (fk : N) (slot_ : N) (vals : list cval) (bals : list N) (active proposer idx : N)
         (go : gores ((bool * N * N) * list N * list N))
(* altair.ProcessSyncAggregate: committee = validator ids, observed balances *)
| CSync (ov : list (string * N)) (slot_ : N) (vals : list cval) (bals : list N) (committee : list N) (bits : list bool)
        (proposer total sqrt sigkind : N) (go : gores (list N))
(* phase0.ProcessDeposits count check with provable top-up deposits of validator 0: observed (balances, deposit index) *)
| CDepCount (ov : list (string * N)) (vals : list cval) (bals : list N) (count index ndeps amount : N)
            (go : gores (list N * N))
(* common.ProcessHeader: block (slot, proposer, parent = latest header root?), observed latest header (slot, proposer) *)
| CHeader (ov : list (string * N)) (slot_ : N) (vals : list cval) (latest_slot : N) (b_slot b_proposer : N) (parent_ok : bool)
          (expected : N) (go : gores (N * N))
(* phase0.ProcessEth1Vote: votes and the new vote as small ids, observed (number of votes, deposit_count of state.eth1_data) *)
| CEth1 (ov : list (string * N)) (votes : list N) (d : N) (go : gores (N * N)).

Definition eth1_of_id (i : N) : Eth1Data := mkEth1Data (repeat i 32) i (repeat i 32).
Definition eth1_state (votes : list N) : BeaconState :=
  (mk_state 9 [] []) <| eth1_data := eth1_of_id 200 |> <| eth1_data_votes := map eth1_of_id votes |>.
Definition eth1_body (d : N) : value := VCont [VBytes []; eth1_to_value (eth1_of_id d)].
Definition eth1_obs (s : BeaconState) : N * N := (N.of_nat (length (eth1_data_votes s)), e_deposit_count (eth1_data s)).
Definition fork_of (n : N) : fork :=
  if n =? 0 then Phase0 else if n =? 1 then Altair else if n =? 2 then Bellatrix else if n =? 3 then Capella else Deneb.
Definition mk_epc (ce active : N) (proposer : option N) (total sqrt : N) (sidx : list N) : BlockEpc :=
  mkBlockEpc ce active proposer [] total sqrt sidx (map (fun i => [i]) sidx) (fun _ => None) (fun _ => None).
Definition N2 := (N * N)%type.
Definition pair_eqb {A B} (ea : A -> A -> bool) (eb : B -> B -> bool) (x y : A * B) : bool := ea (fst x) (fst y) && eb (snd x) (snd y).
Definition listN_eqb := list_eqb N.eqb.
Definition w4_eqb (x y : N * N * N * N) : bool :=
  let '(a, b, c, d) := x in let '(a', b', c', d') := y in (a =? a') && (b =? b') && (c =? c') && (d =? d').
Definition val_obs (st : BeaconState) (i : N) : bool * N * N :=
  match nthN (validators st) i with Some v => (v_slashed v, v_exit_epoch v, v_withdrawable_epoch v) | None => (false, 0, 0) end.
Definition vobs_eqb (x y : bool * N * N) : bool :=
  let '(a, b, c) := x in let '(a', b', c') := y in Bool.eqb a a' && (b =? b') && (c =? c').
Definition map_outcome {A B} (g : A -> B) (o : outcome A) : outcome B :=
  match o with Ok a => Ok (g a) | Err => Err | Panic p => Panic p | Blocked => Blocked | OutOfFuel => OutOfFuel end.
Definition of_spec {A B} (g : A -> B) (o : option A) : outcome B := match o with Some a => Ok (g a) | None => Err end.

Definition dep_value (amount : N) : value :=
  VCont [VSeq (repeat (VBytes (repeat 0 32)) 33); VCont [VBytes [0]; VBytes (repeat 0 32); VUint amount; VBytes (repeat 0 96)]].
(* the deposit proofs are real on the Go side; here the branch check is replaced by a hash for which every branch
   verifies (constant hash, root = zero32): only the count rule and the top-ups are compared *)
Definition dep_env (ov : list (string * N)) : Env :=
  mkEnv (run_cfg ov) (fun _ => repeat 0 32) (fun _ => repeat 0 32) (fun _ _ _ => true) (fun _ _ _ => true) (fun _ => repeat 0 48) (fun _ _ _ => true).

Definition impl_ok (c : bcase) : bool :=
  match c with
  | CSweep ov s vals bals nwi nwvi go =>
      let E := run_env ov 0 in
      let st := (mk_state s vals bals) <| next_withdrawal_index := nwi |> <| next_withdrawal_validator_index := nwvi |> in
      agree (list_eqb w4_eqb) (map_outcome (map obs_w) (get_expected_withdrawals_impl E st)) go
  | CProcW ov s vals bals nwi nwvi payload go =>
      let E := run_env ov 0 in
      let st := (mk_state s vals bals) <| next_withdrawal_index := nwi |> <| next_withdrawal_validator_index := nwvi |> in
      agree (pair_eqb (pair_eqb listN_eqb N.eqb) N.eqb)
        (map_outcome (fun s' => (balances s', next_withdrawal_index s', next_withdrawal_validator_index s'))
           (process_withdrawals_impl E Capella st (capella_payload (cfg E) payload))) go
  | CExit ov s vals active idx go =>
      let E := run_env ov 0 in
      let st := mk_state s vals (map (fun _ => 0) vals) in
      let epc := mk_epc (s / SLOTS_PER_EPOCH (cfg E)) active None 0 0 [] in
      agree (pair_eqb N.eqb N.eqb)
        (map_outcome (fun s' => let '(_, e, w) := val_obs s' idx in (e, w)) (initiate_validator_exit_impl E epc st idx)) go
  | CSlash ov fk s vals bals active proposer idx go =>
      let E := run_env ov 0 in
      let st := mk_state s vals bals in
      let epc := mk_epc (s / SLOTS_PER_EPOCH (cfg E)) active (Some proposer) 0 0 [] in
      agree (pair_eqb (pair_eqb vobs_eqb listN_eqb) listN_eqb)
        (map_outcome (fun s' => (val_obs s' idx, balances s', slashings s')) (slash_validator_impl E (fork_of fk) epc st idx None)) go
  | CSync ov s vals bals committee bits proposer total sqrt sigkind go =>
      let E := run_env ov sigkind in
      let st := (mk_state s vals bals) <| current_sync_committee := mkSyncCommittee (map (fun i => [i]) committee) [] |> in
      let epc := mk_epc 0 0 (Some proposer) total sqrt committee in
      let sa := VCont [VBits bits; VBytes (if sigkind =? 2 then G2_POINT_AT_INFINITY else repeat 7 96)] in
      agree listN_eqb (map_outcome balances (process_sync_aggregate_impl E epc st sa)) go
  | CDepCount ov vals bals count index ndeps amount go =>
      let E := dep_env ov in
      let st := (mk_state 9 vals bals) <| eth1_data := mkEth1Data (repeat 0 32) count (repeat 0 32) |> <| eth1_deposit_index := index |> in
      agree (pair_eqb listN_eqb N.eqb)
        (map_outcome (fun s' => (balances s', eth1_deposit_index s'))
           (process_deposits_impl E Altair (spec_epc E) st (repeat (dep_value amount) (N.to_nat ndeps)))) go
  | CHeader ov s vals latest_slot b_slot b_proposer parent_ok expected go =>
      let E := run_env ov 0 in
      let st0 := mk_state s vals (map (fun _ => 0) vals) in
      let st := st0 <| latest_block_header := mkHeader latest_slot 0 (repeat 1 32) (repeat 2 32) (repeat 3 32) |> in
      let parent := htr E BeaconBlockHeaderT (header_to_value (latest_block_header st)) in
      let blk := VCont [VUint b_slot; VUint b_proposer; VBytes (if parent_ok then parent else repeat 9 32); VBytes (repeat 0 32);
                        default_value (BeaconBlockBodyT (cfg E) Altair)] in
      let epc := mk_epc 0 0 (Some expected) 0 0 [] in
      agree (pair_eqb N.eqb N.eqb)
        (map_outcome (fun s' => (h_slot (latest_block_header s'), h_proposer_index (latest_block_header s')))
           (process_header_impl E Altair epc st blk)) go
  | CEth1 ov votes d go =>
      let E := run_env ov 0 in
      agree (pair_eqb N.eqb N.eqb) (map_outcome eth1_obs (process_eth1_vote_impl E Altair (eth1_state votes) (eth1_body d))) go
  end.

(* Go against the Spec function itself; `true` outside the documented domain *)
Definition spec_ok (c : bcase) : bool :=
  match c with
  | CSweep ov s vals bals nwi nwvi go =>
      let E := run_env ov 0 in
      let st := (mk_state s vals bals) <| next_withdrawal_index := nwi |> <| next_withdrawal_validator_index := nwvi |> in
      if (0 <? N.of_nat (length vals)) && (nwvi <? N.of_nat (length vals))
      then agree (list_eqb w4_eqb) (Ok (map obs_w (get_expected_withdrawals E st))) go else true
  | CProcW ov s vals bals nwi nwvi payload go =>
      let E := run_env ov 0 in
      let st := (mk_state s vals bals) <| next_withdrawal_index := nwi |> <| next_withdrawal_validator_index := nwvi |> in
      if (0 <? N.of_nat (length vals)) && (nwvi <? N.of_nat (length vals))
      then agree (pair_eqb (pair_eqb listN_eqb N.eqb) N.eqb)
             (of_spec (fun s' => (balances s', next_withdrawal_index s', next_withdrawal_validator_index s'))
                (process_withdrawals E Capella st (capella_payload (cfg E) payload))) go
      else true
  | CExit ov s vals active idx go =>
      let E := run_env ov 0 in
      let st := mk_state s vals (map (fun _ => 0) vals) in
      if active =? N.of_nat (length (get_active_validator_indices st (get_current_epoch E st)))
      then agree (pair_eqb N.eqb N.eqb)
             (of_spec (fun s' => let '(_, e, w) := val_obs s' idx in (e, w)) (initiate_validator_exit E st idx)) go
      else true
  | CSlash ov fk s vals bals active proposer idx go =>
      let E := run_env ov 0 in
      let st := mk_state s vals bals in
      if (active =? N.of_nat (length (get_active_validator_indices st (get_current_epoch E st))))
         && (match get_beacon_proposer_index E st with Some p => p =? proposer | None => false end)
      then agree (pair_eqb (pair_eqb vobs_eqb listN_eqb) listN_eqb)
             (of_spec (fun s' => (val_obs s' idx, balances s', slashings s')) (slash_validator E (fork_of fk) st idx None)) go
      else true
  | CSync ov s vals bals committee bits proposer total sqrt sigkind go =>
      let E := run_env ov sigkind in
      let st := (mk_state s vals bals) <| current_sync_committee := mkSyncCommittee (map (fun i => [i]) committee) [] |> in
      let sa := VCont [VBits bits; VBytes (if sigkind =? 2 then G2_POINT_AT_INFINITY else repeat 7 96)] in
      if (match get_beacon_proposer_index E st with Some p => p =? proposer | None => false end)
         && (total =? get_total_active_balance E st) && (sqrt =? N.sqrt total)
      then agree listN_eqb (of_spec balances (process_sync_aggregate E st sa)) go
      else true
  | CDepCount ov vals bals count index ndeps amount go =>
      let E := dep_env ov in
      let st := (mk_state 9 vals bals) <| eth1_data := mkEth1Data (repeat 0 32) count (repeat 0 32) |> <| eth1_deposit_index := index |> in
      (* the spec's rule for the deposits of a block, then its deposit processing *)
      let deps := repeat (dep_value amount) (N.to_nat ndeps) in
      agree (pair_eqb listN_eqb N.eqb)
        (if (N.of_nat (length deps) =? N.min (MAX_DEPOSITS (cfg E)) (count - index)) && (index <=? count)
         then of_spec (fun s' => (balances s', eth1_deposit_index s')) (for_ops deps (process_deposit E Altair) st)
         else Err) go
  | CHeader ov s vals latest_slot b_slot b_proposer parent_ok expected go =>
      let E := run_env ov 0 in
      let st0 := mk_state s vals (map (fun _ => 0) vals) in
      let st := st0 <| latest_block_header := mkHeader latest_slot 0 (repeat 1 32) (repeat 2 32) (repeat 3 32) |> in
      let parent := htr E BeaconBlockHeaderT (header_to_value (latest_block_header st)) in
      let blk := VCont [VUint b_slot; VUint b_proposer; VBytes (if parent_ok then parent else repeat 9 32); VBytes (repeat 0 32);
                        default_value (BeaconBlockBodyT (cfg E) Altair)] in
      if match get_beacon_proposer_index E st with Some p => p =? expected | None => false end
      then agree (pair_eqb N.eqb N.eqb)
             (of_spec (fun s' => (h_slot (latest_block_header s'), h_proposer_index (latest_block_header s')))
                (process_block_header E Altair st blk)) go
      else true
  | CEth1 ov votes d go =>
      let E := run_env ov 0 in
      (* domain: room in the votes list (one vote per slot of the period) *)
      if N.of_nat (length votes) <? EPOCHS_PER_ETH1_VOTING_PERIOD (cfg E) * SLOTS_PER_EPOCH (cfg E)
      then agree (pair_eqb N.eqb N.eqb) (Ok (eth1_obs (process_eth1_data E Altair (eth1_state votes) (eth1_body d)))) go
      else true
  end.

(* inputs on which the PINNED snapshot (before the fix: commits 74b46c6 and 9bd2c6a of /repo) differed from the Spec: the
   repaired code must agree with the Spec on them; `orig_shapes` counts how many such inputs a run contained *)
Definition orig_shape (c : bcase) : bool :=
  match c with
  | CSync ov s vals bals committee bits proposer _ _ sigkind _ =>
      let E := run_env ov sigkind in
      let st := mk_state s vals bals in
      negb (listN_eqb (spec_loop proposer (sync_pr E st) (sync_propr E st) (combine committee bits) bals)
                      (go_batched proposer (sync_pr E st) (sync_propr E st) (combine committee bits) bals))
  | CDepCount _ _ _ count index _ _ _ => count <? index
  | _ => false
  end.

(* (case number, code): bit 1 = Go differs from the Impl model; bit 2 = Go differs from the Spec on an in-domain input *)
Fixpoint mism (i : N) (cs : list bcase) : list (N * N) :=
  match cs with
  | [] => []
  | c :: r =>
      let code := (if impl_ok c then 0 else 1) + (if spec_ok c then 0 else 2) in
      if code =? 0 then mism (i + 1) r else (i, code) :: mism (i + 1) r
  end.
Definition mismatches (cs : list bcase) : list (N * N) := mism 0 cs.
Definition orig_shapes (cs : list bcase) : N := N.of_nat (length (filter orig_shape cs)).
