(* C02: zrnt's in-place fork upgrades (Impl/Upgrades.v: UpgradeToAltair with TranslateParticipation,
   UpgradeToBellatrix/Capella/Deneb, UpgradeMaybe with atForkBoundary) equal the specification's upgrade_to /
   translate_participation / upgrade_maybe (Spec/Transition.v).  Direction: where the Spec upgrades, zrnt returns the
   same state.  Committee lookups of the epochs context are taken as equal to the Spec's get_beacon_committee on the
   pre-state (that equality is C07T_beacon_committee_refines + C08's rotate_matches). *)
From Coq Require Import String.
From Coq Require Import NArith ZArith List Lia Bool.
From Coq Require Import ZifyN ZifyNat ZifyBool.
From RecordUpdate Require Import RecordSet.
From V Require Import Base.U64 Base.Outcome Ssz.SszCore Beacon.Config Beacon.Schemas Beacon.State
  Beacon.Spec.Helpers Beacon.Spec.Epoch Beacon.Spec.Block Beacon.Spec.Transition
  Beacon.Proofs.ListFacts Beacon.Proofs.Frame Beacon.Proofs.ViewExt Beacon.Proofs.Stability Beacon.Proofs.EpcInv Beacon.Proofs.EpochBoundary
  Beacon.Impl.Justification Beacon.Impl.Phase0Attester Beacon.Impl.SyncRotation Beacon.Impl.Upgrades
  Beacon.Refine.ListLemmas Beacon.Refine.JustificationRefine Beacon.Refine.SyncRotationRefine.
From V Require Math.MathModel Math.MathProofs.
Import ListNotations RecordSetNotations.
Local Open Scope list_scope.
Local Open Scope N_scope.
Ltac Zify.zify_post_hook ::= Z.div_mod_to_equations.

(* ---------- small list facts ---------- *)
Lemma setN_as_updN {A} (g : A -> A) : forall (l : list A) i x, nthN l i = Some x -> setN l i (g x) = updN l i g.
Proof.
  intros l i x H. unfold setN. rewrite !updN_upd_nat. rewrite nthN_nth_error in H. revert H. generalize (N.to_nat i). clear i.
  induction l as [|y l IH]; intros [|n] H; cbn [nth_error upd_nat] in *; try discriminate.
  - inversion H. reflexivity.
  - f_equal. apply IH. exact H.
Qed.
Lemma updN_fun_ext {A} (g h : A -> A) (l : list A) i : (forall x, g x = h x) -> updN l i g = updN l i h.
Proof.
  intros He. rewrite !updN_upd_nat. generalize (N.to_nat i). clear i.
  induction l as [|y l IH]; intros [|n]; cbn [upd_nat]; try reflexivity; [rewrite He|rewrite IH]; reflexivity.
Qed.
Lemma fold_add_flag flags : forall x, fold_left add_flag flags x = N.lor x (fold_left add_flag flags 0).
Proof.
  induction flags as [|k flags IH]; intros x; cbn [fold_left]; [rewrite N.lor_0_r; reflexivity|].
  rewrite (IH (add_flag x k)), (IH (add_flag 0 k)). unfold add_flag. rewrite N.lor_0_l, N.lor_assoc. reflexivity.
Qed.
Lemma all_some_In {A} : forall (l : list (option A)) r x, all_some l = Some r -> In x r -> In (Some x) l.
Proof.
  induction l as [|[a|] l IH]; intros r x H Hx; cbn [all_some] in H; try discriminate.
  - inversion H; subst. destruct Hx.
  - destruct (all_some l) as [r'|] eqn:Er; [|discriminate]. inversion H; subst r.
    destruct Hx as [->|Hx]; [left; reflexivity|right; apply (IH r' x eq_refl Hx)].
Qed.

(* members of a beacon committee are registry indices *)
Lemma beacon_committee_members E st s i comm : get_beacon_committee E st s i = Some comm ->
  Forall (fun m => m < N.of_nat (length (validators st))) comm.
Proof.
  intros H. apply Forall_forall. intros m Hm. unfold get_beacon_committee, compute_committee in H.
  apply (all_some_In _ _ m H) in Hm. apply in_map_iff in Hm. destruct Hm as (k & Hk & _).
  destruct (compute_shuffled_index E k _ _) as [j|]; [|discriminate].
  apply lf_nthN_In in Hk. apply (active_index_bound st _ m Hk).
Qed.

(* ---------- reading the Spec helpers on a state that differs only in fields they do not read ---------- *)
Lemma flag_indices_ext E f st st' d delay :
  slot st' = slot st -> block_roots st' = block_roots st ->
  current_justified_checkpoint st' = current_justified_checkpoint st ->
  previous_justified_checkpoint st' = previous_justified_checkpoint st ->
  get_attestation_participation_flag_indices E f st' d delay = get_attestation_participation_flag_indices E f st d delay.
Proof.
  intros H1 H2 H3 H4. unfold get_attestation_participation_flag_indices, get_block_root, get_block_root_at_slot, get_current_epoch.
  rewrite H1, H2, H3, H4. reflexivity.
Qed.
Lemma sync_loop_ext E st st' active seed : validators st' = validators st ->
  forall k i need, sync_loop E k st' active seed i need = sync_loop E k st active seed i need.
Proof.
  intros HV. induction k as [|k IH]; intros i need; destruct need as [|need]; cbn [sync_loop]; try reflexivity.
  rewrite !IH. destruct (compute_shuffled_index E _ _ seed); [|reflexivity]. destruct (nthN active _) as [cand|]; [|reflexivity].
  rewrite (eff_bal_ext st st' cand HV). reflexivity.
Qed.
Lemma next_sync_committee_ext E st st' : slot st' = slot st -> validators st' = validators st -> randao_mixes st' = randao_mixes st ->
  get_next_sync_committee E st' = get_next_sync_committee E st.
Proof.
  intros HS HV HM. unfold get_next_sync_committee, get_next_sync_committee_indices, get_current_epoch.
  rewrite HS, (active_ext st st' _ HV), (get_seed_ext E st st' _ _ HM), (sync_loop_ext E st st' _ _ HV), HV. reflexivity.
Qed.

Section UpgradesRefine.
  Variable E : Env.
  Variable pubkey_ok : bytes -> bool.
  Variable electra_fork_epoch : N.
  Notation c := (cfg E).

  (* ---------- GetApplicableAttestationParticipationFlags ---------- *)
  Lemma flag_word_cases (a b d : bool) :
    fold_left add_flag ((if a then [TIMELY_SOURCE_FLAG_INDEX] else []) ++ (if b then [TIMELY_TARGET_FLAG_INDEX] else [])
                        ++ (if d then [TIMELY_HEAD_FLAG_INDEX] else [])) 0 =
    (let out := if a then 1 else 0 in let out := if b then N.lor out 2 else out in if d then N.lor out 4 else out).
  Proof. destruct a, b, d; reflexivity. Qed.

  Theorem applicable_flags_refines st data delay flags :
    SLOTS_PER_EPOCH c <> 0 -> SLOTS_PER_EPOCH c < two64 -> slot st < two64 ->
    get_attestation_participation_flag_indices E Altair st data delay = Some flags ->
    applicable_flags_go E st data delay = Ok (fold_left add_flag flags 0).
  Proof.
    intros Hspe Hspe64 Hslot H. unfold get_attestation_participation_flag_indices in H. unfold applicable_flags_go.
    destruct (N.eqb_spec (SLOTS_PER_EPOCH c) 0) as [|_]; [contradiction|].
    change (slot st / SLOTS_PER_EPOCH c) with (get_current_epoch E st).
    set (justified := if cp_epoch (ad_target data) =? get_current_epoch E st then current_justified_checkpoint st
                      else previous_justified_checkpoint st) in *.
    destruct (cp_eqb (ad_source data) justified) eqn:Hsrc; [|discriminate].
    destruct (get_block_root E st (cp_epoch (ad_target data))) as [troot|] eqn:Et; [|discriminate].
    destruct (get_block_root_at_slot E st (ad_slot data)) as [hroot|] eqn:Eh; [|discriminate].
    (* the Spec's range assertions held, so zrnt's unchecked reads hit the same cells *)
    assert (Hh : block_root_at_slot_go c st (ad_slot data) = Some hroot).
    { unfold get_block_root_at_slot in Eh. unfold block_root_at_slot_go.
      destruct (N.ltb_spec (ad_slot data) (slot st)) as [Hlt|]; [|discriminate]. cbn [andb] in Eh.
      destruct (N.leb_spec (slot st) (ad_slot data + SLOTS_PER_HISTORICAL_ROOT c)) as [Hle|]; [|discriminate].
      destruct (N.eqb_spec (SLOTS_PER_HISTORICAL_ROOT c) 0) as [Hz|_]; [lia|exact Eh]. }
    assert (Ht : get_block_root_go c st (cp_epoch (ad_target data)) = Some troot).
    { unfold get_block_root, get_block_root_at_slot, compute_start_slot_at_epoch in Et. unfold get_block_root_go.
      destruct (N.ltb_spec (cp_epoch (ad_target data) * SLOTS_PER_EPOCH c) (slot st)) as [Hlt|]; [|discriminate].
      cbn [andb] in Et.
      destruct (N.leb_spec (slot st) (cp_epoch (ad_target data) * SLOTS_PER_EPOCH c + SLOTS_PER_HISTORICAL_ROOT c)) as [Hle|]; [|discriminate].
      rewrite (epoch_start_slot_ok E _ Hspe) by lia.
      destruct (N.eqb_spec (SLOTS_PER_HISTORICAL_ROOT c) 0) as [Hz|_]; [lia|exact Et]. }
    rewrite Hh, Ht. cbn [of_opt bind negb andb].
    rewrite (MathProofs.isqrt_correct _ Hspe64). cbn [bind].
    cbn [fork_ge fork_idx] in H. change ((3 <=? 1)%N) with false in H. cbn [orb] in H.
    inversion H as [Hfl]. unfold integer_squareroot. rewrite flag_word_cases. reflexivity.
  Qed.

  (* ---------- marking one committee ---------- *)
  Lemma get_bit_mid (done : list bool) b rest : bitlist_get_bit (done ++ b :: rest) (length done) = Ok b.
  Proof.
    unfold bitlist_get_bit. rewrite app_length. cbn [length].
    replace (Nat.ltb (length done) (length done + S (length rest))) with true by (symmetry; apply Nat.ltb_lt; lia).
    rewrite app_nth2 by lia. rewrite Nat.sub_diag. reflexivity.
  Qed.

  Lemma mark_committee_refines flags : forall committee done bits reg,
    length bits = length committee ->
    Forall (fun m => m < N.of_nat (length reg)) committee ->
    mark_committee (done ++ bits) (length done) committee flags reg =
    Ok (fold_left (fun part i => updN part i (fun x => N.lor x flags)) (select_bits bits committee) reg).
  Proof.
    induction committee as [|vi committee IH]; intros done bits reg Hlen Hin.
    - destruct bits; [reflexivity|discriminate].
    - destruct bits as [|b bits]; [discriminate|]. cbn [mark_committee select_bits].
      rewrite get_bit_mid. cbn [bind]. inversion Hin as [|? ? Hvi Hrest]; subst.
      replace (done ++ b :: bits) with ((done ++ [b]) ++ bits) by (rewrite <- app_assoc; reflexivity).
      replace (S (length done)) with (length (done ++ [b])) by (rewrite app_length; cbn [length]; lia).
      destruct b.
      + destruct (lf_nthN_lt_Some reg vi Hvi) as [x Ex]. rewrite Ex. cbn [bind fold_left].
        rewrite (setN_as_updN (fun x => N.lor x flags) reg vi x Ex).
        apply IH; [cbn [length] in Hlen; lia|]. rewrite lf_updN_length. exact Hrest.
      + cbn [bind]. apply IH; [cbn [length] in Hlen; lia|exact Hrest].
  Qed.

  (* ---------- TranslateParticipation ---------- *)
  (* what is asked of every pending attestation of the pre-state *)
  Record PendingOk (committee_of : N -> N -> option (list N)) (pre : BeaconState) (a : value) : Prop := mkPendingOk {
    po_committee : committee_of (ad_slot (pa_data a)) (ad_index (pa_data a)) =
                   get_beacon_committee E pre (ad_slot (pa_data a)) (ad_index (pa_data a));   (* C07 + C08 *)
    po_bits : forall comm, get_beacon_committee E pre (ad_slot (pa_data a)) (ad_index (pa_data a)) = Some comm ->
                           length (pa_bits a) = length comm }.                                (* process_attestation's assertion *)

  Definition core_eq (st pre : BeaconState) : Prop :=
    slot st = slot pre /\ block_roots st = block_roots pre /\ validators st = validators pre /\
    randao_mixes st = randao_mixes pre /\
    current_justified_checkpoint st = current_justified_checkpoint pre /\
    previous_justified_checkpoint st = previous_justified_checkpoint pre.

  Lemma translate_refines committee_of pre :
    SLOTS_PER_EPOCH c <> 0 -> SLOTS_PER_EPOCH c < two64 -> slot pre < two64 ->
    forall pending st st',
      (forall a, In a pending -> PendingOk committee_of pre a) ->
      core_eq st pre -> length (previous_epoch_participation st) = length (validators pre) ->
      translate_participation E st pending = Some st' ->
      exists P, st' = st <| previous_epoch_participation := P |> /\ length P = length (validators pre) /\
                translate_participation_go E committee_of pre pending (previous_epoch_participation st) = Ok P.
  Proof.
    intros Hspe Hspe64 Hslot. unfold translate_participation, translate_participation_go.
    induction pending as [|a pending IH]; intros st st' Hok Hcore Hlen H.
    - cbn [fold_left] in *. inversion H; subst st'. exists (previous_epoch_participation st).
      split; [destruct st; reflexivity|]. split; [exact Hlen|reflexivity].
    - cbn [fold_left] in H |- *. destruct Hcore as (C1 & C2 & C3 & C4 & C5 & C6).
      destruct (get_attestation_participation_flag_indices E Altair st (pa_data a) (pa_inclusion_delay a)) as [flags|] eqn:Ef;
        [|rewrite fold_left_opt_none in H; discriminate].
      destruct (get_attesting_indices E st (pa_data a) (pa_bits a)) as [idx|] eqn:Ei;
        [|rewrite fold_left_opt_none in H; discriminate].
      rewrite (flag_indices_ext E Altair pre st _ _ C1 C2 C5 C6) in Ef.
      rewrite (applicable_flags_refines pre _ _ flags Hspe Hspe64 Hslot Ef). cbn [bind].
      unfold get_attesting_indices in Ei. rewrite (committee_ext E pre st _ _ C3 C4) in Ei.
      destruct (Hok a (or_introl eq_refl)) as [Hc Hb]. rewrite Hc.
      destruct (get_beacon_committee E pre (ad_slot (pa_data a)) (ad_index (pa_data a))) as [comm|] eqn:Ec; [|discriminate].
      inversion Ei; subst idx. cbn [of_opt bind].
      pose proof (beacon_committee_members E pre _ _ comm Ec) as Hmem. rewrite <- Hlen in Hmem.
      rewrite (mark_committee_refines _ comm [] (pa_bits a) _ (Hb comm eq_refl) Hmem).
      set (P1 := fold_left (fun part i => updN part i (fun x => fold_left add_flag flags x)) (select_bits (pa_bits a) comm)
                           (previous_epoch_participation st)) in *.
      assert (EP : fold_left (fun part i => updN part i (fun x => N.lor x (fold_left add_flag flags 0)))
                             (select_bits (pa_bits a) comm) (previous_epoch_participation st) = P1).
      { unfold P1. generalize (previous_epoch_participation st). generalize (select_bits (pa_bits a) comm).
        induction l as [|i l IHl]; intros p; cbn [fold_left]; [reflexivity|].
        rewrite (updN_fun_ext (fun x => N.lor x (fold_left add_flag flags 0)) (fun x => fold_left add_flag flags x));
          [apply IHl|intros x; symmetry; apply fold_add_flag]. }
      rewrite EP.
      assert (HlenP1 : length P1 = length (validators pre)).
      { unfold P1. rewrite <- Hlen. generalize (previous_epoch_participation st). generalize (select_bits (pa_bits a) comm).
        induction l as [|i l IHl]; intros p; cbn [fold_left]; [reflexivity|]. rewrite IHl. apply lf_updN_length. }
      destruct (IH (st <| previous_epoch_participation := P1 |>) st') as (P & HP1 & HP2 & HP3).
      + intros b Hb'. apply Hok. right. exact Hb'.
      + repeat split; assumption.
      + exact HlenP1.
      + exact H.
      + exists P. split; [rewrite HP1; destruct st; reflexivity|]. split; [exact HP2|]. exact HP3.
  Qed.

  (* ---------- UpgradeToAltair ---------- *)
  Record AltairUpgradeHyps (committee_of : N -> N -> option (list N)) (sepc : SyncEpc) (pre : BeaconState) : Prop := mkAUH {
    au_spe64 : SLOTS_PER_EPOCH c < two64;
    au_slot : slot pre < two64;
    au_pending : forall a, In a (previous_epoch_attestations pre) -> PendingOk committee_of pre a;
    au_sync : SyncHyps E pubkey_ok pre sepc }.

  Theorem upgrade_to_altair_refines committee_of sepc pre post fuel :
    AltairUpgradeHyps committee_of sepc pre -> (PROPOSER_FUEL <= fuel)%nat ->
    upgrade_to E Altair pre = Some post ->
    upgrade_to_altair E pubkey_ok fuel committee_of sepc pre = Ok post.
  Proof.
    intros [Hspe64 Hslot Hpend Hsync] Hfuel H. pose proof (sh_spe _ _ _ _ Hsync) as Hspe.
    unfold upgrade_to in H. unfold upgrade_to_altair.
    destruct (N.eqb_spec (SLOTS_PER_EPOCH c) 0) as [|_]; [contradiction|].
    set (n := length (validators pre)) in *.
    set (post0 := pre <| fork_rec := mkFork (f_current_version (fork_rec pre)) (fork_version_of E Altair)
                                           (compute_epoch_at_slot E (slot pre)) |>
                      <| previous_epoch_attestations := [] |> <| current_epoch_attestations := [] |>
                      <| previous_epoch_participation := repeat 0 n |> <| current_epoch_participation := repeat 0 n |>
                      <| inactivity_scores := repeat 0 n |>) in *.
    destruct (translate_participation E post0 (previous_epoch_attestations pre)) as [postT|] eqn:ET; [|discriminate].
    destruct (get_next_sync_committee E postT) as [sc|] eqn:ES; [|discriminate].
    destruct (translate_refines committee_of pre Hspe Hspe64 Hslot _ post0 postT Hpend) as (P & HP1 & HP2 & HP3).
    { repeat split; reflexivity. }
    { unfold post0. cbn. apply repeat_length. }
    { exact ET. }
    change (previous_epoch_participation post0) with (repeat 0 n) in HP3. rewrite HP3. cbn [bind].
    rewrite (next_sync_committee_ext E pre postT) in ES by (rewrite HP1; reflexivity).
    rewrite (next_sync_committee_refines_ge E pubkey_ok pre sepc sc fuel Hsync Hfuel ES). cbn [bind].
    inversion H. rewrite HP1. unfold post0. destruct pre. reflexivity.
  Qed.

  (* ---------- Bellatrix, Capella, Deneb ---------- *)
  Theorem upgrade_to_bellatrix_refines pre post : SLOTS_PER_EPOCH c <> 0 ->
    upgrade_to E Bellatrix pre = Some post -> upgrade_to_bellatrix E pre = Ok post.
  Proof.
    intros Hspe H. unfold upgrade_to in H. unfold upgrade_to_bellatrix.
    destruct (N.eqb_spec (SLOTS_PER_EPOCH c) 0) as [|_]; [contradiction|]. inversion H. destruct pre. reflexivity.
  Qed.

  Definition header_fields (n : nat) (v : value) : Prop := exists vs, v = VCont vs /\ length vs = n.

  Lemma capella_header_refines old : header_fields 14 old -> capella_header old = Ok (upgrade_header E Capella old).
  Proof.
    intros (vs & -> & Hn). do 15 (destruct vs as [|? vs]; try discriminate). reflexivity.
  Qed.
  Lemma deneb_header_refines old : header_fields 15 old -> deneb_header old = Ok (upgrade_header E Deneb old).
  Proof.
    intros (vs & -> & Hn). do 16 (destruct vs as [|? vs]; try discriminate). reflexivity.
  Qed.

  Theorem upgrade_to_capella_refines pre post : SLOTS_PER_EPOCH c <> 0 ->
    header_fields 14 (latest_execution_payload_header pre) ->      (* a bellatrix header: what .Raw() decodes *)
    upgrade_to E Capella pre = Some post -> upgrade_to_capella E pre = Ok post.
  Proof.
    intros Hspe Hh H. unfold upgrade_to in H. unfold upgrade_to_capella.
    destruct (N.eqb_spec (SLOTS_PER_EPOCH c) 0) as [|_]; [contradiction|].
    rewrite (capella_header_refines _ Hh). cbn [bind]. inversion H. destruct pre. reflexivity.
  Qed.
  Theorem upgrade_to_deneb_refines pre post : SLOTS_PER_EPOCH c <> 0 ->
    header_fields 15 (latest_execution_payload_header pre) ->      (* a capella header *)
    upgrade_to E Deneb pre = Some post -> upgrade_to_deneb E pre = Ok post.
  Proof.
    intros Hspe Hh H. unfold upgrade_to in H. unfold upgrade_to_deneb.
    destruct (N.eqb_spec (SLOTS_PER_EPOCH c) 0) as [|_]; [contradiction|].
    rewrite (deneb_header_refines _ Hh). cbn [bind]. inversion H. destruct pre. reflexivity.
  Qed.
  (* ---------- UpgradeMaybe ---------- *)
  Lemma upgrade_to_slot fn st st' : upgrade_to E fn st = Some st' -> slot st' = slot st.
  Proof. intros H. destruct (bf_upgrade_to E fn st st st' H (bf_refl st)) as [Hs _]. exact Hs. Qed.

  Lemma at_boundary_eq s fe : SLOTS_PER_EPOCH c <> 0 ->
    at_fork_boundary E s fe = Ok ((s mod SLOTS_PER_EPOCH c =? 0) && (compute_epoch_at_slot E s =? fe)).
  Proof. intros H. unfold at_fork_boundary. destruct (N.eqb_spec (SLOTS_PER_EPOCH c) 0); [contradiction|reflexivity]. Qed.

  (* the sync committees installed by the altair upgrade are made of registry keys *)
  Lemma next_sync_committee_keys st sc : get_next_sync_committee E st = Some sc ->
    forall pk, In pk (sc_pubkeys sc) -> exists v, In v (validators st) /\ pk = v_pubkey v.
  Proof.
    intros H pk Hpk. unfold get_next_sync_committee in H.
    destruct (get_next_sync_committee_indices E st) as [idx|]; [|discriminate].
    destruct (all_some _) as [pks|] eqn:Ep; [|discriminate]. inversion H; subst sc. cbn [sc_pubkeys] in Hpk.
    apply (all_some_In _ _ pk Ep) in Hpk. apply in_map_iff in Hpk. destruct Hpk as (i & Hi & _).
    destruct (nthN (validators st) i) as [v|] eqn:Ev; [|discriminate]. cbn [option_map] in Hi. inversion Hi.
    exists v. split; [apply (lf_nthN_In _ i); exact Ev|reflexivity].
  Qed.
  Lemma upgrade_to_altair_sync pre post : upgrade_to E Altair pre = Some post ->
    exists sc, get_next_sync_committee E pre = Some sc /\ current_sync_committee post = sc /\ next_sync_committee post = sc /\
               validators post = validators pre.
  Proof.
    intros H. unfold upgrade_to in H. cbv zeta in H.
    destruct (translate_participation E _ (previous_epoch_attestations pre)) as [postT|] eqn:ET; [|discriminate].
    destruct (get_next_sync_committee E postT) as [sc|] eqn:ES; [|discriminate]. inversion H; subst post.
    destruct (vm_translate_participation E _ _ _ ET) as [HV HM].
    destruct (bf_translate_participation E _ _ _ _ ET (bf_refl _)) as [HS _].
    exists sc. rewrite (next_sync_committee_ext E pre postT) in ES by (rewrite ?HS, ?HV, ?HM; reflexivity).
    split; [exact ES|]. split; [reflexivity|]. split; [reflexivity|]. cbn. rewrite HV. reflexivity.
  Qed.
  Lemma hydrate_ok_all pk_index pk_of sc :
    (forall pk, In pk (sc_pubkeys sc) -> exists i p, pk_index pk = Some i /\ pk_of i = Some p) ->
    hydrate_ok pk_index pk_of sc = Ok tt.
  Proof.
    unfold hydrate_ok. induction (sc_pubkeys sc) as [|pk l IH]; intros H; cbn [fold_left]; [reflexivity|].
    destruct (H pk (or_introl eq_refl)) as (i & p & H1 & H2). cbn [bind]. rewrite H1, H2.
    apply IH. intros q Hq. apply H. right. exact Hq.
  Qed.

  Definition boundary (st : BeaconState) (fe : N) : bool :=
    (slot st mod SLOTS_PER_EPOCH c =? 0) && (compute_epoch_at_slot E (slot st) =? fe).

  Record UpgradeMaybeHyps (committee_of : N -> N -> option (list N)) (sepc : SyncEpc) (pk_index : bytes -> option N)
         (f : fork) (st : BeaconState) : Prop := mkUMH {
    um_spe : SLOTS_PER_EPOCH c <> 0;
    (* only needed when the altair upgrade fires *)
    um_altair : f = Phase0 -> boundary st (ALTAIR_FORK_EPOCH c) = true -> AltairUpgradeHyps committee_of sepc st;
    (* the pubkey cache knows every registry key (C16): LoadSyncCommittees after the altair upgrade cannot fail *)
    um_cache : f = Phase0 -> boundary st (ALTAIR_FORK_EPOCH c) = true ->
               forall v, In v (validators st) -> exists i p, pk_index (v_pubkey v) = Some i /\ sy_pubkey_of sepc i = Some p;
    (* the execution header has the fields of the state's fork (what .Raw() decodes) *)
    um_header_b : f = Bellatrix -> header_fields 14 (latest_execution_payload_header st);
    um_header_c : f = Capella -> header_fields 15 (latest_execution_payload_header st);
    (* electra is never activated (UpgradeToElectra is a stub that errors) *)
    um_no_electra : boundary st electra_fork_epoch = false }.

  Lemma bellatrix_default_header : header_fields 14 (default_value (ExecutionPayloadHeaderT c Bellatrix)).
  Proof. eexists. split; [reflexivity|reflexivity]. Qed.
  Lemma capella_upgraded_header old : header_fields 14 old -> header_fields 15 (upgrade_header E Capella old).
  Proof.
    intros (vs & -> & Hn). do 15 (destruct vs as [|? vs]; try discriminate). eexists. split; reflexivity.
  Qed.

  Theorem upgrade_maybe_refines committee_of sepc pk_index f st f' st' fuel :
    UpgradeMaybeHyps committee_of sepc pk_index f st -> (PROPOSER_FUEL <= fuel)%nat ->
    Transition.upgrade_maybe E 5 f st = Some (f', st') ->
    Upgrades.upgrade_maybe E pubkey_ok electra_fork_epoch fuel committee_of sepc pk_index (f, st) = Ok (f', st').
  Proof.
    intros [Hspe Halt Hcache Hhb Hhc Hne] Hfuel H.
    unfold Upgrades.upgrade_maybe. cbn [fst snd].
    (* the five blocks, seen from a state of fork g whose slot is the slot read at the top *)
    assert (Tail_d : forall s, slot s = slot st ->
      (match Deneb with Deneb => b <~ at_fork_boundary E (slot st) electra_fork_epoch ;; if b then Err else Ok (Deneb, s)
                     | _ => Ok (Deneb, s) end) = Ok (Deneb, s)).
    { intros s Hs. rewrite (at_boundary_eq _ _ Hspe). cbn [bind]. unfold boundary in Hne. rewrite Hne. reflexivity. }
    assert (Step_c : forall s r, slot s = slot st -> header_fields 15 (latest_execution_payload_header s) ->
      Transition.upgrade_maybe E 2 Capella s = Some r ->
      (fs <~ (b <~ at_fork_boundary E (slot st) (DENEB_FORK_EPOCH c) ;;
              if b then post <~ upgrade_to_deneb E s ;; Ok (Deneb, post) else Ok (Capella, s)) ;;
       match fst fs with Deneb => b <~ at_fork_boundary E (slot st) electra_fork_epoch ;; if b then Err else Ok fs
                       | _ => Ok fs end) = Ok r).
    { intros s r Hs Hh Hr. cbn [Transition.upgrade_maybe next_fork fork_epoch_of] in Hr.
      rewrite (at_boundary_eq _ _ Hspe). cbn [bind]. rewrite <- Hs.
      destruct ((slot s mod SLOTS_PER_EPOCH c =? 0) && (compute_epoch_at_slot E (slot s) =? DENEB_FORK_EPOCH c)).
      - destruct (upgrade_to E Deneb s) as [p|] eqn:Eu; [|discriminate]. inversion Hr; subst r.
        rewrite (upgrade_to_deneb_refines s p Hspe Hh Eu). cbn [bind fst]. rewrite Hs.
        apply (Tail_d p). rewrite (upgrade_to_slot _ _ _ Eu). exact Hs.
      - inversion Hr; subst r. reflexivity. }
    assert (Step_b : forall s r, slot s = slot st -> header_fields 14 (latest_execution_payload_header s) ->
      Transition.upgrade_maybe E 3 Bellatrix s = Some r ->
      (fs <~ (b <~ at_fork_boundary E (slot st) (CAPELLA_FORK_EPOCH c) ;;
              if b then post <~ upgrade_to_capella E s ;; Ok (Capella, post) else Ok (Bellatrix, s)) ;;
       fs <~ (match fst fs with
              | Capella => b <~ at_fork_boundary E (slot st) (DENEB_FORK_EPOCH c) ;;
                           if b then post <~ upgrade_to_deneb E (snd fs) ;; Ok (Deneb, post) else Ok fs
              | _ => Ok fs end) ;;
       match fst fs with Deneb => b <~ at_fork_boundary E (slot st) electra_fork_epoch ;; if b then Err else Ok fs
                       | _ => Ok fs end) = Ok r).
    { intros s r Hs Hh Hr. change (Transition.upgrade_maybe E 3 Bellatrix s) with
        (if boundary s (CAPELLA_FORK_EPOCH c) then st1 <- upgrade_to E Capella s ;; Transition.upgrade_maybe E 2 Capella st1
         else Some (Bellatrix, s)) in Hr.
      rewrite (at_boundary_eq _ _ Hspe). cbn [bind]. rewrite <- Hs. fold (boundary s (CAPELLA_FORK_EPOCH c)).
      destruct (boundary s (CAPELLA_FORK_EPOCH c)).
      - destruct (upgrade_to E Capella s) as [p|] eqn:Eu; [|discriminate].
        rewrite (upgrade_to_capella_refines s p Hspe Hh Eu). cbn [bind fst snd]. rewrite Hs.
        apply (Step_c p r); [rewrite (upgrade_to_slot _ _ _ Eu); exact Hs| |exact Hr].
        unfold upgrade_to in Eu. inversion Eu. cbn. apply capella_upgraded_header. exact Hh.
      - inversion Hr; subst r. reflexivity. }
    assert (Step_a : forall s r, slot s = slot st ->
      Transition.upgrade_maybe E 4 Altair s = Some r ->
      (fs <~ (b <~ at_fork_boundary E (slot st) (BELLATRIX_FORK_EPOCH c) ;;
              if b then post <~ upgrade_to_bellatrix E s ;; Ok (Bellatrix, post) else Ok (Altair, s)) ;;
       fs <~ (match fst fs with
              | Bellatrix => b <~ at_fork_boundary E (slot st) (CAPELLA_FORK_EPOCH c) ;;
                             if b then post <~ upgrade_to_capella E (snd fs) ;; Ok (Capella, post) else Ok fs
              | _ => Ok fs end) ;;
       fs <~ (match fst fs with
              | Capella => b <~ at_fork_boundary E (slot st) (DENEB_FORK_EPOCH c) ;;
                           if b then post <~ upgrade_to_deneb E (snd fs) ;; Ok (Deneb, post) else Ok fs
              | _ => Ok fs end) ;;
       match fst fs with Deneb => b <~ at_fork_boundary E (slot st) electra_fork_epoch ;; if b then Err else Ok fs
                       | _ => Ok fs end) = Ok r).
    { intros s r Hs Hr. change (Transition.upgrade_maybe E 4 Altair s) with
        (if boundary s (BELLATRIX_FORK_EPOCH c) then st1 <- upgrade_to E Bellatrix s ;; Transition.upgrade_maybe E 3 Bellatrix st1
         else Some (Altair, s)) in Hr.
      rewrite (at_boundary_eq _ _ Hspe). cbn [bind]. rewrite <- Hs. fold (boundary s (BELLATRIX_FORK_EPOCH c)).
      destruct (boundary s (BELLATRIX_FORK_EPOCH c)).
      - destruct (upgrade_to E Bellatrix s) as [p|] eqn:Eu; [|discriminate].
        rewrite (upgrade_to_bellatrix_refines s p Hspe Eu). cbn [bind fst snd]. rewrite Hs.
        apply (Step_b p r); [rewrite (upgrade_to_slot _ _ _ Eu); exact Hs| |exact Hr].
        unfold upgrade_to in Eu. inversion Eu. cbn. apply bellatrix_default_header.
      - inversion Hr; subst r. reflexivity. }
    destruct f.
    - (* Phase0 *)
      change (Transition.upgrade_maybe E 5 Phase0 st) with
        (if boundary st (ALTAIR_FORK_EPOCH c) then st1 <- upgrade_to E Altair st ;; Transition.upgrade_maybe E 4 Altair st1
         else Some (Phase0, st)) in H.
      rewrite (at_boundary_eq _ _ Hspe). cbn [bind]. fold (boundary st (ALTAIR_FORK_EPOCH c)).
      destruct (boundary st (ALTAIR_FORK_EPOCH c)) eqn:Eb.
      + destruct (upgrade_to E Altair st) as [p|] eqn:Eu; [|discriminate].
        rewrite (upgrade_to_altair_refines committee_of sepc st p fuel (Halt eq_refl eq_refl) Hfuel Eu). cbn [bind].
        destruct (upgrade_to_altair_sync st p Eu) as (sc & Hsc & Hc1 & Hc2 & HV).
        assert (Hload : load_sync_committees_go pk_index (sy_pubkey_of sepc) p = Ok tt).
        { unfold load_sync_committees_go. rewrite Hc1, Hc2.
          assert (Hh : hydrate_ok pk_index (sy_pubkey_of sepc) sc = Ok tt).
          { apply hydrate_ok_all. intros pk Hpk. destruct (next_sync_committee_keys st sc Hsc pk Hpk) as (v & Hv & ->).
            apply (Hcache eq_refl eq_refl v Hv). }
          rewrite Hh. cbn [bind]. reflexivity. }
        rewrite Hload. cbn [bind fst snd].
        apply (Step_a p (f', st')); [apply (upgrade_to_slot _ _ _ Eu)|exact H].
      + inversion H; subst f' st'. reflexivity.
    - (* Altair *) apply (Step_a st (f', st') eq_refl). exact H.
    - (* Bellatrix *) apply (Step_b st (f', st') eq_refl (Hhb eq_refl)). exact H.
    - (* Capella *) apply (Step_c st (f', st') eq_refl (Hhc eq_refl)). exact H.
    - (* Deneb *) cbn [Transition.upgrade_maybe next_fork] in H. inversion H; subst f' st'. apply (Tail_d st eq_refl).
  Qed.
End UpgradesRefine.
