(* Decidable forms of the hypotheses of the altair refinement theorems, with soundness lemmas, so that they can be
   evaluated on concrete states (witnesses below; chain states in the correspondence runs), and the "fresh" epochs
   context view computed from the state by the spec's own functions. *)
From Coq Require Import NArith ZArith Lia List Bool.
From Coq Require Import ZifyN ZifyNat ZifyBool.
From RecordUpdate Require Import RecordSet.
From V Require Import Base.U64 Beacon.Config Beacon.State Beacon.Spec.Helpers Beacon.Spec.Epoch.
From V Require Import Beacon.Impl.Flat Beacon.Impl.AltairAttester Beacon.Refine.ListLemmas Beacon.Refine.FoldLemmas
                      Beacon.Refine.AltairDomain Beacon.Refine.AltairRefine.
Import ListNotations RecordSetNotations.
Local Open Scope N_scope.

Section Check.
  Variable E : Env.
  Notation c := (cfg E).
  Notation INC := (EFFECTIVE_BALANCE_INCREMENT c).

  (* what NewEpochsContext / RotateEpochs must have computed for this state *)
  Definition fresh_epc (st : BeaconState) : EpcView :=
    let ce := get_current_epoch E st in
    mkEpcView (get_previous_epoch E st) ce (ce + 1)
              (get_active_validator_indices st (get_previous_epoch E st)) (get_active_validator_indices st ce)
              (get_total_active_balance E st) (integer_squareroot (get_total_active_balance E st)).

  Definition altair_hypsb (st : BeaconState) : bool :=
    (GENESIS_EPOCH <? get_current_epoch E st) &&
    Nat.eqb (length (previous_epoch_participation st)) (length (validators st)) &&
    Nat.eqb (length (current_epoch_participation st)) (length (validators st)) &&
    Nat.eqb (length (inactivity_scores st)) (length (validators st)) &&
    Nat.eqb (length (balances st)) (length (validators st)) &&
    negb (INC =? 0) && (get_previous_epoch E st + 1 <? two64) &&
    (sumN (map (eff_bal st) (get_active_validator_indices st (get_previous_epoch E st))) <? two64) &&
    (sumN (map (eff_bal st) (get_active_validator_indices st (get_current_epoch E st))) <? two64).
  Lemma altair_hypsb_sound st : altair_hypsb st = true -> AltairHyps E st (fresh_epc st).
  Proof.
    unfold altair_hypsb. intros H. repeat (apply andb_prop in H; destruct H as [H ?]).
    constructor; try reflexivity;
      repeat match goal with
             | H : Nat.eqb _ _ = true |- _ => apply Nat.eqb_eq in H
             | H : (_ <? _) = true |- _ => apply N.ltb_lt in H
             | H : negb (_ =? _) = true |- _ => apply negb_true_iff, N.eqb_neq in H
             end; assumption.
  Qed.

  Definition flag_boundsb (st : BeaconState) (k : N) : bool :=
    let total := get_total_active_balance E st in
    let brpi := INC * BASE_REWARD_FACTOR c / integer_squareroot total in
    let unsl := filter (part_sel st (previous_epoch_participation st) k) (get_active_validator_indices st (get_previous_epoch E st)) in
    let part_incr := get_total_balance E st unsl / INC in
    (INC * BASE_REWARD_FACTOR c <? two64) && (total / INC * WEIGHT_DENOMINATOR <? two64) &&
    forallb (fun v => v_effective_balance v / INC * brpi * flag_weight k * part_incr <? two64) (validators st).
  Lemma flag_boundsb_sound st k : flag_boundsb st k = true -> FlagBounds E st k.
  Proof.
    unfold flag_boundsb. intros H. repeat (apply andb_prop in H; destruct H as [H ?]).
    constructor.
    - apply N.ltb_lt. assumption.
    - apply N.ltb_lt. assumption.
    - intros v Hv. rewrite forallb_forall in H0. apply N.ltb_lt. apply H0. exact Hv.
  Qed.

  Definition inact_boundsb (f : fork) (st : BeaconState) : bool :=
    let den := INACTIVITY_SCORE_BIAS c * inactivity_penalty_quotient E f in
    (den <? two64) && negb (den =? 0) &&
    forallb (fun i => eff_bal st i * (match nthN (inactivity_scores st) i with Some s => s | None => 0 end) <? two64)
            (indices (validators st)).
  Lemma in_indices {A} (l : list A) i : i < N.of_nat (length l) -> In i (indices l).
  Proof.
    unfold indices. intros H. assert (Hg : forall n s, s <= i < s + N.of_nat n -> In i (seqN s n)).
    { induction n as [|n IH]; intros s Hs; [lia|]. cbn [seqN]. destruct (N.eq_dec s i) as [->|Hne]; [left; reflexivity|].
      right. apply IH. lia. }
    apply Hg. lia.
  Qed.
  Lemma inact_boundsb_sound f st : inact_boundsb f st = true -> InactBounds E f st.
  Proof.
    unfold inact_boundsb. intros H. repeat (apply andb_prop in H; destruct H as [H ?]).
    constructor.
    - apply N.ltb_lt. assumption.
    - apply N.eqb_neq. apply negb_true_iff. assumption.
    - intros i Hi. rewrite forallb_forall in H0. apply N.ltb_lt. apply H0. apply in_indices. exact Hi.
  Qed.

  Lemma rows_okb_sound B r0 p0 r1 p1 r2 p2 r3 p3 :
    rows_okb B r0 p0 r1 p1 r2 p2 r3 p3 = true -> rows_ok B r0 p0 r1 p1 r2 p2 r3 p3.
  Proof.
    unfold rows_okb, rows_ok. intros H j Hj. rewrite forallb_forall in H. apply H. apply in_seq. lia.
  Qed.
  Lemma no_mid_saturationb_sound f st : no_mid_saturationb E f st = true -> NoMidSaturation E f st.
  Proof.
    unfold no_mid_saturationb, NoMidSaturation, with_spec_deltas.
    destruct (get_flag_index_deltas E st 0); [|trivial]. destruct (get_flag_index_deltas E st 1); [|trivial].
    destruct (get_flag_index_deltas E st 2); [|trivial]. destruct (get_inactivity_penalty_deltas E f st); [|trivial].
    apply rows_okb_sound.
  Qed.

  (* the attester data zrnt computes from the fresh context *)
  Lemma fresh_ad_matches st : altair_hypsb st = true ->
    exists ad, compute_epoch_attester_data c (fresh_epc st) (flatten_validators (validators st)) st = Some ad /\ ad_matches E st ad.
  Proof.
    intros H. destruct (attester_data_refines E st (fresh_epc st) (altair_hypsb_sound st H)) as [ad [H1 [H2 [H3 [H4 [H5 [H6 _]]]]]]].
    exists ad. split; [exact H1|]. repeat split; assumption.
  Qed.

  (* all hypotheses of altair_rewards_refines at once *)
  Definition altair_rewards_hypsb (f : fork) (st : BeaconState) : bool :=
    altair_hypsb st && (cp_epoch (finalized_checkpoint st) <=? get_previous_epoch E st) &&
    flag_boundsb st 0 && flag_boundsb st 1 && flag_boundsb st 2 && inact_boundsb f st && no_mid_saturationb E f st.

  Theorem altair_rewards_refines_checked (f : fork) (st : BeaconState) :
    f <> Phase0 -> altair_rewards_hypsb f st = true ->
    exists ad, compute_epoch_attester_data c (fresh_epc st) (flatten_validators (validators st)) st = Some ad /\
               process_epoch_rewards_and_penalties c f (fresh_epc st) ad st = Epoch.process_rewards_and_penalties E f st.
  Proof.
    intros Hf H. unfold altair_rewards_hypsb in H.
    apply andb_prop in H; destruct H as [H H0]. apply andb_prop in H; destruct H as [H H1].
    apply andb_prop in H; destruct H as [H H2]. apply andb_prop in H; destruct H as [H H3].
    apply andb_prop in H; destruct H as [H H4]. apply andb_prop in H; destruct H as [H H5].
    destruct (fresh_ad_matches st H) as [ad [Had Hm]]. exists ad. split; [exact Had|].
    apply altair_rewards_refines; try assumption.
    - apply altair_hypsb_sound. exact H.
    - apply N.leb_le. assumption.
    - apply flag_boundsb_sound. assumption.
    - apply flag_boundsb_sound. assumption.
    - apply flag_boundsb_sound. assumption.
    - apply inact_boundsb_sound. assumption.
    - apply no_mid_saturationb_sound. assumption.
  Qed.
End Check.
