(* C01/C03 — phase0.ProcessDeposit / ProcessDeposits (zrnt) against process_deposit / the deposit-count rule (Spec).

     process_deposit_refines      Impl = Spec (Ok/Err alike): pubkey-cache lookup = first registry index with that
                                  pubkey; new-validator append incl. the altair lists; invalid proof of possession
                                  skips the deposit on both sides
     expected_deposit_count_ok    zrnt's expected count = min(MAX_DEPOSITS, deposit_count - eth1_deposit_index)
                                  PROVIDED eth1_deposit_index <= deposit_count
     process_deposits_count_rejects    the count check of the REPAIRED code (/repo 9bd2c6a) is the spec's rule: a wrong number of
                                  deposits, or deposit_count < eth1_deposit_index, is an error
     deposit_count_underflow_refuted   PINNED SNAPSHOT (`process_deposits_orig`): for deposit_count < eth1_deposit_index the
                                  uint64 subtraction wrapped, the expected count became MAX_DEPOSITS and a block carrying
                                  MAX_DEPOSITS provable deposits was ACCEPTED, while the spec rejects every block there *)
From Coq Require Import String.
From Coq Require Import NArith ZArith Lia List Bool.
From Coq Require Import ZifyN ZifyNat ZifyBool.
From RecordUpdate Require Import RecordSet.
From V Require Import Base.U64 Base.Outcome Ssz.SszCore Beacon.Config Beacon.Schemas Beacon.State
  Beacon.Spec.Helpers Beacon.Spec.Epoch Beacon.Spec.Block Beacon.Impl.BlockOps
  Beacon.Refine.BlockLemmas Beacon.Refine.BlockEpc Beacon.Refine.BlockFixtures Beacon.Refine.RejectRules.
Import ListNotations RecordSetNotations.
Local Open Scope list_scope.
Local Open Scope N_scope.

Lemma find_pubkey_lt' pk vs r : find_pubkey pk vs 0 = Some r -> r < N.of_nat (length vs).
Proof.
  intros H. apply find_pubkey_spec in H. destruct H as (k & v & -> & Hk & _).
  assert (nth_error vs k <> None) by congruence. apply nth_error_Some in H. lia.
Qed.

Section Deposit.
  Variable E : Env.
  Variable f : fork.
  Let c := cfg E.

  (* room for one more registry entry, all per-validator lists as long as the registry *)
  Record registry_room (st : BeaconState) : Prop := mkRoom {
    rr_vals : N.of_nat (length (validators st)) < VALIDATOR_REGISTRY_LIMIT c;
    rr_bals : length (balances st) = length (validators st);
    rr_prev : fork_ge f Altair = true -> length (previous_epoch_participation st) = length (validators st);
    rr_cur : fork_ge f Altair = true -> length (current_epoch_participation st) = length (validators st);
    rr_inact : fork_ge f Altair = true -> length (inactivity_scores st) = length (validators st)
  }.

  Lemma add_validator_refines st pubkey wc amount :
    0 < EFFECTIVE_BALANCE_INCREMENT c -> registry_room st ->
    add_validator_impl E f st pubkey wc amount = Ok (add_validator_to_registry E f st pubkey wc amount).
  Proof.
    intros HI [Hv Hb Hp Hc Hi]. unfold add_validator_impl, add_validator_to_registry, get_validator_from_deposit. fold c.
    assert (H0 : (EFFECTIVE_BALANCE_INCREMENT c =? 0) = false) by (apply N.eqb_neq; lia). rewrite H0.
    assert (Hv' : (N.of_nat (length (validators st)) <? VALIDATOR_REGISTRY_LIMIT c) = true) by (apply N.ltb_lt; exact Hv).
    rewrite Hv', Hb, Hv'. cbn [check bind].
    replace (if MAX_EFFECTIVE_BALANCE c <? amount - amount mod EFFECTIVE_BALANCE_INCREMENT c
             then MAX_EFFECTIVE_BALANCE c else amount - amount mod EFFECTIVE_BALANCE_INCREMENT c)
      with (N.min (amount - amount mod EFFECTIVE_BALANCE_INCREMENT c) (MAX_EFFECTIVE_BALANCE c))
      by (destruct (N.ltb_spec (MAX_EFFECTIVE_BALANCE c) (amount - amount mod EFFECTIVE_BALANCE_INCREMENT c)); lia).
    destruct (fork_ge f Altair) eqn:Hf; [|reflexivity].
    simpl_set. rewrite (Hp eq_refl), (Hc eq_refl), (Hi eq_refl), Hv'. cbn [check bind]. reflexivity.
  Qed.

  Theorem process_deposit_refines st epc dep :
    0 < EFFECTIVE_BALANCE_INCREMENT c -> registry_room st ->
    (forall pk, be_pubkey_index epc pk = find_pubkey pk (validators st) 0) ->       (* epc_ok: the pubkey cache *)
    eth1_deposit_index st + 1 < two64 ->
    (forall x, In x (balances st) -> x < 2 ^ 63) -> vuint (vfield (vfield dep 1) 2) < 2 ^ 63 ->
    process_deposit_impl E f epc st dep = match process_deposit E f st dep with Some s => Ok s | None => Err end.
  Proof.
    intros HI Hroom Hpk Hidx Hbal Hamt. unfold process_deposit_impl, process_deposit. cbv zeta. fold c.
    destruct (is_valid_merkle_branch E _ _ _ _ _); [|reflexivity]. cbn [check bind].
    rewrite add64_small by exact Hidx. simpl_set. rewrite Hpk.
    unfold apply_deposit. simpl_set. fold c.
    destruct (find_pubkey (vbytes (vfield (vfield dep 1) 0)) (validators st) 0) as [i|] eqn:Hfind.
    - pose proof (find_pubkey_lt' _ _ _ Hfind) as Hi. apply N.ltb_lt in Hi. rewrite Hi.
      apply N.ltb_lt in Hi. assert (Hib : i < N.of_nat (length (balances st))) by (rewrite (rr_bals st Hroom); exact Hi).
      destruct (nthN_lt_Some _ _ Hib) as [x Hx].
      assert (Hxb : x < 2 ^ 63) by (apply Hbal; rewrite nthN_eq in Hx; eapply nth_error_In; exact Hx).
      change (2 ^ 63) with 9223372036854775808 in *.
      unfold go_increase_balance. rewrite Hx, add64_small by (unfold two64; lia).
      rewrite (setN_updN (balances st) i (fun b => b + vuint (vfield (vfield dep 1) 2)) x Hx). cbn [bind]. reflexivity.
    - destruct (bls_verify E _ _ _); [|reflexivity].
      rewrite add_validator_refines; [reflexivity|exact HI|].
      destruct Hroom. constructor; simpl_set; assumption.
  Qed.

  (* ---------- the deposit count ---------- *)
  Lemma expected_deposit_count_ok st :
    eth1_deposit_index st <= e_deposit_count (eth1_data st) ->
    expected_deposit_count_impl E st = N.min (MAX_DEPOSITS c) (e_deposit_count (eth1_data st) - eth1_deposit_index st).
  Proof.
    intros H. unfold expected_deposit_count_impl. fold c. rewrite sub64_ge by exact H.
    destruct (N.ltb_spec (MAX_DEPOSITS c) (e_deposit_count (eth1_data st) - eth1_deposit_index st)); lia.
  Qed.
  (* the count check of the repaired code is the spec's rule *)
  Lemma process_deposits_count_rejects st epc_of deps :
    (N.of_nat (length deps) <> N.min (MAX_DEPOSITS c) (e_deposit_count (eth1_data st) - eth1_deposit_index st)
     \/ e_deposit_count (eth1_data st) < eth1_deposit_index st) ->
    process_deposits_impl E f epc_of st deps = Err.
  Proof.
    intros H. unfold process_deposits_impl.
    destruct (N.leb_spec (eth1_deposit_index st) (e_deposit_count (eth1_data st))) as [Hle|Hgt]; cbn [check bind]; [|reflexivity].
    unfold process_deposits_orig. rewrite expected_deposit_count_ok by exact Hle.
    destruct H as [H|H]; [|lia]. apply N.eqb_neq in H. rewrite H. reflexivity.
  Qed.
End Deposit.

(* ---------- FINDING: deposit_count < eth1_deposit_index ---------- *)
(* state: deposit_count 3, eth1_deposit_index 5, deposit root = the (constant) hash; block: MAX_DEPOSITS = 16 top-ups of
   validator 0 whose Merkle branches verify.  zrnt: 3 - 5 wraps to 2^64 - 2, expected count = 16, all accepted. *)
Definition dw_state : BeaconState :=
  (fx_state 9 [fx_validator 0 false (32 * GWEI_ETH) false 0 FAR_FUTURE_EPOCH FAR_FUTURE_EPOCH] [32 * GWEI_ETH])
    <| eth1_data := mkEth1Data z32 3 z32 |> <| eth1_deposit_index := 5 |>.
Definition dw_deposit : value :=
  VCont [VSeq (repeat (VBytes z32) 33); VCont [VBytes [0]; VBytes z32; VUint GWEI_ETH; VBytes (repeat 0 96)]].
Definition dw_deposits : list value := repeat dw_deposit 16.

Example deposit_count_underflow_refuted :
  (* the spec rejects every block body in this state ... *)
  (forall f body, process_operations blk_env f dw_state body = None)
  (* ... the pinned snapshot's ProcessDeposits accepted these 16 deposits and credited them ... *)
  /\ option_map (fun s => (balances s, eth1_deposit_index s))
       (match process_deposits_orig blk_env Altair (spec_epc blk_env) dw_state dw_deposits with Ok s => Some s | _ => None end)
     = Some ([48 * GWEI_ETH], 21)
  (* ... and the repaired code refuses them *)
  /\ process_deposits_impl blk_env Altair (spec_epc blk_env) dw_state dw_deposits = Err.
Proof.
  split; [|split].
  - intros f body. apply process_operations_deposit_count_rejects. right. vm_compute. reflexivity.
  - vm_compute. reflexivity.
  - vm_compute. reflexivity.
Qed.
