(* Concrete witnesses for the registry refinement: non-vacuity of the hypotheses and the refutation of the
   pinned snapshot's exit-queue scan. *)
From Coq Require Import NArith ZArith Lia List Bool.
From Coq Require Import ZifyN ZifyNat ZifyBool.
From RecordUpdate Require Import RecordSet.
From V Require Import Base.U64 Beacon.Config Beacon.State Beacon.Spec.Helpers Beacon.Spec.Epoch.
From V Require Import Beacon.Impl.Flat Beacon.Impl.Registry Beacon.Refine.ListLemmas Beacon.Refine.RegistryRefine Beacon.Refine.Fixtures.
Import ListNotations RecordSetNotations.
Local Open Scope N_scope.

Definition FAR := FAR_FUTURE_EPOCH.

(* slot 0 (current epoch 0, activation-exit epoch 5, churn limit 2): validators 0 and 1 are already exiting at
   epochs 7 and 8; validator 2 is active with an effective balance at the ejection balance. *)
Definition reg_witness : BeaconState :=
  state_with 0
    [ mkv (32 * ETH) false 0 0 7 263; mkv (32 * ETH) false 0 0 8 264; mkv (16 * ETH) false 0 0 FAR FAR ]
    [ 32 * ETH; 32 * ETH; 16 * ETH ].

Lemma reg_witness_bounds : RegBounds tiny_cfg (get_current_epoch tiny_env reg_witness) (validators reg_witness).
Proof.
  constructor.
  - discriminate.
  - vm_compute. reflexivity.
  - vm_compute. reflexivity.
  - intros v Hv. cbn in Hv. destruct Hv as [<-|[<-|[<-|[]]]]; [right|right|left]; vm_compute; reflexivity.
Qed.

(* The pinned snapshot counted the exit at epoch 7 into the churn of epoch 8: it reports the queue end full
   (2 >= churn limit 2) and sends the ejected validator to epoch 9; the spec (one exit at epoch 8) says 8. *)
Theorem registry_orig_refuted :
  exists st : BeaconState,
    let ce := get_current_epoch tiny_env st in
    RegBounds tiny_cfg ce (validators st) /\
    cp_epoch (finalized_checkpoint st) <= ce /\
    exists a b,
      process_registry_updates_orig tiny_cfg Phase0 ce (flatten_validators (validators st)) st = Some a /\
      Epoch.process_registry_updates tiny_env Phase0 st = Some b /\
      map v_exit_epoch (validators a) = [7; 8; 9] /\
      map v_exit_epoch (validators b) = [7; 8; 8] /\
      exit_scan_orig tiny_cfg (flatten_validators (validators st)) ce = (8, 2) /\
      exit_scan tiny_cfg (flatten_validators (validators st)) ce = (8, 1).
Proof.
  exists reg_witness. split; [exact reg_witness_bounds|]. split; [vm_compute; discriminate|].
  eexists. eexists. repeat split; vm_compute; reflexivity.
Qed.

(* the repaired scan agrees with the spec on the same state (instance of registry_refines, recomputed) *)
Example registry_fixed_on_witness :
  option_map (fun s => map v_exit_epoch (validators s))
    (Registry.process_registry_updates tiny_cfg Phase0 0 (flatten_validators (validators reg_witness)) reg_witness) = Some [7; 8; 8].
Proof. vm_compute. reflexivity. Qed.

(* Non-vacuity: a state satisfying every hypothesis of registry_refines on which all three loops do work:
   current epoch 10, finalized epoch 8; exits at 15 (x2 = churn limit) so the queue end is full;
   two ejections (indices 2 and 3: the first takes epoch 16 slot 1, the second fills it),
   one validator becoming eligible (index 4), three waiting for activation with eligibility epochs 7, 9 and 7
   (index 6 is beyond the finalized epoch: the early break; 5 and 7 are activated, in the order 5, 7). *)
Definition reg_example : BeaconState :=
  (state_with 80
    [ mkv (32 * ETH) false 0 0 15 271; mkv (32 * ETH) false 0 0 15 271;
      mkv (16 * ETH) false 0 0 FAR FAR; mkv (15 * ETH) false 0 0 FAR FAR;
      mkv (32 * ETH) false FAR FAR FAR FAR;
      mkv (32 * ETH) false 7 FAR FAR FAR; mkv (32 * ETH) false 9 FAR FAR FAR; mkv (32 * ETH) false 7 FAR FAR FAR ]
    (repeat (32 * ETH) 8)) <| finalized_checkpoint := cp0 8 |>.

Example registry_nonvacuous :
  let ce := get_current_epoch tiny_env reg_example in
  RegBounds tiny_cfg ce (validators reg_example) /\
  cp_epoch (finalized_checkpoint reg_example) <= ce /\
  option_map (fun s => map (fun v => (v_activation_eligibility_epoch v, v_activation_epoch v, v_exit_epoch v)) (validators s))
    (Epoch.process_registry_updates tiny_env Phase0 reg_example)
  = Some [ (0, 0, 15); (0, 0, 15); (0, 0, 16); (0, 0, 16); (11, FAR, FAR); (7, 15, FAR); (9, FAR, FAR); (7, 15, FAR) ].
Proof.
  split; [|split].
  - constructor.
    + discriminate.
    + vm_compute. reflexivity.
    + vm_compute. reflexivity.
    + intros v Hv. cbn in Hv.
      repeat (destruct Hv as [<-|Hv]; [first [right; vm_compute; reflexivity | left; vm_compute; reflexivity]|]). destruct Hv.
  - vm_compute. discriminate.
  - vm_compute. reflexivity.
Qed.

Print Assumptions registry_refines.
Print Assumptions eject_batch_refines.
Print Assumptions activation_queue_prefix.
Print Assumptions exit_scan_spec.
Print Assumptions registry_orig_refuted.
