(* Refinement: zrnt's ProcessEpochJustification (bits in a byte, shifts and masks, one pending checkpoint pointer)
   = the spec's weigh_justification_and_finalization (bit list, sequential state updates). *)
From Coq Require Import NArith ZArith Lia List Bool.
From Coq Require Import ZifyN ZifyNat ZifyBool.
From RecordUpdate Require Import RecordSet.
From V Require Import Base.U64 Ssz.SszCore Beacon.Config Beacon.State Beacon.Spec.Helpers Beacon.Spec.Epoch.
From V Require Import Beacon.Impl.Justification Beacon.Refine.Fixtures.
Import ListNotations RecordSetNotations.
Local Open Scope N_scope.
Ltac Zify.zify_post_hook ::= Z.div_mod_to_equations.

Lemma two64_val' : two64 = 18446744073709551616. Proof. reflexivity. Qed.
Lemma add64_small' a b : a + b < two64 -> add64 a b = a + b.
Proof. intros H. unfold add64. apply wrap64_small. exact H. Qed.
Lemma mul64_small a b : a * b < two64 -> mul64 a b = a * b.
Proof. intros H. unfold mul64. apply wrap64_small. exact H. Qed.

(* Hypotheses: all of them hold in every state reachable at an epoch boundary under a sane configuration.
   The two `in range` clauses are the spec's own assertion inside get_block_root_at_slot (zrnt's GetRoot does not
   check it: outside the range the spec rejects while zrnt reads the vector modulo its length). *)
Record JustHyps (E : Env) (st : BeaconState) (d : JustificationStakeData) : Prop := mkJustHyps {
  jh_epoch : js_current_epoch d = get_current_epoch E st;
  jh_bits : length (justification_bits st) = 4%nat;
  jh_spe : SLOTS_PER_EPOCH (cfg E) <> 0;
  jh_sphr : SLOTS_PER_HISTORICAL_ROOT (cfg E) <> 0;
  jh_start : get_current_epoch E st * SLOTS_PER_EPOCH (cfg E) < two64;
  jh_range_prev : compute_start_slot_at_epoch E (get_previous_epoch E st) < slot st
                  /\ slot st <= compute_start_slot_at_epoch E (get_previous_epoch E st) + SLOTS_PER_HISTORICAL_ROOT (cfg E);
  jh_range_cur : compute_start_slot_at_epoch E (get_current_epoch E st) < slot st
                 /\ slot st <= compute_start_slot_at_epoch E (get_current_epoch E st) + SLOTS_PER_HISTORICAL_ROOT (cfg E);
  jh_total : js_total_active_stake d * 2 < two64;
  jh_prev : js_prev_target_stake d * 3 < two64;
  jh_cur : js_curr_target_stake d * 3 < two64;
  jh_cp_prev : cp_epoch (previous_justified_checkpoint st) + 3 < two64;
  jh_cp_cur : cp_epoch (current_justified_checkpoint st) + 2 < two64 }.

Section Just.
  Variable E : Env.
  Notation c := (cfg E).

  Lemma epoch_start_slot_ok e : SLOTS_PER_EPOCH c <> 0 -> e * SLOTS_PER_EPOCH c < two64 ->
    epoch_start_slot_go c e = Some (e * SLOTS_PER_EPOCH c).
  Proof.
    intros H0 Hb. unfold epoch_start_slot_go. destruct (N.eqb_spec (SLOTS_PER_EPOCH c) 0); [contradiction|].
    rewrite mul64_small by exact Hb. rewrite N.div_mul by exact H0. rewrite N.eqb_refl. reflexivity.
  Qed.

  (* both sides read the same vector cell *)
  Lemma block_root_agree st st' e :
    SLOTS_PER_EPOCH c <> 0 -> SLOTS_PER_HISTORICAL_ROOT c <> 0 -> e * SLOTS_PER_EPOCH c < two64 ->
    slot st' = slot st -> block_roots st' = block_roots st ->
    compute_start_slot_at_epoch E e < slot st /\ slot st <= compute_start_slot_at_epoch E e + SLOTS_PER_HISTORICAL_ROOT c ->
    get_block_root E st' e = nthN (block_roots st) (e * SLOTS_PER_EPOCH c mod SLOTS_PER_HISTORICAL_ROOT c) /\
    get_block_root_go c st' e = nthN (block_roots st) (e * SLOTS_PER_EPOCH c mod SLOTS_PER_HISTORICAL_ROOT c).
  Proof.
    intros Hspe Hsphr Hb Hslot Hroots [Hr1 Hr2]. split.
    - unfold get_block_root, get_block_root_at_slot. rewrite Hslot, Hroots.
      unfold compute_start_slot_at_epoch in *.
      destruct (N.ltb_spec (e * SLOTS_PER_EPOCH c) (slot st)); [|lia].
      destruct (N.leb_spec (slot st) (e * SLOTS_PER_EPOCH c + SLOTS_PER_HISTORICAL_ROOT c)); [|lia]. reflexivity.
    - unfold get_block_root_go. rewrite epoch_start_slot_ok by assumption.
      destruct (N.eqb_spec (SLOTS_PER_HISTORICAL_ROOT c) 0); [contradiction|]. rewrite Hroots. reflexivity.
  Qed.

  (* ---- the bit arithmetic, by exhaustive evaluation over the 4 stored bits and the 2 justification outcomes ---- *)
  Definition byte_after (b0 b1 b2 b3 j_prev j_cur : bool) : N :=
    let x := jb_next_epoch (byte_of_bits [b0; b1; b2; b3]) in
    let x := if j_prev then N.lor x 2 else x in
    if j_cur then N.lor x 1 else x.
  Definition list_after (b0 b1 b2 b3 j_prev j_cur : bool) : list bool :=
    let l := false :: firstn 3 [b0; b1; b2; b3] in
    let l := if j_prev then setN l 1 true else l in
    if j_cur then setN l 0 true else l.
  Lemma bits_agree b0 b1 b2 b3 j_prev j_cur :
    let x := byte_after b0 b1 b2 b3 j_prev j_cur in
    let l := list_after b0 b1 b2 b3 j_prev j_cur in
    bits_of_byte 4 x = l /\
    jb_is_justified x [1; 2; 3] = nth 1 l false && nth 2 l false && nth 3 l false /\
    jb_is_justified x [1; 2] = nth 1 l false && nth 2 l false /\
    jb_is_justified x [0; 1; 2] = nth 0 l false && nth 1 l false && nth 2 l false /\
    jb_is_justified x [0; 1] = nth 0 l false && nth 1 l false.
  Proof. destruct b0, b1, b2, b3, j_prev, j_cur; vm_compute; repeat split; reflexivity. Qed.

  (* the spec's four sequential finalization rules as one pending checkpoint *)
  Definition spec_fin (l : list bool) (old_prev old_cur : Checkpoint) (ce : N) : option Checkpoint :=
    let b i := nth i l false in
    let r := None in
    let r := if b 1%nat && b 2%nat && b 3%nat && (cp_epoch old_prev + 3 =? ce) then Some old_prev else r in
    let r := if b 1%nat && b 2%nat && (cp_epoch old_prev + 2 =? ce) then Some old_prev else r in
    let r := if b 0%nat && b 1%nat && b 2%nat && (cp_epoch old_cur + 2 =? ce) then Some old_cur else r in
    let r := if b 0%nat && b 1%nat && (cp_epoch old_cur + 1 =? ce) then Some old_cur else r in
    r.
  Definition spec_tail (st : BeaconState) (l : list bool) (old_prev old_cur : Checkpoint) (ce : N) : BeaconState :=
    let st := st <| justification_bits := l |> in
    let b i := nth i l false in
    let st := if b 1%nat && b 2%nat && b 3%nat && (cp_epoch old_prev + 3 =? ce) then st <| finalized_checkpoint := old_prev |> else st in
    let st := if b 1%nat && b 2%nat && (cp_epoch old_prev + 2 =? ce) then st <| finalized_checkpoint := old_prev |> else st in
    let st := if b 0%nat && b 1%nat && b 2%nat && (cp_epoch old_cur + 2 =? ce) then st <| finalized_checkpoint := old_cur |> else st in
    let st := if b 0%nat && b 1%nat && (cp_epoch old_cur + 1 =? ce) then st <| finalized_checkpoint := old_cur |> else st in
    st.
  Lemma spec_tail_fin st l old_prev old_cur ce :
    spec_tail st l old_prev old_cur ce =
    (match spec_fin l old_prev old_cur ce with Some cp => st <| finalized_checkpoint := cp |> | None => st end)
      <| justification_bits := l |>.
  Proof.
    unfold spec_tail, spec_fin.
    destruct (nth 1 l false && nth 2 l false && nth 3 l false && (cp_epoch old_prev + 3 =? ce));
    destruct (nth 1 l false && nth 2 l false && (cp_epoch old_prev + 2 =? ce));
    destruct (nth 0 l false && nth 1 l false && nth 2 l false && (cp_epoch old_cur + 2 =? ce));
    destruct (nth 0 l false && nth 1 l false && (cp_epoch old_cur + 1 =? ce)); reflexivity.
  Qed.
  Lemma to_finalize_spec_fin b0 b1 b2 b3 j_prev j_cur old_prev old_cur ce :
    cp_epoch old_prev + 3 < two64 -> cp_epoch old_cur + 2 < two64 ->
    to_finalize (byte_after b0 b1 b2 b3 j_prev j_cur) old_prev old_cur ce =
    spec_fin (list_after b0 b1 b2 b3 j_prev j_cur) old_prev old_cur ce.
  Proof.
    intros H1 H2. unfold to_finalize, spec_fin.
    destruct (bits_agree b0 b1 b2 b3 j_prev j_cur) as [_ [E1 [E2 [E3 E4]]]]. cbv zeta in E1, E2, E3, E4.
    rewrite E1, E2, E3, E4. rewrite !add64_small' by lia. reflexivity.
  Qed.

  Theorem justification_weigh_refines (st : BeaconState) (d : JustificationStakeData) :
    JustHyps E st d ->
    GENESIS_EPOCH + 1 < get_current_epoch E st ->
    process_epoch_justification c d st =
    weigh_justification_and_finalization E st (js_total_active_stake d) (js_prev_target_stake d) (js_curr_target_stake d).
  Proof.
    intros [Hep Hbits Hspe Hsphr Hstart Hrp Hrc Htot Hprev Hcur Hcpp Hcpc] Hgen.
    unfold process_epoch_justification, weigh_justification_and_finalization.
    rewrite Hep. set (ce := get_current_epoch E st) in *.
    assert (Hpe : epoch_previous ce = get_previous_epoch E st).
    { unfold epoch_previous, get_previous_epoch. fold ce. reflexivity. }
    rewrite Hpe. set (pe := get_previous_epoch E st) in *.
    destruct (N.leb_spec ce (GENESIS_EPOCH + 1)) as [Hle|_]; [lia|].
    assert (Hpe_le : pe <= ce).
    { unfold pe, get_previous_epoch. fold ce. destruct (ce =? GENESIS_EPOCH); unfold GENESIS_EPOCH; lia. }
    set (old_prev := previous_justified_checkpoint st) in *.
    set (old_cur := current_justified_checkpoint st) in *.
    set (st1 := st <| previous_justified_checkpoint := old_cur |>).
    unfold justify_step.
    rewrite !mul64_small by assumption.
    (* the block-root lookups *)
    destruct (block_root_agree st st1 pe Hspe Hsphr ltac:(nia) eq_refl eq_refl Hrp) as [Hs1 Hi1].
    destruct (block_root_agree st st1 ce Hspe Hsphr Hstart eq_refl eq_refl Hrc) as [Hs2' Hi2].
    assert (Hs2 : forall x, get_block_root E (st1 <| current_justified_checkpoint := x |>) ce =
                            nthN (block_roots st) (ce * SLOTS_PER_EPOCH c mod SLOTS_PER_HISTORICAL_ROOT c)).
    { intros x. apply (block_root_agree st (st1 <| current_justified_checkpoint := x |>) ce Hspe Hsphr Hstart eq_refl eq_refl Hrc). }
    rewrite Hs1, Hi1, Hi2.
    generalize dependent (nthN (block_roots st) (pe * SLOTS_PER_EPOCH c mod SLOTS_PER_HISTORICAL_ROOT c)).
    generalize dependent (nthN (block_roots st) (ce * SLOTS_PER_EPOCH c mod SLOTS_PER_HISTORICAL_ROOT c)).
    intros r2 Hs2' Hi2 Hs2 r1 Hs1 Hi1.
    (* the four stored bits *)
    destruct (justification_bits st) as [|b0 [|b1 [|b2 [|b3 [|? ?]]]]] eqn:Hjb; try discriminate Hbits.
    change (justification_bits st1) with (justification_bits st). rewrite Hjb.
    (* name the spec's tail *)
    assert (Hfinish : forall (j_prev j_cur : bool) (s : BeaconState),
      Some ((match to_finalize (byte_after b0 b1 b2 b3 j_prev j_cur) old_prev old_cur ce with
             | Some cp => s <| finalized_checkpoint := cp |> | None => s end)
              <| justification_bits := bits_of_byte 4 (byte_after b0 b1 b2 b3 j_prev j_cur) |>)
      = Some (spec_tail s (list_after b0 b1 b2 b3 j_prev j_cur) old_prev old_cur ce)).
    { intros j_prev j_cur s. rewrite spec_tail_fin, to_finalize_spec_fin by assumption.
      destruct (bits_agree b0 b1 b2 b3 j_prev j_cur) as [Eb _]. cbv zeta in Eb. rewrite Eb. reflexivity. }
    destruct (js_total_active_stake d * 2 <=? js_prev_target_stake d * 3);
    destruct (js_total_active_stake d * 2 <=? js_curr_target_stake d * 3).
    - destruct r1 as [r1|]; [|reflexivity]. rewrite Hs2. destruct r2 as [r2|]; [|reflexivity].
      exact (Hfinish true true _).
    - destruct r1 as [r1|]; [|reflexivity]. exact (Hfinish true false _).
    - rewrite Hs2'. destruct r2 as [r2|]; [|reflexivity]. exact (Hfinish false true _).
    - exact (Hfinish false false _).
  Qed.

  (* justification_refines: the whole ProcessEpochJustification against the spec's
     process_justification_and_finalization, given that the stake data carries the spec's three balances *)
  Theorem justification_refines (f : fork) (st : BeaconState) (d : JustificationStakeData) (prev_target cur_target : N) :
    JustHyps E st d ->
    js_total_active_stake d = get_total_active_balance E st ->
    js_prev_target_stake d = prev_target -> js_curr_target_stake d = cur_target ->
    process_epoch_justification c d st =
    (if get_current_epoch E st <=? GENESIS_EPOCH + 1 then Some st
     else weigh_justification_and_finalization E st (get_total_active_balance E st) prev_target cur_target).
  Proof.
    intros H Ht Hp Hc. destruct (N.leb_spec (get_current_epoch E st) (GENESIS_EPOCH + 1)) as [Hle|Hgt].
    - unfold process_epoch_justification. rewrite (jh_epoch _ _ _ H).
      destruct (N.leb_spec (get_current_epoch E st) (GENESIS_EPOCH + 1)); [reflexivity|lia].
    - rewrite (justification_weigh_refines st d H Hgt), Ht, Hp, Hc. reflexivity.
  Qed.
End Just.

(* Non-vacuity: end of epoch 3 (slot 31), bits 0b0011, previous justified epoch 1, current justified epoch 2;
   both targets reach 2/3, so the bits become 0b0111, the current justified checkpoint moves to epoch 3 and
   epoch 2 is finalized (rule "1st/2nd most recent justified, 1st using 2nd as source"). *)
Definition just_example : BeaconState :=
  (state_with 31 [] []) <| justification_bits := [true; true; false; false] |>
     <| previous_justified_checkpoint := cp0 1 |> <| current_justified_checkpoint := cp0 2 |> <| finalized_checkpoint := cp0 1 |>.
Definition just_example_data : JustificationStakeData := mkJustData 3 (96 * ETH) (64 * ETH) (64 * ETH).
Example justification_nonvacuous :
  JustHyps tiny_env just_example just_example_data /\
  option_map (fun s => (justification_bits s, cp_epoch (current_justified_checkpoint s), cp_epoch (finalized_checkpoint s)))
    (process_epoch_justification tiny_cfg just_example_data just_example) = Some ([true; true; true; false], 3, 2).
Proof.
  split; [|vm_compute; reflexivity].
  constructor; try (vm_compute; reflexivity); try discriminate; vm_compute; split; congruence.
Qed.
Print Assumptions justification_refines.
