(* C01 / C03 — ASSEMBLY: zrnt's ProcessBlock (per fork, in zrnt's order, CheckLimits after the eth1 vote, pubkey cache
   extended by deposits) against the Spec's process_block.

     process_block_refines_partial :  process_block_impl E f epc2 st0 blk
                                      = match process_block E f st0 blk with Some s => Ok s | None => Err end
   hence  block_refines   Spec accepts with st'  ->  Impl = Ok st'            (C01)
          reject_refines  Spec rejects            ->  Impl = Err              (C03)
          transition_no_panic   Impl never yields Panic / Blocked / OutOfFuel (C03)

   DISCHARGED from one pre-state invariant: the agreement of the EpochsContext with every intermediate state
   (epc2_ok, by Block2Carry from the C08 block frame), the list-length invariants (lengths_inv, Beacon/Proofs/Lengths.v),
   the vector lengths and the pubkey cache (Block2Frame).  In particular the `Inv` hypothesis of
   attester_slashing_refines_partial is instantiated here.
   STAYS A HYPOTHESIS (`envelope`): a predicate P of "numerically tame" states, true of the pre-state, closed under the spec's
   steps of this block, and implying the side conditions `side_ok` (no uint64 wrap: st_bounds; room in bounded lists; C07's
   duplicate-free committees; hash-tree-root comparisons decide value equality for the three pairs zrnt compares by root).
   It cannot be derived: balances grow by rewards and by deposit amounts that the block chooses. *)
From Coq Require Import String NArith ZArith List Bool Lia.
From Coq Require Import ZifyN ZifyNat ZifyBool.
From RecordUpdate Require Import RecordSet.
From V Require Import Base.U64 Base.Outcome Ssz.SszCore Beacon.Config Beacon.Schemas Beacon.State
  Beacon.Spec.Helpers Beacon.Spec.Epoch Beacon.Spec.Block Beacon.Spec.Transition
  Beacon.Impl.BlockOps Beacon.Impl.Block2Ops
  Beacon.Proofs.ListFacts Beacon.Proofs.Frame Beacon.Proofs.Lengths Beacon.Proofs.Stability Beacon.Proofs.EpcInv
  Beacon.Refine.BlockLemmas Beacon.Refine.BlockEpc Beacon.Refine.RejectRules Beacon.Refine.BlockProposer
  Beacon.Refine.BlockSyncRefine Beacon.Refine.BlockExitRefine Beacon.Refine.BlockSlashRefine Beacon.Refine.BlockAttSlashRefine Beacon.Refine.BlockAttRefine
  Beacon.Refine.BlockDepositRefine Beacon.Refine.BlockWithdrawRefine Beacon.Refine.BlockHeaderRefine
  Beacon.Refine.Block2Refine Beacon.Refine.Block2AttRefine Beacon.Refine.Block2Frame Beacon.Refine.Block2Carry.
Import ListNotations RecordSetNotations.
Local Open Scope string_scope.
Local Open Scope list_scope.
Local Open Scope N_scope.

(* ---------- lifting an operation's refinement to the operation list ---------- *)
Lemma for_ops_impl_none_acc {o : outcome BeaconState} ops (fn : BeaconState -> value -> outcome BeaconState) :
  (forall g, bind o g = o) -> fold_left (fun acc op => bind acc (fun st => fn st op)) ops o = o.
Proof. intros H. induction ops as [|x ops IH]; [reflexivity|]. cbn [fold_left]. rewrite H. exact IH. Qed.

Lemma for_ops_refines (I : BeaconState -> Prop) (Q : value -> Prop) fn_impl fn_spec :
  (forall s op, I s -> Q op -> fn_impl s op = match fn_spec s op with Some s' => Ok s' | None => Err end) ->
  (forall s op s', I s -> Q op -> fn_spec s op = Some s' -> I s') ->
  forall ops s, I s -> Forall Q ops ->
    for_ops_impl ops fn_impl s = match for_ops ops fn_spec s with Some s' => Ok s' | None => Err end
    /\ forall s', for_ops ops fn_spec s = Some s' -> I s'.
Proof.
  intros Href Hstep. induction ops as [|op ops IH]; intros s Hs Hq.
  - split; [reflexivity|]. intros s' H. rewrite for_ops_nil in H. injection H as <-. exact Hs.
  - inversion Hq as [|? ? Hq1 Hq2]; subst. rewrite for_ops_cons. unfold for_ops_impl. cbn [fold_left bind].
    rewrite (Href s op Hs Hq1). destruct (fn_spec s op) as [s1|] eqn:H1.
    + exact (IH s1 (Hstep s op s1 Hs Hq1 H1) Hq2).
    + split; [|discriminate]. apply (for_ops_impl_none_acc (o := Err)). reflexivity.
Qed.

Section Assembly.
  Variable E : Env.
  Variable f : fork.
  Let c := cfg E.

  (* configuration facts beyond cfg_sane *)
  Record cfg_extra : Prop := mkCfgExtra {
    cx_wf : Config_wf c;
    cx_ephv : 0 < EPOCHS_PER_HISTORICAL_VECTOR c;
    cx_sps_pos : 0 < SECONDS_PER_SLOT c;
    cx_sps_hi : SECONDS_PER_SLOT c <= 2 ^ 20;
    cx_period : EPOCHS_PER_ETH1_VOTING_PERIOD c * SLOTS_PER_EPOCH c < 2 ^ 62;
    cx_min_delay : MIN_ATTESTATION_INCLUSION_DELAY c <= 2 ^ 20;
    cx_scp : SHARD_COMMITTEE_PERIOD c <= 2 ^ 40
  }.

  (* what a decoded block of fork f guarantees, plus the two block-side hash facts *)
  Record block_typed (body : value) : Prop := mkBlockTyped {
    bt_limits : check_limits_impl E f body = Ok tt;
    bt_att_bits : Forall (fun att => N.of_nat (length (vbits (vfield att 0))) <= MAX_VALIDATORS_PER_COMMITTEE c)
                         (vseq (body_get E f body "attestations"));
    bt_dep_amount : Forall (fun dep => vuint (vfield (vfield dep 1) 2) < 2 ^ 63) (vseq (body_get E f body "deposits"));
    bt_sync_bits : fork_ge f Altair = true ->
                   N.of_nat (length (vbits (vfield (body_get E f body "sync_aggregate") 0))) = SYNC_COMMITTEE_SIZE c;
    bt_payload_root : f = Bellatrix -> payload_root_distinct E f body
  }.

  (* side conditions on a state met along the block *)
  Record side_ok (body : value) (s : BeaconState) : Prop := mkSideOk {
    so_bounds : st_bounds E s;
    so_genesis : genesis_time s < 2 ^ 63;
    so_slot : 0 < slot s;
    so_nvals : 0 < N.of_nat (length (validators s));
    so_nwvi : next_withdrawal_validator_index s < N.of_nat (length (validators s));
    so_header_root : header_root_distinct E f s;
    so_votes_room : N.of_nat (length (eth1_data_votes s)) < EPOCHS_PER_ETH1_VOTING_PERIOD c * SLOTS_PER_EPOCH c;
    so_votes_nc : votes_no_collision E (eth1_data_votes s ++ [eth1_of_value (body_get E f body "eth1_data")])
                                     (eth1_of_value (body_get E f body "eth1_data"));
    so_comm : forall att l, In att (vseq (body_get E f body "attestations")) ->
                get_beacon_committee E s (ad_slot (vfield att 1)) (ad_index (vfield att 1)) = Some l ->
                NoDup l /\ N.of_nat (length l) * att_unit E (get_base_reward_per_increment E s) < 2 ^ 63;
    so_pending : f = Phase0 ->
                 N.of_nat (length (current_epoch_attestations s)) < MAX_ATTESTATIONS c * SLOTS_PER_EPOCH c
                 /\ N.of_nat (length (previous_epoch_attestations s)) < MAX_ATTESTATIONS c * SLOTS_PER_EPOCH c;
    so_registry : N.of_nat (length (validators s)) < VALIDATOR_REGISTRY_LIMIT c;
    so_dep_index : eth1_deposit_index s + 1 < two64;
    so_sync_len : fork_ge f Altair = true -> N.of_nat (length (sc_pubkeys (current_sync_committee s))) = SYNC_COMMITTEE_SIZE c
  }.

  (* the numeric envelope: the part of the block-level invariant that is NOT derivable *)
  Definition slashing_ops (body : value) : list value :=
    vseq (body_get E f body "proposer_slashings") ++ vseq (body_get E f body "attester_slashings").
  (* P k: the states allowed at stage k of the block: 0 pre-state, 1 after the header, 2 after the withdrawals,
     3 after the execution payload (or when there is none), 4 after randao, 5 after the eth1 vote and during the operations *)
  Record envelope (P : nat -> BeaconState -> Prop) (blk : value) : Prop := mkEnvelope {
    ev_side : forall k s, P k s -> side_ok (vfield blk 4) s;
    ev_header : forall s s', P 0%nat s -> process_block_header E f s blk = Some s' -> P 1%nat s';
    ev_withdrawals : forall s s', fork_ge f Capella = true -> P 1%nat s -> process_withdrawals E f s (body_get E f (vfield blk 4) "execution_payload") = Some s' -> P 2%nat s';
    ev_payload : forall k s s', fork_ge f Bellatrix = true -> (k = 1 \/ k = 2)%nat -> P k s -> process_execution_payload E f s (vfield blk 4) = Some s' -> P 3%nat s';
    ev_skip : forall s, P 1%nat s -> P 3%nat s;
    ev_randao : forall s s', P 3%nat s -> process_randao E f s (vfield blk 4) = Some s' -> P 4%nat s';
    ev_eth1 : forall s, P 4%nat s -> P 5%nat (process_eth1_data E f s (vfield blk 4));
    ev_slash : forall s i s', P 5%nat s -> slashing_ops (vfield blk 4) <> [] -> slash_validator E f s i None = Some s' -> P 5%nat s';
    ev_att : forall s a s', P 5%nat s -> In a (vseq (body_get E f (vfield blk 4) "attestations")) -> process_attestation E f s a = Some s' -> P 5%nat s';
    ev_dep : forall s d s', P 5%nat s -> In d (vseq (body_get E f (vfield blk 4) "deposits")) -> process_deposit E f s d = Some s' -> P 5%nat s';
    ev_exit : forall s x s', P 5%nat s -> In x (vseq (body_get E f (vfield blk 4) "voluntary_exits")) -> process_voluntary_exit E f s x = Some s' -> P 5%nat s';
    ev_bls : forall s x s', P 5%nat s -> In x (vseq (body_get E f (vfield blk 4) "bls_to_execution_changes")) ->
               process_bls_to_execution_change E s x = Some s' -> P 5%nat s'
  }.

  Variable P : nat -> BeaconState -> Prop.
  Variable st0 : BeaconState.
  Variable epc2 : BlockEpc2.
  Variable blk : value.
  Let body := vfield blk 4.
  Hypothesis Hsane : cfg_sane E.
  Hypothesis Hextra : cfg_extra.
  Hypothesis Henv : envelope P blk.
  Hypothesis Hvec0 : vec_lens E st0.
  Hypothesis Hepc0 : epc2_ok E st0 epc2.

  (* the invariant carried through the block *)
  Definition binv (k : nat) (epc : BlockEpc) (s : BeaconState) : Prop :=
    P k s /\ lengths_inv f s /\ block_frame E st0 s /\ vec_frame st0 s /\ cache_ok s epc /\ same_but_cache epc (e2 epc2).

  Hypothesis HP0 : P 0%nat st0.
  Hypothesis Hlen0 : lengths_inv f st0.

  Lemma far_ok : get_current_epoch E st0 + 1 < FAR_FUTURE_EPOCH.
  Proof.
    pose proof (current_epoch_lt E st0 Hsane (so_bounds body st0 (ev_side P blk Henv 0%nat st0 HP0))) as H.
    change (2 ^ 40) with 1099511627776 in H. unfold FAR_FUTURE_EPOCH. lia.
  Qed.

  Lemma binv0 : binv 0 (e2 epc2) st0.
  Proof.
    unfold binv. split; [exact HP0|]. split; [exact Hlen0|]. split; [apply bk_refl|]. split; [apply vec_frame_refl|].
    split; [|apply sbc_refl]. split.
    - apply (eo_pubkey_index E st0 (e2 epc2) (e2o_base E st0 epc2 Hepc0)).
    - apply (eo_pubkey_of E st0 (e2 epc2) (e2o_base E st0 epc2 Hepc0)).
  Qed.

  (* what the invariant provides to the per-operation theorems *)
  Lemma binv_epc k epc s : binv k epc s -> epc_ok E s epc.
  Proof.
    intros (_ & _ & B & _ & C & S). eapply epc_ok_carry; try eassumption; [apply (cx_wf Hextra)|apply far_ok|apply (e2o_base E st0 epc2 Hepc0)].
  Qed.
  Lemma binv_epc2 k s : binv k (e2 epc2) s -> epc2_ok E s epc2.
  Proof. intros (_ & _ & B & _ & C & _). eapply epc2_ok_carry; try eassumption; [apply (cx_wf Hextra)|apply far_ok]. Qed.
  Lemma binv_vec k epc s : binv k epc s -> vec_lens E s.
  Proof.
    intros (_ & _ & _ & (V1 & V2 & V3) & _). destruct Hvec0 as [W1 W2 W3]. constructor; congruence.
  Qed.
  Lemma binv_side k epc s : binv k epc s -> side_ok body s.
  Proof. intros (Hp & _). apply (ev_side P blk Henv k s Hp). Qed.
  Lemma binv_len k epc s : binv k epc s -> lengths_inv f s.
  Proof. intros (_ & H & _). exact H. Qed.

  (* one spec step that keeps the key list *)
  Lemma binv_step k k' epc s s' : binv k epc s -> P k' s' -> lengths_inv f s' -> block_frame E s s' -> kf s s' -> binv k' epc s'.
  Proof.
    intros (_ & _ & B & V & C & S) Hp Hl B' [V' K']. unfold binv.
    split; [exact Hp|]. split; [exact Hl|]. split; [eapply bk_trans; eassumption|].
    split; [eapply vec_frame_trans; eassumption|]. split; [|exact S]. apply (cache_ok_pk_frame s s' epc K' C).
  Qed.

  (* ---------- stages ---------- *)
  Lemma stage_header epc s :
    binv 0 epc s ->
    process_header_impl E f epc s blk = match process_block_header E f s blk with Some s' => Ok s' | None => Err end
    /\ forall s', process_block_header E f s blk = Some s' -> binv 1 epc s'.
  Proof.
    intros Hi. split.
    - apply process_header_refines. apply (eo_proposer E s epc (binv_epc _ epc s Hi)).
    - intros s' H. apply (binv_step _ _ epc s s' Hi).
      + destruct Hi as (Hp & _). eapply ev_header; eassumption.
      + eapply li_process_block_header; [exact H|apply (binv_len _ epc s Hi)].
      + eapply bk_process_block_header; [exact H|apply bk_refl].
      + eapply kf_process_block_header; [exact H|apply kf_refl].
  Qed.

  Lemma stage_withdrawals epc s :
    let p := body_get E f body "execution_payload" in
    fork_ge f Capella = true -> binv 1 epc s ->
    process_withdrawals_impl E f s p = match process_withdrawals E f s p with Some s' => Ok s' | None => Err end
    /\ forall s', process_withdrawals E f s p = Some s' -> binv 2 epc s'.
  Proof.
    cbv zeta. intros Hfk Hi. pose proof (binv_side _ epc s Hi) as Hs. pose proof (so_bounds body s Hs) as Hb. split.
    - apply process_withdrawals_refines.
      + apply (cs_spe_pos E Hsane).
      + apply (cs_maxwd_pos E Hsane).
      + apply (cs_sweep_hi E Hsane).
      + apply (sb_lens E s Hb).
      + split; [apply (so_nvals body s Hs)|apply (sb_nvals E s Hb)].
      + apply (so_nwvi body s Hs).
      + apply (sb_widx E s Hb).
    - intros s' H. apply (binv_step _ _ epc s s' Hi).
      + destruct Hi as (Hp & _). eapply ev_withdrawals; eassumption.
      + eapply li_process_withdrawals; [exact H|apply (binv_len _ epc s Hi)].
      + eapply bk_process_withdrawals; [exact H|apply bk_refl].
      + eapply kf_process_withdrawals; [exact H|apply kf_refl].
  Qed.

  Lemma stage_payload k epc s :
    fork_ge f Bellatrix = true -> (k = 1 \/ k = 2)%nat -> binv k epc s ->
    process_execution_payload_impl E f s body = match process_execution_payload E f s body with Some s' => Ok s' | None => Err end
    /\ forall s', process_execution_payload E f s body = Some s' -> binv 3 epc s'.
  Proof.
    intros Hfk Hk Hi. pose proof (binv_side _ epc s Hi) as Hs. pose proof (so_bounds body s Hs) as Hb. split.
    - apply process_execution_payload_refines.
      + apply (cs_spe_pos E Hsane).
      + apply (cx_ephv Hextra).
      + apply (vl_mixes E s (binv_vec _ epc s Hi)).
      + apply (cx_sps_pos Hextra).
      + apply (cx_sps_hi Hextra).
      + apply (sb_slot E s Hb).
      + apply (so_genesis body s Hs).
      + apply (so_header_root body s Hs).
    - intros s' H. apply (binv_step _ _ epc s s' Hi).
      + destruct Hi as (Hp & _). eapply ev_payload; eassumption.
      + eapply li_process_execution_payload; [exact H|apply (binv_len _ epc s Hi)].
      + eapply bk_process_execution_payload; [exact H|apply bk_refl].
      + eapply kf_process_execution_payload; [exact H|apply kf_refl].
  Qed.

  Lemma stage_skip epc s : binv 1 epc s -> binv 3 epc s.
  Proof. intros (Hp & R). split; [apply (ev_skip P blk Henv s Hp)|exact R]. Qed.

  Lemma stage_randao epc s :
    binv 3 epc s ->
    process_randao_impl E f epc s body = match process_randao E f s body with Some s' => Ok s' | None => Err end
    /\ forall s', process_randao E f s body = Some s' -> binv 4 epc s'.
  Proof.
    intros Hi. pose proof (binv_epc _ epc s Hi) as He. split.
    - apply process_randao_refines.
      + apply (cs_spe_pos E Hsane).
      + apply (cx_ephv Hextra).
      + apply (vl_mixes E s (binv_vec _ epc s Hi)).
      + apply (eo_proposer E s epc He).
      + apply (eo_pubkey_of E s epc He).
    - intros s' H. apply (binv_step _ _ epc s s' Hi).
      + destruct Hi as (Hp & _). eapply ev_randao; eassumption.
      + eapply li_process_randao; [exact H|apply (binv_len _ epc s Hi)].
      + eapply bk_process_randao; [exact H|apply bk_refl].
      + eapply kf_process_randao; [exact H|apply kf_refl].
  Qed.

  Lemma stage_eth1 epc s :
    binv 4 epc s ->
    process_eth1_vote_impl E f s body = Ok (process_eth1_data E f s body) /\ binv 5 epc (process_eth1_data E f s body).
  Proof.
    intros Hi. pose proof (binv_side _ epc s Hi) as Hs. split.
    - apply process_eth1_vote_refines; [apply (cx_period Hextra)|apply (so_votes_room body s Hs)|apply (so_votes_nc body s Hs)].
    - apply (binv_step _ _ epc s _ Hi).
      + destruct Hi as (Hp & _). apply (ev_eth1 P blk Henv). exact Hp.
      + apply li_process_eth1_data. apply (binv_len _ epc s Hi).
      + apply bk_process_eth1_data. apply bk_refl.
      + apply kf_process_eth1_data. apply kf_refl.
  Qed.

  Lemma binv_slash epc s i s' : slashing_ops body <> [] -> binv 5 epc s -> slash_validator E f s i None = Some s' -> binv 5 epc s'.
  Proof.
    intros Hne Hi H. apply (binv_step _ _ epc s s' Hi).
    - destruct Hi as (Hp & _). eapply ev_slash; eassumption.
    - eapply li_slash_validator; [exact H|apply (binv_len _ epc s Hi)].
    - eapply bk_slash_validator; [exact H|apply bk_refl].
    - eapply kf_slash_validator; [exact H|apply kf_refl].
  Qed.

  Lemma op_proposer_slashing epc s op :
    binv 5 epc s ->
    process_proposer_slashing_impl E f epc s op = match process_proposer_slashing E f s op with Some s' => Ok s' | None => Err end.
  Proof.
    intros Hi. apply process_proposer_slashing_refines; try assumption.
    - apply (binv_epc _ epc s Hi).
    - apply (so_bounds body s (binv_side _ epc s Hi)).
    - apply (vl_slashings E s (binv_vec _ epc s Hi)).
  Qed.
  Lemma step_proposer_slashing epc s op s' :
    slashing_ops body <> [] -> binv 5 epc s -> process_proposer_slashing E f s op = Some s' -> binv 5 epc s'.
  Proof.
    intros Hne Hi H. apply process_proposer_slashing_iff in H. cbv zeta in H.
    destruct H as (_ & _ & _ & p & _ & _ & _ & _ & H). eapply binv_slash; eassumption.
  Qed.

  Lemma op_attester_slashing epc s op :
    slashing_ops body <> [] -> binv 5 epc s ->
    process_attester_slashing_impl E f epc s op = match process_attester_slashing E f s op with Some s' => Ok s' | None => Err end.
  Proof.
    intros Hne Hi. apply (attester_slashing_refines_partial E f epc (binv 5 epc) Hsane).
    - intros x Hx. apply (binv_epc _ epc x Hx).
    - intros x Hx. apply (so_bounds body x (binv_side _ epc x Hx)).
    - intros x Hx. apply (vl_slashings E x (binv_vec _ epc x Hx)).
    - intros x i x' Hx H. eapply binv_slash; eassumption.
    - exact Hi.
  Qed.
  Lemma slash_each_binv epc l : slashing_ops body <> [] -> forall s any r, binv 5 epc s -> slash_each E f s any l = Some r -> binv 5 epc (fst r).
  Proof.
    intros Hne. induction l as [|i l IH]; intros s any r Hi H; cbn [slash_each] in H.
    - injection H as <-. exact Hi.
    - destruct (nthN (validators s) i) as [v|]; [|discriminate].
      destruct (is_slashable_validator v (get_current_epoch E s)).
      + destruct (slash_validator E f s i None) as [s1|] eqn:H1; [|discriminate].
        eapply IH; [|exact H]. eapply binv_slash; eassumption.
      + eapply IH; eassumption.
  Qed.
  Lemma step_attester_slashing epc s op s' :
    slashing_ops body <> [] -> binv 5 epc s -> process_attester_slashing E f s op = Some s' -> binv 5 epc s'.
  Proof.
    intros Hne Hi H. apply process_attester_slashing_iff in H. cbv zeta in H. destruct H as (_ & _ & _ & H).
    apply (slash_each_binv epc _ Hne s false (s', true) Hi H).
  Qed.

  Lemma op_attestation s op :
    In op (vseq (body_get E f body "attestations")) ->
    binv 5 (e2 epc2) s -> N.of_nat (length (vbits (vfield op 0))) <= MAX_VALIDATORS_PER_COMMITTEE c ->
    process_attestation_impl E f epc2 s op = match process_attestation E f s op with Some s' => Ok s' | None => Err end.
  Proof.
    intros Hin Hi Hb. pose proof (binv_side _ _ s Hi) as Hs.
    apply process_attestation_refines; try assumption.
    - apply (binv_epc2 _ s Hi).
    - apply (so_bounds body s Hs).
    - apply (binv_len _ _ s Hi).
    - apply (binv_vec _ _ s Hi).
    - apply (cx_min_delay Hextra).
    - intros l Hl. apply (so_comm body s Hs op l Hin Hl).
    - apply (so_pending body s Hs).
  Qed.
  Lemma step_attestation epc s op s' :
    In op (vseq (body_get E f body "attestations")) -> binv 5 epc s -> process_attestation E f s op = Some s' -> binv 5 epc s'.
  Proof.
    intros Hin Hi H. apply (binv_step _ _ epc s s' Hi).
    - destruct Hi as (Hp & _). eapply ev_att; eassumption.
    - eapply li_process_attestation; [exact H|apply (binv_len _ epc s Hi)].
    - eapply bk_process_attestation; [exact H|apply bk_refl].
    - eapply kf_process_attestation; [exact H|apply kf_refl].
  Qed.

  Lemma op_exit epc s op :
    binv 5 epc s ->
    process_voluntary_exit_impl E f epc s op = match process_voluntary_exit E f s op with Some s' => Ok s' | None => Err end.
  Proof.
    intros Hi. apply process_voluntary_exit_refines; try assumption.
    - apply (binv_epc _ epc s Hi).
    - apply (so_bounds body s (binv_side _ epc s Hi)).
    - apply (cx_scp Hextra).
  Qed.
  Lemma step_exit epc s op s' :
    In op (vseq (body_get E f body "voluntary_exits")) -> binv 5 epc s -> process_voluntary_exit E f s op = Some s' -> binv 5 epc s'.
  Proof.
    intros Hin Hi H. apply (binv_step _ _ epc s s' Hi).
    - destruct Hi as (Hp & _). eapply ev_exit; eassumption.
    - eapply li_process_voluntary_exit; [exact H|apply (binv_len _ epc s Hi)].
    - eapply bk_process_voluntary_exit; [exact H|apply bk_refl].
    - eapply kf_process_voluntary_exit; [exact H|apply kf_refl].
  Qed.
  Lemma step_bls epc s op s' :
    In op (vseq (body_get E f body "bls_to_execution_changes")) -> binv 5 epc s -> process_bls_to_execution_change E s op = Some s' -> binv 5 epc s'.
  Proof.
    intros Hin Hi H. apply (binv_step _ _ epc s s' Hi).
    - destruct Hi as (Hp & _). eapply ev_bls; eassumption.
    - eapply li_process_bls_to_execution_change; [exact H|apply (binv_len _ epc s Hi)].
    - eapply bk_process_bls_to_execution_change; [exact H|apply bk_refl].
    - eapply kf_process_bls_to_execution_change; [exact H|apply kf_refl].
  Qed.

  (* ---------- deposits: the pubkey cache follows the registry ---------- *)
  Lemma find_pubkey_app pk v : forall vs base,
    find_pubkey pk (vs ++ [v]) base
    = match find_pubkey pk vs base with
      | Some i => Some i
      | None => if bytes_eqb (v_pubkey v) pk then Some (base + N.of_nat (length vs)) else None
      end.
  Proof.
    induction vs as [|w vs IH]; intros base; cbn [app find_pubkey length].
    - rewrite N.add_0_r. reflexivity.
    - destruct (bytes_eqb (v_pubkey w) pk); [reflexivity|]. rewrite IH.
      destruct (find_pubkey pk vs (base + 1)); [reflexivity|]. destruct (bytes_eqb (v_pubkey v) pk); [f_equal; lia|reflexivity].
  Qed.
  Lemma cache_ok_add s s' epc v :
    cache_ok s epc -> validators s' = validators s ++ [v] ->
    cache_ok s' (cache_add epc (N.of_nat (length (validators s))) (v_pubkey v)).
  Proof.
    intros [C1 C2] Hv. split.
    - intros pk. cbn [cache_add be_pubkey_index]. rewrite C1, Hv, find_pubkey_app. rewrite N.add_0_l. reflexivity.
    - intros i. cbn [cache_add be_pubkey_of]. rewrite C2, Hv. destruct (N.eqb_spec i (N.of_nat (length (validators s)))) as [->|Hne].
      + rewrite nthN_eq, nth_error_app2 by lia. replace (N.to_nat (N.of_nat (length (validators s))) - length (validators s))%nat with 0%nat by lia.
        reflexivity.
      + destruct (N.lt_ge_cases i (N.of_nat (length (validators s)))) as [Hlt|Hge].
        * rewrite lf_nthN_app_l by exact Hlt. reflexivity.
        * assert (H1 : nthN (validators s) i = None) by (apply nthN_None_ge; exact Hge).
          assert (H2 : nthN (validators s ++ [v]) i = None) by (apply nthN_None_ge; rewrite app_length; cbn [length]; lia).
          rewrite H1, H2. reflexivity.
  Qed.

  (* what a deposit does to the registry: nothing, or one appended validator carrying the deposit's pubkey *)
  Lemma process_deposit_registry s dep s' :
    process_deposit E f s dep = Some s' ->
    validators s' = validators s
    \/ exists v, validators s' = validators s ++ [v] /\ v_pubkey v = vbytes (vfield (vfield dep 1) 0).
  Proof.
    intros H. apply process_deposit_iff in H. cbv zeta in H. destruct H as [_ ->].
    unfold apply_deposit. simpl_set.
    destruct (find_pubkey _ (validators s) 0); [left; reflexivity|].
    destruct (bls_verify E _ _ _); [|left; reflexivity].
    right. eexists. unfold add_validator_to_registry. destruct (fork_ge f Altair); simpl_set; split; reflexivity.
  Qed.

  Lemma stage_deposit epc s dep :
    In dep (vseq (body_get E f body "deposits")) ->
    binv 5 epc s -> vuint (vfield (vfield dep 1) 2) < 2 ^ 63 ->
    match process_deposit E f s dep with
    | Some s' => exists epc', process_deposit_impl2 E f epc s dep = Ok (s', epc') /\ binv 5 epc' s'
    | None => process_deposit_impl2 E f epc s dep = Err
    end.
  Proof.
    intros Hin Hi Ham. pose proof (binv_side _ epc s Hi) as Hs. pose proof (so_bounds body s Hs) as Hb.
    pose proof (binv_len _ epc s Hi) as Hl. destruct Hi as (Hp & _ & B & V & C & S).
    assert (Href : process_deposit_impl E f epc s dep = match process_deposit E f s dep with Some x => Ok x | None => Err end).
    { apply process_deposit_refines.
      - apply (cs_incr_pos E Hsane).
      - destruct Hl as [L1 L2]. constructor; [apply (so_registry body s Hs)|exact L1|..]; intros Hf; apply (L2 Hf).
      - apply C.
      - apply (so_dep_index body s Hs).
      - apply (sb_bal E s Hb).
      - exact Ham. }
    unfold process_deposit_impl2. rewrite Href.
    destruct (process_deposit E f s dep) as [s'|] eqn:H; [|reflexivity]. cbn [bind].
    assert (Hcommon : forall epc', cache_ok s' epc' -> same_but_cache epc' (e2 epc2) -> binv 5 epc' s').
    { intros epc' C' S'. unfold binv. split; [eapply ev_dep; eassumption|]. split; [eapply li_process_deposit; eassumption|].
      split; [eapply bk_process_deposit; eassumption|]. split; [|split; assumption].
      eapply vec_frame_trans; [exact V|]. eapply vf_process_deposit. exact H. }
    destruct (process_deposit_registry s dep s' H) as [Hv|(v & Hv & Hpk)].
    - rewrite Hv, Nat.ltb_irrefl. eexists. split; [reflexivity|]. apply Hcommon; [|exact S].
      destruct C as [C1 C2]. split; intros; rewrite Hv; auto.
    - assert (Hlt : Nat.ltb (length (validators s)) (length (validators s')) = true).
      { apply Nat.ltb_lt. rewrite Hv, app_length. cbn [length]. lia. }
      rewrite Hlt. eexists. split; [reflexivity|]. apply Hcommon.
      + rewrite <- Hpk. apply (cache_ok_add s s' epc v C Hv).
      + eapply sbc_trans; [apply sbc_cache_add|exact S].
  Qed.

  Lemma stage_deposits_fold deps : forall epc s,
    binv 5 epc s -> Forall (fun dep => In dep (vseq (body_get E f body "deposits")) /\ vuint (vfield (vfield dep 1) 2) < 2 ^ 63) deps ->
    match for_ops deps (process_deposit E f) s with
    | Some s' => exists epc', fold_left (fun acc dep => se <~ acc ;; process_deposit_impl2 E f (snd se) (fst se) dep) deps (Ok (s, epc))
                              = Ok (s', epc') /\ binv 5 epc' s'
    | None => fold_left (fun acc dep => se <~ acc ;; process_deposit_impl2 E f (snd se) (fst se) dep) deps (Ok (s, epc)) = Err
    end.
  Proof.
    induction deps as [|dep deps IH]; intros epc s Hi Hq.
    - rewrite for_ops_nil. exists epc. split; [reflexivity|exact Hi].
    - inversion Hq as [|? ? [Hq0 Hq1] Hq2]; subst. rewrite for_ops_cons. cbn [fold_left bind fst snd].
      pose proof (stage_deposit epc s dep Hq0 Hi Hq1) as Hd.
      destruct (process_deposit E f s dep) as [s1|].
      + destruct Hd as (epc1 & -> & Hi1). apply IH; assumption.
      + rewrite Hd. clear. induction deps as [|x deps IHd]; [reflexivity|]. cbn [fold_left bind]. exact IHd.
  Qed.
End Assembly.

(* ================= the whole block ================= *)
Theorem process_block_refines_partial E f P st0 epc2 blk :
  let body := vfield blk 4 in
  cfg_sane E -> cfg_extra E -> envelope E f P blk -> vec_lens E st0 -> epc2_ok E st0 epc2 -> P 0%nat st0 -> lengths_inv f st0 ->
  block_typed E f body ->
  process_block_impl E f epc2 st0 blk = match process_block E f st0 blk with Some s => Ok s | None => Err end.
Proof.
  cbv zeta. intros Hsane Hextra Henv Hvec0 Hepc0 HP0 Hlen0 Hbt.
  set (body := vfield blk 4) in *.
  assert (I0 : binv E f P st0 epc2 0 (e2 epc2) st0) by (eapply binv0; eassumption).
  unfold process_block_impl, process_block. cbv zeta. fold body.
  (* header *)
  edestruct stage_header with (epc := e2 epc2) (s := st0) as [R1 S1]; try eassumption.
  rewrite R1. clear R1. destruct (process_block_header E f st0 blk) as [s1|]; [|reflexivity]. cbn [bind].
  specialize (S1 s1 eq_refl).
  (* withdrawals / execution payload, by fork *)
  assert (Hpay :
    (match f with
     | Phase0 | Altair => Ok s1
     | Bellatrix => if execution_enabled_impl E f s1 body then process_execution_payload_impl E f s1 body else Ok s1
     | _ => st <~ process_withdrawals_impl E f s1 (body_get E f body "execution_payload") ;; process_execution_payload_impl E f st body
     end)
    = match (match f with
             | Phase0 | Altair => Some s1
             | Bellatrix => if is_execution_enabled E f s1 body then process_execution_payload E f s1 body else Some s1
             | _ => st <- process_withdrawals E f s1 (body_get E f body "execution_payload") ;; process_execution_payload E f st body
             end) with Some s => Ok s | None => Err end
    /\ forall s2, (match f with
             | Phase0 | Altair => Some s1
             | Bellatrix => if is_execution_enabled E f s1 body then process_execution_payload E f s1 body else Some s1
             | _ => st <- process_withdrawals E f s1 (body_get E f body "execution_payload") ;; process_execution_payload E f st body
             end) = Some s2 -> binv E f P st0 epc2 3 (e2 epc2) s2).
  { assert (Hw : fork_ge f Capella = true -> forall s, binv E f P st0 epc2 1 (e2 epc2) s ->
       (st <~ process_withdrawals_impl E f s (body_get E f body "execution_payload") ;; process_execution_payload_impl E f st body)
       = match (st <- process_withdrawals E f s (body_get E f body "execution_payload") ;; process_execution_payload E f st body)
         with Some x => Ok x | None => Err end
       /\ forall s2, (st <- process_withdrawals E f s (body_get E f body "execution_payload") ;; process_execution_payload E f st body) = Some s2
                     -> binv E f P st0 epc2 3 (e2 epc2) s2).
    { intros Hfc s Hs. assert (Hfb : fork_ge f Bellatrix = true) by (destruct f; try discriminate; reflexivity).
      edestruct stage_withdrawals with (epc := e2 epc2) (s := s) as [Ra Sa]; try eassumption. fold body in Ra, Sa.
      rewrite Ra. destruct (process_withdrawals E f s _) as [sa|]; [|split; [reflexivity|discriminate]]. cbn [bind].
      edestruct stage_payload with (k := 2%nat) (epc := e2 epc2) (s := sa) as [Rb Sb]; try eassumption; [right; reflexivity|apply Sa; reflexivity|]. fold body in Rb, Sb.
      rewrite Rb. split; [reflexivity|exact Sb]. }
    assert (Hb : f = Bellatrix -> execution_enabled_impl E f s1 body = is_execution_enabled E f s1 body).
    { intros Hf. apply execution_enabled_refines; [|apply (bt_payload_root E f body Hbt Hf)].
      eapply so_header_root. eapply binv_side; eassumption. }
    assert (Hp : fork_ge f Bellatrix = true -> process_execution_payload_impl E f s1 body
                 = match process_execution_payload E f s1 body with Some x => Ok x | None => Err end
                 /\ forall s2, process_execution_payload E f s1 body = Some s2 -> binv E f P st0 epc2 3 (e2 epc2) s2).
    { intros Hfb. edestruct stage_payload with (k := 1%nat) (epc := e2 epc2) (s := s1) as [Rb Sb]; try eassumption; [left; reflexivity|]. fold body in Rb, Sb. split; assumption. }
    assert (Hsk : binv E f P st0 epc2 3 (e2 epc2) s1) by (eapply stage_skip; eassumption).
    assert (Hw' : fork_ge f Capella = true -> _) by (intros Hfc; exact (Hw Hfc s1 S1)). clear - Hw' Hb Hp Hsk.
    destruct f; try exact (Hw' eq_refl); try (split; [reflexivity|intros s2 [= <-]; exact Hsk]).
    rewrite (Hb eq_refl). destruct (is_execution_enabled E Bellatrix s1 body); [exact (Hp eq_refl)|split; [reflexivity|intros s2 [= <-]; exact Hsk]]. }
  destruct Hpay as [R2 S2]. rewrite R2. clear R2.
  match goal with |- context [match ?x with Some s => Ok s | None => Err end] => destruct x as [s2|]; [|reflexivity] end.
  cbn [bind]. specialize (S2 s2 eq_refl).
  (* randao, eth1 vote, CheckLimits *)
  edestruct stage_randao with (epc := e2 epc2) (s := s2) as [R3 S3]; try eassumption. fold body in R3, S3.
  rewrite R3. clear R3. destruct (process_randao E f s2 body) as [s3|]; [|reflexivity]. cbn [bind]. specialize (S3 s3 eq_refl).
  edestruct stage_eth1 with (epc := e2 epc2) (s := s3) as [R4 S4]; try eassumption. fold body in R4, S4.
  rewrite R4. clear R4. cbn [bind]. rewrite (bt_limits E f body Hbt). cbn [bind].
  set (s4 := process_eth1_data E f s3 body) in *.
  unfold process_operations. cbv zeta.
  (* proposer slashings, attester slashings, attestations *)
  destruct (for_ops_refines (binv E f P st0 epc2 5 (e2 epc2)) (fun op => In op (vseq (body_get E f body "proposer_slashings")))
              (process_proposer_slashing_impl E f (e2 epc2)) (process_proposer_slashing E f)) with
      (ops := vseq (body_get E f body "proposer_slashings")) (s := s4) as [R5 S5]; try assumption.
  { intros s op Hs _. eapply op_proposer_slashing; eassumption. }
  { intros s op s' Hs Hin H. eapply step_proposer_slashing; try eassumption.
    unfold slashing_ops. fold body. intros Hn. apply app_eq_nil in Hn. destruct Hn as [Hn _]. rewrite Hn in Hin. destruct Hin. }
  { apply Forall_forall. intros x Hx; exact Hx. }
  rewrite R5. clear R5.
  assert (D5 : forall s5, for_ops (vseq (body_get E f body "proposer_slashings")) (process_proposer_slashing E f) s4 = Some s5 -> df s4 s5).
  { apply df_for_ops. intros x op x' H. eapply df_process_proposer_slashing; [exact H|apply df_refl]. }
  destruct (for_ops (vseq (body_get E f body "proposer_slashings")) (process_proposer_slashing E f) s4) as [s5|].
  2:{ destruct (_ =? _); [|reflexivity]. destruct (_ <=? _); reflexivity. }
  cbn [bind]. specialize (S5 s5 eq_refl). specialize (D5 s5 eq_refl).
  assert (Hne_as : forall op, In op (vseq (body_get E f body "attester_slashings")) -> slashing_ops E f (vfield blk 4) <> []).
  { intros op Hin. unfold slashing_ops. fold body. intros Hn. apply app_eq_nil in Hn. destruct Hn as [_ Hn]. rewrite Hn in Hin. destruct Hin. }
  destruct (for_ops_refines (binv E f P st0 epc2 5 (e2 epc2)) (fun op => In op (vseq (body_get E f body "attester_slashings")))
              (process_attester_slashing_impl E f (e2 epc2)) (process_attester_slashing E f)) with
      (ops := vseq (body_get E f body "attester_slashings")) (s := s5) as [R6 S6]; try assumption.
  { intros s op Hs Hin. eapply op_attester_slashing; try eassumption. eapply Hne_as; exact Hin. }
  { intros s op s' Hs Hin H. eapply step_attester_slashing; try eassumption. eapply Hne_as; exact Hin. }
  { apply Forall_forall. intros x Hx; exact Hx. }
  rewrite R6. clear R6.
  assert (D6 : forall s6, for_ops (vseq (body_get E f body "attester_slashings")) (process_attester_slashing E f) s5 = Some s6 -> df s5 s6).
  { apply df_for_ops. intros x op x' H. eapply df_process_attester_slashing; [exact H|apply df_refl]. }
  destruct (for_ops (vseq (body_get E f body "attester_slashings")) (process_attester_slashing E f) s5) as [s6|].
  2:{ destruct (_ =? _); [|reflexivity]. destruct (_ <=? _); reflexivity. }
  cbn [bind]. specialize (S6 s6 eq_refl). specialize (D6 s6 eq_refl).
  destruct (for_ops_refines (binv E f P st0 epc2 5 (e2 epc2))
              (fun att => In att (vseq (body_get E f body "attestations"))
                          /\ N.of_nat (length (vbits (vfield att 0))) <= MAX_VALIDATORS_PER_COMMITTEE (cfg E))
              (process_attestation_impl E f epc2) (process_attestation E f)) with
      (ops := vseq (body_get E f body "attestations")) (s := s6) as [R7 S7]; try assumption.
  { intros s op Hs [Hin Hq]. eapply op_attestation; eassumption. }
  { intros s op s' Hs [Hin _] H. eapply step_attestation; eassumption. }
  { pose proof (bt_att_bits E f body Hbt) as Hb. rewrite Forall_forall in Hb. apply Forall_forall. intros x Hx. split; [exact Hx|apply Hb; exact Hx]. }
  rewrite R7. clear R7.
  assert (D7 : forall s7, for_ops (vseq (body_get E f body "attestations")) (process_attestation E f) s6 = Some s7 -> df s6 s7).
  { apply df_for_ops. intros x op x' H. eapply df_process_attestation; [exact H|apply df_refl]. }
  destruct (for_ops (vseq (body_get E f body "attestations")) (process_attestation E f) s6) as [s7|].
  2:{ destruct (_ =? _); [|reflexivity]. destruct (_ <=? _); reflexivity. }
  cbn [bind]. specialize (S7 s7 eq_refl). specialize (D7 s7 eq_refl).
  (* deposits: the count rule is evaluated by zrnt here, by the spec before the slashings - on the same bookkeeping *)
  destruct (df_trans _ _ _ (df_trans _ _ _ D5 D6) D7) as [De Di].
  unfold process_deposits_impl2. rewrite De, Di.
  destruct (N.leb_spec (eth1_deposit_index s4) (e_deposit_count (eth1_data s4))) as [Hle|Hgt]; cbn [check bind].
  2:{ destruct (_ =? _); reflexivity. }
  unfold expected_deposit_count_impl. rewrite De, Di. rewrite sub64_ge by exact Hle.
  replace (if MAX_DEPOSITS (cfg E) <? e_deposit_count (eth1_data s4) - eth1_deposit_index s4
           then MAX_DEPOSITS (cfg E) else e_deposit_count (eth1_data s4) - eth1_deposit_index s4)
    with (N.min (MAX_DEPOSITS (cfg E)) (e_deposit_count (eth1_data s4) - eth1_deposit_index s4))
    by (destruct (N.ltb_spec (MAX_DEPOSITS (cfg E)) (e_deposit_count (eth1_data s4) - eth1_deposit_index s4)); lia).
  destruct (_ =? _); cbn [check bind]; [|reflexivity].
  assert (Hdq : Forall (fun dep => In dep (vseq (body_get E f body "deposits")) /\ vuint (vfield (vfield dep 1) 2) < 2 ^ 63)
                       (vseq (body_get E f body "deposits"))).
  { pose proof (bt_dep_amount E f body Hbt) as Hb. rewrite Forall_forall in Hb. apply Forall_forall. intros x Hx. split; [exact Hx|apply Hb; exact Hx]. }
  pose proof (stage_deposits_fold E f P st0 epc2 blk Hsane Henv
                (vseq (body_get E f body "deposits")) (e2 epc2) s7 S7 Hdq) as Hd. fold body in Hd.
  destruct (for_ops (vseq (body_get E f body "deposits")) (process_deposit E f) s7) as [s8|].
  2:{ rewrite Hd. reflexivity. }
  destruct Hd as (epc' & -> & S8). cbn [bind].
  (* exits, BLS changes, sync aggregate: with the extended cache *)
  destruct (for_ops_refines (binv E f P st0 epc2 5 epc') (fun op => In op (vseq (body_get E f body "voluntary_exits")))
              (process_voluntary_exit_impl E f epc') (process_voluntary_exit E f)) with
      (ops := vseq (body_get E f body "voluntary_exits")) (s := s8) as [R9 S9]; try assumption.
  { intros s op Hs _. eapply op_exit; eassumption. }
  { intros s op s' Hs Hin H. eapply step_exit; eassumption. }
  { apply Forall_forall. intros x Hx; exact Hx. }
  rewrite R9. clear R9.
  destruct (for_ops (vseq (body_get E f body "voluntary_exits")) (process_voluntary_exit E f) s8) as [s9|]; [|reflexivity].
  cbn [bind]. specialize (S9 s9 eq_refl).
  assert (Hbls : (if fork_ge f Capella
                  then for_ops_impl (vseq (body_get E f body "bls_to_execution_changes")) (process_bls_change_impl E) s9 else Ok s9)
                 = match (if fork_ge f Capella
                          then for_ops (vseq (body_get E f body "bls_to_execution_changes")) (process_bls_to_execution_change E) s9
                          else Some s9) with Some x => Ok x | None => Err end
                 /\ forall s10, (if fork_ge f Capella
                          then for_ops (vseq (body_get E f body "bls_to_execution_changes")) (process_bls_to_execution_change E) s9
                          else Some s9) = Some s10 -> binv E f P st0 epc2 5 epc' s10).
  { destruct (fork_ge f Capella); [|split; [reflexivity|intros s10 [= <-]; exact S9]].
    apply (for_ops_refines (binv E f P st0 epc2 5 epc') (fun op => In op (vseq (body_get E f body "bls_to_execution_changes")))); try assumption.
    - intros s op _ _. apply process_bls_change_refines.
    - intros s op s' Hs Hin H. eapply step_bls; eassumption.
    - apply Forall_forall. intros x Hx; exact Hx. }
  destruct Hbls as [R10 S10]. rewrite R10. clear R10.
  match goal with |- context [match ?x with Some s => Ok s | None => Err end] => destruct x as [s10|]; [|reflexivity] end.
  cbn [bind]. specialize (S10 s10 eq_refl).
  destruct (fork_ge f Altair) eqn:Hfa; [|reflexivity].
  pose proof (binv_side E f P st0 epc2 blk Henv _ epc' s10 S10) as Hs10. fold body in Hs10.
  apply sync_aggregate_refines.
  - exact Hsane.
  - eapply binv_epc; eassumption.
  - apply (so_bounds E f body s10 Hs10).
  - apply (so_slot E f body s10 Hs10).
  - apply (bt_sync_bits E f body Hbt Hfa).
  - apply (so_sync_len E f body s10 Hs10 Hfa).
Qed.

(* C01: every block the spec accepts is accepted with the same post-state *)
Corollary block_refines_partial E f P st0 epc2 blk st' :
  cfg_sane E -> cfg_extra E -> envelope E f P blk -> vec_lens E st0 -> epc2_ok E st0 epc2 -> P 0%nat st0 -> lengths_inv f st0 ->
  block_typed E f (vfield blk 4) ->
  process_block E f st0 blk = Some st' -> process_block_impl E f epc2 st0 blk = Ok st'.
Proof. intros H1 H2 H3 H4 H5 H6 H7 H8 H. rewrite (process_block_refines_partial E f P st0 epc2 blk) by assumption. rewrite H. reflexivity. Qed.

(* C03: every block the spec rejects is rejected with an error *)
Corollary reject_refines_partial E f P st0 epc2 blk :
  cfg_sane E -> cfg_extra E -> envelope E f P blk -> vec_lens E st0 -> epc2_ok E st0 epc2 -> P 0%nat st0 -> lengths_inv f st0 ->
  block_typed E f (vfield blk 4) ->
  process_block E f st0 blk = None -> process_block_impl E f epc2 st0 blk = Err.
Proof. intros H1 H2 H3 H4 H5 H6 H7 H8 H. rewrite (process_block_refines_partial E f P st0 epc2 blk) by assumption. rewrite H. reflexivity. Qed.

(* C03: no panic (index out of range, division by zero, nil-slice index), no fuel exhaustion *)
Corollary transition_no_panic_partial E f P st0 epc2 blk :
  cfg_sane E -> cfg_extra E -> envelope E f P blk -> vec_lens E st0 -> epc2_ok E st0 epc2 -> P 0%nat st0 -> lengths_inv f st0 ->
  block_typed E f (vfield blk 4) ->
  (forall p, process_block_impl E f epc2 st0 blk <> Panic p)
  /\ process_block_impl E f epc2 st0 blk <> Blocked /\ process_block_impl E f epc2 st0 blk <> OutOfFuel.
Proof.
  intros H1 H2 H3 H4 H5 H6 H7 H8. rewrite (process_block_refines_partial E f P st0 epc2 blk) by assumption.
  destruct (process_block E f st0 blk); repeat split; try intros p; discriminate.
Qed.
