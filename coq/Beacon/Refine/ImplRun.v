(* C02IMPL correspondence: evaluate the Impl models (Beacon/Impl/*.v) and the Spec (Beacon/Spec/Epoch.v) on the
   cases the Go harness (harness/cmd/c02impl) ran through the real zrnt functions.
     impl_ok : Go's observed result = the Impl model's result on the same inputs (incl. Go's own epc / snapshot)
     spec_ok : Go's observed result = the Spec function's result on the same state, where directly comparable
               (true otherwise). *)
From Coq Require Import String.
From Coq Require Import NArith List Bool.
From RecordUpdate Require Import RecordSet.
From V Require Import Base.U64 Base.Outcome Base.Sha256 Ssz.SszCore Beacon.Config Beacon.Schemas Beacon.State.
From V Require Import Beacon.Spec.Helpers Beacon.Spec.Epoch Beacon.Run.
From V Require Import Beacon.Impl.Flat Beacon.Impl.Registry Beacon.Impl.Justification Beacon.Impl.Final Beacon.Impl.Slashings
                      Beacon.Impl.AltairAttester Beacon.Impl.Phase0Attester Beacon.Refine.AltairDomain.
Import ListNotations RecordSetNotations.
Local Open Scope N_scope.

(* ---- configuration of a run: a small preset, twelve knobs per case ---- *)
Local Open Scope string_scope.
Definition run_num (p : list N) (k : string) : N :=
  let is s := String.eqb k s in
  let knob i := nth i p 0 in
  if is "MIN_PER_EPOCH_CHURN_LIMIT" then knob 0%nat else
  if is "CHURN_LIMIT_QUOTIENT" then knob 1%nat else
  if is "MAX_PER_EPOCH_ACTIVATION_CHURN_LIMIT" then knob 2%nat else
  if is "MAX_SEED_LOOKAHEAD" then knob 3%nat else
  if is "EJECTION_BALANCE" then knob 4%nat else
  if is "MIN_VALIDATOR_WITHDRAWABILITY_DELAY" then knob 5%nat else
  if is "BASE_REWARD_FACTOR" then knob 6%nat else
  if is "INACTIVITY_SCORE_BIAS" then knob 7%nat else
  if is "INACTIVITY_SCORE_RECOVERY_RATE" then knob 8%nat else
  if is "MIN_EPOCHS_TO_INACTIVITY_PENALTY" then knob 9%nat else
  if is "EPOCHS_PER_ETH1_VOTING_PERIOD" then knob 10%nat else
  if is "INACTIVITY_PENALTY_QUOTIENT_ALTAIR" then knob 11%nat else
  if is "INACTIVITY_PENALTY_QUOTIENT_BELLATRIX" then knob 11%nat else
  if is "INACTIVITY_PENALTY_QUOTIENT" then knob 11%nat else
  if is "MAX_COMMITTEES_PER_SLOT" then 4 else if is "TARGET_COMMITTEE_SIZE" then 4 else
  if is "MAX_VALIDATORS_PER_COMMITTEE" then 2048 else if is "SHUFFLE_ROUND_COUNT" then 2 else
  if is "HYSTERESIS_QUOTIENT" then 4 else if is "HYSTERESIS_DOWNWARD_MULTIPLIER" then 1 else
  if is "HYSTERESIS_UPWARD_MULTIPLIER" then 5 else if is "MIN_DEPOSIT_AMOUNT" then 1000000000 else
  if is "MAX_EFFECTIVE_BALANCE" then 32000000000 else if is "EFFECTIVE_BALANCE_INCREMENT" then 1000000000 else
  if is "MIN_ATTESTATION_INCLUSION_DELAY" then 1 else if is "SLOTS_PER_EPOCH" then 4 else
  if is "MIN_SEED_LOOKAHEAD" then 1 else
  if is "SLOTS_PER_HISTORICAL_ROOT" then 16 else
  if is "EPOCHS_PER_HISTORICAL_VECTOR" then 16 else
  if is "EPOCHS_PER_SLASHINGS_VECTOR" then 8 else if is "HISTORICAL_ROOTS_LIMIT" then 16777216 else
  if is "VALIDATOR_REGISTRY_LIMIT" then 1099511627776 else
  if is "WHISTLEBLOWER_REWARD_QUOTIENT" then 512 else if is "PROPOSER_REWARD_QUOTIENT" then 8 else
  if is "MIN_SLASHING_PENALTY_QUOTIENT" then 64 else
  if is "PROPORTIONAL_SLASHING_MULTIPLIER" then 1 else
  if is "MIN_SLASHING_PENALTY_QUOTIENT_ALTAIR" then 64 else
  if is "PROPORTIONAL_SLASHING_MULTIPLIER_ALTAIR" then 2 else if is "SYNC_COMMITTEE_SIZE" then 32 else
  if is "EPOCHS_PER_SYNC_COMMITTEE_PERIOD" then 8 else if is "MIN_SYNC_COMMITTEE_PARTICIPANTS" then 1 else
  if is "MIN_SLASHING_PENALTY_QUOTIENT_BELLATRIX" then 32 else
  if is "PROPORTIONAL_SLASHING_MULTIPLIER_BELLATRIX" then 3 else
  if is "SHARD_COMMITTEE_PERIOD" then 64 else
  if is "SECONDS_PER_SLOT" then 6 else 1.
Local Close Scope string_scope.
Definition run_cfg (p : list N) : Config := config_of (run_num p) (fun _ => [0; 0; 0; 1]).
Definition run_env (p : list N) : Env :=
  mk_env (run_cfg p) Base.Sha256.sha256 (fun _ _ _ => true) (fun _ _ _ => true) (fun _ => repeat 0 48) (fun _ _ _ => true).

(* ---- the small states of a run ---- *)
(* a pending attestation: bits, slot, committee index, beacon block root byte, source epoch, target epoch, target root
   byte, inclusion delay, proposer index *)
Record pend := mkPend { pt_bits : list bool; pt_slot : N; pt_index : N; pt_bbr : N; pt_src : N; pt_tgt : N; pt_tgt_root : N;
                        pt_delay : N; pt_proposer : N }.
Record mini := mkMini {
  m_fork : fork;
  m_slot : N;
  m_vals : list FlatValidator;      (* effective balance, slashed, eligibility, activation, exit, withdrawable *)
  m_bals : list N;
  m_pp : list N;                    (* previous / current epoch participation (altair+) *)
  m_cp : list N;
  m_scores : list N;
  m_slash : list N;                 (* slashings vector *)
  m_bits : N;                       (* justification bits, as the byte *)
  m_pj : N * N;                     (* checkpoints: (epoch, the byte every root byte equals) *)
  m_cj : N * N;
  m_fin : N * N;
  m_votes : N;                      (* number of eth1 data votes *)
  m_hist : N;                       (* number of historical roots (pre-capella) / summaries (capella+) *)
  m_patts : list pend;              (* phase0: previous / current epoch pending attestations *)
  m_catts : list pend;
  m_comms : list (N * N * list N) }. (* epc.GetBeaconCommittee(slot, index) for the pairs the attestations use *)

Definition patt (b : N) : bytes := repeat b 32.
Definition cp_of (x : N * N) : Checkpoint := mkCheckpoint (fst x) (patt (snd x)).
Definition unflatten (i : N) (fl : FlatValidator) : Validator :=
  mkValidator (repeat (i mod 256) 48) (patt 0) (fl_effective_balance fl) (fl_slashed fl) (fl_activation_eligibility_epoch fl)
              (fl_activation_epoch fl) (fl_exit_epoch fl) (fl_withdrawable_epoch fl).
Definition pend_value (a : pend) : value :=
  VCont [VBits (pt_bits a);
         VCont [VUint (pt_slot a); VUint (pt_index a); VBytes (patt (pt_bbr a));
                cp_to_value (mkCheckpoint (pt_src a) (patt 0)); cp_to_value (mkCheckpoint (pt_tgt a) (patt (pt_tgt_root a)))];
         VUint (pt_delay a); VUint (pt_proposer a)].
Definition zero_eth1 : Eth1Data := mkEth1Data (patt 0) 0 (patt 0).
Definition state_of_mini (m : mini) : BeaconState :=
  let alt := fork_ge (m_fork m) Altair in
  let cap := fork_ge (m_fork m) Capella in
  mkState 0 (patt 0) (m_slot m) (mkFork [0;0;0;1] [0;0;0;1] 0) (mkHeader 0 0 (patt 0) (patt 0) (patt 0))
    (map (fun i => patt (i + 1)) (seqN 0 16)) (map (fun i => patt (i + 101)) (seqN 0 16))
    (if cap then [] else map (fun i => patt (i + 201)) (seqN 0 (N.to_nat (m_hist m))))
    zero_eth1 (repeat zero_eth1 (N.to_nat (m_votes m))) 0
    (map (fun p => unflatten (fst p) (snd p)) (indexed (m_vals m))) (m_bals m)
    (map (fun i => patt (i + 31)) (seqN 0 16)) (m_slash m)
    (if alt then [] else map pend_value (m_patts m)) (if alt then [] else map pend_value (m_catts m))
    (if alt then m_pp m else []) (if alt then m_cp m else [])
    (bits_of_byte 4 (m_bits m)) (cp_of (m_pj m)) (cp_of (m_cj m)) (cp_of (m_fin m))
    (if alt then m_scores m else []) empty_sc empty_sc (VCont []) 0 0
    (if cap then map (fun i => (patt (i + 201), patt (i + 151))) (seqN 0 (N.to_nat (m_hist m))) else []).

(* ---- what the harness observes of a state after a step ---- *)
Record obs := mkObs {
  o_vals : list FlatValidator;
  o_bals : list N;
  o_pp : list N;
  o_cp : list N;
  o_scores : list N;
  o_slash : list N;
  o_bits : N;
  o_pj : N * bytes;
  o_cj : N * bytes;
  o_fin : N * bytes;
  o_votes : N;
  o_mixes : list N;        (* first byte of every randao mix *)
  o_hist : list bytes }.   (* historical roots, or block-summary roots ++ state-summary roots (capella+) *)

Definition cp_obs (x : Checkpoint) : N * bytes := (cp_epoch x, cp_root x).
Definition observe (f : fork) (st : BeaconState) : obs :=
  mkObs (map flatten (validators st)) (balances st) (previous_epoch_participation st) (current_epoch_participation st)
        (inactivity_scores st) (slashings st) (byte_of_bits (justification_bits st))
        (cp_obs (previous_justified_checkpoint st)) (cp_obs (current_justified_checkpoint st)) (cp_obs (finalized_checkpoint st))
        (N.of_nat (length (eth1_data_votes st))) (map (fun m => nth 0 m 0) (randao_mixes st))
        (if fork_ge f Capella then map fst (historical_summaries st) ++ map snd (historical_summaries st) else historical_roots st).

Definition flat_eqb (a b : FlatValidator) : bool :=
  (fl_effective_balance a =? fl_effective_balance b) && Bool.eqb (fl_slashed a) (fl_slashed b) &&
  (fl_activation_eligibility_epoch a =? fl_activation_eligibility_epoch b) && (fl_activation_epoch a =? fl_activation_epoch b) &&
  (fl_exit_epoch a =? fl_exit_epoch b) && (fl_withdrawable_epoch a =? fl_withdrawable_epoch b).
Definition nl_eqb := list_eqb N.eqb.
Definition cpo_eqb (a b : N * bytes) : bool := (fst a =? fst b) && bytes_eqb (snd a) (snd b).
Definition obs_eqb (a b : obs) : bool :=
  list_eqb flat_eqb (o_vals a) (o_vals b) && nl_eqb (o_bals a) (o_bals b) && nl_eqb (o_pp a) (o_pp b) && nl_eqb (o_cp a) (o_cp b) &&
  nl_eqb (o_scores a) (o_scores b) && nl_eqb (o_slash a) (o_slash b) && (o_bits a =? o_bits b) &&
  cpo_eqb (o_pj a) (o_pj b) && cpo_eqb (o_cj a) (o_cj b) && cpo_eqb (o_fin a) (o_fin b) && (o_votes a =? o_votes b) &&
  nl_eqb (o_mixes a) (o_mixes b) && list_eqb bytes_eqb (o_hist a) (o_hist b).

(* ---- steps ---- *)
Inductive step :=
| SRegistry                                   (* ProcessEpochRegistryUpdates (phase0 or deneb variant by the state's fork) *)
| SJust (d : JustificationStakeData)          (* phase0.ProcessEpochJustification with the given stake data *)
| SEffBal | SEth1 | SSlashReset | SRandao | SHist | SPartRotate
| SSlashings
| SInactivity                                 (* altair.ProcessInactivityUpdates *)
| SRewards                                    (* altair.ProcessEpochRewardsAndPenalties *)
| SRewards0.                                  (* phase0.ProcessEpochRewardsAndPenalties *)

Definition opt_out {A} (x : option A) : outcome A := match x with Some a => Ok a | None => Err end.

Definition comm_lookup (cs : list (N * N * list N)) (slot index : N) : option (list N) :=
  match find (fun x => (fst (fst x) =? slot) && (snd (fst x) =? index)) cs with Some x => Some (snd x) | None => None end.

Section Run.
  Variable p : list N.
  Let c := run_cfg p.
  Let E := run_env p.

  (* the Impl model of a step, fed with Go's own epc view; the snapshot is taken from the state (as ProcessEpoch does) *)
  Definition impl_step (m : mini) (e : EpcView) (s : step) : option BeaconState :=
    let st := state_of_mini m in
    let f := m_fork m in
    let flats := flatten_validators (validators st) in
    match s with
    | SRegistry => Registry.process_registry_updates c f (epc_cur_epoch e) flats st
    | SJust d => process_epoch_justification c d st
    | SEffBal => Final.process_effective_balance_updates E flats st
    | SEth1 => Final.process_eth1_data_reset E (epc_next_epoch e) st
    | SSlashReset => Final.process_slashings_reset E (epc_next_epoch e) st
    | SRandao => Final.process_randao_mixes_reset E (epc_next_epoch e) st
    | SHist => Final.process_historical_update E f (epc_next_epoch e) st
    | SPartRotate => Some (match f with Phase0 => Final.process_participation_record_updates st
                                      | _ => Final.process_participation_flag_updates st end)
    | SSlashings => Slashings.process_epoch_slashings c f (epc_cur_epoch e) (epc_cur_active e) flats st
    | SInactivity =>
        match compute_epoch_attester_data c e flats st with
        | None => None | Some ad => AltairAttester.process_inactivity_updates c ad st end
    | SRewards =>
        match compute_epoch_attester_data c e flats st with
        | None => None | Some ad => process_epoch_rewards_and_penalties c f e ad st end
    | SRewards0 =>
        match compute_epoch_attester_data0 c (comm_lookup (m_comms m)) e flats st with
        | None => None | Some ad => process_epoch_rewards_and_penalties0 c e ad st end
    end.

  (* the Spec function of a step (None where the step has no single spec counterpart) *)
  Definition spec_step (m : mini) (s : step) : option (option BeaconState) :=
    let st := state_of_mini m in
    let f := m_fork m in
    match s with
    | SRegistry => Some (Epoch.process_registry_updates E f st)
    | SJust d =>
        Some (if get_current_epoch E st <=? GENESIS_EPOCH + 1 then Some st
              else weigh_justification_and_finalization E st (js_total_active_stake d) (js_prev_target_stake d) (js_curr_target_stake d))
    | SEffBal => Some (Some (Epoch.process_effective_balance_updates E st))
    | SEth1 => Some (Some (Epoch.process_eth1_data_reset E st))
    | SSlashReset => Some (Some (Epoch.process_slashings_reset E st))
    | SRandao => Some (Some (Epoch.process_randao_mixes_reset E st))
    | SHist => Some (Some (Epoch.process_historical_update E f st))
    | SPartRotate => Some (Some (match f with Phase0 => Epoch.process_participation_record_updates st
                                            | _ => Epoch.process_participation_flag_updates st end))
    | SSlashings => Some (Some (Epoch.process_slashings E f st))
    | SInactivity => Some (Epoch.process_inactivity_updates E st)
    | SRewards => Some (Epoch.process_rewards_and_penalties E f st)
    | SRewards0 => Some (Epoch.process_rewards_and_penalties E Phase0 st)
    end.
End Run.

(* ---- cases ---- *)
Definition regdata_obs := (list N * list N * list N * (N * N * N))%type.
Definition regdata_eqb (a b : regdata_obs) : bool :=
  let '(a1, a2, a3, (a4, a5, a6)) := a in let '(b1, b2, b3, (b4, b5, b6)) := b in
  nl_eqb a1 b1 && nl_eqb a2 b2 && nl_eqb a3 b3 && (a4 =? b4) && (a5 =? b5) && (a6 =? b6).
Definition attdata_obs := (list N * (N * N * N * N))%type.    (* eligible, source/target/head stakes, current target stake *)
Definition attdata_eqb (a b : attdata_obs) : bool :=
  let '(a1, (a2, a3, a4, a5)) := a in let '(b1, (b2, b3, b4, b5)) := b in
  nl_eqb a1 b1 && (a2 =? b2) && (a3 =? b3) && (a4 =? b4) && (a5 =? b5).
Definition deltas_obs := (list N * list N)%type.
Definition deltas_eqb (a b : deltas_obs) : bool := nl_eqb (fst a) (fst b) && nl_eqb (snd a) (snd b).

(* phase0 attester data: statuses (inclusion delay, attested proposer, flag byte), the three previous-epoch stakes and the
   current-epoch target stake *)
Definition p0data_obs := (list (N * N * N) * (N * N * N * N))%type.
Definition p0data_eqb (a b : p0data_obs) : bool :=
  let '(a1, (a2, a3, a4, a5)) := a in let '(b1, (b2, b3, b4, b5)) := b in
  list_eqb (fun x y => (fst (fst x) =? fst (fst y)) && (snd (fst x) =? snd (fst y)) && (snd x =? snd y)) a1 b1 &&
  (a2 =? b2) && (a3 =? b3) && (a4 =? b4) && (a5 =? b5).
Definition p0_obs (ad : Phase0AttesterData) : p0data_obs :=
  (map (fun s => (as_inclusion_delay s, as_attested_proposer s, flags_byte (as_flags s))) (p0_statuses ad),
   (p0_prev_source_stake ad, p0_prev_target_stake ad, p0_prev_head_stake ad, p0_cur_target_stake ad)).
Inductive icase :=
| CRegData (p : list N) (flats : list FlatValidator) (ce : N) (go : gores regdata_obs)
| CState (p : list N) (m : mini) (e : EpcView) (s : step) (go : gores obs)
| CAttData (p : list N) (m : mini) (e : EpcView) (go : gores attdata_obs)
| CFlagDeltas (p : list N) (m : mini) (e : EpcView) (flag_index : N) (leak : bool) (go : gores deltas_obs)
| CInactDeltas (p : list N) (m : mini) (e : EpcView) (go : gores deltas_obs)
| CP0Data (p : list N) (m : mini) (e : EpcView) (go : gores p0data_obs).

Definition rd_obs (rd : RegistryProcessData) : regdata_obs :=
  (rd_to_set_activation_eligibility rd, rd_to_maybe_activate rd, rd_to_eject rd,
   (rd_exit_queue_end rd, rd_exit_queue_end_churn rd, rd_churn_limit rd)).
Definition ad_obs (ad : EpochAttesterData) : attdata_obs :=
  (ad_eligible ad, (ad_prev_source_stake ad, ad_prev_target_stake ad, ad_prev_head_stake ad, ad_cur_target_stake ad)).
Definition d_obs (d : Deltas) : deltas_obs := (d_rewards d, d_penalties d).
Definition flag_mask (i : N) : N := 2 ^ i.
Definition flag_weight_of (i : N) : N := nth (N.to_nat i) PARTICIPATION_FLAG_WEIGHTS 0.

Definition impl_ok (cs : icase) : bool :=
  match cs with
  | CRegData p flats ce go => agree regdata_eqb (opt_out (option_map rd_obs (compute_registry_process_data (run_cfg p) flats ce))) go
  | CState p m e s go => agree obs_eqb (opt_out (option_map (observe (m_fork m)) (impl_step p m e s))) go
  | CAttData p m e go =>
      let st := state_of_mini m in
      agree attdata_eqb (opt_out (option_map ad_obs (compute_epoch_attester_data (run_cfg p) e (flatten_validators (validators st)) st))) go
  | CFlagDeltas p m e fi leak go =>
      let st := state_of_mini m in
      agree deltas_eqb
        (opt_out (match compute_epoch_attester_data (run_cfg p) e (flatten_validators (validators st)) st with
                  | None => None
                  | Some ad => option_map d_obs (compute_flag_deltas (run_cfg p) e ad (flag_mask fi) (flag_weight_of fi) leak)
                  end)) go
  | CInactDeltas p m e go =>
      let st := state_of_mini m in
      agree deltas_eqb
        (opt_out (match compute_epoch_attester_data (run_cfg p) e (flatten_validators (validators st)) st with
                  | None => None
                  | Some ad => option_map d_obs (compute_inactivity_penalty_deltas (run_cfg p) (m_fork m) ad (inactivity_scores st))
                  end)) go
  | CP0Data p m e go =>
      let st := state_of_mini m in
      agree p0data_eqb (opt_out (option_map p0_obs (compute_epoch_attester_data0 (run_cfg p) (comm_lookup (m_comms m)) e
                                                       (flatten_validators (validators st)) st))) go
  end.

(* the spec's values for the pure intermediate results *)
Definition spec_attdata (p : list N) (m : mini) : option attdata_obs :=
  let E := run_env p in let f := m_fork m in let st := state_of_mini m in
  let tb fl ep := option_map (get_total_balance E st) (get_unslashed_participating_indices E st fl ep) in
  match tb TIMELY_SOURCE_FLAG_INDEX (get_previous_epoch E st), tb TIMELY_TARGET_FLAG_INDEX (get_previous_epoch E st),
        tb TIMELY_HEAD_FLAG_INDEX (get_previous_epoch E st), tb TIMELY_TARGET_FLAG_INDEX (get_current_epoch E st) with
  | Some a, Some b, Some c0, Some d => Some (get_eligible_validator_indices E st, (a, b, c0, d))
  | _, _, _, _ => None
  end.

(* the documented domain of the steps (hypotheses of the refinement theorems that a generated state may violate):
   - justification: the spec's own range assertion of get_block_root (state at the last slot of its epoch);
   - inactivity / rewards: finalized epoch <= previous epoch (zrnt's uint64 finality delay wraps otherwise);
   - rewards: no intermediate saturation (NoMidSaturation, see AltairDomain.v / design/C02-refine.md);
   - altair intermediates: current epoch >= 1 (in the genesis epoch every consumer skips). *)
Definition in_domain (p : list N) (m : mini) (s : step) : bool :=
  let E := run_env p in let st := state_of_mini m in
  let ok_range e := let s0 := compute_start_slot_at_epoch E e in (s0 <? slot st) && (slot st <=? s0 + SLOTS_PER_HISTORICAL_ROOT (cfg E)) in
  match s with
  | SJust _ => (get_current_epoch E st <=? 1) || (ok_range (get_previous_epoch E st) && ok_range (get_current_epoch E st))
  | SInactivity => cp_epoch (finalized_checkpoint st) <=? get_previous_epoch E st
  | SRewards => (cp_epoch (finalized_checkpoint st) <=? get_previous_epoch E st) && no_mid_saturationb E (m_fork m) st
  | SRewards0 => cp_epoch (finalized_checkpoint st) <=? get_previous_epoch E st
  | _ => true
  end.

(* the spec's four attesting balances of a phase0 state *)
Definition spec_p0_stakes (p : list N) (m : mini) : option (N * N * N * N) :=
  let E := run_env p in let st := state_of_mini m in
  let pe := get_previous_epoch E st in let ce := get_current_epoch E st in
  match get_matching_source_attestations E st pe, get_matching_target_attestations E st pe,
        get_matching_head_attestations E st pe, get_matching_target_attestations E st ce with
  | Some a, Some b, Some c0, Some d =>
      match get_attesting_balance E st a, get_attesting_balance E st b, get_attesting_balance E st c0, get_attesting_balance E st d with
      | Some x, Some y, Some z, Some w => Some (x, y, z, w)
      | _, _, _, _ => None
      end
  | _, _, _, _ => None
  end.

Definition spec_ok (cs : icase) : bool :=
  match cs with
  | CRegData p flats ce go => true     (* judged through CState SRegistry *)
  | CState p m e s go =>
      if in_domain p m s then
        match spec_step p m s with
        | None => true
        | Some r => agree obs_eqb (opt_out (option_map (observe (m_fork m)) r)) go
        end
      else true
  | CAttData p m e go =>
      if get_current_epoch (run_env p) (state_of_mini m) =? 0 then true else agree attdata_eqb (opt_out (spec_attdata p m)) go
  | CFlagDeltas p m e fi leak go =>
      let E := run_env p in let st := state_of_mini m in
      if (get_current_epoch E st =? 0) || negb (Bool.eqb leak (is_in_inactivity_leak E st)) then true
      else agree deltas_eqb (opt_out (get_flag_index_deltas E st fi)) go
  | CInactDeltas p m e go =>
      if get_current_epoch (run_env p) (state_of_mini m) =? 0 then true
      else agree deltas_eqb (opt_out (get_inactivity_penalty_deltas (run_env p) (m_fork m) (state_of_mini m))) go
  | CP0Data p m e go =>
      if get_current_epoch (run_env p) (state_of_mini m) =? 0 then true else
      match go, spec_p0_stakes p m with
      | GoOk (_, (a, b, c0, d)), Some (x, y, z, w) => (a =? x) && (b =? y) && (c0 =? z) && (d =? w)
      | GoOk _, None => false
      | _, _ => true
      end
  end.

Fixpoint mism (i : N) (cs : list icase) : list (N * N) :=
  match cs with
  | [] => []
  | x :: cs' =>
      let r := (if impl_ok x then 0 else 1) + (if spec_ok x then 0 else 2) in
      if r =? 0 then mism (i + 1) cs' else (i, r) :: mism (i + 1) cs'
  end.
Definition mismatches (cs : list icase) : list (N * N) := mism 0 cs.
