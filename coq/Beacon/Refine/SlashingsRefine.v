(* Refinement: zrnt's ProcessEpochSlashings = the spec's process_slashings.
   zrnt's "factored" penalty  (eff / inc) * adj / total * inc  is literally the spec's expression (the spec
   already divides the effective balance by the increment before multiplying), so NO integer-division identity is
   needed: the proof is the discharge of uint64 wrap-around (every intermediate product is bounded by
   (eff / inc) * total, hypothesis sl_num) plus  min/max written with `if`, and the use of the stale snapshot. *)
From Coq Require Import NArith ZArith Lia List Bool.
From Coq Require Import ZifyN ZifyNat ZifyBool.
From RecordUpdate Require Import RecordSet.
From V Require Import Base.U64 Beacon.Config Beacon.State Beacon.Spec.Helpers Beacon.Spec.Epoch.
From V Require Import Beacon.Impl.Flat Beacon.Impl.Slashings Beacon.Refine.ListLemmas.
Import ListNotations RecordSetNotations.
Local Open Scope N_scope.
Ltac Zify.zify_post_hook ::= Z.div_mod_to_equations.

Lemma add64_fine a b : a + b < two64 -> add64 a b = a + b.
Proof. intros H. unfold add64. apply wrap64_small. exact H. Qed.
Lemma mul64_fine a b : a * b < two64 -> mul64 a b = a * b.
Proof. intros H. unfold mul64. apply wrap64_small. exact H. Qed.

Lemma fold_add_ge l : forall a, a <= fold_left N.add l a.
Proof. induction l as [|x l IH]; intros a; cbn [fold_left]; [lia|]. specialize (IH (a + x)). lia. Qed.
Lemma fold_add64_sum l : forall a, fold_left N.add l a < two64 -> fold_left add64 l a = fold_left N.add l a.
Proof.
  induction l as [|x l IH]; intros a H; cbn [fold_left] in *; [reflexivity|].
  pose proof (fold_add_ge l (a + x)). rewrite add64_fine by lia. apply IH. exact H.
Qed.
Lemma updN_const_eq {A} (g : A -> A) : forall (l : list A) i b, nthN l i = Some b -> setN l i (g b) = updN l i g.
Proof.
  intros l i b. unfold setN. rewrite nthN_nth_error, !updN_upd_nat. generalize (N.to_nat i). clear i.
  induction l as [|x l IH]; intros [|n] H; cbn [nth_error upd_nat] in *; try discriminate.
  - inversion H. reflexivity.
  - f_equal. apply IH. exact H.
Qed.

(* snapshot entry vs current validator, as far as slashings can tell *)
Definition slash_rel (fl : FlatValidator) (v : Validator) : Prop :=
  fl_slashed fl = v_slashed v /\ fl_effective_balance fl = v_effective_balance v /\
  (v_slashed v = true -> fl_withdrawable_epoch fl = v_withdrawable_epoch v).

Section SlashingsRefine.
  Variable E : Env.
  Variable f : fork.
  Notation c := (cfg E).

  Record SlashHyps (ce : N) (active : list N) (flats : list FlatValidator) (st : BeaconState) : Prop := mkSlashHyps {
    sl_epoch : ce = get_current_epoch E st;
    sl_active : active = get_active_validator_indices st ce;           (* epc.CurrentEpoch.ActiveIndices is fresh *)
    sl_flats : Forall2 slash_rel flats (validators st);
    sl_len : length (balances st) = length (validators st);
    sl_inc : EFFECTIVE_BALANCE_INCREMENT c <> 0;
    sl_total : sumN (map (eff_bal st) active) < two64;
    sl_sum : sumN (slashings st) < two64;
    sl_weight : sumN (slashings st) * proportional_slashing_multiplier E f < two64;
    sl_se : ce + EPOCHS_PER_SLASHINGS_VECTOR c / 2 < two64;
    sl_num : forall v, In v (validators st) ->
               v_effective_balance v / EFFECTIVE_BALANCE_INCREMENT c * get_total_active_balance E st < two64 }.

  Lemma multiplier_eq : proportional_slashing_multiplier_go c f = proportional_slashing_multiplier E f.
  Proof. destruct f; reflexivity. Qed.

  Lemma flats_eff (flats : list FlatValidator) (vals : list Validator) :
    Forall2 slash_rel flats vals ->
    forall i, match nth_error flats i with Some fl => Some (fl_effective_balance fl) | None => None end =
              match nth_error vals i with Some v => Some (v_effective_balance v) | None => None end.
  Proof.
    induction 1 as [|fl v fls vls [_ [He _]] _ IH]; intros [|i]; cbn [nth_error]; try reflexivity.
    - rewrite He. reflexivity.
    - apply IH.
  Qed.

  Lemma total_stake_eq active flats st :
    Forall2 slash_rel flats (validators st) ->
    (forall i, In i active -> i < N.of_nat (length (validators st))) ->
    sumN (map (eff_bal st) active) < two64 ->
    total_active_stake_go c active flats = Some (get_total_balance E st active).
  Proof.
    intros Hrel Hin Hsum. unfold total_active_stake_go, get_total_balance, sumN in *.
    assert (Hgen : forall l a, (forall i, In i l -> i < N.of_nat (length (validators st))) ->
              fold_left N.add (map (eff_bal st) l) a < two64 ->
              fold_left (fun (acc : option N) v => match acc, nthN flats v with
                           | Some a, Some fl => Some (add64 a (fl_effective_balance fl)) | _, _ => None end) l (Some a) =
              Some (fold_left N.add (map (eff_bal st) l) a)).
    { induction l as [|i l IH]; intros a Hl Hb; cbn [map fold_left] in *; [reflexivity|].
      assert (Hi : i < N.of_nat (length (validators st))) by (apply Hl; left; reflexivity).
      assert (Hlk : exists fl, nthN flats i = Some fl /\ fl_effective_balance fl = eff_bal st i).
      { pose proof (flats_eff flats (validators st) Hrel (N.to_nat i)) as He.
        unfold eff_bal. rewrite !nthN_nth_error. destruct (nth_error (validators st) (N.to_nat i)) as [v|] eqn:Hv.
        2:{ apply nth_error_None in Hv. lia. }
        destruct (nth_error flats (N.to_nat i)) as [fl|]; [|discriminate]. inversion He as [He'].
        exists fl. split; reflexivity || exact He'. }
      destruct Hlk as [fl [Hfl Heq]]. rewrite Hfl, Heq.
      pose proof (fold_add_ge (map (eff_bal st) l) (a + eff_bal st i)).
      rewrite add64_fine by lia. apply IH; [intros j Hj; apply Hl; right; exact Hj|exact Hb]. }
    rewrite Hgen by assumption.
    f_equal. destruct (N.ltb_spec (fold_left N.add (map (eff_bal st) active) 0) (EFFECTIVE_BALANCE_INCREMENT c)); lia.
  Qed.

  Lemma active_indices_in_range st ce i :
    In i (get_active_validator_indices st ce) -> i < N.of_nat (length (validators st)).
  Proof.
    unfold get_active_validator_indices. rewrite combine_indices_indexed. intros H.
    apply in_map_iff in H. destruct H as [[j v] [Hj H]]. cbn [fst] in Hj. subst j.
    apply filter_In in H. destruct H as [H _]. apply indexed_from_fst_bounds in H. lia.
  Qed.

  (* the spec's loop, on the balance list *)
  Definition spec_slash_step (ce adj total : N) (bals : list N) (iv : N * Validator) : list N :=
    let '(i, v) := iv in
    if v_slashed v && (ce + EPOCHS_PER_SLASHINGS_VECTOR c / 2 =? v_withdrawable_epoch v)
    then updN bals i (fun b => b - v_effective_balance v / EFFECTIVE_BALANCE_INCREMENT c * adj / total * EFFECTIVE_BALANCE_INCREMENT c)
    else bals.

  Lemma spec_slash_state ce adj total : forall l st,
    fold_left (fun st (iv : N * Validator) =>
        let '(i, v) := iv in
        if v_slashed v && (ce + EPOCHS_PER_SLASHINGS_VECTOR c / 2 =? v_withdrawable_epoch v)
        then decrease_balance st i (v_effective_balance v / EFFECTIVE_BALANCE_INCREMENT c * adj / total * EFFECTIVE_BALANCE_INCREMENT c)
        else st) l st =
    st <| balances := fold_left (spec_slash_step ce adj total) l (balances st) |>.
  Proof.
    induction l as [|[i v] l IH]; intros st; cbn [fold_left].
    - destruct st; reflexivity.
    - rewrite IH.
      assert (Hstep : spec_slash_step ce adj total (balances st) (i, v) =
                if v_slashed v && (ce + EPOCHS_PER_SLASHINGS_VECTOR c / 2 =? v_withdrawable_epoch v)
                then updN (balances st) i (fun b => b - v_effective_balance v / EFFECTIVE_BALANCE_INCREMENT c * adj / total * EFFECTIVE_BALANCE_INCREMENT c)
                else balances st) by reflexivity.
      rewrite Hstep. destruct (v_slashed v && _); reflexivity.
  Qed.

  Lemma slash_loop ce adj total :
    EFFECTIVE_BALANCE_INCREMENT c <> 0 -> ce + EPOCHS_PER_SLASHINGS_VECTOR c / 2 < two64 ->
    adj <= total -> EFFECTIVE_BALANCE_INCREMENT c <= total ->
    forall flats vals, Forall2 slash_rel flats vals ->
    (forall v, In v vals -> v_effective_balance v / EFFECTIVE_BALANCE_INCREMENT c * total < two64) ->
    forall k bals, k + N.of_nat (length vals) <= N.of_nat (length bals) ->
    fold_left (slashing_step c (add64 ce (EPOCHS_PER_SLASHINGS_VECTOR c / 2)) adj total) (indexed_from k flats) (Some bals) =
    Some (fold_left (spec_slash_step ce adj total) (indexed_from k vals) bals).
  Proof.
    intros Hinc Hse Hadj Htot flats vals Hrel. rewrite add64_fine by exact Hse.
    induction Hrel as [|fl v fls vls [Hs [He Hw]] _ IH]; intros Hnum k bals Hk; [reflexivity|].
    cbn [indexed_from fold_left length] in *. unfold slashing_step at 2, spec_slash_step at 2.
    assert (IH' : forall bals', length bals' = length bals ->
              fold_left (slashing_step c (ce + EPOCHS_PER_SLASHINGS_VECTOR c / 2) adj total) (indexed_from (k + 1) fls) (Some bals') =
              Some (fold_left (spec_slash_step ce adj total) (indexed_from (k + 1) vls) bals')).
    { intros bals' Hl. apply IH; [intros v' Hv'; apply Hnum; right; exact Hv'|rewrite Hl; lia]. }
    rewrite Hs, He.
    destruct (v_slashed v) eqn:Hsl; cbn [andb]; [|apply IH'; reflexivity].
    rewrite (Hw eq_refl).
    destruct (ce + EPOCHS_PER_SLASHINGS_VECTOR c / 2 =? v_withdrawable_epoch v); [|apply IH'; reflexivity].
    destruct (N.eqb_spec (EFFECTIVE_BALANCE_INCREMENT c) 0) as [H0|_]; [contradiction|].
    pose proof (Hnum v (or_introl eq_refl)) as Hn.
    set (q := v_effective_balance v / EFFECTIVE_BALANCE_INCREMENT c) in *.
    assert (Hqa : q * adj < two64) by nia.
    rewrite (mul64_fine q adj) by exact Hqa.
    assert (Hdiv : q * adj / total <= q).
    { apply N.div_le_upper_bound; [lia|]. nia. }
    rewrite mul64_fine by nia.
    unfold decrease_balance_go. rewrite nthN_nth_error. destruct (nth_error bals (N.to_nat k)) as [b|] eqn:Hb.
    2:{ apply nth_error_None in Hb. lia. }
    set (pen := q * adj / total * EFFECTIVE_BALANCE_INCREMENT c).
    replace (if pen <=? b then b - pen else 0) with (b - pen) by (destruct (N.leb_spec pen b); lia).
    rewrite (updN_const_eq (fun b => b - pen) bals k b) by (rewrite nthN_nth_error; exact Hb).
    apply IH'. apply updN_length.
  Qed.

  Theorem slashings_refines (ce : N) (active : list N) (flats : list FlatValidator) (st : BeaconState) :
    SlashHyps ce active flats st ->
    Slashings.process_epoch_slashings c f ce active flats st = Some (Epoch.process_slashings E f st).
  Proof.
    intros [Hce Hact Hrel Hlen Hinc Htotal Hsum Hweight Hse Hnum].
    unfold Slashings.process_epoch_slashings, Epoch.process_slashings.
    rewrite <- Hce. unfold get_total_active_balance. rewrite <- Hce, <- Hact.
    rewrite (total_stake_eq active flats st Hrel) by (try assumption; intros i Hi; rewrite Hact in Hi; eapply active_indices_in_range; exact Hi).
    set (total := get_total_balance E st active).
    assert (Htot_inc : EFFECTIVE_BALANCE_INCREMENT c <= total) by (unfold total, get_total_balance; lia).
    unfold slashings_total_go. rewrite fold_add64_sum by exact Hsum. fold (sumN (slashings st)).
    rewrite multiplier_eq, mul64_fine by exact Hweight.
    set (w := sumN (slashings st) * proportional_slashing_multiplier E f).
    replace (if total <? w then total else w) with (N.min w total) by (destruct (N.ltb_spec total w); lia).
    rewrite combine_indices_indexed, spec_slash_state. unfold indexed.
    rewrite (slash_loop ce (N.min w total) total Hinc Hse ltac:(lia) Htot_inc flats (validators st) Hrel).
    - reflexivity.
    - intros v Hv. specialize (Hnum v Hv). unfold get_total_active_balance in Hnum. rewrite <- Hce, <- Hact in Hnum. exact Hnum.
    - lia.
  Qed.
End SlashingsRefine.

Print Assumptions slashings_refines.
