(* C02 assembly — stable names of the finished theorems (for Properties/C02.v; statements in design/C02-assembly.md).
   Impl = Beacon/Impl/{SyncRotation,Upgrades,EpochPipeline}.v (+ the sub-transition models of C02Theorems.v),
   Spec = Beacon/Spec/{Epoch,Transition}.v. *)
From Coq Require Import NArith List Bool.
From V Require Import Base.U64 Base.Outcome Ssz.SszCore Beacon.Config Beacon.Schemas Beacon.State
  Beacon.Spec.Helpers Beacon.Spec.Epoch Beacon.Spec.Transition.
From V Require Import Beacon.Impl.SyncRotation Beacon.Impl.Upgrades Beacon.Impl.EpochPipeline.
From V Require Import Beacon.Refine.SyncRotationRefine Beacon.Refine.UpgradesRefine Beacon.Refine.EpochAssembly.

(* ---- 1. sync-committee rotation (zrnt's sampling loop is uncapped; fuel = candidates examined) ---- *)
Definition C02A_sync_loop_refines := sync_loop_refines.                         (* candidate by candidate, same fuel *)
Definition C02A_sync_committee_indices_refines := sync_committee_indices_refines.
Definition C02A_next_sync_committee_refines := next_sync_committee_refines_ge.
Definition C02A_sync_rotation_refines := sync_rotation_refines.                 (* Spec Some st' => Impl Ok st', any fuel >= 40000 *)
Definition C02A_sync_rotation_rejects := sync_rotation_rejects.                 (* Spec None => Impl Err (no active) or still sampling *)
(* ---- 2. fork upgrades ---- *)
Definition C02A_applicable_flags_refines := applicable_flags_refines.
Definition C02A_translate_refines := translate_refines.
Definition C02A_upgrade_to_altair_refines := upgrade_to_altair_refines.
Definition C02A_upgrade_to_bellatrix_refines := upgrade_to_bellatrix_refines.
Definition C02A_upgrade_to_capella_refines := upgrade_to_capella_refines.
Definition C02A_upgrade_to_deneb_refines := upgrade_to_deneb_refines.
Definition C02A_upgrade_maybe_refines := upgrade_maybe_refines.
(* ---- 3. per-slot root caching ---- *)
Definition C02A_process_slot_refines := process_slot_refines.
(* ---- 4. assembly ---- *)
Definition C02A_altair_head_refines := altair_head_refines.
Definition C02A_phase0_head_refines := phase0_head_refines.
Definition C02A_tail_refines := tail_refines.
Definition C02A_process_epoch_refines_partial := process_epoch_refines_partial.   (* gap: MidBounds *)
Definition C02A_slot_step_refines_partial := slot_step_refines_partial.
Definition C02A_process_slots_refines_partial := process_slots_refines_partial.   (* gap: StepOk along the trajectory *)
Definition C02A_process_slots_rejects_past := process_slots_rejects_past.

Print Assumptions C02A_sync_rotation_refines.
Print Assumptions C02A_sync_rotation_rejects.
Print Assumptions C02A_upgrade_to_altair_refines.
Print Assumptions C02A_upgrade_maybe_refines.
Print Assumptions C02A_process_slot_refines.
Print Assumptions C02A_process_epoch_refines_partial.
Print Assumptions C02A_slot_step_refines_partial.
Print Assumptions C02A_process_slots_refines_partial.
