(* C07: zrnt's sync-committee sampling (sync_committee.go ComputeSyncCommitteeIndices: candidate through
   PermuteIndex on the active list, random byte from a hash CACHED for 32 candidates, effective-balance test,
   until SYNC_COMMITTEE_SIZE members) equals the specification's get_next_sync_committee_indices sampling loop
   (Beacon/Spec/Epoch.v sync_loop), whenever the specification's fuelled loop completes. *)
From Coq Require Import NArith ZArith List Lia Bool.
From Coq Require Import ZifyN ZifyNat ZifyBool.
From V Require Import Base.U64 Base.Outcome Ssz.SszCore Beacon.Config Beacon.State Beacon.Spec.Helpers Beacon.Spec.Epoch
  Beacon.Proofs.CommitteePartition Beacon.Proofs.ShuffleBridge Beacon.Impl.Shuffling
  Beacon.Refine.ShufflingRefine Beacon.Refine.ProposersRefine.
From V Require Shuffle.ShuffleModel Shuffle.ShuffleArith Shuffle.ShuffleIndexProofs.
Import ListNotations.
Local Open Scope N_scope.
Ltac Zify.zify_post_hook ::= Z.div_mod_to_equations.

Section SyncRefine.
  Variable E : Env.
  Notation c := (cfg E).
  Variable st : BeaconState.
  Notation vals := (validators st).
  Variable idx : list N.          (* the active validator indices of the base epoch *)
  Variable seed : bytes.          (* get_seed(state, base_epoch, DOMAIN_SYNC_COMMITTEE) *)
  Notation n := (N.of_nat (length idx)).
  Hypothesis Hok : proposer_params_ok E st idx.
  Hypothesis Hn : 0 < n.

  Notation cand := (cand_at E idx seed).
  Notation accept := (accept_at E st idx seed).

  Lemma sync_spec_step k I need :
    sync_loop E (S k) st idx seed I (S need) =
    if accept I
    then match sync_loop E k st idx seed (I + 1) need with Some rest => Some (cand I :: rest) | None => None end
    else sync_loop E k st idx seed (I + 1) (S need).
  Proof.
    cbn [sync_loop]. unfold Helpers.compute_shuffled_index.
    replace (I mod n <? n) with true by (symmetry; apply N.ltb_lt; apply N.mod_lt; lia).
    change (shuffle_rounds E (N.to_nat (SHUFFLE_ROUND_COUNT c)) 0 (I mod n) n seed) with (sigma E idx seed (I mod n)).
    rewrite (nthN_nth idx _ 0) by (apply (sigma_lt E idx seed Hn)). reflexivity.
  Qed.

  Lemma sync_impl_step k h I acc size :
    N.of_nat (length acc) < size -> I + 1 < two64 ->
    (I mod 32 <> 0 -> h = Hash E (seed ++ le8 (I / 32))) ->
    sync_indices_loop E (S k) vals idx seed h I acc size =
    sync_indices_loop E k vals idx seed (Hash E (seed ++ le8 (I / 32))) (I + 1)
                      (if accept I then acc ++ [cand I] else acc) size.
  Proof.
    intros Hacc HI Hh. destruct Hok as [pp_rounds0 pp_bytes0 pp_size0 pp_active0 pp_max0 pp_eb0].
    cbn [sync_indices_loop].
    replace (N.of_nat (length acc) <? size) with true by (symmetry; apply N.ltb_lt; exact Hacc).
    assert (Hw : ShuffleModel.wrap8 (SHUFFLE_ROUND_COUNT c) = SHUFFLE_ROUND_COUNT c)
      by (unfold ShuffleModel.wrap8; apply N.mod_small; lia).
    rewrite Hw.
    assert (Hperm : ShuffleModel.permute_index (Hash E) seed (SHUFFLE_ROUND_COUNT c) (I mod n) n
                    = Ok (sigma E idx seed (I mod n))).
    { apply (sigma_is_go_permute_index E idx seed (I mod n)); try assumption. apply N.mod_lt. lia. }
    rewrite Hperm. cbn [bind]. pose proof (sigma_lt E idx seed Hn I) as Hs.
    rewrite (nth_error_nth' idx 0) by lia. fold (cand I).
    assert (Hcand : cand I < N.of_nat (length vals)).
    { rewrite Forall_forall in pp_active0. apply pp_active0. unfold cand_at. apply nth_In. lia. }
    unfold accept_at, eff_bal.
    unfold nthN. replace (cand I <? N.of_nat (length vals)) with true by (symmetry; apply N.ltb_lt; exact Hcand).
    destruct (nth_error vals (N.to_nat (cand I))) as [v|] eqn:Ev; [|apply nth_error_None in Ev; lia].
    assert (Hv : v_effective_balance v * 255 < two64).
    { rewrite Forall_forall in pp_eb0. apply pp_eb0. eapply nth_error_In. exact Ev. }
    (* the cached hash is the fresh one *)
    assert (Eh : (if I mod 32 =? 0 then Hash E (seed ++ le8 (I / 32)) else h) = Hash E (seed ++ le8 (I / 32))).
    { destruct (N.eqb_spec (I mod 32) 0); [reflexivity|auto]. }
    rewrite Eh. change (uint_to_bytes 8 (I / 32)) with (le8 (I / 32)).
    set (rb := nth (N.to_nat (I mod 32)) (Hash E (seed ++ le8 (I / 32))) 0).
    assert (Hrb : rb < 256) by (apply (ShuffleArith.byte_at_lt _ (N.to_nat (I mod 32))); apply pp_bytes0).
    unfold mul64, add64. rewrite !wrap64_small by nia. reflexivity.
  Qed.

  (* loop invariant: accumulated members ++ what the spec loop still produces *)
  Lemma sync_loop_refines : forall fuel I need acc h rest,
    I + N.of_nat fuel < two64 ->
    (I mod 32 <> 0 -> h = Hash E (seed ++ le8 (I / 32))) ->
    sync_loop E fuel st idx seed I need = Some rest ->
    sync_indices_loop E fuel vals idx seed h I acc (N.of_nat (length acc + need)) = Ok (acc ++ rest).
  Proof.
    induction fuel as [|k IH]; intros I need acc h rest HI Hh Hs.
    - destruct need; cbn [sync_loop] in Hs; [|discriminate]. injection Hs as <-.
      cbn [sync_indices_loop].
      replace (N.of_nat (length acc) <? N.of_nat (length acc + 0)) with false by (symmetry; apply N.ltb_ge; lia).
      rewrite app_nil_r. reflexivity.
    - destruct need as [|need].
      + cbn [sync_loop] in Hs. injection Hs as <-. cbn [sync_indices_loop].
        replace (N.of_nat (length acc) <? N.of_nat (length acc + 0)) with false by (symmetry; apply N.ltb_ge; lia).
        rewrite app_nil_r. reflexivity.
      + rewrite sync_spec_step in Hs. rewrite sync_impl_step by (try assumption; lia).
        assert (Hh' : (I + 1) mod 32 <> 0 -> Hash E (seed ++ le8 (I / 32)) = Hash E (seed ++ le8 ((I + 1) / 32))).
        { intros Hne. replace ((I + 1) / 32) with (I / 32) by lia. reflexivity. }
        destruct (accept I).
        * destruct (sync_loop E k st idx seed (I + 1) need) as [rest'|] eqn:Er; [|discriminate].
          injection Hs as <-.
          replace (N.of_nat (length acc + S need)) with (N.of_nat (length (acc ++ [cand I]) + need))
            by (rewrite app_length; cbn [length]; lia).
          rewrite (IH (I + 1) need (acc ++ [cand I]) _ rest') by (try assumption; lia).
          rewrite <- app_assoc. reflexivity.
        * apply IH; try assumption; lia.
  Qed.

  (* ===== ComputeSyncCommitteeIndices = the spec's sampling, whenever the spec loop completes within its fuel ===== *)
  Theorem sync_committee_indices_refines_partial fuel l : N.of_nat fuel < two64 ->
    sync_loop E fuel st idx seed 0 (N.to_nat (SYNC_COMMITTEE_SIZE c)) = Some l ->
    compute_sync_committee_indices_impl E fuel vals idx seed = Ok l.
  Proof.
    intros Hf Hs. unfold compute_sync_committee_indices_impl.
    replace (n =? 0) with false by (symmetry; apply N.eqb_neq; lia).
    pose proof (sync_loop_refines fuel 0 (N.to_nat (SYNC_COMMITTEE_SIZE c)) [] (repeat 0 32) l ltac:(lia)) as R.
    cbn [length plus app] in R. rewrite N2Nat.id in R. apply R; [|exact Hs].
    intros Hne. exfalso. apply Hne. reflexivity.
  Qed.
End SyncRefine.

(* against the state: get_next_sync_committee_indices *)
Theorem next_sync_committee_indices_refines_partial E st l :
  let epoch := get_current_epoch E st + 1 in
  let active := get_active_validator_indices st epoch in
  SHUFFLE_ROUND_COUNT (cfg E) <= 255 -> (forall m, ShuffleArith.bytes_ok (Hash E m)) ->
  N.of_nat (length active) <= ShuffleIndexProofs.spec_limit ->
  MAX_EFFECTIVE_BALANCE (cfg E) * 255 < two64 ->
  Forall (fun v => v_effective_balance v * 255 < two64) (validators st) ->
  get_next_sync_committee_indices E st = Some l ->
  compute_sync_committee_indices_impl E PROPOSER_FUEL (validators st) active
    (get_seed E st epoch DOMAIN_SYNC_COMMITTEE) = Ok l.
Proof.
  intros epoch active HR Hb Hlim Hmax Heb Hs.
  assert (Hf : N.of_nat PROPOSER_FUEL < two64) by (unfold PROPOSER_FUEL, two64; lia).
  unfold get_next_sync_committee_indices in Hs. fold epoch in Hs. fold active in Hs.
  revert Hf Hs. generalize PROPOSER_FUEL. intros fuel Hf Hs.
  destruct (N.of_nat (length active) =? 0) eqn:En; cbn [negb] in Hs; [discriminate|].
  apply N.eqb_neq in En.
  apply (sync_committee_indices_refines_partial E st active); try assumption; try lia.
  constructor; try assumption. apply active_indices_in_registry.
Qed.
