(* Witnesses for the altair refinement: non-vacuity, the refutation of the pinned snapshot's current-epoch target
   stake, and the state on which zrnt's sum-then-apply of the delta sets differs from the spec (FINDING). *)
From Coq Require Import NArith ZArith Lia List Bool.
From RecordUpdate Require Import RecordSet.
From V Require Import Base.U64 Beacon.Config Beacon.State Beacon.Spec.Helpers Beacon.Spec.Epoch.
From V Require Import Beacon.Impl.Flat Beacon.Impl.AltairAttester Beacon.Impl.Justification.
From V Require Import Beacon.Refine.AltairDomain Beacon.Refine.AltairRefine Beacon.Refine.AltairCheck Beacon.Refine.Fixtures.
Import ListNotations RecordSetNotations.
Local Open Scope N_scope.

Definition FARE := FAR_FUTURE_EPOCH.
Definition altair_state (s : N) (vs : list Validator) (bs pp cp sc : list N) (fin : N) : BeaconState :=
  (state_with s vs bs) <| previous_epoch_participation := pp |> <| current_epoch_participation := cp |>
     <| inactivity_scores := sc |> <| finalized_checkpoint := cp0 fin |>.

(* ---------- 1. the pinned snapshot's current-epoch target stake ----------
   End of epoch 2 (slot 23).  Validators 0-2 are active since genesis, 3 and 4 were activated in epoch 2 and
   attested to the current target, as did 0 and 1.  Spec: 128 of 160 ETH >= 2/3: the current epoch is justified.
   The pinned snapshot summed over the PREVIOUS epoch's active set (0-2): 64 ETH < 2/3: not justified. *)
Definition w_target : BeaconState :=
  altair_state 23
    [ mkv (32 * ETH) false 0 0 FARE FARE; mkv (32 * ETH) false 0 0 FARE FARE; mkv (32 * ETH) false 0 0 FARE FARE;
      mkv (32 * ETH) false 0 2 FARE FARE; mkv (32 * ETH) false 0 2 FARE FARE ]
    (repeat (32 * ETH) 5) [7; 7; 7; 0; 0] [2; 2; 0; 2; 2] [0; 0; 0; 0; 0] 1.

Definition cur_target_of (x : option EpochAttesterData) : option N := option_map ad_cur_target_stake x.
Theorem altair_curr_target_orig_refuted :
  exists st : BeaconState,
    let E := tiny_env in
    let epc := fresh_epc E st in
    let flats := flatten_validators (validators st) in
    let total := get_total_active_balance E st in
    altair_hypsb E st = true /\
    option_map (get_total_balance E st)
      (get_unslashed_participating_indices E st TIMELY_TARGET_FLAG_INDEX (get_current_epoch E st)) = Some (128 * ETH) /\
    cur_target_of (compute_epoch_attester_data tiny_cfg epc flats st) = Some (128 * ETH) /\
    cur_target_of (compute_epoch_attester_data_orig tiny_cfg epc flats st) = Some (64 * ETH) /\
    (total * 2 <=? 128 * ETH * 3) = true /\       (* the spec and the repaired code justify epoch 2 *)
    (total * 2 <=? 64 * ETH * 3) = false.         (* the pinned snapshot does not *)
Proof. exists w_target. vm_compute. repeat split; reflexivity. Qed.

(* ---------- 2. FINDING: sum-then-apply vs sequential application ----------
   End of epoch 2, bellatrix quotients.  Validator 0 (effective balance 32 ETH) holds 1000 Gwei; in the previous
   epoch it earned the target flag but missed source and head.  Spec: the source penalty (1445913) empties the
   balance (saturating at 0), then the target reward (2685267) is added: final balance 2685267.  zrnt: rewards
   and penalties are summed first and applied once: 1000 + 2685267 - 1445913 = 1240354.
   The state satisfies every other hypothesis of altair_rewards_refines; only NoMidSaturation fails.
   (Such a balance is far below what hysteresis lets a 32 ETH effective balance keep; no reachable state under
   the mainnet/minimal configuration is known to violate NoMidSaturation.) *)
Definition w_order : BeaconState :=
  altair_state 23
    [ mkv (32 * ETH) false 0 0 FARE FARE; mkv (32 * ETH) false 0 0 FARE FARE; mkv (32 * ETH) false 0 0 FARE FARE ]
    [ 1000; 32 * ETH; 32 * ETH ] [2; 7; 7] [0; 7; 7] [0; 0; 0] 1.

Definition impl_rewards (f : fork) (st : BeaconState) : option BeaconState :=
  match compute_epoch_attester_data tiny_cfg (fresh_epc tiny_env st) (flatten_validators (validators st)) st with
  | Some ad => process_epoch_rewards_and_penalties tiny_cfg f (fresh_epc tiny_env st) ad st
  | None => None
  end.
Theorem altair_delta_order_refuted :
  exists st : BeaconState,
    let E := tiny_env in
    altair_hypsb E st = true /\
    (cp_epoch (finalized_checkpoint st) <=? get_previous_epoch E st) = true /\
    flag_boundsb E st 0 = true /\ flag_boundsb E st 1 = true /\ flag_boundsb E st 2 = true /\ inact_boundsb E Bellatrix st = true /\
    no_mid_saturationb E Bellatrix st = false /\
    option_map (fun s => nth 0 (balances s) 0) (impl_rewards Bellatrix st) = Some 1240354 /\
    option_map (fun s => nth 0 (balances s) 0) (Epoch.process_rewards_and_penalties E Bellatrix st) = Some 2685267.
Proof. exists w_order. vm_compute. repeat split; reflexivity. Qed.

(* ---------- 3. non-vacuity ----------
   Four validators, one slashed, partial participation, an inactivity leak (finalized epoch 0, previous epoch 6,
   MIN_EPOCHS_TO_INACTIVITY_PENALTY 4), non-zero scores: every hypothesis holds and every balance and score moves. *)
Definition w_ok : BeaconState :=
  altair_state 63
    [ mkv (32 * ETH) false 0 0 FARE FARE; mkv (31 * ETH) false 0 0 FARE FARE; mkv (32 * ETH) true 0 0 5 70; mkv (17 * ETH) false 0 0 FARE FARE ]
    [ 32 * ETH; 31 * ETH + 5; 30 * ETH; 17 * ETH ] [7; 2; 7; 0] [7; 7; 0; 3] [0; 9; 40; 1000] 0.

Example altair_nonvacuous :
  let E := tiny_env in
  altair_rewards_hypsb E Altair w_ok = true /\
  is_in_inactivity_leak E w_ok = true /\
  option_map balances (Epoch.process_rewards_and_penalties E Altair w_ok) = Some [32000000000; 30998465585; 29995468163; 16997511401] /\
  option_map inactivity_scores (Epoch.process_inactivity_updates E w_ok) = Some [0; 8; 44; 1004].
Proof. vm_compute. repeat split; reflexivity. Qed.

Print Assumptions altair_rewards_refines.
Print Assumptions inactivity_updates_refines.
Print Assumptions attester_data_refines.
Print Assumptions altair_delta_order_refuted.
